/-
  Refinement MODULO CALLEES: the generated IR (SMGo/Gen/CTIRProg.lean) of the scalar-multiplication schedules
  of /repo/sm2/internal/sm2_curve.go computes the hand-written models of SMGo/Model/Curve.lean:

  * `fn_82` internal.scalarBaseMult_SkipBitExtration  vs  `Model.Curve.scalarBaseMult` (the comb, any
    window-subtables-iterations-remainder scheme): `ir_scalarBaseMult_eq_model`, and the pieces `ir_comb_ok`,
    `ir_comb_err`, `ir_comb_panic` (the three explicit `panic(...)`), `ir_comb_fails`, `ir_comb_outside`;
    body level (for callers, any program): `comb_body_ok/err/panic/fails/outside`.
  * `fn_88` internal.ScalarMult  vs  `Model.Curve.scalarMult` (4-bit fixed window): `SM.ir_scalarMult_eq_model`,
    body level `SM.sm_body`.

  The point operations (NewSM2Point 73, Double 79, Add 78, Set 75, selectPoints 5, MultiSelectXYZ 80,
  TransformPrecomputed 81) are UNINTERPRETED IR functions related to the operations of an arbitrary `GOps Γ` by
  hypotheses (`Computes`: the body of the IR function returns the encoding of the model's result, with an
  explicit fuel; `CalleeFails`: it ends in `panic` or is stuck).  The bit-extraction helpers (2, 3, 4) are the
  refinements proved in SMGo/Proofs/CTIRRefineCurve.lean.  Fuels are explicit (`fuelComb`, `SM.fuelSM`); there
  is no termination hypothesis.

  A panic of the model is matched by `Fails`: the IR ends in an explicit `panic` (enough fuel) or is stuck with
  every fuel (a Go run-time panic: index out of range; the interpreter has no separate signal for it).

  Model/IR DISAGREEMENTS found (excluded by hypotheses, see `ir_scalarBaseMult_eq_model`):
  1. `remainder ≥ 1` and `*second` EMPTY (e.g. the 6-3-14-4 scheme with `second = []`): the model takes
     `(second.getD 0 []).length = 0` and calls `selectXY [] 0 bits`, which for the point layer is `.ok` (the
     width check `0 ≠ 0` passes): the model RETURNS A POINT; the IR (Go) is stuck at `len(points[0])`: index out
     of range.  Checked by evaluation (model `.ok`, IR `stuck`).  Hypothesis `hsec`.
  2. `subTableCount > len(*first)`: the model reads `first.getD j []` (an empty table) and continues with
     whatever `Ops.selectXY [] …` returns; the IR is stuck at `(*first)[j]`.  For the point layer
     `selectXY [] (2^window-1) bits` panics (width check), so there both sides fail; for an abstract `Ops` this
     is a disagreement.  Hypothesis `hlen`.  `ir_comb_outside` proves that the IR ALWAYS fails in cases 1, 2.
  3. Overflow of Go's `window*subTableCount*iterations+remainder`: `window = 8, subTableCount = 2^61+32,
     iterations = 1, remainder = 0`: the model panics at "invalid scheme" (natural-number sum 2^64+256), the IR
     sum wraps around to 256, the check passes and the run goes on (and is stuck later in extractBit).
     Checked by evaluation (model `.panic`, IR `stuck`, not `panic`).  Hypothesis `hprod`.
  4. The error path `len(k) ≠ 32` calls `fmt.Errorf` (external 10) and ignores its result: the IR is stuck if
     the oracle does not return exactly one value.  Hypothesis `hX`.
  Not a disagreement: a valid scheme with `*first` or `(*first)[0]` empty: the model reports the explicit panic
  "invalid parameter" (length 0 ≠ windowWidth), the IR is stuck at `len((*first)[0][0])` (`comb_body_stuck3`).
-/
import SMGo.Proofs.CTIRRefineCurve
import SMGo.Gen.CTIRProg
import SMGo.Model.Curve
open SMGo SMGo.Model.CTIR SMGo.Gen.CTIRProg SMGo.Proofs.CTIRRefineUtils SMGo.Proofs.CTIRRefineCurve

namespace SMGo.Proofs.CTIRRefineComb

abbrev Table := Model.Curve.Table

/-! ## Encodings -/

/-- a `*[4]uint64` (any number of limbs) -/
def limbsV (l : List Nat) : Val := .arr (l.map (fun (x : Nat) => Val.int (x : Int)))
/-- a `[][]*[4]uint64`: rows (x, y, (z)) of entries -/
def encT (t : Table) : Val := .arr (t.map (fun r => Val.arr (r.map limbsV)))
/-- a `[][][]*[4]uint64` -/
def encTs (first : List Table) : Val := .arr (first.map encT)
/-- the IR value of a nil `*SM2Point` result: a zero value of the shape of a point -/
def nilPointV : Val :=
  .arr (List.replicate 3 (.arr (List.replicate 1 (.arr (List.replicate 4 (.int 0))))))

/-! ## Callee contracts and the calls -/

section Judge
variable {P : Prog} {G : Nat → Val} {X : Oracle}

/-- function `g` of `P`, run on `args` with fuel ≥ `F`, returns `res` -/
def Computes (P : Prog) (G : Nat → Val) (X : Oracle) (g F : Nat) (args res : List Val) : Prop :=
  ∃ fn env', P[g]? = some fn ∧ fn.stub = false ∧ args.length = fn.nparams ∧
    EvIn P G X F (Env.ofList args) fn.body env' (.ret res)

/-- function `g` of `P` on `args` ends in an explicit `panic` (some fuel bound) or is stuck (a run-time
    panic: index out of range) -/
def CalleeFails (P : Prog) (G : Nat → Val) (X : Oracle) (g : Nat) (args : List Val) : Prop :=
  (∃ fn F env', P[g]? = some fn ∧ fn.stub = false ∧ args.length = fn.nparams ∧
    EvIn P G X F (Env.ofList args) fn.body env' .panic) ∨
  (∃ fn, P[g]? = some fn ∧ Stuck P G X (Env.ofList args) fn.body)

theorem Computes.call {g F : Nat} {vs rs : List Val} (h : Computes P G X g F vs rs)
    {env env1 : Env} {lhs : List Nat} {args : List Expr}
    (ha : evalVs G env args = some vs) (hset : env.setMany lhs rs = some env1) :
    EvIn P G X (F + 1) env (.call lhs g args) env1 .norm := by
  obtain ⟨fn, envc, hg, hs, hn, hb⟩ := h
  exact EvIn.call ha hg hs hn hb hset

theorem evIn_call_panic {F : Nat} {env envc : Env} {lhs : List Nat} {g : Nat} {args : List Expr}
    {vs : List Val} {fn : Fn}
    (ha : evalVs G env args = some vs) (hg : P[g]? = some fn) (hs : fn.stub = false)
    (hn : vs.length = fn.nparams)
    (hb : EvIn P G X F (Env.ofList vs) fn.body envc .panic) :
    EvIn P G X (F + 1) env (.call lhs g args) env .panic := by
  intro f hf; obtain ⟨f, rfl⟩ := Nat.exists_eq_add_of_le' (by omega : 1 ≤ f)
  rw [execV_call, ha, hg]
  simp only [hs, hn, bne_self_eq_false, Bool.or_self, Bool.false_eq_true, ↓reduceIte]
  rw [hb f (by omega)]

/-- the statement ends in an explicit `panic` (with enough fuel) or is stuck with every fuel -/
def Fails (P : Prog) (G : Nat → Val) (X : Oracle) (env : Env) (s : Stmt) : Prop :=
  (∃ F env', EvIn P G X F env s env' .panic) ∨ Stuck P G X env s

theorem Fails.seq_left {env : Env} {a b : Stmt} (h : Fails P G X env a) : Fails P G X env (.seq a b) := by
  rcases h with ⟨F, env', h⟩ | h
  · exact Or.inl ⟨_, _, EvIn.seq_stop h (by simp)⟩
  · exact Or.inr (Stuck.seq_left h)

theorem Fails.seq_right {F : Nat} {env env1 : Env} {a b : Stmt}
    (ha : EvIn P G X F env a env1 .norm) (h : Fails P G X env1 b) : Fails P G X env (.seq a b) := by
  rcases h with ⟨F', env', h⟩ | h
  · exact Or.inl ⟨_, _, EvIn.seq ha h⟩
  · exact Or.inr (Stuck.seq_right ha h)

theorem Fails.ite {env : Env} {c : Expr} {a b : Stmt} {v : Val} {d : Bool}
    (hc : evalV G env c = some v) (hd : asBool v = some d)
    (h : Fails P G X env (if d then a else b)) : Fails P G X env (.ite c a b) := by
  rcases h with ⟨F', env', h⟩ | h
  · exact Or.inl ⟨_, _, EvIn.ite hc hd h⟩
  · exact Or.inr (Stuck.ite hc hd h)

theorem Fails.loop_body {env : Env} {c : Expr} {body post : Stmt} {v : Val}
    (hc : evalV G env c = some v) (hd : asBool v = some true) (h : Fails P G X env body) :
    Fails P G X env (.loop c body post) := by
  rcases h with ⟨F', env', h⟩ | h
  · exact Or.inl ⟨_, _, EvIn.loop_leave hc hd h (by simp)⟩
  · exact Or.inr (Stuck.loop_body hc hd h)

theorem Fails.loop_round {Fb Fp : Nat} {env env1 env2 : Env} {c : Expr} {body post : Stmt}
    {v : Val} {cb : Ctl}
    (hc : evalV G env c = some v) (hd : asBool v = some true)
    (hb : EvIn P G X Fb env body env1 cb) (hcb : cb = .norm ∨ cb = .cont)
    (hp : EvIn P G X Fp env1 post env2 .norm)
    (h : Fails P G X env2 (.loop c body post)) : Fails P G X env (.loop c body post) := by
  rcases h with ⟨F', env', h⟩ | h
  · exact Or.inl ⟨_, _, EvIn.loop_round hc hd hb hcb hp h⟩
  · exact Or.inr (Stuck.loop_round hc hd hb hcb hp h)

theorem Fails.call {env : Env} {lhs : List Nat} {g : Nat} {args : List Expr} {vs : List Val}
    (ha : evalVs G env args = some vs) (h : CalleeFails P G X g vs) :
    Fails P G X env (.call lhs g args) := by
  rcases h with ⟨fn, F, envc, hg, hs, hn, hb⟩ | ⟨fn, hg, hb⟩
  · exact Or.inl ⟨_, _, evIn_call_panic ha hg hs hn hb⟩
  · exact Or.inr (Stuck.call ha hg hb)

theorem Fails.args {env : Env} {lhs : List Nat} {g : Nat} {args : List Expr}
    (ha : evalVs G env args = none) : Fails P G X env (.call lhs g args) := by
  right
  intro f
  cases f with
  | zero => rfl
  | succ f => rw [execV_call, ha]

/-- a failing body: the run panics (with enough fuel) or is stuck with every fuel -/
theorem runV_of_Fails {g : Nat} {args : List Val} {fn : Fn}
    (hg : P[g]? = some fn) (hs : fn.stub = false) (hn : args.length = fn.nparams)
    (h : Fails P G X (Env.ofList args) fn.body) :
    (∃ F, ∀ f, F ≤ f → runV P G X f g args = .panic) ∨ (∀ f, runV P G X f g args = .stuck) := by
  rcases h with ⟨F, env', h⟩ | h
  · exact Or.inl ⟨F, runV_of_EvIn hg hs hn h⟩
  · exact Or.inr (runV_of_Stuck hg h)

end Judge


/-! ## The program text of `fn_82` in pieces -/

def iCondE : Expr := .op2 .lt (.var 14) (.var 4)
def iCall3 : Stmt := .call [15] 3 [(.var 0), (.op2 (.add .i64) (.op2 (.add .i64) (.var 13) (.op2 (.mul .i64) (.var 14) (.var 5))) (.var 6)), (.var 3), (.op2 (.mul .i64) (.var 4) (.var 5))]
def iCall5 : Stmt := .call [18, 7] 5 [(.var 18), (.idx (.var 1) (.var 14)), (.var 8), (.var 16)]
def iTailS : Stmt := .ite (.op1 .lnot (.var 12)) (.call [11, 7] 78 [(.var 11), (.var 11), (.var 18)])
    (seqs [.call [11, 7] 75 [(.var 11), (.var 18)], .assign 12 [] (.lit 0)])
def iBodyS : Stmt := seqs [iCall3, .assign 16 [] (.var 15), .call [17] 73 [], .assign 18 [] (.var 17), iCall5, iTailS]
def iPostS : Stmt := .assign 14 [] (.op2 (.add .i64) (.var 14) (.lit 1))
def iLoopS : Stmt := .loop iCondE iBodyS iPostS
def oCondE : Expr := .op2 .ge (.var 13) (.lit 0)
def oDblS : Stmt := .ite (.op1 .lnot (.var 12)) (.call [11, 7] 79 [(.var 11), (.var 11)]) .skip
def oBodyS : Stmt := seqs [oDblS, .assign 14 [] (.lit 0), iLoopS]
def oPostS : Stmt := .assign 13 [] (.op2 (.sub .i64) (.var 13) (.lit 1))
def oLoopS : Stmt := .loop oCondE oBodyS oPostS
def remThenS : Stmt := seqs [.call [19] 4 [(.var 0), (.var 6)],
    .assign 20 [] (.var 19),
    .assign 21 [] (.mk (.lit 0) (.mk (.lit 0) (.mk (.lit 4) (.lit 0)))),
    .assign 21 [] (.var 2),
    .call [22] 73 [],
    .assign 23 [] (.var 22),
    .call [23, 7] 5 [(.var 23), (.var 21), (.len (.idxc (.var 21) 0)), (.var 20)],
    .call [11, 7] 78 [(.var 11), (.var 11), (.var 23)]]
def remS : Stmt := .ite (.op2 .ge (.var 6) (.lit 1)) remThenS .skip
/-- from `ret := NewSM2Point()` on -/
def mainS : Stmt := seqs [.call [10] 73 [], .assign 11 [] (.var 10), .assign 12 [] (.lit 1),
    .assign 13 [] (.op2 (.sub .i64) (.var 5) (.lit 1)), oLoopS, remS, .ret [(.var 11), (.lit 0)], .panic]
def chk1S : Stmt := .ite (.op2 .lor (.op2 .lor (.op2 .gt (.var 3) (.lit 8)) (.op2 .lt (.var 6) (.lit 0))) (.op2 .gt (.var 6) (.lit 4))) (.panic) .skip
def chk2S : Stmt := .ite (.op2 .ne (.op2 (.add .i64) (.op2 (.mul .i64) (.op2 (.mul .i64) (.var 3) (.var 4)) (.var 5)) (.var 6)) (.lit 256)) (.panic) .skip
def wwS : Stmt := .assign 8 [] (.op2 (.sub .i64) (.op2 (.shl .i64) (.lit 1) (.var 3)) (.lit 1))
def chk3S : Stmt := .ite (.op2 .ne (.len (.idxc (.idxc (.var 1) 0) 0)) (.var 8)) (.panic) .skip
def errS : Stmt := seqs [.ext [9] 10 true [(.len (.var 0)), (.lit 32)],
    .ret [(.mk (.lit 3) (.mk (.lit 1) (.mk (.lit 4) (.lit 0)))), (.lit 1)]]
def chkLenS : Stmt := .ite (.op2 .ne (.len (.var 0)) (.lit 32)) errS .skip

theorem fn_82_body : fn_82.body = seqs [chk1S, chk2S, wwS, chk3S, chkLenS, mainS] := rfl

/-! ## The model in recursive form -/

/-- the parameters of a run -/
structure Params where
  k : Bytes
  first : List Table
  second : Table
  window : Nat
  sub : Nat
  iter : Nat
  rem : Nat

section Model
variable {Γ : Type} (Ops : Model.Curve.GOps Γ) (p : Params)

/-- one round `j` of the inner loop at iteration `i` -/
def innerStep (i : Nat) (st : Γ × Bool) (j : Nat) : Outcome (Γ × Bool) := do
  let (ret, skip) := st
  let bits ← Model.Curve.extractHigherBits p.k (i + j * p.iter + p.rem) p.window (p.sub * p.iter)
  let tmp ← Ops.selectXY (p.first.getD j []) (2 ^ p.window - 1) bits
  if !skip then pure (Ops.add ret tmp, false) else pure (tmp, false)

def innerFrom (i j n : Nat) (st : Γ × Bool) : Outcome (Γ × Bool) :=
  (List.range' j n).foldlM (innerStep Ops p i) st

theorem combInner_eq (i : Nat) (st : Γ × Bool) :
    Model.Curve.combInner Ops p.k p.first p.window p.sub p.iter p.rem i st = innerFrom Ops p i 0 p.sub st := by
  unfold Model.Curve.combInner innerFrom
  rw [List.range_eq_range']
  rfl

theorem innerFrom_zero (i j : Nat) (st : Γ × Bool) : innerFrom Ops p i j 0 st = .ok st := rfl

theorem innerFrom_succ (i j n : Nat) (st : Γ × Bool) :
    innerFrom Ops p i j (n + 1) st = innerStep Ops p i st j >>= fun st' => innerFrom Ops p i (j + 1) n st' := by
  simp only [innerFrom, List.range'_succ, List.foldlM_cons]

theorem innerStep_eq (i : Nat) (ret : Γ) (skip : Bool) (j : Nat) :
    innerStep Ops p i (ret, skip) j =
      (Model.Curve.extractHigherBits p.k (i + j * p.iter + p.rem) p.window (p.sub * p.iter) >>= fun bits =>
        Ops.selectXY (p.first.getD j []) (2 ^ p.window - 1) bits >>= fun tmp =>
          .ok (if skip then tmp else Ops.add ret tmp, false)) := by
  cases skip <;> rfl

/-- one iteration of the outer loop: `ii` counts up, `i = iterations - 1 - ii` -/
def outerStep (st : Γ × Bool) (ii : Nat) : Outcome (Γ × Bool) :=
  let i := p.iter - 1 - ii
  let st := if !st.2 then (Ops.double st.1, st.2) else st
  Model.Curve.combInner Ops p.k p.first p.window p.sub p.iter p.rem i st

def outerFrom (ii n : Nat) (st : Γ × Bool) : Outcome (Γ × Bool) :=
  (List.range' ii n).foldlM (outerStep Ops p) st

theorem outerFrom_zero (ii : Nat) (st : Γ × Bool) : outerFrom Ops p ii 0 st = .ok st := rfl

theorem outerFrom_succ (ii n : Nat) (st : Γ × Bool) :
    outerFrom Ops p ii (n + 1) st = outerStep Ops p st ii >>= fun st' => outerFrom Ops p (ii + 1) n st' := by
  simp only [outerFrom, List.range'_succ, List.foldlM_cons]

theorem outerStep_eq (ret : Γ) (skip : Bool) (ii : Nat) :
    outerStep Ops p (ret, skip) ii =
      innerFrom Ops p (p.iter - 1 - ii) 0 p.sub (if skip then ret else Ops.double ret, skip) := by
  unfold outerStep
  rw [combInner_eq]
  cases skip <;> rfl

/-- the part of the model after the parameter checks -/
def mainM : Outcome Γ :=
  outerFrom Ops p 0 p.iter (Ops.infinity, true) >>= fun st =>
    if p.rem ≥ 1 then
      Model.Curve.extractLowerBits p.k p.rem >>= fun bits =>
        Ops.selectXY p.second ((p.second.getD 0 []).length) bits >>= fun tmp =>
          .ok (Ops.add st.1 tmp)
    else .ok st.1

theorem scalarBaseMult_eq :
    Model.Curve.scalarBaseMult Ops p.k p.first p.second p.window p.sub p.iter p.rem =
      if p.window > 8 ∨ p.rem > 4 then .panic else
      if p.window * p.sub * p.iter + p.rem ≠ 256 then .panic else
      if ((p.first.getD 0 []).getD 0 []).length ≠ 2 ^ p.window - 1 then .panic else
      if p.k.length ≠ 32 then .err else mainM Ops p := by
  unfold Model.Curve.scalarBaseMult mainM outerFrom
  rw [List.range_eq_range']
  rfl

end Model


/-! ## The IR side: state invariants and callee hypotheses -/

/-- the parameters and `windowWidth` in the environment -/
structure PInv (env : Env) (p : Params) : Prop where
  h0 : env 0 = bytesV p.k
  h1 : env 1 = encTs p.first
  h2 : env 2 = encT p.second
  h3 : env 3 = .int (p.window : Int)
  h4 : env 4 = .int (p.sub : Int)
  h5 : env 5 = .int (p.iter : Int)
  h6 : env 6 = .int (p.rem : Int)
  h8 : env 8 = .int ((2 ^ p.window - 1 : Nat) : Int)

theorem PInv.set {env : Env} {p : Params} (h : PInv env p) (x : Nat) (v : Val)
    (hx : 0 ≠ x ∧ 1 ≠ x ∧ 2 ≠ x ∧ 3 ≠ x ∧ 4 ≠ x ∧ 5 ≠ x ∧ 6 ≠ x ∧ 8 ≠ x) : PInv (env.set x v) p := by
  obtain ⟨n0, n1, n2, n3, n4, n5, n6, n8⟩ := hx
  exact ⟨by rw [Env.set_other _ _ n0]; exact h.h0, by rw [Env.set_other _ _ n1]; exact h.h1,
    by rw [Env.set_other _ _ n2]; exact h.h2, by rw [Env.set_other _ _ n3]; exact h.h3,
    by rw [Env.set_other _ _ n4]; exact h.h4, by rw [Env.set_other _ _ n5]; exact h.h5,
    by rw [Env.set_other _ _ n6]; exact h.h6, by rw [Env.set_other _ _ n8]; exact h.h8⟩

/-- a scheme that passed the explicit checks: `1 ≤ window ≤ 8`, `window*sub*iter + rem = 256` -/
structure Scheme (p : Params) : Prop where
  w8 : p.window ≤ 8
  r4 : p.rem ≤ 4
  sum : p.window * p.sub * p.iter + p.rem = 256

theorem Scheme.bounds {p : Params} (h : Scheme p) :
    1 ≤ p.window ∧ 1 ≤ p.sub ∧ p.sub ≤ 256 ∧ 1 ≤ p.iter ∧ p.iter ≤ 256 ∧ p.sub * p.iter ≤ 256 := by
  obtain ⟨w8, r4, hs⟩ := h
  have hpos : 0 < p.window * p.sub * p.iter := by omega
  have h1 : 0 < p.window * p.sub := Nat.pos_of_mul_pos_right hpos
  have hi : 0 < p.iter := Nat.pos_of_mul_pos_left hpos
  have hw : 0 < p.window := Nat.pos_of_mul_pos_right h1
  have hsb : 0 < p.sub := Nat.pos_of_mul_pos_left h1
  have e1 : p.sub * p.iter ≤ p.window * (p.sub * p.iter) := Nat.le_mul_of_pos_left _ hw
  rw [← Nat.mul_assoc] at e1
  have e2 : p.sub ≤ p.sub * p.iter := Nat.le_mul_of_pos_right _ hi
  have e3 : p.iter ≤ p.sub * p.iter := Nat.le_mul_of_pos_left _ hsb
  omega

/-- the bit index of round `(i, j)` is small -/
theorem Scheme.idx_lt {p : Params} (h : Scheme p) {i j : Nat} (hi : i < p.iter) (hj : j < p.sub) :
    j * p.iter ≤ 256 ∧ i + j * p.iter + p.rem < 512 := by
  have hb := h.bounds
  have e1 : (j + 1) * p.iter ≤ p.sub * p.iter := Nat.mul_le_mul_right _ hj
  rw [Nat.add_mul, Nat.one_mul] at e1
  have := h.r4
  omega

/-- the tables and widths with which selectPoints is called -/
def SelUsed (p : Params) (tbl : Table) (w : Nat) : Prop :=
  (tbl ∈ p.first ∧ w = 2 ^ p.window - 1) ∨ (tbl = p.second ∧ w = (p.second.getD 0 []).length)

/-- CALLEE HYPOTHESES: the IR functions of the point operations compute the model's operations on the
    encodings `encP`; the helpers 2, 3, 4 are the generated bit-extraction functions -/
structure Callees {Γ : Type} (P : Prog) (G : Nat → Val) (X : Oracle) (Ops : Model.Curve.GOps Γ) (encP : Γ → Val)
    (p : Params) (Fnew Fdbl Fadd Fset Fsel : Nat) : Prop where
  bit : P[f_internal_extractBit]? = some fn_2
  high : P[f_internal_extractHigherBits]? = some fn_3
  low : P[f_internal_extractLowerBits]? = some fn_4
  /-- NewSM2Point() -/
  new : Computes P G X 73 Fnew [] [encP Ops.infinity]
  /-- q.Double(a): the new receiver and the Go result -/
  dbl : ∀ q a, Computes P G X 79 Fdbl [encP q, encP a] [encP (Ops.double a), encP (Ops.double a)]
  /-- q.Add(a, b) -/
  add : ∀ q a b, Computes P G X 78 Fadd [encP q, encP a, encP b] [encP (Ops.add a b), encP (Ops.add a b)]
  /-- q.Set(a) -/
  set : ∀ q a, Computes P G X 75 Fset [encP q, encP a] [encP a, encP a]
  /-- selectPoints(NewSM2Point(), tbl, w, bits), for the tables and widths of this run and a byte `bits` -/
  sel : ∀ tbl w bits r, SelUsed p tbl w → bits < 256 → Ops.selectXY tbl w bits = .ok r →
    Computes P G X 5 Fsel [encP Ops.infinity, encT tbl, .int (w : Int), .int (bits : Int)] [encP r, encP r]

/-! ### bytes -/

theorem hbFrom_lt (k : Bytes) (idx stepSize : Nat) :
    ∀ (n i bits r : Nat), bits < 256 → hbFrom k idx stepSize i n bits = .ok r → r < 256 := by
  intro n
  induction n with
  | zero =>
    intro i bits r hb h
    rw [hbFrom_zero] at h
    simp only [Outcome.ok.injEq] at h
    omega
  | succ n ih =>
    intro i bits r hb h
    cases hbit : Model.Curve.extractBit k (i * stepSize + idx) with
    | err => exact absurd hbit (extractBit_ne_err _ _)
    | panic => rw [hbFrom_succ_panic n bits hbit] at h; cases h
    | ok bit =>
      rw [hbFrom_succ_ok n bits hbit] at h
      exact ih _ _ _ (Nat.mod_lt _ (by decide)) h

theorem extractHigherBits_lt {k : Bytes} {idx window stepSize r : Nat}
    (h : Model.Curve.extractHigherBits k idx window stepSize = .ok r) : r < 256 := by
  rw [extractHigherBits_eq] at h
  exact hbFrom_lt k idx stepSize window 0 0 r (by decide) h

theorem extractHigherBits_ne_err (k : Bytes) (idx window stepSize : Nat) :
    Model.Curve.extractHigherBits k idx window stepSize ≠ .err := by
  rw [extractHigherBits_eq]
  exact hbFrom_ne_err _ _ _ _ _ _

theorem extractLowerBits_lt {k : Bytes} {count r : Nat}
    (h : Model.Curve.extractLowerBits k count = .ok r) : r < 256 := by
  rw [extractLowerBits_eq] at h
  cases hk : k[31]? with
  | none => rw [hk] at h; cases h
  | some x =>
    rw [hk] at h
    simp only [Outcome.ok.injEq] at h
    have := x.toNat_lt
    have : x.toNat &&& (2 ^ count - 1) ≤ x.toNat := Nat.and_le_left
    omega

theorem lnot_flag (G : Nat → Val) {env : Env} {skip : Bool} (h12 : env 12 = .int (if skip then 1 else 0)) :
    evalV G env (.op1 .lnot (.var 12)) = some (.int (if skip then 0 else 1)) := by
  cases skip <;> simp [evalV_op1, evalV_var, h12, evalOp1]

theorem asBool_flag (b : Bool) : asBool (.int (if b then 0 else 1)) = some (!b) := by
  cases b <;> rfl


/-! ## The inner loop -/

section Loops
variable {Γ : Type} {P : Prog} {G : Nat → Val} {X : Oracle} {Ops : Model.Curve.GOps Γ} {encP : Γ → Val}
  {p : Params} {Fnew Fdbl Fadd Fset Fsel : Nat}

/-- the arguments of the call of extractHigherBits in round `(i, j)` -/
theorem iargs3 {env : Env} (hp : PInv env p) (hs : Scheme p) {i j : Nat}
    (h13 : env 13 = .int (i : Int)) (h14 : env 14 = .int (j : Int)) (hi : i < p.iter) (hj : j < p.sub) :
    evalVs G env [(.var 0), (.op2 (.add .i64) (.op2 (.add .i64) (.var 13) (.op2 (.mul .i64) (.var 14) (.var 5))) (.var 6)), (.var 3), (.op2 (.mul .i64) (.var 4) (.var 5))]
      = some [bytesV p.k, .int ((i + j * p.iter + p.rem : Nat) : Int), .int (p.window : Int), .int ((p.sub * p.iter : Nat) : Int)] := by
  have hb := hs.bounds
  have hx := hs.idx_lt hi hj
  have m1 : j * p.iter < 2 ^ 63 := by omega
  have a1 : i + j * p.iter < 2 ^ 63 := by omega
  have a2 : i + j * p.iter + p.rem < 2 ^ 63 := by omega
  have m2 : p.sub * p.iter < 2 ^ 63 := by omega
  simp only [evalVs_cons, evalVs_nil, evalV_op2, evalV_var, hp.h0, hp.h3, hp.h4, hp.h5, hp.h6, h13, h14,
    mul_i64_nat m1, add_i64_nat a1, add_i64_nat a2, mul_i64_nat m2, Option.map_some]

/-- the arguments of the call of selectPoints in round `j` -/
theorem iargs5 {env : Env} (hp : PInv env p) {j bits : Nat} {v : Val}
    (h18 : env 18 = v) (h14 : env 14 = .int (j : Int)) (h16 : env 16 = .int (bits : Int)) (hj : j < p.first.length) :
    evalVs G env [(.var 18), (.idx (.var 1) (.var 14)), (.var 8), (.var 16)]
      = some [v, encT (p.first.getD j []), .int ((2 ^ p.window - 1 : Nat) : Int), .int (bits : Int)] := by
  have e : getIdx (p.first.map encT) (j : Int) = some (encT (p.first.getD j [])) := by
    rw [getIdx_ofNat, List.getElem?_map, List.getD_eq_getElem?_getD, List.getElem?_eq_getElem hj]
    rfl
  simp only [evalVs_cons, evalVs_nil, evalV_idx, evalV_var, hp.h1, hp.h8, h18, h14, h16, encTs, e]

/-- `(*first)[j]` out of range: the arguments have no value -/
theorem iargs5_none {env : Env} (hp : PInv env p) {j : Nat} (h14 : env 14 = .int (j : Int)) (hj : p.first.length ≤ j) :
    evalVs G env [(.var 18), (.idx (.var 1) (.var 14)), (.var 8), (.var 16)] = none := by
  have e : getIdx (p.first.map encT) (j : Int) = none := by
    rw [getIdx_ofNat, List.getElem?_map, List.getElem?_eq_none hj]
    rfl
  simp only [evalVs_cons, evalV_idx, evalV_var, hp.h1, h14, encTs, e]

/-- fuel for one round of the inner loop -/
def fuelInnerRound (window Fnew Fadd Fset Fsel : Nat) : Nat := fuelHigh window + Fnew + Fsel + Fadd + Fset + 20

/-- one round of the inner loop body -/
theorem ibody_round (C : Callees P G X Ops encP p Fnew Fdbl Fadd Fset Fsel) (hs : Scheme p)
    {env : Env} {ret tmp : Γ} {skip : Bool} {i j bits : Nat}
    (hp : PInv env p) (h11 : env 11 = encP ret) (h12 : env 12 = .int (if skip then 1 else 0))
    (h13 : env 13 = .int (i : Int)) (h14 : env 14 = .int (j : Int))
    (hi : i < p.iter) (hj : j < p.sub) (hjl : j < p.first.length)
    (hbits : Model.Curve.extractHigherBits p.k (i + j * p.iter + p.rem) p.window (p.sub * p.iter) = .ok bits)
    (hsel : Ops.selectXY (p.first.getD j []) (2 ^ p.window - 1) bits = .ok tmp) :
    ∃ env1, EvIn P G X (fuelInnerRound p.window Fnew Fadd Fset Fsel) env iBodyS env1 .norm ∧ PInv env1 p ∧
      env1 11 = encP (if skip then tmp else Ops.add ret tmp) ∧ env1 12 = .int 0 ∧
      env1 13 = .int (i : Int) ∧ env1 14 = .int (j : Int) := by
  have hw : p.window < 2 ^ 63 := by have := hs.w8; omega
  obtain ⟨envh, hhigh⟩ := high_body_ok (P := P) (G := G) (X := X) C.bit p.k (i + j * p.iter + p.rem) p.window
    (p.sub * p.iter) hw bits hbits
  let e1 := env.set 15 (.int (bits : Int))
  let e2 := e1.set 16 (.int (bits : Int))
  let e3 := e2.set 17 (encP Ops.infinity)
  let e4 := e3.set 18 (encP Ops.infinity)
  let e5 := (e4.set 18 (encP tmp)).set 7 (encP tmp)
  have c3 : EvIn P G X (fuelHigh p.window + 1) env iCall3 e1 .norm :=
    EvIn.call (iargs3 (G := G) hp hs h13 h14 hi hj) C.high rfl rfl hhigh rfl
  have s16 : evalV G e1 (.var 15) = some (.int (bits : Int)) := by simp [e1]
  have c73 : EvIn P G X (Fnew + 1) e2 (.call [17] 73 []) e3 .norm := C.new.call rfl rfl
  have s18 : evalV G e3 (.var 17) = some (encP Ops.infinity) := by simp [e3]
  have hp4 : PInv e4 p := (((hp.set 15 _ (by decide)).set 16 _ (by decide)).set 17 _ (by decide)).set 18 _ (by decide)
  have g18 : e4 18 = encP Ops.infinity := by simp [e4]
  have g14 : e4 14 = .int (j : Int) := by simp [e4, e3, e2, e1, Env.set, h14]
  have g16 : e4 16 = .int (bits : Int) := by simp [e4, e3, e2, Env.set]
  have hmem : p.first.getD j [] ∈ p.first := by
    rw [List.getD_eq_getElem?_getD, List.getElem?_eq_getElem hjl]
    exact List.getElem_mem hjl
  have c5 : EvIn P G X (Fsel + 1) e4 iCall5 e5 .norm :=
    (C.sel _ _ bits tmp (Or.inl ⟨hmem, rfl⟩) (extractHigherBits_lt hbits) hsel).call
      (iargs5 (G := G) hp4 g18 g14 g16 hjl) rfl
  have hp5 : PInv e5 p := (hp4.set 18 _ (by decide)).set 7 _ (by decide)
  have g11 : e5 11 = encP ret := by simp [e5, e4, e3, e2, e1, Env.set, h11]
  have g12 : e5 12 = .int (if skip then 1 else 0) := by simp [e5, e4, e3, e2, e1, Env.set, h12]
  have g13 : e5 13 = .int (i : Int) := by simp [e5, e4, e3, e2, e1, Env.set, h13]
  have g14' : e5 14 = .int (j : Int) := by simp [e5, e4, e3, e2, e1, Env.set, h14]
  have g18' : e5 18 = encP tmp := by simp [e5, Env.set]
  have hc := lnot_flag G g12
  have pre : ∀ {env' : Env} {F : Nat}, EvIn P G X F e5 iTailS env' .norm →
      EvIn P G X (fuelHigh p.window + Fnew + Fsel + F + 10) env iBodyS env' .norm := by
    intro env' F ht
    exact (EvIn.seq c3 (EvIn.seq (EvIn.assign s16) (EvIn.seq c73 (EvIn.seq (EvIn.assign s18)
      (EvIn.seq c5 ht))))).mono (by omega)
  cases skip with
  | false =>
    -- ret.Add(ret, tmpPoint)
    let e6 := (e5.set 11 (encP (Ops.add ret tmp))).set 7 (encP (Ops.add ret tmp))
    have a78 : evalVs G e5 [(.var 11), (.var 11), (.var 18)] = some [encP ret, encP ret, encP tmp] := by
      simp only [evalVs_cons, evalVs_nil, evalV_var, g11, g18']
    have c78 : EvIn P G X (Fadd + 1) e5 (.call [11, 7] 78 [(.var 11), (.var 11), (.var 18)]) e6 .norm :=
      (C.add ret ret tmp).call a78 rfl
    have ht : EvIn P G X (Fadd + 2) e5 iTailS e6 .norm := EvIn.ite hc (asBool_flag false) c78
    refine ⟨e6, (pre ht).mono (by simp only [fuelInnerRound]; omega),
      (hp5.set 11 _ (by decide)).set 7 _ (by decide), ?_, ?_, ?_, ?_⟩
    · simp [e6, Env.set]
    · simpa [e6, Env.set] using g12
    · simpa [e6, Env.set] using g13
    · simpa [e6, Env.set] using g14'
  | true =>
    -- ret.Set(tmpPoint); skip = false
    let e6 := (e5.set 11 (encP tmp)).set 7 (encP tmp)
    let e7 := e6.set 12 (.int 0)
    have a75 : evalVs G e5 [(.var 11), (.var 18)] = some [encP ret, encP tmp] := by
      simp only [evalVs_cons, evalVs_nil, evalV_var, g11, g18']
    have c75 : EvIn P G X (Fset + 1) e5 (.call [11, 7] 75 [(.var 11), (.var 18)]) e6 .norm :=
      (C.set ret tmp).call a75 rfl
    have ht : EvIn P G X (Fset + 4) e5 iTailS e7 .norm :=
      (EvIn.ite hc (asBool_flag true) (EvIn.seq c75 (EvIn.assign rfl))).mono (by omega)
    refine ⟨e7, (pre ht).mono (by simp only [fuelInnerRound]; omega),
      ((hp5.set 11 _ (by decide)).set 7 _ (by decide)).set 12 _ (by decide), ?_, ?_, ?_, ?_⟩
    · simp [e7, e6, Env.set]
    · simp [e7]
    · simpa [e7, e6, Env.set] using g13
    · simpa [e7, e6, Env.set] using g14'


theorem icond_true {env : Env} {j : Nat} (h14 : env 14 = .int (j : Int)) (hp : PInv env p) (h : j < p.sub) :
    evalV G env iCondE = some (.int 1) := by
  have : (j : Int) < (p.sub : Int) := by omega
  simp [iCondE, evalV_op2, evalV_var, h14, hp.h4, evalOp2, ofBool, this]

theorem icond_false {env : Env} {j : Nat} (h14 : env 14 = .int (j : Int)) (hp : PInv env p) (h : ¬ j < p.sub) :
    evalV G env iCondE = some (.int 0) := by
  have : ¬ (j : Int) < (p.sub : Int) := by omega
  simp [iCondE, evalV_op2, evalV_var, h14, hp.h4, evalOp2, ofBool, this]

/-- the inner loop computes the model's inner fold (induction on the number `n` of remaining rounds) -/
theorem iloop_ok (C : Callees P G X Ops encP p Fnew Fdbl Fadd Fset Fsel) (hs : Scheme p)
    (hlen : p.sub ≤ p.first.length) {i : Nat} (hi : i < p.iter) :
    ∀ (n j : Nat) (env : Env) (ret : Γ) (skip : Bool) (r : Γ × Bool),
    PInv env p → env 11 = encP ret → env 12 = .int (if skip then 1 else 0) →
    env 13 = .int (i : Int) → env 14 = .int (j : Int) → j + n = p.sub →
    innerFrom Ops p i j n (ret, skip) = .ok r →
    ∃ env', EvIn P G X ((fuelInnerRound p.window Fnew Fadd Fset Fsel + 2) * n + 1) env iLoopS env' .norm ∧
      PInv env' p ∧ env' 11 = encP r.1 ∧ env' 12 = .int (if r.2 then 1 else 0) ∧ env' 13 = .int (i : Int) := by
  intro n
  induction n with
  | zero =>
    intro j env ret skip r hp h11 h12 h13 h14 hjn hm
    rw [innerFrom_zero] at hm
    simp only [Outcome.ok.injEq] at hm
    subst hm
    exact ⟨env, EvIn.loop_exit (icond_false h14 hp (by omega)) rfl, hp, h11, h12, h13⟩
  | succ n ih =>
    intro j env ret skip r hp h11 h12 h13 h14 hjn hm
    have hj : j < p.sub := by omega
    rw [innerFrom_succ, innerStep_eq] at hm
    cases hb : Model.Curve.extractHigherBits p.k (i + j * p.iter + p.rem) p.window (p.sub * p.iter) with
    | err => rw [hb] at hm; cases hm
    | panic => rw [hb] at hm; cases hm
    | ok bits =>
      rw [hb, Outcome.bind_ok] at hm
      cases hsel : Ops.selectXY (p.first.getD j []) (2 ^ p.window - 1) bits with
      | err => rw [hsel] at hm; cases hm
      | panic => rw [hsel] at hm; cases hm
      | ok tmp =>
        rw [hsel, Outcome.bind_ok, Outcome.bind_ok] at hm
        obtain ⟨env1, hbody, hp1, g11, g12, g13, g14⟩ :=
          ibody_round C hs hp h11 h12 h13 h14 hi hj (by omega) hb hsel
        have hb := hs.bounds
        have s14 : evalV G env1 (.op2 (.add .i64) (.var 14) (.lit 1)) = some (.int ((j + 1 : Nat) : Int)) := by
          simp only [evalV_op2, evalV_var, evalV_lit, g14, succ_i64_nat (by omega : j + 1 < 2 ^ 63), Option.map_some]
        have hpost : EvIn P G X 1 env1 iPostS (env1.set 14 (.int ((j + 1 : Nat) : Int))) .norm := EvIn.assign s14
        obtain ⟨env', hl, hp', r11, r12, r13⟩ := ih (j + 1) (env1.set 14 (.int ((j + 1 : Nat) : Int)))
          (if skip then tmp else Ops.add ret tmp) false r (hp1.set 14 _ (by decide))
          (by simpa [Env.set] using g11) (by simpa [Env.set] using g12) (by simpa [Env.set] using g13)
          (by simp) (by omega) hm
        refine ⟨env', ?_, hp', r11, r12, r13⟩
        exact (EvIn.loop_round (icond_true h14 hp hj) rfl hbody (Or.inl rfl) hpost hl).mono
          (by rw [Nat.mul_add]; omega)

/-! ## The outer loop -/

theorem ocond_true {env : Env} {n : Nat} (h13 : env 13 = .int (n : Int)) :
    evalV G env oCondE = some (.int 1) := by
  have : (0 : Int) ≤ (n : Int) := by omega
  simp [oCondE, evalV_op2, evalV_var, h13, evalOp2, ofBool, this]

theorem ocond_false {env : Env} (h13 : env 13 = .int (-1)) :
    evalV G env oCondE = some (.int 0) := by
  simp [oCondE, evalV_op2, evalV_var, h13, evalOp2, ofBool]

/-- fuel for one round of the outer loop -/
def fuelOuterRound (window sub Fnew Fdbl Fadd Fset Fsel : Nat) : Nat :=
  Fdbl + (fuelInnerRound window Fnew Fadd Fset Fsel + 2) * sub + 10

/-- `if !skip { ret.Double(ret) }` -/
theorem odbl_ok (C : Callees P G X Ops encP p Fnew Fdbl Fadd Fset Fsel)
    {env : Env} {ret : Γ} {skip : Bool}
    (hp : PInv env p) (h11 : env 11 = encP ret) (h12 : env 12 = .int (if skip then 1 else 0)) :
    ∃ env1, EvIn P G X (Fdbl + 2) env oDblS env1 .norm ∧ PInv env1 p ∧
      env1 11 = encP (if skip then ret else Ops.double ret) ∧ env1 12 = .int (if skip then 1 else 0) ∧
      env1 13 = env 13 := by
  have hc := lnot_flag G h12
  cases skip with
  | true =>
    exact ⟨env, (EvIn.ite hc (asBool_flag true) (EvIn.skip env)).mono (by omega), hp, h11, h12, rfl⟩
  | false =>
    let e1 := (env.set 11 (encP (Ops.double ret))).set 7 (encP (Ops.double ret))
    have a79 : evalVs G env [(.var 11), (.var 11)] = some [encP ret, encP ret] := by
      simp only [evalVs_cons, evalVs_nil, evalV_var, h11]
    have c79 : EvIn P G X (Fdbl + 1) env (.call [11, 7] 79 [(.var 11), (.var 11)]) e1 .norm :=
      (C.dbl ret ret).call a79 rfl
    refine ⟨e1, EvIn.ite hc (asBool_flag false) c79, (hp.set 11 _ (by decide)).set 7 _ (by decide), ?_, ?_, ?_⟩
    · simp [e1, Env.set]
    · simpa [e1, Env.set] using h12
    · simp [e1, Env.set]

/-- the outer loop computes the model's outer fold; `n` iterations remain, `i = n - 1` -/
theorem oloop_ok (C : Callees P G X Ops encP p Fnew Fdbl Fadd Fset Fsel) (hs : Scheme p)
    (hlen : p.sub ≤ p.first.length) :
    ∀ (n : Nat) (env : Env) (ret : Γ) (skip : Bool) (r : Γ × Bool),
    PInv env p → env 11 = encP ret → env 12 = .int (if skip then 1 else 0) →
    env 13 = .int ((n : Int) - 1) → n ≤ p.iter →
    outerFrom Ops p (p.iter - n) n (ret, skip) = .ok r →
    ∃ env', EvIn P G X ((fuelOuterRound p.window p.sub Fnew Fdbl Fadd Fset Fsel) * n + 1) env oLoopS env' .norm ∧
      PInv env' p ∧ env' 11 = encP r.1 := by
  intro n
  induction n with
  | zero =>
    intro env ret skip r hp h11 h12 h13 hn hm
    rw [outerFrom_zero] at hm
    simp only [Outcome.ok.injEq] at hm
    subst hm
    exact ⟨env, EvIn.loop_exit (ocond_false (by simpa using h13)) rfl, hp, h11⟩
  | succ n ih =>
    intro env ret skip r hp h11 h12 h13 hn hm
    have h13' : env 13 = .int (n : Int) := by rw [h13]; congr 1; omega
    have hi : p.iter - 1 - (p.iter - (n + 1)) = n := by omega
    rw [outerFrom_succ, outerStep_eq, hi] at hm
    cases hin : innerFrom Ops p n 0 p.sub (if skip then ret else Ops.double ret, skip) with
    | err => rw [hin] at hm; cases hm
    | panic => rw [hin] at hm; cases hm
    | ok st =>
      rw [hin, Outcome.bind_ok, show p.iter - (n + 1) + 1 = p.iter - n by omega] at hm
      obtain ⟨e1, hdbl, hp1, g11, g12, g13⟩ := odbl_ok C hp h11 h12
      let e2 := e1.set 14 (.int 0)
      obtain ⟨e3, hloop, hp3, r11, r12, r13⟩ := iloop_ok C hs hlen (by omega : n < p.iter) p.sub 0 e2 _ skip st
        (hp1.set 14 _ (by decide)) (by simpa [e2, Env.set] using g11) (by simpa [e2, Env.set] using g12)
        (by simp only [e2]; rw [Env.set_other _ _ (by decide), g13, h13']) (by simp [e2]) (by omega) hin
      have hbody : EvIn P G X (Fdbl + (fuelInnerRound p.window Fnew Fadd Fset Fsel + 2) * p.sub + 6) env oBodyS e3 .norm :=
        (EvIn.seq hdbl (EvIn.seq (EvIn.assign rfl) hloop)).mono (by omega)
      have s13 : evalV G e3 (.op2 (.sub .i64) (.var 13) (.lit 1)) = some (.int ((n : Int) - 1)) := by
        have hb := hs.bounds
        simp only [evalV_op2, evalV_var, evalV_lit, r13, evalOp2, Option.map_some]
        rw [norm_i64_small (by omega) (by omega)]
      have hpost : EvIn P G X 1 e3 oPostS (e3.set 13 (.int ((n : Int) - 1))) .norm := EvIn.assign s13
      obtain ⟨env', hl, hp', f11⟩ := ih (e3.set 13 (.int ((n : Int) - 1))) st.1 st.2 r
        (hp3.set 13 _ (by decide)) (by simpa [Env.set] using r11) (by simpa [Env.set] using r12) (by simp)
        (by omega) hm
      refine ⟨env', ?_, hp', f11⟩
      exact (EvIn.loop_round (ocond_true h13') rfl hbody (Or.inl rfl) hpost hl).mono
        (by simp only [fuelOuterRound]; rw [Nat.mul_add]; omega)


/-! ## The remainder table and the result -/

theorem rcond_val {env : Env} (hp : PInv env p) :
    evalV G env (.op2 .ge (.var 6) (.lit 1)) = some (.int (if 1 ≤ p.rem then 1 else 0)) := by
  by_cases h : 1 ≤ p.rem
  · have : (1 : Int) ≤ (p.rem : Int) := by omega
    simp [evalV_op2, evalV_var, hp.h6, evalOp2, ofBool, this, h]
  · have : ¬ (1 : Int) ≤ (p.rem : Int) := by omega
    simp [evalV_op2, evalV_var, hp.h6, evalOp2, ofBool, this, h]

theorem rargs5 {env : Env} {v : Val} {bits : Nat} {r0 : List (List Nat)} {rs : Table}
    (h23 : env 23 = v) (h21 : env 21 = encT p.second) (h20 : env 20 = .int (bits : Int)) (hsec : p.second = r0 :: rs) :
    evalVs G env [(.var 23), (.var 21), (.len (.idxc (.var 21) 0)), (.var 20)]
      = some [v, encT p.second, .int (((p.second.getD 0 []).length : Nat) : Int), .int (bits : Int)] := by
  simp only [evalVs_cons, evalVs_nil, evalV_len, evalV_idxc, evalV_var, h23, h21, h20, hsec, encT, List.map_cons,
    List.getElem?_cons_zero, List.length_map, List.getD_cons_zero]

/-- `points[0]` out of range: the arguments have no value -/
theorem rargs5_none {env : Env} (h21 : env 21 = encT p.second) (hsec : p.second = []) :
    evalVs G env [(.var 23), (.var 21), (.len (.idxc (.var 21) 0)), (.var 20)] = none := by
  simp only [evalVs_cons, evalV_len, evalV_idxc, evalV_var, h21, hsec, encT, List.map_nil, List.getElem?_nil]

def fuelRem (Fnew Fadd Fsel : Nat) : Nat := fuelLow + Fnew + Fsel + Fadd + 20

/-- `if remainder >= 1 { … ret.Add(ret, tmpPoint) }` -/
theorem rem_ok (C : Callees P G X Ops encP p Fnew Fdbl Fadd Fset Fsel)
    (hsec : 1 ≤ p.rem → p.second ≠ [])
    {env : Env} {ret r : Γ} (hp : PInv env p) (h11 : env 11 = encP ret)
    (hm : (if p.rem ≥ 1 then
        Model.Curve.extractLowerBits p.k p.rem >>= fun bits =>
          Ops.selectXY p.second ((p.second.getD 0 []).length) bits >>= fun tmp => .ok (Ops.add ret tmp)
      else .ok ret) = .ok r) :
    ∃ env', EvIn P G X (fuelRem Fnew Fadd Fsel) env remS env' .norm ∧ env' 11 = encP r := by
  have hc := rcond_val (G := G) hp
  by_cases hr : 1 ≤ p.rem
  · rw [if_pos hr] at hc
    rw [if_pos hr] at hm
    cases hb : Model.Curve.extractLowerBits p.k p.rem with
    | err => rw [hb] at hm; cases hm
    | panic => rw [hb] at hm; cases hm
    | ok bits =>
      rw [hb, Outcome.bind_ok] at hm
      cases hsel : Ops.selectXY p.second ((p.second.getD 0 []).length) bits with
      | err => rw [hsel] at hm; cases hm
      | panic => rw [hsel] at hm; cases hm
      | ok tmp =>
        rw [hsel, Outcome.bind_ok] at hm
        simp only [Outcome.ok.injEq] at hm
        subst hm
        obtain ⟨r0, rs, hs2⟩ : ∃ r0 rs, p.second = r0 :: rs := by
          cases h2 : p.second with
          | nil => exact absurd h2 (hsec hr)
          | cons r0 rs => exact ⟨r0, rs, rfl⟩
        obtain ⟨envl, hlow⟩ := low_body_ok (P := P) (G := G) (X := X) p.k p.rem bits hb
        let e1 := env.set 19 (.int (bits : Int))
        let e2 := e1.set 20 (.int (bits : Int))
        let e3 := e2.set 21 (.arr [])
        let e4 := e3.set 21 (encT p.second)
        let e5 := e4.set 22 (encP Ops.infinity)
        let e6 := e5.set 23 (encP Ops.infinity)
        let e7 := (e6.set 23 (encP tmp)).set 7 (encP tmp)
        let e8 := (e7.set 11 (encP (Ops.add ret tmp))).set 7 (encP (Ops.add ret tmp))
        have a4 : evalVs G env [(.var 0), (.var 6)] = some [bytesV p.k, .int (p.rem : Int)] := by
          simp only [evalVs_cons, evalVs_nil, evalV_var, hp.h0, hp.h6]
        have c4 : EvIn P G X (fuelLow + 1) env (.call [19] 4 [(.var 0), (.var 6)]) e1 .norm :=
          EvIn.call a4 C.low rfl rfl hlow rfl
        have s20 : evalV G e1 (.var 19) = some (.int (bits : Int)) := by simp [e1]
        have s21 : evalV G e2 (.mk (.lit 0) (.mk (.lit 0) (.mk (.lit 4) (.lit 0)))) = some (.arr []) := rfl
        have s21' : evalV G e3 (.var 2) = some (encT p.second) := by
          simp [e3, e2, e1, Env.set, hp.h2]
        have c73 : EvIn P G X (Fnew + 1) e4 (.call [22] 73 []) e5 .norm := C.new.call rfl rfl
        have s23 : evalV G e5 (.var 22) = some (encP Ops.infinity) := by simp [e5]
        have g23 : e6 23 = encP Ops.infinity := by simp [e6]
        have g21 : e6 21 = encT p.second := by simp [e6, e5, e4, Env.set]
        have g20 : e6 20 = .int (bits : Int) := by simp [e6, e5, e4, e3, e2, Env.set]
        have c5 : EvIn P G X (Fsel + 1) e6 (.call [23, 7] 5 [(.var 23), (.var 21), (.len (.idxc (.var 21) 0)), (.var 20)]) e7 .norm :=
          (C.sel _ _ bits tmp (Or.inr ⟨rfl, rfl⟩) (extractLowerBits_lt hb) hsel).call
            (rargs5 (G := G) g23 g21 g20 hs2) rfl
        have g11 : e7 11 = encP ret := by simp [e7, e6, e5, e4, e3, e2, e1, Env.set, h11]
        have g23' : e7 23 = encP tmp := by simp [e7, Env.set]
        have a78 : evalVs G e7 [(.var 11), (.var 11), (.var 23)] = some [encP ret, encP ret, encP tmp] := by
          simp only [evalVs_cons, evalVs_nil, evalV_var, g11, g23']
        have c78 : EvIn P G X (Fadd + 1) e7 (.call [11, 7] 78 [(.var 11), (.var 11), (.var 23)]) e8 .norm :=
          (C.add ret ret tmp).call a78 rfl
        refine ⟨e8, ?_, by simp [e8, Env.set]⟩
        exact (EvIn.ite hc rfl (EvIn.seq c4 (EvIn.seq (EvIn.assign s20) (EvIn.seq (EvIn.assign s21)
          (EvIn.seq (EvIn.assign s21') (EvIn.seq c73 (EvIn.seq (EvIn.assign s23) (EvIn.seq c5 c78)))))))).mono
          (by simp only [fuelRem]; omega)
  · rw [if_neg hr] at hc
    rw [if_neg hr] at hm
    simp only [Outcome.ok.injEq] at hm
    subst hm
    exact ⟨env, (EvIn.ite hc rfl (EvIn.skip env)).mono (by simp only [fuelRem]; omega), h11⟩

/-- fuel for the part after the checks -/
def fuelMain (window sub iter Fnew Fdbl Fadd Fset Fsel : Nat) : Nat :=
  fuelOuterRound window sub Fnew Fdbl Fadd Fset Fsel * iter + fuelRem Fnew Fadd Fsel + Fnew + 20

/-- from `ret := NewSM2Point()` to `return ret, nil` -/
theorem main_ok (C : Callees P G X Ops encP p Fnew Fdbl Fadd Fset Fsel) (hs : Scheme p)
    (hlen : p.sub ≤ p.first.length) (hsec : 1 ≤ p.rem → p.second ≠ [])
    {env : Env} (hp : PInv env p) {r : Γ} (hm : mainM Ops p = .ok r) :
    ∃ env', EvIn P G X (fuelMain p.window p.sub p.iter Fnew Fdbl Fadd Fset Fsel) env mainS env'
      (.ret [encP r, .int 0]) := by
  unfold mainM at hm
  have hb := hs.bounds
  let e1 := env.set 10 (encP Ops.infinity)
  let e2 := e1.set 11 (encP Ops.infinity)
  let e3 := e2.set 12 (.int 1)
  let e4 := e3.set 13 (.int ((p.iter : Int) - 1))
  have c73 : EvIn P G X (Fnew + 1) env (.call [10] 73 []) e1 .norm := C.new.call rfl rfl
  have s11 : evalV G e1 (.var 10) = some (encP Ops.infinity) := by simp [e1]
  have s13 : evalV G e3 (.op2 (.sub .i64) (.var 5) (.lit 1)) = some (.int ((p.iter : Int) - 1)) := by
    have g5 : e3 5 = .int (p.iter : Int) := by simp [e3, e2, e1, Env.set, hp.h5]
    simp only [evalV_op2, evalV_var, evalV_lit, g5, evalOp2, Option.map_some]
    rw [norm_i64_small (by omega) (by omega)]
  have hp4 : PInv e4 p := (((hp.set 10 _ (by decide)).set 11 _ (by decide)).set 12 _ (by decide)).set 13 _ (by decide)
  cases ho : outerFrom Ops p 0 p.iter (Ops.infinity, true) with
  | err => rw [ho] at hm; cases hm
  | panic => rw [ho] at hm; cases hm
  | ok st =>
    rw [ho, Outcome.bind_ok] at hm
    have ho' : outerFrom Ops p (p.iter - p.iter) p.iter (Ops.infinity, true) = .ok st := by
      rw [Nat.sub_self]; exact ho
    obtain ⟨e5, hloop, hp5, g11⟩ := oloop_ok C hs hlen p.iter e4 Ops.infinity true st hp4
      (by simp [e4, e3, e2, Env.set]) (by simp [e4, e3, Env.set]) (by simp [e4]) (Nat.le_refl _) ho'
    obtain ⟨e6, hrem, r11⟩ := rem_ok C hsec hp5 g11 hm
    have sr : evalVs G e6 [(.var 11), (.lit 0)] = some [encP r, .int 0] := by
      simp only [evalVs_cons, evalVs_nil, evalV_var, evalV_lit, r11]
    refine ⟨e6, ?_⟩
    exact (EvIn.seq c73 (EvIn.seq (EvIn.assign s11) (EvIn.seq (EvIn.assign rfl) (EvIn.seq (EvIn.assign s13)
      (EvIn.seq hloop (EvIn.seq hrem (EvIn.seq_stop (EvIn.ret sr) (by simp)))))))).mono
      (by simp only [fuelMain]; omega)


/-! ## Failing runs: a panic of the model is an explicit `panic` or a stuck run of the IR -/

/-- CALLEE HYPOTHESIS for the failing runs: when the model's `selectXY` panics, the IR function
    selectPoints ends in `panic` (multiSelectConditioned has an explicit `panic("invalid inputs")`) or is
    stuck (an index out of range in the table) -/
def SelFails {Γ : Type} (P : Prog) (G : Nat → Val) (X : Oracle) (Ops : Model.Curve.GOps Γ) (encP : Γ → Val)
    (p : Params) : Prop :=
  ∀ tbl w bits, SelUsed p tbl w → bits < 256 → Ops.selectXY tbl w bits = .panic →
    CalleeFails P G X 5 [encP Ops.infinity, encT tbl, .int (w : Int), .int (bits : Int)]

theorem iBodyS_eq : iBodyS = .seq iCall3 (.seq (.assign 16 [] (.var 15)) (.seq (.call [17] 73 [])
    (.seq (.assign 18 [] (.var 17)) (.seq iCall5 iTailS)))) := rfl

/-- a failing round of the inner loop body: extractHigherBits panics, or `(*first)[j]` is out of range, or
    selectPoints fails -/
theorem ibody_fails (C : Callees P G X Ops encP p Fnew Fdbl Fadd Fset Fsel) (CF : SelFails P G X Ops encP p)
    (hs : Scheme p) {env : Env} {i j : Nat}
    (hp : PInv env p) (h13 : env 13 = .int (i : Int)) (h14 : env 14 = .int (j : Int))
    (hi : i < p.iter) (hj : j < p.sub)
    (hD : Model.Curve.extractHigherBits p.k (i + j * p.iter + p.rem) p.window (p.sub * p.iter) = .panic ∨
      ∃ bits, Model.Curve.extractHigherBits p.k (i + j * p.iter + p.rem) p.window (p.sub * p.iter) = .ok bits ∧
        (p.first.length ≤ j ∨ Ops.selectXY (p.first.getD j []) (2 ^ p.window - 1) bits = .panic)) :
    Fails P G X env iBodyS := by
  have hw : p.window < 2 ^ 63 := by have := hs.w8; omega
  have hb := hs.bounds
  have hx := hs.idx_lt hi hj
  rw [iBodyS_eq]
  rcases hD with hpan | ⟨bits, hbits, hD⟩
  · exact Fails.seq_left (Fails.call (iargs3 (G := G) hp hs h13 h14 hi hj)
      (Or.inr ⟨fn_3, C.high, high_body_stuck C.bit p.k _ p.window _ (by omega) hw (by omega) (Or.inl (by omega)) hpan⟩))
  · obtain ⟨envh, hhigh⟩ := high_body_ok (P := P) (G := G) (X := X) C.bit p.k (i + j * p.iter + p.rem) p.window
      (p.sub * p.iter) hw bits hbits
    let e1 := env.set 15 (.int (bits : Int))
    let e2 := e1.set 16 (.int (bits : Int))
    let e3 := e2.set 17 (encP Ops.infinity)
    let e4 := e3.set 18 (encP Ops.infinity)
    have c3 : EvIn P G X (fuelHigh p.window + 1) env iCall3 e1 .norm :=
      EvIn.call (iargs3 (G := G) hp hs h13 h14 hi hj) C.high rfl rfl hhigh rfl
    have s16 : evalV G e1 (.var 15) = some (.int (bits : Int)) := by simp [e1]
    have c73 : EvIn P G X (Fnew + 1) e2 (.call [17] 73 []) e3 .norm := C.new.call rfl rfl
    have s18 : evalV G e3 (.var 17) = some (encP Ops.infinity) := by simp [e3]
    have hp4 : PInv e4 p := (((hp.set 15 _ (by decide)).set 16 _ (by decide)).set 17 _ (by decide)).set 18 _ (by decide)
    have g18 : e4 18 = encP Ops.infinity := by simp [e4]
    have g14 : e4 14 = .int (j : Int) := by simp [e4, e3, e2, e1, Env.set, h14]
    have g16 : e4 16 = .int (bits : Int) := by simp [e4, e3, e2, Env.set]
    refine Fails.seq_right c3 (Fails.seq_right (EvIn.assign s16) (Fails.seq_right c73
      (Fails.seq_right (EvIn.assign s18) (Fails.seq_left ?_))))
    by_cases hjl : j < p.first.length
    · rcases hD with hD | hD
      · omega
      · have hmem : p.first.getD j [] ∈ p.first := by
          rw [List.getD_eq_getElem?_getD, List.getElem?_eq_getElem hjl]
          exact List.getElem_mem hjl
        exact Fails.call (iargs5 (G := G) hp4 g18 g14 g16 hjl)
          (CF _ _ bits (Or.inl ⟨hmem, rfl⟩) (extractHigherBits_lt hbits) hD)
    · -- `(*first)[j]` is out of range
      exact Fails.args (iargs5_none (G := G) hp4 g14 (by omega))

/-- the inner loop fails when the model's inner fold panics, and also whenever the model runs beyond the
    end of `*first` without an error -/
theorem iloop_fails (C : Callees P G X Ops encP p Fnew Fdbl Fadd Fset Fsel) (CF : SelFails P G X Ops encP p)
    (hs : Scheme p) {i : Nat} (hi : i < p.iter) :
    ∀ (n j : Nat) (env : Env) (ret : Γ) (skip : Bool),
    PInv env p → env 11 = encP ret → env 12 = .int (if skip then 1 else 0) →
    env 13 = .int (i : Int) → env 14 = .int (j : Int) → j + n = p.sub →
    (innerFrom Ops p i j n (ret, skip) = .panic ∨
      (p.first.length < j + n ∧ j ≤ p.first.length ∧ innerFrom Ops p i j n (ret, skip) ≠ .err)) →
    Fails P G X env iLoopS := by
  intro n
  induction n with
  | zero =>
    intro j env ret skip hp h11 h12 h13 h14 hjn hD
    rw [innerFrom_zero] at hD
    rcases hD with hD | hD
    · cases hD
    · omega
  | succ n ih =>
    intro j env ret skip hp h11 h12 h13 h14 hjn hD
    have hj : j < p.sub := by omega
    have hc := icond_true (G := G) h14 hp hj
    rw [innerFrom_succ, innerStep_eq] at hD
    cases hb : Model.Curve.extractHigherBits p.k (i + j * p.iter + p.rem) p.window (p.sub * p.iter) with
    | err => exact absurd hb (extractHigherBits_ne_err _ _ _ _)
    | panic => exact Fails.loop_body hc rfl (ibody_fails C CF hs hp h13 h14 hi hj (Or.inl hb))
    | ok bits =>
      rw [hb, Outcome.bind_ok] at hD
      by_cases hjl : j < p.first.length
      · cases hsel : Ops.selectXY (p.first.getD j []) (2 ^ p.window - 1) bits with
        | err =>
          rw [hsel] at hD
          rcases hD with hD | ⟨_, _, hD⟩
          · cases hD
          · exact absurd rfl hD
        | panic =>
          exact Fails.loop_body hc rfl (ibody_fails C CF hs hp h13 h14 hi hj (Or.inr ⟨bits, hb, Or.inr hsel⟩))
        | ok tmp =>
          rw [hsel, Outcome.bind_ok, Outcome.bind_ok] at hD
          obtain ⟨env1, hbody, hp1, g11, g12, g13, g14⟩ :=
            ibody_round C hs hp h11 h12 h13 h14 hi hj hjl hb hsel
          have hbd := hs.bounds
          have s14 : evalV G env1 (.op2 (.add .i64) (.var 14) (.lit 1)) = some (.int ((j + 1 : Nat) : Int)) := by
            simp only [evalV_op2, evalV_var, evalV_lit, g14, succ_i64_nat (by omega : j + 1 < 2 ^ 63), Option.map_some]
          have hpost : EvIn P G X 1 env1 iPostS (env1.set 14 (.int ((j + 1 : Nat) : Int))) .norm := EvIn.assign s14
          have hD' : innerFrom Ops p i (j + 1) n (if skip then tmp else Ops.add ret tmp, false) = .panic ∨
              (p.first.length < j + 1 + n ∧ j + 1 ≤ p.first.length ∧
                innerFrom Ops p i (j + 1) n (if skip then tmp else Ops.add ret tmp, false) ≠ .err) := by
            rcases hD with hD | ⟨h1, _, h3⟩
            · exact Or.inl hD
            · exact Or.inr ⟨by omega, by omega, h3⟩
          exact Fails.loop_round hc rfl hbody (Or.inl rfl) hpost
            (ih (j + 1) (env1.set 14 (.int ((j + 1 : Nat) : Int))) _ false (hp1.set 14 _ (by decide))
              (by simpa [Env.set] using g11) (by simpa [Env.set] using g12) (by simpa [Env.set] using g13)
              (by simp) (by omega) hD')
      · exact Fails.loop_body hc rfl (ibody_fails C CF hs hp h13 h14 hi hj (Or.inr ⟨bits, hb, Or.inl (by omega)⟩))

theorem oBodyS_eq : oBodyS = .seq oDblS (.seq (.assign 14 [] (.lit 0)) iLoopS) := rfl

/-- the outer loop fails when the model's outer fold panics, and also whenever `subTableCount > len(*first)`
    and the model does not end with an error -/
theorem oloop_fails (C : Callees P G X Ops encP p Fnew Fdbl Fadd Fset Fsel) (CF : SelFails P G X Ops encP p)
    (hs : Scheme p) :
    ∀ (n : Nat) (env : Env) (ret : Γ) (skip : Bool),
    PInv env p → env 11 = encP ret → env 12 = .int (if skip then 1 else 0) →
    env 13 = .int ((n : Int) - 1) → n ≤ p.iter →
    (outerFrom Ops p (p.iter - n) n (ret, skip) = .panic ∨
      (p.first.length < p.sub ∧ 1 ≤ n ∧ outerFrom Ops p (p.iter - n) n (ret, skip) ≠ .err)) →
    Fails P G X env oLoopS := by
  intro n
  induction n with
  | zero =>
    intro env ret skip hp h11 h12 h13 hn hD
    rw [outerFrom_zero] at hD
    rcases hD with hD | hD
    · cases hD
    · omega
  | succ n ih =>
    intro env ret skip hp h11 h12 h13 hn hD
    have h13' : env 13 = .int (n : Int) := by rw [h13]; congr 1; omega
    have hi : p.iter - 1 - (p.iter - (n + 1)) = n := by omega
    have hc := ocond_true (G := G) h13'
    rw [outerFrom_succ, outerStep_eq, hi] at hD
    obtain ⟨e1, hdbl, hp1, g11, g12, g13⟩ := odbl_ok C hp h11 h12
    let e2 := e1.set 14 (.int 0)
    have hp2 : PInv e2 p := hp1.set 14 _ (by decide)
    have f11 : e2 11 = encP (if skip then ret else Ops.double ret) := by simpa [e2, Env.set] using g11
    have f12 : e2 12 = .int (if skip then 1 else 0) := by simpa [e2, Env.set] using g12
    have f13 : e2 13 = .int (n : Int) := by simp only [e2]; rw [Env.set_other _ _ (by decide), g13, h13']
    have f14 : e2 14 = .int ((0 : Nat) : Int) := by simp [e2]
    have hin_fails : (innerFrom Ops p n 0 p.sub (if skip then ret else Ops.double ret, skip) = .panic ∨
        (p.first.length < 0 + p.sub ∧ 0 ≤ p.first.length ∧
          innerFrom Ops p n 0 p.sub (if skip then ret else Ops.double ret, skip) ≠ .err)) → Fails P G X env oLoopS := by
      intro hD2
      have := iloop_fails C CF hs (by omega : n < p.iter) p.sub 0 e2 _ skip hp2 f11 f12 f13 f14 (by omega) hD2
      apply Fails.loop_body hc rfl
      rw [oBodyS_eq]
      exact Fails.seq_right hdbl (Fails.seq_right (EvIn.assign rfl) this)
    cases hin : innerFrom Ops p n 0 p.sub (if skip then ret else Ops.double ret, skip) with
    | err =>
      rw [hin] at hD
      rcases hD with hD | ⟨_, _, hD⟩
      · cases hD
      · exact absurd rfl hD
    | panic => exact hin_fails (Or.inl hin)
    | ok st =>
      by_cases hlen : p.sub ≤ p.first.length
      · rw [hin, Outcome.bind_ok, show p.iter - (n + 1) + 1 = p.iter - n by omega] at hD
        obtain ⟨e3, hloop, hp3, r11, r12, r13⟩ := iloop_ok C hs hlen (by omega : n < p.iter) p.sub 0 e2 _ skip st
          hp2 f11 f12 f13 f14 (by omega) hin
        have hbody : EvIn P G X (Fdbl + (fuelInnerRound p.window Fnew Fadd Fset Fsel + 2) * p.sub + 6) env oBodyS e3 .norm :=
          (EvIn.seq hdbl (EvIn.seq (EvIn.assign rfl) hloop)).mono (by omega)
        have s13 : evalV G e3 (.op2 (.sub .i64) (.var 13) (.lit 1)) = some (.int ((n : Int) - 1)) := by
          have hb := hs.bounds
          simp only [evalV_op2, evalV_var, evalV_lit, r13, evalOp2, Option.map_some]
          rw [norm_i64_small (by omega) (by omega)]
        have hpost : EvIn P G X 1 e3 oPostS (e3.set 13 (.int ((n : Int) - 1))) .norm := EvIn.assign s13
        have hD' : outerFrom Ops p (p.iter - n) n (st.1, st.2) = .panic ∨
            (p.first.length < p.sub ∧ 1 ≤ n ∧ outerFrom Ops p (p.iter - n) n (st.1, st.2) ≠ .err) := by
          rcases hD with hD | ⟨h1, _, _⟩
          · exact Or.inl hD
          · omega
        exact Fails.loop_round hc rfl hbody (Or.inl rfl) hpost
          (ih (e3.set 13 (.int ((n : Int) - 1))) st.1 st.2 (hp3.set 13 _ (by decide))
            (by simpa [Env.set] using r11) (by simpa [Env.set] using r12) (by simp) (by omega) hD')
      · exact hin_fails (Or.inr ⟨by omega, by omega, by rw [hin]; simp⟩)

theorem remThenS_eq : remThenS = .seq (.call [19] 4 [(.var 0), (.var 6)]) (.seq (.assign 20 [] (.var 19))
    (.seq (.assign 21 [] (.mk (.lit 0) (.mk (.lit 0) (.mk (.lit 4) (.lit 0))))) (.seq (.assign 21 [] (.var 2))
    (.seq (.call [22] 73 []) (.seq (.assign 23 [] (.var 22))
    (.seq (.call [23, 7] 5 [(.var 23), (.var 21), (.len (.idxc (.var 21) 0)), (.var 20)])
      (.call [11, 7] 78 [(.var 11), (.var 11), (.var 23)]))))))) := rfl

/-- the remainder part fails when the model panics there, and also whenever `remainder ≥ 1` and `*second`
    is empty -/
theorem rem_fails (C : Callees P G X Ops encP p Fnew Fdbl Fadd Fset Fsel) (CF : SelFails P G X Ops encP p)
    {env : Env} {ret : Γ} (hp : PInv env p)
    (hD : (if p.rem ≥ 1 then
        Model.Curve.extractLowerBits p.k p.rem >>= fun bits =>
          Ops.selectXY p.second ((p.second.getD 0 []).length) bits >>= fun tmp => .ok (Ops.add ret tmp)
      else .ok ret) = .panic ∨ (1 ≤ p.rem ∧ p.second = [])) :
    Fails P G X env remS := by
  have hc := rcond_val (G := G) hp
  have hr : 1 ≤ p.rem := by
    rcases hD with hD | hD
    · by_cases hr : 1 ≤ p.rem
      · exact hr
      · rw [if_neg hr] at hD; cases hD
    · exact hD.1
  rw [if_pos hr] at hc
  apply Fails.ite hc rfl
  show Fails P G X env remThenS
  rw [remThenS_eq]
  have a4 : evalVs G env [(.var 0), (.var 6)] = some [bytesV p.k, .int (p.rem : Int)] := by
    simp only [evalVs_cons, evalVs_nil, evalV_var, hp.h0, hp.h6]
  cases hb : Model.Curve.extractLowerBits p.k p.rem with
  | err => exact absurd hb (extractLowerBits_ne_err _ _)
  | panic => exact Fails.seq_left (Fails.call a4 (Or.inr ⟨fn_4, C.low, low_body_stuck p.k p.rem hb⟩))
  | ok bits =>
    obtain ⟨envl, hlow⟩ := low_body_ok (P := P) (G := G) (X := X) p.k p.rem bits hb
    let e1 := env.set 19 (.int (bits : Int))
    let e2 := e1.set 20 (.int (bits : Int))
    let e3 := e2.set 21 (.arr [])
    let e4 := e3.set 21 (encT p.second)
    let e5 := e4.set 22 (encP Ops.infinity)
    let e6 := e5.set 23 (encP Ops.infinity)
    have c4 : EvIn P G X (fuelLow + 1) env (.call [19] 4 [(.var 0), (.var 6)]) e1 .norm :=
      EvIn.call a4 C.low rfl rfl hlow rfl
    have s20 : evalV G e1 (.var 19) = some (.int (bits : Int)) := by simp [e1]
    have s21 : evalV G e2 (.mk (.lit 0) (.mk (.lit 0) (.mk (.lit 4) (.lit 0)))) = some (.arr []) := rfl
    have s21' : evalV G e3 (.var 2) = some (encT p.second) := by
      simp [e3, e2, e1, Env.set, hp.h2]
    have c73 : EvIn P G X (Fnew + 1) e4 (.call [22] 73 []) e5 .norm := C.new.call rfl rfl
    have s23 : evalV G e5 (.var 22) = some (encP Ops.infinity) := by simp [e5]
    have g23 : e6 23 = encP Ops.infinity := by simp [e6]
    have g21 : e6 21 = encT p.second := by simp [e6, e5, e4, Env.set]
    have g20 : e6 20 = .int (bits : Int) := by simp [e6, e5, e4, e3, e2, Env.set]
    refine Fails.seq_right c4 (Fails.seq_right (EvIn.assign s20) (Fails.seq_right (EvIn.assign s21)
      (Fails.seq_right (EvIn.assign s21') (Fails.seq_right c73 (Fails.seq_right (EvIn.assign s23)
      (Fails.seq_left ?_))))))
    cases h2 : p.second with
    | nil =>
      -- `points[0]` is out of range
      exact Fails.args (rargs5_none (G := G) g21 h2)
    | cons r0 rs =>
      rcases hD with hD | hD
      · rw [if_pos hr, hb, Outcome.bind_ok] at hD
        cases hsel : Ops.selectXY p.second ((p.second.getD 0 []).length) bits with
        | err => rw [hsel] at hD; cases hD
        | ok tmp => rw [hsel] at hD; cases hD
        | panic =>
          exact Fails.call (rargs5 (G := G) g23 g21 g20 h2)
            (CF _ _ bits (Or.inr ⟨rfl, rfl⟩) (extractLowerBits_lt hb) hsel)
      · rw [h2] at hD; cases hD.2

theorem mainS_eq : mainS = .seq (.call [10] 73 []) (.seq (.assign 11 [] (.var 10)) (.seq (.assign 12 [] (.lit 1))
    (.seq (.assign 13 [] (.op2 (.sub .i64) (.var 5) (.lit 1))) (.seq oLoopS (.seq remS
    (.seq (.ret [(.var 11), (.lit 0)]) .panic)))))) := rfl

/-- the part after the checks fails when the model panics there; and, unless the model ends with an error,
    whenever `subTableCount > len(*first)` or (`remainder ≥ 1` and `*second` is empty) — whatever the model
    returns on such inputs -/
theorem main_fails (C : Callees P G X Ops encP p Fnew Fdbl Fadd Fset Fsel) (CF : SelFails P G X Ops encP p)
    (hs : Scheme p) {env : Env} (hp : PInv env p)
    (hD : mainM Ops p = .panic ∨
      (mainM Ops p ≠ .err ∧ (p.first.length < p.sub ∨ (1 ≤ p.rem ∧ p.second = [])))) :
    Fails P G X env mainS := by
  unfold mainM at hD
  have hb := hs.bounds
  let e1 := env.set 10 (encP Ops.infinity)
  let e2 := e1.set 11 (encP Ops.infinity)
  let e3 := e2.set 12 (.int 1)
  let e4 := e3.set 13 (.int ((p.iter : Int) - 1))
  have c73 : EvIn P G X (Fnew + 1) env (.call [10] 73 []) e1 .norm := C.new.call rfl rfl
  have s11 : evalV G e1 (.var 10) = some (encP Ops.infinity) := by simp [e1]
  have s13 : evalV G e3 (.op2 (.sub .i64) (.var 5) (.lit 1)) = some (.int ((p.iter : Int) - 1)) := by
    have g5 : e3 5 = .int (p.iter : Int) := by simp [e3, e2, e1, Env.set, hp.h5]
    simp only [evalV_op2, evalV_var, evalV_lit, g5, evalOp2, Option.map_some]
    rw [norm_i64_small (by omega) (by omega)]
  have hp4 : PInv e4 p := (((hp.set 10 _ (by decide)).set 11 _ (by decide)).set 12 _ (by decide)).set 13 _ (by decide)
  have f11 : e4 11 = encP Ops.infinity := by simp [e4, e3, e2, Env.set]
  have f12 : e4 12 = .int (if true then 1 else 0) := by simp [e4, e3, Env.set]
  have f13 : e4 13 = .int ((p.iter : Int) - 1) := by simp [e4]
  rw [mainS_eq]
  refine Fails.seq_right c73 (Fails.seq_right (EvIn.assign s11) (Fails.seq_right (EvIn.assign rfl)
    (Fails.seq_right (EvIn.assign s13) ?_)))
  have hofail : (outerFrom Ops p (p.iter - p.iter) p.iter (Ops.infinity, true) = .panic ∨
      (p.first.length < p.sub ∧ 1 ≤ p.iter ∧ outerFrom Ops p (p.iter - p.iter) p.iter (Ops.infinity, true) ≠ .err)) →
      Fails P G X e4 (.seq oLoopS (.seq remS (.seq (.ret [(.var 11), (.lit 0)]) .panic))) := fun h =>
    Fails.seq_left (oloop_fails C CF hs p.iter e4 Ops.infinity true hp4 f11 f12 f13 (Nat.le_refl _) h)
  cases ho : outerFrom Ops p 0 p.iter (Ops.infinity, true) with
  | err =>
    rw [ho] at hD
    rcases hD with hD | ⟨hD, _⟩
    · cases hD
    · exact absurd rfl hD
  | panic => exact hofail (Or.inl (by rw [Nat.sub_self]; exact ho))
  | ok st =>
    rw [ho, Outcome.bind_ok] at hD
    have ho' : outerFrom Ops p (p.iter - p.iter) p.iter (Ops.infinity, true) = .ok st := by
      rw [Nat.sub_self]; exact ho
    by_cases hlen : p.sub ≤ p.first.length
    · obtain ⟨e5, hloop, hp5, g11⟩ := oloop_ok C hs hlen p.iter e4 Ops.infinity true st hp4 f11 f12 f13
        (Nat.le_refl _) ho'
      refine Fails.seq_right hloop (Fails.seq_left (rem_fails (ret := st.1) C CF hp5 ?_))
      rcases hD with hD | ⟨_, hD | hD⟩
      · exact Or.inl hD
      · omega
      · exact Or.inr hD
    · exact hofail (Or.inr ⟨by omega, by omega, by rw [ho']; simp⟩)

/-! ## The parameter checks -/

theorem norm_i64_eq_add (a : Int) : ∃ t, norm .i64 a = a + 18446744073709551616 * t := by
  refine ⟨-((a + 9223372036854775808) / 18446744073709551616), ?_⟩
  simp only [norm]; omega

theorem norm_i64_add_mul (x c : Int) : norm .i64 (x + 18446744073709551616 * c) = norm .i64 x := by
  simp only [norm]
  rw [show x + 18446744073709551616 * c + 9223372036854775808
      = (x + 9223372036854775808) + 18446744073709551616 * c by omega, Int.add_mul_emod_self_left]

/-- Go's `int` multiplication and addition are computed modulo 2^64 -/
theorem norm_i64_mul_cong (a b : Int) : norm .i64 (norm .i64 a * b) = norm .i64 (a * b) := by
  obtain ⟨t, ht⟩ := norm_i64_eq_add a
  rw [ht, Int.add_mul, Int.mul_assoc, norm_i64_add_mul]

theorem norm_i64_add_cong (a b : Int) : norm .i64 (norm .i64 a + b) = norm .i64 (a + b) := by
  simp only [norm]; omega

def chk1C : Expr := .op2 .lor (.op2 .lor (.op2 .gt (.var 3) (.lit 8)) (.op2 .lt (.var 6) (.lit 0))) (.op2 .gt (.var 6) (.lit 4))

theorem chk1_val {env : Env} {w r : Nat} (h3 : env 3 = .int (w : Int)) (h6 : env 6 = .int (r : Int)) :
    evalV G env chk1C = some (.int (if w > 8 ∨ r > 4 then 1 else 0)) := by
  have h0 : ¬ (r : Int) < 0 := by omega
  by_cases hw : w > 8
  · have : (8 : Int) < (w : Int) := by omega
    simp [chk1C, evalV_op2, evalV_var, h3, h6, evalOp2, ofBool, this, hw]
  · have h1 : ¬ (8 : Int) < (w : Int) := by omega
    by_cases hr : r > 4
    · have : (4 : Int) < (r : Int) := by omega
      simp [chk1C, evalV_op2, evalV_var, h3, h6, evalOp2, ofBool, this, hr]
    · have : ¬ (4 : Int) < (r : Int) := by omega
      simp [chk1C, evalV_op2, evalV_var, h3, h6, evalOp2, ofBool, this, hr, hw, h0, h1]

/-- `window*subTableCount*iterations+remainder` when the Go expression does not overflow -/
theorem chk2_sum {env : Env} {w s t r : Nat} (h3 : env 3 = .int (w : Int)) (h4 : env 4 = .int (s : Int))
    (h5 : env 5 = .int (t : Int)) (h6 : env 6 = .int (r : Int)) (hprod : w * s * t + r < 2 ^ 63) :
    evalV G env (.op2 (.add .i64) (.op2 (.mul .i64) (.op2 (.mul .i64) (.var 3) (.var 4)) (.var 5)) (.var 6))
      = some (.int ((w * s * t + r : Nat) : Int)) := by
  simp only [evalV_op2, evalV_var, h3, h4, h5, h6, evalOp2, Option.map_some]
  rw [norm_i64_mul_cong, norm_i64_add_cong]
  have e : ((w : Int) * (s : Int) * (t : Int) + (r : Int)) = ((w * s * t + r : Nat) : Int) := by
    simp only [Int.natCast_add, Int.natCast_mul]
  rw [e, norm_i64_small (by omega) (by omega)]

theorem chk2_val {env : Env} {w s t r : Nat} (h3 : env 3 = .int (w : Int)) (h4 : env 4 = .int (s : Int))
    (h5 : env 5 = .int (t : Int)) (h6 : env 6 = .int (r : Int)) (hprod : w * s * t + r < 2 ^ 63) :
    evalV G env (.op2 .ne (.op2 (.add .i64) (.op2 (.mul .i64) (.op2 (.mul .i64) (.var 3) (.var 4)) (.var 5)) (.var 6)) (.lit 256))
      = some (.int (if w * s * t + r ≠ 256 then 1 else 0)) := by
  rw [evalV_op2, chk2_sum h3 h4 h5 h6 hprod]
  by_cases h : w * s * t + r = 256
  · simp [evalOp2, ofBool, h]
  · have e : ((w * s * t + r : Nat) : Int) = (w : Int) * (s : Int) * (t : Int) + (r : Int) := by
      simp only [Int.natCast_add, Int.natCast_mul]
    have : ¬ ((w : Int) * (s : Int) * (t : Int) + (r : Int)) = 256 := by rw [← e]; omega
    simp [evalOp2, ofBool, h, this]

/-- `windowWidth = (1 << window) - 1` for `window ≤ 8` -/
theorem ww_val {env : Env} {w : Nat} (h3 : env 3 = .int (w : Int)) (hw : w ≤ 8) :
    evalV G env (.op2 (.sub .i64) (.op2 (.shl .i64) (.lit 1) (.var 3)) (.lit 1)) = some (.int ((2 ^ w - 1 : Nat) : Int)) := by
  have hn : ¬ ((w : Int) < 0) := by omega
  have h1 : 2 ^ w ≤ 2 ^ 8 := Nat.pow_le_pow_right (by decide) hw
  have h2 : 0 < 2 ^ w := Nat.two_pow_pos w
  simp only [evalV_op2, evalV_var, evalV_lit, h3, evalOp2, hn, if_false, Int.toNat_natCast, Int.one_mul, Option.map_some]
  generalize 2 ^ w = t at h1 h2 ⊢
  rw [norm_i64_small (n := (t : Int)) (by omega) (by omega), norm_i64_small (by omega) (by omega)]
  congr 2
  omega

/-- `len((*first)[0][0]) != windowWidth`: no value when `first` or `first[0]` is empty -/
theorem chk3_val {env : Env} (hp : PInv env p) :
    evalV G env (.op2 .ne (.len (.idxc (.idxc (.var 1) 0) 0)) (.var 8)) =
      match p.first with
      | (r0 :: _) :: _ => some (.int (if r0.length ≠ 2 ^ p.window - 1 then 1 else 0))
      | _ => none := by
  simp only [evalV_op2, evalV_len, evalV_idxc, evalV_var, hp.h1, hp.h8, encTs]
  cases hf : p.first with
  | nil => rfl
  | cons t0 ts =>
    cases t0 with
    | nil => rfl
    | cons r0 rs =>
      simp only [List.map_cons, encT, List.getElem?_cons_zero, List.length_map]
      by_cases h : r0.length = 2 ^ p.window - 1
      · simp [evalOp2, ofBool, h]
      · have : ¬ (r0.length : Int) = ((2 ^ p.window - 1 : Nat) : Int) := by omega
        simp [evalOp2, ofBool, h, this]

/-- when the model's check passes (for `window ≥ 1`), `first[0][0]` exists -/
theorem chk3_pass {env : Env} (hp : PInv env p) (hw : 1 ≤ p.window)
    (h : ((p.first.getD 0 []).getD 0 []).length = 2 ^ p.window - 1) :
    evalV G env (.op2 .ne (.len (.idxc (.idxc (.var 1) 0) 0)) (.var 8)) = some (.int 0) := by
  have h2 : 2 ^ 1 ≤ 2 ^ p.window := Nat.pow_le_pow_right (by decide) hw
  rw [chk3_val hp]
  cases hf : p.first with
  | nil => rw [hf] at h; simp at h; omega
  | cons t0 ts =>
    cases t0 with
    | nil => rw [hf] at h; simp at h; omega
    | cons r0 rs =>
      rw [hf] at h
      simp only [List.getD_cons_zero] at h
      simp [h]

theorem len_val {env : Env} (hp : PInv env p) :
    evalV G env (.op2 .ne (.len (.var 0)) (.lit 32)) = some (.int (if p.k.length ≠ 32 then 1 else 0)) := by
  simp only [evalV_op2, evalV_len, evalV_var, evalV_lit, hp.h0, bytesV, List.length_map]
  by_cases h : p.k.length = 32
  · simp [evalOp2, ofBool, h]
  · have : ¬ (p.k.length : Int) = 32 := by omega
    simp [evalOp2, ofBool, h, this]

/-- the arguments of a run -/
def argsOf (p : Params) : List Val :=
  [bytesV p.k, encTs p.first, encT p.second, .int (p.window : Int), .int (p.sub : Int), .int (p.iter : Int), .int (p.rem : Int)]

/-- the state after `windowWidth := …` -/
def envW (p : Params) : Env := (Env.ofList (argsOf p)).set 8 (.int ((2 ^ p.window - 1 : Nat) : Int))

theorem envW_inv (p : Params) : PInv (envW p) p := ⟨rfl, rfl, rfl, rfl, rfl, rfl, rfl, rfl⟩

/-- the two scheme checks pass and `windowWidth` is computed -/
theorem checks12 (hs : Scheme p) {rest : Stmt} :
    (∀ {env' : Env} {c : Ctl} {F : Nat}, EvIn P G X F (envW p) rest env' c →
      EvIn P G X (F + 8) (Env.ofList (argsOf p)) (seqs [chk1S, chk2S, wwS, rest]) env' c) ∧
    (Fails P G X (envW p) rest → Fails P G X (Env.ofList (argsOf p)) (seqs [chk1S, chk2S, wwS, rest])) := by
  have g3 : (Env.ofList (argsOf p)) 3 = .int (p.window : Int) := rfl
  have g4 : (Env.ofList (argsOf p)) 4 = .int (p.sub : Int) := rfl
  have g5 : (Env.ofList (argsOf p)) 5 = .int (p.iter : Int) := rfl
  have g6 : (Env.ofList (argsOf p)) 6 = .int (p.rem : Int) := rfl
  have c1 := chk1_val (G := G) g3 g6
  rw [if_neg (by have := hs.w8; have := hs.r4; omega)] at c1
  have c2 := chk2_val (G := G) g3 g4 g5 g6 (by rw [hs.sum]; decide)
  rw [if_neg (by simp [hs.sum])] at c2
  have cw := ww_val (G := G) g3 hs.w8
  have i1 : EvIn P G X 2 (Env.ofList (argsOf p)) chk1S (Env.ofList (argsOf p)) .norm := EvIn.ite c1 rfl (EvIn.skip _)
  have i2 : EvIn P G X 2 (Env.ofList (argsOf p)) chk2S (Env.ofList (argsOf p)) .norm := EvIn.ite c2 rfl (EvIn.skip _)
  have i3 : EvIn P G X 1 (Env.ofList (argsOf p)) wwS (envW p) .norm := EvIn.assign cw
  constructor
  · intro env' c F h
    exact (EvIn.seq i1 (EvIn.seq i2 (EvIn.seq i3 h))).mono (by omega)
  · intro h
    exact Fails.seq_right i1 (Fails.seq_right i2 (Fails.seq_right i3 h))

theorem fn82_args (p : Params) : (argsOf p).length = fn_82.nparams := rfl

end Loops

/-! ## The theorems -/

section Main
variable {Γ : Type} {P : Prog} {G : Nat → Val} {X : Oracle} {Ops : Model.Curve.GOps Γ} {encP : Γ → Val}
  {p : Params} {Fnew Fdbl Fadd Fset Fsel : Nat}

/-- fuel that suffices for the body of scalarBaseMult_SkipBitExtration -/
def fuelComb (window sub iter Fnew Fdbl Fadd Fset Fsel : Nat) : Nat :=
  fuelMain window sub iter Fnew Fdbl Fadd Fset Fsel + 20

/-- the model succeeds only after all explicit checks -/
theorem model_ok_checks {r : Outcome Γ} (hne : r ≠ .panic)
    (h : Model.Curve.scalarBaseMult Ops p.k p.first p.second p.window p.sub p.iter p.rem = r) :
    Scheme p ∧ ((p.first.getD 0 []).getD 0 []).length = 2 ^ p.window - 1 ∧
      (if p.k.length ≠ 32 then Outcome.err else mainM Ops p) = r := by
  rw [scalarBaseMult_eq] at h
  by_cases h1 : p.window > 8 ∨ p.rem > 4
  · rw [if_pos h1] at h; exact absurd h.symm hne
  · rw [if_neg h1] at h
    by_cases h2 : p.window * p.sub * p.iter + p.rem ≠ 256
    · rw [if_pos h2] at h; exact absurd h.symm hne
    · rw [if_neg h2] at h
      by_cases h3 : ((p.first.getD 0 []).getD 0 []).length ≠ 2 ^ p.window - 1
      · rw [if_pos h3] at h; exact absurd h.symm hne
      · rw [if_neg h3] at h
        exact ⟨⟨by omega, by omega, by omega⟩, by omega, h⟩

/-- BODY LEVEL (for callers), success: the model returns `r` ⇒ the body of `fn_82` returns `[encP r, 0]`.

    Hypotheses beyond the callee contracts:
    * `hlen : subTableCount ≤ len(*first)`: the IR reads `(*first)[j]` (stuck when out of range) where the
      model reads `first.getD j []`, an EMPTY table, and goes on with whatever `Ops.selectXY [] …` returns;
    * `hsec : remainder ≥ 1 → second ≠ []`: the IR evaluates `len(points[0])` (stuck on an empty `second`)
      where the model uses `(second.getD 0 []).length = 0`. -/
theorem comb_body_ok (C : Callees P G X Ops encP p Fnew Fdbl Fadd Fset Fsel)
    (hlen : p.sub ≤ p.first.length) (hsec : 1 ≤ p.rem → p.second ≠ []) {r : Γ}
    (h : Model.Curve.scalarBaseMult Ops p.k p.first p.second p.window p.sub p.iter p.rem = .ok r) :
    ∃ env', EvIn P G X (fuelComb p.window p.sub p.iter Fnew Fdbl Fadd Fset Fsel) (Env.ofList (argsOf p)) fn_82.body env'
      (.ret [encP r, .int 0]) := by
  obtain ⟨hs, h3, hm⟩ := model_ok_checks (by simp) h
  by_cases hk : p.k.length ≠ 32
  · rw [if_pos hk] at hm; cases hm
  · rw [if_neg hk] at hm
    have hp := envW_inv p
    have c3 := chk3_pass (G := G) hp hs.bounds.1 h3
    have c4 := len_val (G := G) hp
    rw [if_neg hk] at c4
    obtain ⟨env', hmain⟩ := main_ok C hs hlen hsec hp hm
    refine ⟨env', ?_⟩
    rw [fn_82_body]
    exact ((checks12 (P := P) (G := G) (X := X) hs).1 (EvIn.seq (EvIn.ite c3 rfl (EvIn.skip _))
      (EvIn.seq (EvIn.ite c4 rfl (EvIn.skip _)) hmain))).mono (by simp only [fuelComb]; omega)

theorem evIn_ext {env env1 : Env} {lhs : List Nat} {name : Nat} {leaky : Bool} {args : List Expr} {vs : List Val}
    (ha : evalVs G env args = some vs) (hset : env.setMany lhs (X name vs) = some env1) :
    EvIn P G X 1 env (.ext lhs name leaky args) env1 .norm := by
  intro f hf; obtain ⟨f, rfl⟩ := Nat.exists_eq_add_of_le' hf
  rw [execV_ext, ha]
  simp [hset]

/-- BODY LEVEL, error: the checks pass and `len(k) ≠ 32` ⇒ the body returns `(nil, err)`: a zero value of the
    shape of a point and a non-nil error (1).  `fmt.Errorf` is external call 10; its result is ignored,
    but the oracle must return ONE value (`hX`), otherwise the IR is stuck at the assignment. -/
theorem comb_body_err (hs : Scheme p) (h3 : ((p.first.getD 0 []).getD 0 []).length = 2 ^ p.window - 1)
    (hk : p.k.length ≠ 32) (hX : ∃ v, X 10 [.int (p.k.length : Int), .int 32] = [v]) :
    ∃ env', EvIn P G X 20 (Env.ofList (argsOf p)) fn_82.body env' (.ret [nilPointV, .int 1]) := by
  have hp := envW_inv p
  have c3 := chk3_pass (G := G) hp hs.bounds.1 h3
  have c4 := len_val (G := G) hp
  rw [if_pos hk] at c4
  obtain ⟨v, hv⟩ := hX
  have ae : evalVs G (envW p) [(.len (.var 0)), (.lit 32)] = some [.int (p.k.length : Int), .int 32] := by
    simp only [evalVs_cons, evalVs_nil, evalV_len, evalV_var, evalV_lit, hp.h0, bytesV, List.length_map]
  have ce : EvIn P G X 1 (envW p) (.ext [9] 10 true [(.len (.var 0)), (.lit 32)]) ((envW p).set 9 v) .norm :=
    evIn_ext ae (by rw [hv]; rfl)
  have sr : evalVs G ((envW p).set 9 v) [(.mk (.lit 3) (.mk (.lit 1) (.mk (.lit 4) (.lit 0)))), (.lit 1)]
      = some [nilPointV, .int 1] := rfl
  refine ⟨(envW p).set 9 v, ?_⟩
  rw [fn_82_body]
  exact ((checks12 (P := P) (G := G) (X := X) hs).1 (EvIn.seq (EvIn.ite c3 rfl (EvIn.skip _))
    (EvIn.seq_stop (EvIn.ite c4 rfl (EvIn.seq ce (EvIn.ret sr))) (by simp)))).mono (by omega)


/-! ### the explicit panics -/

/-- the inputs on which one of the three explicit `panic(...)` statements is reached (with the Go sum not
    overflowing, and `first[0][0]` present) -/
def ExplicitPanic (p : Params) : Prop :=
  (p.window > 8 ∨ p.rem > 4) ∨
  (p.window ≤ 8 ∧ p.rem ≤ 4 ∧ p.window * p.sub * p.iter + p.rem < 2 ^ 63 ∧ p.window * p.sub * p.iter + p.rem ≠ 256) ∨
  (Scheme p ∧ ∃ r0 rs ts, p.first = (r0 :: rs) :: ts ∧ r0.length ≠ 2 ^ p.window - 1)

theorem fn_82_body' : fn_82.body = .seq chk1S (.seq chk2S (.seq wwS (.seq chk3S (.seq chkLenS mainS)))) := rfl

/-- BODY LEVEL, explicit panics: "reconsider your choice", "invalid scheme", "invalid parameter" -/
theorem comb_body_panic (h : ExplicitPanic p) :
    ∃ env', EvIn P G X 12 (Env.ofList (argsOf p)) fn_82.body env' .panic := by
  have g3 : (Env.ofList (argsOf p)) 3 = .int (p.window : Int) := rfl
  have g4 : (Env.ofList (argsOf p)) 4 = .int (p.sub : Int) := rfl
  have g5 : (Env.ofList (argsOf p)) 5 = .int (p.iter : Int) := rfl
  have g6 : (Env.ofList (argsOf p)) 6 = .int (p.rem : Int) := rfl
  have c1 := chk1_val (G := G) g3 g6
  rcases h with h1 | ⟨hw, hr, hprod, h2⟩ | ⟨hs, r0, rs, ts, hf, h3⟩
  · rw [if_pos h1] at c1
    rw [fn_82_body']
    exact ⟨_, (EvIn.seq_stop (EvIn.ite c1 rfl (EvIn.panic _)) (by simp)).mono (by omega)⟩
  · rw [if_neg (by omega)] at c1
    have c2 := chk2_val (G := G) g3 g4 g5 g6 hprod
    rw [if_pos h2] at c2
    rw [fn_82_body']
    exact ⟨_, (EvIn.seq (EvIn.ite c1 rfl (EvIn.skip _))
      (EvIn.seq_stop (EvIn.ite c2 rfl (EvIn.panic _)) (by simp))).mono (by omega)⟩
  · have c3 := chk3_val (G := G) (envW_inv p)
    rw [hf] at c3
    simp only [if_pos h3] at c3
    rw [fn_82_body]
    exact ⟨_, ((checks12 (P := P) (G := G) (X := X) hs).1
      (EvIn.seq_stop (EvIn.ite c3 rfl (EvIn.panic _)) (by simp))).mono (by omega)⟩

/-- BODY LEVEL: a valid scheme with an empty `*first` or an empty `(*first)[0]`: the IR is stuck at
    `len((*first)[0][0])` (Go: index out of range), where the model reports the explicit panic
    "invalid parameter" (its `getD` gives length 0 ≠ windowWidth) -/
theorem comb_body_stuck3 (hs : Scheme p) (h : p.first = [] ∨ ∃ ts, p.first = [] :: ts) :
    Fails P G X (Env.ofList (argsOf p)) fn_82.body := by
  have c3 := chk3_val (G := G) (envW_inv p)
  have : evalV G (envW p) (.op2 .ne (.len (.idxc (.idxc (.var 1) 0) 0)) (.var 8)) = none := by
    rcases h with h | ⟨ts, h⟩ <;> rw [h] at c3 <;> exact c3
  rw [fn_82_body]
  exact (checks12 (P := P) (G := G) (X := X) hs).2 (Or.inr (Stuck.seq_left (Stuck.cond this)))

/-- BODY LEVEL, failure: the model panics ⇒ the body of `fn_82` ends in an explicit `panic` or is stuck (a Go
    run-time panic).  `hprod`: the Go expression `window*subTableCount*iterations+remainder` does not
    overflow.  No hypothesis on the sizes of the tables. -/
theorem comb_body_fails (C : Callees P G X Ops encP p Fnew Fdbl Fadd Fset Fsel) (CF : SelFails P G X Ops encP p)
    (hprod : p.window * p.sub * p.iter + p.rem < 2 ^ 63)
    (h : Model.Curve.scalarBaseMult Ops p.k p.first p.second p.window p.sub p.iter p.rem = .panic) :
    Fails P G X (Env.ofList (argsOf p)) fn_82.body := by
  rw [scalarBaseMult_eq] at h
  by_cases h1 : p.window > 8 ∨ p.rem > 4
  · obtain ⟨env', hp⟩ := comb_body_panic (P := P) (G := G) (X := X) (Or.inl h1)
    exact Or.inl ⟨_, _, hp⟩
  · rw [if_neg h1] at h
    by_cases h2 : p.window * p.sub * p.iter + p.rem ≠ 256
    · obtain ⟨env', hp⟩ := comb_body_panic (P := P) (G := G) (X := X) (Or.inr (Or.inl ⟨by omega, by omega, hprod, h2⟩))
      exact Or.inl ⟨_, _, hp⟩
    · rw [if_neg h2] at h
      have hs : Scheme p := ⟨by omega, by omega, by omega⟩
      by_cases h3 : ((p.first.getD 0 []).getD 0 []).length ≠ 2 ^ p.window - 1
      · cases hf : p.first with
        | nil => exact comb_body_stuck3 hs (Or.inl hf)
        | cons t0 ts =>
          cases t0 with
          | nil => exact comb_body_stuck3 hs (Or.inr ⟨ts, hf⟩)
          | cons r0 rs =>
            rw [hf] at h3
            simp only [List.getD_cons_zero] at h3
            obtain ⟨env', hp⟩ := comb_body_panic (P := P) (G := G) (X := X) (Or.inr (Or.inr ⟨hs, r0, rs, ts, hf, h3⟩))
            exact Or.inl ⟨_, _, hp⟩
      · rw [if_neg h3] at h
        by_cases hk : p.k.length ≠ 32
        · rw [if_pos hk] at h; cases h
        · rw [if_neg hk] at h
          have hp := envW_inv p
          have c3 := chk3_pass (G := G) hp hs.bounds.1 (by omega)
          have c4 := len_val (G := G) hp
          rw [if_neg hk] at c4
          rw [fn_82_body]
          exact (checks12 (P := P) (G := G) (X := X) hs).2 (Fails.seq_right (EvIn.ite c3 rfl (EvIn.skip _))
            (Fails.seq_right (EvIn.ite c4 rfl (EvIn.skip _)) (main_fails C CF hs hp (Or.inl h))))

/-- BODY LEVEL, OUTSIDE the domain of `comb_body_ok`: all checks pass, `len(k) = 32`, and
    `subTableCount > len(*first)` or (`remainder ≥ 1` and `*second` empty).  The IR ALWAYS fails (index
    out of range), whatever the model returns (unless it returns an error, which needs an `Ops.selectXY`
    that returns errors).  Where the model returns `.ok` on such an input the two sides DISAGREE. -/
theorem comb_body_outside (C : Callees P G X Ops encP p Fnew Fdbl Fadd Fset Fsel) (CF : SelFails P G X Ops encP p)
    (hs : Scheme p) (h3 : ((p.first.getD 0 []).getD 0 []).length = 2 ^ p.window - 1) (hk : p.k.length = 32)
    (hne : Model.Curve.scalarBaseMult Ops p.k p.first p.second p.window p.sub p.iter p.rem ≠ .err)
    (hout : p.first.length < p.sub ∨ (1 ≤ p.rem ∧ p.second = [])) :
    Fails P G X (Env.ofList (argsOf p)) fn_82.body := by
  rw [scalarBaseMult_eq, if_neg (by have := hs.w8; have := hs.r4; omega), if_neg (by simp [hs.sum]),
    if_neg (by omega), if_neg (by omega)] at hne
  have hp := envW_inv p
  have c3 := chk3_pass (G := G) hp hs.bounds.1 h3
  have c4 := len_val (G := G) hp
  rw [if_neg (by omega)] at c4
  rw [fn_82_body]
  exact (checks12 (P := P) (G := G) (X := X) hs).2 (Fails.seq_right (EvIn.ite c3 rfl (EvIn.skip _))
    (Fails.seq_right (EvIn.ite c4 rfl (EvIn.skip _)) (main_fails C CF hs hp (Or.inr ⟨hne, hout⟩))))


/-! ### the error outcome -/

section NeErr
variable (hne : ∀ tbl w bits, Ops.selectXY tbl w bits ≠ .err)
include hne

theorem innerFrom_ne_err (i : Nat) : ∀ (n j : Nat) (st : Γ × Bool), innerFrom Ops p i j n st ≠ .err := by
  intro n
  induction n with
  | zero => intro j st; simp [innerFrom_zero]
  | succ n ih =>
    intro j st
    obtain ⟨ret, skip⟩ := st
    rw [innerFrom_succ, innerStep_eq]
    cases hb : Model.Curve.extractHigherBits p.k (i + j * p.iter + p.rem) p.window (p.sub * p.iter) with
    | err => exact absurd hb (extractHigherBits_ne_err _ _ _ _)
    | panic => simp
    | ok bits =>
      rw [Outcome.bind_ok]
      cases hsel : Ops.selectXY (p.first.getD j []) (2 ^ p.window - 1) bits with
      | err => exact absurd hsel (hne _ _ _)
      | panic => simp
      | ok tmp => rw [Outcome.bind_ok, Outcome.bind_ok]; exact ih _ _

theorem outerFrom_ne_err : ∀ (n ii : Nat) (st : Γ × Bool), outerFrom Ops p ii n st ≠ .err := by
  intro n
  induction n with
  | zero => intro ii st; simp [outerFrom_zero]
  | succ n ih =>
    intro ii st
    obtain ⟨ret, skip⟩ := st
    rw [outerFrom_succ, outerStep_eq]
    cases hin : innerFrom Ops p (p.iter - 1 - ii) 0 p.sub (if skip then ret else Ops.double ret, skip) with
    | err => exact absurd hin (innerFrom_ne_err hne _ _ _ _)
    | panic => simp
    | ok st' => rw [Outcome.bind_ok]; exact ih _ _

theorem mainM_ne_err : mainM Ops p ≠ .err := by
  unfold mainM
  cases ho : outerFrom Ops p 0 p.iter (Ops.infinity, true) with
  | err => exact absurd ho (outerFrom_ne_err hne _ _ _)
  | panic => simp
  | ok st =>
    rw [Outcome.bind_ok]
    split
    · cases hb : Model.Curve.extractLowerBits p.k p.rem with
      | err => exact absurd hb (extractLowerBits_ne_err _ _)
      | panic => simp
      | ok bits =>
        rw [Outcome.bind_ok]
        cases hsel : Ops.selectXY p.second ((p.second.getD 0 []).length) bits with
        | err => exact absurd hsel (hne _ _ _)
        | panic => simp
        | ok tmp => simp
    · simp

/-- when `selectXY` never returns an error, the model's only error is the length check -/
theorem model_err_checks
    (h : Model.Curve.scalarBaseMult Ops p.k p.first p.second p.window p.sub p.iter p.rem = .err) :
    Scheme p ∧ ((p.first.getD 0 []).getD 0 []).length = 2 ^ p.window - 1 ∧ p.k.length ≠ 32 := by
  obtain ⟨hs, h3, hm⟩ := model_ok_checks (by simp) h
  refine ⟨hs, h3, ?_⟩
  intro hk
  rw [if_neg (by omega)] at hm
  exact mainM_ne_err hne hm

end NeErr

end Main

/-! ## Run level, for the generated program -/

section Run
variable {Γ : Type} {G : Nat → Val} {X : Oracle} {Ops : Model.Curve.GOps Γ} {encP : Γ → Val}
  {p : Params} {Fnew Fdbl Fadd Fset Fsel : Nat}

theorem fn82_lookup : prog[f_internal_scalarBaseMult_SkipBitExtration]? = some fn_82 := rfl

/-- the model returns `r` ⇒ the run returns `(r, nil)` -/
theorem ir_comb_ok (C : Callees prog G X Ops encP p Fnew Fdbl Fadd Fset Fsel)
    (hlen : p.sub ≤ p.first.length) (hsec : 1 ≤ p.rem → p.second ≠ []) {r : Γ}
    (h : Model.Curve.scalarBaseMult Ops p.k p.first p.second p.window p.sub p.iter p.rem = .ok r) :
    ∀ f, fuelComb p.window p.sub p.iter Fnew Fdbl Fadd Fset Fsel ≤ f →
      runV prog G X f f_internal_scalarBaseMult_SkipBitExtration (argsOf p) = .ret [encP r, .int 0] := by
  obtain ⟨env', hb⟩ := comb_body_ok C hlen hsec h
  exact runV_of_EvIn fn82_lookup rfl (fn82_args p) hb

/-- the model returns an error ⇒ the run returns `(nil, err)` -/
theorem ir_comb_err (hne : ∀ tbl w bits, Ops.selectXY tbl w bits ≠ .err)
    (hX : ∃ v, X 10 [.int (p.k.length : Int), .int 32] = [v])
    (h : Model.Curve.scalarBaseMult Ops p.k p.first p.second p.window p.sub p.iter p.rem = .err) :
    ∀ f, 20 ≤ f →
      runV prog G X f f_internal_scalarBaseMult_SkipBitExtration (argsOf p) = .ret [nilPointV, .int 1] := by
  obtain ⟨hs, h3, hk⟩ := model_err_checks hne h
  obtain ⟨env', hb⟩ := comb_body_err (P := prog) (G := G) (X := X) hs h3 hk hX
  exact runV_of_EvIn fn82_lookup rfl (fn82_args p) hb

/-- one of the explicit `panic(...)` statements is reached ⇒ the run panics -/
theorem ir_comb_panic (h : ExplicitPanic p) :
    ∀ f, 12 ≤ f → runV prog G X f f_internal_scalarBaseMult_SkipBitExtration (argsOf p) = .panic := by
  obtain ⟨env', hb⟩ := comb_body_panic (P := prog) (G := G) (X := X) h
  exact runV_of_EvIn fn82_lookup rfl (fn82_args p) hb

/-- the model panics ⇒ the run panics (explicit `panic`) or is stuck with every fuel (run-time panic) -/
theorem ir_comb_fails (C : Callees prog G X Ops encP p Fnew Fdbl Fadd Fset Fsel) (CF : SelFails prog G X Ops encP p)
    (hprod : p.window * p.sub * p.iter + p.rem < 2 ^ 63)
    (h : Model.Curve.scalarBaseMult Ops p.k p.first p.second p.window p.sub p.iter p.rem = .panic) :
    (∃ F, ∀ f, F ≤ f → runV prog G X f f_internal_scalarBaseMult_SkipBitExtration (argsOf p) = .panic) ∨
    (∀ f, runV prog G X f f_internal_scalarBaseMult_SkipBitExtration (argsOf p) = .stuck) :=
  runV_of_Fails fn82_lookup rfl (fn82_args p) (comb_body_fails C CF hprod h)

/-- outside the domain of `ir_comb_ok` (tables too short) the run always fails -/
theorem ir_comb_outside (C : Callees prog G X Ops encP p Fnew Fdbl Fadd Fset Fsel) (CF : SelFails prog G X Ops encP p)
    (hs : Scheme p) (h3 : ((p.first.getD 0 []).getD 0 []).length = 2 ^ p.window - 1) (hk : p.k.length = 32)
    (hne : Model.Curve.scalarBaseMult Ops p.k p.first p.second p.window p.sub p.iter p.rem ≠ .err)
    (hout : p.first.length < p.sub ∨ (1 ≤ p.rem ∧ p.second = [])) :
    (∃ F, ∀ f, F ≤ f → runV prog G X f f_internal_scalarBaseMult_SkipBitExtration (argsOf p) = .panic) ∨
    (∀ f, runV prog G X f f_internal_scalarBaseMult_SkipBitExtration (argsOf p) = .stuck) :=
  runV_of_Fails fn82_lookup rfl (fn82_args p) (comb_body_outside C CF hs h3 hk hne hout)

/-- **internal.scalarBaseMult_SkipBitExtration: the run of the generated IR is the model, modulo its callees.**

    For every byte string `k`, tables `first`, `second` and non-negative Go `int`s `window`, `subTableCount`,
    `iterations`, `remainder`, an arbitrary carrier `Γ` of points with operations `Ops` and encoding `encP`:

    CALLEE HYPOTHESES (the point operations are uninterpreted IR functions):
    NewSM2Point (73), Double (79), Add (78), Set (75) and selectPoints (5, after NewSM2Point, for the tables
    and widths used in this run and a byte `bits`) compute the model's operations with fuels `Fnew … Fsel`;
    `hselF`: where the model's `selectXY` panics, the IR selectPoints ends in `panic` or is stuck;
    `hselE`: `selectXY` never returns an error (true of the point layer; used for the `.err` case only);
    `hX`: the external `fmt.Errorf` (number 10) returns one value (used for the `.err` case only).

    DOMAIN HYPOTHESES:
    `hprod`: Go's `window*subTableCount*iterations+remainder` does not overflow.  COUNTER-EXAMPLE without it:
      `window = 8, subTableCount = 2^61+32, iterations = 1, remainder = 0`: the model panics ("invalid
      scheme": the natural-number sum is 2^64+256), the IR/Go sum wraps around to 256 and passes the check.
    `hlen`: `subTableCount ≤ len(*first)`.  Without it the model reads `first.getD j []`, an empty table, and
      returns whatever `Ops.selectXY [] …` gives; the IR is stuck at `(*first)[j]` (`ir_comb_outside`).
    `hsec`: `remainder ≥ 1 → *second` non-empty.  COUNTER-EXAMPLE: the 6-3-14-4 scheme with `second = []`:
      the model calls `selectXY [] 0 bits` (for the point layer: `.ok`, the width check `0 ≠ 0` passes), the
      IR is stuck at `len(points[0])` (`ir_comb_outside`; Go: index out of range).
    (`hlen`, `hsec` are used for the `.ok` case only.)

    CONCLUSION, by the outcome of the model:
    `.ok r` ⇒ every run with fuel ≥ `fuelComb …` returns `[encP r, 0]` (the point and a nil error);
    `.err` (`len(k) ≠ 32`) ⇒ every run with fuel ≥ 20 returns `[nilPointV, 1]`;
    `.panic` ⇒ the run ends in `panic` for all large fuels (explicit `panic(...)`: see `ir_comb_panic` for
      the three parameter checks) or is stuck with every fuel (Go run-time panic: index out of range). -/
theorem ir_scalarBaseMult_eq_model (k : Bytes) (first : List Table) (second : Table)
    (window subTableCount iterations remainder : Nat)
    (hnew : Computes prog G X 73 Fnew [] [encP Ops.infinity])
    (hdbl : ∀ q a, Computes prog G X 79 Fdbl [encP q, encP a] [encP (Ops.double a), encP (Ops.double a)])
    (hadd : ∀ q a b, Computes prog G X 78 Fadd [encP q, encP a, encP b] [encP (Ops.add a b), encP (Ops.add a b)])
    (hset : ∀ q a, Computes prog G X 75 Fset [encP q, encP a] [encP a, encP a])
    (hsel : ∀ tbl w bits r,
      SelUsed ⟨k, first, second, window, subTableCount, iterations, remainder⟩ tbl w → bits < 256 →
      Ops.selectXY tbl w bits = .ok r →
      Computes prog G X 5 Fsel [encP Ops.infinity, encT tbl, .int (w : Int), .int (bits : Int)] [encP r, encP r])
    (hselF : ∀ tbl w bits,
      SelUsed ⟨k, first, second, window, subTableCount, iterations, remainder⟩ tbl w → bits < 256 →
      Ops.selectXY tbl w bits = .panic →
      CalleeFails prog G X 5 [encP Ops.infinity, encT tbl, .int (w : Int), .int (bits : Int)])
    (hselE : ∀ tbl w bits, Ops.selectXY tbl w bits ≠ .err)
    (hX : ∃ v, X 10 [.int (k.length : Int), .int 32] = [v])
    (hprod : window * subTableCount * iterations + remainder < 2 ^ 63)
    (hlen : subTableCount ≤ first.length) (hsec : 1 ≤ remainder → second ≠ []) :
    match Model.Curve.scalarBaseMult Ops k first second window subTableCount iterations remainder with
    | .ok r => ∀ f, fuelComb window subTableCount iterations Fnew Fdbl Fadd Fset Fsel ≤ f →
        runV prog G X f f_internal_scalarBaseMult_SkipBitExtration
          [bytesV k, .arr (first.map encT), encT second, .int (window : Int), .int (subTableCount : Int),
            .int (iterations : Int), .int (remainder : Int)] = .ret [encP r, .int 0]
    | .err => ∀ f, 20 ≤ f →
        runV prog G X f f_internal_scalarBaseMult_SkipBitExtration
          [bytesV k, .arr (first.map encT), encT second, .int (window : Int), .int (subTableCount : Int),
            .int (iterations : Int), .int (remainder : Int)] = .ret [nilPointV, .int 1]
    | .panic =>
        (∃ F, ∀ f, F ≤ f → runV prog G X f f_internal_scalarBaseMult_SkipBitExtration
          [bytesV k, .arr (first.map encT), encT second, .int (window : Int), .int (subTableCount : Int),
            .int (iterations : Int), .int (remainder : Int)] = .panic) ∨
        (∀ f, runV prog G X f f_internal_scalarBaseMult_SkipBitExtration
          [bytesV k, .arr (first.map encT), encT second, .int (window : Int), .int (subTableCount : Int),
            .int (iterations : Int), .int (remainder : Int)] = .stuck) := by
  have C : Callees prog G X Ops encP ⟨k, first, second, window, subTableCount, iterations, remainder⟩
      Fnew Fdbl Fadd Fset Fsel :=
    ⟨fn2_lookup, fn3_lookup, fn4_lookup, hnew, hdbl, hadd, hset, hsel⟩
  cases h : Model.Curve.scalarBaseMult Ops k first second window subTableCount iterations remainder with
  | ok r => exact ir_comb_ok (p := ⟨k, first, second, window, subTableCount, iterations, remainder⟩) C hlen hsec h
  | err => exact ir_comb_err (p := ⟨k, first, second, window, subTableCount, iterations, remainder⟩) hselE hX h
  | panic => exact ir_comb_fails (p := ⟨k, first, second, window, subTableCount, iterations, remainder⟩) C hselF hprod h

end Run



/-! # internal.ScalarMult (`fn_88`): fixed 4-bit windows -/

namespace SM

/-! ## The program text of `fn_88` in pieces -/

def pCondE : Expr := .op2 .lt (.var 6) (.lit 15)
def pBodyS : Stmt := seqs [.call [7] 73 [],
    .call [2, 8] 78 [(.var 7), (.idx (.var 3) (.op2 (.sub .i64) (.var 6) (.lit 1))), (.var 0)],
    .assign 3 [.e (.var 6)] (.var 8)]
def pPostS : Stmt := .assign 6 [] (.op2 (.add .i64) (.var 6) (.lit 1))
def pLoopS : Stmt := .loop pCondE pBodyS pPostS
def dblS : Stmt := .call [14, 2] 79 [(.var 14), (.var 14)]
def addS : Stmt := .call [14, 2] 78 [(.var 14), (.var 14), (.var 19)]
def hiE : Expr := .op1 (.shrc 4) (.var 17)
def loE : Expr := .op2 (.and .u8) (.var 17) (.lit 15)
def selS (e : Expr) : Stmt := .call [19, 2] 80 [(.var 19), (.var 11), (.lit 15), e]
def mCondE : Expr := .op2 .lt (.var 16) (.var 15)
def mDbl4S : Stmt := .ite (.op1 .lnot (.var 12)) (.seq dblS (.seq dblS (.seq dblS dblS))) .skip
def mBodyS : Stmt := .seq (.assign 17 [] (.idx (.var 1) (.var 16))) (.seq mDbl4S
    (.seq (.call [18] 73 []) (.seq (.assign 19 [] (.var 18)) (.seq (selS hiE) (.seq addS
    (.seq (.assign 12 [] (.lit 0)) (.seq dblS (.seq dblS (.seq dblS (.seq dblS
    (.seq (.call [20] 73 []) (.seq (.assign 19 [] (.var 20)) (.seq (selS loE) addS)))))))))))))
def mPostS : Stmt := .assign 16 [] (.op2 (.add .i64) (.var 16) (.lit 1))
def mLoopS : Stmt := .loop mCondE mBodyS mPostS

theorem fn_88_body : fn_88.body =
    .seq (.assign 3 [] (.mk (.lit 15) (.mk (.lit 3) (.mk (.lit 1) (.mk (.lit 4) (.lit 0))))))
    (.seq (.assign 3 [.c 0] (.var 0))
    (.seq (.call [4] 73 [])
    (.seq (.call [2, 5] 79 [(.var 4), (.var 0)])
    (.seq (.assign 3 [.c 1] (.var 5))
    (.seq (.assign 6 [] (.lit 2))
    (.seq pLoopS
    (.seq (.assign 9 [] (.var 3))
    (.seq (.call [10] 81 [(.var 9), (.lit 15)])
    (.seq (.assign 11 [] (.var 10))
    (.seq (.assign 12 [] (.lit 1))
    (.seq (.call [13] 73 [])
    (.seq (.assign 14 [] (.var 13))
    (.seq (.assign 15 [] (.len (.var 1)))
    (.seq (.assign 16 [] (.lit 0))
    (.seq mLoopS
    (.seq (.ret [(.var 14), (.lit 0)]) .panic)))))))))))))))) := rfl

/-! ## The model in recursive form -/

section Model
variable {Γ : Type} (Ops : Model.Curve.GOps Γ) (Pt : Γ)

def preStep (l : List Γ) : List Γ := l ++ [Ops.add (l.getLastD Pt) Pt]

def preIter : Nat → List Γ → List Γ
  | 0, l => l
  | n + 1, l => preIter n (preStep Ops Pt l)

/-- P, 2P, …, 15P as the code computes them -/
def preOf : List Γ := preIter Ops Pt 13 [Pt, Ops.double Pt]

theorem foldl_preIter (s n : Nat) (l : List Γ) :
    (List.range' s n).foldl (fun (l : List Γ) _ => l ++ [Ops.add (l.getLastD Pt) Pt]) l = preIter Ops Pt n l := by
  induction n generalizing s l with
  | zero => rfl
  | succ n ih => rw [List.range'_succ, List.foldl_cons, ih]; rfl

theorem preIter_length : ∀ (n : Nat) (l : List Γ), (preIter Ops Pt n l).length = l.length + n := by
  intro n
  induction n with
  | zero => intro l; rfl
  | succ n ih =>
    intro l
    rw [preIter, ih, preStep, List.length_append, List.length_singleton]
    omega

/-- one byte of the scalar -/
def smStep (tbl : Table) (st : Γ × Bool) (b : UInt8) : Outcome (Γ × Bool) := do
  let (ret, skip) := st
  let ret := if !skip then Model.Curve.double4 Ops ret else ret
  let tmp ← Ops.selectXYZ tbl 15 (b.toNat >>> 4)
  let ret := Ops.add ret tmp
  let ret := Model.Curve.double4 Ops ret
  let tmp ← Ops.selectXYZ tbl 15 (b.toNat &&& 0x0f)
  pure (Ops.add ret tmp, false)

theorem smStep_eq (tbl : Table) (ret : Γ) (skip : Bool) (b : UInt8) :
    smStep Ops tbl (ret, skip) b =
      (Ops.selectXYZ tbl 15 (b.toNat >>> 4) >>= fun t1 =>
        Ops.selectXYZ tbl 15 (b.toNat &&& 15) >>= fun t2 =>
          .ok (Ops.add (Model.Curve.double4 Ops (Ops.add (if skip then ret else Model.Curve.double4 Ops ret) t1)) t2, false)) := by
  cases skip <;> rfl

theorem scalarMult_eq (scalar : Bytes) :
    Model.Curve.scalarMult Ops Pt scalar =
      (scalar.foldlM (smStep Ops (Ops.transform (preOf Ops Pt))) (Ops.infinity, true) >>= fun st => .ok st.1) := by
  unfold Model.Curve.scalarMult preOf
  dsimp only
  rw [List.range_eq_range', foldl_preIter]
  rfl

end Model


/-! ## Callee hypotheses -/

/-- the table of the run: `TransformPrecomputed` of P, 2P, …, 15P -/
def tblOf {Γ : Type} (Ops : Model.Curve.GOps Γ) (Pt : Γ) : Table := Ops.transform (preOf Ops Pt)

/-- CALLEE HYPOTHESES for ScalarMult: NewSM2Point, Double, Add as for the comb; TransformPrecomputed (81) on the
    15 precomputed points of this run; MultiSelectXYZ (80) after NewSM2Point on the table of this run, width 15
    and a 4-bit `bits` -/
structure Callees {Γ : Type} (P : Prog) (G : Nat → Val) (X : Oracle) (Ops : Model.Curve.GOps Γ) (encP : Γ → Val)
    (Pt : Γ) (Fnew Fdbl Fadd Ftr Fsel : Nat) : Prop where
  new : Computes P G X 73 Fnew [] [encP Ops.infinity]
  dbl : ∀ q a, Computes P G X 79 Fdbl [encP q, encP a] [encP (Ops.double a), encP (Ops.double a)]
  add : ∀ q a b, Computes P G X 78 Fadd [encP q, encP a, encP b] [encP (Ops.add a b), encP (Ops.add a b)]
  tr : Computes P G X 81 Ftr [.arr ((preOf Ops Pt).map encP), .int 15] [encT (tblOf Ops Pt)]
  sel : ∀ bits r, bits < 16 → Ops.selectXYZ (tblOf Ops Pt) 15 bits = .ok r →
    Computes P G X 80 Fsel [encP Ops.infinity, encT (tblOf Ops Pt), .int 15, .int (bits : Int)] [encP r, encP r]

/-- where the model's `selectXYZ` panics, the IR MultiSelectXYZ ends in `panic` or is stuck -/
def SelFails {Γ : Type} (P : Prog) (G : Nat → Val) (X : Oracle) (Ops : Model.Curve.GOps Γ) (encP : Γ → Val)
    (Pt : Γ) : Prop :=
  ∀ bits, bits < 16 → Ops.selectXYZ (tblOf Ops Pt) 15 bits = .panic →
    CalleeFails P G X 80 [encP Ops.infinity, encT (tblOf Ops Pt), .int 15, .int (bits : Int)]

section IR
variable {Γ : Type} {P : Prog} {G : Nat → Val} {X : Oracle} {Ops : Model.Curve.GOps Γ} {encP : Γ → Val}
  {Pt : Γ} {scalar : Bytes} {Fnew Fdbl Fadd Ftr Fsel : Nat}

/-! ## The precomputation loop -/

/-- `pPrecomputes` with the first entries filled in -/
def fill (encP : Γ → Val) (l : List Γ) : Val := .arr (l.map encP ++ List.replicate (15 - l.length) nilPointV)

theorem updPath_one (l : List Val) (k : Nat) (v : Val) (hk : k < l.length) :
    updPath (.arr l) [k] v = some (.arr (l.set k v)) := by
  simp [updPath, List.getElem?_eq_getElem hk]

theorem set_fill (l : List Val) (n : Nat) (z v : Val) :
    (l ++ List.replicate (n + 1) z).set l.length v = (l ++ [v]) ++ List.replicate n z := by
  rw [List.set_append_right _ _ (Nat.le_refl _), Nat.sub_self, List.replicate_succ, List.set_cons_zero,
    List.append_assoc]
  rfl

/-- storing the next point -/
theorem fill_set (l : List Γ) (x : Γ) (hl : l.length < 15) :
    updPath (fill encP l) [l.length] (encP x) = some (fill encP (l ++ [x])) := by
  unfold fill
  rw [updPath_one _ _ _ (by simp; omega)]
  have e : 15 - l.length = (14 - l.length) + 1 := by omega
  have := set_fill (l.map encP) (14 - l.length) nilPointV (encP x)
  rw [List.length_map] at this
  rw [e, this, List.map_append, List.length_append, List.length_singleton]
  have e2 : 15 - (l.length + 1) = 14 - l.length := by omega
  rw [e2]
  rfl

theorem fill_last (l : List Γ) (hl : 1 ≤ l.length) (hl2 : l.length ≤ 15) :
    getIdx (l.map encP ++ List.replicate (15 - l.length) nilPointV) ((l.length - 1 : Nat) : Int)
      = some (encP (l.getLastD Pt)) := by
  obtain ⟨x, hx⟩ : ∃ x, l[l.length - 1]? = some x := ⟨l[l.length - 1], List.getElem?_eq_getElem (by omega)⟩
  rw [getIdx_ofNat, List.getElem?_append_left (by simp; omega), List.getElem?_map, hx,
    List.getLastD_eq_getLast?, List.getLast?_eq_getElem?, hx]
  rfl

theorem pcond_true {env : Env} {i : Nat} (h6 : env 6 = .int (i : Int)) (h : i < 15) :
    evalV G env pCondE = some (.int 1) := by
  have : (i : Int) < 15 := by omega
  simp [pCondE, evalV_op2, evalV_var, h6, evalOp2, ofBool, this]

theorem pcond_false {env : Env} {i : Nat} (h6 : env 6 = .int (i : Int)) (h : ¬ i < 15) :
    evalV G env pCondE = some (.int 0) := by
  have : ¬ (i : Int) < 15 := by omega
  simp [pCondE, evalV_op2, evalV_var, h6, evalOp2, ofBool, this]

/-- the loop `for i := 2; i < 15; i++ { pPrecomputes[i] = NewSM2Point().Add(pPrecomputes[i-1], P) }` -/
theorem ploop_ok (C : Callees P G X Ops encP Pt Fnew Fdbl Fadd Ftr Fsel) :
    ∀ (n : Nat) (l : List Γ) (env : Env), l.length + n = 15 → 1 ≤ l.length →
    env 0 = encP Pt → env 3 = fill encP l → env 6 = .int (l.length : Int) →
    ∃ env', EvIn P G X ((Fnew + Fadd + 8) * n + 1) env pLoopS env' .norm ∧
      env' 3 = .arr ((preIter Ops Pt n l).map encP) ∧ env' 1 = env 1 := by
  intro n
  induction n with
  | zero =>
    intro l env hn hl h0 h3 h6
    refine ⟨env, EvIn.loop_exit (pcond_false h6 (by omega)) rfl, ?_, rfl⟩
    rw [h3, fill, show 15 - l.length = 0 by omega]
    simp [preIter]
  | succ n ih =>
    intro l env hn hl h0 h3 h6
    let v := encP (Ops.add (l.getLastD Pt) Pt)
    let e1 := env.set 7 (encP Ops.infinity)
    let e2 := (e1.set 2 v).set 8 v
    let e3 := e2.set 3 (fill encP (preStep Ops Pt l))
    let e4 := e3.set 6 (.int ((l.length + 1 : Nat) : Int))
    have c73 : EvIn P G X (Fnew + 1) env (.call [7] 73 []) e1 .norm := C.new.call rfl rfl
    have a78 : evalVs G e1 [(.var 7), (.idx (.var 3) (.op2 (.sub .i64) (.var 6) (.lit 1))), (.var 0)]
        = some [encP Ops.infinity, encP (l.getLastD Pt), encP Pt] := by
      have g7 : e1 7 = encP Ops.infinity := by simp [e1]
      have g3 : e1 3 = fill encP l := by simp [e1, Env.set, h3]
      have g6 : e1 6 = .int (l.length : Int) := by simp [e1, Env.set, h6]
      have g0 : e1 0 = encP Pt := by simp [e1, Env.set, h0]
      have es : norm .i64 ((l.length : Int) - 1) = ((l.length - 1 : Nat) : Int) := by
        rw [norm_i64_small (by omega) (by omega)]; omega
      simp only [evalVs_cons, evalVs_nil, evalV_idx, evalV_op2, evalV_var, evalV_lit, g7, g3, g6, g0, fill, evalOp2,
        Option.map_some, es, fill_last (encP := encP) (Pt := Pt) l hl (by omega)]
    have c78 : EvIn P G X (Fadd + 1) e1
        (.call [2, 8] 78 [(.var 7), (.idx (.var 3) (.op2 (.sub .i64) (.var 6) (.lit 1))), (.var 0)]) e2 .norm :=
      (C.add Ops.infinity (l.getLastD Pt) Pt).call a78 rfl
    have s3 : EvIn P G X 1 e2 (.assign 3 [.e (.var 6)] (.var 8)) e3 .norm := by
      have g8 : evalV G e2 (.var 8) = some v := by simp [e2]
      have g6 : e2 6 = .int (l.length : Int) := by simp [e2, e1, Env.set, h6]
      have hn0 : ¬ ((l.length : Int) < 0) := by omega
      have hp : pathV G e2 [.e (.var 6)] = some [l.length] := by
        simp only [pathV_e, evalV_var, g6, pathV_nil, hn0, if_false, Int.toNat_natCast]
      have g3 : e2 3 = fill encP l := by simp [e2, e1, Env.set, h3]
      exact EvIn.assignPath g8 hp (by rw [g3]; exact fill_set l _ (by omega))
    have s6 : evalV G e3 (.op2 (.add .i64) (.var 6) (.lit 1)) = some (.int ((l.length + 1 : Nat) : Int)) := by
      have g6 : e3 6 = .int (l.length : Int) := by simp [e3, e2, e1, Env.set, h6]
      simp only [evalV_op2, evalV_var, evalV_lit, g6, succ_i64_nat (by omega : l.length + 1 < 2 ^ 63), Option.map_some]
    have hpost : EvIn P G X 1 e3 pPostS e4 .norm := EvIn.assign s6
    have hbody : EvIn P G X (Fnew + Fadd + 5) env pBodyS e3 .norm :=
      (EvIn.seq c73 (EvIn.seq c78 s3)).mono (by omega)
    have hlen' : (preStep Ops Pt l).length = l.length + 1 := by simp [preStep]
    obtain ⟨env', hl', r3, r1⟩ := ih (preStep Ops Pt l) e4 (by omega) (by omega)
      (by simp [e4, e3, e2, e1, Env.set, h0]) (by simp [e4, e3, Env.set]) (by simp [e4, hlen'])
    refine ⟨env', ?_, r3, ?_⟩
    · exact (EvIn.loop_round (pcond_true h6 (by omega)) rfl hbody (Or.inl rfl) hpost hl').mono
        (by rw [Nat.mul_add]; omega)
    · rw [r1]; simp [e4, e3, e2, e1, Env.set]


/-! ## The main loop -/

/-- the state of the main loop: scalar, table, skip flag, accumulator, length, counter, current byte -/
structure MInv (encP : Γ → Val) (env : Env) (scalar : Bytes) (tbl : Table) (ret : Γ) (sk : Int) (i : Nat) (b : Val) :
    Prop where
  h1 : env 1 = bytesV scalar
  h11 : env 11 = encT tbl
  h12 : env 12 = .int sk
  h14 : env 14 = encP ret
  h15 : env 15 = .int (scalar.length : Int)
  h16 : env 16 = .int (i : Int)
  h17 : env 17 = b

theorem MInv.set {env : Env} {tbl : Table} {ret : Γ} {sk : Int} {i : Nat} {b : Val}
    (h : MInv encP env scalar tbl ret sk i b) (x : Nat) (v : Val)
    (hx : 1 ≠ x ∧ 11 ≠ x ∧ 12 ≠ x ∧ 14 ≠ x ∧ 15 ≠ x ∧ 16 ≠ x ∧ 17 ≠ x) :
    MInv encP (env.set x v) scalar tbl ret sk i b := by
  obtain ⟨n1, n11, n12, n14, n15, n16, n17⟩ := hx
  exact ⟨by rw [Env.set_other _ _ n1]; exact h.h1, by rw [Env.set_other _ _ n11]; exact h.h11,
    by rw [Env.set_other _ _ n12]; exact h.h12, by rw [Env.set_other _ _ n14]; exact h.h14,
    by rw [Env.set_other _ _ n15]; exact h.h15, by rw [Env.set_other _ _ n16]; exact h.h16,
    by rw [Env.set_other _ _ n17]; exact h.h17⟩

theorem MInv.set14 {env : Env} {tbl : Table} {ret : Γ} {sk : Int} {i : Nat} {b : Val}
    (h : MInv encP env scalar tbl ret sk i b) (r' : Γ) :
    MInv encP (env.set 14 (encP r')) scalar tbl r' sk i b :=
  ⟨by rw [Env.set_other _ _ (by decide)]; exact h.h1, by rw [Env.set_other _ _ (by decide)]; exact h.h11,
    by rw [Env.set_other _ _ (by decide)]; exact h.h12, by simp,
    by rw [Env.set_other _ _ (by decide)]; exact h.h15, by rw [Env.set_other _ _ (by decide)]; exact h.h16,
    by rw [Env.set_other _ _ (by decide)]; exact h.h17⟩

theorem MInv.set12 {env : Env} {tbl : Table} {ret : Γ} {sk : Int} {i : Nat} {b : Val}
    (h : MInv encP env scalar tbl ret sk i b) (sk' : Int) :
    MInv encP (env.set 12 (.int sk')) scalar tbl ret sk' i b :=
  ⟨by rw [Env.set_other _ _ (by decide)]; exact h.h1, by rw [Env.set_other _ _ (by decide)]; exact h.h11,
    by simp, by rw [Env.set_other _ _ (by decide)]; exact h.h14,
    by rw [Env.set_other _ _ (by decide)]; exact h.h15, by rw [Env.set_other _ _ (by decide)]; exact h.h16,
    by rw [Env.set_other _ _ (by decide)]; exact h.h17⟩

theorem MInv.set17 {env : Env} {tbl : Table} {ret : Γ} {sk : Int} {i : Nat} {b : Val}
    (h : MInv encP env scalar tbl ret sk i b) (b' : Val) :
    MInv encP (env.set 17 b') scalar tbl ret sk i b' :=
  ⟨by rw [Env.set_other _ _ (by decide)]; exact h.h1, by rw [Env.set_other _ _ (by decide)]; exact h.h11,
    by rw [Env.set_other _ _ (by decide)]; exact h.h12, by rw [Env.set_other _ _ (by decide)]; exact h.h14,
    by rw [Env.set_other _ _ (by decide)]; exact h.h15, by rw [Env.set_other _ _ (by decide)]; exact h.h16,
    by simp⟩

theorem MInv.set16 {env : Env} {tbl : Table} {ret : Γ} {sk : Int} {i : Nat} {b : Val}
    (h : MInv encP env scalar tbl ret sk i b) (i' : Nat) :
    MInv encP (env.set 16 (.int (i' : Int))) scalar tbl ret sk i' b :=
  ⟨by rw [Env.set_other _ _ (by decide)]; exact h.h1, by rw [Env.set_other _ _ (by decide)]; exact h.h11,
    by rw [Env.set_other _ _ (by decide)]; exact h.h12, by rw [Env.set_other _ _ (by decide)]; exact h.h14,
    by rw [Env.set_other _ _ (by decide)]; exact h.h15, by simp,
    by rw [Env.set_other _ _ (by decide)]; exact h.h17⟩

/-- `ret.Double(ret)` -/
theorem m_dbl (C : Callees P G X Ops encP Pt Fnew Fdbl Fadd Ftr Fsel)
    {env : Env} {tbl : Table} {ret : Γ} {sk : Int} {i : Nat} {b : Val} (h : MInv encP env scalar tbl ret sk i b) :
    ∃ env1, EvIn P G X (Fdbl + 1) env dblS env1 .norm ∧ MInv encP env1 scalar tbl (Ops.double ret) sk i b := by
  have a : evalVs G env [(.var 14), (.var 14)] = some [encP ret, encP ret] := by
    simp only [evalVs_cons, evalVs_nil, evalV_var, h.h14]
  exact ⟨(env.set 14 (encP (Ops.double ret))).set 2 (encP (Ops.double ret)), (C.dbl ret ret).call a rfl,
    (h.set14 _).set 2 _ (by decide)⟩

/-- four doublings followed by `rest` -/
theorem m_dbl4 (C : Callees P G X Ops encP Pt Fnew Fdbl Fadd Ftr Fsel)
    {env : Env} {tbl : Table} {ret : Γ} {sk : Int} {i : Nat} {b : Val} (h : MInv encP env scalar tbl ret sk i b) :
    ∃ env4, MInv encP env4 scalar tbl (Model.Curve.double4 Ops ret) sk i b ∧
      EvIn P G X (4 * Fdbl + 8) env (.seq dblS (.seq dblS (.seq dblS dblS))) env4 .norm ∧
      (∀ {rest : Stmt} {env' : Env} {c : Ctl} {F : Nat}, EvIn P G X F env4 rest env' c →
        EvIn P G X (F + 4 * Fdbl + 8) env (.seq dblS (.seq dblS (.seq dblS (.seq dblS rest)))) env' c) ∧
      (∀ {rest : Stmt}, Fails P G X env4 rest →
        Fails P G X env (.seq dblS (.seq dblS (.seq dblS (.seq dblS rest))))) := by
  obtain ⟨e1, d1, h1⟩ := m_dbl C h
  obtain ⟨e2, d2, h2⟩ := m_dbl C h1
  obtain ⟨e3, d3, h3⟩ := m_dbl C h2
  obtain ⟨e4, d4, h4⟩ := m_dbl C h3
  refine ⟨e4, h4, (EvIn.seq d1 (EvIn.seq d2 (EvIn.seq d3 d4))).mono (by omega), ?_, ?_⟩
  · intro rest env' c F hr
    exact (EvIn.seq d1 (EvIn.seq d2 (EvIn.seq d3 (EvIn.seq d4 hr)))).mono (by omega)
  · intro rest hr
    exact Fails.seq_right d1 (Fails.seq_right d2 (Fails.seq_right d3 (Fails.seq_right d4 hr)))

/-- `tmpPoint := NewSM2Point(); tmpPoint.MultiSelectXYZ(&precomputedElements, 15, bits)`, then `rest` -/
theorem m_sel (C : Callees P G X Ops encP Pt Fnew Fdbl Fadd Ftr Fsel) {t : Nat} (ht : t = 18 ∨ t = 20)
    {e : Expr} {bits : Nat} {b : Int}
    (he : ∀ env' : Env, env' 17 = .int b → evalV G env' e = some (.int (bits : Int))) (hb : bits < 16)
    {env : Env} {ret : Γ} {sk : Int} {i : Nat} (h : MInv encP env scalar (tblOf Ops Pt) ret sk i (.int b)) :
    (∀ tmp, Ops.selectXYZ (tblOf Ops Pt) 15 bits = .ok tmp →
      ∃ env3, MInv encP env3 scalar (tblOf Ops Pt) ret sk i (.int b) ∧ env3 19 = encP tmp ∧
        (∀ {rest : Stmt} {env' : Env} {c : Ctl} {F : Nat}, EvIn P G X F env3 rest env' c →
          EvIn P G X (F + Fnew + Fsel + 6) env
            (.seq (.call [t] 73 []) (.seq (.assign 19 [] (.var t)) (.seq (selS e) rest))) env' c) ∧
        (∀ {rest : Stmt}, Fails P G X env3 rest →
          Fails P G X env (.seq (.call [t] 73 []) (.seq (.assign 19 [] (.var t)) (.seq (selS e) rest))))) ∧
    (Ops.selectXYZ (tblOf Ops Pt) 15 bits = .panic → SelFails P G X Ops encP Pt →
      ∀ {rest : Stmt}, Fails P G X env (.seq (.call [t] 73 []) (.seq (.assign 19 [] (.var t)) (.seq (selS e) rest)))) := by
  let e1 := env.set t (encP Ops.infinity)
  let e2 := e1.set 19 (encP Ops.infinity)
  have c73 : EvIn P G X (Fnew + 1) env (.call [t] 73 []) e1 .norm := C.new.call rfl rfl
  have s19 : evalV G e1 (.var t) = some (encP Ops.infinity) := by simp [e1]
  have h2 : MInv encP e2 scalar (tblOf Ops Pt) ret sk i (.int b) := by
    rcases ht with rfl | rfl
    · exact (h.set 18 _ (by decide)).set 19 _ (by decide)
    · exact (h.set 20 _ (by decide)).set 19 _ (by decide)
  have a80 : evalVs G e2 [(.var 19), (.var 11), (.lit 15), e]
      = some [encP Ops.infinity, encT (tblOf Ops Pt), .int 15, .int (bits : Int)] := by
    have g19 : e2 19 = encP Ops.infinity := by simp [e2]
    simp only [evalVs_cons, evalVs_nil, evalV_var, evalV_lit, g19, h2.h11, he e2 h2.h17]
  constructor
  · intro tmp hsel
    let e3 := (e2.set 19 (encP tmp)).set 2 (encP tmp)
    have c80 : EvIn P G X (Fsel + 1) e2 (selS e) e3 .norm := (C.sel bits tmp hb hsel).call a80 rfl
    refine ⟨e3, (h2.set 19 _ (by decide)).set 2 _ (by decide), by simp [e3, Env.set], ?_, ?_⟩
    · intro rest env' c F hr
      exact (EvIn.seq c73 (EvIn.seq (EvIn.assign s19) (EvIn.seq c80 hr))).mono (by omega)
    · intro rest hr
      exact Fails.seq_right c73 (Fails.seq_right (EvIn.assign s19) (Fails.seq_right c80 hr))
  · intro hsel CF rest
    exact Fails.seq_right c73 (Fails.seq_right (EvIn.assign s19) (Fails.seq_left (Fails.call a80 (CF bits hb hsel))))

/-- `ret.Add(ret, tmpPoint)` -/
theorem m_add (C : Callees P G X Ops encP Pt Fnew Fdbl Fadd Ftr Fsel)
    {env : Env} {tbl : Table} {ret tmp : Γ} {sk : Int} {i : Nat} {b : Val}
    (h : MInv encP env scalar tbl ret sk i b) (h19 : env 19 = encP tmp) :
    ∃ env1, EvIn P G X (Fadd + 1) env addS env1 .norm ∧ MInv encP env1 scalar tbl (Ops.add ret tmp) sk i b := by
  have a : evalVs G env [(.var 14), (.var 14), (.var 19)] = some [encP ret, encP ret, encP tmp] := by
    simp only [evalVs_cons, evalVs_nil, evalV_var, h.h14, h19]
  exact ⟨(env.set 14 (encP (Ops.add ret tmp))).set 2 (encP (Ops.add ret tmp)), (C.add ret ret tmp).call a rfl,
    (h.set14 _).set 2 _ (by decide)⟩

theorem hi_val (x : UInt8) (env' : Env) (h : env' 17 = .int ((x.toNat : Nat) : Int)) :
    evalV G env' hiE = some (.int ((x.toNat >>> 4 : Nat) : Int)) := by
  simp only [hiE, evalV_op1, evalV_var, h, shrc_nat]

theorem lo_val (x : UInt8) (env' : Env) (h : env' 17 = .int ((x.toNat : Nat) : Int)) :
    evalV G env' loE = some (.int ((x.toNat &&& 15 : Nat) : Int)) := by
  have := and_u8_nat (x := x.toNat) (m := 15) x.toNat_lt (by decide)
  simp only [loE, evalV_op2, evalV_var, evalV_lit, h]
  rw [show ((15 : Int)) = ((15 : Nat) : Int) from rfl, this]
  rfl

theorem hi_lt (x : UInt8) : x.toNat >>> 4 < 16 := by
  have := x.toNat_lt
  rw [Nat.shiftRight_eq_div_pow]
  omega

theorem lo_lt (x : UInt8) : x.toNat &&& 15 < 16 := by
  have : x.toNat &&& 15 ≤ 15 := Nat.and_le_right
  omega

/-- fuel for one round of the main loop -/
def fuelRound (Fnew Fdbl Fadd Fsel : Nat) : Nat := 8 * Fdbl + 2 * Fnew + 2 * Fsel + 2 * Fadd + 60

/-- one round of the main loop: the model's step succeeds ⇒ the body computes it; the model's step panics ⇒
    the body fails -/
theorem mbody (C : Callees P G X Ops encP Pt Fnew Fdbl Fadd Ftr Fsel)
    {env : Env} {ret : Γ} {skip : Bool} {i : Nat} {b0 : Val} {x : UInt8}
    (h : MInv encP env scalar (tblOf Ops Pt) ret (if skip then 1 else 0) i b0) (hx : scalar[i]? = some x) :
    match smStep Ops (tblOf Ops Pt) (ret, skip) x with
    | .ok st => ∃ env1, EvIn P G X (fuelRound Fnew Fdbl Fadd Fsel) env mBodyS env1 .norm ∧
        MInv encP env1 scalar (tblOf Ops Pt) st.1 (if st.2 then 1 else 0) i (.int ((x.toNat : Nat) : Int))
    | .panic => SelFails P G X Ops encP Pt → Fails P G X env mBodyS
    | .err => True := by
  -- b := scalar[i]
  have s17 : evalV G env (.idx (.var 1) (.var 16)) = some (.int ((x.toNat : Nat) : Int)) := by
    simp only [evalV_idx, evalV_var, h.h1, h.h16, bytesV, bytesV_getIdx, hx, Option.map_some]
    rfl
  have h1 := h.set17 (.int ((x.toNat : Nat) : Int))
  -- if !skip { 4 × Double }
  obtain ⟨e2, h2, d2⟩ : ∃ e2, MInv encP e2 scalar (tblOf Ops Pt) (if skip then ret else Model.Curve.double4 Ops ret)
      (if skip then 1 else 0) i (.int ((x.toNat : Nat) : Int)) ∧
      EvIn P G X (4 * Fdbl + 9) (env.set 17 (.int ((x.toNat : Nat) : Int))) mDbl4S e2 .norm := by
    have hc := lnot_flag G h1.h12
    cases skip with
    | true => exact ⟨_, h1, (EvIn.ite hc (asBool_flag true) (EvIn.skip _)).mono (by omega)⟩
    | false =>
      obtain ⟨e4, h4, d4, _, _⟩ := m_dbl4 C h1
      exact ⟨e4, h4, EvIn.ite hc (asBool_flag false) d4⟩
  rw [smStep_eq]
  obtain ⟨sel1ok, sel1bad⟩ := m_sel C (t := 18) (Or.inl rfl) (hi_val (G := G) x) (hi_lt x) h2
  cases hs1 : Ops.selectXYZ (tblOf Ops Pt) 15 (x.toNat >>> 4) with
  | err => trivial
  | panic =>
    intro CF
    exact Fails.seq_right (EvIn.assign s17) (Fails.seq_right d2 (sel1bad hs1 CF))
  | ok t1 =>
    obtain ⟨e3, h3, g19, k3, f3⟩ := sel1ok t1 hs1
    obtain ⟨e4, a4, h4⟩ := m_add C h3 g19
    have h5 := h4.set12 0
    obtain ⟨e6, h6, _, k6, f6⟩ := m_dbl4 C h5
    obtain ⟨sel2ok, sel2bad⟩ := m_sel C (t := 20) (Or.inr rfl) (lo_val (G := G) x) (lo_lt x) h6
    rw [Outcome.bind_ok]
    cases hs2 : Ops.selectXYZ (tblOf Ops Pt) 15 (x.toNat &&& 15) with
    | err => trivial
    | panic =>
      intro CF
      exact Fails.seq_right (EvIn.assign s17) (Fails.seq_right d2 (f3 (Fails.seq_right a4
        (Fails.seq_right (EvIn.assign rfl) (f6 (sel2bad hs2 CF))))))
    | ok t2 =>
      obtain ⟨e7, h7, g19', k7, _⟩ := sel2ok t2 hs2
      obtain ⟨e8, a8, h8⟩ := m_add C h7 g19'
      refine ⟨e8, ?_, h8⟩
      exact (EvIn.seq (EvIn.assign s17) (EvIn.seq d2 (k3 (EvIn.seq a4
        (EvIn.seq (EvIn.assign rfl) (k6 (k7 a8))))))).mono (by simp only [fuelRound]; omega)


theorem mcond_true {env : Env} {i n : Nat} (h16 : env 16 = .int (i : Int)) (h15 : env 15 = .int (n : Int)) (h : i < n) :
    evalV G env mCondE = some (.int 1) := by
  have : (i : Int) < (n : Int) := by omega
  simp [mCondE, evalV_op2, evalV_var, h16, h15, evalOp2, ofBool, this]

theorem mcond_false {env : Env} {i n : Nat} (h16 : env 16 = .int (i : Int)) (h15 : env 15 = .int (n : Int)) (h : ¬ i < n) :
    evalV G env mCondE = some (.int 0) := by
  have : ¬ (i : Int) < (n : Int) := by omega
  simp [mCondE, evalV_op2, evalV_var, h16, h15, evalOp2, ofBool, this]

/-- the loop `for _, b := range scalar` computes the model's fold over the remaining bytes -/
theorem mloop (C : Callees P G X Ops encP Pt Fnew Fdbl Fadd Ftr Fsel) (hlen : scalar.length < 2 ^ 63) :
    ∀ (rest : Bytes) (i : Nat) (env : Env) (ret : Γ) (skip : Bool) (b0 : Val),
    MInv encP env scalar (tblOf Ops Pt) ret (if skip then 1 else 0) i b0 →
    scalar.drop i = rest → i + rest.length = scalar.length →
    match rest.foldlM (smStep Ops (tblOf Ops Pt)) (ret, skip) with
    | .ok st => ∃ env', EvIn P G X ((fuelRound Fnew Fdbl Fadd Fsel + 3) * rest.length + 1) env mLoopS env' .norm ∧
        env' 14 = encP st.1
    | .panic => SelFails P G X Ops encP Pt → Fails P G X env mLoopS
    | .err => True := by
  intro rest
  induction rest with
  | nil =>
    intro i env ret skip b0 h hd hl
    simp only [List.foldlM_nil, Outcome.pure_eq]
    simp only [List.length_nil] at hl
    exact ⟨env, EvIn.loop_exit (mcond_false h.h16 h.h15 (by omega)) rfl, h.h14⟩
  | cons x rest ih =>
    intro i env ret skip b0 h hd hl
    simp only [List.length_cons] at hl
    have hx : scalar[i]? = some x := by
      have := List.getElem?_drop (xs := scalar) (i := i) (j := 0)
      rw [hd] at this
      simpa using this.symm
    have hd' : scalar.drop (i + 1) = rest := by
      have := List.drop_drop (i := 1) (j := i) (l := scalar)
      rw [hd] at this
      simpa using this.symm
    have hc := mcond_true (G := G) h.h16 h.h15 (by omega : i < scalar.length)
    have hb := mbody C h hx
    rw [List.foldlM_cons]
    cases hstep : smStep Ops (tblOf Ops Pt) (ret, skip) x with
    | err => trivial
    | panic =>
      rw [hstep] at hb
      intro CF
      exact Fails.loop_body hc rfl (hb CF)
    | ok st =>
      rw [hstep] at hb
      obtain ⟨env1, hbody, h1⟩ := hb
      have s16 : evalV G env1 (.op2 (.add .i64) (.var 16) (.lit 1)) = some (.int ((i + 1 : Nat) : Int)) := by
        simp only [evalV_op2, evalV_var, evalV_lit, h1.h16, succ_i64_nat (by omega : i + 1 < 2 ^ 63), Option.map_some]
      have hpost : EvIn P G X 1 env1 mPostS (env1.set 16 (.int ((i + 1 : Nat) : Int))) .norm := EvIn.assign s16
      have ih' := ih (i + 1) (env1.set 16 (.int ((i + 1 : Nat) : Int))) st.1 st.2 _ (h1.set16 (i + 1)) hd' (by omega)
      rw [Outcome.bind_ok]
      cases hf : rest.foldlM (smStep Ops (tblOf Ops Pt)) st with
      | err => trivial
      | panic =>
        have e : rest.foldlM (smStep Ops (tblOf Ops Pt)) (st.1, st.2) = .panic := hf
        rw [e] at ih'
        intro CF
        exact Fails.loop_round hc rfl hbody (Or.inl rfl) hpost (ih' CF)
      | ok st' =>
        have e : rest.foldlM (smStep Ops (tblOf Ops Pt)) (st.1, st.2) = .ok st' := hf
        rw [e] at ih'
        obtain ⟨env', hl', r14⟩ := ih'
        refine ⟨env', ?_, r14⟩
        exact (EvIn.loop_round hc rfl hbody (Or.inl rfl) hpost hl').mono
          (by simp only [List.length_cons]; rw [Nat.mul_add]; omega)

/-! ## The function -/

/-- fuel that suffices for the body of ScalarMult on a scalar of `n` bytes -/
def fuelSM (n Fnew Fdbl Fadd Ftr Fsel : Nat) : Nat :=
  (Fnew + Fadd + 8) * 13 + (fuelRound Fnew Fdbl Fadd Fsel + 3) * n + 2 * Fnew + Fdbl + Ftr + 60

/-- BODY LEVEL: the model returns `r` ⇒ the body of `fn_88` returns `[encP r, 0]`; the model panics (a
    `selectXYZ` panics) ⇒ the body fails.  `scalar` is any byte string with `len < 2^63`. -/
theorem sm_body (C : Callees P G X Ops encP Pt Fnew Fdbl Fadd Ftr Fsel) (hlen : scalar.length < 2 ^ 63) :
    match Model.Curve.scalarMult Ops Pt scalar with
    | .ok r => ∃ env', EvIn P G X (fuelSM scalar.length Fnew Fdbl Fadd Ftr Fsel)
        (Env.ofList [encP Pt, bytesV scalar]) fn_88.body env' (.ret [encP r, .int 0])
    | .panic => SelFails P G X Ops encP Pt → Fails P G X (Env.ofList [encP Pt, bytesV scalar]) fn_88.body
    | .err => True := by
  let env0 : Env := Env.ofList [encP Pt, bytesV scalar]
  let e1 := env0.set 3 (.arr (List.replicate 15 nilPointV))
  let e2 := e1.set 3 (fill encP [Pt])
  let e3 := e2.set 4 (encP Ops.infinity)
  let e4 := (e3.set 2 (encP (Ops.double Pt))).set 5 (encP (Ops.double Pt))
  let e5 := e4.set 3 (fill encP [Pt, Ops.double Pt])
  let e6 := e5.set 6 (.int 2)
  have s1 : evalV G env0 (.mk (.lit 15) (.mk (.lit 3) (.mk (.lit 1) (.mk (.lit 4) (.lit 0)))))
      = some (.arr (List.replicate 15 nilPointV)) := rfl
  have s2 : EvIn P G X 1 e1 (.assign 3 [.c 0] (.var 0)) e2 .norm := by
    have g0 : evalV G e1 (.var 0) = some (encP Pt) := rfl
    have hp : pathV G e1 [.c 0] = some [0] := rfl
    have g3 : e1 3 = fill encP ([] : List Γ) := rfl
    exact EvIn.assignPath g0 hp (by rw [g3]; exact fill_set [] Pt (by simp))
  have c73 : EvIn P G X (Fnew + 1) e2 (.call [4] 73 []) e3 .norm := C.new.call rfl rfl
  have a79 : evalVs G e3 [(.var 4), (.var 0)] = some [encP Ops.infinity, encP Pt] := rfl
  have c79 : EvIn P G X (Fdbl + 1) e3 (.call [2, 5] 79 [(.var 4), (.var 0)]) e4 .norm :=
    (C.dbl Ops.infinity Pt).call a79 rfl
  have s5 : EvIn P G X 1 e4 (.assign 3 [.c 1] (.var 5)) e5 .norm := by
    have g5 : evalV G e4 (.var 5) = some (encP (Ops.double Pt)) := rfl
    have hp : pathV G e4 [.c 1] = some [1] := rfl
    have g3 : e4 3 = fill encP [Pt] := rfl
    exact EvIn.assignPath g5 hp (by rw [g3]; exact fill_set [Pt] (Ops.double Pt) (by simp))
  obtain ⟨e7, hpl, g3, g1⟩ := ploop_ok C 13 [Pt, Ops.double Pt] e6 rfl (by simp) rfl rfl rfl
  have g3' : e7 3 = .arr ((preOf Ops Pt).map encP) := g3
  have g1' : e7 1 = bytesV scalar := g1
  let e8 := e7.set 9 (.arr ((preOf Ops Pt).map encP))
  let e9 := e8.set 10 (encT (tblOf Ops Pt))
  let e10 := e9.set 11 (encT (tblOf Ops Pt))
  let e11 := e10.set 12 (.int 1)
  let e12 := e11.set 13 (encP Ops.infinity)
  let e13 := e12.set 14 (encP Ops.infinity)
  let e14 := e13.set 15 (.int (scalar.length : Int))
  let e15 := e14.set 16 (.int 0)
  have s9 : evalV G e7 (.var 3) = some (.arr ((preOf Ops Pt).map encP)) := by simp [g3']
  have a81 : evalVs G e8 [(.var 9), (.lit 15)] = some [.arr ((preOf Ops Pt).map encP), .int 15] := by
    simp [evalVs_cons, e8]
  have c81 : EvIn P G X (Ftr + 1) e8 (.call [10] 81 [(.var 9), (.lit 15)]) e9 .norm := C.tr.call a81 rfl
  have s11 : evalV G e9 (.var 10) = some (encT (tblOf Ops Pt)) := by simp [e9]
  have c73' : EvIn P G X (Fnew + 1) e11 (.call [13] 73 []) e12 .norm := C.new.call rfl rfl
  have s14 : evalV G e12 (.var 13) = some (encP Ops.infinity) := by simp [e12]
  have s15 : evalV G e13 (.len (.var 1)) = some (.int (scalar.length : Int)) := by
    have : e13 1 = bytesV scalar := by simp [e13, e12, e11, e10, e9, e8, Env.set, g1']
    simp only [evalV_len, evalV_var, this, bytesV, List.length_map]
  have hI : MInv encP e15 scalar (tblOf Ops Pt) Ops.infinity (if true then 1 else 0) 0 (e15 17) := by
    refine ⟨?_, ?_, ?_, ?_, ?_, ?_, rfl⟩ <;>
      simp [e15, e14, e13, e12, e11, e10, e9, e8, Env.set, g1']
  have hd0 : scalar.drop 0 = scalar := rfl
  have hloop := mloop C hlen scalar 0 e15 Ops.infinity true (e15 17) hI hd0 (by omega)
  have pre : ∀ {rest : Stmt},
      (∀ {env' : Env} {c : Ctl} {F : Nat}, EvIn P G X F e15 rest env' c →
        EvIn P G X (F + (Fnew + Fadd + 8) * 13 + 2 * Fnew + Fdbl + Ftr + 40) env0
          (.seq (.assign 3 [] (.mk (.lit 15) (.mk (.lit 3) (.mk (.lit 1) (.mk (.lit 4) (.lit 0))))))
          (.seq (.assign 3 [.c 0] (.var 0)) (.seq (.call [4] 73 []) (.seq (.call [2, 5] 79 [(.var 4), (.var 0)])
          (.seq (.assign 3 [.c 1] (.var 5)) (.seq (.assign 6 [] (.lit 2)) (.seq pLoopS
          (.seq (.assign 9 [] (.var 3)) (.seq (.call [10] 81 [(.var 9), (.lit 15)]) (.seq (.assign 11 [] (.var 10))
          (.seq (.assign 12 [] (.lit 1)) (.seq (.call [13] 73 []) (.seq (.assign 14 [] (.var 13))
          (.seq (.assign 15 [] (.len (.var 1))) (.seq (.assign 16 [] (.lit 0)) rest))))))))))))))) env' c) ∧
      (Fails P G X e15 rest → Fails P G X env0
          (.seq (.assign 3 [] (.mk (.lit 15) (.mk (.lit 3) (.mk (.lit 1) (.mk (.lit 4) (.lit 0))))))
          (.seq (.assign 3 [.c 0] (.var 0)) (.seq (.call [4] 73 []) (.seq (.call [2, 5] 79 [(.var 4), (.var 0)])
          (.seq (.assign 3 [.c 1] (.var 5)) (.seq (.assign 6 [] (.lit 2)) (.seq pLoopS
          (.seq (.assign 9 [] (.var 3)) (.seq (.call [10] 81 [(.var 9), (.lit 15)]) (.seq (.assign 11 [] (.var 10))
          (.seq (.assign 12 [] (.lit 1)) (.seq (.call [13] 73 []) (.seq (.assign 14 [] (.var 13))
          (.seq (.assign 15 [] (.len (.var 1))) (.seq (.assign 16 [] (.lit 0)) rest)))))))))))))))) := by
    intro rest
    constructor
    · intro env' c F hr
      exact (EvIn.seq (EvIn.assign s1) (EvIn.seq s2 (EvIn.seq c73 (EvIn.seq c79 (EvIn.seq s5
        (EvIn.seq (EvIn.assign rfl) (EvIn.seq hpl (EvIn.seq (EvIn.assign s9) (EvIn.seq c81
        (EvIn.seq (EvIn.assign s11) (EvIn.seq (EvIn.assign rfl) (EvIn.seq c73' (EvIn.seq (EvIn.assign s14)
        (EvIn.seq (EvIn.assign s15) (EvIn.seq (EvIn.assign rfl) hr))))))))))))))).mono (by omega)
    · intro hr
      exact Fails.seq_right (EvIn.assign s1) (Fails.seq_right s2 (Fails.seq_right c73 (Fails.seq_right c79
        (Fails.seq_right s5 (Fails.seq_right (EvIn.assign rfl) (Fails.seq_right hpl
        (Fails.seq_right (EvIn.assign s9) (Fails.seq_right c81 (Fails.seq_right (EvIn.assign s11)
        (Fails.seq_right (EvIn.assign rfl) (Fails.seq_right c73' (Fails.seq_right (EvIn.assign s14)
        (Fails.seq_right (EvIn.assign s15) (Fails.seq_right (EvIn.assign rfl) hr))))))))))))))
  rw [scalarMult_eq, fn_88_body]
  cases hf : scalar.foldlM (smStep Ops (Ops.transform (preOf Ops Pt))) (Ops.infinity, true) with
  | err => trivial
  | panic =>
    have e : scalar.foldlM (smStep Ops (tblOf Ops Pt)) (Ops.infinity, true) = .panic := hf
    rw [e] at hloop
    intro CF
    exact pre.2 (Fails.seq_left (hloop CF))
  | ok st =>
    have e : scalar.foldlM (smStep Ops (tblOf Ops Pt)) (Ops.infinity, true) = .ok st := hf
    rw [e] at hloop
    obtain ⟨env', hl, r14⟩ := hloop
    have sr : evalVs G env' [(.var 14), (.lit 0)] = some [encP st.1, .int 0] := by
      simp only [evalVs_cons, evalVs_nil, evalV_var, evalV_lit, r14]
    exact ⟨env', (pre.1 (EvIn.seq hl (EvIn.seq_stop (EvIn.ret sr) (by simp)))).mono
      (by simp only [fuelSM]; omega)⟩

end IR


/-! ## Run level, for the generated program -/

section Run
variable {Γ : Type} {G : Nat → Val} {X : Oracle} {Ops : Model.Curve.GOps Γ} {encP : Γ → Val}
  {Fnew Fdbl Fadd Ftr Fsel : Nat}

theorem fn88_lookup : prog[f_internal_ScalarMult]? = some fn_88 := rfl

/-- when `selectXYZ` never returns an error, neither does the model -/
theorem scalarMult_ne_err (hne : ∀ tbl w bits, Ops.selectXYZ tbl w bits ≠ .err) (Pt : Γ) (scalar : Bytes) :
    Model.Curve.scalarMult Ops Pt scalar ≠ .err := by
  rw [scalarMult_eq]
  have : ∀ (l : Bytes) (st : Γ × Bool), l.foldlM (smStep Ops (Ops.transform (preOf Ops Pt))) st ≠ .err := by
    intro l
    induction l with
    | nil => intro st; simp
    | cons x l ih =>
      intro st
      obtain ⟨ret, skip⟩ := st
      rw [List.foldlM_cons, smStep_eq]
      cases h1 : Ops.selectXYZ (Ops.transform (preOf Ops Pt)) 15 (x.toNat >>> 4) with
      | err => exact absurd h1 (hne _ _ _)
      | panic => simp
      | ok t1 =>
        rw [Outcome.bind_ok]
        cases h2 : Ops.selectXYZ (Ops.transform (preOf Ops Pt)) 15 (x.toNat &&& 15) with
        | err => exact absurd h2 (hne _ _ _)
        | panic => simp
        | ok t2 => rw [Outcome.bind_ok, Outcome.bind_ok]; exact ih _
  cases hf : scalar.foldlM (smStep Ops (Ops.transform (preOf Ops Pt))) (Ops.infinity, true) with
  | err => exact absurd hf (this _ _)
  | panic => simp
  | ok st => simp

/-- **internal.ScalarMult: the run of the generated IR is the model, modulo its callees.**

    For every point `Pt` of an arbitrary carrier `Γ` (operations `Ops`, encoding `encP`) and every byte string
    `scalar` (`len < 2^63`; no other restriction: the Go code accepts any length):

    CALLEE HYPOTHESES: NewSM2Point (73), Double (79), Add (78) compute the model's operations;
    TransformPrecomputed (81) on the 15 points P, 2P, …, 15P of this run (`preOf Ops Pt`, computed by Double and
    Add as in the code) returns the encoding of the model's table `tblOf Ops Pt`; MultiSelectXYZ (80), after
    NewSM2Point, on that table, width 15 and a 4-bit `bits`, computes the model's `selectXYZ`;
    `hselF`: where the model's `selectXYZ` panics the IR function ends in `panic` or is stuck;
    `hselE`: `selectXYZ` never returns an error (true of the point layer).

    CONCLUSION: `.ok r` ⇒ every run with fuel ≥ `fuelSM …` returns `[encP r, 0]`; `.panic` ⇒ the run ends in
    `panic` for all large fuels or is stuck with every fuel; the model never returns an error. -/
theorem ir_scalarMult_eq_model (Pt : Γ) (scalar : Bytes) (hlen : scalar.length < 2 ^ 63)
    (hnew : Computes prog G X 73 Fnew [] [encP Ops.infinity])
    (hdbl : ∀ q a, Computes prog G X 79 Fdbl [encP q, encP a] [encP (Ops.double a), encP (Ops.double a)])
    (hadd : ∀ q a b, Computes prog G X 78 Fadd [encP q, encP a, encP b] [encP (Ops.add a b), encP (Ops.add a b)])
    (htr : Computes prog G X 81 Ftr [.arr ((preOf Ops Pt).map encP), .int 15] [encT (tblOf Ops Pt)])
    (hsel : ∀ bits r, bits < 16 → Ops.selectXYZ (tblOf Ops Pt) 15 bits = .ok r →
      Computes prog G X 80 Fsel [encP Ops.infinity, encT (tblOf Ops Pt), .int 15, .int (bits : Int)] [encP r, encP r])
    (hselF : ∀ bits, bits < 16 → Ops.selectXYZ (tblOf Ops Pt) 15 bits = .panic →
      CalleeFails prog G X 80 [encP Ops.infinity, encT (tblOf Ops Pt), .int 15, .int (bits : Int)])
    (hselE : ∀ tbl w bits, Ops.selectXYZ tbl w bits ≠ .err) :
    match Model.Curve.scalarMult Ops Pt scalar with
    | .ok r => ∀ f, fuelSM scalar.length Fnew Fdbl Fadd Ftr Fsel ≤ f →
        runV prog G X f f_internal_ScalarMult [encP Pt, bytesV scalar] = .ret [encP r, .int 0]
    | .panic =>
        (∃ F, ∀ f, F ≤ f → runV prog G X f f_internal_ScalarMult [encP Pt, bytesV scalar] = .panic) ∨
        (∀ f, runV prog G X f f_internal_ScalarMult [encP Pt, bytesV scalar] = .stuck)
    | .err => False := by
  have C : Callees prog G X Ops encP Pt Fnew Fdbl Fadd Ftr Fsel := ⟨hnew, hdbl, hadd, htr, hsel⟩
  have hb := sm_body C hlen
  cases h : Model.Curve.scalarMult Ops Pt scalar with
  | err => exact absurd h (scalarMult_ne_err hselE Pt scalar)
  | ok r =>
    rw [h] at hb
    obtain ⟨env', hb⟩ := hb
    exact runV_of_EvIn fn88_lookup rfl rfl hb
  | panic =>
    rw [h] at hb
    exact runV_of_Fails fn88_lookup rfl rfl (hb hselF)

end Run

end SM

end SMGo.Proofs.CTIRRefineComb

#print axioms SMGo.Proofs.CTIRRefineComb.ir_scalarBaseMult_eq_model
#print axioms SMGo.Proofs.CTIRRefineComb.ir_comb_panic
#print axioms SMGo.Proofs.CTIRRefineComb.ir_comb_outside
#print axioms SMGo.Proofs.CTIRRefineComb.comb_body_ok
#print axioms SMGo.Proofs.CTIRRefineComb.comb_body_fails
#print axioms SMGo.Proofs.CTIRRefineComb.SM.ir_scalarMult_eq_model
#print axioms SMGo.Proofs.CTIRRefineComb.SM.sm_body
