/-
  C09: kernel-evaluated taint certificates (`certify`, see SMGo/Model/ISA.lean) for the arm64 routines below.
  Each `cert_*` is decided by `decide +kernel`: the kernel computes the invariant (`computeInv`) of the
  macro-expanded listing and checks it instruction by instruction (`checkInv`); nothing is trusted but the kernel.
-/
import SMGo.Proofs.ISASound
import SMGo.Gen.ListArm64Asm

namespace SMGo.Proofs.ISACheck
open SMGo.Model.ISA SMGo.Proofs.ISASound SMGo.Gen
set_option maxRecDepth 100000

theorem cert_cryptoBlockAsmX16Internal_arm64 : certify ListArm64Asm.cryptoBlockAsmX16Internal [] = true := by decide +kernel

theorem ct_cryptoBlockAsmX16Internal_arm64 : checkInv ListArm64Asm.cryptoBlockAsmX16Internal (invOf ListArm64Asm.cryptoBlockAsmX16Internal) [] = true := (certify_spec cert_cryptoBlockAsmX16Internal_arm64).1

end SMGo.Proofs.ISACheck
