/-
  Lemmas for property C18 (assembly part): the constants of the DATA/GLOBL blocks and numeric #defines of
  /repo/sm4/*.s, as regenerated into `SMGo/Gen/AsmData.lean`, are what their use sites need.
  Every statement is finite (or a closed-term evaluation with the register contents as free variables)
  and is re-checked by the kernel whenever the generated file changes.
  Instruction semantics: `SMGo/Proofs/AsmDataISA.lean` (trusted base, read its header).
-/
import SMGo.Proofs.AsmDataISA
import SMGo.Gen.AsmData
import SMGo.Gen.SM4Const
import SMGo.Spec.SM4
import SMGo.Spec.GCM
namespace SMGo.Proofs.AsmData
open SMGo SMGo.Gen.AsmData

set_option maxRecDepth 100000

/-! ### shape: lengths, byte range -/

theorem lengths :
    amd64_Shuffle.length = 16 ∧ amd64_PreAffineMatrix.length = 8 ∧ amd64_PostAffineMatrix.length = 8
    ∧ amd64_CK.length = 128 ∧ amd64_FK.length = 16 ∧ amd64_AND_MASK.length = 16
    ∧ amd64_LOWER_MASK.length = 16 ∧ amd64_GCM_POLY.length = 16
    ∧ amd64_Counter_Add1.length = 64 ∧ amd64_Counter_Add2.length = 64 ∧ amd64_Counter_Add3.length = 64
    ∧ amd64_MERGE_H01.length = 32 ∧ amd64_MERGE_H23.length = 64 ∧ amd64_SHUFFLE_X_LANES.length = 64
    ∧ amd64_Shuffle1.length = 16 ∧ amd64_Shuffle2.length = 16
    ∧ arm64_CK.length = 128 ∧ arm64_FK.length = 16 ∧ arm64_SBox.length = 256 := by
  decide +kernel

theorem bytes_lt :
    ∀ l ∈ [amd64_Shuffle, amd64_PreAffineMatrix, amd64_PostAffineMatrix, amd64_CK, amd64_FK,
        amd64_AND_MASK, amd64_LOWER_MASK, amd64_GCM_POLY, amd64_Counter_Add1, amd64_Counter_Add2,
        amd64_Counter_Add3, amd64_MERGE_H01, amd64_MERGE_H23, amd64_SHUFFLE_X_LANES, amd64_Shuffle1,
        amd64_Shuffle2, arm64_CK, arm64_FK, arm64_SBox],
      ∀ b ∈ l, b < 256 := by
  decide +kernel

theorem imm8_lt : amd64_def_PreAffineConstant < 256 ∧ amd64_def_PostAffineConstant < 256 := by decide

/-! ### copies of CK, FK, S-box -/

theorem amd64_CK_words : wordsLE 4 amd64_CK = Gen.SM4Const.ck := by decide +kernel

theorem amd64_FK_words :
    wordsLE 4 amd64_FK = [Gen.SM4Const.fk0, Gen.SM4Const.fk1, Gen.SM4Const.fk2, Gen.SM4Const.fk3] := by
  decide +kernel

theorem arm64_CK_words : wordsLE 4 arm64_CK = Gen.SM4Const.ck := by decide +kernel

theorem arm64_FK_words :
    wordsLE 4 arm64_FK = [Gen.SM4Const.fk0, Gen.SM4Const.fk1, Gen.SM4Const.fk2, Gen.SM4Const.fk3] := by
  decide +kernel

theorem arm64_SBox_table : arm64_SBox = Gen.SM4Const.sbox := by decide +kernel

/-! ### the AES field of GF2P8AFFINEINVQB -/

/-- `aesInv` is the inverse the SDM means: `0 ↦ 0`, and `x · aesInv x = 1` in GF(2)[x]/(0x11B) otherwise;
    the result is a byte -/
theorem aesInv_spec :
    aesInv 0 = 0 ∧ ∀ x, x < 256 → aesInv x < 256 ∧ (x ≠ 0 → aesMul x (aesInv x) = 1 ∧ aesMul (aesInv x) x = 1) := by
  decide +kernel

/-- sanity of `aesMul` (a test of the transcription, labelled as such): 1 is a unit on bytes, `x · 2` is the
    shift-and-reduce step modulo 0x11B, and `x · 2^(k+1) = (x · 2^k) · 2` -/
theorem aesMul_sanity :
    (∀ x, x < 256 → aesMul x 1 = x ∧ aesMul 1 x = x
        ∧ aesMul x 2 = (if 2 * x ≥ 256 then (2 * x) ^^^ 0x11B else 2 * x))
    ∧ (∀ x, x < 256 → ∀ k, k < 7 → aesMul x (2 ^ (k + 1)) = aesMul (aesMul x (2 ^ k)) 2) := by
  decide +kernel

/-! ### GFNI S-box -/

/-- the two GFNI instructions of the `affine` macro of com_amd64.s compute the SM4 S-box on every byte -/
theorem gfni_sbox_byte :
    ∀ x, x < 256 →
      gf2p8affineInvByte amd64_PostAffineMatrix amd64_def_PostAffineConstant
        (gf2p8affineByte amd64_PreAffineMatrix amd64_def_PreAffineConstant x) = Spec.SM4.sboxAlg x := by
  decide +kernel

/-- the data items as the qwords the source defines -/
theorem affine_qwords :
    le amd64_PreAffineMatrix = 0x4c287db91a22505d ∧ le amd64_PostAffineMatrix = 0xf3ab34a974a6b589
    ∧ amd64_def_PreAffineConstant = 0b00111110 ∧ amd64_def_PostAffineConstant = 0b11010011 := by
  decide +kernel

/-! ### byte shuffles -/

theorem shuffle_idx :
    (∀ i, i < 16 → amd64_Shuffle.getD i 0 = 4 * (i / 4) + (3 - i % 4))
    ∧ (∀ i, i < 16 → amd64_Shuffle1.getD i 0 = 8 * (i / 8) + (7 - i % 8))
    ∧ (∀ i, i < 16 → amd64_Shuffle2.getD i 0 = 15 - i) := by
  decide +kernel

theorem shuffle_rev32 (b0 b1 b2 b3 b4 b5 b6 b7 b8 b9 b10 b11 b12 b13 b14 b15 : Nat) :
    pshufb amd64_Shuffle [b0, b1, b2, b3, b4, b5, b6, b7, b8, b9, b10, b11, b12, b13, b14, b15]
      = [b3, b2, b1, b0, b7, b6, b5, b4, b11, b10, b9, b8, b15, b14, b13, b12] := rfl

theorem shuffle1_rev64 (b0 b1 b2 b3 b4 b5 b6 b7 b8 b9 b10 b11 b12 b13 b14 b15 : Nat) :
    pshufb amd64_Shuffle1 [b0, b1, b2, b3, b4, b5, b6, b7, b8, b9, b10, b11, b12, b13, b14, b15]
      = [b7, b6, b5, b4, b3, b2, b1, b0, b15, b14, b13, b12, b11, b10, b9, b8] := rfl

theorem shuffle2_rev128 (b0 b1 b2 b3 b4 b5 b6 b7 b8 b9 b10 b11 b12 b13 b14 b15 : Nat) :
    pshufb amd64_Shuffle2 [b0, b1, b2, b3, b4, b5, b6, b7, b8, b9, b10, b11, b12, b13, b14, b15]
      = [b15, b14, b13, b12, b11, b10, b9, b8, b7, b6, b5, b4, b3, b2, b1, b0] := rfl

/-- `rev64`: a 64-bit integer in the low qword (MOVQ clears the high qword) becomes 0^64 ‖ its big-endian bytes -/
theorem rev64_macro (b0 b1 b2 b3 b4 b5 b6 b7 : Nat) :
    pshufb amd64_Shuffle2 [b0, b1, b2, b3, b4, b5, b6, b7, 0, 0, 0, 0, 0, 0, 0, 0]
      = [0, 0, 0, 0, 0, 0, 0, 0, b7, b6, b5, b4, b3, b2, b1, b0] := rfl

/-- `rev64X2`: VPSHUFB by Shuffle2 on src2, then VPSHUFB by Shuffle1 on src1 under write-mask 0x00ff:
    big-endian src1 ‖ big-endian src2 -/
theorem rev64X2_macro (a0 a1 a2 a3 a4 a5 a6 a7 c0 c1 c2 c3 c4 c5 c6 c7 : Nat) :
    pshufbMask 0x00ff amd64_Shuffle1 [a0, a1, a2, a3, a4, a5, a6, a7, 0, 0, 0, 0, 0, 0, 0, 0]
        (pshufb amd64_Shuffle2 [c0, c1, c2, c3, c4, c5, c6, c7, 0, 0, 0, 0, 0, 0, 0, 0])
      = [a7, a6, a5, a4, a3, a2, a1, a0, c7, c6, c5, c4, c3, c2, c1, c0] := rfl

/-! ### qword permutations of the GHASH by-4 loop -/

theorem lane_idx :
    wordsLE 8 amd64_SHUFFLE_X_LANES = [6, 7, 0, 1, 4, 5, 6, 7]
    ∧ wordsLE 8 amd64_MERGE_H01 = [0, 0, 0, 1]
    ∧ wordsLE 8 amd64_MERGE_H23 = [0, 0, 0, 0, 0, 1, 2, 3] := by
  decide +kernel

theorem shuffle_x_lanes (a0 a1 b0 b1 c0 c1 d0 d1 : Nat) :
    vpermq (wordsLE 8 amd64_SHUFFLE_X_LANES) [a0, a1, b0, b1, c0, c1, d0, d1]
      = [d0, d1, a0, a1, c0, c1, d0, d1] := rfl

theorem merge_h01 (s0 s1 s2 s3 o0 o1 o2 o3 : Nat) :
    vpermqMask 0b00001100 (wordsLE 8 amd64_MERGE_H01) [s0, s1, s2, s3] [o0, o1, o2, o3]
      = [o0, o1, s0, s1] := rfl

theorem merge_h23 (s0 s1 s2 s3 s4 s5 s6 s7 o0 o1 o2 o3 o4 o5 o6 o7 : Nat) :
    vpermqMask 0b11110000 (wordsLE 8 amd64_MERGE_H23) [s0, s1, s2, s3, s4, s5, s6, s7]
        [o0, o1, o2, o3, o4, o5, o6, o7]
      = [o0, o1, o2, o3, s0, s1, s2, s3] := rfl

/-- the three masked VPERMQ of `gHashBlocksLoopBy4Pre`, from H^4, H^3, H^2, H in lane 0 of four registers
    (`x`, `y` = junk in the other lanes) to H^4 : H^3 : H^2 : H in the four lanes of one register -/
theorem merge_h_powers (h4a h4b h3a h3b h2a h2b h1a h1b x0 x1 x2 x3 x4 x5 y0 y1 y2 y3 y4 y5 y6 y7 : Nat) :
    let vyH4 := vpermqMask 0b00001100 (wordsLE 8 amd64_MERGE_H01) [h3a, h3b, x0, x1] [h4a, h4b, x2, x3]
    let u1y := vpermqMask 0b00001100 (wordsLE 8 amd64_MERGE_H01) [h1a, h1b, x4, x5] [h2a, h2b, y0, y1]
    vpermqMask 0b11110000 (wordsLE 8 amd64_MERGE_H23) (u1y ++ [y2, y3, y4, y5]) (vyH4 ++ [y6, y7, y6, y7])
      = [h4a, h4b, h3a, h3b, h2a, h2b, h1a, h1b] := rfl

/-! ### bit reversal -/

theorem and_mask : amd64_AND_MASK = List.replicate 16 0x0f := by decide +kernel

/-- VPSLLQ $4 on LOWER_MASK moves every nibble to the high half of its own byte (no bit crosses a byte) -/
theorem higher_mask : psllq4 amd64_LOWER_MASK = amd64_LOWER_MASK.map (· * 16) := by decide +kernel

/-- LOWER_MASK is the 4-bit reversal table -/
theorem lower_mask : amd64_LOWER_MASK = (List.range 16).map (reflect 4) := by decide +kernel

/-- the two nibble look-ups: `Lower[b >> 4] ^ Higher[b & 0x0f]` is `b` with its 8 bits reversed -/
theorem reverseBits_byte :
    ∀ b, b < 256 →
      pshufbByte amd64_LOWER_MASK (b >>> 4) ^^^ pshufbByte (psllq4 amd64_LOWER_MASK) (b &&& 0x0f)
        = reverse8 b := by
  decide +kernel

/-- VPSRLW $4 followed by the AND with 0x0f leaves, in each byte of a 16-bit word, the high nibble of that
    byte (the four bits that crossed over from the high byte are masked away) -/
theorem srlw4_and (lo hi : Nat) (hlo : lo < 256) (hhi : hi < 256) :
    (((lo + 256 * hi) >>> 4) % 256) &&& 0x0f = lo >>> 4 ∧ (((lo + 256 * hi) >>> 4) / 256) &&& 0x0f = hi >>> 4 := by
  have e : ∀ x, x &&& 0x0f = x % 16 := fun x => Nat.and_two_pow_sub_one_eq_mod x 4
  simp only [e, Nat.shiftRight_eq_div_pow]
  omega

/-- the `reverseBits` macro reverses the bits of both bytes of every 16-bit word -/
theorem reverseBits_word (lo hi : Nat) (hlo : lo < 256) (hhi : hi < 256) :
    reverseBitsWord 0x0f amd64_LOWER_MASK lo hi = (reverse8 lo, reverse8 hi) := by
  obtain ⟨h1, h2⟩ := srlw4_and lo hi hlo hhi
  simp only [reverseBitsWord]
  rw [h1, h2, reverseBits_byte lo hlo, reverseBits_byte hi hhi]

/-- `reverse8` is what its name says: bit `i` of the result is bit `7 − i` of the argument, and it is an involution -/
theorem reverse8_spec :
    ∀ b, b < 256 → reverse8 b < 256 ∧ reverse8 (reverse8 b) = b ∧ ∀ i, i < 8 → bit (reverse8 b) i = bit b (7 - i) := by
  decide +kernel

/-! ### GHASH reduction constant -/

theorem gcm_poly_qwords : wordsLE 8 amd64_GCM_POLY = [0x87, 0] := by decide +kernel

theorem gcm_poly_reflect :
    le amd64_GCM_POLY = reflect 128 Spec.GCM.R ∧ reflect 128 (le amd64_GCM_POLY) = Spec.GCM.R
    ∧ reflect 8 0xE1 = 0x87 ∧ (0x87 : Nat) = 2 ^ 7 + 2 ^ 2 + 2 ^ 1 + 2 ^ 0 := by
  decide +kernel

/-! ### counter increments -/

theorem counter_add_dwords :
    wordsLE 4 amd64_Counter_Add1 = [0, 0, 0, 1, 0, 0, 0, 2, 0, 0, 0, 3, 0, 0, 0, 4]
    ∧ wordsLE 4 amd64_Counter_Add2 = [0, 0, 0, 4, 0, 0, 0, 4, 0, 0, 0, 4, 0, 0, 0, 4]
    ∧ wordsLE 4 amd64_Counter_Add3 = [0, 0, 0, 2, 0, 0, 0, 2, 0, 0, 0, 2, 0, 0, 0, 2] := by
  decide +kernel

/-- the X and Y views (low 128 / 256 bits) used by fillCounterX4/X2/X1 and fillCounterX8 -/
theorem counter_add_low :
    wordsLE 4 (amd64_Counter_Add1.take 16) = [0, 0, 0, 1]
    ∧ wordsLE 4 (amd64_Counter_Add1.take 32) = [0, 0, 0, 1, 0, 0, 0, 2]
    ∧ wordsLE 4 (amd64_Counter_Add3.take 32) = [0, 0, 0, 2, 0, 0, 0, 2] := by
  decide +kernel

/-- `makeCounterNew`: `PSLLDQ $3` of the low lane of Counter_Add1 is 0^120 ‖ 00000001, the last byte of
    J0 = IV ‖ 0^31 ‖ 1 in memory order -/
theorem counter_j0_suffix :
    pslldq 3 (amd64_Counter_Add1.take 16) = List.replicate 15 0 ++ [1] := by
  decide +kernel

/-- after `rev32` dword 3 of a lane is the big-endian 32-bit number of bytes 12..15 of the block: the GCM counter -/
theorem counter_lane (b0 b1 b2 b3 b4 b5 b6 b7 b8 b9 b10 b11 b12 b13 b14 b15 : Nat) :
    le ((pshufb amd64_Shuffle [b0, b1, b2, b3, b4, b5, b6, b7, b8, b9, b10, b11, b12, b13, b14, b15]).drop 12)
      = be [b12, b13, b14, b15] := rfl

end SMGo.Proofs.AsmData
