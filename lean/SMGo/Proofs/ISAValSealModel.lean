import SMGo.Proofs.ISAValSealRun
import SMGo.Proofs.ISAValFusedModel
set_option linter.unusedSimpArgs false
namespace SMGo.Proofs.ISAVal
open SMGo SMGo.Model.ISAVal SMGo.Model.GCM SMGo.Proofs.GCM SMGo.Spec.GCM SMGo.Proofs.ISATouch
open SMGo.Model.ISA (Reg Opd Instr)

/-- the block function of SM4 under the round keys `rk` on byte strings -/
def encE (rk : List Nat) : Bytes → Bytes := fun b => Spec.SM4.crypt (rk.map (BitVec.ofNat 32)) b

theorem encE_length (rk : List Nat) (b : Bytes) : (encE rk b).length = 16 := SMGo.Proofs.SM4.crypt_length _ _

theorem toB_toNat (b : Bytes) : toB (b.map (·.toNat)) = b := by
  unfold toB
  rw [List.map_map]
  conv => rhs; rw [← List.map_id b]
  apply List.map_congr_left
  intro x _
  simp

theorem toB_encB (rk pb : List Nat) : toB (encB rk pb) = encE rk (toB pb) := toB_toNat _

theorem toB_append (a b : List Nat) : toB (a ++ b) = toB a ++ toB b := by simp [toB]

theorem toNat_toB (l : List Nat) (h : ∀ x ∈ l, x < 2 ^ 8) : (toB l).map (·.toNat) = l := by
  unfold toB
  rw [List.map_map]
  conv => rhs; rw [← List.map_id l]
  apply List.map_congr_left
  intro x hx
  have := h x hx
  simp only [Function.comp_apply, id_eq, UInt8.toNat_ofNat']
  omega

theorem toB_xorN (a b : List Nat) (ha : ∀ x ∈ a, x < 2 ^ 8) (hb : ∀ x ∈ b, x < 2 ^ 8) : toB (xorN a b) = xorBytes (toB a) (toB b) := by
  unfold toB xorN xorBytes
  rw [List.map_zipWith, List.zipWith_map]
  apply List.ext_getElem
  · simp
  · intro i h1 h2
    simp only [List.getElem_zipWith]
    have hx := ha _ (List.getElem_mem (by simp at h1; omega : i < a.length))
    have hy := hb _ (List.getElem_mem (by simp at h1; omega : i < b.length))
    apply UInt8.toNat_inj.mp
    simp only [UInt8.toNat_xor, UInt8.toNat_ofNat']
    rw [Nat.mod_eq_of_lt hx, Nat.mod_eq_of_lt hy, Nat.mod_eq_of_lt (Nat.xor_lt_two_pow hx hy)]

end SMGo.Proofs.ISAVal
namespace SMGo.Proofs.ISAVal
open SMGo SMGo.Model.ISAVal SMGo.Model.GCM SMGo.Proofs.GCM SMGo.Spec.GCM SMGo.Proofs.ISATouch
open SMGo.Model.ISA (Reg Opd Instr)

theorem toNatBE_toB4 (a b c d : Nat) (ha : a < 256) (hb : b < 256) (hc : c < 256) (hd : d < 256) :
    Bytes.toNatBE (toB [a, b, c, d]) = ((a * 256 + b) * 256 + c) * 256 + d := by
  simp [toB, Bytes.toNatBE, Nat.mod_eq_of_lt ha, Nat.mod_eq_of_lt hb, Nat.mod_eq_of_lt hc, Nat.mod_eq_of_lt hd]

theorem beWord_val (a b c d : Nat) : beWord a b c d = d + 256 * (c + 256 * (b + 256 * a)) := by
  simp only [beWord, unlanes_cons, unlanes_nil]; omega

theorem beBytes_val (x : Nat) (hx : x < 2 ^ 32) :
    Bytes.toNatBE (toB (beBytes x)) = x := by
  unfold beBytes
  rw [toNatBE_toB4 _ _ _ _ (lane_lt 8 3 x) (lane_lt 8 2 x) (lane_lt 8 1 x) (lane_lt 8 0 x)]
  unfold lane
  simp only [Nat.shiftRight_eq_div_pow]
  omega

/-- the counter blocks of the listing are the counter blocks of the model -/
theorem natToBlock_laneAdd (jb : List Nat) (hjb : jb.length = 16) (hjbb : ∀ x ∈ jb, x < 2 ^ 8) (k : Nat) :
    natToBlock (laneAdd (blockToNat (toB jb)) k) = toB (ctrBlk jb k) := by
  obtain ⟨j0, j1, j2, j3, j4, j5, j6, j7, j8, j9, j10, j11, j12, j13, j14, j15, rfl⟩ := list16 jb hjb
  have hb : ∀ x ∈ [j0, j1, j2, j3, j4, j5, j6, j7, j8, j9, j10, j11, j12, j13, j14, j15], x < 256 := hjbb
  simp only [List.mem_cons, List.not_mem_nil, or_false, forall_eq_or_imp, forall_eq] at hb
  obtain ⟨h0, h1, h2, h3, h4, h5, h6, h7, h8, h9, h10, h11, h12, h13, h14, h15⟩ := hb
  have hsplit : toB [j0, j1, j2, j3, j4, j5, j6, j7, j8, j9, j10, j11, j12, j13, j14, j15]
      = toB [j0, j1, j2, j3, j4, j5, j6, j7, j8, j9, j10, j11] ++ toB [j12, j13, j14, j15] := rfl
  have hJ : blockToNat (toB [j0, j1, j2, j3, j4, j5, j6, j7, j8, j9, j10, j11, j12, j13, j14, j15])
      = Bytes.toNatBE (toB [j0, j1, j2, j3, j4, j5, j6, j7, j8, j9, j10, j11]) * 2 ^ 32 + (((j12 * 256 + j13) * 256 + j14) * 256 + j15) := by
    unfold blockToNat
    rw [hsplit, toNatBE_append, toNatBE_toB4 _ _ _ _ h12 h13 h14 h15, show (toB [j12, j13, j14, j15]).length = 4 from rfl,
      show (256 : Nat) ^ 4 = 2 ^ 32 from by decide]
  have hw : wordAt [j0, j1, j2, j3, j4, j5, j6, j7, j8, j9, j10, j11, j12, j13, j14, j15] 12 = ((j12 * 256 + j13) * 256 + j14) * 256 + j15 := by
    show bswap32 (unlanes 8 [j12, j13, j14, j15]) = _
    rw [bswap32_unlanes _ _ _ _ h12 h13 h14 h15, beWord_val]; omega
  have hwlt : ((j12 * 256 + j13) * 256 + j14) * 256 + j15 < 2 ^ 32 := by omega
  apply toNatBE_inj
  · rw [show (natToBlock _).length = 16 from ofNatBE_length 16 _, toB_length, ctrBlk_length _ rfl]
  · have hlt : laneAdd (blockToNat (toB [j0, j1, j2, j3, j4, j5, j6, j7, j8, j9, j10, j11, j12, j13, j14, j15])) k < 2 ^ 128 := by
      rw [laneAdd_eq]; exact ctrAdd_lt (blockToNat_lt (by simp [toB])) k
    refine (blockToNat_natToBlock hlt).trans ?_
    unfold ctrBlk
    rw [toB_append, toNatBE_append, beBytes_val _ (Nat.mod_lt _ (by decide)), hw]
    have hl4 : (toB (beBytes ((((j12 * 256 + j13) * 256 + j14) * 256 + j15 + k) % 2 ^ 32))).length = 4 := by simp [toB, beBytes]
    rw [hl4, hJ]
    unfold laneAdd
    have e256 : (256 : Nat) ^ 4 = 2 ^ 32 := by decide
    rw [e256]
    show _ = Bytes.toNatBE (toB [j0, j1, j2, j3, j4, j5, j6, j7, j8, j9, j10, j11]) * 2 ^ 32 + _
    omega

theorem laneAdd_add (j a b : Nat) : laneAdd (laneAdd j a) b = laneAdd j (a + b) := by
  rw [laneAdd_eq, laneAdd_eq, laneAdd_eq, ctrAdd_ctrAdd]

theorem toB_flatMap (n : Nat) (f : Nat → List Nat) : toB ((List.range n).flatMap f) = (List.range n).flatMap (fun i => toB (f i)) := by
  unfold toB
  rw [List.map_flatMap]

/-- the key stream of a class -/
theorem toB_ksN (rk jb : List Nat) (hjb : jb.length = 16) (hjbb : ∀ x ∈ jb, x < 2 ^ 8) (c n : Nat) :
    toB (ksN rk jb c n) = keyStream (encE rk) (laneAdd (blockToNat (toB jb)) c) n := by
  unfold ksN keyStream
  rw [toB_flatMap]
  apply flatMap_range_congr
  intro i _
  rw [toB_encB, laneAdd_add, natToBlock_laneAdd jb hjb hjbb, Nat.add_assoc]

end SMGo.Proofs.ISAVal
namespace SMGo.Proofs.ISAVal
open SMGo SMGo.Model.ISAVal SMGo.Model.GCM SMGo.Proofs.GCM SMGo.Spec.GCM SMGo.Proofs.ISATouch
open SMGo.Model.ISA (Reg Opd Instr)

theorem hashClassN_eq (hB : Bytes) (n y : Nat) (out : List Nat) (hb : ∀ x ∈ out, x < 2 ^ 8) (hl : 16 * n ≤ out.length) :
    hashClassN (loadR hB) n y out = hashClass (hPowers hB) n y (toB out) := by
  unfold hashClassN hashClass
  split
  · exact ghN4_eq hB (n / 4) y out hb (by omega)
  · exact ghN_eq (loadR hB) n y out hb hl

/-- **the ladder of the listing on numbers is `cryptoBlocksAux` of the model** (hashing on) -/
theorem ladN_eq (rk jb : List Nat) (hjb : jb.length = 16) (hjbb : ∀ x ∈ jb, x < 2 ^ 8) (hB : Bytes) :
    ∀ (fuel c y : Nat) (src : List Nat), (∀ x ∈ src, x < 2 ^ 8) →
      toB (ladN rk jb (loadR hB) 1 fuel c y src).1
          = (cryptoBlocksAux (encE rk) (hPowers hB) true fuel (laneAdd (blockToNat (toB jb)) c) y (toB src)).1 ∧
        (ladN rk jb (loadR hB) 1 fuel c y src).2
          = (cryptoBlocksAux (encE rk) (hPowers hB) true fuel (laneAdd (blockToNat (toB jb)) c) y (toB src)).2 := by
  intro fuel
  induction fuel with
  | zero => intro c y src _; exact ⟨rfl, rfl⟩
  | succ f ih =>
    intro c y src hsb
    rw [cryptoBlocksAux_succ, toB_length]
    by_cases hn0 : classOf src.length = 0
    · have hlt := (class_facts src.length).2.1 hn0
      rw [ladN_small rk jb (loadR hB) 1 f c y src hlt]
      simp only [hn0, ne_eq, not_true_eq_false, if_false]
      by_cases h0 : src.length = 0
      · have : src = [] := List.eq_nil_of_length_eq_zero h0
        subst this
        exact ⟨rfl, by simp⟩
      · simp only [h0, if_false, false_or, show (1 : Nat) ≠ 0 from by decide, if_true]
        have hpb : ∀ x ∈ padTo16 src, x < 2 ^ 8 := by
          intro x hx
          unfold padTo16 at hx
          rw [List.mem_append] at hx
          rcases hx with h' | h'
          · exact hsb x h'
          · rw [List.eq_of_mem_replicate h']; decide
        have hout : toB ((xorN (padTo16 src) (encB rk (ctrBlk jb (c + 1)))).take src.length)
            = (xorBytes (padBlock (toB src)) (encE rk (natToBlock (laneAdd (laneAdd (blockToNat (toB jb)) c) 1)))).take src.length := by
          rw [toB_take, toB_xorN _ _ hpb (encB_bytes _ _), toB_padTo16, toB_encB, laneAdd_add, natToBlock_laneAdd jb hjb hjbb]
        refine ⟨hout, ?_⟩
        rw [← hout]
        have hxb : ∀ x ∈ (xorN (padTo16 src) (encB rk (ctrBlk jb (c + 1)))).take src.length, x < 2 ^ 8 :=
          fun x hx => xorN_bytes _ _ hpb (encB_bytes _ _) x (List.mem_of_mem_take hx)
        have hxl : ((xorN (padTo16 src) (encB rk (ctrBlk jb (c + 1)))).take src.length).length ≤ 16 := by
          rw [List.length_take]; omega
        rw [rb128_loadR _ (padTo16_length _ hxl) (by
          intro x hx
          unfold padTo16 at hx
          rw [List.mem_append] at hx
          rcases hx with h' | h'
          · exact hxb x h'
          · rw [List.eq_of_mem_replicate h']; decide), toB_padTo16]
        rfl
    · have h16 := (class_facts src.length).1 hn0
      rw [ladN_class rk jb (loadR hB) 1 f c y src _ rfl hn0]
      simp only [hn0, ne_eq, not_false_eq_true, if_true, show (1 : Nat) ≠ 0 from by decide, if_false]
      have hout : toB (xorN (src.take (16 * classOf src.length)) (ksN rk jb c (classOf src.length)))
          = (classStep (encE rk) (hPowers hB) true (classOf src.length) (laneAdd (blockToNat (toB jb)) c) y (toB src)).1 := by
        unfold classStep
        simp only []
        rw [toB_xorN _ _ (fun x hx => hsb x (List.mem_of_mem_take hx)) (ksN_bytes _ _ _ _), toB_take, toB_ksN rk jb hjb hjbb]
      have hy1 : hashClassN (loadR hB) (classOf src.length) y (xorN (src.take (16 * classOf src.length)) (ksN rk jb c (classOf src.length)))
          = (classStep (encE rk) (hPowers hB) true (classOf src.length) (laneAdd (blockToNat (toB jb)) c) y (toB src)).2 := by
        unfold classStep
        simp only [if_true]
        rw [hashClassN_eq hB _ y _ (xorN_bytes _ _ (fun x hx => hsb x (List.mem_of_mem_take hx)) (ksN_bytes _ _ _ _))
          (by rw [xorN_length, ksN_length, List.length_take]; omega),
          toB_xorN _ _ (fun x hx => hsb x (List.mem_of_mem_take hx)) (ksN_bytes _ _ _ _), toB_take, toB_ksN rk jb hjb hjbb]
      have hrec := ih (c + classOf src.length) (hashClassN (loadR hB) (classOf src.length) y
        (xorN (src.take (16 * classOf src.length)) (ksN rk jb c (classOf src.length)))) (src.drop (16 * classOf src.length))
        (fun x hx => hsb x (List.mem_of_mem_drop hx))
      rw [toB_drop, ← laneAdd_add] at hrec
      rw [← hy1]
      refine ⟨?_, hrec.2⟩
      rw [toB_append, hout, hrec.1]

end SMGo.Proofs.ISAVal
