import SMGo.Proofs.ISAValHelperCmp3
set_option linter.unusedSimpArgs false
namespace SMGo.Proofs.ISAVal
open SMGo.Model.ISAVal SMGo.Model.GCM SMGo.Proofs.GCM SMGo.Proofs.ISATouch
open SMGo.Model.ISA (Reg Opd Instr)

/-- the body of `constantTimeCompareAsm` after the argument loads: two accumulators, the loop by 8, the loop by 1, the fold -/
def hcBodyCode : List DInstr :=
  [ins .MOVQ [.imm 0, G 3] 0, ins .MOVQ [.imm 0, G 1] 0] ++
    (hcStageCode 8 3 8 58 29 ++ (hcStageCode 1 1 1 84 58 ++ hcFoldCode))

set_option maxHeartbeats 2000000 in
/-- **the body of `constantTimeCompareAsm`**: the OR of the byte-wise XORs of `y` (in the buffer `e`, overwritten with the XORs) and `x`
    ends up in `G1` -/
theorem hc_reach (r : Routine) (k : Nat) (hs : Slice r k hcBodyCode) (lF : findPc r 29 = some (r.drop (k + 2)))
    (lS : findPc r 58 = some (r.drop (k + 11))) (lD : findPc r 84 = some (r.drop (k + 20)))
    (Mf : List Nat → List Region) (ebase bl : Nat) (bf : Buf Mf ebase bl) (x : List Nat) (xp : Nat)
    (hx : ∀ e, e.length = bl → DataAt (Mf e) xp x) (hxb : ∀ b ∈ x, b < 2 ^ 8) (hxp : xp + x.length < 2 ^ 63) (heb : ebase + bl < 2 ^ 63)
    (s : State) (hG : s.gpr.length = 16) (e : List Nat) (he : e.length = bl) (hm : s.mem = Mf e) (ts : Nat) (h14 : greg s 0 = ts)
    (hts : ts ≤ bl) (hxl : x.length = ts) (h10 : greg s 7 = xp) (h0 : greg s 6 = ebase) (hEb : ∀ b ∈ e.take ts, b < 2 ^ 8) :
    ∃ s' N e', N ≤ 9 * ts + 40 ∧ Reach r k s (k + 35) s' N ∧ s'.mem = Mf e' ∧ e'.length = bl ∧
      greg s' 1 = orBytes (xorN (e.take ts) x) ∧ RegsKeep hcKeepG s s' := by
  have sA : Slice r k [ins .MOVQ [.imm 0, G 3] 0, ins .MOVQ [.imm 0, G 1] 0] := hs.left
  have sB : Slice r (k + 2) (hcStageCode 8 3 8 58 29) := hs.right.left
  have sC : Slice r (k + 2 + 9) (hcStageCode 1 1 1 84 58) := hs.right.right.left
  have sD : Slice r (k + 2 + 9 + 9) hcFoldCode := hs.right.right.right
  -- the two accumulators
  let s1 := setGreg s 3 (imm64 0)
  let s2 := setGreg s1 1 (imm64 0)
  have hG2 : s2.gpr.length = 16 := by simp [s2, s1]; exact hG
  have hxA : execList [ins .MOVQ [.imm 0, G 3] 0, ins .MOVQ [.imm 0, G 1] 0] s = .ok s2 := by
    apply exec_step (a_movq_imm s 0 3 (by omega))
    apply exec_step (a_movq_imm s1 0 1 (by simp [s1]; omega))
    rfl
  have rA : Reach r k s (k + 2) s2 2 := reach_seg sA (by rfl) hxA
  have g21 : greg s2 3 = 0 := by
    show greg (setGreg s1 1 _) 3 = 0
    rw [greg_setGreg_ne s1 1 _ 3 (by decide), greg_setGreg_eq s 3 _ (by omega)]; exact imm64_0'
  have g22 : greg s2 1 = 0 := by
    show greg (setGreg s1 1 _) 1 = 0
    rw [greg_setGreg_eq s1 1 _ (by simp [s1]; omega)]; exact imm64_0'
  have kA : RegsKeep hcKeepG s s2 := ⟨by simp [s2, s1], fun m hm' => by
      have : m ≠ 3 ∧ m ≠ 1 := by simp only [hcKeepG, List.mem_cons, List.not_mem_nil, or_false] at hm'; omega
      show greg (setGreg s1 1 _) m = _
      rw [greg_setGreg_ne s1 1 _ m this.2]; exact greg_setGreg_ne s 3 _ m this.1, rfl, rfl, rfl, rfl⟩
  have other : ∀ m, m ≠ 3 → m ≠ 1 → greg s2 m = greg s m := by
    intro m h1 h2
    show greg (setGreg s1 1 _) m = _
    rw [greg_setGreg_ne s1 1 _ m h2]; exact greg_setGreg_ne s 3 _ m h1
  -- by 8
  have hEb1 : ∀ b ∈ (e.drop 0).take ts, b < 2 ^ 8 := by rw [List.drop_zero]; exact hEb
  obtain ⟨s3, e3, r3, m3, he3, hd3, g314, g310, g30, g31lt, g31, k3, ko3⟩ := hc_stage r (k + 2) 8 3 8 58 29 (Or.inl ⟨rfl, rfl, rfl⟩) sB lF
    (by rw [show k + 2 + 9 = k + 11 from by omega]; exact lS) Mf ebase bl bf x xp hx hxb hxp heb (ts / 8) ts s2 e 0 0 rfl hG2 he hm
    ((other 0 (by decide) (by decide)).trans h14) (by omega) ((other 7 (by decide) (by decide)).trans h10)
    ((other 6 (by decide) (by decide)).trans h0) g21 (by decide) (by omega) (by omega) hEb1
  have g32 : greg s3 1 = 0 := by rw [ko3 1 (by decide) (by decide)]; exact g22
  -- by 1
  have hsplit : e.take ts = e.take (8 * (ts / 8)) ++ (e.drop (8 * (ts / 8))).take (ts % 8) := by
    have := List.take_add (l := e) (i := 8 * (ts / 8)) (j := ts % 8)
    rw [show 8 * (ts / 8) + ts % 8 = ts from by omega] at this; exact this
  have hEb2 : ∀ b ∈ (e3.drop (0 + 8 * (ts / 8))).take (ts % 8), b < 2 ^ 8 := by
    intro b hb
    rw [hd3, Nat.zero_add] at hb
    apply hEb b
    rw [hsplit]
    exact List.mem_append_right _ hb
  obtain ⟨s4, e4, r4, m4, he4, _, _, _, _, g42lt, g42, k4, ko4⟩ := hc_stage r (k + 2 + 9) 1 1 1 84 58 (Or.inr ⟨rfl, rfl, rfl⟩) sC
    (by rw [show k + 2 + 9 = k + 11 from by omega]; exact lS) (by rw [show k + 2 + 9 + 9 = k + 20 from by omega]; exact lD)
    Mf ebase bl bf x xp hx hxb hxp heb (ts % 8) (ts % 8) s3 e3 (0 + 8 * (ts / 8)) 0 (Nat.div_one _) (k3.lenG.trans hG2) he3 m3 g314
    (by omega) g310 g30 g32 (by decide) (by omega) (by omega) hEb2
  have g41 : greg s4 3 = greg s3 3 := ko4 3 (by decide) (by decide)
  -- the fold
  obtain ⟨s5, hx5, g52, k5, m5⟩ := hcFold_spec s4 (k4.lenG.trans (k3.lenG.trans hG2)) _ _ rfl rfl (by exact g42lt)
  have r5 : Reach r (k + 2 + 9 + 9) s4 (k + 2 + 9 + 9 + 15) s5 15 := reach_seg sD (by decide) hx5
  refine ⟨s5, 2 + (9 * (ts / 8) + 2) + (9 * (ts % 8) + 2) + 15, e4, by omega, (((rA.trans r3).trans r4).trans r5).cast (by omega) rfl,
    by rw [m5]; exact m4, he4, ?_, ?_⟩
  · rw [g52, g41]
    simp only [accOr, if_true, show (1 : Nat) ≠ 8 from by decide, if_false] at g31 g42
    rw [g31, g42, foldOr8_zero, Nat.zero_or, Nat.zero_or, hd3, Nat.one_mul, Nat.or_comm, ← orBytes_append, ← xorN_append _ _ _ _ (by
      rw [List.length_take, List.length_drop, List.length_take, List.length_drop]; omega)]
    congr 2
    · rw [hsplit, List.drop_zero, Nat.zero_add]
    · rw [List.drop_zero, Nat.zero_add, ← List.take_add, show 8 * (ts / 8) + ts % 8 = ts from by omega,
        List.take_of_length_le (by omega)]
  · exact ((kA.trans k3).trans k4).trans ⟨k5.lenG, fun m hm' => k5.g m (by
      simp only [hcKeepG, hfoldKeepG, List.mem_cons, List.not_mem_nil, or_false] at hm' ⊢; omega), k5.vec, k5.kreg, k5.syms, k5.frame⟩

end SMGo.Proofs.ISAVal
