import SMGo.Proofs.ISAValFusedCtr
set_option linter.unusedSimpArgs false
namespace SMGo.Proofs.ISAVal
open SMGo.Model.ISAVal SMGo.Model.GCM SMGo.Proofs.GCM SMGo.Proofs.ISATouch
open SMGo.Model.ISA (Reg Opd Instr)

def fill16Code : List DInstr :=
  [ins .VPADDD [R 14, R 16, R 6] 64, ins .VPADDD [R 6, R 17, R 7] 64, ins .VPADDD [R 7, R 17, R 8] 64, ins .VPADDD [R 8, R 17, R 9] 64,
   ins .VPADDD [R 17, R 17, R 0] 64, ins .VPADDD [R 0, R 0, R 1] 64, ins .VPADDD [R 14, R 1, R 14] 64]
def fill8Code : List DInstr :=
  [ins .VPADDD [R 14, R 16, R 6] 32, ins .VPADDD [R 6, R 18, R 7] 32, ins .VPADDD [R 7, R 18, R 8] 32, ins .VPADDD [R 8, R 18, R 9] 32,
   ins .VPADDD [R 18, R 18, R 0] 32, ins .VPADDD [R 0, R 0, R 1] 32, ins .VPADDD [R 14, R 1, R 14] 32]
def fill4Code : List DInstr :=
  [ins .VPADDD [R 14, R 16, R 6] 16, ins .VPADDD [R 6, R 16, R 7] 16, ins .VPADDD [R 7, R 16, R 8] 16, ins .VPADDD [R 8, R 16, R 9] 16,
   ins .VMOVDQA64 [R 9, R 14] 16]
def fill2Code : List DInstr :=
  [ins .VPADDD [R 14, R 16, R 6] 16, ins .VPADDD [R 6, R 16, R 7] 16, ins .VMOVDQA64 [R 7, R 14] 16]
def fill1Code : List DInstr :=
  [ins .VPADDD [R 14, R 16, R 6] 16, ins .VMOVDQA64 [R 6, R 14] 16]

set_option maxRecDepth 100000 in
theorem fill16_spec (s : State) (hV : s.vec.length = 32) (h16v : vreg s 16 = ADD1v) (h17v : vreg s 17 = ADD2v)
    (W : Nat × Nat × Nat × Nat) (hW : QLt W) (c : Nat) (hc : ∀ l, l < 4 → quadAt (vreg s 14) l = ctrW W c) :
    ∃ s', execList fill16Code s = .ok s' ∧
      (∀ r l, r < 4 → l < 64 / 16 → quadAt (vreg s' (6 + r)) l = ctrW W (c + 4 * r + l + 1)) ∧
      (∀ l, l < 4 → quadAt (vreg s' 14) l = ctrW W (c + 16)) := by
  have h64 : validVl 64 = true := by decide
  obtain ⟨gpr, vec, k, fl, mem, syms, frame⟩ := s
  simp only at hV
  obtain ⟨b0, b1, b2, b3, b4, b5, b6, b7, b8, b9, b10, b11, b12, b13, b14, b15, b16, b17, b18, b19, b20, b21, b22, b23, b24, b25, b26, b27, b28, b29, b30, b31, rfl⟩ := list32 vec hV
  simp only [vreg, List.getD_cons_succ, List.getD_cons_zero] at h16v h17v hc
  subst h16v h17v
  apply Exists.intro
  apply And.intro
  · unfold fill16Code
    vstep; vstep; vstep; vstep; vstep; vstep; vstep
    exact execList_nil _
  · simp only [List.set_cons_succ, List.set_cons_zero, vreg, List.getD_cons_succ, List.getD_cons_zero]
    have q6 : ∀ l, l < 4 → quadAt (map2 32 (64 / 4) (fun x y => (y + x) % 2 ^ 32) b14 ADD1v) l = ctrW W (c + (l + 1)) :=
      fun l hl => quad_ctr_add _ _ _ l (by omega) W hW c _ (hc l hl) (add1_quad l hl)
    have q7 := fun l (hl : l < 4) => quad_ctr_add (64 / 4) _ ADD2v l (by omega) W hW _ _ (q6 l hl) (add2_quad l hl)
    have q8 := fun l (hl : l < 4) => quad_ctr_add (64 / 4) _ ADD2v l (by omega) W hW _ _ (q7 l hl) (add2_quad l hl)
    have q9 := fun l (hl : l < 4) => quad_ctr_add (64 / 4) _ ADD2v l (by omega) W hW _ _ (q8 l hl) (add2_quad l hl)
    have i0 := fun l (hl : l < 4) => quad_inc_add (64 / 4) ADD2v ADD2v l (by omega) 4 4 (add2_quad l hl) (add2_quad l hl) (by decide)
    have i1 := fun l (hl : l < 4) => quad_inc_add (64 / 4) _ _ l (by omega) _ _ (i0 l hl) (i0 l hl) (by decide)
    refine ⟨?_, ?_⟩
    · intro r l hr hl
      have hr' : r = 0 ∨ r = 1 ∨ r = 2 ∨ r = 3 := by omega
      rcases hr' with rfl | rfl | rfl | rfl
      · exact (q6 l hl).trans (congrArg (ctrW W) (by omega))
      · exact (q7 l hl).trans (congrArg (ctrW W) (by omega))
      · exact (q8 l hl).trans (congrArg (ctrW W) (by omega))
      · exact (q9 l hl).trans (congrArg (ctrW W) (by omega))
    · intro l hl
      exact quad_ctr_add (64 / 4) _ _ l (by omega) W hW c _ (hc l hl) (i1 l hl)

set_option maxRecDepth 100000 in
theorem fill8_spec (s : State) (hV : s.vec.length = 32) (h16v : vreg s 16 = ADD1v) (h18v : vreg s 18 = ADD3v)
    (W : Nat × Nat × Nat × Nat) (hW : QLt W) (c : Nat) (hc : ∀ l, l < 2 → quadAt (vreg s 14) l = ctrW W c) :
    ∃ s', execList fill8Code s = .ok s' ∧
      (∀ r l, r < 4 → l < 32 / 16 → quadAt (vreg s' (6 + r)) l = ctrW W (c + 2 * r + l + 1)) ∧
      (∀ l, l < 2 → quadAt (vreg s' 14) l = ctrW W (c + 8)) := by
  have h32 : validVl 32 = true := by decide
  obtain ⟨gpr, vec, k, fl, mem, syms, frame⟩ := s
  simp only at hV
  obtain ⟨b0, b1, b2, b3, b4, b5, b6, b7, b8, b9, b10, b11, b12, b13, b14, b15, b16, b17, b18, b19, b20, b21, b22, b23, b24, b25, b26, b27, b28, b29, b30, b31, rfl⟩ := list32 vec hV
  simp only [vreg, List.getD_cons_succ, List.getD_cons_zero] at h16v h18v hc
  subst h16v h18v
  apply Exists.intro
  apply And.intro
  · unfold fill8Code
    vstep; vstep; vstep; vstep; vstep; vstep; vstep
    exact execList_nil _
  · simp only [List.set_cons_succ, List.set_cons_zero, vreg, List.getD_cons_succ, List.getD_cons_zero]
    have q6 : ∀ l, l < 2 → quadAt (map2 32 (32 / 4) (fun x y => (y + x) % 2 ^ 32) b14 ADD1v) l = ctrW W (c + (l + 1)) :=
      fun l hl => quad_ctr_add _ _ _ l (by omega) W hW c _ (hc l hl) (add1_quad l (by omega))
    have q7 := fun l (hl : l < 2) => quad_ctr_add (32 / 4) _ ADD3v l (by omega) W hW _ _ (q6 l hl) (add3_quad l (by omega))
    have q8 := fun l (hl : l < 2) => quad_ctr_add (32 / 4) _ ADD3v l (by omega) W hW _ _ (q7 l hl) (add3_quad l (by omega))
    have q9 := fun l (hl : l < 2) => quad_ctr_add (32 / 4) _ ADD3v l (by omega) W hW _ _ (q8 l hl) (add3_quad l (by omega))
    have i0 := fun l (hl : l < 2) => quad_inc_add (32 / 4) ADD3v ADD3v l (by omega) 2 2 (add3_quad l (by omega)) (add3_quad l (by omega)) (by decide)
    have i1 := fun l (hl : l < 2) => quad_inc_add (32 / 4) _ _ l (by omega) _ _ (i0 l hl) (i0 l hl) (by decide)
    refine ⟨?_, ?_⟩
    · intro r l hr hl
      have hr' : r = 0 ∨ r = 1 ∨ r = 2 ∨ r = 3 := by omega
      rcases hr' with rfl | rfl | rfl | rfl
      · exact (q6 l hl).trans (congrArg (ctrW W) (by omega))
      · exact (q7 l hl).trans (congrArg (ctrW W) (by omega))
      · exact (q8 l hl).trans (congrArg (ctrW W) (by omega))
      · exact (q9 l hl).trans (congrArg (ctrW W) (by omega))
    · intro l hl
      exact quad_ctr_add (32 / 4) _ _ l (by omega) W hW c _ (hc l hl) (i1 l hl)

set_option maxRecDepth 100000 in
theorem fill4_spec (s : State) (hV : s.vec.length = 32) (h16v : vreg s 16 = ADD1v)
    (W : Nat × Nat × Nat × Nat) (hW : QLt W) (c : Nat) (hc : quadAt (vreg s 14) 0 = ctrW W c) :
    ∃ s', execList fill4Code s = .ok s' ∧
      (∀ r l, r < 4 → l < 16 / 16 → quadAt (vreg s' (6 + r)) l = ctrW W (c + 1 * r + l + 1)) ∧
      quadAt (vreg s' 14) 0 = ctrW W (c + 4) := by
  have h16 : validVl 16 = true := by decide
  obtain ⟨gpr, vec, k, fl, mem, syms, frame⟩ := s
  simp only at hV
  obtain ⟨b0, b1, b2, b3, b4, b5, b6, b7, b8, b9, b10, b11, b12, b13, b14, b15, b16, b17, b18, b19, b20, b21, b22, b23, b24, b25, b26, b27, b28, b29, b30, b31, rfl⟩ := list32 vec hV
  simp only [vreg, List.getD_cons_succ, List.getD_cons_zero] at h16v hc
  subst h16v
  apply Exists.intro
  apply And.intro
  · unfold fill4Code
    vstep; vstep; vstep; vstep
    apply exec_step
    · exact execD_vmovreg (hmn := Or.inr rfl) (hvl := by rfl) (ha := by rfl) (hd := by simp) ..
    exact execList_nil _
  · simp only [List.set_cons_succ, List.set_cons_zero, vreg, List.getD_cons_succ, List.getD_cons_zero]
    have q6 := quad_ctr_add (16 / 4) b14 ADD1v 0 (by omega) W hW c _ hc (add1_quad 0 (by omega))
    have q7 := quad_ctr_add (16 / 4) _ ADD1v 0 (by omega) W hW _ _ q6 (add1_quad 0 (by omega))
    have q8 := quad_ctr_add (16 / 4) _ ADD1v 0 (by omega) W hW _ _ q7 (add1_quad 0 (by omega))
    have q9 := quad_ctr_add (16 / 4) _ ADD1v 0 (by omega) W hW _ _ q8 (add1_quad 0 (by omega))
    refine ⟨?_, ?_⟩
    · intro r l hr hl
      have hl0 : l = 0 := by omega
      subst hl0
      have hr' : r = 0 ∨ r = 1 ∨ r = 2 ∨ r = 3 := by omega
      rcases hr' with rfl | rfl | rfl | rfl
      · exact q6.trans (congrArg (ctrW W) (by omega))
      · exact q7.trans (congrArg (ctrW W) (by omega))
      · exact q8.trans (congrArg (ctrW W) (by omega))
      · exact q9.trans (congrArg (ctrW W) (by omega))
    · rw [quadAt_mod 16 _ 0 (by omega), q9]

set_option maxRecDepth 100000 in
theorem fill2_spec (s : State) (hV : s.vec.length = 32) (h16v : vreg s 16 = ADD1v)
    (W : Nat × Nat × Nat × Nat) (hW : QLt W) (c : Nat) (hc : quadAt (vreg s 14) 0 = ctrW W c) :
    ∃ s', execList fill2Code s = .ok s' ∧ quadAt (vreg s' 6) 0 = ctrW W (c + 1) ∧ quadAt (vreg s' 7) 0 = ctrW W (c + 2) ∧
      quadAt (vreg s' 14) 0 = ctrW W (c + 2) := by
  have h16 : validVl 16 = true := by decide
  obtain ⟨gpr, vec, k, fl, mem, syms, frame⟩ := s
  simp only at hV
  obtain ⟨b0, b1, b2, b3, b4, b5, b6, b7, b8, b9, b10, b11, b12, b13, b14, b15, b16, b17, b18, b19, b20, b21, b22, b23, b24, b25, b26, b27, b28, b29, b30, b31, rfl⟩ := list32 vec hV
  simp only [vreg, List.getD_cons_succ, List.getD_cons_zero] at h16v hc
  subst h16v
  apply Exists.intro
  apply And.intro
  · unfold fill2Code
    vstep; vstep
    apply exec_step
    · exact execD_vmovreg (hmn := Or.inr rfl) (hvl := by rfl) (ha := by rfl) (hd := by simp) ..
    exact execList_nil _
  · simp only [List.set_cons_succ, List.set_cons_zero, vreg, List.getD_cons_succ, List.getD_cons_zero]
    have q6 := quad_ctr_add (16 / 4) b14 ADD1v 0 (by omega) W hW c _ hc (add1_quad 0 (by omega))
    have q7 := quad_ctr_add (16 / 4) _ ADD1v 0 (by omega) W hW _ _ q6 (add1_quad 0 (by omega))
    exact ⟨q6, q7, by rw [quadAt_mod 16 _ 0 (by omega), q7]⟩

set_option maxRecDepth 100000 in
theorem fill1_spec (s : State) (hV : s.vec.length = 32) (h16v : vreg s 16 = ADD1v)
    (W : Nat × Nat × Nat × Nat) (hW : QLt W) (c : Nat) (hc : quadAt (vreg s 14) 0 = ctrW W c) :
    ∃ s', execList fill1Code s = .ok s' ∧ quadAt (vreg s' 6) 0 = ctrW W (c + 1) ∧ quadAt (vreg s' 14) 0 = ctrW W (c + 1) := by
  have h16 : validVl 16 = true := by decide
  obtain ⟨gpr, vec, k, fl, mem, syms, frame⟩ := s
  simp only at hV
  obtain ⟨b0, b1, b2, b3, b4, b5, b6, b7, b8, b9, b10, b11, b12, b13, b14, b15, b16, b17, b18, b19, b20, b21, b22, b23, b24, b25, b26, b27, b28, b29, b30, b31, rfl⟩ := list32 vec hV
  simp only [vreg, List.getD_cons_succ, List.getD_cons_zero] at h16v hc
  subst h16v
  apply Exists.intro
  apply And.intro
  · unfold fill1Code
    vstep
    apply exec_step
    · exact execD_vmovreg (hmn := Or.inr rfl) (hvl := by rfl) (ha := by rfl) (hd := by simp) ..
    exact execList_nil _
  · simp only [List.set_cons_succ, List.set_cons_zero, vreg, List.getD_cons_succ, List.getD_cons_zero]
    have q6 := quad_ctr_add (16 / 4) b14 ADD1v 0 (by omega) W hW c _ hc (add1_quad 0 (by omega))
    exact ⟨q6, by rw [quadAt_mod 16 _ 0 (by omega), q6]⟩

end SMGo.Proofs.ISAVal
