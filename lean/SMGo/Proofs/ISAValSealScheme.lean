import SMGo.Proofs.ISAValSealCode2
namespace SMGo.Proofs.ISAVal
open SMGo.Model.ISAVal SMGo.Model.ISA

/-! # E1: the two fused routines decoded and decomposed

  The listings have 5361 and 5559 instructions: every check below is organised chunk by chunk (the generated listings
  come in chunks of 128 instructions), so that the kernel never recurses over the whole list. -/

/-- total decoding: an unknown mnemonic would become a NOP (there is none: `known_seal`, `known_open`) -/
def decodeD (i : Instr) : DInstr :=
  match Mn.ofString i.mn with
  | some mn => ⟨i.pc, mn, i.ops, i.vw⟩
  | none => ⟨i.pc, .NOP, i.ops, i.vw⟩

def known (i : Instr) : Bool := (Mn.ofString i.mn).isSome

theorem decode_of_known {i : Instr} (h : known i = true) : decode i = .ok (decodeD i) := by
  unfold known at h
  unfold decode decodeD
  cases hm : Mn.ofString i.mn with
  | none => rw [hm] at h; cases h
  | some mn => rfl

theorem mapM_decode (l : List Instr) (h : ∀ i, i ∈ l → known i = true) : l.mapM decode = .ok (l.map decodeD) := by
  induction l with
  | nil => rfl
  | cons x xs ih =>
    rw [List.mapM_cons, decode_of_known (h x (by simp)), ih (fun i hi => h i (by simp [hi]))]
    rfl

theorem ofListing_chunks (cs : List (List Instr)) (h : cs.all (fun c => c.all known) = true) :
    Routine.ofListing cs.flatten = .ok (cs.flatten.map decodeD) := by
  apply mapM_decode
  intro i hi
  rw [List.mem_flatten] at hi
  obtain ⟨c, hc, hic⟩ := hi
  rw [List.all_eq_true] at h
  have := h c hc
  rw [List.all_eq_true] at this
  exact this i hic

/-- the decoded listing of `sealAsm` / `openAsm` (with the byte offsets: the branch targets refer to them) -/
def sealR : Routine := Gen.ListAmd64Gcm.sealAsm.map decodeD

theorem known_seal : Gen.ListAmd64Gcm.sealAsm_chunks.all (fun c => c.all known) = true := by decide +kernel

theorem sealR_ok : Routine.ofListing Gen.ListAmd64Gcm.sealAsm = .ok sealR := ofListing_chunks _ known_seal

/-- compare the chunks of a listing, decoded and with the byte offsets erased, with a scheme -/
def eqChunks : List (List Instr) → List DInstr → Bool
  | [], code => code.isEmpty
  | c :: cs, code => (c.map (fun i => erasePc (decodeD i)) == code.take c.length) && c.length ≤ code.length
      && eqChunks cs (code.drop c.length)

theorem eqChunks_sound (cs : List (List Instr)) (code : List DInstr) (h : eqChunks cs code = true) :
    (cs.flatten.map decodeD).map erasePc = code := by
  induction cs generalizing code with
  | nil => simp only [eqChunks, List.isEmpty_iff] at h; subst h; rfl
  | cons c cs ih =>
    simp only [eqChunks, Bool.and_eq_true, beq_iff_eq, decide_eq_true_eq] at h
    obtain ⟨⟨h1, h2⟩, h3⟩ := h
    have := ih _ h3
    rw [List.flatten_cons, List.map_append, List.map_append, this, List.map_map]
    have h1' : List.map (erasePc ∘ decodeD) c = code.take c.length := h1
    rw [h1', List.take_append_drop]

/-- **the regenerated listing of `sealAsm` is the scheme `sealCode`** (byte offsets aside): every one of its 5361
    instructions belongs to a named macro instance -/
theorem seal_scheme : sealR.map erasePc = sealCode :=
  eqChunks_sound _ _ (by decide +kernel : eqChunks Gen.ListAmd64Gcm.sealAsm_chunks sealCode = true)


/-! ### entry points -/

/-- index of the first instruction at byte offset `pc` -/
def idxOfPc : List DInstr → Nat → Nat → Option Nat
  | [], _, _ => none
  | i :: rest, pc, k => if i.pc = pc then some k else idxOfPc rest pc (k + 1)

theorem findPc_of_idx (r : List DInstr) (pc k j : Nat) (h : idxOfPc r pc k = some (k + j)) : findPc r pc = some (r.drop j) := by
  induction r generalizing k j with
  | nil => simp [idxOfPc] at h
  | cons i rest ih =>
    unfold idxOfPc at h
    unfold findPc
    split at h
    · rename_i hp
      rw [if_pos hp]
      have : j = 0 := by simp only [Option.some.injEq] at h; omega
      subst this; rfl
    · rename_i hp
      rw [if_neg hp]
      have hk : ∀ (l : List DInstr) (a b : Nat), idxOfPc l pc a = some b → a ≤ b := by
        intro l
        induction l with
        | nil => intro a b hb; simp [idxOfPc] at hb
        | cons x xs ihx =>
          intro a b hb
          unfold idxOfPc at hb
          split at hb
          · simp only [Option.some.injEq] at hb; omega
          · have := ihx _ _ hb; omega
      have hle := hk _ _ _ h
      obtain ⟨j', rfl⟩ : ∃ j', j = j' + 1 := ⟨j - 1, by omega⟩
      have := ih (k + 1) j' (by rw [h]; congr 1; omega)
      rw [this]; rfl

/-- named entry points: (name, index in the routine, byte offset) -/
def sealLabels : List (String × Nat × Nat) :=
  [("prepare", 0, 0),
   ("rkArg", 18, 117),
   ("H.encrypt", 19, 122),
   ("gHashPre", 549, 3334),
   ("nonceArgs", 628, 3827),
   ("J0", 631, 3842),
   ("J0.hash", 634, 3858),
   ("J0.loopBy4", 642, 3892),
   ("J0.loopBy1", 678, 4113),
   ("J0.last", 708, 4295),
   ("J0.copy8", 713, 4323),
   ("J0.copy4", 721, 4350),
   ("J0.copy2", 729, 4376),
   ("J0.copy1", 737, 4404),
   ("J0.copyEnd", 745, 4430),
   ("J0.doneJ0", 775, 4607),
   ("J0.branch1", 814, 4841),
   ("J0.endJ0", 821, 4882),
   ("TMask.encrypt", 822, 4886),
   ("aadArgs", 1353, 8093),
   ("SPre", 1355, 8103),
   ("SPre.loopWith4", 1364, 8143),
   ("SPre.loopWith1", 1400, 8363),
   ("SPre.withRemain", 1430, 8544),
   ("SPre.copy8", 1435, 8572),
   ("SPre.copy4", 1443, 8598),
   ("SPre.copy2", 1451, 8623),
   ("SPre.copy1", 1459, 8650),
   ("SPre.copyEnd", 1467, 8675),
   ("SPre.endSPre", 1498, 8856),
   ("ladder", 1503, 8878),
   ("loopX16", 1520, 8977),
   ("X16Done", 2205, 13239),
   ("loopX8", 2210, 13265),
   ("X8Done", 2841, 17086),
   ("loopX4", 2846, 17112),
   ("X4Done", 3446, 20733),
   ("loopX2", 3451, 20750),
   ("X2Done", 4048, 24362),
   ("loopX1", 4053, 24379),
   ("X1Done", 4618, 27798),
   ("loopX0", 4623, 27815),
   ("X0.copyIn8", 4630, 27855),
   ("X0.copyIn4", 4638, 27881),
   ("X0.copyIn2", 4646, 27907),
   ("X0.copyIn1", 4654, 27935),
   ("X0.copyInEnd", 4662, 27961),
   ("X0.clearLoop", 5201, 31203),
   ("X0.clearEnd", 5207, 31222),
   ("X0.copyOut8", 5209, 31225),
   ("X0.copyOut4", 5217, 31252),
   ("X0.copyOut2", 5225, 31279),
   ("X0.copyOut1", 5233, 31308),
   ("X0.copyOutEnd", 5241, 31335),
   ("cryptoBlocksDone", 5273, 31520),
   ("SPost", 5280, 31548),
   ("tag.copy8", 5327, 31834),
   ("tag.copy4", 5335, 31861),
   ("tag.copy2", 5343, 31888),
   ("tag.copy1", 5351, 31917),
   ("tag.copyEnd", 5359, 31944)]

/-- the branch targets of a routine -/
def branchTargets (r : Routine) : List Nat :=
  r.filterMap (fun i => match i.ops with | [.target p] => some p | _ => none)

/-- a label table is right for a routine: each label is the byte offset of the FIRST instruction at its index (control
    arriving at that offset continues with exactly the instructions from that index on: `label_findPc`), and every
    branch target of the routine is a label -/
def labelsOk (r : Routine) (ls : List (String × Nat × Nat)) : Bool :=
  ls.all (fun e => idxOfPc r e.2.2 0 == some e.2.1) &&
  (branchTargets r).all (fun t => ls.any (fun e => e.2.2 == t))

theorem label_findPc {r : Routine} {ls : List (String × Nat × Nat)} (h : labelsOk r ls = true)
    {name : String} {idx pc : Nat} (he : (name, idx, pc) ∈ ls) : findPc r pc = some (r.drop idx) := by
  unfold labelsOk at h
  rw [Bool.and_eq_true, List.all_eq_true] at h
  have := h.1 _ he
  simp only [beq_iff_eq] at this
  exact findPc_of_idx r pc 0 idx (by rw [this, Nat.zero_add])

theorem seal_labels : labelsOk sealR sealLabels = true := by decide +kernel

end SMGo.Proofs.ISAVal
