import SMGo.Proofs.ISAValSealCode2
namespace SMGo.Proofs.ISAVal
open SMGo.Model.ISAVal SMGo.Model.ISA

/-! # E1: the two fused routines decoded and decomposed -/

/-- the decoded listing of `sealAsm` / `openAsm` (with the byte offsets: the branch targets refer to them) -/
def sealR : Routine := (Routine.ofListing Gen.ListAmd64Gcm.sealAsm).toOption.getD []
def openR : Routine := (Routine.ofListing Gen.ListAmd64Gcm.openAsm).toOption.getD []

theorem sealR_ok : Routine.ofListing Gen.ListAmd64Gcm.sealAsm = .ok sealR := by
  have h : (Routine.ofListing Gen.ListAmd64Gcm.sealAsm).toOption = some sealR := by decide +kernel
  cases hr : Routine.ofListing Gen.ListAmd64Gcm.sealAsm with
  | error e => rw [hr] at h; simp [Except.toOption] at h
  | ok r => rw [hr] at h; simp only [Except.toOption, Option.some.injEq] at h; rw [h]

theorem openR_ok : Routine.ofListing Gen.ListAmd64Gcm.openAsm = .ok openR := by
  have h : (Routine.ofListing Gen.ListAmd64Gcm.openAsm).toOption = some openR := by decide +kernel
  cases hr : Routine.ofListing Gen.ListAmd64Gcm.openAsm with
  | error e => rw [hr] at h; simp [Except.toOption] at h
  | ok r => rw [hr] at h; simp only [Except.toOption, Option.some.injEq] at h; rw [h]

/-- **the regenerated listing of `sealAsm` is the scheme `sealCode`** (byte offsets aside): every one of its 5361
    instructions belongs to a named macro instance -/
theorem seal_scheme : sealR.map erasePc = sealCode := by decide +kernel

/-- **the regenerated listing of `openAsm` is the scheme `openCode`** (5559 instructions) -/
theorem open_scheme : openR.map erasePc = openCode := by decide +kernel

/-- named entry points: (name, index in the routine, byte offset) -/
def sealLabels : List (String × Nat × Nat) :=
  [("prepare", 0, 0),
   ("rkArg", 18, 117),
   ("H.encrypt", 19, 122),
   ("gHashPre", 549, 3334),
   ("nonceArgs", 628, 3827),
   ("J0", 631, 3842),
   ("J0.hash", 634, 3858),
   ("J0.loopBy4", 642, 3892),
   ("J0.loopBy1", 678, 4113),
   ("J0.last", 708, 4295),
   ("J0.copy8", 713, 4323),
   ("J0.copy4", 721, 4350),
   ("J0.copy2", 729, 4376),
   ("J0.copy1", 737, 4404),
   ("J0.copyEnd", 745, 4430),
   ("J0.doneJ0", 775, 4607),
   ("J0.branch1", 814, 4841),
   ("J0.endJ0", 821, 4882),
   ("TMask.encrypt", 822, 4886),
   ("aadArgs", 1353, 8093),
   ("SPre", 1355, 8103),
   ("SPre.loopWith4", 1364, 8143),
   ("SPre.loopWith1", 1400, 8363),
   ("SPre.withRemain", 1430, 8544),
   ("SPre.copy8", 1435, 8572),
   ("SPre.copy4", 1443, 8598),
   ("SPre.copy2", 1451, 8623),
   ("SPre.copy1", 1459, 8650),
   ("SPre.copyEnd", 1467, 8675),
   ("SPre.endSPre", 1498, 8856),
   ("ladder", 1503, 8878),
   ("loopX16", 1520, 8977),
   ("X16Done", 2205, 13239),
   ("loopX8", 2210, 13265),
   ("X8Done", 2841, 17086),
   ("loopX4", 2846, 17112),
   ("X4Done", 3446, 20733),
   ("loopX2", 3451, 20750),
   ("X2Done", 4048, 24362),
   ("loopX1", 4053, 24379),
   ("X1Done", 4618, 27798),
   ("loopX0", 4623, 27815),
   ("X0.copyIn8", 4630, 27855),
   ("X0.copyIn4", 4638, 27881),
   ("X0.copyIn2", 4646, 27907),
   ("X0.copyIn1", 4654, 27935),
   ("X0.copyInEnd", 4662, 27961),
   ("X0.clearLoop", 5201, 31203),
   ("X0.clearEnd", 5207, 31222),
   ("X0.copyOut8", 5209, 31225),
   ("X0.copyOut4", 5217, 31252),
   ("X0.copyOut2", 5225, 31279),
   ("X0.copyOut1", 5233, 31308),
   ("X0.copyOutEnd", 5241, 31335),
   ("cryptoBlocksDone", 5273, 31520),
   ("SPost", 5280, 31548),
   ("tag.copy8", 5327, 31834),
   ("tag.copy4", 5335, 31861),
   ("tag.copy2", 5343, 31888),
   ("tag.copy1", 5351, 31917),
   ("tag.copyEnd", 5359, 31944)]

def openLabels : List (String × Nat × Nat) :=
  [("prepare", 0, 0),
   ("rkArg", 18, 117),
   ("H.encrypt", 19, 122),
   ("gHashPre", 549, 3334),
   ("nonceArgs", 628, 3827),
   ("J0", 631, 3842),
   ("J0.hash", 634, 3858),
   ("J0.loopBy4", 642, 3892),
   ("J0.loopBy1", 678, 4113),
   ("J0.last", 708, 4295),
   ("J0.copy8", 713, 4323),
   ("J0.copy4", 721, 4350),
   ("J0.copy2", 729, 4376),
   ("J0.copy1", 737, 4404),
   ("J0.copyEnd", 745, 4430),
   ("J0.doneJ0", 775, 4607),
   ("J0.branch1", 814, 4841),
   ("J0.endJ0", 821, 4882),
   ("TMask.encrypt", 822, 4886),
   ("aadArgs", 1353, 8093),
   ("SPre", 1355, 8103),
   ("SPre.loopWith4", 1364, 8143),
   ("SPre.loopWith1", 1400, 8363),
   ("SPre.withRemain", 1430, 8544),
   ("SPre.copy8", 1435, 8572),
   ("SPre.copy4", 1443, 8598),
   ("SPre.copy2", 1451, 8623),
   ("SPre.copy1", 1459, 8650),
   ("SPre.copyEnd", 1467, 8675),
   ("SPre.endSPre", 1498, 8856),
   ("SMid", 1504, 8879),
   ("SMid.loop4", 1512, 8913),
   ("SMid.loop1", 1548, 9133),
   ("SMid.toRemain", 1578, 9314),
   ("SMid.copy8", 1583, 9342),
   ("SMid.copy4", 1591, 9368),
   ("SMid.copy2", 1599, 9393),
   ("SMid.copy1", 1607, 9420),
   ("SMid.copyEnd", 1615, 9445),
   ("postArgs", 1646, 9626),
   ("SPost", 1653, 9656),
   ("tag.copy8", 1700, 9942),
   ("tag.copy4", 1708, 9968),
   ("tag.copy2", 1716, 9994),
   ("tag.copy1", 1724, 10022),
   ("tag.copyEnd", 1732, 10048),
   ("cmp", 1740, 10078),
   ("cmp.fastCmp", 1742, 10092),
   ("cmp.slowCmp", 1751, 10121),
   ("cmp.cmpDone", 1760, 10149),
   ("verdict", 1775, 10193),
   ("decryptArgs", 1778, 10212),
   ("ladder", 1785, 10247),
   ("loopX16", 1802, 10346),
   ("X16Done", 2487, 14608),
   ("loopX8", 2492, 14634),
   ("X8Done", 3123, 18455),
   ("loopX4", 3128, 18481),
   ("X4Done", 3728, 22102),
   ("loopX2", 3733, 22119),
   ("X2Done", 4330, 25731),
   ("loopX1", 4335, 25748),
   ("X1Done", 4900, 29167),
   ("loopX0", 4905, 29184),
   ("X0.copyIn8", 4912, 29224),
   ("X0.copyIn4", 4920, 29250),
   ("X0.copyIn2", 4928, 29276),
   ("X0.copyIn1", 4936, 29304),
   ("X0.copyInEnd", 4944, 29330),
   ("X0.clearLoop", 5483, 32572),
   ("X0.clearEnd", 5489, 32591),
   ("X0.copyOut8", 5491, 32594),
   ("X0.copyOut4", 5499, 32621),
   ("X0.copyOut2", 5507, 32648),
   ("X0.copyOut1", 5515, 32677),
   ("X0.copyOutEnd", 5523, 32704),
   ("cryptoBlocksDone", 5555, 32889),
   ("tagUnMatch", 5557, 32891),
   ("openDone", 5558, 32900)]

/-- the branch targets of a routine -/
def branchTargets (r : Routine) : List Nat :=
  r.filterMap (fun i => match i.ops with | [.target p] => some p | _ => none)

/-- a label table is right for a routine: each label is the byte offset of the instruction at its index, control
    arriving at that offset continues with exactly the instructions from that index on, and every branch target of the
    routine is a label -/
def labelsOk (r : Routine) (ls : List (String × Nat × Nat)) : Bool :=
  ls.all (fun e => findPc r e.2.2 == some (r.drop e.2.1)) &&
  (branchTargets r).all (fun t => ls.any (fun e => e.2.2 == t))

theorem seal_labels : labelsOk sealR sealLabels = true := by decide +kernel
theorem open_labels : labelsOk openR openLabels = true := by decide +kernel

end SMGo.Proofs.ISAVal
