import SMGo.Proofs.ISAValTouchDep
namespace SMGo.Proofs.ISATouch
open SMGo.Model.ISAVal
open SMGo.Model.ISA (Reg Opd Instr)

/-! ### a store changes memory only inside its memory operand -/

/-- every read that does not overlap `[addr, addr + w)` sees the same bytes (and fails the same way) -/
def SameOutside (m m' : List Region) (addr w : Nat) : Prop :=
  ∀ a n, (a + n ≤ addr ∨ addr + w ≤ a) → readMem m' a n = readMem m a n

theorem SameOutside.refl (m : List Region) (addr w : Nat) : SameOutside m m addr w := fun _ _ _ => rfl

theorem SameOutside.trans {m1 m2 m3 : List Region} {addr w : Nat} (h12 : SameOutside m1 m2 addr w)
    (h23 : SameOutside m2 m3 addr w) : SameOutside m1 m3 addr w := fun a n h => (h23 a n h).trans (h12 a n h)

theorem SameOutside.mono {m m' : List Region} {addr w addr' w' : Nat} (h : SameOutside m m' addr' w')
    (h1 : addr ≤ addr') (h2 : addr' + w' ≤ addr + w) : SameOutside m m' addr w :=
  fun a n ha => h a n (by omega)

theorem splice_read (bs new : List Nat) (off o n : Nat) (h : off + new.length ≤ bs.length)
    (hd : o + n ≤ off ∨ off + new.length ≤ o) :
    ((bs.take off ++ new ++ bs.drop (off + new.length)).drop o).take n = (bs.drop o).take n := by
  apply List.ext_getElem?
  intro i
  simp only [List.getElem?_take, List.getElem?_drop]
  split
  · rename_i hi
    rcases hd with hd | hd
    · rw [List.append_assoc, List.getElem?_append_left (by simp; omega), List.getElem?_take, if_pos (by omega)]
    · rw [List.getElem?_append_right (by simp; omega), List.getElem?_drop]
      congr 1
      simp
      omega
  · rfl

theorem writeMem_outside {m m' : List Region} {addr : Nat} {bs : List Nat} (h : writeMem m addr bs = .ok m') :
    SameOutside m m' addr bs.length := by
  unfold writeMem at h
  simp only at h
  split at h
  · cases h
  rename_i hr0
  split at h
  · cases h
  rename_i reg hreg
  split at h
  · cases h
  split at h
  · rename_i hlen
    cases h
    intro a n ha
    unfold readMem
    simp only
    by_cases hr : a / 2 ^ 32 = addr / 2 ^ 32
    · -- the same region
      rw [hr, if_neg hr0, if_neg hr0]
      have hget : (m.set (addr / 2 ^ 32 - 1) ⟨reg.name, reg.bytes.take (addr % 2 ^ 32) ++ bs ++ reg.bytes.drop (addr % 2 ^ 32 + bs.length), true⟩)[addr / 2 ^ 32 - 1]?
          = some ⟨reg.name, reg.bytes.take (addr % 2 ^ 32) ++ bs ++ reg.bytes.drop (addr % 2 ^ 32 + bs.length), true⟩ := by
        rw [List.getElem?_set_self]
        exact (List.getElem?_eq_some_iff.mp hreg).1
      rw [hget, hreg]
      simp only
      have hl : (reg.bytes.take (addr % 2 ^ 32) ++ bs ++ reg.bytes.drop (addr % 2 ^ 32 + bs.length)).length = reg.bytes.length := by
        simp; omega
      rw [hl]
      have hoff : a % 2 ^ 32 + n ≤ addr % 2 ^ 32 ∨ addr % 2 ^ 32 + bs.length ≤ a % 2 ^ 32 := by
        have e1 := Nat.div_add_mod a (2 ^ 32)
        have e2 := Nat.div_add_mod addr (2 ^ 32)
        rw [hr] at e1
        rcases ha with ha | ha
        · left; omega
        · right; omega
      rw [splice_read _ _ _ _ _ hlen hoff]
    · by_cases ha0 : a / 2 ^ 32 = 0
      · rw [if_pos ha0, if_pos ha0]
      · rw [if_neg ha0, if_neg ha0, List.getElem?_set_ne (by omega)]
  · cases h

theorem lanes_length' (w n v : Nat) : (lanes w n v).length = n := by simp [lanes]

theorem storeMasked_outside {s s' : State} {addr k v n : Nat} (h : storeMasked s addr k v n = .ok s') :
    SameOutside s.mem s'.mem addr (4 * n) := by
  unfold storeMasked at h
  suffices H : ∀ (l : List Nat) (s s' : State), (∀ j, j ∈ l → j < n) →
      l.foldlM (fun s j => if (k >>> j) % 2 = 1 then storeLE s (addr + 4 * j) 4 (lane 32 j v) else pure s) s = .ok s' →
      SameOutside s.mem s'.mem addr (4 * n) from H _ s s' (fun j hj => List.mem_range.mp hj) h
  intro l
  induction l with
  | nil => intro s s' _ h; simp only [List.foldlM, pure_ok_iff] at h; subst h; exact SameOutside.refl _ _ _
  | cons j l ih =>
    intro s s' hl h
    simp only [List.foldlM, bind_ok] at h
    obtain ⟨s1, h1, h2⟩ := h
    have hj := hl j (by simp)
    have st1 : SameOutside s.mem s1.mem addr (4 * n) := by
      split at h1
      · obtain ⟨m, hw, rfl⟩ := storeLE_ok.mp h1
        have := writeMem_outside hw
        rw [lanes_length'] at this
        exact this.mono (by omega) (by omega)
      · rw [pure_ok_iff] at h1; subst h1; exact SameOutside.refl _ _ _
    exact st1.trans (ih s1 s' (fun x hx => hl x (by simp [hx])) h2)


theorem nostore_vec3 {mn : Mn} {ops : List Opd} {t : Touch} (h : tVec3 mn ops = some t) : t.store = false := by
  unfold tVec3 at h; split at h <;> (try split at h) <;> first | (cases h; rfl) | cases h
theorem nostore_vecImm {ops : List Opd} {t : Touch} (h : tVecImm ops = some t) : t.store = false := by
  unfold tVecImm at h; split at h <;> first | (cases h; rfl) | cases h
theorem nostore_vecImm2 {ops : List Opd} {t : Touch} (h : tVecImm2 ops = some t) : t.store = false := by
  unfold tVecImm2 at h; split at h <;> first | (cases h; rfl) | cases h
theorem nostore_vmovReg {ops : List Opd} {t : Touch} (h : tVmovReg ops = some t) : t.store = false := by
  unfold tVmovReg at h; split at h <;> first | (cases h; rfl) | cases h
theorem nostore_broadcastD {ops : List Opd} {t : Touch} (h : tBroadcastD ops = some t) : t.store = false := by
  unfold tBroadcastD at h; split at h <;> first | (cases h; rfl) | cases h
theorem nostore_broadcastMem {w : Nat} {ops : List Opd} {t : Touch} (h : tBroadcastMem w ops = some t) : t.store = false := by
  unfold tBroadcastMem at h; split at h <;> first | (cases h; rfl) | cases h
theorem nostore_psllo {ops : List Opd} {t : Touch} (h : tPsllo ops = some t) : t.store = false := by
  unfold tPsllo at h; split at h <;> first | (cases h; rfl) | cases h
theorem nostore_kmovw {ops : List Opd} {t : Touch} (h : tKmovw ops = some t) : t.store = false := by
  unfold tKmovw at h; split at h <;> first | (cases h; rfl) | cases h
theorem nostore_leaq {ops : List Opd} {t : Touch} (h : tLeaq ops = some t) : t.store = false := by
  unfold tLeaq at h; split at h <;> first | (cases h; rfl) | cases h
theorem nostore_cmpq {ops : List Opd} {t : Touch} (h : tCmpq ops = some t) : t.store = false := by
  unfold tCmpq at h; split at h <;> first | (cases h; rfl) | cases h

/-- **store locality**: an instruction with `store` writes memory only inside `[addr, addr + width)`, `addr` the
    effective address of its memory operand -/
theorem touches_store {d : DInstr} {t : Touch} {s s' : State} (ht : touchesOf d = some t) (hst : t.store = true)
    (h : execD s d = .ok s') :
    ∃ b i sc dp addr, t.mem = some (b, i, sc, dp) ∧ effAddr s b i sc dp = .ok addr ∧ SameOutside s.mem s'.mem addr t.width := by
  obtain ⟨pc, mn, ops, vw⟩ := d
  unfold touchesOf at ht
  unfold execD at h
  have hV : ∀ {vl ops t}, tVmovdqu32 vl ops = some t → t.store = true → exVmovdqu32 s vl ops = .ok s' →
      ∃ b i sc dp addr, t.mem = some (b, i, sc, dp) ∧ effAddr s b i sc dp = .ok addr ∧ SameOutside s.mem s'.mem addr t.width := by
    intro vl ops t ht hst h
    unfold tVmovdqu32 at ht
    unfold exVmovdqu32 at h
    split at h
    · cases h
    rename_i hvl
    split at ht
    · cases ht; cases hst
    · cases ht; cases hst
    · cases ht
      simp only [bind_ok] at h
      obtain ⟨addr, hea, av, _, h⟩ := h
      obtain ⟨m, hw, rfl⟩ := storeLE_ok.mp h
      have := writeMem_outside hw
      rw [lanes_length'] at this
      exact ⟨_, _, _, _, addr, rfl, hea, this⟩
    · cases ht
      simp only [bind_ok] at h
      obtain ⟨addr, hea, av, _, kv, _, h⟩ := h
      have hvl' : vl = 16 ∨ vl = 32 ∨ vl = 64 := by
        have : ¬vl = 16 → ¬vl = 32 → vl = 64 := by simpa [validVl] using hvl
        omega
      have := storeMasked_outside h
      exact ⟨_, _, _, _, addr, rfl, hea, this.mono (Nat.le_refl _) (by show addr + 4 * (vl / 4) ≤ addr + vl; omega)⟩
    · cases ht
  have hM : ∀ {mn ops t}, tMov mn ops = some t → t.store = true → exMov s mn ops = .ok s' →
      ∃ b i sc dp addr, t.mem = some (b, i, sc, dp) ∧ effAddr s b i sc dp = .ok addr ∧ SameOutside s.mem s'.mem addr t.width := by
    intro mn ops t ht hst h
    unfold tMov at ht
    unfold exMov at h
    split at ht
    · split at ht
      · cases ht; cases hst
      · cases ht
    · split at ht
      · cases ht; cases hst
      · cases ht
    · split at ht
      · cases ht; cases hst
      · cases ht
    · split at ht
      · cases ht; cases hst
      · cases ht
    · split at ht
      · cases ht; cases hst
      · split at ht
        · cases ht; cases hst
        · cases ht
    · split at ht
      · cases ht; cases hst
      · split at ht
        · cases ht; cases hst
        · cases ht
    · split at ht
      · cases ht; cases hst
      · cases ht
    · cases ht; cases hst
    · cases ht
      simp only [bind_ok] at h
      obtain ⟨addr, hea, v, _, h⟩ := h
      obtain ⟨m, hw, rfl⟩ := storeLE_ok.mp h
      have := writeMem_outside hw
      rw [lanes_length'] at this
      exact ⟨_, _, _, _, addr, rfl, hea, this⟩
    · split at ht
      · cases ht
        rename_i hm
        simp only [if_pos hm, bind_ok] at h
        obtain ⟨addr, hea, h⟩ := h
        obtain ⟨m, hw, rfl⟩ := storeLE_ok.mp h
        have := writeMem_outside hw
        rw [lanes_length'] at this
        exact ⟨_, _, _, _, addr, rfl, hea, this⟩
      · cases ht
    · cases ht
  have hA : ∀ {mn ops t}, tAlu mn ops = some t → t.store = true → exAlu s mn ops = .ok s' →
      ∃ b i sc dp addr, t.mem = some (b, i, sc, dp) ∧ effAddr s b i sc dp = .ok addr ∧ SameOutside s.mem s'.mem addr t.width := by
    intro mn ops t ht hst h
    unfold tAlu at ht
    unfold exAlu at h
    split at ht
    · split at ht
      · cases ht; cases hst
      · split at ht
        · split at ht
          · cases ht
          · cases ht; cases hst
        · cases ht
    · split at ht
      · cases ht; cases hst
      · cases ht
    · split at ht
      · cases ht; cases hst
      · cases ht
    · split at ht
      · cases ht
        rename_i hm
        simp only [if_pos hm, bind_ok] at h
        obtain ⟨addr, hea, src, _, old, _, ⟨r, f⟩, _, h⟩ := h
        obtain ⟨s1, h1, rfl⟩ := withFlags_ok.mp h
        obtain ⟨m, hw, rfl⟩ := storeLE_ok.mp h1
        have := writeMem_outside hw
        rw [lanes_length'] at this
        exact ⟨_, _, _, _, addr, rfl, hea, this⟩
      · cases ht
    · cases ht
  cases mn <;> simp only at ht h
  all_goals first
    | exact hV ht hst h
    | exact hM ht hst h
    | exact hA ht hst h
    | (cases h)
    | (have := nostore_vec3 ht; rw [hst] at this; cases this)
    | (have := nostore_vecImm ht; rw [hst] at this; cases this)
    | (have := nostore_vecImm2 ht; rw [hst] at this; cases this)
    | (have := nostore_vmovReg ht; rw [hst] at this; cases this)
    | (have := nostore_broadcastD ht; rw [hst] at this; cases this)
    | (have := nostore_broadcastMem ht; rw [hst] at this; cases this)
    | (have := nostore_psllo ht; rw [hst] at this; cases this)
    | (have := nostore_kmovw ht; rw [hst] at this; cases this)
    | (have := nostore_leaq ht; rw [hst] at this; cases this)
    | (have := nostore_cmpq ht; rw [hst] at this; cases this)
    | (cases ops with
       | nil => have := nostore_vec3 ht; rw [hst] at this; cases this
       | cons o rest =>
         cases o <;> first
           | (have := nostore_vecImm ht; rw [hst] at this; cases this)
           | (have := nostore_vec3 ht; rw [hst] at this; cases this))
    | (split at ht
       · cases ht; cases hst
       · cases ht)

end SMGo.Proofs.ISATouch
