import SMGo.Proofs.ISAValHelperNE
set_option linter.unusedSimpArgs false
namespace SMGo.Proofs.ISAVal
open SMGo SMGo.Model.ISAVal SMGo.Proofs.ISATouch
open SMGo.Model.ISA (Reg Opd Instr)

/-! ### memory of the entry states of the helper routines: the read-only symbols, then the argument regions `rs` -/

def hmem (rs : List Region) : List Region := (mkState [] [] [] symbols rs []).mem

theorem hmem_get (rs : List Region) (j : Nat) : (hmem rs)[16 + j]? = rs[j]? := by
  unfold hmem mkState
  simp only
  rw [List.getElem?_append_right (by simp [symbols])]
  congr 1
  simp [symbols]

theorem hmem_set (rs : List Region) (j : Nat) (reg : Region) : (hmem rs).set (16 + j) reg = hmem (rs.set j reg) := by
  unfold hmem mkState
  simp only
  rw [List.set_append_right _ _ (by simp [symbols])]
  congr 2
  simp [symbols]

theorem hmem_read (rs : List Region) (j : Nat) (reg : Region) (hreg : rs[j]? = some reg) (off n : Nat)
    (hoff : off + n ≤ reg.bytes.length) (hlt : off < 2 ^ 32) :
    readMem (hmem rs) ((17 + j) * 2 ^ 32 + off) n = .ok ((reg.bytes.drop off).take n) := by
  unfold readMem
  have h1 : ((17 + j) * 2 ^ 32 + off) / 2 ^ 32 = 17 + j := by
    rw [Nat.add_comm, Nat.add_mul_div_right _ _ (by decide), Nat.div_eq_of_lt hlt, Nat.zero_add]
  have h2 : ((17 + j) * 2 ^ 32 + off) % 2 ^ 32 = off := by
    rw [Nat.add_comm, Nat.add_mul_mod_self_right, Nat.mod_eq_of_lt hlt]
  simp only [h1, h2]
  rw [if_neg (by omega), show 17 + j - 1 = 16 + j from by omega, hmem_get, hreg]
  simp only
  rw [if_pos hoff]

theorem hmem_write (rs : List Region) (j : Nat) (reg : Region) (hreg : rs[j]? = some reg) (hw : reg.writable = true) (off : Nat) (bs : List Nat)
    (hoff : off + bs.length ≤ reg.bytes.length) (hlt : off < 2 ^ 32) :
    writeMem (hmem rs) ((17 + j) * 2 ^ 32 + off) bs
      = .ok (hmem (rs.set j ⟨reg.name, reg.bytes.take off ++ bs ++ reg.bytes.drop (off + bs.length), true⟩)) := by
  unfold writeMem
  have h1 : ((17 + j) * 2 ^ 32 + off) / 2 ^ 32 = 17 + j := by
    rw [Nat.add_comm, Nat.add_mul_div_right _ _ (by decide), Nat.div_eq_of_lt hlt, Nat.zero_add]
  have h2 : ((17 + j) * 2 ^ 32 + off) % 2 ^ 32 = off := by
    rw [Nat.add_comm, Nat.add_mul_mod_self_right, Nat.mod_eq_of_lt hlt]
  simp only [h1, h2]
  rw [if_neg (by omega), show 17 + j - 1 = 16 + j from by omega, hmem_get, hreg]
  simp only [hw, Bool.not_true, Bool.false_eq_true, if_false]
  rw [if_pos hoff, hmem_set]

theorem hmem_region (rs : List Region) (name : String) (hsym : ∀ p ∈ symbols, (p.1 == name) = false) (s : State) (h : s.mem = hmem rs) :
    regionBytes s name = (rs.find? (fun r => r.name == name)).map (·.bytes) := by
  unfold regionBytes
  rw [h]
  unfold hmem mkState
  simp only
  rw [List.find?_append]
  have : (symbols.map (fun x => (⟨x.1, x.2, false⟩ : Region))).find? (fun r => r.name == name) = none := by
    rw [List.find?_eq_none]
    intro r hr
    rw [List.mem_map] at hr
    obtain ⟨p, hp, rfl⟩ := hr
    simp [hsym p hp]
  simp only [this, Option.none_or]

end SMGo.Proofs.ISAVal
