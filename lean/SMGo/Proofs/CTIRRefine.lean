/-
  Functional reading of the CT-IR: the VALUE part of the interpreter of SMGo/Model/CTIR.lean (final
  environment and control signal, the leakage trace dropped) satisfies trace-free equations.  The
  refinement proofs (SMGo/Proofs/CTIRRefine*.lean: the run of a generated IR function equals a
  hand-written model function) are symbolic executions with these equations.
-/
import SMGo.Proofs.CTIRSound
namespace SMGo.Model.CTIR

section Values
variable (P : Prog) (G : Nat → Val) (X : Oracle)

/-- value of an expression (trace dropped) -/
def evalV (env : Env) (e : Expr) : Option Val := (evalE G env e).map (·.1)
def evalVs (env : Env) (es : List Expr) : Option (List Val) := (evalEs G env es).map (·.1)
def pathV (env : Env) (p : List PathE) : Option (List Nat) := (evalPath G env p).map (·.1)

/-- final environment and control signal of a statement (trace dropped) -/
def execV (f : Nat) (env : Env) (s : Stmt) : Env × Ctl :=
  ((exec P G X f env s).1, (exec P G X f env s).2.1)

/-- control signal of a run of function `g` (trace dropped) -/
def runV (f : Nat) (g : Nat) (args : List Val) : Ctl := (runT P G X f g args).1

/-! ### expressions -/

@[simp] theorem evalV_lit (env : Env) (n : Int) : evalV G env (.lit n) = some (.int n) := rfl
@[simp] theorem evalV_glob (env : Env) (g : Nat) : evalV G env (.glob g) = some (G g) := rfl
@[simp] theorem evalV_var (env : Env) (x : Nat) : evalV G env (.var x) = some (env x) := rfl

theorem evalV_idx (env : Env) (a i : Expr) :
    evalV G env (.idx a i) =
      match evalV G env a, evalV G env i with
      | some (.arr l), some (.int n) => getIdx l n
      | _, _ => none := by
  simp only [evalV, evalE]
  cases evalE G env a with
  | none => rfl
  | some pa =>
    obtain ⟨va, ta⟩ := pa
    cases evalE G env i with
    | none => cases va <;> rfl
    | some pi =>
      obtain ⟨vi, ti⟩ := pi
      cases va <;> cases vi <;> try rfl
      rename_i l n
      simp only [Option.map_some]
      cases getIdx l n <;> rfl

theorem evalV_idxc (env : Env) (a : Expr) (k : Nat) :
    evalV G env (.idxc a k) =
      match evalV G env a with
      | some (.arr l) => l[k]?
      | _ => none := by
  simp only [evalV, evalE]
  cases evalE G env a with
  | none => rfl
  | some pa =>
    obtain ⟨va, ta⟩ := pa
    cases va <;> try rfl
    rename_i l
    simp only [Option.map_some]
    cases l[k]? <;> rfl

theorem evalV_len (env : Env) (a : Expr) :
    evalV G env (.len a) =
      match evalV G env a with
      | some (.arr l) => some (.int l.length)
      | _ => none := by
  simp only [evalV, evalE]
  cases evalE G env a with
  | none => rfl
  | some pa =>
    obtain ⟨va, ta⟩ := pa
    cases va <;> rfl

theorem evalV_slice (env : Env) (a lo hi : Expr) :
    evalV G env (.slice a lo hi) =
      match evalV G env a, evalV G env lo, evalV G env hi with
      | some (.arr l), some (.int n), some (.int m) => (sliceList l n m).map Val.arr
      | _, _, _ => none := by
  simp only [evalV, evalE]
  cases evalE G env a with
  | none => rfl
  | some pa =>
    obtain ⟨va, ta⟩ := pa
    cases evalE G env lo with
    | none => cases va <;> rfl
    | some pl =>
      obtain ⟨vl, tl⟩ := pl
      cases evalE G env hi with
      | none => cases va <;> cases vl <;> rfl
      | some ph =>
        obtain ⟨vh, th⟩ := ph
        cases va <;> cases vl <;> cases vh <;> try rfl
        rename_i l n m
        simp only [Option.map_some]
        cases sliceList l n m <;> rfl

theorem evalV_mk (env : Env) (n init : Expr) :
    evalV G env (.mk n init) =
      match evalV G env n, evalV G env init with
      | some (.int k), some v => if k < 0 then none else some (.arr (List.replicate k.toNat v))
      | _, _ => none := by
  simp only [evalV, evalE]
  cases evalE G env n with
  | none => rfl
  | some pn =>
    obtain ⟨vn, tn⟩ := pn
    cases evalE G env init with
    | none => cases vn <;> rfl
    | some pi =>
      obtain ⟨vi, ti⟩ := pi
      cases vn <;> try rfl
      rename_i k
      simp only [Option.map_some]
      split <;> rfl

theorem evalV_cat (env : Env) (a b : Expr) :
    evalV G env (.cat a b) =
      match evalV G env a, evalV G env b with
      | some (.arr l1), some (.arr l2) => some (.arr (l1 ++ l2))
      | _, _ => none := by
  simp only [evalV, evalE]
  cases evalE G env a with
  | none => rfl
  | some pa =>
    obtain ⟨va, ta⟩ := pa
    cases evalE G env b with
    | none => cases va <;> rfl
    | some pb =>
      obtain ⟨vb, tb⟩ := pb
      cases va <;> cases vb <;> rfl

theorem evalV_cteq (env : Env) (a b : Expr) :
    evalV G env (.cteq a b) =
      match evalV G env a, evalV G env b with
      | some (.arr l1), some (.arr l2) => (ctEqList l1 l2).map Val.int
      | _, _ => none := by
  simp only [evalV, evalE]
  cases evalE G env a with
  | none => rfl
  | some pa =>
    obtain ⟨va, ta⟩ := pa
    cases evalE G env b with
    | none => cases va <;> rfl
    | some pb =>
      obtain ⟨vb, tb⟩ := pb
      cases va <;> cases vb <;> try rfl
      rename_i l1 l2
      simp only [Option.map_some]
      cases ctEqList l1 l2 <;> rfl

theorem evalV_op1 (env : Env) (o : Op1) (a : Expr) :
    evalV G env (.op1 o a) =
      match evalV G env a with
      | some (.int n) => some (.int (evalOp1 o n))
      | _ => none := by
  simp only [evalV, evalE]
  cases evalE G env a with
  | none => rfl
  | some pa =>
    obtain ⟨va, ta⟩ := pa
    cases va <;> rfl

theorem evalV_op2 (env : Env) (o : Op2) (a b : Expr) :
    evalV G env (.op2 o a b) =
      match evalV G env a, evalV G env b with
      | some (.int n), some (.int m) => (evalOp2 o n m).map Val.int
      | _, _ => none := by
  simp only [evalV, evalE]
  cases evalE G env a with
  | none => rfl
  | some pa =>
    obtain ⟨va, ta⟩ := pa
    cases evalE G env b with
    | none => cases va <;> rfl
    | some pb =>
      obtain ⟨vb, tb⟩ := pb
      cases va <;> cases vb <;> try rfl
      rename_i n m
      simp only [Option.map_some]
      cases evalOp2 o n m <;> rfl

theorem evalV_op3 (env : Env) (o : Op3) (a b c : Expr) :
    evalV G env (.op3 o a b c) =
      match evalV G env a, evalV G env b, evalV G env c with
      | some (.int n), some (.int m), some (.int k) => some (.int (evalOp3 o n m k))
      | _, _, _ => none := by
  simp only [evalV, evalE]
  cases evalE G env a with
  | none => rfl
  | some pa =>
    obtain ⟨va, ta⟩ := pa
    cases evalE G env b with
    | none => cases va <;> rfl
    | some pb =>
      obtain ⟨vb, tb⟩ := pb
      cases evalE G env c with
      | none => cases va <;> cases vb <;> rfl
      | some pc =>
        obtain ⟨vc, tc⟩ := pc
        cases va <;> cases vb <;> cases vc <;> rfl

@[simp] theorem evalVs_nil (env : Env) : evalVs G env [] = some [] := rfl

theorem evalVs_cons (env : Env) (e : Expr) (es : List Expr) :
    evalVs G env (e :: es) =
      match evalV G env e, evalVs G env es with
      | some v, some vs => some (v :: vs)
      | _, _ => none := by
  simp only [evalVs, evalV, evalEs]
  cases evalE G env e with
  | none => rfl
  | some pe =>
    obtain ⟨v, t⟩ := pe
    cases evalEs G env es with
    | none => rfl
    | some ps => rfl

@[simp] theorem pathV_nil (env : Env) : pathV G env [] = some [] := rfl

theorem pathV_c (env : Env) (k : Nat) (p : List PathE) :
    pathV G env (.c k :: p) = (pathV G env p).map (k :: ·) := by
  simp only [pathV, evalPath]
  cases evalPath G env p with
  | none => rfl
  | some pp => rfl

theorem pathV_e (env : Env) (i : Expr) (p : List PathE) :
    pathV G env (.e i :: p) =
      match evalV G env i, pathV G env p with
      | some (.int n), some ks => if n < 0 then none else some (n.toNat :: ks)
      | _, _ => none := by
  simp only [pathV, evalV, evalPath]
  cases evalE G env i with
  | none => rfl
  | some pi =>
    obtain ⟨vi, ti⟩ := pi
    cases evalPath G env p with
    | none => cases vi <;> rfl
    | some pp =>
      obtain ⟨ks, tp⟩ := pp
      cases vi <;> try rfl
      rename_i n
      simp only [Option.map_some]
      split <;> rfl

/-! ### statements -/

variable (f : Nat) (env : Env)

@[simp] theorem execV_zero (s : Stmt) : execV P G X 0 env s = (env, .stuck) := rfl
@[simp] theorem execV_skip : execV P G X (f + 1) env .skip = (env, .norm) := rfl
@[simp] theorem execV_brk : execV P G X (f + 1) env .brk = (env, .brk) := rfl
@[simp] theorem execV_cont : execV P G X (f + 1) env .cont = (env, .cont) := rfl
@[simp] theorem execV_panic : execV P G X (f + 1) env .panic = (env, .panic) := rfl

theorem execV_assign (x : Nat) (p : List PathE) (e : Expr) :
    execV P G X (f + 1) env (.assign x p e) =
      match evalV G env e, pathV G env p with
      | some v, some ks =>
        match updPath (env x) ks v with
        | some n => (env.set x n, .norm)
        | none => (env, .stuck)
      | _, _ => (env, .stuck) := by
  simp only [execV, exec_assign, evalV, pathV]
  cases evalE G env e with
  | none => rfl
  | some pe =>
    obtain ⟨v, t⟩ := pe
    cases evalPath G env p with
    | none => rfl
    | some pp =>
      obtain ⟨ks, tp⟩ := pp
      simp only [Option.map_some]
      cases updPath (env x) ks v <;> rfl

theorem execV_declass (x site : Nat) (e : Expr) :
    execV P G X (f + 1) env (.declass x site e) =
      match evalV G env e with
      | some (.int n) => (env.set x (.int n), .norm)
      | _ => (env, .stuck) := by
  simp only [execV, exec_declass, evalV]
  cases evalE G env e with
  | none => rfl
  | some pe =>
    obtain ⟨v, t⟩ := pe
    cases v <;> rfl

theorem execV_seq (a b : Stmt) :
    execV P G X (f + 1) env (.seq a b) =
      match execV P G X f env a with
      | (env1, .norm) => execV P G X f env1 b
      | r => r := by
  simp only [execV, exec_seq]
  rcases h : exec P G X f env a with ⟨env1, c1, t1⟩
  cases c1 <;> simp [seqK]

theorem execV_ite (c : Expr) (a b : Stmt) :
    execV P G X (f + 1) env (.ite c a b) =
      match evalV G env c with
      | some v =>
        match asBool v with
        | some d => execV P G X f env (if d then a else b)
        | none => (env, .stuck)
      | none => (env, .stuck) := by
  simp only [execV, exec_ite, evalV]
  cases evalE G env c with
  | none => rfl
  | some pc =>
    obtain ⟨v, t⟩ := pc
    simp only [Option.map_some]
    cases asBool v <;> rfl

theorem execV_loop (c : Expr) (body post : Stmt) :
    execV P G X (f + 1) env (.loop c body post) =
      match evalV G env c with
      | some v =>
        match asBool v with
        | some false => (env, .norm)
        | some true =>
          match execV P G X f env body with
          | (env1, .brk) => (env1, .norm)
          | (env1, .ret vs) => (env1, .ret vs)
          | (env1, .panic) => (env1, .panic)
          | (env1, .stuck) => (env1, .stuck)
          | (env1, _) =>
            match execV P G X f env1 post with
            | (env2, .norm) => execV P G X f env2 (.loop c body post)
            | (env2, _) => (env2, .stuck)
        | none => (env, .stuck)
      | none => (env, .stuck) := by
  simp only [execV, exec_loop, evalV]
  cases evalE G env c with
  | none => rfl
  | some pc =>
    obtain ⟨v, t⟩ := pc
    simp only [Option.map_some]
    cases asBool v with
    | none => rfl
    | some d =>
      cases d with
      | false => rfl
      | true =>
        simp only
        rcases hb : exec P G X f env body with ⟨env1, c1, t1⟩
        cases c1 <;> simp only [loopK] <;>
          (rcases hp : exec P G X f env1 post with ⟨env2, c2, t2⟩
           cases c2 <;> simp [postK])

theorem execV_ret (es : List Expr) :
    execV P G X (f + 1) env (.ret es) =
      match evalVs G env es with
      | some vs => (env, .ret vs)
      | none => (env, .stuck) := by
  simp only [execV, exec_ret, evalVs]
  cases evalEs G env es with
  | none => rfl
  | some p => rfl

theorem execV_call (lhs : List Nat) (g : Nat) (args : List Expr) :
    execV P G X (f + 1) env (.call lhs g args) =
      match evalVs G env args, P[g]? with
      | some vs, some fn =>
        if fn.stub || vs.length != fn.nparams then (env, .stuck) else
        match (execV P G X f (Env.ofList vs) fn.body).2 with
        | .ret rs =>
          match env.setMany lhs rs with
          | some env1 => (env1, .norm)
          | none => (env, .stuck)
        | .panic => (env, .panic)
        | _ => (env, .stuck)
      | _, _ => (env, .stuck) := by
  simp only [execV, exec_call, evalVs]
  cases evalEs G env args with
  | none => rfl
  | some pa =>
    obtain ⟨vs, t⟩ := pa
    cases P[g]? with
    | none => rfl
    | some fn =>
      simp only [Option.map_some]
      split
      · rfl
      · rcases hc : exec P G X f (Env.ofList vs) fn.body with ⟨envc, cc, tc⟩
        cases cc <;> simp only [callK] <;> try rfl
        rename_i rs
        cases env.setMany lhs rs <;> rfl

theorem execV_ext (lhs : List Nat) (name : Nat) (leaky : Bool) (args : List Expr) :
    execV P G X (f + 1) env (.ext lhs name leaky args) =
      match evalVs G env args with
      | some vs =>
        match env.setMany lhs (X name vs) with
        | some env1 => (env1, .norm)
        | none => (env, .stuck)
      | none => (env, .stuck) := by
  simp only [execV, exec_ext, evalVs]
  cases evalEs G env args with
  | none => rfl
  | some pa =>
    obtain ⟨vs, t⟩ := pa
    simp only [Option.map_some]
    cases env.setMany lhs (X name vs) <;> rfl

theorem runV_eq (g : Nat) (args : List Val) :
    runV P G X f g args =
      match P[g]? with
      | some fn =>
        if fn.stub || args.length != fn.nparams then .stuck
        else (execV P G X f (Env.ofList args) fn.body).2
      | none => .stuck := by
  simp only [runV, runT, execV]
  cases P[g]? with
  | none => rfl
  | some fn =>
    simp only
    split <;> rfl

/-- more fuel does not change a run that is not stuck -/
theorem execV_mono {f f' : Nat} (hf : f ≤ f') (s : Stmt) (h : (execV P G X f env s).2 ≠ .stuck) :
    execV P G X f' env s = execV P G X f env s := by
  simp only [execV] at h ⊢
  rw [exec_mono_le P G X f f' hf env s h]

theorem runV_mono {f f' : Nat} (hf : f ≤ f') (g : Nat) (args : List Val)
    (h : runV P G X f g args ≠ .stuck) : runV P G X f' g args = runV P G X f g args := by
  simp only [runV] at h ⊢
  rw [runT_mono_le P G X f f' hf g args h]

/-- `run` in terms of the value of the run -/
theorem run_of_runV (g : Nat) (args : List Val) (vs : List Val) (h : runV P G X f g args = .ret vs) :
    ∃ t, run P G X f g args = some (.ret vs, t) := by
  simp only [runV] at h
  unfold run
  rcases hr : runT P G X f g args with ⟨c, t⟩
  rw [hr] at h
  simp only at h
  subst h
  exact ⟨t, rfl⟩

end Values


/-! ## Evaluation judgements with explicit fuel

  `EvIn F env s env' c`: with any fuel ≥ F the statement ends in `(env', c)` (used with `c ≠ stuck`).
  `Stuck env s`: with every fuel the statement is stuck — a Go run-time panic (index or slice out of
  range), which the interpreter does not distinguish from running out of fuel; hence "every fuel". -/

section Judgements
variable (P : Prog) (G : Nat → Val) (X : Oracle)

def EvIn (F : Nat) (env : Env) (s : Stmt) (env' : Env) (c : Ctl) : Prop :=
  ∀ f, F ≤ f → execV P G X f env s = (env', c)

def Stuck (env : Env) (s : Stmt) : Prop := ∀ f, (execV P G X f env s).2 = .stuck

variable {P G X}

theorem EvIn.mono {F F' : Nat} {env env' : Env} {s : Stmt} {c : Ctl} (h : EvIn P G X F env s env' c)
    (hF : F ≤ F') : EvIn P G X F' env s env' c := fun f hf => h f (Nat.le_trans hF hf)

/-- below the bound a run is either stuck or already the final result -/
theorem EvIn.below {F : Nat} {env env' : Env} {s : Stmt} {c : Ctl} (h : EvIn P G X F env s env' c) (f : Nat) :
    (execV P G X f env s).2 = .stuck ∨ execV P G X f env s = (env', c) := by
  by_cases hs : (execV P G X f env s).2 = .stuck
  · exact Or.inl hs
  · right
    have := execV_mono P G X env (Nat.le_max_left f F) s hs
    rw [← this]
    exact h _ (Nat.le_max_right f F)

theorem EvIn.skip (env : Env) : EvIn P G X 1 env .skip env .norm := by
  intro f hf; obtain ⟨f, rfl⟩ := Nat.exists_eq_add_of_le' hf; rfl
theorem EvIn.brk (env : Env) : EvIn P G X 1 env .brk env .brk := by
  intro f hf; obtain ⟨f, rfl⟩ := Nat.exists_eq_add_of_le' hf; rfl
theorem EvIn.cont (env : Env) : EvIn P G X 1 env .cont env .cont := by
  intro f hf; obtain ⟨f, rfl⟩ := Nat.exists_eq_add_of_le' hf; rfl
theorem EvIn.panic (env : Env) : EvIn P G X 1 env .panic env .panic := by
  intro f hf; obtain ⟨f, rfl⟩ := Nat.exists_eq_add_of_le' hf; rfl

theorem EvIn.assign {env : Env} {x : Nat} {e : Expr} {v : Val} (he : evalV G env e = some v) :
    EvIn P G X 1 env (.assign x [] e) (env.set x v) .norm := by
  intro f hf; obtain ⟨f, rfl⟩ := Nat.exists_eq_add_of_le' hf
  rw [execV_assign, he, pathV_nil]
  simp [updPath]

/-- assignment to a component `x[k1]…[kn] = e` -/
theorem EvIn.assignPath {env : Env} {x : Nat} {p : List PathE} {e : Expr} {v n : Val} {ks : List Nat}
    (he : evalV G env e = some v) (hp : pathV G env p = some ks) (hu : updPath (env x) ks v = some n) :
    EvIn P G X 1 env (.assign x p e) (env.set x n) .norm := by
  intro f hf; obtain ⟨f, rfl⟩ := Nat.exists_eq_add_of_le' hf
  rw [execV_assign, he, hp]
  simp [hu]

theorem EvIn.seq {F1 F2 : Nat} {env env1 env2 : Env} {a b : Stmt} {c : Ctl}
    (ha : EvIn P G X F1 env a env1 .norm) (hb : EvIn P G X F2 env1 b env2 c) :
    EvIn P G X (F1 + F2 + 1) env (.seq a b) env2 c := by
  intro f hf; obtain ⟨f, rfl⟩ := Nat.exists_eq_add_of_le' (by omega : 1 ≤ f)
  rw [execV_seq, ha f (by omega)]
  exact hb f (by omega)

theorem EvIn.seq_stop {F1 : Nat} {env env1 : Env} {a b : Stmt} {c : Ctl}
    (ha : EvIn P G X F1 env a env1 c) (hc : c ≠ .norm) :
    EvIn P G X (F1 + 1) env (.seq a b) env1 c := by
  intro f hf; obtain ⟨f, rfl⟩ := Nat.exists_eq_add_of_le' (by omega : 1 ≤ f)
  rw [execV_seq, ha f (by omega)]
  cases c <;> first | rfl | exact absurd rfl hc

theorem EvIn.ite {F : Nat} {env env' : Env} {c : Expr} {a b : Stmt} {ctl : Ctl} {v : Val} {d : Bool}
    (hc : evalV G env c = some v) (hd : asBool v = some d)
    (h : EvIn P G X F env (if d then a else b) env' ctl) :
    EvIn P G X (F + 1) env (.ite c a b) env' ctl := by
  intro f hf; obtain ⟨f, rfl⟩ := Nat.exists_eq_add_of_le' (by omega : 1 ≤ f)
  rw [execV_ite, hc]
  simp only [hd]
  exact h f (by omega)

theorem EvIn.ret {env : Env} {es : List Expr} {vs : List Val} (h : evalVs G env es = some vs) :
    EvIn P G X 1 env (.ret es) env (.ret vs) := by
  intro f hf; obtain ⟨f, rfl⟩ := Nat.exists_eq_add_of_le' hf
  rw [execV_ret, h]

theorem EvIn.loop_exit {env : Env} {c : Expr} {body post : Stmt} {v : Val}
    (hc : evalV G env c = some v) (hd : asBool v = some false) :
    EvIn P G X 1 env (.loop c body post) env .norm := by
  intro f hf; obtain ⟨f, rfl⟩ := Nat.exists_eq_add_of_le' hf
  rw [execV_loop, hc]
  simp only [hd]

/-- one round: the condition holds, the body ends normally (or with `continue`), the post statement
    ends normally, then the rest of the loop -/
theorem EvIn.loop_round {Fb Fp Fl : Nat} {env env1 env2 env3 : Env} {c : Expr} {body post : Stmt}
    {v : Val} {cb ctl : Ctl}
    (hc : evalV G env c = some v) (hd : asBool v = some true)
    (hb : EvIn P G X Fb env body env1 cb) (hcb : cb = .norm ∨ cb = .cont)
    (hp : EvIn P G X Fp env1 post env2 .norm)
    (hl : EvIn P G X Fl env2 (.loop c body post) env3 ctl) :
    EvIn P G X (Fb + Fp + Fl + 1) env (.loop c body post) env3 ctl := by
  intro f hf; obtain ⟨f, rfl⟩ := Nat.exists_eq_add_of_le' (by omega : 1 ≤ f)
  rw [execV_loop, hc]
  simp only [hd]
  rw [hb f (by omega)]
  rcases hcb with rfl | rfl <;> simp only <;> rw [hp f (by omega)] <;> exact hl f (by omega)

/-- the body leaves the loop: `break`, `return`, `panic` -/
theorem EvIn.loop_leave {Fb : Nat} {env env1 : Env} {c : Expr} {body post : Stmt} {v : Val} {cb : Ctl}
    (hc : evalV G env c = some v) (hd : asBool v = some true)
    (hb : EvIn P G X Fb env body env1 cb) (hcb : cb ≠ .norm ∧ cb ≠ .cont ∧ cb ≠ .stuck) :
    EvIn P G X (Fb + 1) env (.loop c body post) env1 (match cb with | .brk => .norm | c => c) := by
  intro f hf; obtain ⟨f, rfl⟩ := Nat.exists_eq_add_of_le' (by omega : 1 ≤ f)
  rw [execV_loop, hc]
  simp only [hd]
  rw [hb f (by omega)]
  obtain ⟨h1, h2, h3⟩ := hcb
  cases cb <;> first | rfl | exact absurd rfl h1 | exact absurd rfl h2 | exact absurd rfl h3

theorem EvIn.call {F : Nat} {env envc env1 : Env} {lhs : List Nat} {g : Nat} {args : List Expr}
    {vs rs : List Val} {fn : Fn}
    (ha : evalVs G env args = some vs) (hg : P[g]? = some fn) (hs : fn.stub = false)
    (hn : vs.length = fn.nparams)
    (hb : EvIn P G X F (Env.ofList vs) fn.body envc (.ret rs)) (hset : env.setMany lhs rs = some env1) :
    EvIn P G X (F + 1) env (.call lhs g args) env1 .norm := by
  intro f hf; obtain ⟨f, rfl⟩ := Nat.exists_eq_add_of_le' (by omega : 1 ≤ f)
  rw [execV_call, ha, hg]
  simp only [hs, hn, bne_self_eq_false, Bool.or_self, Bool.false_eq_true, ↓reduceIte]
  rw [hb f (by omega)]
  simp [hset]

/-! ### stuck runs -/

theorem Stuck.assign {env : Env} {x : Nat} {p : List PathE} {e : Expr} (he : evalV G env e = none) :
    Stuck P G X env (.assign x p e) := by
  intro f
  cases f with
  | zero => rfl
  | succ f => rw [execV_assign, he]

theorem Stuck.seq_left {env : Env} {a b : Stmt} (ha : Stuck P G X env a) : Stuck P G X env (.seq a b) := by
  intro f
  cases f with
  | zero => rfl
  | succ f =>
    rw [execV_seq]
    have := ha f
    rcases h : execV P G X f env a with ⟨e1, c1⟩
    rw [h] at this
    simp only at this
    subst this
    rfl

theorem Stuck.seq_right {F : Nat} {env env1 : Env} {a b : Stmt}
    (ha : EvIn P G X F env a env1 .norm) (hb : Stuck P G X env1 b) : Stuck P G X env (.seq a b) := by
  intro f
  cases f with
  | zero => rfl
  | succ f =>
    rw [execV_seq]
    rcases ha.below f with hs | he
    · rcases h : execV P G X f env a with ⟨e1, c1⟩
      rw [h] at hs
      simp only at hs
      subst hs
      rfl
    · rw [he]
      exact hb f

theorem Stuck.ite {env : Env} {c : Expr} {a b : Stmt} {v : Val} {d : Bool}
    (hc : evalV G env c = some v) (hd : asBool v = some d)
    (h : Stuck P G X env (if d then a else b)) : Stuck P G X env (.ite c a b) := by
  intro f
  cases f with
  | zero => rfl
  | succ f =>
    rw [execV_ite, hc]
    simp only [hd]
    exact h f

theorem Stuck.cond {env : Env} {c : Expr} {a b : Stmt} (hc : evalV G env c = none) :
    Stuck P G X env (.ite c a b) := by
  intro f
  cases f with
  | zero => rfl
  | succ f => rw [execV_ite, hc]

theorem Stuck.ret {env : Env} {es : List Expr} (h : evalVs G env es = none) : Stuck P G X env (.ret es) := by
  intro f
  cases f with
  | zero => rfl
  | succ f => rw [execV_ret, h]

theorem Stuck.loop_body {env : Env} {c : Expr} {body post : Stmt} {v : Val}
    (hc : evalV G env c = some v) (hd : asBool v = some true) (hb : Stuck P G X env body) :
    Stuck P G X env (.loop c body post) := by
  intro f
  cases f with
  | zero => rfl
  | succ f =>
    rw [execV_loop, hc]
    simp only [hd]
    have := hb f
    rcases h : execV P G X f env body with ⟨e1, c1⟩
    rw [h] at this
    simp only at this
    subst this
    rfl

/-- a round completes and the rest of the loop is stuck -/
theorem Stuck.loop_round {Fb Fp : Nat} {env env1 env2 : Env} {c : Expr} {body post : Stmt}
    {v : Val} {cb : Ctl}
    (hc : evalV G env c = some v) (hd : asBool v = some true)
    (hb : EvIn P G X Fb env body env1 cb) (hcb : cb = .norm ∨ cb = .cont)
    (hp : EvIn P G X Fp env1 post env2 .norm)
    (hl : Stuck P G X env2 (.loop c body post)) : Stuck P G X env (.loop c body post) := by
  intro f
  cases f with
  | zero => rfl
  | succ f =>
    rw [execV_loop, hc]
    simp only [hd]
    rcases hb.below f with hs | he
    · rcases h : execV P G X f env body with ⟨e1, c1⟩
      rw [h] at hs
      simp only at hs
      subst hs
      rfl
    · rw [he]
      rcases hp.below f with hs | hpe
      · rcases h : execV P G X f env1 post with ⟨e2, c2⟩
        rw [h] at hs
        simp only at hs
        subst hs
        rcases hcb with rfl | rfl <;> simp only [h]
      · rcases hcb with rfl | rfl <;> simp only [hpe] <;> exact hl f

theorem Stuck.call {env : Env} {lhs : List Nat} {g : Nat} {args : List Expr} {vs : List Val} {fn : Fn}
    (ha : evalVs G env args = some vs) (hg : P[g]? = some fn)
    (hb : Stuck P G X (Env.ofList vs) fn.body) : Stuck P G X env (.call lhs g args) := by
  intro f
  cases f with
  | zero => rfl
  | succ f =>
    rw [execV_call, ha, hg]
    simp only
    split
    · rfl
    · rw [hb f]

/-! ### from statements to runs -/

theorem runV_of_EvIn {F : Nat} {g : Nat} {args : List Val} {fn : Fn} {env' : Env} {c : Ctl}
    (hg : P[g]? = some fn) (hs : fn.stub = false) (hn : args.length = fn.nparams)
    (h : EvIn P G X F (Env.ofList args) fn.body env' c) :
    ∀ f, F ≤ f → runV P G X f g args = c := by
  intro f hf
  rw [runV_eq, hg]
  simp only [hs, hn, bne_self_eq_false, Bool.or_self, Bool.false_eq_true, ↓reduceIte]
  rw [h f hf]

theorem runV_of_Stuck {g : Nat} {args : List Val} {fn : Fn}
    (hg : P[g]? = some fn) (h : Stuck P G X (Env.ofList args) fn.body) :
    ∀ f, runV P G X f g args = .stuck := by
  intro f
  rw [runV_eq, hg]
  simp only
  split
  · rfl
  · exact h f

end Judgements

/-! ## Small facts for symbolic execution -/

@[simp] theorem Env.set_same (env : Env) (x : Nat) (v : Val) : (env.set x v) x = v := by simp [Env.set]
theorem Env.set_other (env : Env) {x y : Nat} (v : Val) (h : y ≠ x) : (env.set x v) y = env y := by
  simp [Env.set, h]

theorem updPath_nil (o v : Val) : updPath o [] v = some v := by simp [updPath]

theorem getIdx_ofNat (l : List Val) (k : Nat) : getIdx l (k : Int) = l[k]? := by
  have h : ¬ ((k : Int) < 0) := by omega
  simp [getIdx, h]

theorem getIdx_neg (l : List Val) {n : Int} (h : n < 0) : getIdx l n = none := by
  simp [getIdx, h]

end SMGo.Model.CTIR
