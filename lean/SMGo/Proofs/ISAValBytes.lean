import SMGo.Proofs.ISAValLanes
import SMGo.Gen.AsmData
namespace SMGo.Proofs.ISAVal
open SMGo.Model.ISAVal

/-- `Shuffle<>` as VMOVDQU32 leaves it in an X register -/
def SHUFv : Nat := unlanes 8 Gen.AsmData.amd64_Shuffle

theorem shuf_bytes : lanes 8 16 (lane 128 0 SHUFv) = Gen.AsmData.amd64_Shuffle := by decide +kernel

theorem lane128_of_lt (v : Nat) (h : v < 2 ^ 128) : lane 128 0 v = v := by
  rw [lane_zero, Nat.mod_eq_of_lt h]

/-- `rev32`: VPSHUFB with `Shuffle<>` on an X register given by its 16 bytes reverses the bytes of each dword -/
theorem x_rev32 (s0 s1 s2 s3 s4 s5 s6 s7 s8 s9 s10 s11 s12 s13 s14 s15 : Nat)
    (hb : ∀ x ∈ [s0, s1, s2, s3, s4, s5, s6, s7, s8, s9, s10, s11, s12, s13, s14, s15], x < 2 ^ 8) :
    vpshufb 16 SHUFv (unlanes 8 [s0, s1, s2, s3, s4, s5, s6, s7, s8, s9, s10, s11, s12, s13, s14, s15])
      = unlanes 8 [s3, s2, s1, s0, s7, s6, s5, s4, s11, s10, s9, s8, s15, s14, s13, s12] := by
  have hlt := unlanes_lt 8 _ hb
  simp only [List.length_cons, List.length_nil] at hlt
  unfold vpshufb
  rw [show 16 / 16 = 1 from rfl, map2_one, lane128_of_lt _ hlt, lanes_unlanes 8 16 _ hb rfl]
  unfold map1
  rw [shuf_bytes]
  simp [Gen.AsmData.amd64_Shuffle, pshufbByte]

end SMGo.Proofs.ISAVal
