import SMGo.Proofs.ISAValWideX2
namespace SMGo.Proofs.ISAVal
open SMGo.Model.ISAVal SMGo.Model.ISA SMGo

/-- what dword lane `j` of the state registers of `cryptoBlockAsmX2` holds after the prologue: lanes 0 and 1 the two
    blocks, lanes 2 and 3 by-products that the epilogue drops -/
def X2w (src : List Nat) (j : Nat) : Nat × Nat × Nat × Nat :=
  if j = 0 then Wblk src 0 else if j = 1 then Wblk src 1
  else if j = 2 then (wordAt src 4, wordAt src 4, wordAt src 12, wordAt src 4)
  else (wordAt src 20, wordAt src 20, wordAt src 28, wordAt src 20)

def x2glueCode : List DInstr := x2proCode.take 11

structure X2GluePost (rk dst0 src : List Nat) (s : State) : Prop where
  lenG : s.gpr.length = 16
  lenV : s.vec.length = 32
  hmem : s.mem = kmem rk dst0 src
  hsyms : s.syms = symTab
  hframe : s.frame = frameTab
  g0 : greg s 0 = 73014444032
  g3 : greg s 3 = 77309411328
  v6 : vreg s 6 = unlanes 8 ((src.drop 0).take 16)
  v7 : vreg s 7 = unlanes 8 ((src.drop 16).take 16)
  v10 : vreg s 10 = PREvl 16
  v11 : vreg s 11 = POSTvl 16
  v12 : vreg s 12 = SHUFvl 16

set_option maxRecDepth 100000 in
set_option maxHeartbeats 1000000 in
theorem x2glue_spec (g v k rk dst0 src : List Nat) (hG : g.length = 16) (hV : v.length = 32) (hsrc : src.length = 32) :
    ∃ s', execList x2glueCode (kernelState g v k rk dst0 src) = .ok s' ∧ X2GluePost rk dst0 src s' := by
  obtain ⟨a0, a1, a2, a3, a4, a5, a6, a7, a8, a9, a10, a11, a12, a13, a14, a15, rfl⟩ := list16 g hG
  obtain ⟨b0, b1, b2, b3, b4, b5, b6, b7, b8, b9, b10, b11, b12, b13, b14, b15, b16, b17, b18, b19, b20, b21, b22, b23, b24, b25, b26, b27, b28, b29, b30, b31, rfl⟩ := list32 v hV
  show ∃ s', execList x2glueCode
      ⟨[a0, a1, a2, a3, a4, a5, a6, a7, a8, a9, a10, a11, a12, a13, a14, a15],
       [b0, b1, b2, b3, b4, b5, b6, b7, b8, b9, b10, b11, b12, b13, b14, b15, b16, b17, b18, b19, b20, b21, b22, b23, b24, b25, b26, b27, b28, b29, b30, b31],
       k, ⟨none, none, none, none⟩, kmem rk dst0 src, symTab, frameTab⟩ = .ok s' ∧ _
  have rS : readMem (kmem rk dst0 src) ((4294967296 + 0 + imm64 0) % 2 ^ 64) 16 = .ok Gen.AsmData.amd64_Shuffle := kmem_read_shuffle ..
  have rPre : readMem (kmem rk dst0 src) ((8589934592 + 0 + imm64 0) % 2 ^ 64) 8 = .ok Gen.AsmData.amd64_PreAffineMatrix := kmem_read_pre ..
  have rPost : readMem (kmem rk dst0 src) ((12884901888 + 0 + imm64 0) % 2 ^ 64) 8 = .ok Gen.AsmData.amd64_PostAffineMatrix := kmem_read_post ..
  have r0 : readMem (kmem rk dst0 src) ((81604378624 + 0 + imm64 0) % 2 ^ 64) 16 = .ok ((src.drop 0).take 16) := by
    have := kmem_read_src rk dst0 src 0 16 (by omega) (by decide)
    rw [show (81604378624 + 0 + imm64 0) % 2 ^ 64 = 81604378624 + 0 from by decide +kernel]; exact this
  have r1 : readMem (kmem rk dst0 src) ((81604378624 + 0 + imm64 ((16 : Nat))) % 2 ^ 64) 16 = .ok ((src.drop 16).take 16) := by
    rw [ea_lit _ _ (by omega)]; exact kmem_read_src rk dst0 src 16 16 (by omega) (by omega)
  apply Exists.intro
  apply And.intro
  · simp only [x2glueCode, x2proCode, List.cons_append, List.take_succ_cons, List.take_zero]
    apply exec_step
    · exact execD_leaq (hs := symTab_shuffle) (hd := by simp) ..
    apply exec_step
    · exact execD_vmov_load (hvl := by rfl) (hb := by rfl) (hd := by simp) (hload := rS) ..
    apply exec_step
    · exact execD_movq_frame (hs := frame_src) (hd := by simp) ..
    apply exec_step
    · exact execD_vmov_load (hvl := by rfl) (hb := by rfl) (hd := by simp) (hload := r0) ..
    apply exec_step
    · exact execD_vmov_load (hvl := by rfl) (hb := by rfl) (hd := by simp) (hload := r1) ..
    apply exec_step
    · exact execD_leaq (hs := symTab_pre) (hd := by simp) ..
    apply exec_step
    · exact execD_leaq (hs := symTab_post) (hd := by simp) ..
    apply exec_step
    · exact execD_broadcast_x2 (hvl := by rfl) (hb := by rfl) (hd := by simp) (hload := rPre) ..
    apply exec_step
    · exact execD_broadcast_x2 (hvl := by rfl) (hb := by rfl) (hd := by simp) (hload := rPost) ..
    apply exec_step
    · exact execD_movq_frame (hs := frame_rk) (hd := by simp) ..
    apply exec_step
    · exact execD_movq_frame (hs := frame_dst) (hd := by simp) ..
    exact execList_nil _
  · simp only [List.set_cons_succ, List.set_cons_zero]
    exact ⟨rfl, rfl, rfl, rfl, rfl, rfl, rfl, rfl, rfl, rfl, rfl, shufvl_16.symm⟩

theorem x2pro_split : x2proCode = x2glueCode ++ x2midCode 16 := by
  unfold x2glueCode x2proCode
  rw [List.take_left' (by rfl)]

theorem wordAt_loaded (src : List Nat) (hsb : ∀ x ∈ src, x < 2 ^ 8) (a t : Nat) (ht : t < 4) (hl : a + 16 ≤ src.length) :
    bswap32 (lane 32 t (unlanes 8 ((src.drop a).take 16))) = wordAt src (a + 4 * t) := by
  rw [lane32_loaded src hsb a 16 t (by omega) hl]; rfl

/-- the prologue of `cryptoBlockAsmX2` -/
theorem x2pro_spec (g v k rk dst0 src : List Nat)
    (hG : g.length = 16) (hV : v.length = 32) (hsrc : src.length = 32) (hsb : ∀ x ∈ src, x < 2 ^ 8) :
    ∃ s', execList x2proCode (kernelState g v k rk dst0 src) = .ok s' ∧
      ReadyL 16 (kmem rk dst0 src) symTab frameTab 73014444032 77309411328 (SHUFvl 16) 0 (X2w src) s' := by
  obtain ⟨s1, hrun1, p1⟩ := x2glue_spec g v k rk dst0 src hG hV hsrc
  obtain ⟨s2, hrun2, f2, m2⟩ := x2mid_spec 16 (by decide) s1 p1.lenV p1.v12
  refine ⟨s2, ?_, ?_⟩
  · rw [x2pro_split]; exact execList_append_ok hrun1 hrun2
  have a := fun t ht => wordAt_loaded src hsb 0 t ht (by omega)
  have b := fun t ht => wordAt_loaded src hsb 16 t ht (by omega)
  have hj : ∀ j, j < 16 / 4 → j = 0 ∨ j = 1 ∨ j = 2 ∨ j = 3 := by intro j hj; omega
  have m6 := m2.v6; have m7 := m2.v7; have m8 := m2.v8; have m9 := m2.v9
  rw [p1.v6, p1.v7, a 0 (by decide), a 1 (by decide), b 0 (by decide), b 1 (by decide)] at m6
  rw [p1.v6, p1.v7, a 1 (by decide), b 1 (by decide)] at m7
  rw [p1.v6, p1.v7, a 2 (by decide), a 3 (by decide), b 2 (by decide), b 3 (by decide)] at m8
  rw [p1.v6, p1.v7, a 1 (by decide), a 3 (by decide), b 1 (by decide), b 3 (by decide)] at m9
  constructor
  · rw [f2.gpr]; exact p1.lenG
  · exact f2.lenV
  · rw [f2.mem, p1.hmem]
  · rw [f2.syms, p1.hsyms]
  · rw [f2.frame, p1.hframe]
  · rw [wframe_greg f2, p1.g0]
  · rw [wframe_greg f2, p1.g3]
  · rw [f2.v10, p1.v10]
  · rw [f2.v11, p1.v11]
  · rw [f2.v12, p1.v12]
  · intro j hjl
    show lane 32 j (vreg s2 6) = (X2w src j).1
    rcases hj j hjl with rfl | rfl | rfl | rfl
    · exact m6.1
    · exact m6.2.1
    · exact m6.2.2.1
    · exact m6.2.2.2
  · intro j hjl
    show lane 32 j (vreg s2 7) = (X2w src j).2.1
    rcases hj j hjl with rfl | rfl | rfl | rfl
    · exact m7.1
    · exact m7.2.1
    · exact m7.2.2.1
    · exact m7.2.2.2
  · intro j hjl
    show lane 32 j (vreg s2 8) = (X2w src j).2.2.1
    rcases hj j hjl with rfl | rfl | rfl | rfl
    · exact m8.1
    · exact m8.2.1
    · exact m8.2.2.1
    · exact m8.2.2.2
  · intro j hjl
    show lane 32 j (vreg s2 9) = (X2w src j).2.2.2
    rcases hj j hjl with rfl | rfl | rfl | rfl
    · exact m9.1
    · exact m9.2.1
    · exact m9.2.2.1
    · exact m9.2.2.2


theorem reg_out2 (V : Nat) (Q : Nat × Nat × Nat × Nat)
    (h0 : lane 32 0 V = bswap32 Q.2.2.2) (h1 : lane 32 1 V = bswap32 Q.2.2.1) (h2 : lane 32 2 V = bswap32 Q.2.1)
    (h3 : lane 32 3 V = bswap32 Q.1) : lanes 8 16 V = encQ Q := by
  have h := lanes_dwords 4 V
  simp only [List.range_succ, List.range_zero, List.nil_append, List.flatMap_cons, List.flatMap_nil, List.cons_append,
    List.append_nil, h0, h1, h2, h3, lanes_bswap32] at h
  exact h

/-- the epilogue of `cryptoBlockAsmX2` -/
theorem x2epi_spec (rk dst0 src : List Nat) (X : Nat → Nat × Nat × Nat × Nat) (s : State) (hdst : dst0.length = 32)
    (h : ReadyL 16 (kmem rk dst0 src) symTab frameTab 73014444032 77309411328 (SHUFvl 16) 32 X s) :
    ∃ s', execList x2epiCode s = .ok s' ∧ s'.mem = kmem rk (encQ (X 0) ++ encQ (X 1)) src := by
  obtain ⟨s1, hrun1, f1, e1⟩ := x2end_spec 16 (by decide) s h.lenV h.v12
  have x0 := h.x0; have x1 := h.x1; have x2 := h.x2; have x3 := h.x3
  rw [show sreg 32 0 = 6 from rfl] at x0
  rw [show sreg 32 1 = 7 from rfl] at x1
  rw [show sreg 32 2 = 8 from rfl] at x2
  rw [show sreg 32 3 = 9 from rfl] at x3
  have e9 := e1.v9; have e8 := e1.v8
  rw [x0 0 (by decide), x1 0 (by decide), x2 0 (by decide), x3 0 (by decide)] at e9
  rw [x0 1 (by decide), x1 1 (by decide), x2 1 (by decide), x3 1 (by decide)] at e8
  have o9 : lanes 8 16 (vreg s1 9) = encQ (X 0) := reg_out2 _ _ e9.1 e9.2.1 e9.2.2.1 e9.2.2.2
  have o8 : lanes 8 16 (vreg s1 8) = encQ (X 1) := reg_out2 _ _ e8.1 e8.2.1 e8.2.2.1 e8.2.2.2
  have hG1 : s1.gpr.length = 16 := by rw [f1.gpr]; exact h.lenG
  have hg3 : greg s1 3 = 77309411328 := by rw [wframe_greg f1, h.g3]
  have hmem1 : s1.mem = kmem rk ([] ++ dst0) src := by rw [f1.mem, h.hmem]; rfl
  have st1 := store_step 16 9 0 0 (by decide) s1 rk [] dst0 src hG1 f1.lenV (by decide) hmem1 hg3 rfl (by decide)
    (by omega) (by decide +kernel)
  have st2 := store_step 16 8 16 ((16 : Nat)) (by decide)
    (setMem s1 (kmem rk (([] ++ lanes 8 16 (vreg s1 9)) ++ dst0.drop 16) src)) rk ([] ++ lanes 8 16 (vreg s1 9)) (dst0.drop 16) src
    hG1 f1.lenV (by decide) rfl hg3 (by simp [lanes_length]) (by decide) (by rw [List.length_drop]; omega) (ea_lit _ _ (by decide))
  apply Exists.intro
  apply And.intro
  · unfold x2epiCode
    apply execList_append_ok hrun1
    apply exec_step st1
    apply exec_step st2
    exact execList_nil _
  · show kmem rk _ src = _
    simp only [vreg_setMem, List.drop_drop, List.nil_append]
    rw [List.drop_eq_nil_of_le (by omega), List.append_nil, o9, o8]

/-- the straight-line body of `cryptoBlockAsmX2` -/
theorem x2_body_spec (g v k rk dst0 src : List Nat)
    (hg : g.length = 16) (hv : v.length = 32) (hrk : rk.length = 32) (hrkb : ∀ x ∈ rk, x < 2 ^ 32)
    (hsrc : src.length = 32) (hsb : ∀ x ∈ src, x < 2 ^ 8) (hdst : dst0.length = 32) :
    ∃ s', execList x2Code (kernelState g v k rk dst0 src) = .ok s' ∧
      regionBytes s' "dst" = some (cryptBlocks rk src 2) := by
  obtain ⟨s1, hrun1, hr1⟩ := x2pro_spec g v k rk dst0 src hg hv hsrc hsb
  obtain ⟨s2, hrun2, hr2⟩ := readyL_rounds 16 (by decide) (kmem rk dst0 src) symTab frameTab 73014444032 77309411328 (SHUFvl 16)
    (fun i => lanes 8 4 (rk.getD i 0)) (by decide) (fun i hi => kmem_read_rk rk dst0 src hrk i hi)
    (fun i _ => by rw [unlanes_lanes]; exact Nat.mod_lt _ (by decide)) _ s1 hr1 32 (Nat.le_refl _)
  have hkw : (fun i => unlanes 8 (lanes 8 4 (rk.getD i 0))) = (fun i => rk.getD i 0) := by
    funext i
    rw [unlanes_lanes]; exact Nat.mod_eq_of_lt (getD_lt rk hrkb i)
  obtain ⟨s3, hrun3, hmem3⟩ := x2epi_spec rk dst0 src _ s2 hdst hr2
  refine ⟨s3, ?_, ?_⟩
  · unfold x2Code; exact execList_append_ok (execList_append_ok hrun1 hrun2) hrun3
  · obtain ⟨g3, v3, k3, fl3, m3, sy3, fr3⟩ := s3
    simp only at hmem3
    subst hmem3
    rw [kmem_region_dst]
    refine congrArg some ?_
    rw [hkw, iterN_take rk _ 32 (by omega), iterN_take rk _ 32 (by omega), List.take_of_length_le (by omega),
      show X2w src 0 = Wblk src 0 from rfl, show X2w src 1 = Wblk src 1 from rfl,
      encQ_eq_spec rk src hrkb hsb 0 (by omega), encQ_eq_spec rk src hrkb hsb 1 (by omega)]
    rfl

/-- **the listing of `cryptoBlockAsmX2` computes the SM4 block function of the specification on each of the two
    blocks** -/
theorem kernelX2_eq_spec (g v k rk dst0 src : List Nat)
    (hg : g.length = 16) (hv : v.length = 32) (hrk : rk.length = 32) (hrkb : ∀ x ∈ rk, x < 2 ^ 32)
    (hsrc : src.length = 32) (hsb : ∀ x ∈ src, x < 2 ^ 8) (hdst : dst0.length = 32) :
    runDst Gen.ListAmd64Asm.cryptoBlockAsmX2 2000 (kernelState g v k rk dst0 src) = .ok (cryptBlocks rk src 2) := by
  obtain ⟨s', hrun, hdstv⟩ := x2_body_spec g v k rk dst0 src hg hv hrk hrkb hsrc hsb hdst
  unfold runDst
  rw [run_of_decode _ x2Code x2_decode x2_noControl 2000 (by rw [x2_length]; decide) _ s' hrun]
  simp only [ok_bind, hdstv]
  rfl

end SMGo.Proofs.ISAVal
