/-
  C08: the CT-IR label checker (SMGo/Model/CTIR.lean) evaluated by the kernel on the generated program
  (SMGo/Gen/CTIRProg.lean), part B (the Fiat-Crypto primitives of both fields: checked, and straight-line: no event except `call`).  `check (slice prog f) sigs f = true` says: every function reachable
  from `f` respects its label signature (no secret reaches a branch or loop condition, an index, a slice
  bound, an allocation size, a shift count or a leaking external call; declassification only at the
  sites listed in its signature).  By `check_sound` (SMGo/Proofs/CTIRSound.lean) two runs of `f` on inputs
  that agree on the public parameters then leak the same trace, up to the declassified verdicts.
-/
import SMGo.Gen.CTIRProg
open SMGo.Model.CTIR SMGo.Gen.CTIRProg
set_option maxRecDepth 1000000
namespace SMGo.Proofs.CTIRCheck

theorem ct_sm2Mul : check (slice prog f_fiat_sm2Mul) sigs f_fiat_sm2Mul = true := by decide +kernel
theorem ct_sm2Square : check (slice prog f_fiat_sm2Square) sigs f_fiat_sm2Square = true := by decide +kernel
theorem ct_sm2Add : check (slice prog f_fiat_sm2Add) sigs f_fiat_sm2Add = true := by decide +kernel
theorem ct_sm2Sub : check (slice prog f_fiat_sm2Sub) sigs f_fiat_sm2Sub = true := by decide +kernel
theorem ct_sm2Opp : check (slice prog f_fiat_sm2Opp) sigs f_fiat_sm2Opp = true := by decide +kernel
theorem ct_sm2FromMontgomery : check (slice prog f_fiat_sm2FromMontgomery) sigs f_fiat_sm2FromMontgomery = true := by decide +kernel
theorem ct_sm2ToMontgomery : check (slice prog f_fiat_sm2ToMontgomery) sigs f_fiat_sm2ToMontgomery = true := by decide +kernel
theorem ct_sm2ToBytes : check (slice prog f_fiat_sm2ToBytes) sigs f_fiat_sm2ToBytes = true := by decide +kernel
theorem ct_sm2FromBytes : check (slice prog f_fiat_sm2FromBytes) sigs f_fiat_sm2FromBytes = true := by decide +kernel
theorem ct_sm2SetOne : check (slice prog f_fiat_sm2SetOne) sigs f_fiat_sm2SetOne = true := by decide +kernel
theorem ct_sm2Selectznz : check (slice prog f_fiat_sm2Selectznz) sigs f_fiat_sm2Selectznz = true := by decide +kernel
theorem ct_sm2CmovznzU64 : check (slice prog f_fiat_sm2CmovznzU64) sigs f_fiat_sm2CmovznzU64 = true := by decide +kernel
theorem ct_sm2ScalarMul : check (slice prog f_fiat_sm2ScalarMul) sigs f_fiat_sm2ScalarMul = true := by decide +kernel
theorem ct_sm2ScalarSquare : check (slice prog f_fiat_sm2ScalarSquare) sigs f_fiat_sm2ScalarSquare = true := by decide +kernel
theorem ct_sm2ScalarAdd : check (slice prog f_fiat_sm2ScalarAdd) sigs f_fiat_sm2ScalarAdd = true := by decide +kernel
theorem ct_sm2ScalarSub : check (slice prog f_fiat_sm2ScalarSub) sigs f_fiat_sm2ScalarSub = true := by decide +kernel
theorem ct_sm2ScalarOpp : check (slice prog f_fiat_sm2ScalarOpp) sigs f_fiat_sm2ScalarOpp = true := by decide +kernel
theorem ct_sm2ScalarFromMontgomery : check (slice prog f_fiat_sm2ScalarFromMontgomery) sigs f_fiat_sm2ScalarFromMontgomery = true := by decide +kernel
theorem ct_sm2ScalarToMontgomery : check (slice prog f_fiat_sm2ScalarToMontgomery) sigs f_fiat_sm2ScalarToMontgomery = true := by decide +kernel
theorem ct_sm2ScalarToBytes : check (slice prog f_fiat_sm2ScalarToBytes) sigs f_fiat_sm2ScalarToBytes = true := by decide +kernel
theorem ct_sm2ScalarFromBytes : check (slice prog f_fiat_sm2ScalarFromBytes) sigs f_fiat_sm2ScalarFromBytes = true := by decide +kernel
theorem ct_sm2ScalarSetOne : check (slice prog f_fiat_sm2ScalarSetOne) sigs f_fiat_sm2ScalarSetOne = true := by decide +kernel
theorem ct_sm2ScalarSelectznz : check (slice prog f_fiat_sm2ScalarSelectznz) sigs f_fiat_sm2ScalarSelectznz = true := by decide +kernel
theorem ct_sm2ScalarCmovznzU64 : check (slice prog f_fiat_sm2ScalarCmovznzU64) sigs f_fiat_sm2ScalarCmovznzU64 = true := by decide +kernel

/-! the same primitives are straight-line code with constant indices: their trace is a fixed list of `call` events -/
theorem sl_sm2Mul : straight prog f_fiat_sm2Mul = true := by decide +kernel
theorem sl_sm2Square : straight prog f_fiat_sm2Square = true := by decide +kernel
theorem sl_sm2Add : straight prog f_fiat_sm2Add = true := by decide +kernel
theorem sl_sm2Sub : straight prog f_fiat_sm2Sub = true := by decide +kernel
theorem sl_sm2Opp : straight prog f_fiat_sm2Opp = true := by decide +kernel
theorem sl_sm2FromMontgomery : straight prog f_fiat_sm2FromMontgomery = true := by decide +kernel
theorem sl_sm2ToMontgomery : straight prog f_fiat_sm2ToMontgomery = true := by decide +kernel
theorem sl_sm2ToBytes : straight prog f_fiat_sm2ToBytes = true := by decide +kernel
theorem sl_sm2FromBytes : straight prog f_fiat_sm2FromBytes = true := by decide +kernel
theorem sl_sm2SetOne : straight prog f_fiat_sm2SetOne = true := by decide +kernel
theorem sl_sm2Selectznz : straight prog f_fiat_sm2Selectznz = true := by decide +kernel
theorem sl_sm2CmovznzU64 : straight prog f_fiat_sm2CmovznzU64 = true := by decide +kernel
theorem sl_sm2ScalarMul : straight prog f_fiat_sm2ScalarMul = true := by decide +kernel
theorem sl_sm2ScalarSquare : straight prog f_fiat_sm2ScalarSquare = true := by decide +kernel
theorem sl_sm2ScalarAdd : straight prog f_fiat_sm2ScalarAdd = true := by decide +kernel
theorem sl_sm2ScalarSub : straight prog f_fiat_sm2ScalarSub = true := by decide +kernel
theorem sl_sm2ScalarOpp : straight prog f_fiat_sm2ScalarOpp = true := by decide +kernel
theorem sl_sm2ScalarFromMontgomery : straight prog f_fiat_sm2ScalarFromMontgomery = true := by decide +kernel
theorem sl_sm2ScalarToMontgomery : straight prog f_fiat_sm2ScalarToMontgomery = true := by decide +kernel
theorem sl_sm2ScalarToBytes : straight prog f_fiat_sm2ScalarToBytes = true := by decide +kernel
theorem sl_sm2ScalarFromBytes : straight prog f_fiat_sm2ScalarFromBytes = true := by decide +kernel
theorem sl_sm2ScalarSetOne : straight prog f_fiat_sm2ScalarSetOne = true := by decide +kernel
theorem sl_sm2ScalarSelectznz : straight prog f_fiat_sm2ScalarSelectznz = true := by decide +kernel
theorem sl_sm2ScalarCmovznzU64 : straight prog f_fiat_sm2ScalarCmovznzU64 = true := by decide +kernel

end SMGo.Proofs.CTIRCheck
