/-
  Refinement of the regenerated IR of the amd64 GCM Go glue (SMGo/Gen/CTIRProgSM4.lean, namespace Amd64:
  /repo/sm4/sm4_gcm_amd64.go) to the SPECIFICATION `Spec.GCM.sealGCM` / `Spec.GCM.openGCM`, for an oracle that answers
  the assembly routines as specified.

    fn_0  sm4.sm4GcmAsm.Seal       `ir_Seal_amd64_eq_spec`   (panics: `ir_Seal_amd64_panic_nonce`, `…_panic_long`;
                                                              index panic: `ir_Seal_amd64_stuck_empty`)
    fn_1  sm4.ensureCapacity       `ensureCapacity_amd64_computes`
    fn_2  sm4.sm4GcmAsm.Open       `ir_Open_amd64_eq_spec`   (outside the AEAD domain: `ir_Open_amd64_too_long`;
                                                              panics: `ir_Open_amd64_panic_nonce`, `…_panic_tag`)

  On amd64 the Go glue is small: Seal / Open check lengths, call `ensureCapacity` (leaves `needExpand`, `copyAsm`) and
  ONE fused routine `sealAsm` / `openAsm` whose specification is the whole of Algorithm 4 / 5 of SP 800-38D
  (Props/C06AsmSeal `sealAsm_eq_spec`, Props/C07Asm `openAsm_eq_spec` about the amd64 listings).

  INTERFACE.  `LeafOkAmd64 O E rk`: what the oracle `O` answers for the routines the glue calls, on byte values, in the
  exact argument shapes of the IR calls.  `LeafSpecAmd64 sem E rk := LeafOkAmd64 (asmOracle Amd64.asmSpecs sem) E rk`.
  INHABITANT (`rkw ≠ []`): `leafSpecAmd64_sem rkw hrk : LeafSpecAmd64 semAmd64 (Spec.SM4.cryptFast rkw) (.arr (rkw.map w32V))` where
  `semAmd64` is the amd64 part of the driver's reference semantics (Driver/CTIRSM4.lean `sem`), by routine NUMBER.

  FUELS: `fuelEnsAmd64 = 22`, `fuelSealAmd64 = 48`, `fuelOpenAmd64 = 64` (constants: no loop in the glue).
  BOUNDS CHECKS of `&a[i]` (pointer arguments of the routines; in the IR an element read into the blank variable, STUCK
  when out of range like any Go index panic) and what each needs:
    `&g.roundKeys[0]`  (sealAsm, openAsm)  the round-key array is not empty: field `rk_ne` of `LeafOkAmd64`;
    `&ret[len(dst)]`   (sealAsm)           0 < |pt| + tagSize: hypothesis `hne` of Seal (weaker than NewGCM's 12 ≤ tagSize;
                                           otherwise STUCK: `ir_Seal_amd64_stuck_empty`);
    `&ret[len(dst)]`   (openAsm)           guarded by `len(ret) > len(dst)` (line 46), else nil is passed: no hypothesis;
                                           the MUTANT `>=` is stuck on a tag-only input (`ir_Open_amd64_mutant_stuck`)
                                           where `fn_2` returns `(dst, nil)` (`ir_Open_amd64_tag_only`);
    `&temp[0]`         (sealAsm, openAsm)  `temp` is a `[32]byte`: always in range;
    `&head[0]`, `&array[0]` (copyAsm)      guarded by `arrayLen != 0`, |head| = arrayLen + asked: always in range.
  `nonce`, the text and `additionalData` are passed as SLICES (no `&x[0]`): they may be empty, no hypothesis.
  HYPOTHESES of the main theorems: `nonce.length = nonceSize` (else panic), text inside the GCM bound (Seal: else panic;
  Open: else `(nil, errOpen)`, stated separately since `openGCM` has no bound), `tagSize ≤ 16` (Seal) / `12 ≤ tagSize ≤ 16`
  (Open; below 12: panic) — what `NewGCM` (fn_6) enforces —, `len(dst) ≤ cap(dst) < 2^62` (Go: a capacity is an `int` and
  no allocation exceeds 2^48 bytes).  No model/IR disagreement inside this domain.
  REMARKS.  (1) values, not memory: `ensureCapacity` extends `dst` by ZERO bytes (Go: inside the capacity, the old bytes of
  the backing array), all of them overwritten by `sealAsm` / on success by `openAsm`; overlap of `dst` with the text (the
  in-place calls) is outside the value-level IR (Props/C06AsmSeal `sealAsm_inplace_eq_spec`, C07Asm
  `openAsm_inplace_eq_spec` treat it on the listings).  (2) for `tagSize > 16` the routine's specification does not apply
  (|sealGCM| = |pt| + 16 < |pt| + tagSize): excluded by `tagSize ≤ 16`.  (3) Go's `nil` result is `.arr []`.
  GLOBAL: `Amd64.globals 0 = .int 1` (`globals0`: errOpen, a non-nil error).
  Core Lean only.
-/
import SMGo.Proofs.CTIRRefineSign
import SMGo.Gen.CTIRProgSM4
import SMGo.Proofs.GCMGlueSpec
import SMGo.Spec.SM4Fast
open SMGo SMGo.Model.CTIR SMGo.Proofs.CTIRRefineUtils
open SMGo.Proofs.CTIRRefineField (Computes)
open SMGo.Proofs.CTIRRefineComb (evIn_ext)
open SMGo.Proofs.CTIRRefineSign (evalV_catB evalV_lenB evalV_mkBytes evalV_sliceB evar ext1)
open SMGo.Spec.GCM
open SMGo.Gen.CTIRProgSM4.Amd64 (fn_0 fn_1 fn_2)

namespace SMGo.Proofs.CTIRRefineGCMAmd64

/-- the amd64 glue program, its globals and the table of its externals -/
abbrev PX : Prog := SMGo.Gen.CTIRProgSM4.Amd64.prog
abbrev GX : Nat → Val := SMGo.Gen.CTIRProgSM4.Amd64.globals
abbrev specsX : List AsmSpec := SMGo.Gen.CTIRProgSM4.Amd64.asmSpecs

/-- the plaintext bound of Seal / Open: ((1<<32)-2)·16 bytes -/
def maxPlain : Nat := 68719476704

/-! ## The interface: what the routines compute, on the answers of the oracle -/

/-- **the leaf specifications of the amd64 glue.**  `rk` is the value of the receiver's `roundKeys` (the glue passes
    `&g.roundKeys[0]`), `E` the block function it determines.  External numbers: 0 frame record, 1 `copyAsm`,
    9 `needExpand`, 10 `openAsm`, 11 `sealAsm`.  A routine returns the new contents of its destination arguments
    (`asmOracle`): `sealAsm` / `openAsm` return `dst` and the scratch array `temp` (whose new contents are unspecified),
    `openAsm` also its integer result. -/
structure LeafOkAmd64 (O : Oracle) (E : Bytes → Bytes) (rk : Val) : Prop where
  /-- a block is 16 bytes -/
  E_len : ∀ b, (E b).length = 16
  /-- the round-key array is not empty: Go takes `&g.roundKeys[0]` (an index panic otherwise) -/
  rk_ne : ∃ w ws, rk = .arr (w :: ws)
  /-- the frame record that precedes every routine call returns nothing -/
  frame : ∀ args, O 0 args = []
  /-- `needExpand(array, asked)` on (len, cap, asked): 0 when cap − len ≥ asked, else 1 -/
  needExpand : ∀ len cap asked : Nat, len ≤ cap → cap < 2 ^ 63 → asked < 2 ^ 63 →
    O 9 [.int (len : Int), .int (cap : Int), .int (asked : Int)] = [.int (if asked ≤ cap - len then 0 else 1)]
  /-- `copyAsm(&dst[0], &src[0], n)`, n > 0: the first n bytes of `src` stored over the first n bytes of `dst` -/
  copyAsm : ∀ (dst src : Bytes) (n : Nat), 0 < n → n ≤ dst.length → n ≤ src.length →
    O 1 [bytesV dst, bytesV src, .int (n : Int)] = [bytesV (src.take n ++ dst.drop n)]
  /-- `sealAsm(&rk[0], tagSize, &dst[0], nonce, plaintext, additionalData, &temp[0])`, `dst` = the |pt| + tagSize bytes
      behind the old contents: Algorithm 4, ciphertext ‖ tag -/
  sealAsm : ∀ (ts : Nat) (dst nonce pt aad temp : Bytes), ts ≤ 16 → pt.length ≤ maxPlain →
    dst.length = pt.length + ts → temp.length = 32 →
    ∃ temp' : Bytes, O 11 [rk, .int (ts : Int), bytesV dst, bytesV nonce, bytesV pt, bytesV aad, bytesV temp]
      = [bytesV (sealGCM E ts nonce pt aad), bytesV temp']
  /-- `openAsm(&rk[0], tagSize, &dst[0] | nil, nonce, ciphertext, additionalData, &temp[0])`, `dst` = |ct| − tagSize
      bytes, tag accepted (Algorithm 5 returns a plaintext): the plaintext, result 1 -/
  openOk : ∀ (ts : Nat) (dst nonce ct aad temp pt : Bytes), ts ≤ 16 → ts ≤ ct.length → ct.length ≤ maxPlain + ts →
    dst.length = ct.length - ts → temp.length = 32 → openGCM E ts nonce ct aad = some pt →
    ∃ temp' : Bytes, O 10 [rk, .int (ts : Int), bytesV dst, bytesV nonce, bytesV ct, bytesV aad, bytesV temp]
      = [bytesV pt, bytesV temp', .int 1]
  /-- … tag rejected (Algorithm 5 returns FAIL): result 0 (the new contents of `dst` are unspecified) -/
  openFail : ∀ (ts : Nat) (dst nonce ct aad temp : Bytes), ts ≤ 16 → ts ≤ ct.length → ct.length ≤ maxPlain + ts →
    dst.length = ct.length - ts → temp.length = 32 → openGCM E ts nonce ct aad = none →
    ∃ dst' temp' : Bytes, O 10 [rk, .int (ts : Int), bytesV dst, bytesV nonce, bytesV ct, bytesV aad, bytesV temp]
      = [bytesV dst', bytesV temp', .int 0]

/-- the leaf specifications as a property of an assembly semantics `sem` (SMGo/Model/CTIR.lean: `sem name args j` = the
    new elements of the j-th destination; for j = number of destinations, the integer result) -/
def LeafSpecAmd64 (sem : Nat → List Val → Nat → List Int) (E : Bytes → Bytes) (rk : Val) : Prop :=
  LeafOkAmd64 (asmOracle specsX sem) E rk

/-! ## The inhabitant: the reference semantics of the driver (Driver/CTIRSM4.lean `sem`, amd64 routines of the glue) -/

def toBytes (l : List Val) : Bytes := l.map (fun v => match v with | .int n => UInt8.ofNat n.toNat | .arr _ => 0)
def ofBytes (b : Bytes) : List Int := b.map (fun x => Int.ofNat x.toNat)
def toWords (l : List Val) : List W32 := l.map (fun v => match v with | .int n => BitVec.ofNat 32 n.toNat | .arr _ => 0)

/-- the model of the routines the amd64 glue calls (by external number): new elements of destination `j` -/
def semAmd64 : Nat → List Val → Nat → List Int := fun name args j =>
  let bytesAt (i : Nat) : Bytes := toBytes (argBytes args i)
  match name with
  | 1 => ofBytes ((bytesAt 1).take (argInt args 2).toNat)
  | 9 => [if argInt args 1 - argInt args 0 ≥ argInt args 2 then 0 else 1]
  | 11 =>
    if j = 0 then ofBytes (sealGCM (Spec.SM4.cryptFast (toWords (argBytes args 0))) (argInt args 1).toNat (bytesAt 3) (bytesAt 4) (bytesAt 5))
    else []
  | 10 =>
    match openGCM (Spec.SM4.cryptFast (toWords (argBytes args 0))) (argInt args 1).toNat (bytesAt 3) (bytesAt 4) (bytesAt 5) with
    | some pt => if j = 0 then ofBytes pt else if j = 2 then [1] else []
    | none => if j = 2 then [0] else []
  | _ => []

theorem toBytes_bytesV (b : Bytes) : toBytes (b.map (fun x => Val.int (Int.ofNat x.toNat))) = b := by
  simp only [toBytes, List.map_map]
  conv => rhs; rw [← List.map_id b]
  apply List.map_congr_left
  intro x _
  simp

theorem toWords_w32V (w : List W32) : toWords (w.map w32V) = w := by
  simp only [toWords, List.map_map]
  conv => rhs; rw [← List.map_id w]
  apply List.map_congr_left
  intro x _
  simp [w32V]

/-- a routine that gives a prefix overwrites that prefix -/
theorem fillFrom_prefix (old new : Bytes) (h : new.length ≤ old.length) :
    Val.arr (fillFrom (old.map (fun x => Val.int (Int.ofNat x.toNat))) (ofBytes new)) = bytesV (new ++ old.drop new.length) := by
  unfold bytesV
  congr 1
  apply List.ext_getElem
  · simp [fillFrom]; omega
  · intro i h1 h2
    simp only [fillFrom, List.length_map, List.getElem_map, List.getElem_range]
    simp only [fillFrom, List.length_map, List.length_range] at h1
    by_cases hi : i < new.length
    · rw [List.getElem_append_left hi]
      simp [ofBytes, List.getD_eq_getElem?_getD, hi]
    · rw [List.getElem_append_right (by omega)]
      simp only [List.getElem_drop]
      have e : new.length + (i - new.length) = i := by omega
      simp [ofBytes, List.getD_eq_getElem?_getD, hi, argInt, h1, e]

theorem fillFrom_full (old new : Bytes) (h : new.length = old.length) :
    Val.arr (fillFrom (old.map (fun x => Val.int (Int.ofNat x.toNat))) (ofBytes new)) = bytesV new := by
  rw [fillFrom_prefix old new (by omega), h, List.drop_length, List.append_nil]

theorem fillFrom_none (old : Bytes) :
    Val.arr (fillFrom (old.map (fun x => Val.int (Int.ofNat x.toNat))) []) = bytesV old :=
  fillFrom_prefix old [] (Nat.zero_le _)

/-! the oracle of the table `Amd64.asmSpecs`, routine by routine -/
theorem oracle0 (sem : Nat → List Val → Nat → List Int) (args : List Val) : asmOracle specsX sem 0 args = [] := rfl
theorem oracle1 (sem : Nat → List Val → Nat → List Int) (args : List Val) :
    asmOracle specsX sem 1 args = [.arr (fillFrom (argBytes args 0) (sem 1 args 0))] := rfl
theorem oracle9 (sem : Nat → List Val → Nat → List Int) (args : List Val) :
    asmOracle specsX sem 9 args = [.int ((sem 9 args 0).getD 0 0)] := rfl
theorem oracle10 (sem : Nat → List Val → Nat → List Int) (args : List Val) :
    asmOracle specsX sem 10 args = [.arr (fillFrom (argBytes args 2) (sem 10 args 0)),
      .arr (fillFrom (argBytes args 6) (sem 10 args 1)), .int ((sem 10 args 2).getD 0 0)] := rfl
theorem oracle11 (sem : Nat → List Val → Nat → List Int) (args : List Val) :
    asmOracle specsX sem 11 args = [.arr (fillFrom (argBytes args 2) (sem 11 args 0)),
      .arr (fillFrom (argBytes args 6) (sem 11 args 1))] := rfl

/-- **the interface is satisfiable**: the reference semantics, for any list of round-key words -/
theorem leafSpecAmd64_sem (rkw : List W32) (hrk : rkw ≠ []) :
    LeafSpecAmd64 semAmd64 (Spec.SM4.cryptFast rkw) (.arr (rkw.map w32V)) where
  E_len := Proofs.GCMGlue.length_cryptFast rkw
  rk_ne := by
    cases rkw with
    | nil => exact absurd rfl hrk
    | cons w ws => exact ⟨w32V w, ws.map w32V, rfl⟩
  frame := oracle0 semAmd64
  needExpand := by
    intro len cap asked h1 h2 h3
    rw [oracle9]
    show [Val.int ([if (cap : Int) - (len : Int) ≥ (asked : Int) then (0 : Int) else 1].getD 0 0)] = _
    by_cases h : asked ≤ cap - len
    · rw [if_pos h, if_pos (by omega)]; rfl
    · rw [if_neg h, if_neg (by omega)]; rfl
  copyAsm := by
    intro dst src n h0 h1 h2
    rw [oracle1]
    show [Val.arr (fillFrom (dst.map (fun x => Val.int (Int.ofNat x.toNat)))
      (ofBytes ((toBytes (src.map (fun x => Val.int (Int.ofNat x.toNat)))).take (Int.toNat (n : Int)))))] = _
    rw [toBytes_bytesV, Int.toNat_natCast, fillFrom_prefix _ _ (by rw [List.length_take]; omega), List.length_take,
      Nat.min_eq_left h2]
  sealAsm := by
    intro ts dst nonce pt aad temp hts hp hd ht
    refine ⟨temp, ?_⟩
    rw [oracle11]
    show [Val.arr (fillFrom (dst.map (fun x => Val.int (Int.ofNat x.toNat)))
        (ofBytes (sealGCM (Spec.SM4.cryptFast (toWords (rkw.map w32V))) (Int.toNat (ts : Int))
          (toBytes (nonce.map (fun x => Val.int (Int.ofNat x.toNat)))) (toBytes (pt.map (fun x => Val.int (Int.ofNat x.toNat))))
          (toBytes (aad.map (fun x => Val.int (Int.ofNat x.toNat))))))),
      Val.arr (fillFrom (temp.map (fun x => Val.int (Int.ofNat x.toNat))) [])] = _
    rw [toWords_w32V, toBytes_bytesV, toBytes_bytesV, toBytes_bytesV, Int.toNat_natCast, fillFrom_none,
      fillFrom_full _ _ (by rw [Proofs.GCMGlue.length_sealGCM _ (Proofs.GCMGlue.length_cryptFast rkw) ts hts, hd])]
  openOk := by
    intro ts dst nonce ct aad temp pt hts htc hcl hd ht ho
    refine ⟨temp, ?_⟩
    rw [oracle10]
    have hs : ∀ j, semAmd64 10 [.arr (rkw.map w32V), .int (ts : Int), bytesV dst, bytesV nonce, bytesV ct, bytesV aad, bytesV temp] j
        = if j = 0 then ofBytes pt else if j = 2 then [1] else [] := by
      intro j
      show (match openGCM (Spec.SM4.cryptFast (toWords (rkw.map w32V))) (Int.toNat (ts : Int))
          (toBytes (nonce.map (fun x => Val.int (Int.ofNat x.toNat)))) (toBytes (ct.map (fun x => Val.int (Int.ofNat x.toNat))))
          (toBytes (aad.map (fun x => Val.int (Int.ofNat x.toNat)))) with
        | some pt => if j = 0 then ofBytes pt else if j = 2 then [1] else []
        | none => if j = 2 then [0] else []) = _
      rw [toWords_w32V, toBytes_bytesV, toBytes_bytesV, toBytes_bytesV, Int.toNat_natCast, ho]
    rw [hs 0, hs 1, hs 2]
    show [Val.arr (fillFrom (dst.map (fun x => Val.int (Int.ofNat x.toNat))) (ofBytes pt)),
      Val.arr (fillFrom (temp.map (fun x => Val.int (Int.ofNat x.toNat))) []), Val.int 1] = _
    rw [fillFrom_none, fillFrom_full _ _ (by
      rw [Proofs.GCMGlue.length_openGCM _ (Proofs.GCMGlue.length_cryptFast rkw) ts nonce ct aad pt ho, hd])]
  openFail := by
    intro ts dst nonce ct aad temp hts htc hcl hd ht ho
    refine ⟨dst, temp, ?_⟩
    rw [oracle10]
    have hs : ∀ j, semAmd64 10 [.arr (rkw.map w32V), .int (ts : Int), bytesV dst, bytesV nonce, bytesV ct, bytesV aad, bytesV temp] j
        = if j = 2 then [0] else [] := by
      intro j
      show (match openGCM (Spec.SM4.cryptFast (toWords (rkw.map w32V))) (Int.toNat (ts : Int))
          (toBytes (nonce.map (fun x => Val.int (Int.ofNat x.toNat)))) (toBytes (ct.map (fun x => Val.int (Int.ofNat x.toNat))))
          (toBytes (aad.map (fun x => Val.int (Int.ofNat x.toNat)))) with
        | some pt => if j = 0 then ofBytes pt else if j = 2 then [1] else []
        | none => if j = 2 then [0] else []) = _
      rw [toWords_w32V, toBytes_bytesV, toBytes_bytesV, toBytes_bytesV, Int.toNat_natCast, ho]
    rw [hs 0, hs 1, hs 2]
    show [Val.arr (fillFrom (dst.map (fun x => Val.int (Int.ofNat x.toNat))) []),
      Val.arr (fillFrom (temp.map (fun x => Val.int (Int.ofNat x.toNat))) []), Val.int 0] = _
    rw [fillFrom_none, fillFrom_none]

/-! ## Tools -/

section Tools
variable {P : Prog} {G : Nat → Val} {O : Oracle}

theorem ev_op2 {env : Env} {o : Op2} {a b : Expr} {n m r : Int} (ha : evalV G env a = some (.int n))
    (hb : evalV G env b = some (.int m)) (hr : evalOp2 o n m = some r) : evalV G env (.op2 o a b) = some (.int r) := by
  rw [evalV_op2, ha, hb]; simp only [hr, Option.map_some]

theorem ev_add {env : Env} {a b : Expr} {n m : Int} (ha : evalV G env a = some (.int n))
    (hb : evalV G env b = some (.int m)) (h1 : -9223372036854775808 ≤ n + m) (h2 : n + m < 9223372036854775808) :
    evalV G env (.op2 (.add .i64) a b) = some (.int (n + m)) :=
  ev_op2 ha hb (by simp only [evalOp2]; rw [norm_i64_small h1 h2])

theorem ev_sub {env : Env} {a b : Expr} {n m : Int} (ha : evalV G env a = some (.int n))
    (hb : evalV G env b = some (.int m)) (h1 : -9223372036854775808 ≤ n - m) (h2 : n - m < 9223372036854775808) :
    evalV G env (.op2 (.sub .i64) a b) = some (.int (n - m)) :=
  ev_op2 ha hb (by simp only [evalOp2]; rw [norm_i64_small h1 h2])

theorem ev_conv_u64 {env : Env} {a : Expr} {n : Nat} (ha : evalV G env a = some (.int (n : Int)))
    (hn : n < 18446744073709551616) : evalV G env (.op1 (.conv .u64) a) = some (.int (n : Int)) := by
  rw [evalV_op1, ha]
  simp only [evalOp1, norm]
  congr 2; omega

theorem asBool_ofBool (β : Bool) : asBool (.int (ofBool β)) = some β := by cases β <;> rfl

theorem ite_false {F : Nat} {env env' : Env} {c : Expr} {a b : Stmt} {ctl : Ctl} {β : Bool}
    (hc : evalV G env c = some (.int (ofBool β))) (hβ : β = false) (h : EvIn P G O F env b env' ctl) :
    EvIn P G O (F + 1) env (.ite c a b) env' ctl := by
  subst hβ; exact EvIn.ite hc (asBool_ofBool _) h

theorem ite_true {F : Nat} {env env' : Env} {c : Expr} {a b : Stmt} {ctl : Ctl} {β : Bool}
    (hc : evalV G env c = some (.int (ofBool β))) (hβ : β = true) (h : EvIn P G O F env a env' ctl) :
    EvIn P G O (F + 1) env (.ite c a b) env' ctl := by
  subst hβ; exact EvIn.ite hc (asBool_ofBool _) h

theorem evalVs_cons_some {env : Env} {e : Expr} {es : List Expr} {v : Val} {vs : List Val}
    (h1 : evalV G env e = some v) (h2 : evalVs G env es = some vs) : evalVs G env (e :: es) = some (v :: vs) := by
  rw [evalVs_cons, h1, h2]

/-- the frame record -/
theorem evIn_frame (hO : ∀ args, O 0 args = []) {env : Env} {args : List Expr} {vs : List Val}
    (ha : evalVs G env args = some vs) : EvIn P G O 1 env (.ext [] 0 true args) env .norm :=
  evIn_ext ha (by rw [hO]; rfl)

/-- Go's bounds check of `&a[0]` -/
theorem ev_idxc0 {env : Env} {a : Expr} {x : Bytes} (ha : evalV G env a = some (bytesV x)) (hx : 0 < x.length) :
    ∃ v, evalV G env (.idxc a 0) = some v := by
  rw [evalV_idxc, ha]
  cases x with
  | nil => simp at hx
  | cons b t => exact ⟨_, rfl⟩

theorem ev_idxc0_arr {env : Env} {a : Expr} {w : Val} {ws : List Val} (ha : evalV G env a = some (.arr (w :: ws))) :
    evalV G env (.idxc a 0) = some w := by
  rw [evalV_idxc, ha]; rfl

/-- Go's bounds check of `&a[i]`: in range … -/
theorem ev_idx_bytes {env : Env} {a i : Expr} {x : Bytes} {k : Nat} (ha : evalV G env a = some (bytesV x))
    (hi : evalV G env i = some (.int (k : Int))) (hk : k < x.length) : ∃ v, evalV G env (.idx a i) = some v := by
  rw [evalV_idx, ha, hi]
  simp only [bytesV]
  rw [bytesV_getIdx, List.getElem?_eq_getElem hk]
  exact ⟨_, rfl⟩

/-- … and out of range (a Go index panic: the run is stuck) -/
theorem ev_idx_none {env : Env} {a i : Expr} {x : Bytes} {k : Nat} (ha : evalV G env a = some (bytesV x))
    (hi : evalV G env i = some (.int (k : Int))) (hk : x.length ≤ k) : evalV G env (.idx a i) = none := by
  rw [evalV_idx, ha, hi]
  simp only [bytesV]
  rw [bytesV_getIdx, List.getElem?_eq_none hk]
  rfl

theorem env_set_set (env : Env) (x : Nat) (a b : Val) : (env.set x a).set x b = env.set x b := by
  funext y; simp only [Env.set]; split <;> rfl

/-- two / three bounds checks into the blank variable `x` in front of a statement -/
theorem checks2 {env env' : Env} {x : Nat} {e1 e2 : Expr} {v1 v2 : Val} {rest : Stmt} {F : Nat} {c : Ctl}
    (h1 : evalV G env e1 = some v1) (h2 : evalV G (env.set x v1) e2 = some v2)
    (hrest : EvIn P G O F (env.set x v2) rest env' c) :
    EvIn P G O (F + 4) env (.seq (.assign x [] e1) (.seq (.assign x [] e2) rest)) env' c := by
  have a2 := EvIn.assign (P := P) (X := O) (x := x) h2
  rw [env_set_set] at a2
  exact (EvIn.seq (EvIn.assign h1) (EvIn.seq a2 hrest)).mono (by omega)

theorem checks3 {env env' : Env} {x : Nat} {e1 e2 e3 : Expr} {v1 v2 v3 : Val} {rest : Stmt} {F : Nat} {c : Ctl}
    (h1 : evalV G env e1 = some v1) (h2 : evalV G (env.set x v1) e2 = some v2) (h3 : evalV G (env.set x v2) e3 = some v3)
    (hrest : EvIn P G O F (env.set x v3) rest env' c) :
    EvIn P G O (F + 6) env (.seq (.assign x [] e1) (.seq (.assign x [] e2) (.seq (.assign x [] e3) rest))) env' c := by
  have a2 := EvIn.assign (P := P) (X := O) (x := x) h2
  rw [env_set_set] at a2
  have a3 := EvIn.assign (P := P) (X := O) (x := x) h3
  rw [env_set_set] at a3
  exact (EvIn.seq (EvIn.assign h1) (EvIn.seq a2 (EvIn.seq a3 hrest))).mono (by omega)

theorem drop_tail (x z : Bytes) : ((x ++ z).drop x.length).take ((x ++ z).length - x.length) = z := by
  rw [List.drop_left, List.length_append, Nat.add_sub_cancel_left, List.take_length]

theorem take_head (x z : Bytes) : ((x ++ z).drop 0).take (x.length - 0) = x := by
  rw [List.drop_zero, Nat.sub_zero, List.take_left]

end Tools

/-! ## `ensureCapacity` (fn_1) -/

def ensA : Stmt := .seq (.ite (.op2 .gt (.op2 (.add .i64) (.var 7) (.var 1)) (.var 2)) .panic .skip)
    (.assign 3 [] (.cat (.var 0) (.mk (.op2 (.sub .i64) (.op2 (.add .i64) (.var 7) (.var 1)) (.len (.var 0))) (.lit 0))))
def ensCopy : Stmt :=
  .seq (.assign 4 [] (.idxc (.var 3) 0)) (.seq (.assign 4 [] (.idxc (.var 0) 0))
    (.seq (.ext [] 0 true [(.lit 1), (.var 7)]) (.ext [3] 1 false [(.var 3), (.var 0), (.var 7)])))
def ensB : Stmt := .seq (.assign 3 [] (.mk (.op2 (.add .i64) (.var 7) (.var 1)) (.lit 0)))
    (.ite (.op2 .ne (.var 7) (.lit 0)) ensCopy .skip)
def ensRest : Stmt := .seq (.ite (.op2 .eq (.var 6) (.lit 0)) ensA ensB) (.seq (.ret [(.var 0), (.var 3)]) .panic)

theorem fn_1_body : fn_1.body =
    .seq (.assign 3 [] (.mk (.lit 0) (.lit 0)))
    (.seq (.ext [5] 9 true [(.len (.var 0)), (.var 2), (.var 1)])
    (.seq (.assign 6 [] (.var 5))
    (.seq (.assign 7 [] (.len (.var 0))) ensRest))) := rfl

/-- fuel for `ensureCapacity` -/
def fuelEnsAmd64 : Nat := 22

/-- the environment of `ensureCapacity` after `arrayLen := len(array)`; `r` = the answer of `needExpand` -/
def ensEnv (arr : Bytes) (asked cap : Nat) (r : Int) : Env :=
  ((((Env.ofList [bytesV arr, .int (asked : Int), .int (cap : Int)]).set 3 (bytesV [])).set 5 (.int r)).set 6 (.int r)).set 7
    (.int (arr.length : Int))

section Ensure
variable {P : Prog} {G : Nat → Val} {O : Oracle} {E : Bytes → Bytes} {rk : Val}

theorem ens_run (arr : Bytes) (asked cap : Nat) (r : Int)
    (hO : O 9 [.int (arr.length : Int), .int (cap : Int), .int (asked : Int)] = [.int r])
    {F : Nat} {env' : Env} {c : Ctl} (hrest : EvIn P G O F (ensEnv arr asked cap r) ensRest env' c) :
    EvIn P G O (F + 8) (Env.ofList [bytesV arr, .int (asked : Int), .int (cap : Int)]) fn_1.body env' c := by
  rw [fn_1_body]
  have c1 : EvIn P G O 1 (Env.ofList [bytesV arr, .int (asked : Int), .int (cap : Int)])
      (.assign 3 [] (.mk (.lit 0) (.lit 0))) ((Env.ofList [bytesV arr, .int (asked : Int), .int (cap : Int)]).set 3 (bytesV [])) .norm :=
    EvIn.assign (evalV_mkBytes (L := 0) rfl)
  have c2 := ext1 (P := P) (G := G) (O := O) (x := 5) (leaky := true)
    (env := (Env.ofList [bytesV arr, .int (asked : Int), .int (cap : Int)]).set 3 (bytesV []))
    (args := [(.len (.var 0)), (.var 2), (.var 1)])
    (evalVs_cons_some (evalV_lenB (x := arr) rfl) (evalVs_cons_some (v := .int (cap : Int)) rfl
      (evalVs_cons_some (v := .int (asked : Int)) rfl rfl))) hO
  have c3 := EvIn.assign (P := P) (G := G) (X := O) (x := 6)
    (env := ((Env.ofList [bytesV arr, .int (asked : Int), .int (cap : Int)]).set 3 (bytesV [])).set 5 (.int r))
    (e := .var 5) (v := .int r) rfl
  have c4 := EvIn.assign (P := P) (G := G) (X := O) (x := 7)
    (env := (((Env.ofList [bytesV arr, .int (asked : Int), .int (cap : Int)]).set 3 (bytesV [])).set 5 (.int r)).set 6 (.int r))
    (e := .len (.var 0)) (evalV_lenB (x := arr) rfl)
  exact (EvIn.seq c1 (EvIn.seq c2 (EvIn.seq c3 (EvIn.seq c4 hrest)))).mono (by omega)

/-- **ensureCapacity** (hidden argument: cap(array)): `head` = `array` extended by `asked` bytes — zero bytes in the IR
    (in Go, inside the capacity, the old bytes of the backing array: Seal / Open overwrite all of them) -/
theorem ensureCapacity_amd64_computes (h1 : P[1]? = some fn_1) (hL : LeafOkAmd64 O E rk) (arr : Bytes) (asked cap : Nat)
    (hc : arr.length ≤ cap) (hcap : cap < 2 ^ 63) (hsum : arr.length + asked < 2 ^ 63) :
    Computes P G O 1 fuelEnsAmd64 [bytesV arr, .int (asked : Int), .int (cap : Int)]
      [bytesV arr, bytesV (arr ++ List.replicate asked 0)] := by
  have hO := hL.needExpand arr.length cap asked hc hcap (by omega)
  have l7 : ∀ r, evalV G (ensEnv arr asked cap r) (.var 7) = some (.int (arr.length : Int)) := fun _ => rfl
  have l1 : ∀ r, evalV G (ensEnv arr asked cap r) (.var 1) = some (.int (asked : Int)) := fun _ => rfl
  have hadd : ∀ r, evalV G (ensEnv arr asked cap r) (.op2 (.add .i64) (.var 7) (.var 1))
      = some (.int ((arr.length : Int) + (asked : Int))) := fun r => ev_add (l7 r) (l1 r) (by omega) (by omega)
  by_cases hr : asked ≤ cap - arr.length
  · -- the capacity suffices: head = array[:len+asked]
    rw [if_pos hr] at hO
    have g1 : EvIn P G O 2 (ensEnv arr asked cap 0)
        (.ite (.op2 .gt (.op2 (.add .i64) (.var 7) (.var 1)) (.var 2)) .panic .skip) (ensEnv arr asked cap 0) .norm :=
      ite_false (ev_op2 (hadd 0) (evar (v := .int (cap : Int)) rfl) rfl) (decide_eq_false (by omega)) (EvIn.skip _)
    have hsub : evalV G (ensEnv arr asked cap 0) (.op2 (.sub .i64) (.op2 (.add .i64) (.var 7) (.var 1)) (.len (.var 0)))
        = some (.int (asked : Int)) := by
      have := ev_sub (G := G) (hadd 0) (evalV_lenB (G := G) (env := ensEnv arr asked cap 0) (a := .var 0) (x := arr) rfl)
        (by omega) (by omega)
      rw [this]; congr 2; omega
    have g2 : EvIn P G O 1 (ensEnv arr asked cap 0)
        (.assign 3 [] (.cat (.var 0) (.mk (.op2 (.sub .i64) (.op2 (.add .i64) (.var 7) (.var 1)) (.len (.var 0))) (.lit 0))))
        ((ensEnv arr asked cap 0).set 3 (bytesV (arr ++ List.replicate asked 0))) .norm :=
      EvIn.assign (evalV_catB (evar rfl) (evalV_mkBytes hsub))
    have gi : EvIn P G O 5 (ensEnv arr asked cap 0) (.ite (.op2 .eq (.var 6) (.lit 0)) ensA ensB)
        ((ensEnv arr asked cap 0).set 3 (bytesV (arr ++ List.replicate asked 0))) .norm :=
      ite_true (ev_op2 (evar (v := .int 0) rfl) rfl rfl) rfl (EvIn.seq g1 g2)
    have sr : evalVs G ((ensEnv arr asked cap 0).set 3 (bytesV (arr ++ List.replicate asked 0))) [(.var 0), (.var 3)]
        = some [bytesV arr, bytesV (arr ++ List.replicate asked 0)] := rfl
    exact Computes.of_body h1 rfl rfl
      ((ens_run arr asked cap 0 hO (EvIn.seq gi (EvIn.seq_stop (EvIn.ret sr) (by simp)))).mono (by decide))
  · -- a new array and a copy
    rw [if_neg hr] at hO
    have hmk : evalV G (ensEnv arr asked cap 1) (.mk (.op2 (.add .i64) (.var 7) (.var 1)) (.lit 0))
        = some (bytesV (List.replicate (arr.length + asked) 0)) :=
      evalV_mkBytes (by rw [Int.natCast_add]; exact hadd 1)
    have g1 : EvIn P G O 1 (ensEnv arr asked cap 1) (.assign 3 [] (.mk (.op2 (.add .i64) (.var 7) (.var 1)) (.lit 0)))
        ((ensEnv arr asked cap 1).set 3 (bytesV (List.replicate (arr.length + asked) 0))) .norm := EvIn.assign hmk
    have hcond : evalV G ((ensEnv arr asked cap 1).set 3 (bytesV (List.replicate (arr.length + asked) 0)))
        (.op2 .ne (.var 7) (.lit 0)) = some (.int (ofBool ((arr.length : Int) != 0))) :=
      ev_op2 (evar rfl) rfl rfl
    by_cases h0 : arr.length = 0
    · have g2 : EvIn P G O 2 ((ensEnv arr asked cap 1).set 3 (bytesV (List.replicate (arr.length + asked) 0)))
          (.ite (.op2 .ne (.var 7) (.lit 0)) ensCopy .skip)
          ((ensEnv arr asked cap 1).set 3 (bytesV (List.replicate (arr.length + asked) 0))) .norm :=
        ite_false hcond (by simp [h0]) (EvIn.skip _)
      have gi : EvIn P G O 5 (ensEnv arr asked cap 1) (.ite (.op2 .eq (.var 6) (.lit 0)) ensA ensB)
          ((ensEnv arr asked cap 1).set 3 (bytesV (List.replicate (arr.length + asked) 0))) .norm :=
        ite_false (ev_op2 (evar (v := .int 1) rfl) rfl rfl) rfl (EvIn.seq g1 g2)
      have he : bytesV (List.replicate (arr.length + asked) 0) = bytesV (arr ++ List.replicate asked 0) := by
        have : arr = [] := List.eq_nil_of_length_eq_zero h0
        subst this; simp
      have sr : evalVs G ((ensEnv arr asked cap 1).set 3 (bytesV (List.replicate (arr.length + asked) 0))) [(.var 0), (.var 3)]
          = some [bytesV arr, bytesV (arr ++ List.replicate asked 0)] := by rw [← he]; rfl
      exact Computes.of_body h1 rfl rfl
        ((ens_run arr asked cap 1 hO (EvIn.seq gi (EvIn.seq_stop (EvIn.ret sr) (by simp)))).mono (by decide))
    · have hcp := hL.copyAsm (List.replicate (arr.length + asked) 0) arr arr.length (by omega)
        (by rw [List.length_replicate]; omega) (Nat.le_refl _)
      have he : arr.take arr.length ++ (List.replicate (arr.length + asked) (0 : UInt8)).drop arr.length
          = arr ++ List.replicate asked 0 := by
        rw [List.take_length, List.drop_replicate, Nat.add_sub_cancel_left]
      rw [he] at hcp
      obtain ⟨v1, k1⟩ := ev_idxc0 (G := G) (env := (ensEnv arr asked cap 1).set 3 (bytesV (List.replicate (arr.length + asked) 0)))
        (a := .var 3) (x := List.replicate (arr.length + asked) 0) rfl (by rw [List.length_replicate]; omega)
      obtain ⟨v2, k2⟩ := ev_idxc0 (G := G)
        (env := ((ensEnv arr asked cap 1).set 3 (bytesV (List.replicate (arr.length + asked) 0))).set 4 v1)
        (a := .var 0) (x := arr) rfl (by omega)
      have f1 : EvIn P G O 1 (((ensEnv arr asked cap 1).set 3 (bytesV (List.replicate (arr.length + asked) 0))).set 4 v2)
          (.ext [] 0 true [(.lit 1), (.var 7)]) (((ensEnv arr asked cap 1).set 3 (bytesV (List.replicate (arr.length + asked) 0))).set 4 v2) .norm :=
        evIn_frame hL.frame (vs := [.int 1, .int (arr.length : Int)]) rfl
      have f2 : EvIn P G O 1 (((ensEnv arr asked cap 1).set 3 (bytesV (List.replicate (arr.length + asked) 0))).set 4 v2)
          (.ext [3] 1 false [(.var 3), (.var 0), (.var 7)])
          ((((ensEnv arr asked cap 1).set 3 (bytesV (List.replicate (arr.length + asked) 0))).set 4 v2).set 3 (bytesV (arr ++ List.replicate asked 0))) .norm :=
        ext1 (vs := [bytesV (List.replicate (arr.length + asked) 0), bytesV arr, .int (arr.length : Int)]) rfl hcp
      have g2 : EvIn P G O 8 ((ensEnv arr asked cap 1).set 3 (bytesV (List.replicate (arr.length + asked) 0)))
          (.ite (.op2 .ne (.var 7) (.lit 0)) ensCopy .skip)
          ((((ensEnv arr asked cap 1).set 3 (bytesV (List.replicate (arr.length + asked) 0))).set 4 v2).set 3 (bytesV (arr ++ List.replicate asked 0))) .norm :=
        ite_true hcond (bne_iff_ne.mpr (by omega)) (checks2 k1 k2 (EvIn.seq f1 f2))
      have gi : EvIn P G O 11 (ensEnv arr asked cap 1) (.ite (.op2 .eq (.var 6) (.lit 0)) ensA ensB)
          ((((ensEnv arr asked cap 1).set 3 (bytesV (List.replicate (arr.length + asked) 0))).set 4 v2).set 3 (bytesV (arr ++ List.replicate asked 0))) .norm :=
        ite_false (ev_op2 (evar (v := .int 1) rfl) rfl rfl) rfl (EvIn.seq g1 g2)
      have sr : evalVs G ((((ensEnv arr asked cap 1).set 3 (bytesV (List.replicate (arr.length + asked) 0))).set 4 v2).set 3 (bytesV (arr ++ List.replicate asked 0)))
          [(.var 0), (.var 3)] = some [bytesV arr, bytesV (arr ++ List.replicate asked 0)] := rfl
      exact Computes.of_body h1 rfl rfl
        ((ens_run arr asked cap 1 hO (EvIn.seq gi (EvIn.seq_stop (EvIn.ret sr) (by simp)))).mono (by decide))

end Ensure

/-! ## `Seal` (fn_0) -/

/-- the arguments of Seal / Open as the IR takes them: the receiver's fields `cipher`, `roundKeys`, `nonceSize`, `tagSize`,
    then `dst`, `nonce`, the text (plaintext / ciphertext ‖ tag), `additionalData`, and the hidden `cap(dst)` -/
def glueArgs (c rk : Val) (ns ts : Nat) (dst nonce txt aad : Bytes) (cap : Nat) : List Val :=
  [c, rk, .int (ns : Int), .int (ts : Int), bytesV dst, bytesV nonce, bytesV txt, bytesV aad, .int (cap : Int)]

/-- Seal up to (and with) the bounds check of `&g.roundKeys[0]` -/
def sealPrefix (rest : Stmt) : Stmt :=
    .seq (.ite (.op2 .ne (.len (.var 5)) (.var 2)) (.panic) .skip)
    (.seq (.ite (.op2 .gt (.op1 (.conv .u64) (.len (.var 6))) (.lit 68719476704)) (.panic) .skip)
    (.seq (.assign 10 [] (.mk (.lit 32) (.lit 0)))
    (.seq (.call [4, 11] 1 [(.var 4), (.op2 (.add .i64) (.len (.var 6)) (.var 3)), (.var 8)])
    (.seq (.assign 12 [] (.var 11))
    (.seq (.assign 9 [] (.idxc (.var 1) 0)) rest)))))

/-- the bounds checks of `&ret[len(dst)]`, `&temp[0]`, the frame record, `sealAsm`, the result -/
def sealRest : Stmt :=
    .seq (.assign 9 [] (.idx (.var 12) (.len (.var 4))))
    (.seq (.assign 9 [] (.idxc (.var 10) 0))
    (.seq (.ext [] 0 true [(.lit 11), (.var 3), (.len (.var 5)), (.len (.var 6)), (.len (.var 7))])
    (.seq (.ext [13, 10] 11 false [(.var 1), (.var 3), (.slice (.var 12) (.len (.var 4)) (.len (.var 12))), (.var 5), (.var 6), (.var 7), (.var 10)])
    (.seq (.assign 12 [] (.cat (.slice (.var 12) (.lit 0) (.len (.var 4))) (.var 13)))
    (.seq (.ret [(.var 4), (.var 12)]) .panic)))))

theorem fn_0_body : fn_0.body = sealPrefix sealRest := rfl

/-- fuel for `Seal` -/
def fuelSealAmd64 : Nat := fuelEnsAmd64 + 26

/-- the environment of Seal after the check of `&g.roundKeys[0]` (`w` = the first round key, read into `_`): `temp` (10)
    zeroed, `ret` (12) = `dst` extended by |pt| + tagSize zero bytes -/
def sealEnv (c rk : Val) (ns ts : Nat) (dst nonce pt aad : Bytes) (cap : Nat) (w : Val) : Env :=
  (((((Env.ofList (glueArgs c rk ns ts dst nonce pt aad cap)).set 10 (bytesV (List.replicate 32 0))).set 4 (bytesV dst)).set 11
    (bytesV (dst ++ List.replicate (pt.length + ts) 0))).set 12 (bytesV (dst ++ List.replicate (pt.length + ts) 0))).set 9 w

section Seal
variable {P : Prog} {G : Nat → Val} {O : Oracle} {E : Bytes → Bytes} {rk : Val}

/-- the two length checks of Seal pass -/
theorem seal_checks (c : Val) (ns ts cap : Nat) (dst nonce pt aad : Bytes) (hn : nonce.length = ns) (hp : pt.length ≤ maxPlain) :
    EvIn P G O 2 (Env.ofList (glueArgs c rk ns ts dst nonce pt aad cap))
      (.ite (.op2 .ne (.len (.var 5)) (.var 2)) (.panic) .skip) (Env.ofList (glueArgs c rk ns ts dst nonce pt aad cap)) .norm ∧
    EvIn P G O 2 (Env.ofList (glueArgs c rk ns ts dst nonce pt aad cap))
      (.ite (.op2 .gt (.op1 (.conv .u64) (.len (.var 6))) (.lit 68719476704)) (.panic) .skip)
      (Env.ofList (glueArgs c rk ns ts dst nonce pt aad cap)) .norm := by
  have hp' : pt.length ≤ 68719476704 := hp
  subst hn
  exact ⟨ite_false (ev_op2 (evalV_lenB (x := nonce) rfl) (evar (v := .int (nonce.length : Int)) rfl) rfl) (by simp) (EvIn.skip _),
    ite_false (ev_op2 (ev_conv_u64 (evalV_lenB (x := pt) rfl) (by omega)) rfl rfl) (decide_eq_false (by omega)) (EvIn.skip _)⟩

/-- Seal from its entry to the check of `&g.roundKeys[0]`: what follows (`rest`) runs in `sealEnv`; both for completed
    and for stuck continuations -/
theorem seal_pre (h1 : P[1]? = some fn_1) (hL : LeafOkAmd64 O E rk) (c : Val) (ns ts cap : Nat) (dst nonce pt aad : Bytes)
    (w : Val) (ws : List Val) (hrk : rk = .arr (w :: ws))
    (hn : nonce.length = ns) (hp : pt.length ≤ maxPlain) (hts : ts ≤ 16) (hc : dst.length ≤ cap) (hcap : cap < 2 ^ 62)
    (rest : Stmt) :
    (∀ (F : Nat) (env' : Env) (r : Ctl), EvIn P G O F (sealEnv c rk ns ts dst nonce pt aad cap w) rest env' r →
      EvIn P G O (F + fuelEnsAmd64 + 14) (Env.ofList (glueArgs c rk ns ts dst nonce pt aad cap)) (sealPrefix rest) env' r) ∧
    (Stuck P G O (sealEnv c rk ns ts dst nonce pt aad cap w) rest →
      Stuck P G O (Env.ofList (glueArgs c rk ns ts dst nonce pt aad cap)) (sealPrefix rest)) := by
  have hp' : pt.length ≤ 68719476704 := hp
  obtain ⟨c1, c2⟩ := seal_checks (P := P) (G := G) (O := O) (rk := rk) c ns ts cap dst nonce pt aad hn hp
  subst hrk
  let z : Bytes := List.replicate (pt.length + ts) 0
  let e0 : Env := Env.ofList (glueArgs c (.arr (w :: ws)) ns ts dst nonce pt aad cap)
  let e1 := e0.set 10 (bytesV (List.replicate 32 0))
  let e2 := (e1.set 4 (bytesV dst)).set 11 (bytesV (dst ++ z))
  let e3 := e2.set 12 (bytesV (dst ++ z))
  have c3 : EvIn P G O 1 e0 (.assign 10 [] (.mk (.lit 32) (.lit 0))) e1 .norm := EvIn.assign (evalV_mkBytes (L := 32) rfl)
  have hadd : evalV G e1 (.op2 (.add .i64) (.len (.var 6)) (.var 3)) = some (.int ((pt.length + ts : Nat) : Int)) := by
    rw [Int.natCast_add]
    exact ev_add (evalV_lenB (x := pt) rfl) (evar (v := .int (ts : Int)) rfl) (by omega) (by omega)
  have c4 : EvIn P G O (fuelEnsAmd64 + 1) e1
      (.call [4, 11] 1 [(.var 4), (.op2 (.add .i64) (.len (.var 6)) (.var 3)), (.var 8)]) e2 .norm :=
    (ensureCapacity_amd64_computes h1 hL dst (pt.length + ts) cap hc (by omega) (by omega)).call
      (evalVs_cons_some (v := bytesV dst) rfl (evalVs_cons_some hadd (evalVs_cons_some (v := .int (cap : Int)) rfl rfl))) rfl
  have c5 : EvIn P G O 1 e2 (.assign 12 [] (.var 11)) e3 .norm := EvIn.assign (v := bytesV (dst ++ z)) rfl
  have c6 : EvIn P G O 1 e3 (.assign 9 [] (.idxc (.var 1) 0)) (sealEnv c (.arr (w :: ws)) ns ts dst nonce pt aad cap w) .norm :=
    EvIn.assign (ev_idxc0_arr (ws := ws) rfl)
  refine ⟨fun F env' r hrest => ?_, fun hrest => ?_⟩
  · exact (EvIn.seq c1 (EvIn.seq c2 (EvIn.seq c3 (EvIn.seq c4 (EvIn.seq c5 (EvIn.seq c6 hrest)))))).mono (by omega)
  · exact Stuck.seq_right c1 (Stuck.seq_right c2 (Stuck.seq_right c3 (Stuck.seq_right c4 (Stuck.seq_right c5
      (Stuck.seq_right c6 hrest)))))

/-- BODY LEVEL: Seal returns `dst` and `dst ‖ sealGCM` -/
theorem seal_body (h1 : P[1]? = some fn_1) (hL : LeafOkAmd64 O E rk) (c : Val) (ns ts cap : Nat) (dst nonce pt aad : Bytes)
    (hn : nonce.length = ns) (hp : pt.length ≤ maxPlain) (hts : ts ≤ 16) (hne : 0 < pt.length + ts)
    (hc : dst.length ≤ cap) (hcap : cap < 2 ^ 62) :
    ∃ env', EvIn P G O fuelSealAmd64 (Env.ofList (glueArgs c rk ns ts dst nonce pt aad cap)) fn_0.body env'
      (.ret [bytesV dst, bytesV (dst ++ sealGCM E ts nonce pt aad)]) := by
  obtain ⟨w, ws, hrk⟩ := hL.rk_ne
  obtain ⟨temp', hO⟩ := hL.sealAsm ts (List.replicate (pt.length + ts) 0) nonce pt aad (List.replicate 32 0) hts hp
    (by simp) (by simp)
  have hpre := (seal_pre (G := G) h1 hL c ns ts cap dst nonce pt aad w ws hrk hn hp hts hc hcap sealRest).1
  let z : Bytes := List.replicate (pt.length + ts) 0
  let sealed : Bytes := sealGCM E ts nonce pt aad
  obtain ⟨v2, k2⟩ := ev_idx_bytes (G := G) (env := sealEnv c rk ns ts dst nonce pt aad cap w) (a := .var 12)
    (i := .len (.var 4)) (x := dst ++ z) (k := dst.length) rfl (evalV_lenB (x := dst) rfl)
    (by rw [List.length_append, List.length_replicate]; omega)
  obtain ⟨v3, k3⟩ := ev_idxc0 (G := G) (env := (sealEnv c rk ns ts dst nonce pt aad cap w).set 9 v2) (a := .var 10)
    (x := List.replicate 32 0) rfl (by simp)
  let e3 : Env := (sealEnv c rk ns ts dst nonce pt aad cap w).set 9 v3
  let e4 := (e3.set 13 (bytesV sealed)).set 10 (bytesV temp')
  let e5 := e4.set 12 (bytesV (dst ++ sealed))
  have c6 : EvIn P G O 1 e3 (.ext [] 0 true [(.lit 11), (.var 3), (.len (.var 5)), (.len (.var 6)), (.len (.var 7))]) e3 .norm :=
    evIn_frame hL.frame (evalVs_cons_some (v := .int 11) rfl (evalVs_cons_some (v := .int (ts : Int)) rfl
      (evalVs_cons_some (evalV_lenB (x := nonce) rfl) (evalVs_cons_some (evalV_lenB (x := pt) rfl)
        (evalVs_cons_some (evalV_lenB (x := aad) rfl) rfl)))))
  have hsl : evalV G e3 (.slice (.var 12) (.len (.var 4)) (.len (.var 12))) = some (bytesV z) := by
    have := evalV_sliceB (G := G) (env := e3) (a := .var 12) (lo := .len (.var 4)) (hi := .len (.var 12)) (x := dst ++ z)
      (l := dst.length) (h := (dst ++ z).length) rfl (evalV_lenB (x := dst) rfl) (evalV_lenB (x := dst ++ z) rfl)
      (by rw [List.length_append]; omega) (Nat.le_refl _)
    rw [this, drop_tail]
  have c7 : EvIn P G O 1 e3 (.ext [13, 10] 11 false [(.var 1), (.var 3), (.slice (.var 12) (.len (.var 4)) (.len (.var 12))), (.var 5), (.var 6), (.var 7), (.var 10)]) e4 .norm :=
    evIn_ext (vs := [rk, .int (ts : Int), bytesV z, bytesV nonce, bytesV pt, bytesV aad, bytesV (List.replicate 32 0)])
      (evalVs_cons_some (v := rk) rfl (evalVs_cons_some (v := .int (ts : Int)) rfl (evalVs_cons_some hsl
        (evalVs_cons_some (v := bytesV nonce) rfl (evalVs_cons_some (v := bytesV pt) rfl (evalVs_cons_some (v := bytesV aad) rfl
          (evalVs_cons_some (v := bytesV (List.replicate 32 0)) rfl rfl)))))))
      (by rw [hO]; rfl)
  have hhd : evalV G e4 (.slice (.var 12) (.lit 0) (.len (.var 4))) = some (bytesV dst) := by
    have := evalV_sliceB (G := G) (env := e4) (a := .var 12) (lo := .lit 0) (hi := .len (.var 4)) (x := dst ++ z)
      (l := 0) (h := dst.length) rfl rfl (evalV_lenB (x := dst) rfl) (Nat.zero_le _) (by rw [List.length_append]; omega)
    rw [this, take_head]
  have c8 : EvIn P G O 1 e4 (.assign 12 [] (.cat (.slice (.var 12) (.lit 0) (.len (.var 4))) (.var 13))) e5 .norm :=
    EvIn.assign (evalV_catB hhd (evar (v := bytesV sealed) rfl))
  have sr : evalVs G e5 [(.var 4), (.var 12)] = some [bytesV dst, bytesV (dst ++ sealed)] := rfl
  refine ⟨e5, ?_⟩
  rw [fn_0_body]
  exact (hpre _ _ _ (checks2 k2 k3 (EvIn.seq c6 (EvIn.seq c7 (EvIn.seq c8 (EvIn.seq_stop (EvIn.ret sr) (by simp))))))).mono
    (by simp only [fuelSealAmd64]; omega)

/-- **Seal (amd64) computes the specification**: the IR function, started on the receiver fields, `dst`, a nonce of the
    configured size, a plaintext inside the GCM bound, any additional data and the capacity of `dst`, returns `dst`
    (unchanged) and `dst ‖ sealGCM E tagSize nonce plaintext additionalData`.  `0 < |pt| + tagSize` is what Go needs for
    `&ret[len(dst)]` (weaker than NewGCM's `12 ≤ tagSize`); see `ir_Seal_amd64_stuck_empty`. -/
theorem ir_Seal_amd64_eq_spec (h0 : P[0]? = some fn_0) (h1 : P[1]? = some fn_1) (hL : LeafOkAmd64 O E rk) (c : Val)
    (ns ts cap : Nat) (dst nonce pt aad : Bytes)
    (hn : nonce.length = ns) (hp : pt.length ≤ maxPlain) (hts : ts ≤ 16) (hne : 0 < pt.length + ts)
    (hc : dst.length ≤ cap) (hcap : cap < 2 ^ 62) :
    Computes P G O 0 fuelSealAmd64 (glueArgs c rk ns ts dst nonce pt aad cap)
      [bytesV dst, bytesV (dst ++ sealGCM E ts nonce pt aad)] := by
  obtain ⟨env', hb⟩ := seal_body (G := G) h1 hL c ns ts cap dst nonce pt aad hn hp hts hne hc hcap
  exact Computes.of_body h0 rfl rfl hb

/-- **the Go index panic of Seal**: tag size 0 and an empty plaintext — `ret` is `dst` itself and `&ret[len(dst)]` is out
    of range: the run is STUCK with every fuel (outside NewGCM's range of tag sizes) -/
theorem ir_Seal_amd64_stuck_empty (h0 : P[0]? = some fn_0) (h1 : P[1]? = some fn_1) (hL : LeafOkAmd64 O E rk) (c : Val)
    (ns cap : Nat) (dst nonce aad : Bytes) (hn : nonce.length = ns) (hc : dst.length ≤ cap) (hcap : cap < 2 ^ 62) :
    ∀ f, runV P G O f 0 (glueArgs c rk ns 0 dst nonce [] aad cap) = .stuck := by
  obtain ⟨w, ws, hrk⟩ := hL.rk_ne
  have hpre := (seal_pre (G := G) h1 hL c ns 0 cap dst nonce [] aad w ws hrk hn (Nat.zero_le _) (by omega) hc hcap sealRest).2
  refine runV_of_Stuck h0 ?_
  rw [fn_0_body]
  refine hpre (Stuck.seq_left (Stuck.assign ?_))
  exact ev_idx_none (G := G) (env := sealEnv c rk ns 0 dst nonce [] aad cap w) (a := .var 12) (i := .len (.var 4))
    (x := dst ++ List.replicate (([] : Bytes).length + 0) 0) (k := dst.length) rfl (evalV_lenB (x := dst) rfl) (by simp)

/-- Seal panics on a nonce of the wrong length ("incorrect nonce length given to GCM") -/
theorem ir_Seal_amd64_panic_nonce (h0 : P[0]? = some fn_0) (c : Val) (ns ts cap : Nat) (dst nonce pt aad : Bytes)
    (hn : nonce.length ≠ ns) : ∀ f, 4 ≤ f → runV P G O f 0 (glueArgs c rk ns ts dst nonce pt aad cap) = .panic := by
  refine runV_of_EvIn (env' := Env.ofList (glueArgs c rk ns ts dst nonce pt aad cap)) h0 rfl rfl ?_
  rw [fn_0_body]
  exact (EvIn.seq_stop (ite_true (ev_op2 (evalV_lenB (x := nonce) rfl) (evar (v := .int (ns : Int)) rfl) rfl)
    (bne_iff_ne.mpr (by omega)) (EvIn.panic _)) (by simp)).mono (by omega)

/-- Seal panics on a plaintext beyond the GCM bound ("message too large for GCM") -/
theorem ir_Seal_amd64_panic_long (h0 : P[0]? = some fn_0) (c : Val) (ns ts cap : Nat) (dst nonce pt aad : Bytes)
    (hn : nonce.length = ns) (hp : maxPlain < pt.length) (hp63 : pt.length < 2 ^ 63) :
    ∀ f, 7 ≤ f → runV P G O f 0 (glueArgs c rk ns ts dst nonce pt aad cap) = .panic := by
  have hp' : 68719476704 < pt.length := hp
  refine runV_of_EvIn (env' := Env.ofList (glueArgs c rk ns ts dst nonce pt aad cap)) h0 rfl rfl ?_
  rw [fn_0_body]
  subst hn
  exact (EvIn.seq
    (ite_false (ev_op2 (evalV_lenB (x := nonce) rfl) (evar (v := .int (nonce.length : Int)) rfl) rfl) (by simp) (EvIn.skip _))
    (EvIn.seq_stop (ite_true (ev_op2 (ev_conv_u64 (evalV_lenB (x := pt) rfl) (by omega)) rfl rfl) (decide_eq_true (by omega))
      (EvIn.panic _)) (by simp))).mono (by omega)

end Seal

/-! ## `Open` (fn_2) -/

def openErr : Stmt := .ret [(.var 4), (.mk (.lit 0) (.lit 0)), (.glob 0)]
/-- frame record, `openAsm(…, &ret[len(dst)], …)`, the result -/
def openDo1 : Stmt :=
  .seq (.ext [] 0 true [(.lit 10), (.var 3), (.len (.var 5)), (.len (.var 6)), (.len (.var 7))])
  (.seq (.ext [14, 10, 15] 10 false [(.var 1), (.var 3), (.slice (.var 12) (.len (.var 4)) (.len (.var 12))), (.var 5), (.var 6), (.var 7), (.var 10)])
  (.seq (.assign 12 [] (.cat (.slice (.var 12) (.lit 0) (.len (.var 4))) (.var 14)))
    (.assign 13 [] (.var 15))))
/-- frame record, `openAsm(…, nil, …)`, the result -/
def openDo2 : Stmt :=
  .seq (.ext [] 0 true [(.lit 10), (.var 3), (.len (.var 5)), (.len (.var 6)), (.len (.var 7))])
  (.seq (.ext [9, 10, 16] 10 false [(.var 1), (.var 3), (.mk (.lit 0) (.lit 0)), (.var 5), (.var 6), (.var 7), (.var 10)])
    (.assign 13 [] (.var 16)))
/-- the bounds checks of `&g.roundKeys[0]`, `&ret[len(dst)]`, `&temp[0]`, then the call -/
def openCall1 : Stmt :=
  .seq (.assign 9 [] (.idxc (.var 1) 0)) (.seq (.assign 9 [] (.idx (.var 12) (.len (.var 4))))
    (.seq (.assign 9 [] (.idxc (.var 10) 0)) openDo1))
/-- the bounds checks of `&g.roundKeys[0]`, `&temp[0]` (the destination is nil), then the call -/
def openCall2 : Stmt :=
  .seq (.assign 9 [] (.idxc (.var 1) 0)) (.seq (.assign 9 [] (.idxc (.var 10) 0)) openDo2)
/-- line 46 of sm4_gcm_amd64.go: `if len(ret) > len(dst)` -/
def openBranch : Stmt := .ite (.op2 .gt (.len (.var 12)) (.len (.var 4))) openCall1 openCall2
def openTail : Stmt :=
  .seq (.declass 17 0 (.op2 .ne (.var 13) (.lit 1)))
  (.seq (.ite (.var 17) openErr .skip)
  (.seq (.ret [(.var 4), (.var 12), (.lit 0)]) .panic))

/-- Open up to `var tagMatch int` -/
def openPrefix (rest : Stmt) : Stmt :=
    .seq (.ite (.op2 .ne (.len (.var 5)) (.var 2)) (.panic) .skip)
    (.seq (.ite (.op2 .lt (.var 3) (.lit 12)) (.panic) .skip)
    (.seq (.ite (.op2 .lt (.len (.var 6)) (.var 3)) openErr .skip)
    (.seq (.ite (.op2 .gt (.op1 (.conv .u64) (.len (.var 6))) (.op2 (.add .u64) (.lit 68719476704) (.op1 (.conv .u64) (.var 3)))) openErr .skip)
    (.seq (.assign 10 [] (.mk (.lit 32) (.lit 0)))
    (.seq (.call [4, 11] 1 [(.var 4), (.op2 (.sub .i64) (.len (.var 6)) (.var 3)), (.var 8)])
    (.seq (.assign 12 [] (.var 11))
    (.seq (.assign 13 [] (.lit 0)) rest)))))))

theorem fn_2_body : fn_2.body = openPrefix (.seq openBranch openTail) := rfl

/-- MUTANT of line 46: `>=` instead of `>` (takes `&ret[len(dst)]` of an empty tail) -/
def openBranchMut : Stmt := .ite (.op2 .ge (.len (.var 12)) (.len (.var 4))) openCall1 openCall2
/-- `fn_2` with the guard of line 46 changed from `.gt` to `.ge`, nothing else -/
def fn_2_mut : Fn := { nparams := 9, nvars := 18, body := openPrefix (.seq openBranchMut openTail) }

/-- fuel for `Open` -/
def fuelOpenAmd64 : Nat := fuelEnsAmd64 + 42

/-- `sm4.errOpen` in the generated program: the non-nil error value 1 -/
theorem globals0 : GX 0 = .int 1 := by rfl

/-- the environment of Open before the call of `openAsm`: `temp` (10) zeroed, `ret` (12) = `dst` extended by
    |ct| − tagSize zero bytes, `tagMatch` (13) = 0 -/
def openEnv (c rk : Val) (ns ts : Nat) (dst nonce ct aad : Bytes) (cap : Nat) : Env :=
  (((((Env.ofList (glueArgs c rk ns ts dst nonce ct aad cap)).set 10 (bytesV (List.replicate 32 0))).set 4 (bytesV dst)).set 11
    (bytesV (dst ++ List.replicate (ct.length - ts) 0))).set 12 (bytesV (dst ++ List.replicate (ct.length - ts) 0))).set 13 (.int 0)

section Open
variable {P : Prog} {G : Nat → Val} {O : Oracle} {E : Bytes → Bytes} {rk : Val}

/-- the error return `(nil, errOpen)` -/
theorem open_err {env : Env} {dst : Bytes} (h4 : env 4 = bytesV dst) :
    EvIn P G O 1 env openErr env (.ret [bytesV dst, .arr [], G 0]) :=
  EvIn.ret (evalVs_cons_some (evar h4) (evalVs_cons_some (v := .arr []) rfl (evalVs_cons_some (v := G 0) rfl rfl)))

/-- the tail of Open after `tagMatch = 1` -/
theorem open_tail_ok {env : Env} {dst R : Bytes} (h4 : env 4 = bytesV dst) (h12 : env 12 = bytesV R) (h13 : env 13 = .int 1) :
    ∃ env', EvIn P G O 7 env openTail env' (.ret [bytesV dst, bytesV R, .int 0]) := by
  have d : EvIn P G O 1 env (.declass 17 0 (.op2 .ne (.var 13) (.lit 1))) (env.set 17 (.int (ofBool ((1 : Int) != 1)))) .norm :=
    EvIn.declass (ev_op2 (evar h13) rfl rfl)
  have i : EvIn P G O 2 (env.set 17 (.int (ofBool ((1 : Int) != 1)))) (.ite (.var 17) openErr .skip)
      (env.set 17 (.int (ofBool ((1 : Int) != 1)))) .norm :=
    ite_false (β := ((1 : Int) != 1)) rfl rfl (EvIn.skip _)
  have sr : evalVs G (env.set 17 (.int (ofBool ((1 : Int) != 1)))) [(.var 4), (.var 12), (.lit 0)]
      = some [bytesV dst, bytesV R, .int 0] :=
    evalVs_cons_some (evar (by show env 4 = _; exact h4)) (evalVs_cons_some (evar (by show env 12 = _; exact h12))
      (evalVs_cons_some (v := .int 0) rfl rfl))
  exact ⟨_, EvIn.seq d (EvIn.seq i (EvIn.seq_stop (EvIn.ret sr) (by simp)))⟩

/-- the tail of Open after `tagMatch = 0` -/
theorem open_tail_err {env : Env} {dst : Bytes} (h4 : env 4 = bytesV dst) (h13 : env 13 = .int 0) :
    ∃ env', EvIn P G O 7 env openTail env' (.ret [bytesV dst, .arr [], G 0]) := by
  have d : EvIn P G O 1 env (.declass 17 0 (.op2 .ne (.var 13) (.lit 1))) (env.set 17 (.int (ofBool ((0 : Int) != 1)))) .norm :=
    EvIn.declass (ev_op2 (evar h13) rfl rfl)
  have i : EvIn P G O 2 (env.set 17 (.int (ofBool ((0 : Int) != 1)))) (.ite (.var 17) openErr .skip)
      (env.set 17 (.int (ofBool ((0 : Int) != 1)))) (.ret [bytesV dst, .arr [], G 0]) :=
    ite_true (β := ((0 : Int) != 1)) rfl rfl (open_err (by show env 4 = _; exact h4))
  exact ⟨_, (EvIn.seq d (EvIn.seq_stop i (by simp))).mono (by omega)⟩

theorem open_frame (hL : LeafOkAmd64 O E rk) (c : Val) (ns ts cap : Nat) (dst nonce ct aad : Bytes) (v : Val) :
    EvIn P G O 1 ((openEnv c rk ns ts dst nonce ct aad cap).set 9 v)
      (.ext [] 0 true [(.lit 10), (.var 3), (.len (.var 5)), (.len (.var 6)), (.len (.var 7))])
      ((openEnv c rk ns ts dst nonce ct aad cap).set 9 v) .norm :=
  evIn_frame hL.frame (evalVs_cons_some (v := .int 10) rfl (evalVs_cons_some (v := .int (ts : Int)) rfl
    (evalVs_cons_some (evalV_lenB (x := nonce) rfl) (evalVs_cons_some (evalV_lenB (x := ct) rfl)
      (evalVs_cons_some (evalV_lenB (x := aad) rfl) rfl)))))

/-- the comparison `len(ret) > len(dst)` -/
theorem open_cond (c : Val) (ns ts cap : Nat) (dst nonce ct aad : Bytes) :
    evalV G (openEnv c rk ns ts dst nonce ct aad cap) (.op2 .gt (.len (.var 12)) (.len (.var 4)))
      = some (.int (ofBool (decide ((dst.length : Int) < ((dst ++ List.replicate (ct.length - ts) (0 : UInt8)).length : Int))))) :=
  ev_op2 (evalV_lenB (x := dst ++ List.replicate (ct.length - ts) 0) rfl) (evalV_lenB (x := dst) rfl) rfl

theorem open_args1 (c : Val) (ns ts cap : Nat) (dst nonce ct aad : Bytes) (v : Val) :
    evalVs G ((openEnv c rk ns ts dst nonce ct aad cap).set 9 v)
      [(.var 1), (.var 3), (.slice (.var 12) (.len (.var 4)) (.len (.var 12))), (.var 5), (.var 6), (.var 7), (.var 10)]
    = some [rk, .int (ts : Int), bytesV (List.replicate (ct.length - ts) 0), bytesV nonce, bytesV ct, bytesV aad,
        bytesV (List.replicate 32 0)] := by
  have hsl : evalV G ((openEnv c rk ns ts dst nonce ct aad cap).set 9 v) (.slice (.var 12) (.len (.var 4)) (.len (.var 12)))
      = some (bytesV (List.replicate (ct.length - ts) 0)) := by
    have := evalV_sliceB (G := G) (env := (openEnv c rk ns ts dst nonce ct aad cap).set 9 v) (a := .var 12) (lo := .len (.var 4))
      (hi := .len (.var 12)) (x := dst ++ List.replicate (ct.length - ts) 0)
      (l := dst.length) (h := (dst ++ List.replicate (ct.length - ts) (0 : UInt8)).length) rfl (evalV_lenB (x := dst) rfl)
      (evalV_lenB (x := dst ++ List.replicate (ct.length - ts) 0) rfl)
      (by rw [List.length_append]; omega) (Nat.le_refl _)
    rw [this, drop_tail]
  exact evalVs_cons_some (v := rk) rfl (evalVs_cons_some (v := .int (ts : Int)) rfl (evalVs_cons_some hsl
    (evalVs_cons_some (v := bytesV nonce) rfl (evalVs_cons_some (v := bytesV ct) rfl (evalVs_cons_some (v := bytesV aad) rfl
      (evalVs_cons_some (v := bytesV (List.replicate 32 0)) rfl rfl))))))

theorem open_args2 (c : Val) (ns ts cap : Nat) (dst nonce ct aad : Bytes) (v : Val) :
    evalVs G ((openEnv c rk ns ts dst nonce ct aad cap).set 9 v)
      [(.var 1), (.var 3), (.mk (.lit 0) (.lit 0)), (.var 5), (.var 6), (.var 7), (.var 10)]
    = some [rk, .int (ts : Int), bytesV [], bytesV nonce, bytesV ct, bytesV aad, bytesV (List.replicate 32 0)] :=
  evalVs_cons_some (v := rk) rfl (evalVs_cons_some (v := .int (ts : Int)) rfl (evalVs_cons_some (evalV_mkBytes (L := 0) rfl)
    (evalVs_cons_some (v := bytesV nonce) rfl (evalVs_cons_some (v := bytesV ct) rfl (evalVs_cons_some (v := bytesV aad) rfl
      (evalVs_cons_some (v := bytesV (List.replicate 32 0)) rfl rfl))))))

/-- the bounds checks in front of `openAsm(…, &ret[len(dst)], …)` pass when the tail of `ret` is not empty (`v`: the last
    value read into the blank variable) -/
theorem open_checks1 (hL : LeafOkAmd64 O E rk) (c : Val) (ns ts cap : Nat) (dst nonce ct aad : Bytes) (hlen : ts < ct.length) :
    ∃ v, ∀ (F : Nat) (env' : Env) (r : Ctl), EvIn P G O F ((openEnv c rk ns ts dst nonce ct aad cap).set 9 v) openDo1 env' r →
      EvIn P G O (F + 6) (openEnv c rk ns ts dst nonce ct aad cap) openCall1 env' r := by
  obtain ⟨w, ws, hrk⟩ := hL.rk_ne
  have k1 : evalV G (openEnv c rk ns ts dst nonce ct aad cap) (.idxc (.var 1) 0) = some w :=
    ev_idxc0_arr (ws := ws) (by rw [← hrk]; rfl)
  obtain ⟨v2, k2⟩ := ev_idx_bytes (G := G) (env := (openEnv c rk ns ts dst nonce ct aad cap).set 9 w) (a := .var 12)
    (i := .len (.var 4)) (x := dst ++ List.replicate (ct.length - ts) 0) (k := dst.length) rfl (evalV_lenB (x := dst) rfl)
    (by rw [List.length_append, List.length_replicate]; omega)
  obtain ⟨v3, k3⟩ := ev_idxc0 (G := G) (env := (openEnv c rk ns ts dst nonce ct aad cap).set 9 v2) (a := .var 10)
    (x := List.replicate 32 0) rfl (by simp)
  exact ⟨v3, fun F env' r h => checks3 k1 k2 k3 h⟩

/-- the bounds checks in front of `openAsm(…, nil, …)` -/
theorem open_checks2 (hL : LeafOkAmd64 O E rk) (c : Val) (ns ts cap : Nat) (dst nonce ct aad : Bytes) :
    ∃ v, ∀ (F : Nat) (env' : Env) (r : Ctl), EvIn P G O F ((openEnv c rk ns ts dst nonce ct aad cap).set 9 v) openDo2 env' r →
      EvIn P G O (F + 4) (openEnv c rk ns ts dst nonce ct aad cap) openCall2 env' r := by
  obtain ⟨w, ws, hrk⟩ := hL.rk_ne
  have k1 : evalV G (openEnv c rk ns ts dst nonce ct aad cap) (.idxc (.var 1) 0) = some w :=
    ev_idxc0_arr (ws := ws) (by rw [← hrk]; rfl)
  obtain ⟨v3, k3⟩ := ev_idxc0 (G := G) (env := (openEnv c rk ns ts dst nonce ct aad cap).set 9 w) (a := .var 10)
    (x := List.replicate 32 0) rfl (by simp)
  exact ⟨v3, fun F env' r h => checks2 k1 k3 h⟩

/-- `openAsm(…, &ret[len(dst)], …)`, accepted -/
theorem open_do1_ok (hL : LeafOkAmd64 O E rk) (c : Val) (ns ts cap : Nat) (dst nonce ct aad pt : Bytes)
    (hts' : ts ≤ 16) (htc : ts ≤ ct.length) (hcl : ct.length ≤ maxPlain + ts) (ho : openGCM E ts nonce ct aad = some pt) :
    ∃ temp' : Bytes, ∀ v, EvIn P G O 7 ((openEnv c rk ns ts dst nonce ct aad cap).set 9 v) openDo1
      (((((((openEnv c rk ns ts dst nonce ct aad cap).set 9 v).set 14 (bytesV pt)).set 10 (bytesV temp')).set 15 (.int 1)).set 12
        (bytesV (dst ++ pt))).set 13 (.int 1)) .norm := by
  obtain ⟨temp', hO⟩ := hL.openOk ts (List.replicate (ct.length - ts) 0) nonce ct aad (List.replicate 32 0) pt hts' htc hcl
    (by simp) (by simp) ho
  refine ⟨temp', fun v => ?_⟩
  let e0 := (openEnv c rk ns ts dst nonce ct aad cap).set 9 v
  let e1 := ((e0.set 14 (bytesV pt)).set 10 (bytesV temp')).set 15 (.int 1)
  let e2 := e1.set 12 (bytesV (dst ++ pt))
  let e3 := e2.set 13 (.int 1)
  have x1 : EvIn P G O 1 e0 (.ext [14, 10, 15] 10 false [(.var 1), (.var 3), (.slice (.var 12) (.len (.var 4)) (.len (.var 12))), (.var 5), (.var 6), (.var 7), (.var 10)]) e1 .norm :=
    evIn_ext (open_args1 c ns ts cap dst nonce ct aad v) (by rw [hO]; rfl)
  have hhd : evalV G e1 (.slice (.var 12) (.lit 0) (.len (.var 4))) = some (bytesV dst) := by
    have := evalV_sliceB (G := G) (env := e1) (a := .var 12) (lo := .lit 0) (hi := .len (.var 4))
      (x := dst ++ List.replicate (ct.length - ts) 0)
      (l := 0) (h := dst.length) rfl rfl (evalV_lenB (x := dst) rfl) (Nat.zero_le _) (by rw [List.length_append]; omega)
    rw [this, take_head]
  have x2 : EvIn P G O 1 e1 (.assign 12 [] (.cat (.slice (.var 12) (.lit 0) (.len (.var 4))) (.var 14))) e2 .norm :=
    EvIn.assign (evalV_catB hhd (evar (v := bytesV pt) rfl))
  have x3 : EvIn P G O 1 e2 (.assign 13 [] (.var 15)) e3 .norm := EvIn.assign (v := .int 1) rfl
  exact EvIn.seq (open_frame hL c ns ts cap dst nonce ct aad v) (EvIn.seq x1 (EvIn.seq x2 x3))

/-- `openAsm(…, &ret[len(dst)], …)`, rejected -/
theorem open_do1_fail (hL : LeafOkAmd64 O E rk) (c : Val) (ns ts cap : Nat) (dst nonce ct aad : Bytes)
    (hts' : ts ≤ 16) (htc : ts ≤ ct.length) (hcl : ct.length ≤ maxPlain + ts) (ho : openGCM E ts nonce ct aad = none) :
    ∃ dst' temp' : Bytes, ∀ v, EvIn P G O 7 ((openEnv c rk ns ts dst nonce ct aad cap).set 9 v) openDo1
      (((((((openEnv c rk ns ts dst nonce ct aad cap).set 9 v).set 14 (bytesV dst')).set 10 (bytesV temp')).set 15 (.int 0)).set 12
        (bytesV (dst ++ dst'))).set 13 (.int 0)) .norm := by
  obtain ⟨dst', temp', hO⟩ := hL.openFail ts (List.replicate (ct.length - ts) 0) nonce ct aad (List.replicate 32 0) hts' htc hcl
    (by simp) (by simp) ho
  refine ⟨dst', temp', fun v => ?_⟩
  let e0 := (openEnv c rk ns ts dst nonce ct aad cap).set 9 v
  let e1 := ((e0.set 14 (bytesV dst')).set 10 (bytesV temp')).set 15 (.int 0)
  let e2 := e1.set 12 (bytesV (dst ++ dst'))
  let e3 := e2.set 13 (.int 0)
  have x1 : EvIn P G O 1 e0 (.ext [14, 10, 15] 10 false [(.var 1), (.var 3), (.slice (.var 12) (.len (.var 4)) (.len (.var 12))), (.var 5), (.var 6), (.var 7), (.var 10)]) e1 .norm :=
    evIn_ext (open_args1 c ns ts cap dst nonce ct aad v) (by rw [hO]; rfl)
  have hhd : evalV G e1 (.slice (.var 12) (.lit 0) (.len (.var 4))) = some (bytesV dst) := by
    have := evalV_sliceB (G := G) (env := e1) (a := .var 12) (lo := .lit 0) (hi := .len (.var 4))
      (x := dst ++ List.replicate (ct.length - ts) 0)
      (l := 0) (h := dst.length) rfl rfl (evalV_lenB (x := dst) rfl) (Nat.zero_le _) (by rw [List.length_append]; omega)
    rw [this, take_head]
  have x2 : EvIn P G O 1 e1 (.assign 12 [] (.cat (.slice (.var 12) (.lit 0) (.len (.var 4))) (.var 14))) e2 .norm :=
    EvIn.assign (evalV_catB hhd (evar (v := bytesV dst') rfl))
  have x3 : EvIn P G O 1 e2 (.assign 13 [] (.var 15)) e3 .norm := EvIn.assign (v := .int 0) rfl
  exact EvIn.seq (open_frame hL c ns ts cap dst nonce ct aad v) (EvIn.seq x1 (EvIn.seq x2 x3))

/-- `openAsm(…, nil, …)` with integer result `m` -/
theorem open_do2 (hL : LeafOkAmd64 O E rk) (c : Val) (ns ts cap : Nat) (dst nonce ct aad : Bytes) (d' temp' : Bytes) (m : Int)
    (hO : O 10 [rk, .int (ts : Int), bytesV [], bytesV nonce, bytesV ct, bytesV aad, bytesV (List.replicate 32 0)]
      = [bytesV d', bytesV temp', .int m]) (v : Val) :
    EvIn P G O 5 ((openEnv c rk ns ts dst nonce ct aad cap).set 9 v) openDo2
      ((((((openEnv c rk ns ts dst nonce ct aad cap).set 9 v).set 9 (bytesV d')).set 10 (bytesV temp')).set 16 (.int m)).set 13 (.int m))
      .norm := by
  let e0 := (openEnv c rk ns ts dst nonce ct aad cap).set 9 v
  let e1 := ((e0.set 9 (bytesV d')).set 10 (bytesV temp')).set 16 (.int m)
  have x1 : EvIn P G O 1 e0 (.ext [9, 10, 16] 10 false [(.var 1), (.var 3), (.mk (.lit 0) (.lit 0)), (.var 5), (.var 6), (.var 7), (.var 10)]) e1 .norm :=
    evIn_ext (open_args2 c ns ts cap dst nonce ct aad v) (by rw [hO]; rfl)
  have x2 : EvIn P G O 1 e1 (.assign 13 [] (.var 16)) (e1.set 13 (.int m)) .norm := EvIn.assign (v := .int m) rfl
  exact EvIn.seq (open_frame hL c ns ts cap dst nonce ct aad v) (EvIn.seq x1 x2)

/-- the call of `openAsm` (either shape), accepted tag: `ret` = `dst ‖ plaintext`, `tagMatch` = 1 -/
theorem open_branch_ok (hL : LeafOkAmd64 O E rk) (c : Val) (ns ts cap : Nat) (dst nonce ct aad pt : Bytes)
    (hts' : ts ≤ 16) (htc : ts ≤ ct.length) (hcl : ct.length ≤ maxPlain + ts) (ho : openGCM E ts nonce ct aad = some pt) :
    ∃ env', EvIn P G O 14 (openEnv c rk ns ts dst nonce ct aad cap) openBranch env' .norm ∧
      env' 4 = bytesV dst ∧ env' 12 = bytesV (dst ++ pt) ∧ env' 13 = .int 1 := by
  by_cases hlen : ts < ct.length
  · obtain ⟨temp', hdo⟩ := open_do1_ok (P := P) (G := G) hL c ns ts cap dst nonce ct aad pt hts' htc hcl ho
    obtain ⟨v, hchk⟩ := open_checks1 (P := P) (G := G) hL c ns ts cap dst nonce ct aad hlen
    exact ⟨_, (ite_true (open_cond c ns ts cap dst nonce ct aad)
      (decide_eq_true (by rw [List.length_append, List.length_replicate]; omega)) (hchk _ _ _ (hdo v))).mono (by omega),
      rfl, rfl, rfl⟩
  · obtain ⟨temp', hO⟩ := hL.openOk ts [] nonce ct aad (List.replicate 32 0) pt hts' htc hcl
      (by simp; omega) (by simp) ho
    have hpt : pt = [] := List.eq_nil_of_length_eq_zero (by
      rw [Proofs.GCMGlue.length_openGCM E hL.E_len ts nonce ct aad pt ho]; omega)
    have hz : List.replicate (ct.length - ts) (0 : UInt8) = [] := by
      rw [show ct.length - ts = 0 by omega]; rfl
    obtain ⟨v, hchk⟩ := open_checks2 (P := P) (G := G) hL c ns ts cap dst nonce ct aad
    refine ⟨_, (ite_false (open_cond c ns ts cap dst nonce ct aad)
      (decide_eq_false (by rw [List.length_append, List.length_replicate]; omega))
      (hchk _ _ _ (open_do2 hL c ns ts cap dst nonce ct aad pt temp' 1 hO v))).mono (by omega), rfl, ?_, rfl⟩
    show bytesV (dst ++ List.replicate (ct.length - ts) 0) = _
    rw [hz, hpt]

/-- the call of `openAsm` (either shape), rejected tag: `tagMatch` = 0 -/
theorem open_branch_fail (hL : LeafOkAmd64 O E rk) (c : Val) (ns ts cap : Nat) (dst nonce ct aad : Bytes)
    (hts' : ts ≤ 16) (htc : ts ≤ ct.length) (hcl : ct.length ≤ maxPlain + ts) (ho : openGCM E ts nonce ct aad = none) :
    ∃ env', EvIn P G O 14 (openEnv c rk ns ts dst nonce ct aad cap) openBranch env' .norm ∧
      env' 4 = bytesV dst ∧ env' 13 = .int 0 := by
  by_cases hlen : ts < ct.length
  · obtain ⟨dst', temp', hdo⟩ := open_do1_fail (P := P) (G := G) hL c ns ts cap dst nonce ct aad hts' htc hcl ho
    obtain ⟨v, hchk⟩ := open_checks1 (P := P) (G := G) hL c ns ts cap dst nonce ct aad hlen
    exact ⟨_, (ite_true (open_cond c ns ts cap dst nonce ct aad)
      (decide_eq_true (by rw [List.length_append, List.length_replicate]; omega)) (hchk _ _ _ (hdo v))).mono (by omega),
      rfl, rfl⟩
  · obtain ⟨dst', temp', hO⟩ := hL.openFail ts [] nonce ct aad (List.replicate 32 0) hts' htc hcl
      (by simp; omega) (by simp) ho
    obtain ⟨v, hchk⟩ := open_checks2 (P := P) (G := G) hL c ns ts cap dst nonce ct aad
    exact ⟨_, (ite_false (open_cond c ns ts cap dst nonce ct aad)
      (decide_eq_false (by rw [List.length_append, List.length_replicate]; omega))
      (hchk _ _ _ (open_do2 hL c ns ts cap dst nonce ct aad dst' temp' 0 hO v))).mono (by omega), rfl, rfl⟩

/-- the two panicking checks of Open pass -/
theorem open_checks (c : Val) (ns ts cap : Nat) (dst nonce ct aad : Bytes) (hn : nonce.length = ns) (hts : 12 ≤ ts) :
    EvIn P G O 2 (Env.ofList (glueArgs c rk ns ts dst nonce ct aad cap))
      (.ite (.op2 .ne (.len (.var 5)) (.var 2)) (.panic) .skip) (Env.ofList (glueArgs c rk ns ts dst nonce ct aad cap)) .norm ∧
    EvIn P G O 2 (Env.ofList (glueArgs c rk ns ts dst nonce ct aad cap))
      (.ite (.op2 .lt (.var 3) (.lit 12)) (.panic) .skip) (Env.ofList (glueArgs c rk ns ts dst nonce ct aad cap)) .norm := by
  subst hn
  exact ⟨ite_false (ev_op2 (evalV_lenB (x := nonce) rfl) (evar (v := .int (nonce.length : Int)) rfl) rfl) (by simp) (EvIn.skip _),
    ite_false (ev_op2 (evar (v := .int (ts : Int)) rfl) rfl rfl) (decide_eq_false (by omega)) (EvIn.skip _)⟩

/-- the bound `uint64(len(ciphertext)) > ((1<<32)-2)*BlockSize + uint64(tagSize)` -/
theorem open_bound (c : Val) (ns ts cap : Nat) (dst nonce ct aad : Bytes) (hts' : ts ≤ 16) (h63 : ct.length < 2 ^ 63) :
    evalV G (Env.ofList (glueArgs c rk ns ts dst nonce ct aad cap))
      (.op2 .gt (.op1 (.conv .u64) (.len (.var 6))) (.op2 (.add .u64) (.lit 68719476704) (.op1 (.conv .u64) (.var 3))))
      = some (.int (ofBool (decide ((68719476704 : Int) + (ts : Int) < (ct.length : Int))))) :=
  ev_op2 (ev_conv_u64 (evalV_lenB (x := ct) rfl) (by omega))
    (ev_op2 (n := 68719476704) (r := (68719476704 : Int) + (ts : Int)) rfl (ev_conv_u64 (evar (v := .int (ts : Int)) rfl) (by omega))
      (by simp only [evalOp2, norm]; congr 1; omega)) rfl

/-- Open from its entry to `var tagMatch int`, inside the AEAD domain: what follows (`rest`) runs in `openEnv`; both for
    completed and for stuck continuations -/
theorem open_pre (h1 : P[1]? = some fn_1) (hL : LeafOkAmd64 O E rk) (c : Val) (ns ts cap : Nat) (dst nonce ct aad : Bytes)
    (hn : nonce.length = ns) (hts : 12 ≤ ts) (hts' : ts ≤ 16) (htc' : ts ≤ ct.length) (hcl : ct.length ≤ maxPlain + ts)
    (hc : dst.length ≤ cap) (hcap : cap < 2 ^ 62) (rest : Stmt) :
    (∀ (F : Nat) (env' : Env) (r : Ctl), EvIn P G O F (openEnv c rk ns ts dst nonce ct aad cap) rest env' r →
      EvIn P G O (F + fuelEnsAmd64 + 20) (Env.ofList (glueArgs c rk ns ts dst nonce ct aad cap)) (openPrefix rest) env' r) ∧
    (Stuck P G O (openEnv c rk ns ts dst nonce ct aad cap) rest →
      Stuck P G O (Env.ofList (glueArgs c rk ns ts dst nonce ct aad cap)) (openPrefix rest)) := by
  have hcl' : ct.length ≤ 68719476704 + ts := hcl
  obtain ⟨c1, c2⟩ := open_checks (P := P) (G := G) (O := O) (rk := rk) c ns ts cap dst nonce ct aad hn hts
  let e0 : Env := Env.ofList (glueArgs c rk ns ts dst nonce ct aad cap)
  let z : Bytes := List.replicate (ct.length - ts) 0
  let e1 := e0.set 10 (bytesV (List.replicate 32 0))
  let e2 := (e1.set 4 (bytesV dst)).set 11 (bytesV (dst ++ z))
  let e3 := e2.set 12 (bytesV (dst ++ z))
  have c3 : EvIn P G O 2 e0 (.ite (.op2 .lt (.len (.var 6)) (.var 3)) openErr .skip) e0 .norm :=
    ite_false (ev_op2 (evalV_lenB (x := ct) rfl) (evar (v := .int (ts : Int)) rfl) rfl) (decide_eq_false (by omega))
      (EvIn.skip _)
  have c4 : EvIn P G O 2 e0 (.ite (.op2 .gt (.op1 (.conv .u64) (.len (.var 6))) (.op2 (.add .u64) (.lit 68719476704) (.op1 (.conv .u64) (.var 3)))) openErr .skip) e0 .norm :=
    ite_false (open_bound c ns ts cap dst nonce ct aad hts' (by omega)) (decide_eq_false (by omega)) (EvIn.skip _)
  have c5 : EvIn P G O 1 e0 (.assign 10 [] (.mk (.lit 32) (.lit 0))) e1 .norm := EvIn.assign (evalV_mkBytes (L := 32) rfl)
  have hsub : evalV G e1 (.op2 (.sub .i64) (.len (.var 6)) (.var 3)) = some (.int ((ct.length - ts : Nat) : Int)) := by
    have := ev_sub (G := G) (evalV_lenB (G := G) (env := e1) (a := .var 6) (x := ct) rfl) (evar (env := e1) (x := 3) (v := .int (ts : Int)) rfl)
      (by omega) (by omega)
    rw [this]; congr 2; omega
  have c6 : EvIn P G O (fuelEnsAmd64 + 1) e1
      (.call [4, 11] 1 [(.var 4), (.op2 (.sub .i64) (.len (.var 6)) (.var 3)), (.var 8)]) e2 .norm :=
    (ensureCapacity_amd64_computes h1 hL dst (ct.length - ts) cap hc (by omega) (by omega)).call
      (evalVs_cons_some (v := bytesV dst) rfl (evalVs_cons_some hsub (evalVs_cons_some (v := .int (cap : Int)) rfl rfl))) rfl
  have c7 : EvIn P G O 1 e2 (.assign 12 [] (.var 11)) e3 .norm := EvIn.assign (v := bytesV (dst ++ z)) rfl
  have c8 : EvIn P G O 1 e3 (.assign 13 [] (.lit 0)) (openEnv c rk ns ts dst nonce ct aad cap) .norm :=
    EvIn.assign (v := .int 0) rfl
  refine ⟨fun F env' r hrest => ?_, fun hrest => ?_⟩
  · exact (EvIn.seq c1 (EvIn.seq c2 (EvIn.seq c3 (EvIn.seq c4 (EvIn.seq c5 (EvIn.seq c6 (EvIn.seq c7 (EvIn.seq c8 hrest)))))))).mono
      (by omega)
  · exact Stuck.seq_right c1 (Stuck.seq_right c2 (Stuck.seq_right c3 (Stuck.seq_right c4 (Stuck.seq_right c5
      (Stuck.seq_right c6 (Stuck.seq_right c7 (Stuck.seq_right c8 hrest)))))))

/-- BODY LEVEL: Open inside the AEAD domain -/
theorem open_body (h1 : P[1]? = some fn_1) (hL : LeafOkAmd64 O E rk) (c : Val) (ns ts cap : Nat) (dst nonce ct aad : Bytes)
    (hn : nonce.length = ns) (hts : 12 ≤ ts) (hts' : ts ≤ 16) (hcl : ct.length ≤ maxPlain + ts)
    (hc : dst.length ≤ cap) (hcap : cap < 2 ^ 62) :
    ∃ env', EvIn P G O fuelOpenAmd64 (Env.ofList (glueArgs c rk ns ts dst nonce ct aad cap)) fn_2.body env'
      (.ret (match openGCM E ts nonce ct aad with
        | some pt => [bytesV dst, bytesV (dst ++ pt), .int 0]
        | none => [bytesV dst, .arr [], G 0])) := by
  by_cases htc : ct.length < ts
  · -- shorter than a tag: `(nil, errOpen)`; Algorithm 5 fails
    obtain ⟨c1, c2⟩ := open_checks (P := P) (G := G) (O := O) (rk := rk) c ns ts cap dst nonce ct aad hn hts
    rw [show openGCM E ts nonce ct aad = none by simp [openGCM, htc], fn_2_body]
    have c3 : EvIn P G O 2 (Env.ofList (glueArgs c rk ns ts dst nonce ct aad cap))
        (.ite (.op2 .lt (.len (.var 6)) (.var 3)) openErr .skip) (Env.ofList (glueArgs c rk ns ts dst nonce ct aad cap))
        (.ret [bytesV dst, .arr [], G 0]) :=
      ite_true (ev_op2 (evalV_lenB (x := ct) rfl) (evar (v := .int (ts : Int)) rfl) rfl) (decide_eq_true (by omega))
        (open_err rfl)
    exact ⟨_, (EvIn.seq c1 (EvIn.seq c2 (EvIn.seq_stop c3 (by simp)))).mono (by simp only [fuelOpenAmd64]; omega)⟩
  · have htc' : ts ≤ ct.length := by omega
    have hpre := (open_pre (G := G) h1 hL c ns ts cap dst nonce ct aad hn hts hts' htc' hcl hc hcap (.seq openBranch openTail)).1
    rw [fn_2_body]
    cases ho : openGCM E ts nonce ct aad with
    | some pt =>
      obtain ⟨e5, hbr, g4, g12, g13⟩ := open_branch_ok (P := P) (G := G) hL c ns ts cap dst nonce ct aad pt hts' htc' hcl ho
      obtain ⟨e6, htl⟩ := open_tail_ok (P := P) (G := G) (O := O) g4 g12 g13
      exact ⟨e6, (hpre _ _ _ (EvIn.seq hbr htl)).mono (by simp only [fuelOpenAmd64]; omega)⟩
    | none =>
      obtain ⟨e5, hbr, g4, g13⟩ := open_branch_fail (P := P) (G := G) hL c ns ts cap dst nonce ct aad hts' htc' hcl ho
      obtain ⟨e6, htl⟩ := open_tail_err (P := P) (G := G) (O := O) g4 g13
      exact ⟨e6, (hpre _ _ _ (EvIn.seq hbr htl)).mono (by simp only [fuelOpenAmd64]; omega)⟩

/-- **Open (amd64) computes the specification**: on a nonce of the configured size, a tag size in 12…16 and an input
    (ciphertext ‖ tag) inside the GCM bound, the IR function returns `dst` (unchanged) and
    `(dst ‖ plaintext, nil)` when Algorithm 5 returns a plaintext, `(nil, errOpen)` when it fails (`G 0` = errOpen;
    `globals0`: 1 in the generated program).  Inputs shorter than a tag are part of the statement (`openGCM` fails). -/
theorem ir_Open_amd64_eq_spec (h1 : P[1]? = some fn_1) (h2 : P[2]? = some fn_2) (hL : LeafOkAmd64 O E rk) (c : Val)
    (ns ts cap : Nat) (dst nonce ct aad : Bytes)
    (hn : nonce.length = ns) (hts : 12 ≤ ts) (hts' : ts ≤ 16) (hcl : ct.length ≤ maxPlain + ts)
    (hc : dst.length ≤ cap) (hcap : cap < 2 ^ 62) :
    Computes P G O 2 fuelOpenAmd64 (glueArgs c rk ns ts dst nonce ct aad cap)
      (match openGCM E ts nonce ct aad with
        | some pt => [bytesV dst, bytesV (dst ++ pt), .int 0]
        | none => [bytesV dst, .arr [], G 0]) := by
  obtain ⟨env', hb⟩ := open_body (G := G) h1 hL c ns ts cap dst nonce ct aad hn hts hts' hcl hc hcap
  exact Computes.of_body h2 rfl rfl hb

/-- the empty plaintext: an input that is a valid tag only — `openAsm` is called with a nil destination and Open returns
    `(dst, nil)` -/
theorem ir_Open_amd64_tag_only (h1 : P[1]? = some fn_1) (h2 : P[2]? = some fn_2) (hL : LeafOkAmd64 O E rk) (c : Val)
    (ns ts cap : Nat) (dst nonce ct aad pt : Bytes)
    (hn : nonce.length = ns) (hts : 12 ≤ ts) (hts' : ts ≤ 16) (hct : ct.length = ts)
    (hc : dst.length ≤ cap) (hcap : cap < 2 ^ 62) (ho : openGCM E ts nonce ct aad = some pt) :
    Computes P G O 2 fuelOpenAmd64 (glueArgs c rk ns ts dst nonce ct aad cap) [bytesV dst, bytesV dst, .int 0] := by
  have h := ir_Open_amd64_eq_spec (G := G) h1 h2 hL c ns ts cap dst nonce ct aad hn hts hts' (by omega) hc hcap
  have hpt : pt = [] := List.eq_nil_of_length_eq_zero (by
    rw [Proofs.GCMGlue.length_openGCM E hL.E_len ts nonce ct aad pt ho]; omega)
  subst hpt
  rw [ho] at h
  simp only [List.append_nil] at h
  exact h

theorem stuck_ite_true {env : Env} {c : Expr} {a b : Stmt} {β : Bool}
    (hc : evalV G env c = some (.int (ofBool β))) (hβ : β = true) (h : Stuck P G O env a) : Stuck P G O env (.ite c a b) := by
  subst hβ; exact Stuck.ite hc (asBool_ofBool _) h

/-- **the MUTANT is told apart**: with the guard of line 46 changed to `>=`, Open on an input that is a tag only takes
    `&ret[len(dst)]` of an empty tail — a Go index panic: the run of `fn_2_mut` is STUCK with every fuel (whatever the tag),
    whereas `fn_2` returns `(dst, nil)` on a valid tag (`ir_Open_amd64_tag_only`) -/
theorem ir_Open_amd64_mutant_stuck (h1 : P[1]? = some fn_1) (h2 : P[2]? = some fn_2_mut) (hL : LeafOkAmd64 O E rk) (c : Val)
    (ns ts cap : Nat) (dst nonce ct aad : Bytes)
    (hn : nonce.length = ns) (hts : 12 ≤ ts) (hts' : ts ≤ 16) (hct : ct.length = ts)
    (hc : dst.length ≤ cap) (hcap : cap < 2 ^ 62) :
    ∀ f, runV P G O f 2 (glueArgs c rk ns ts dst nonce ct aad cap) = .stuck := by
  have hpre := (open_pre (G := G) h1 hL c ns ts cap dst nonce ct aad hn hts hts' (by omega) (by omega) hc hcap
    (.seq openBranchMut openTail)).2
  refine runV_of_Stuck h2 (hpre (Stuck.seq_left ?_))
  obtain ⟨w, ws, hrk⟩ := hL.rk_ne
  have k1 : evalV G (openEnv c rk ns ts dst nonce ct aad cap) (.idxc (.var 1) 0) = some w :=
    ev_idxc0_arr (ws := ws) (by rw [← hrk]; rfl)
  have hcond : evalV G (openEnv c rk ns ts dst nonce ct aad cap) (.op2 .ge (.len (.var 12)) (.len (.var 4)))
      = some (.int (ofBool (decide ((dst.length : Int) ≤ ((dst ++ List.replicate (ct.length - ts) (0 : UInt8)).length : Int))))) :=
    ev_op2 (evalV_lenB (x := dst ++ List.replicate (ct.length - ts) 0) rfl) (evalV_lenB (x := dst) rfl) rfl
  refine stuck_ite_true hcond (decide_eq_true (by rw [List.length_append]; omega))
    (Stuck.seq_right (EvIn.assign k1) (Stuck.seq_left (Stuck.assign ?_)))
  exact ev_idx_none (G := G) (env := (openEnv c rk ns ts dst nonce ct aad cap).set 9 w) (a := .var 12) (i := .len (.var 4))
    (x := dst ++ List.replicate (ct.length - ts) 0) (k := dst.length) rfl (evalV_lenB (x := dst) rfl)
    (by rw [List.length_append, List.length_replicate]; omega)

/-- OUTSIDE the AEAD domain: an input longer than ((1<<32)-2)·16 + tagSize bytes is refused with `(nil, errOpen)` without
    calling any routine (`openGCM`, which has no length bound, may well return a plaintext there) -/
theorem ir_Open_amd64_too_long (h2 : P[2]? = some fn_2) (c : Val) (ns ts cap : Nat) (dst nonce ct aad : Bytes)
    (hn : nonce.length = ns) (hts : 12 ≤ ts) (hts' : ts ≤ 16) (hcl : maxPlain + ts < ct.length) (h63 : ct.length < 2 ^ 63) :
    Computes P G O 2 fuelOpenAmd64 (glueArgs c rk ns ts dst nonce ct aad cap) [bytesV dst, .arr [], G 0] := by
  have hcl' : 68719476704 + ts < ct.length := hcl
  obtain ⟨c1, c2⟩ := open_checks (P := P) (G := G) (O := O) (rk := rk) c ns ts cap dst nonce ct aad hn hts
  have c3 : EvIn P G O 2 (Env.ofList (glueArgs c rk ns ts dst nonce ct aad cap))
      (.ite (.op2 .lt (.len (.var 6)) (.var 3)) openErr .skip) (Env.ofList (glueArgs c rk ns ts dst nonce ct aad cap)) .norm :=
    ite_false (ev_op2 (evalV_lenB (x := ct) rfl) (evar (v := .int (ts : Int)) rfl) rfl) (decide_eq_false (by omega))
      (EvIn.skip _)
  have c4 : EvIn P G O 2 (Env.ofList (glueArgs c rk ns ts dst nonce ct aad cap))
      (.ite (.op2 .gt (.op1 (.conv .u64) (.len (.var 6))) (.op2 (.add .u64) (.lit 68719476704) (.op1 (.conv .u64) (.var 3)))) openErr .skip)
      (Env.ofList (glueArgs c rk ns ts dst nonce ct aad cap)) (.ret [bytesV dst, .arr [], G 0]) :=
    ite_true (open_bound c ns ts cap dst nonce ct aad hts' h63) (decide_eq_true (by omega)) (open_err rfl)
  refine Computes.of_body h2 rfl rfl (env' := Env.ofList (glueArgs c rk ns ts dst nonce ct aad cap)) ?_
  rw [fn_2_body]
  exact (EvIn.seq c1 (EvIn.seq c2 (EvIn.seq c3 (EvIn.seq_stop c4 (by simp))))).mono (by simp only [fuelOpenAmd64]; omega)

/-- Open panics on a nonce of the wrong length -/
theorem ir_Open_amd64_panic_nonce (h2 : P[2]? = some fn_2) (c : Val) (ns ts cap : Nat) (dst nonce ct aad : Bytes)
    (hn : nonce.length ≠ ns) : ∀ f, 4 ≤ f → runV P G O f 2 (glueArgs c rk ns ts dst nonce ct aad cap) = .panic := by
  refine runV_of_EvIn (env' := Env.ofList (glueArgs c rk ns ts dst nonce ct aad cap)) h2 rfl rfl ?_
  rw [fn_2_body]
  exact (EvIn.seq_stop (ite_true (ev_op2 (evalV_lenB (x := nonce) rfl) (evar (v := .int (ns : Int)) rfl) rfl)
    (bne_iff_ne.mpr (by omega)) (EvIn.panic _)) (by simp)).mono (by omega)

/-- Open panics on a tag size below 12 ("incorrect GCM tag size") -/
theorem ir_Open_amd64_panic_tag (h2 : P[2]? = some fn_2) (c : Val) (ns ts cap : Nat) (dst nonce ct aad : Bytes)
    (hn : nonce.length = ns) (hts : ts < 12) :
    ∀ f, 7 ≤ f → runV P G O f 2 (glueArgs c rk ns ts dst nonce ct aad cap) = .panic := by
  refine runV_of_EvIn (env' := Env.ofList (glueArgs c rk ns ts dst nonce ct aad cap)) h2 rfl rfl ?_
  rw [fn_2_body]
  subst hn
  exact (EvIn.seq
    (ite_false (ev_op2 (evalV_lenB (x := nonce) rfl) (evar (v := .int (nonce.length : Int)) rfl) rfl) (by simp) (EvIn.skip _))
    (EvIn.seq_stop (ite_true (ev_op2 (evar (v := .int (ts : Int)) rfl) rfl rfl) (decide_eq_true (by omega))
      (EvIn.panic _)) (by simp))).mono (by omega)

end Open

/-! ## Run forms for the generated amd64 program -/

section Runs
variable {G : Nat → Val} {O : Oracle} {E : Bytes → Bytes} {rk : Val}

/-- a completed run of Seal in `Amd64.prog` -/
theorem run_Seal_amd64 (hL : LeafOkAmd64 O E rk) (c : Val) (ns ts cap : Nat) (dst nonce pt aad : Bytes)
    (hn : nonce.length = ns) (hp : pt.length ≤ maxPlain) (hts : ts ≤ 16) (hne : 0 < pt.length + ts)
    (hc : dst.length ≤ cap) (hcap : cap < 2 ^ 62)
    (f : Nat) (hf : fuelSealAmd64 ≤ f) :
    ∃ t, run PX G O f 0 (glueArgs c rk ns ts dst nonce pt aad cap)
      = some (.ret [bytesV dst, bytesV (dst ++ sealGCM E ts nonce pt aad)], t) :=
  run_of_runV PX G O f _ _ _ ((ir_Seal_amd64_eq_spec (P := PX) rfl rfl hL c ns ts cap dst nonce pt aad hn hp hts hne hc hcap).runV f hf)

/-- a completed run of Open in `Amd64.prog` with its globals: accepted -/
theorem run_Open_amd64_some (hL : LeafOkAmd64 O E rk) (c : Val) (ns ts cap : Nat) (dst nonce ct aad pt : Bytes)
    (hn : nonce.length = ns) (hts : 12 ≤ ts) (hts' : ts ≤ 16) (hcl : ct.length ≤ maxPlain + ts)
    (hc : dst.length ≤ cap) (hcap : cap < 2 ^ 62) (ho : openGCM E ts nonce ct aad = some pt)
    (f : Nat) (hf : fuelOpenAmd64 ≤ f) :
    ∃ t, run PX GX O f 2 (glueArgs c rk ns ts dst nonce ct aad cap) = some (.ret [bytesV dst, bytesV (dst ++ pt), .int 0], t) := by
  have h := ir_Open_amd64_eq_spec (P := PX) (G := GX) rfl rfl hL c ns ts cap dst nonce ct aad hn hts hts' hcl hc hcap
  rw [ho] at h
  exact run_of_runV PX GX O f _ _ _ (h.runV f hf)

/-- … rejected: `(nil, errOpen)`, errOpen = 1 -/
theorem run_Open_amd64_none (hL : LeafOkAmd64 O E rk) (c : Val) (ns ts cap : Nat) (dst nonce ct aad : Bytes)
    (hn : nonce.length = ns) (hts : 12 ≤ ts) (hts' : ts ≤ 16) (hcl : ct.length ≤ maxPlain + ts)
    (hc : dst.length ≤ cap) (hcap : cap < 2 ^ 62) (ho : openGCM E ts nonce ct aad = none)
    (f : Nat) (hf : fuelOpenAmd64 ≤ f) :
    ∃ t, run PX GX O f 2 (glueArgs c rk ns ts dst nonce ct aad cap) = some (.ret [bytesV dst, .arr [], .int 1], t) := by
  have h := ir_Open_amd64_eq_spec (P := PX) (G := GX) rfl rfl hL c ns ts cap dst nonce ct aad hn hts hts' hcl hc hcap
  rw [ho, globals0] at h
  exact run_of_runV PX GX O f _ _ _ (h.runV f hf)

/-- CLOSED FORM, reference semantics: with the oracle of `semAmd64` and round-key words `rkw`, a run of Seal in the generated
    program returns `dst ‖ sealGCM (SM4 with rkw)` -/
theorem run_Seal_amd64_ref (rkw : List W32) (hrk : rkw ≠ []) (c : Val) (ns ts cap : Nat) (dst nonce pt aad : Bytes)
    (hn : nonce.length = ns) (hp : pt.length ≤ maxPlain) (hts : ts ≤ 16) (hne : 0 < pt.length + ts)
    (hc : dst.length ≤ cap) (hcap : cap < 2 ^ 62)
    (f : Nat) (hf : fuelSealAmd64 ≤ f) :
    ∃ t, run PX GX (asmOracle specsX semAmd64) f 0 (glueArgs c (.arr (rkw.map w32V)) ns ts dst nonce pt aad cap)
      = some (.ret [bytesV dst, bytesV (dst ++ sealGCM (Spec.SM4.cryptFast rkw) ts nonce pt aad)], t) :=
  run_Seal_amd64 (leafSpecAmd64_sem rkw hrk) c ns ts cap dst nonce pt aad hn hp hts hne hc hcap f hf

/-- CLOSED FORM, reference semantics: Open -/
theorem run_Open_amd64_ref (rkw : List W32) (hrk : rkw ≠ []) (c : Val) (ns ts cap : Nat) (dst nonce ct aad : Bytes)
    (hn : nonce.length = ns) (hts : 12 ≤ ts) (hts' : ts ≤ 16) (hcl : ct.length ≤ maxPlain + ts)
    (hc : dst.length ≤ cap) (hcap : cap < 2 ^ 62) (f : Nat) (hf : fuelOpenAmd64 ≤ f) :
    ∃ t, run PX GX (asmOracle specsX semAmd64) f 2 (glueArgs c (.arr (rkw.map w32V)) ns ts dst nonce ct aad cap)
      = some (.ret (match openGCM (Spec.SM4.cryptFast rkw) ts nonce ct aad with
          | some pt => [bytesV dst, bytesV (dst ++ pt), .int 0]
          | none => [bytesV dst, .arr [], .int 1]), t) := by
  cases ho : openGCM (Spec.SM4.cryptFast rkw) ts nonce ct aad with
  | some pt => exact run_Open_amd64_some (leafSpecAmd64_sem rkw hrk) c ns ts cap dst nonce ct aad pt hn hts hts' hcl hc hcap ho f hf
  | none => exact run_Open_amd64_none (leafSpecAmd64_sem rkw hrk) c ns ts cap dst nonce ct aad hn hts hts' hcl hc hcap ho f hf

end Runs

end SMGo.Proofs.CTIRRefineGCMAmd64

#print axioms SMGo.Proofs.CTIRRefineGCMAmd64.leafSpecAmd64_sem
#print axioms SMGo.Proofs.CTIRRefineGCMAmd64.ensureCapacity_amd64_computes
#print axioms SMGo.Proofs.CTIRRefineGCMAmd64.ir_Seal_amd64_eq_spec
#print axioms SMGo.Proofs.CTIRRefineGCMAmd64.ir_Seal_amd64_stuck_empty
#print axioms SMGo.Proofs.CTIRRefineGCMAmd64.ir_Open_amd64_tag_only
#print axioms SMGo.Proofs.CTIRRefineGCMAmd64.ir_Open_amd64_mutant_stuck
#print axioms SMGo.Proofs.CTIRRefineGCMAmd64.ir_Seal_amd64_panic_nonce
#print axioms SMGo.Proofs.CTIRRefineGCMAmd64.ir_Seal_amd64_panic_long
#print axioms SMGo.Proofs.CTIRRefineGCMAmd64.ir_Open_amd64_eq_spec
#print axioms SMGo.Proofs.CTIRRefineGCMAmd64.ir_Open_amd64_too_long
#print axioms SMGo.Proofs.CTIRRefineGCMAmd64.ir_Open_amd64_panic_nonce
#print axioms SMGo.Proofs.CTIRRefineGCMAmd64.ir_Open_amd64_panic_tag
#print axioms SMGo.Proofs.CTIRRefineGCMAmd64.globals0
#print axioms SMGo.Proofs.CTIRRefineGCMAmd64.run_Seal_amd64
#print axioms SMGo.Proofs.CTIRRefineGCMAmd64.run_Open_amd64_some
#print axioms SMGo.Proofs.CTIRRefineGCMAmd64.run_Open_amd64_none
#print axioms SMGo.Proofs.CTIRRefineGCMAmd64.run_Seal_amd64_ref
#print axioms SMGo.Proofs.CTIRRefineGCMAmd64.run_Open_amd64_ref
