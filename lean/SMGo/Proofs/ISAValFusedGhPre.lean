import SMGo.Proofs.ISAValFusedPrep
set_option linter.unusedSimpArgs false
namespace SMGo.Proofs.ISAVal
open SMGo.Model.ISAVal SMGo.Model.GCM SMGo.Proofs.GCM SMGo.Proofs.ISATouch
open SMGo.Model.ISA (Reg Opd Instr)

theorem list8 (l : List Nat) (h : l.length = 8) : ∃ k0 k1 k2 k3 k4 k5 k6 k7, l = [k0, k1, k2, k3, k4, k5, k6, k7] := by
  match l, h with
  | [k0, k1, k2, k3, k4, k5, k6, k7], _ => exact ⟨k0, k1, k2, k3, k4, k5, k6, k7, rfl⟩

/-- the GHASH context: reflected H, H.lo ⊕ H.hi, the reduction constant, the powers H⁴:H³:H²:H -/
structure HCtx (h : Nat) (s : State) : Prop where
  hlt : h < 2 ^ 128
  v19 : vreg s 19 = h
  v25 : lo64 (lane 128 0 (vreg s 25)) = lo64 h ^^^ hi64 h
  v26 : vreg s 26 = POLY64
  c4 : Ctx4 h s

def ghPreA : List DInstr :=
  [ins .LEAQ [.sym "GCM_POLY" 0, G 8] 0, ins .VBROADCASTI32X2 [M 8 0, R 26] 64]
def ghPreB : List DInstr :=
  [ins .LEAQ [.sym "SHUFFLE_X_LANES" 0, G 1] 0, ins .VMOVDQU32 [M 1 0, R 31] 64, ins .MOVQ [.imm 12, G 1] 0,
   ins .MOVQ [.imm 240, G 2] 0, ins .KMOVW [G 1, K 1] 0, ins .KMOVW [G 2, K 2] 0]
def ghPreC : List DInstr :=
  [ins .LEAQ [.sym "MERGE_H01" 0, G 1] 0, ins .LEAQ [.sym "MERGE_H23" 0, G 2] 0, ins .VMOVDQU32 [M 1 0, R 0] 32,
   ins .VMOVDQU32 [M 2 0, R 1] 64, ins .VPERMQ [R 5, R 0, K 1, R 29] 32, ins .VPERMQ [R 19, R 0, K 1, R 4] 32,
   ins .VPERMQ [R 4, R 1, K 2, R 29] 64]

theorem ghPre_split : ghPreCode = rbCode 16 19 1 2 ++ (ghPreA ++ (hsCode 16 19 25 ++ (ghPreB ++ (mulRedCode 16 19 25 19 4 ++
    (mulRedCode 16 19 25 4 5 ++ (mulRedCode 16 19 25 5 29 ++ (ghPreC ++ hsCode 64 29 30))))))) := by decide +kernel

def ghPreKeepG : List Nat := (List.range 16).filter (fun n => !([1, 2, 8].contains n))
def ghPreKeepV : List Nat := (List.range 32).filter (fun n => !([0, 1, 2, 3, 4, 5, 13, 19, 25, 26, 27, 28, 29, 30, 31].contains n))
def ghPreKeepK : List Nat := [0, 3, 4, 5, 6, 7]

theorem ghPre_writes : writesNone ghPreCode ghPreKeepG ghPreKeepV ghPreKeepK = true := by decide +kernel


/-- what the GHASH set-up needs from the state -/
structure GhEnv (s : State) : Prop where
  lenG : s.gpr.length = 16
  lenV : s.vec.length = 32
  lenK : s.kreg.length = 8
  syms : s.syms = symTab
  rPoly : readMem s.mem 42949672960 8 = .ok (Gen.AsmData.amd64_GCM_POLY.take 8)
  rIdx : readMem s.mem 60129542144 64 = .ok Gen.AsmData.amd64_SHUFFLE_X_LANES
  rH01 : readMem s.mem 51539607552 32 = .ok Gen.AsmData.amd64_MERGE_H01
  rH23 : readMem s.mem 55834574848 64 = .ok Gen.AsmData.amd64_MERGE_H23

theorem GhEnv.of_keeps {G V K : List Nat} {s s' : State} (e : GhEnv s) (k : Keeps G V K s s') : GhEnv s' :=
  ⟨k.lenG.trans e.lenG, k.lenV.trans e.lenV, k.lenK.trans e.lenK, k.syms.trans e.syms, by rw [k.mem]; exact e.rPoly,
    by rw [k.mem]; exact e.rIdx, by rw [k.mem]; exact e.rH01, by rw [k.mem]; exact e.rH23⟩

theorem ea0 (a : Nat) (ha : a < 2 ^ 63) : (a + 0 + 0 + imm64 0) % 2 ^ 64 = a := by
  rw [show imm64 0 = 0 from by decide +kernel]; omega

set_option maxRecDepth 100000 in
theorem ghPreA_spec (s : State) (e : GhEnv s) : ∃ s', execList ghPreA s = .ok s' ∧ vreg s' 26 = POLY64 := by
  obtain ⟨hG, hV, hK, hsy, rPoly, _, _, _⟩ := e
  obtain ⟨gpr, vec, k, fl, mem, syms, frame⟩ := s
  simp only at hG hV hK hsy rPoly
  subst hsy
  obtain ⟨a0, a1, a2, a3, a4, a5, a6, a7, a8, a9, a10, a11, a12, a13, a14, a15, rfl⟩ := list16 gpr hG
  obtain ⟨b0, b1, b2, b3, b4, b5, b6, b7, b8, b9, b10, b11, b12, b13, b14, b15, b16, b17, b18, b19, b20, b21, b22, b23, b24, b25, b26, b27, b28, b29, b30, b31, rfl⟩ := list32 vec hV
  have q : readMem mem ((42949672960 + 0 + 0 + imm64 0) % 2 ^ 64) 8 = .ok (Gen.AsmData.amd64_GCM_POLY.take 8) := by
    rw [ea0 _ (by decide)]; exact rPoly
  apply Exists.intro
  apply And.intro
  · unfold ghPreA
    apply exec_step
    · exact execD_leaq (hs := symTab_poly) (hd := by simp) ..
    apply exec_step
    · exact execD_broadcast_x2 (hvl := by rfl) (hb := by rfl) (hd := by simp) (hload := q) ..
    exact execList_nil _
  · rfl

set_option maxRecDepth 100000 in
theorem ghPreB_spec (s : State) (e : GhEnv s) :
    ∃ s', execList ghPreB s = .ok s' ∧ vreg s' 31 = IDXv ∧ kregD s' 1 = 12 ∧ kregD s' 2 = 240 := by
  obtain ⟨hG, hV, hK, hsy, _, rIdx, _, _⟩ := e
  obtain ⟨gpr, vec, k, fl, mem, syms, frame⟩ := s
  simp only at hG hV hK hsy rIdx
  subst hsy
  obtain ⟨a0, a1, a2, a3, a4, a5, a6, a7, a8, a9, a10, a11, a12, a13, a14, a15, rfl⟩ := list16 gpr hG
  obtain ⟨b0, b1, b2, b3, b4, b5, b6, b7, b8, b9, b10, b11, b12, b13, b14, b15, b16, b17, b18, b19, b20, b21, b22, b23, b24, b25, b26, b27, b28, b29, b30, b31, rfl⟩ := list32 vec hV
  obtain ⟨k0, k1, k2, k3, k4, k5, k6, k7, rfl⟩ := list8 k hK
  have q : readMem mem ((60129542144 + 0 + 0 + imm64 0) % 2 ^ 64) 64 = .ok Gen.AsmData.amd64_SHUFFLE_X_LANES := by
    rw [ea0 _ (by decide)]; exact rIdx
  apply Exists.intro
  apply And.intro
  · unfold ghPreB
    apply exec_step
    · exact execD_leaq (hs := symTab_idx) (hd := by simp) ..
    apply exec_step
    · exact execD_vmov_load (hvl := by rfl) (hb := by rfl) (hd := by simp) (hload := q) ..
    apply exec_step
    · exact execD_movq_imm (hd := by simp) ..
    apply exec_step
    · exact execD_movq_imm (hd := by simp) ..
    apply exec_step
    · exact execD_kmovw (ha := by rfl) (hd := by simp) ..
    apply exec_step
    · exact execD_kmovw (ha := by rfl) (hd := by simp) ..
    exact execList_nil _
  · refine ⟨rfl, ?_, ?_⟩
    · simp only [List.set_cons_succ, List.set_cons_zero, kregD, List.getD_cons_succ, List.getD_cons_zero]
      decide +kernel
    · simp only [List.set_cons_succ, List.set_cons_zero, kregD, List.getD_cons_succ, List.getD_cons_zero]
      decide +kernel

set_option maxRecDepth 100000 in
theorem ghPreC_spec (s : State) (e : GhEnv s) (hk1 : kregD s 1 = 12) (hk2 : kregD s 2 = 240) :
    ∃ s', execList ghPreC s = .ok s' ∧
      vreg s' 29 = mergeMask 64 (8 * 64 / 64) 240
        (map1 64 (64 / 8) (fun i => lane 64 (i % (64 / 8))
          (mergeMask 64 (8 * 32 / 64) 12 (map1 64 (32 / 8) (fun i => lane 64 (i % (32 / 8)) (vreg s 19)) H01v) (vreg s 4))) H23v)
        (mergeMask 64 (8 * 32 / 64) 12 (map1 64 (32 / 8) (fun i => lane 64 (i % (32 / 8)) (vreg s 5)) H01v) (vreg s 29)) := by
  obtain ⟨hG, hV, hK, hsy, _, _, rH01, rH23⟩ := e
  obtain ⟨gpr, vec, k, fl, mem, syms, frame⟩ := s
  simp only at hG hV hK hsy rH01 rH23
  subst hsy
  obtain ⟨a0, a1, a2, a3, a4, a5, a6, a7, a8, a9, a10, a11, a12, a13, a14, a15, rfl⟩ := list16 gpr hG
  obtain ⟨b0, b1, b2, b3, b4, b5, b6, b7, b8, b9, b10, b11, b12, b13, b14, b15, b16, b17, b18, b19, b20, b21, b22, b23, b24, b25, b26, b27, b28, b29, b30, b31, rfl⟩ := list32 vec hV
  obtain ⟨k0, k1, k2, k3, k4, k5, k6, k7, rfl⟩ := list8 k hK
  simp only [kregD, List.getD_cons_succ, List.getD_cons_zero] at hk1 hk2
  subst hk1 hk2
  have q1 : readMem mem ((51539607552 + 0 + 0 + imm64 0) % 2 ^ 64) 32 = .ok Gen.AsmData.amd64_MERGE_H01 := by
    rw [ea0 _ (by decide)]; exact rH01
  have q2 : readMem mem ((55834574848 + 0 + 0 + imm64 0) % 2 ^ 64) 64 = .ok Gen.AsmData.amd64_MERGE_H23 := by
    rw [ea0 _ (by decide)]; exact rH23
  apply Exists.intro
  apply And.intro
  · unfold ghPreC
    apply exec_step
    · exact execD_leaq (hs := symTab_h01) (hd := by simp) ..
    apply exec_step
    · exact execD_leaq (hs := symTab_h23) (hd := by simp) ..
    apply exec_step
    · exact execD_vmov_load (hvl := by rfl) (hb := by rfl) (hd := by simp) (hload := q1) ..
    apply exec_step
    · exact execD_vmov_load (hvl := by rfl) (hb := by rfl) (hd := by simp) (hload := q2) ..
    apply exec_step
    · exact execD_vpermq_mask (hvl := by rfl) (ha := by rfl) (hb := by rfl) (hk := by rfl) (hold := by rfl) (hd := by simp) (hr := by rfl) ..
    apply exec_step
    · exact execD_vpermq_mask (hvl := by rfl) (ha := by rfl) (hb := by rfl) (hk := by rfl) (hold := by rfl) (hd := by simp) (hr := by rfl) ..
    apply exec_step
    · exact execD_vpermq_mask (hvl := by rfl) (ha := by rfl) (hb := by rfl) (hk := by rfl) (hold := by rfl) (hd := by simp) (hr := by rfl) ..
    exact execList_nil _
  · rfl


def allG : List Nat := List.range 16
def allK : List Nat := List.range 8
def vExcept (l : List Nat) : List Nat := (List.range 32).filter (fun n => !(l.contains n))

theorem kA : writesNone ghPreA [0, 1, 2, 3] (vExcept [26]) allK = true := by decide +kernel
theorem kB : writesNone ghPreB [] (vExcept [31]) [] = true := by decide +kernel
theorem kC : writesNone ghPreC [] (vExcept [0, 1, 4, 29]) allK = true := by decide +kernel

theorem lane0_lt (x : Nat) (h : x < 2 ^ 128) : lane 128 0 x = x := lane128_0_of_lt x h

set_option maxHeartbeats 1000000 in
/-- **`gHashPre`**: from H (as produced by the block function) in V19 to the GHASH context of the reflected H -/
theorem ghPre_spec (s : State) (e : GhEnv s) (h22 : vreg s 22 = AND64) (h23 : vreg s 23 = LOW4) (h24 : vreg s 24 = HIGH4)
    (h19 : vreg s 19 < 2 ^ 128) :
    ∃ s', execList ghPreCode s = .ok s' ∧ HCtx (rb128 (vreg s 19)) s' ∧ Keeps ghPreKeepG ghPreKeepV ghPreKeepK s s' := by
  -- reverseBits(VxH)
  obtain ⟨s1, hr1, vo1, lt1, ln1⟩ := rb_spec 16 19 1 2 (by decide) (Or.inl ⟨by decide, rfl, rfl⟩) s e.lenV h22 h23 h24
  have hh : vreg s1 19 = rb128 (vreg s 19) := by
    have := ln1 0 (by decide)
    rw [lane0_lt _ lt1, lane0_lt _ h19] at this; exact this
  generalize hhd : rb128 (vreg s 19) = h at hh
  have hlt : h < 2 ^ 128 := by rw [← hh]; exact lt1
  have e1 : GhEnv s1 := ⟨by rw [vo1.gpr]; exact e.lenG, vo1.lenV, by rw [vo1.kreg]; exact e.lenK, vo1.syms.trans e.syms,
    by rw [vo1.mem]; exact e.rPoly, by rw [vo1.mem]; exact e.rIdx, by rw [vo1.mem]; exact e.rH01, by rw [vo1.mem]; exact e.rH23⟩
  -- GCM_POLY
  obtain ⟨s2, hr2, v26⟩ := ghPreA_spec s1 e1
  have k2 := keeps_of_exec _ kA hr2
  have e2 := e1.of_keeps k2
  have s2_19 : vreg s2 19 = h := by rw [k2.v 19 (by decide)]; exact hh
  -- H.lo ⊕ H.hi
  obtain ⟨r25, hr3, hs25⟩ := hs_spec 16 19 25 (by decide) (by decide) (by decide) (by decide) s2 e2.lenV
  have e3 : GhEnv (setVreg s2 25 r25) := ⟨e2.lenG, by simp; exact e2.lenV, e2.lenK, e2.syms, e2.rPoly, e2.rIdx, e2.rH01, e2.rH23⟩
  -- lane indices, opmasks
  obtain ⟨s4, hr4, v31, hk1, hk2⟩ := ghPreB_spec _ e3
  have k4 := keeps_of_exec _ kB hr4
  have e4 : GhEnv s4 := e3.of_keeps k4
  have s4_19 : vreg s4 19 = h := by rw [k4.v 19 (by decide), vreg_setVreg_ne _ _ _ _ (by decide)]; exact s2_19
  have s4_26 : vreg s4 26 = POLY64 := by rw [k4.v 26 (by decide), vreg_setVreg_ne _ _ _ _ (by decide)]; exact v26
  have s4_25 : lo64 (lane 128 0 (vreg s4 25)) = lo64 h ^^^ hi64 h := by
    rw [k4.v 25 (by decide), vreg_setVreg_eq _ _ _ (by rw [e2.lenV]; decide), hs25 0 (by decide), s2_19, lane0_lt _ hlt]
  -- the facts every multiplication needs, for any later state that keeps V19, V25, V26
  have hFSof : ∀ t : State, vreg t 19 = h → lo64 (lane 128 0 (vreg t 25)) = lo64 h ^^^ hi64 h → ∀ l, l < 16 / 16 →
      lo64 (lane 128 l (vreg t 25)) = lo64 (lane 128 l (vreg t 19)) ^^^ hi64 (lane 128 l (vreg t 19)) := by
    intro t t19 t25 l hl
    have : l = 0 := by omega
    subst this; rw [t19, lane0_lt _ hlt]; exact t25
  have hRedof : ∀ t : State, vreg t 26 = POLY64 → ∀ l, l < 16 / 16 → lo64 (lane 128 l (vreg t 26)) = poly := by
    intro t t26 l hl; rw [t26]; exact poly64_lanes l (by omega)
  -- H², H³, H⁴
  obtain ⟨s5, hr5, vo5, lt5, val5⟩ := mulRed_spec 16 19 25 19 4 rfl (Or.inl ⟨rfl, rfl⟩) (by decide) (by decide) s4 e4.lenV
    (hFSof s4 s4_19 s4_25) (hRedof s4 s4_26)
  have s5_4 : vreg s5 4 = gmulR h h := by
    rw [← lane0_lt _ lt5, val5 0 (by decide), s4_19, lane0_lt _ hlt]
  have s5_19 : vreg s5 19 = h := by rw [vo5.keep 19 (by decide) (by decide)]; exact s4_19
  have s5_25 : lo64 (lane 128 0 (vreg s5 25)) = lo64 h ^^^ hi64 h := by rw [vo5.keep 25 (by decide) (by decide)]; exact s4_25
  have s5_26 : vreg s5 26 = POLY64 := by rw [vo5.keep 26 (by decide) (by decide)]; exact s4_26
  have hh2lt : gmulR h h < 2 ^ 128 := gmulR_lt hlt hlt
  obtain ⟨s6, hr6, vo6, lt6, val6⟩ := mulRed_spec 16 19 25 4 5 rfl (Or.inl ⟨rfl, rfl⟩) (by decide) (by decide) s5 vo5.lenV
    (hFSof s5 s5_19 s5_25) (hRedof s5 s5_26)
  have s6_5 : vreg s6 5 = gmulR h (gmulR h h) := by
    rw [← lane0_lt _ lt6, val6 0 (by decide), s5_19, lane0_lt _ hlt, s5_4, lane0_lt _ hh2lt]
  have s6_4 : vreg s6 4 = gmulR h h := by rw [vo6.keep 4 mem4 (by decide)]; exact s5_4
  have s6_19 : vreg s6 19 = h := by rw [vo6.keep 19 (by decide) (by decide)]; exact s5_19
  have s6_25 : lo64 (lane 128 0 (vreg s6 25)) = lo64 h ^^^ hi64 h := by rw [vo6.keep 25 (by decide) (by decide)]; exact s5_25
  have s6_26 : vreg s6 26 = POLY64 := by rw [vo6.keep 26 (by decide) (by decide)]; exact s5_26
  have hh3lt : gmulR h (gmulR h h) < 2 ^ 128 := gmulR_lt hlt hh2lt
  obtain ⟨s7, hr7, vo7, lt7, val7⟩ := mulRed_spec 16 19 25 5 29 rfl (Or.inl ⟨rfl, rfl⟩) (by decide) (by decide) s6 vo6.lenV
    (hFSof s6 s6_19 s6_25) (hRedof s6 s6_26)
  have s7_29 : vreg s7 29 = gmulR h (gmulR h (gmulR h h)) := by
    rw [← lane0_lt _ lt7, val7 0 (by decide), s6_19, lane0_lt _ hlt, s6_5, lane0_lt _ hh3lt]
  have s7_5 : vreg s7 5 = gmulR h (gmulR h h) := by rw [vo7.keep 5 mem5 (by decide)]; exact s6_5
  have s7_4 : vreg s7 4 = gmulR h h := by rw [vo7.keep 4 mem4 (by decide)]; exact s6_4
  have s7_19 : vreg s7 19 = h := by rw [vo7.keep 19 (by decide) (by decide)]; exact s6_19
  have s7_25 : lo64 (lane 128 0 (vreg s7 25)) = lo64 h ^^^ hi64 h := by rw [vo7.keep 25 (by decide) (by decide)]; exact s6_25
  have s7_26 : vreg s7 26 = POLY64 := by rw [vo7.keep 26 (by decide) (by decide)]; exact s6_26
  have s7_31 : vreg s7 31 = IDXv := by
    rw [vo7.keep 31 mem31 (by decide), vo6.keep 31 mem31 (by decide), vo5.keep 31 mem31 (by decide)]; exact v31
  have s7_k1 : kregD s7 1 = 12 := by show s7.kreg.getD 1 0 = _; rw [vo7.kreg, vo6.kreg, vo5.kreg]; exact hk1
  have s7_k2 : kregD s7 2 = 240 := by show s7.kreg.getD 2 0 = _; rw [vo7.kreg, vo6.kreg, vo5.kreg]; exact hk2
  have e7 : GhEnv s7 := ⟨by rw [vo7.gpr, vo6.gpr, vo5.gpr]; exact e4.lenG, vo7.lenV, by rw [vo7.kreg, vo6.kreg, vo5.kreg]; exact e4.lenK,
    by rw [vo7.syms, vo6.syms, vo5.syms]; exact e4.syms, by rw [vo7.mem, vo6.mem, vo5.mem]; exact e4.rPoly,
    by rw [vo7.mem, vo6.mem, vo5.mem]; exact e4.rIdx, by rw [vo7.mem, vo6.mem, vo5.mem]; exact e4.rH01,
    by rw [vo7.mem, vo6.mem, vo5.mem]; exact e4.rH23⟩
  -- the vector of powers
  obtain ⟨s8, hr8, v29⟩ := ghPreC_spec s7 e7 s7_k1 s7_k2
  rw [s7_19, s7_4, s7_5, s7_29] at v29
  have k8 := keeps_of_exec _ kC hr8
  have e8 := e7.of_keeps k8
  obtain ⟨r30, hr9, hs30⟩ := hs_spec 64 29 30 (by decide) (by decide) (by decide) (by decide) s8 e8.lenV
  have hmp := merge_powers (gmulR h (gmulR h (gmulR h h))) (gmulR h (gmulR h h)) (gmulR h h) h
  have hh4lt : gmulR h (gmulR h (gmulR h h)) < 2 ^ 128 := gmulR_lt hlt hh3lt
  have hz29 : ∀ l, l < 4 → lane 128 l (vreg s8 29) = hpow h l := by
    intro l hl
    rw [v29]
    have h4c : l = 0 ∨ l = 1 ∨ l = 2 ∨ l = 3 := by omega
    rcases h4c with rfl | rfl | rfl | rfl
    · rw [hmp.1, lane0_lt _ hh4lt]; rfl
    · rw [hmp.2.1, lane0_lt _ hh3lt]; rfl
    · rw [hmp.2.2.1, lane0_lt _ hh2lt]; rfl
    · rw [hmp.2.2.2, lane0_lt _ hlt]; rfl
  have hrun : execList ghPreCode s = .ok (setVreg s8 30 r30) := by
    rw [ghPre_split]
    exact execList_append_ok hr1 (execList_append_ok hr2 (execList_append_ok hr3 (execList_append_ok hr4
      (execList_append_ok hr5 (execList_append_ok hr6 (execList_append_ok hr7 (execList_append_ok hr8 hr9)))))))
  refine ⟨_, hrun, ⟨hlt, ?_, ?_, ?_, ⟨?_, ?_, ?_⟩⟩, keeps_of_exec _ ghPre_writes hrun⟩
  · rw [vreg_setVreg_ne _ _ _ _ (by decide), k8.v 19 (by decide)]; exact s7_19
  · rw [vreg_setVreg_ne _ _ _ _ (by decide), k8.v 25 (by decide)]; exact s7_25
  · rw [vreg_setVreg_ne _ _ _ _ (by decide), k8.v 26 (by decide)]; exact s7_26
  · intro l hl; rw [vreg_setVreg_ne _ _ _ _ (by decide)]; exact hz29 l hl
  · intro l hl
    rw [vreg_setVreg_eq _ _ _ (by rw [e8.lenV]; decide), hs30 l (by omega), hz29 l hl]
  · rw [vreg_setVreg_ne _ _ _ _ (by decide), k8.v 31 (by decide)]; exact s7_31

end SMGo.Proofs.ISAVal
