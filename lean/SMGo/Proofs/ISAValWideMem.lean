import SMGo.Proofs.ISAValWideCode
namespace SMGo.Proofs.ISAVal
open SMGo.Model.ISAVal SMGo.Model.ISA

theorem imm64_natCast (n : Nat) (h : n < 2 ^ 64) : imm64 (n : Int) = n := by
  unfold imm64
  have : ((n : Int) % (2 ^ 64 : Int)) = (n : Int) := Int.emod_eq_of_lt (Int.natCast_nonneg n) (by exact_mod_cast h)
  rw [this, Int.toNat_natCast]

theorem ea_lit (b off : Nat) (h : b + off < 2 ^ 64) : (b + 0 + imm64 (off : Int)) % 2 ^ 64 = b + off := by
  rw [imm64_natCast off (by omega), Nat.add_zero, Nat.mod_eq_of_lt h]

/-! ### the memory of `kernelState` with offsets -/

def kmem (rk dst src : List Nat) : List Region := (kernelState [] [] [] rk dst src).mem

theorem ks_kmem (g v k rk dst src : List Nat) : (kernelState g v k rk dst src).mem = kmem rk dst src := rfl
theorem kmem_src (rk dst src : List Nat) : (kmem rk dst src)[18]? = some ⟨"src", src, false⟩ := rfl
theorem kmem_dst (rk dst src : List Nat) : (kmem rk dst src)[17]? = some ⟨"dst", dst, true⟩ := rfl
theorem kmem_set_dst (rk dst src bs : List Nat) : (kmem rk dst src).set 17 ⟨"dst", bs, true⟩ = kmem rk bs src := rfl

theorem kmem_read_src (rk dst src : List Nat) (off n : Nat) (hoff : off + n ≤ src.length) (hlt : off < 2 ^ 32) :
    readMem (kmem rk dst src) (81604378624 + off) n = .ok ((src.drop off).take n) := by
  unfold readMem
  have h1 : (81604378624 + off) / 2 ^ 32 = 19 := by omega
  have h2 : (81604378624 + off) % 2 ^ 32 = off := by omega
  simp only [h1, h2, Nat.reduceSub, kmem_src]
  simp [hoff]

theorem kmem_write_dst (rk dst src : List Nat) (off : Nat) (bs : List Nat) (hoff : off + bs.length ≤ dst.length) (hlt : off < 2 ^ 32) :
    writeMem (kmem rk dst src) (77309411328 + off) bs
      = .ok (kmem rk (dst.take off ++ bs ++ dst.drop (off + bs.length)) src) := by
  unfold writeMem
  have h1 : (77309411328 + off) / 2 ^ 32 = 18 := by omega
  have h2 : (77309411328 + off) % 2 ^ 32 = off := by omega
  simp only [h1, h2, Nat.reduceSub, kmem_dst]
  simp [hoff, kmem_set_dst]

theorem kmem_read_rk (rk dst src : List Nat) (hrk : rk.length = 32) (i : Nat) (hi : i < 32) :
    readMem (kmem rk dst src) (73014444032 + 4 * i) 4 = .ok (lanes 8 4 (rk.getD i 0)) :=
  ks_read_rk [] [] [] rk dst src hrk i hi

theorem kmem_read_shuffle (rk dst src : List Nat) : readMem (kmem rk dst src) 4294967296 16 = .ok Gen.AsmData.amd64_Shuffle := rfl
theorem kmem_read_pre (rk dst src : List Nat) : readMem (kmem rk dst src) 8589934592 8 = .ok Gen.AsmData.amd64_PreAffineMatrix := rfl
theorem kmem_read_post (rk dst src : List Nat) : readMem (kmem rk dst src) 12884901888 8 = .ok Gen.AsmData.amd64_PostAffineMatrix := rfl

theorem kmem_region_dst (rk dst src : List Nat) (g' v' k' : List Nat) (fl' : Flags) (sy fr : List (String × Nat)) :
    regionBytes ⟨g', v', k', fl', kmem rk dst src, sy, fr⟩ "dst" = some dst := by
  simp [regionBytes, kmem, kernelState, mkState, symbols, List.find?]

end SMGo.Proofs.ISAVal
