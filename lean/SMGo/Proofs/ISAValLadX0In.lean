import SMGo.Proofs.ISAValLadX21
set_option linter.unusedSimpArgs false
namespace SMGo.Proofs.ISAVal
open SMGo.Model.ISAVal SMGo.Model.GCM SMGo.Proofs.GCM SMGo.Proofs.ISATouch
open SMGo.Model.ISA (Reg Opd Instr)

/-- `loopX0`: the remaining 1..15 bytes are copied into the zeroed scratch block -/
def x0InCode (p8 p4 p2 p1 pe : Nat) : List DInstr :=
  [ins .MOVQ [.imm 0, M 6 0] 0, ins .MOVQ [.imm 0, M 6 8] 0, ins .MOVQ [G 9, G 2] 0] ++
    (copyCode 6 10 9 11 p8 p4 p2 p1 pe ++ [ins .SUBQ [G 2, G 6] 0, ins .MOVQ [G 2, G 9] 0])

def x0InKeepG : List Nat := [0, 1, 3, 4, 5, 7, 8, 12, 13, 14, 15]

theorem cr_in : CopyRegs 6 10 9 11 := ⟨by decide, by decide, by decide, by decide, by decide, by decide, by decide, by decide, by decide, by decide⟩
theorem cr_out : CopyRegs 13 6 9 11 := ⟨by decide, by decide, by decide, by decide, by decide, by decide, by decide, by decide, by decide, by decide⟩

set_option maxHeartbeats 1000000 in
theorem x0in_reach (r : Routine) (k p8 p4 p2 p1 pe : Nat)
    (hs : Slice r k (x0InCode p8 p4 p2 p1 pe)) (l8 : findPc r p8 = some (r.drop (k + 3)))
    (l4 : findPc r p4 = some (r.drop (k + 11))) (l2 : findPc r p2 = some (r.drop (k + 19))) (l1 : findPc r p1 = some (r.drop (k + 27)))
    (le : findPc r pe = some (r.drop (k + 35))) (Mf : List Nat → List Region) (tbase : Nat) (bf : Buf Mf tbase 32)
    (d : List Nat) (sp : Nat) (hsrc : ∀ b, b.length = 32 → DataAt (Mf b) sp d) (hdb : ∀ x ∈ d, x < 2 ^ 8)
    (hbase : tbase + 32 < 2 ^ 63) (hsp : sp + d.length < 2 ^ 63)
    (n : Nat) (s : State) (b : List Nat) (so toff : Nat) (hto : toff = 0 ∨ toff = 16) (hG : s.gpr.length = 16) (hb : b.length = 32)
    (hm : s.mem = Mf b) (hrem : greg s 9 = n) (hn1 : 1 ≤ n) (hn15 : n ≤ 15) (hp : greg s 10 = sp + so) (h6 : greg s 6 = tbase + toff)
    (hso : so + n ≤ d.length) :
    ∃ s' N, N ≤ 64 ∧ Reach r k s (k + 38) s' N ∧ s'.mem = Mf (spliceAt b toff (padTo16 ((d.drop so).take n))) ∧
      greg s' 6 = tbase + toff ∧ greg s' 10 = sp + so + n ∧ greg s' 9 = n ∧ RegsKeep x0InKeepG s s' := by
  have cr := cr_in
  have sA : Slice r k [ins .MOVQ [.imm 0, M 6 0] 0, ins .MOVQ [.imm 0, M 6 8] 0, ins .MOVQ [G 9, G 2] 0] := hs.left
  have sC : Slice r (k + 3) (copyCode 6 10 9 11 p8 p4 p2 p1 pe) := hs.right.left
  have sS : Slice r (k + 36) [ins .SUBQ [G 2, G 6] 0, ins .MOVQ [G 2, G 9] 0] := by
    have := hs.right.right; rw [copy_len] at this; exact this
  -- zero the scratch block, save the remainder
  let b1 := spliceAt b toff (List.replicate 8 0)
  let s1 := setMem s (Mf b1)
  have x1 : execD s (ins .MOVQ [.imm 0, M 6 0] 0) = .ok s1 := by
    apply a_movq_imm_store s 0 6 0 _ (by omega)
    rw [h6, ea00 _ (by omega), lanes_zero8, hm, bf.wr b toff _ hb (by rcases hto with rfl | rfl <;> simp)]
    rfl
  let b2 := spliceAt b1 (toff + 8) (List.replicate 8 0)
  let s2 := setMem s1 (Mf b2)
  have hb1 : b1.length = 32 := by
    show (spliceAt b toff _).length = _
    rw [spliceAt_length _ _ _ (by rcases hto with rfl | rfl <;> simp [hb])]; exact hb
  have x2 : execD s1 (ins .MOVQ [.imm 0, M 6 8] 0) = .ok s2 := by
    apply a_movq_imm_store s1 0 6 8 _ (by simp [s1]; omega)
    rw [show greg s1 6 = tbase + toff from h6, show imm64 8 = 8 from by decide +kernel, Nat.add_zero,
      Nat.mod_eq_of_lt (by omega), lanes_zero8, Nat.add_assoc]
    show writeMem (Mf b1) _ _ = _
    rw [bf.wr b1 (toff + 8) _ hb1 (by rcases hto with rfl | rfl <;> simp)]
    rfl
  let s3 := setGreg s2 2 n
  have x3 : execD s2 (ins .MOVQ [G 9, G 2] 0) = .ok s3 := by
    have := a_movq_rr s2 9 2 (by simp [s2, s1]; omega) (by simp [s2, s1]; omega)
    rw [show greg s2 9 = n from hrem] at this; exact this
  have hb2 : b2 = spliceAt b toff (List.replicate 16 0) := by
    show spliceAt (spliceAt b toff (List.replicate 8 0)) (toff + 8) (List.replicate 8 0) = _
    have := spliceAt_spliceAt b toff (List.replicate 8 0) (List.replicate 8 0) (by rcases hto with rfl | rfl <;> simp [hb])
    simp only [List.length_replicate] at this
    rw [this, zeros8]
  have hxA : execList [ins .MOVQ [.imm 0, M 6 0] 0, ins .MOVQ [.imm 0, M 6 8] 0, ins .MOVQ [G 9, G 2] 0] s = .ok s3 := by
    apply exec_step x1
    apply exec_step x2
    apply exec_step x3
    exact execList_nil _
  have rA : Reach r k s (k + 3) s3 3 := reach_seg sA (by rfl) hxA
  have hb2l : b2.length = 32 := by
    rw [hb2, spliceAt_length _ _ _ (by rcases hto with rfl | rfl <;> simp [hb])]; exact hb
  have hG3 : s3.gpr.length = 16 := by simp [s3, s2, s1]; exact hG
  -- the copy
  obtain ⟨s4, N, hN, rC, m4, _, g4p, g46, k4⟩ := copy_reach r (k + 3) 6 10 9 11 p8 p4 p2 p1 pe cr sC l8 (by rw [Nat.add_assoc]; exact l4)
    (by rw [Nat.add_assoc]; exact l2) (by rw [Nat.add_assoc]; exact l1) (by rw [Nat.add_assoc]; exact le) Mf tbase 32 bf d sp hsrc hdb
    hbase hsp n s3 b2 so toff hG3 hb2l rfl
    (by show greg (setGreg s2 2 n) 9 = _; rw [greg_setGreg_ne s2 2 n 9 (by decide)]; exact hrem) (by omega)
    (by show greg (setGreg s2 2 n) 10 = _; rw [greg_setGreg_ne s2 2 n 10 (by decide)]; exact hp)
    (by show greg (setGreg s2 2 n) 6 = _; rw [greg_setGreg_ne s2 2 n 6 (by decide)]; exact h6) hso (by rcases hto with rfl | rfl <;> omega)
  -- restore the scratch pointer and the length
  have g42 : greg s4 2 = n := by
    rw [k4.g 2 (by decide)]; exact greg_setGreg_eq s2 2 n (by simp [s2, s1]; omega)
  have hG4 : s4.gpr.length = 16 := by rw [k4.lenG]; exact hG3
  have x5 := a_subq_rr s4 2 6 (by omega) (by omega) (by rw [g42]; omega) (by rw [g46]; omega)
  rw [g42, g46, show (tbase + toff + n + 2 ^ 64 - n) % 2 ^ 64 = tbase + toff from by omega] at x5
  let s5 := setFlags (setGreg s4 6 (tbase + toff)) (subF 8 (tbase + toff + n) n).2
  have g52 : greg s5 2 = n := by
    show greg (setFlags (setGreg s4 6 _) _) 2 = n
    rw [greg_setFlags, greg_setGreg_ne s4 6 _ 2 (by decide)]; exact g42
  have hG5 : s5.gpr.length = 16 := by simp [s5]; exact hG4
  have x6 := a_movq_rr s5 2 9 (by omega) (by omega)
  rw [g52] at x6
  have r5 : Reach r (k + 36) s4 (k + 38) (setGreg s5 9 n) 2 := reach_seg sS (by rfl) (by apply exec_step x5; apply exec_step x6; exact execList_nil _)
  refine ⟨_, 3 + N + 2, by omega, ((rA.trans (rC.cast (by omega) rfl)).trans r5).cast rfl rfl, ?_, ?_, ?_, ?_, ?_⟩
  · show s4.mem = _
    rw [m4, hb2, spliceAt_over b toff _ _ (by rw [List.length_take, List.length_drop, List.length_replicate]; omega)
      (by rcases hto with rfl | rfl <;> simp [hb])]
    congr 2
    unfold padTo16
    rw [List.drop_replicate]
  · rw [greg_setGreg_ne s5 9 n 6 (by decide)]
    show greg (setFlags (setGreg s4 6 _) _) 6 = _
    rw [greg_setFlags, greg_setGreg_eq s4 6 _ (by omega)]
  · rw [greg_setGreg_ne s5 9 n 10 (by decide)]
    show greg (setFlags (setGreg s4 6 _) _) 10 = _
    rw [greg_setFlags, greg_setGreg_ne s4 6 _ 10 (by decide)]; exact g4p
  · exact greg_setGreg_eq s5 9 n (by omega)
  · refine ⟨by simp [s5]; rw [hG4, hG], ?_, ?_, ?_, ?_, ?_⟩
    · intro m hm'
      have hm2 : m ≠ 6 ∧ m ≠ 10 ∧ m ≠ 9 ∧ m ≠ 11 ∧ m ≠ 2 ∧ m < 16 := by
        simp only [x0InKeepG, List.mem_cons, List.not_mem_nil, or_false] at hm'
        omega
      rw [greg_setGreg_ne s5 9 n m hm2.2.2.1]
      show greg (setFlags (setGreg s4 6 _) _) m = _
      rw [greg_setFlags, greg_setGreg_ne s4 6 _ m hm2.1, k4.g m (by simp [copyKeepG]; omega)]
      exact greg_setGreg_ne s2 2 n m hm2.2.2.2.2.1
    · show s4.vec = _; rw [k4.vec]; rfl
    · show s4.kreg = _; rw [k4.kreg]; rfl
    · show s4.syms = _; rw [k4.syms]; rfl
    · show s4.frame = _; rw [k4.frame]; rfl

end SMGo.Proofs.ISAVal
