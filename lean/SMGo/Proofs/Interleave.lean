/-
  Property C17 (concurrent use, PARTIAL) — the abstract machine of `SMGo.Model.Interleave`:
  schedule independence, by induction over the schedule (from its end: the last step belongs to
  some thread `j`; by the induction hypothesis the memory before it agrees with `j`'s solo run on
  everything `j` reads or writes, so the step does what it does in the solo run; it changes
  nothing any other thread has read or written), its corollary for calls, and the footprint of
  straight-line load/store programs.
  Core Lean only.
-/
import SMGo.Model.Interleave
namespace SMGo.Proofs.Interleave
open SMGo SMGo.Model.Interleave

/-! ### small facts -/

theorem setLoc_same {ι : Type} [DecidableEq ι] {St : ι → Type} (f : (i : ι) → St i) (j : ι)
    (v : St j) : setLoc f j v j = v := by
  simp [setLoc]

theorem setLoc_ne {ι : Type} [DecidableEq ι] {St : ι → Type} (f : (i : ι) → St i) (j : ι)
    (v : St j) (i : ι) (h : i ≠ j) : setLoc f j v i = f i := by
  simp [setLoc, Ne.symm h]

section machine
variable {Loc Val ι : Type} [DecidableEq ι]

theorem run_nil (T : ι → Thread Loc Val) (c : Config T) : run T c [] = c := rfl

theorem run_snoc (T : ι → Thread Loc Val) (c : Config T) (sched : List ι) (j : ι) :
    run T c (sched ++ [j]) = stepThread T (run T c sched) j := by
  simp [run, List.foldl_append]

theorem run_append (T : ι → Thread Loc Val) (c : Config T) (s1 s2 : List ι) :
    run T c (s1 ++ s2) = run T (run T c s1) s2 := by
  simp [run, List.foldl_append]

theorem count_snoc_same (sched : List ι) (j : ι) : (sched ++ [j]).count j = sched.count j + 1 := by
  simp [List.count_append]

theorem count_snoc_ne (sched : List ι) (i j : ι) (h : i ≠ j) :
    (sched ++ [j]).count i = sched.count i := by
  have : (j == i) = false := by simp [Ne.symm h]
  simp [List.count_append, List.count_singleton, this]

end machine

/-- a solo run leaves everything outside the thread's write set as it was -/
theorem runAlone_outside {Loc Val : Type} (t : Thread Loc Val) (R W : Loc → Prop)
    (hfp : Footprint t R W) (k : Nat) (s : t.St) (m : Mem Loc Val) (l : Loc) (hl : ¬ W l) :
    (runAlone t k (s, m)).2 l = m l := by
  induction k with
  | zero => rfl
  | succ k ih =>
    show (t.step (runAlone t k (s, m)).1 (runAlone t k (s, m)).2).2 l = m l
    rw [hfp.writes _ _ l hl, ih]

theorem runAlone_succ {Loc Val : Type} (t : Thread Loc Val) (k : Nat) (c : t.St × Mem Loc Val) :
    runAlone t (k + 1) c = t.step (runAlone t k c).1 (runAlone t k c).2 := rfl

/-! ### schedule independence -/

section main
variable {Loc Val ι : Type} [DecidableEq ι]

/-- the three conclusions, for one schedule -/
def IndepAt (T : ι → Thread Loc Val) (W : ι → Loc → Prop) (c0 : Config T) (sched : List ι) : Prop :=
  (∀ i, (run T c0 sched).loc i = (runAlone (T i) (sched.count i) (c0.loc i, c0.mem)).1) ∧
  (∀ i l, W i l →
    (run T c0 sched).mem l = (runAlone (T i) (sched.count i) (c0.loc i, c0.mem)).2 l) ∧
  (∀ l, (∀ i, ¬ W i l) → (run T c0 sched).mem l = c0.mem l)

theorem indep_snoc (T : ι → Thread Loc Val) (R W : ι → Loc → Prop)
    (hfp : ∀ i, Footprint (T i) (R i) (W i)) (hsep : Separated R W)
    (c0 : Config T) (sched : List ι) (j : ι) (ih : IndepAt T W c0 sched) :
    IndepAt T W c0 (sched ++ [j]) := by
  obtain ⟨ih1, ih2, ih3⟩ := ih
  -- the memory before the step agrees with j's solo run on R j ∪ W j
  have hagree : ∀ l, R j l ∨ W j l →
      (run T c0 sched).mem l = (runAlone (T j) (sched.count j) (c0.loc j, c0.mem)).2 l := by
    intro l hl
    by_cases hw : W j l
    · exact ih2 j l hw
    · have hnone : ∀ i, ¬ W i l := by
        intro i hi
        by_cases hij : i = j
        · subst hij; exact hw hi
        · exact hsep i j hij l hi hl
      rw [ih3 l hnone, runAlone_outside (T j) (R j) (W j) (hfp j) _ _ _ l hw]
  have hstep := (hfp j).reads ((run T c0 sched).loc j) _ _ hagree
  rw [ih1 j] at hstep
  refine ⟨?_, ?_, ?_⟩
  · intro i
    rw [run_snoc]
    by_cases hij : i = j
    · subst hij
      rw [count_snoc_same, runAlone_succ]
      show setLoc _ i _ i = _
      rw [setLoc_same, ih1 i]
      exact hstep.1
    · rw [count_snoc_ne sched i j hij]
      show setLoc _ j _ i = _
      rw [setLoc_ne _ _ _ _ hij]
      exact ih1 i
  · intro i l hl
    rw [run_snoc]
    by_cases hij : i = j
    · subst hij
      rw [count_snoc_same, runAlone_succ]
      show ((T i).step ((run T c0 sched).loc i) (run T c0 sched).mem).2 l = _
      rw [ih1 i]
      exact hstep.2 l hl
    · rw [count_snoc_ne sched i j hij]
      show ((T j).step ((run T c0 sched).loc j) (run T c0 sched).mem).2 l = _
      have hnw : ¬ W j l := fun hj => hsep i j hij l hl (Or.inr hj)
      rw [(hfp j).writes _ _ l hnw]
      exact ih2 i l hl
  · intro l hl
    rw [run_snoc]
    show ((T j).step ((run T c0 sched).loc j) (run T c0 sched).mem).2 l = _
    rw [(hfp j).writes _ _ l (hl j)]
    exact ih3 l hl

/-- **Schedule independence.**  Threads with footprints `(R i, W i)` such that no thread writes
    what another reads or writes: after EVERY schedule,
    * the local state of each thread is its local state after running alone, from the same initial
      memory, for as many steps as the schedule contains of it;
    * the memory on `W i` is what thread `i` alone would have produced;
    * the memory outside all write sets is the initial memory. -/
theorem schedule_independence (T : ι → Thread Loc Val) (R W : ι → Loc → Prop)
    (hfp : ∀ i, Footprint (T i) (R i) (W i)) (hsep : Separated R W)
    (c0 : Config T) (sched : List ι) : IndepAt T W c0 sched := by
  suffices h : ∀ s : List ι, IndepAt T W c0 s.reverse by
    have := h sched.reverse
    rwa [List.reverse_reverse] at this
  intro s
  induction s with
  | nil => exact ⟨fun _ => rfl, fun _ _ _ => rfl, fun _ _ => rfl⟩
  | cons j t ih =>
    rw [List.reverse_cons]
    exact indep_snoc T R W hfp hsep c0 t.reverse j ih

end main

/-! ### calls -/

/-- once a halting call has returned, further steps change nothing -/
theorem runAlone_halted {Loc Val : Type} (c : Call Loc Val) (hh : c.Halts) (m0 : Mem Loc Val)
    (k : Nat) (r : c.Res) (hr : c.result (runAlone c.toThread k (c.init, m0)).1 = some r) (d : Nat) :
    runAlone c.toThread (k + d) (c.init, m0) = runAlone c.toThread k (c.init, m0) := by
  induction d with
  | zero => rfl
  | succ d ih =>
    show c.step (runAlone c.toThread (k + d) (c.init, m0)).1
      (runAlone c.toThread (k + d) (c.init, m0)).2 = _
    rw [ih]
    exact hh _ _ r hr

/-- a halting call returns at most one result when run alone -/
theorem returnsAlone_unique {Loc Val : Type} (c : Call Loc Val) (hh : c.Halts) (m0 : Mem Loc Val)
    (r r' : c.Res) (h1 : c.ReturnsAlone m0 r) (h2 : c.ReturnsAlone m0 r') : r = r' := by
  obtain ⟨k, hk⟩ := h1
  obtain ⟨k', hk'⟩ := h2
  by_cases hle : k ≤ k'
  · have := runAlone_halted c hh m0 k r hk (k' - k)
    rw [show k + (k' - k) = k' by omega] at this
    rw [this, hk] at hk'
    exact Option.some.inj hk'
  · have := runAlone_halted c hh m0 k' r' hk' (k - k')
    rw [show k' + (k - k') = k by omega] at this
    rw [this, hk'] at hk
    exact (Option.some.inj hk).symm

section calls
variable {Loc Val ι : Type} [DecidableEq ι]

/-- **Calls return what they return alone (1).**  Whatever a call has returned after a schedule —
    any schedule — it returns when run alone from the same initial memory. -/
theorem call_result_alone (C : ι → Call Loc Val) (R W : ι → Loc → Prop)
    (hfp : ∀ i, Footprint (C i).toThread (R i) (W i)) (hsep : Separated R W)
    (m0 : Mem Loc Val) (sched : List ι) (i : ι) (r : (C i).Res)
    (hr : (C i).result ((run (fun i => (C i).toThread) (initConfig C m0) sched).loc i) = some r) :
    (C i).ReturnsAlone m0 r := by
  have h := (schedule_independence (fun i => (C i).toThread) R W hfp hsep (initConfig C m0) sched).1 i
  rw [h] at hr
  exact ⟨sched.count i, hr⟩

/-- **Calls return what they return alone (2).**  If the call returns `r` after `k` steps alone,
    it has returned `r` after every schedule that contains at least `k` of its steps. -/
theorem call_returns (C : ι → Call Loc Val) (R W : ι → Loc → Prop)
    (hfp : ∀ i, Footprint (C i).toThread (R i) (W i)) (hsep : Separated R W)
    (m0 : Mem Loc Val) (sched : List ι) (i : ι) (hh : (C i).Halts) (k : Nat) (r : (C i).Res)
    (hk : (C i).result (runAlone (C i).toThread k ((C i).init, m0)).1 = some r)
    (hle : k ≤ sched.count i) :
    (C i).result ((run (fun i => (C i).toThread) (initConfig C m0) sched).loc i) = some r := by
  have h := (schedule_independence (fun i => (C i).toThread) R W hfp hsep (initConfig C m0) sched).1 i
  rw [h]
  have := runAlone_halted (C i) hh m0 k r hk (sched.count i - k)
  rw [show k + (sched.count i - k) = sched.count i by omega] at this
  show (C i).result (runAlone (C i).toThread (sched.count i) ((C i).init, m0)).1 = some r
  rw [this]
  exact hk

end calls

/-! ### straight-line programs -/

section prog
variable {Loc Val : Type} [DecidableEq Loc]

/-- a program reads only where it loads and writes only where it stores -/
theorem prog_footprint (p : List (Instr Loc Val)) :
    Footprint (progThread p) (progReads p) (progWrites p) where
  reads := by
    intro s m m' hag
    show ((progThread p).step s m).1 = ((progThread p).step s m').1 ∧
      ∀ l, progWrites p l → ((progThread p).step s m).2 l = ((progThread p).step s m').2 l
    simp only [progThread]
    cases hp : p[s.1]? with
    | none => exact ⟨rfl, fun l hl => hag l (Or.inr hl)⟩
    | some ins =>
      have hmem : ins ∈ p := List.mem_of_getElem? hp
      cases ins with
      | load l =>
        have : m l = m' l := hag l (Or.inl hmem)
        exact ⟨by simp [this], fun x hx => hag x (Or.inr hx)⟩
      | store l f =>
        refine ⟨rfl, fun x hx => ?_⟩
        show (if x = l then f s.2 else m x) = (if x = l then f s.2 else m' x)
        by_cases hxl : x = l
        · simp [hxl]
        · simp [hxl, hag x (Or.inr hx)]
  writes := by
    intro s m l hl
    show ((progThread p).step s m).2 l = m l
    simp only [progThread]
    cases hp : p[s.1]? with
    | none => rfl
    | some ins =>
      have hmem : ins ∈ p := List.mem_of_getElem? hp
      cases ins with
      | load l' => rfl
      | store l' f =>
        show (if l = l' then f s.2 else m l) = m l
        have : l ≠ l' := by
          intro h; subst h; exact hl ⟨f, hmem⟩
        simp [this]

/-- a program call stands still after its last instruction -/
theorem progCall_halts (p : List (Instr Loc Val)) (Res : Type) (out : List Val → Res) :
    (progCall p Res out).Halts := by
  intro s m r hr
  have hlen : p.length ≤ s.1 := by
    by_cases h : p.length ≤ s.1
    · exact h
    · simp [progCall, h] at hr
  show (progThread p).step s m = (s, m)
  simp only [progThread]
  rw [List.getElem?_eq_none hlen]
  rfl

/-- every step of a program inside it advances the program counter by one -/
theorem progThread_pc (p : List (Instr Loc Val)) (k : Nat) (m0 : Mem Loc Val) (hk : k ≤ p.length) :
    (runAlone (progThread p) k ((0, []), m0)).1.1 = k := by
  induction k with
  | zero => rfl
  | succ k ih =>
    have ih' := ih (by omega)
    rw [runAlone_succ]
    generalize runAlone (progThread p) k ((0, []), m0) = c at ih'
    obtain ⟨⟨pc, regs⟩, m⟩ := c
    simp only at ih'
    subst ih'
    have hlt : pc < p.length := by omega
    simp only [progThread]
    rw [List.getElem?_eq_getElem hlt]
    cases p[pc] <;> rfl

/-- a program call returns, alone, after exactly `p.length` steps -/
theorem progCall_returns (p : List (Instr Loc Val)) (Res : Type) (out : List Val → Res)
    (m0 : Mem Loc Val) :
    ∃ r, (progCall p Res out).result
      (runAlone (progCall p Res out).toThread p.length ((progCall p Res out).init, m0)).1 = some r := by
  have h := progThread_pc p p.length m0 (Nat.le_refl _)
  refine ⟨out (runAlone (progThread p) p.length ((0, []), m0)).1.2, ?_⟩
  show (if p.length ≤ (runAlone (progThread p) p.length ((0, []), m0)).1.1 then _ else none) = _
  rw [h]; simp; rfl

end prog

/-! ### access lists as programs -/

/-- a location a program made of an access list stores to lies inside one of its write accesses -/
theorem accessProg_writes {Val : Type} (f : Nat → List Val → Val) (accs : List PlacedAccess)
    (l : Nat) (hw : progWrites (accessProg f accs) l) :
    ∃ a ∈ accs, a.write = true ∧ a.base + a.off ≤ l ∧ l < a.base + a.off + a.width := by
  obtain ⟨g, hg⟩ := hw
  simp only [accessProg, List.mem_flatMap, accessInstrs, List.mem_map, List.mem_range] at hg
  obtain ⟨a, ha, k, hk, he⟩ := hg
  refine ⟨a, ha, ?_⟩
  cases hwr : a.write with
  | false => simp [hwr] at he
  | true =>
    simp only [hwr, if_true] at he
    injection he with h1 _
    refine ⟨rfl, ?_, ?_⟩ <;> omega

/-- … and a location it loads from lies inside one of its read accesses -/
theorem accessProg_reads {Val : Type} (f : Nat → List Val → Val) (accs : List PlacedAccess)
    (l : Nat) (hr : progReads (accessProg f accs) l) :
    ∃ a ∈ accs, a.write = false ∧ a.base + a.off ≤ l ∧ l < a.base + a.off + a.width := by
  simp only [progReads, accessProg, List.mem_flatMap, accessInstrs, List.mem_map, List.mem_range] at hr
  obtain ⟨a, ha, k, hk, he⟩ := hr
  refine ⟨a, ha, ?_⟩
  cases hwr : a.write with
  | true => simp [hwr] at he
  | false =>
    simp only [hwr] at he
    injection he with h1
    refine ⟨rfl, ?_, ?_⟩ <;> omega

end SMGo.Proofs.Interleave
