import SMGo.Proofs.ISAValSealLad
import SMGo.Proofs.ISAValLadNLen
set_option linter.unusedSimpArgs false
namespace SMGo.Proofs.ISAVal
open SMGo.Model.ISAVal SMGo.Model.GCM SMGo.Proofs.GCM SMGo.Proofs.ISATouch
open SMGo.Model.ISA (Reg Opd Instr)

theorem x0_nop_slice (r : Routine) (k b : Nat) (hs : Slice r k (ladX0Code b)) : Slice r (k + 650) [ins .NOP [] 0] := by
  rw [x0_eq] at hs
  have h := hs.right.right.right.right.right.right.right.right.right.right
  simp only [List.length_append, x0In_len, kern1_len, x0Out_len, x0Hash_len, fill1Code, xsTCode, clrSetCode, clrLoopCode, List.length_cons,
    List.length_nil] at h
  exact h.cast (by omega) rfl

theorem regionBytes_fmem (s : State) (nm : String) (w : Bool) (rk dst nonce inp aad tmp : List Nat)
    (h : s.mem = fmem nm w rk dst nonce inp aad tmp) : regionBytes s "dst" = some dst := by
  unfold regionBytes; rw [h]; rfl

theorem keepsM_setGreg (s : State) (d r : Nat) (G : List Nat) (hG : d ∉ G) :
    KeepsM G (List.range 32) (List.range 8) s (setGreg s d r) :=
  ⟨by simp, rfl, rfl, fun n hn => greg_setGreg_ne s d r n (by intro e; subst e; exact hG hn), fun _ _ => rfl, fun _ _ => rfl, rfl, rfl⟩

end SMGo.Proofs.ISAVal
namespace SMGo.Proofs.ISAVal
open SMGo.Model.ISAVal SMGo.Model.GCM SMGo.Proofs.GCM SMGo.Proofs.ISATouch
open SMGo.Model.ISA (Reg Opd Instr)

/-- ciphertext and tag of `sealAsm` on numbers, from the 16 bytes `jb` of the pre-counter block J0: the ladder from the counter block
    `jb`, GHASH from the GHASH of the additional data, then `CalculateSPost` -/
def sealOutJ (rk jb pt aad : List Nat) (t fuel : Nat) : List Nat :=
  let r := ladN rk jb (hKey rk) 1 fuel 0 (ghUpdN (hKey rk) 0 aad) pt
  r.1 ++ (lanes 8 16 (tagN (hKey rk) r.2 (unlanes 8 (encB rk jb)) aad.length pt.length)).take t

/-- the same for a 12-byte nonce: J0 = nonce ‖ 0,0,0,1 -/
def sealOutN (rk nonce pt aad : List Nat) (t fuel : Nat) : List Nat := sealOutJ rk (nonce ++ [0, 0, 0, 1]) pt aad t fuel

/-- the argument slots `sealAsm` reads after the prefix -/
structure SealFrame (fr : List (String × Nat)) (t sp pl al : Nat) : Prop where
  dst : lookup fr "dst" = some 77309411328
  pt : lookup fr "plaintext" = some sp
  pl : lookup fr "plainLen" = some pl
  al : lookup fr "aLen" = some al
  ts : lookup fr "tagSize" = some t
  tmp : lookup fr "tmp" = some 94489280512

set_option maxHeartbeats 4000000 in
set_option maxRecDepth 100000 in
/-- **`sealAsm` after the common prefix** (instructions 1499 … RET), for any pre-counter block `jb` the prefix has left in VzJ0 and
    any place `sp` the plaintext is readable from (its own region, or the destination buffer itself: the in-place call) -/
theorem seal_after_prefix_gen (rk : List Nat) (t : Nat) (dst nonce inp pt aad : List Nat) (sp : Nat)
    (hrk : rk.length = 32) (hrkb : ∀ x ∈ rk, x < 2 ^ 32) (hall : aad.length < 2 ^ 32)
    (hpb : ∀ x ∈ pt, x < 2 ^ 8) (hpl : pt.length < 2 ^ 32) (ht : t ≤ 16) (hdl : pt.length + t ≤ dst.length) (hdl32 : dst.length < 2 ^ 32)
    (jb : List Nat) (hjb : jb.length = 16) (hjbb : ∀ x ∈ jb, x < 2 ^ 8) (s5 : State)
    (ap : AfterPre (fun b => fmem "plaintext" false rk dst nonce inp aad b) rk nonce aad jb 81604378624 94489280512 90194313216 s5)
    (fr : SealFrame s5.frame t sp pt.length aad.length)
    (lm : LadMem (fun d t => fmem "plaintext" false rk d nonce inp aad t) 77309411328 dst.length 94489280512 rk pt sp)
    (hs0 : ∀ b, b.length = 32 → SrcFrom (fmem "plaintext" false rk dst nonce inp aad b) sp pt 0) (hsp : sp + pt.length < 2 ^ 63)
    (fuel : Nat) (hfuel : fuelNeed pt.length ≤ fuel) :
    ∃ s' N, N ≤ 700 * (pt.length / 256) + 4500 ∧ Reach sealR 1499 s5 5360 s' N ∧
      regionBytes s' "dst" = some (spliceAt dst 0 (sealOutJ rk jb pt aad t fuel)) := by
  obtain ⟨b5, hb5, hm5⟩ := ap.mem
  have ss := seal_slices'
  -- the arguments of the ladder
  have fDst := fr.dst
  have fPt := fr.pt
  have fPl := fr.pl
  have fTs := fr.ts
  let a1 := setGreg s5 13 77309411328
  let a2 := setGreg a1 10 sp
  let a3 := setGreg a2 9 pt.length
  let a4 := setGreg a3 0 (imm64 1)
  have hG5 := ap.pc.lenG
  have hxa : execList sealArgsCode s5 = .ok a4 := by
    apply exec_step (a_movq_frame s5 "dst" 24 13 _ fDst (by rw [hG5]; decide))
    apply exec_step (a_movq_frame a1 "plaintext" 56 10 _ fPt (by simp [a1, hG5]))
    apply exec_step (a_movq_frame a2 "plainLen" 64 9 _ fPl (by simp [a2, a1, hG5]))
    apply exec_step (a_movq_imm a3 1 0 (by simp [a3, a2, a1, hG5]))
    rfl
  have ra : Reach sealR 1499 s5 1503 a4 4 := reach_seg ss.args (by rfl) hxa
  have ka : KeepsM [6, 15] (List.range 32) (List.range 8) s5 a4 :=
    (((keepsM_setGreg s5 13 _ _ (by decide)).trans (keepsM_setGreg a1 10 _ _ (by decide))).trans
      (keepsM_setGreg a2 9 _ _ (by decide))).trans (keepsM_setGreg a3 0 _ _ (by decide))
  obtain ⟨toff, hto, h6⟩ : ∃ toff, (toff = 0 ∨ toff = 16) ∧ greg a4 6 = 94489280512 + toff := by
    rcases ap.scratch with h' | h'
    · exact ⟨0, Or.inl rfl, by rw [ka.g 6 (by decide), h']⟩
    · exact ⟨16, Or.inr rfl, by rw [ka.g 6 (by decide), h']⟩
  have hG4 : a4.gpr.length = 16 := ka.lenG.trans hG5
  -- the ladder
  obtain ⟨s6, N6, hN6, r6, e6⟩ := ladder_reach sealR 1503 8878 (ladSlices_of sealR 1503 8878 ss.lad) seal_ladLabels
    (fun d t => fmem "plaintext" false rk d nonce inp aad t) 77309411328 dst.length 94489280512 sp rk jb pt lm hrk hrkb hjb hjbb hpb
    (by omega) (by omega) (by omega) (by decide) toff (hKey rk) 1 (by decide) hto (ghUpdN (hKey rk) 0 aad) dst b5 a4
    (ap.pc.of_keepsM ka (by decide)) (ap.gh.of_keepsM ka (by decide)) (by rw [ka.g 15 (by decide)]; exact ap.rkp)
    (by show greg (setGreg a3 0 _) 0 = 1; rw [greg_setGreg_eq a3 0 _ (by simp [a3, a2, a1, hG5]), imm64_1'])
    (by show greg (setGreg a3 0 _) 9 = _
        rw [greg_setGreg_ne a3 0 _ 9 (by decide)]; exact greg_setGreg_eq a2 9 _ (by simp [a2, a1, hG5]))
    (by show greg (setGreg a3 0 _) 10 = _
        rw [greg_setGreg_ne a3 0 _ 10 (by decide)]; show greg (setGreg a2 9 _) 10 = _
        rw [greg_setGreg_ne a2 9 _ 10 (by decide)]; exact greg_setGreg_eq a1 10 _ (by simp [a1, hG5]))
    (by show greg (setGreg a3 0 _) 13 = _
        rw [greg_setGreg_ne a3 0 _ 13 (by decide)]; show greg (setGreg a2 9 _) 13 = _
        rw [greg_setGreg_ne a2 9 _ 13 (by decide)]; show greg (setGreg a1 10 _) 13 = _
        rw [greg_setGreg_ne a1 10 _ 13 (by decide)]; exact greg_setGreg_eq s5 13 _ (by rw [hG5]; decide))
    h6 (by rw [ka.v 14 (by decide)]; exact ap.j0) (by rw [ka.v 21 (by decide)]; exact ap.tag)
    (by rw [← ap.tag]; exact ap.taglt) (by show s5.mem = _; exact hm5) rfl hb5 hs0
  have e := e6 (pt.length / 256 + 5) (Nat.le_refl _)
  rw [ladN_fuel rk jb (hKey rk) 1 (pt.length / 256 + 5) fuel 0 _ pt (fuelNeed_le _) hfuel] at e
  obtain ⟨tc6, htc6, hm6⟩ := e.mem
  -- the arguments of CalculateSPost
  have sN := x0_nop_slice sealR (1503 + 3120) 8878 (ladSlices_of sealR 1503 8878 ss.lad).x0
  have rN : Reach sealR 5273 s6 5274 s6 1 := by
    have := reach_seg (s := s6) (s' := s6) sN (by rfl) (by apply exec_step (s1 := s6); · rfl
                                                           exact execList_nil _)
    exact this
  have hf6 : s6.frame = s5.frame := by rw [e.keep.frame]; rfl
  have fDst6 : lookup s6.frame "dst" = some 77309411328 := by rw [hf6]; exact fr.dst
  have fAl6 : lookup s6.frame "aLen" = some aad.length := by rw [hf6]; exact fr.al
  have fPl6 : lookup s6.frame "plainLen" = some pt.length := by rw [hf6]; exact fr.pl
  have fTs6 : lookup s6.frame "tagSize" = some t := by rw [hf6]; exact fr.ts
  have fTmp6 : lookup s6.frame "tmp" = some 94489280512 := by rw [hf6]; exact fr.tmp
  have hG6 := e.pc.lenG
  let p1 := setGreg s6 13 77309411328
  let p2 := setGreg p1 7 aad.length
  let p3 := setGreg p2 9 pt.length
  have hG3 : p3.gpr.length = 16 := by simp [p3, p2, p1, hG6]
  have g39 : greg p3 9 = pt.length := greg_setGreg_eq p2 9 _ (by simp [p2, p1, hG6])
  have g313 : greg p3 13 = 77309411328 := by
    show greg (setGreg p2 9 _) 13 = _
    rw [greg_setGreg_ne p2 9 _ 13 (by decide)]; show greg (setGreg p1 7 _) 13 = _
    rw [greg_setGreg_ne p1 7 _ 13 (by decide)]; exact greg_setGreg_eq s6 13 _ (by rw [hG6]; decide)
  have x4 := a_addq_rr p3 9 13 (by omega) (by omega) (by rw [g39]; omega) (by rw [g313]; decide)
  rw [g39, g313, Nat.mod_eq_of_lt (by omega)] at x4
  let p4 := setFlags (setGreg p3 13 (77309411328 + pt.length)) (addF 8 77309411328 pt.length).2
  let p5 := setGreg p4 14 t
  let p6 := setGreg p5 6 94489280512
  have hG4' : p4.gpr.length = 16 := (lenG_sf p3 13 _ _).trans hG3
  have hxp : execList sealPostArgsCode s6 = .ok p6 := by
    apply exec_step (a_movq_frame s6 "dst" 24 13 _ fDst6 (by rw [hG6]; decide))
    apply exec_step (a_movq_frame p1 "aLen" 88 7 _ fAl6 (by simp [p1, hG6]))
    apply exec_step (a_movq_frame p2 "plainLen" 64 9 _ fPl6 (by simp [p2, p1, hG6]))
    apply exec_step x4
    apply exec_step (a_movq_frame p4 "tagSize" 16 14 _ fTs6 (by rw [hG4']; decide))
    apply exec_step (a_movq_frame p5 "tmp" 104 6 _ fTmp6 (by simp [p5]; rw [hG4']; decide))
    rfl
  have rp : Reach sealR 5274 s6 5280 p6 6 := reach_seg ss.post (by rfl) hxp
  have kp : KeepsM [] (List.range 32) (List.range 8) s6 p6 :=
    ((((keepsM_setGreg s6 13 _ _ (by decide)).trans (keepsM_setGreg p1 7 _ _ (by decide))).trans
      (keepsM_setGreg p2 9 _ _ (by decide))).trans
      (⟨lenG_sf p3 13 _ _, rfl, rfl, fun _ h => (by cases h), fun _ _ => rfl, fun _ _ => rfl, rfl, rfl⟩ : KeepsM [] (List.range 32) (List.range 8) p3 p4)).trans
      ((keepsM_setGreg p4 14 _ _ (by decide)).trans (keepsM_setGreg p5 6 _ _ (by decide)))
  have g66 : greg p6 6 = 94489280512 := greg_setGreg_eq p5 6 _ (by simp [p5]; rw [hG4']; decide)
  have g614 : greg p6 14 = t := by
    show greg (setGreg p5 6 _) 14 = t
    rw [greg_setGreg_ne p5 6 _ 14 (by decide)]; exact greg_setGreg_eq p4 14 _ (by rw [hG4']; decide)
  have g613 : greg p6 13 = 77309411328 + pt.length := by
    show greg (setGreg p5 6 _) 13 = _
    rw [greg_setGreg_ne p5 6 _ 13 (by decide)]; show greg (setGreg p4 14 _) 13 = _
    rw [greg_setGreg_ne p4 14 _ 13 (by decide)]; show greg (setFlags (setGreg p3 13 _) _) 13 = _
    rw [greg_setFlags, greg_setGreg_eq p3 13 _ (by omega)]
  have g69 : greg p6 9 = pt.length := by
    show greg (setGreg p5 6 _) 9 = _
    rw [greg_setGreg_ne p5 6 _ 9 (by decide)]; show greg (setGreg p4 14 _) 9 = _
    rw [greg_setGreg_ne p4 14 _ 9 (by decide)]; show greg (setFlags (setGreg p3 13 _) _) 9 = _
    rw [greg_setFlags, greg_setGreg_ne p3 13 _ 9 (by decide)]; exact g39
  have g67 : greg p6 7 = aad.length := by
    show greg (setGreg p5 6 _) 7 = _
    rw [greg_setGreg_ne p5 6 _ 7 (by decide)]; show greg (setGreg p4 14 _) 7 = _
    rw [greg_setGreg_ne p4 14 _ 7 (by decide)]; show greg (setFlags (setGreg p3 13 _) _) 7 = _
    rw [greg_setFlags, greg_setGreg_ne p3 13 _ 7 (by decide)]; show greg (setGreg p2 9 _) 7 = _
    rw [greg_setGreg_ne p2 9 _ 7 (by decide)]; exact greg_setGreg_eq p1 7 _ (by simp [p1, hG6])
  -- CalculateSPost
  have hdc6 := e.hdc
  have htm : unlanes 8 (encB rk jb) < 2 ^ 128 := encB_lt _ _
  obtain ⟨s8, N8, tc8, hN8, r8, m8, _, _⟩ := sPost_reach sealR 5280 13 31834 31861 31888 31917 31944 (Or.inl rfl) ss.sPost
    (label_findPc seal_labels (name := "tag.copy8") (by decide)) (label_findPc seal_labels (name := "tag.copy4") (by decide))
    (label_findPc seal_labels (name := "tag.copy2") (by decide)) (label_findPc seal_labels (name := "tag.copy1") (by decide))
    (label_findPc seal_labels (name := "tag.copyEnd") (by decide))
    (fun d t => fmem "plaintext" false rk d nonce inp aad t) 77309411328 dst.length 94489280512 32 (by decide) lm.m2 (by omega) (by decide)
    p6 (hKey rk) (e.gh.of_keepsM kp (by decide)) (kp.syms.trans e.pc.syms) _ tc6 hdc6 htc6 (by show s6.mem = _; exact hm6)
    aad.length pt.length t pt.length _ (unlanes 8 (encB rk jb)) g67 g69 (by omega) (by omega) g613 g614 ht (by omega) g66
    (by rw [kp.v 21 (by decide)]; exact e.acc) e.acclt
    (by rw [kp.v 15 (by decide), e.keep.v 15 (by decide), ka.v 15 (by decide)]; exact ap.tmask) htm
  refine ⟨s8, 4 + N6 + 1 + 6 + N8, by omega, (((ra.trans r6).trans rN).trans rp).trans r8, ?_⟩
  rw [regionBytes_fmem s8 _ _ _ _ _ _ _ _ m8]
  congr 1
  unfold sealOutJ
  have hl1 : (ladN rk jb (hKey rk) 1 fuel 0 (ghUpdN (hKey rk) 0 aad) pt).1.length = pt.length :=
    ladN_length rk jb (hKey rk) 1 fuel 0 _ pt hfuel
  have key := spliceAt_spliceAt' dst 0 (ladN rk jb (hKey rk) 1 fuel 0 (ghUpdN (hKey rk) 0 aad) pt).1
    ((lanes 8 16 (tagN (hKey rk) (ladN rk jb (hKey rk) 1 fuel 0 (ghUpdN (hKey rk) 0 aad) pt).2 (unlanes 8 (encB rk jb)) aad.length pt.length)).take t)
    (by rw [hl1]; omega)
  rw [hl1, Nat.zero_add] at key
  exact key

theorem sealState_frame (g v k rk : List Nat) (t : Nat) (dst nonce pt aad tmp : List Nat) :
    SealFrame (sealState g v k rk t dst nonce pt aad tmp).frame t 85899345920 pt.length aad.length :=
  ⟨by simp [sealState, mkState, lookup]; rfl, by simp [sealState, mkState, lookup]; rfl, by simp [sealState, mkState, lookup],
   by simp [sealState, mkState, lookup], by simp [sealState, mkState, lookup], by simp [sealState, mkState, lookup]; rfl⟩

/-- **`sealAsm` after the common prefix**, plaintext in its own region -/
theorem seal_after_prefix (g v k rk : List Nat) (t : Nat) (dst nonce pt aad tmp : List Nat)
    (hrk : rk.length = 32) (hrkb : ∀ x ∈ rk, x < 2 ^ 32) (hall : aad.length < 2 ^ 32)
    (hpb : ∀ x ∈ pt, x < 2 ^ 8) (hpl : pt.length < 2 ^ 32) (ht : t ≤ 16) (hdl : pt.length + t ≤ dst.length) (hdl32 : dst.length < 2 ^ 32)
    (jb : List Nat) (hjb : jb.length = 16) (hjbb : ∀ x ∈ jb, x < 2 ^ 8) (s5 : State)
    (ap : AfterPre (fun b => fmem "plaintext" false rk dst nonce pt aad b) rk nonce aad jb 81604378624 94489280512 90194313216 s5)
    (hf5 : s5.frame = (sealState g v k rk t dst nonce pt aad tmp).frame) (fuel : Nat) (hfuel : fuelNeed pt.length ≤ fuel) :
    ∃ s' N, N ≤ 700 * (pt.length / 256) + 4500 ∧ Reach sealR 1499 s5 5360 s' N ∧
      regionBytes s' "dst" = some (spliceAt dst 0 (sealOutJ rk jb pt aad t fuel)) :=
  seal_after_prefix_gen rk t dst nonce pt pt aad 85899345920 hrk hrkb hall hpb hpl ht hdl hdl32 jb hjb hjbb s5 ap
    (by rw [hf5]; exact sealState_frame g v k rk t dst nonce pt aad tmp)
    (ladMem_fmem "plaintext" false rk nonce pt aad dst.length hrk hdl32 hpl)
    (fun b _ => srcFrom_fmem "plaintext" false rk dst nonce pt aad b hpl 0) (by omega) fuel hfuel


/-- **`sealAsm` from entry to `RET`, 12-byte nonce**: the destination buffer afterwards -/
theorem seal_reach12 (g v k rk : List Nat) (t : Nat) (dst nonce pt aad tmp : List Nat)
    (hG : g.length = 16) (hV : v.length = 32) (hK : k.length = 8) (hrk : rk.length = 32) (hrkb : ∀ x ∈ rk, x < 2 ^ 32)
    (hn : nonce.length = 12) (hnb : ∀ x ∈ nonce, x < 2 ^ 8) (hab : ∀ x ∈ aad, x < 2 ^ 8) (hall : aad.length < 2 ^ 32)
    (hpb : ∀ x ∈ pt, x < 2 ^ 8) (hpl : pt.length < 2 ^ 32) (ht : t ≤ 16) (hdl : pt.length + t ≤ dst.length) (hdl32 : dst.length < 2 ^ 32)
    (htmp : tmp.length = 32) (fuel : Nat) (hfuel : fuelNeed pt.length ≤ fuel) :
    ∃ s' N, N ≤ 34 * (aad.length / 16) + 700 * (pt.length / 256) + 6000 ∧
      Reach sealR 0 (sealState g v k rk t dst nonce pt aad tmp) 5360 s' N ∧
      regionBytes s' "dst" = some (spliceAt dst 0 (sealOutN rk nonce pt aad t fuel)) := by
  obtain ⟨s5, N5, hN5, r5, ap, hf5⟩ := seal_prefix12 g v k rk t dst nonce pt aad tmp hG hV hK hrk hrkb hn hnb hab hall htmp
  have hjb : (nonce ++ [0, 0, 0, 1]).length = 16 := by simp [hn]
  have hjbb : ∀ x ∈ nonce ++ [0, 0, 0, 1], x < 2 ^ 8 := by
    intro x hx
    rw [List.mem_append] at hx
    rcases hx with h1 | h1
    · exact hnb x h1
    · simp only [List.mem_cons, List.not_mem_nil, or_false] at h1
      rcases h1 with rfl | rfl | rfl | rfl <;> decide
  obtain ⟨s', N, hN, r6, hd⟩ := seal_after_prefix g v k rk t dst nonce pt aad tmp hrk hrkb hall hpb hpl ht hdl hdl32 _ hjb hjbb s5 ap hf5 fuel hfuel
  exact ⟨s', N5 + N, by omega, r5.trans r6, hd⟩

end SMGo.Proofs.ISAVal
