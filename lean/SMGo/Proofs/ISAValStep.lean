import SMGo.Proofs.ISAValRun
namespace SMGo.Proofs.ISAVal
open SMGo.Model.ISAVal SMGo.Model.ISA

@[simp] theorem ok_bind {ε α β : Type} (a : α) (f : α → Except ε β) : (Except.ok a >>= f) = f a := rfl
@[simp] theorem error_bind {ε α β : Type} (e : ε) (f : α → Except ε β) : ((Except.error e : Except ε α) >>= f) = .error e := rfl
@[simp] theorem map_ok {ε α β : Type} (a : α) (f : α → β) : Except.map f (Except.ok a : Except ε α) = .ok (f a) := rfl
@[simp] theorem pure_eq_ok {ε α : Type} (a : α) : (pure a : Except ε α) = .ok a := rfl

def R (n : Nat) : Opd := .reg (.vec n)
def G (n : Nat) : Opd := .reg (.gpr n)
def M (b : Nat) (disp : Int) : Opd := .mem (.gpr b) none 0 disp
def ins (mn : Mn) (ops : List Opd) (vw : Nat) : DInstr := ⟨0, mn, ops, vw⟩

theorem execList_cons_of {s s1 : State} {i : DInstr} {rest : List DInstr} (h : execD s i = .ok s1) :
    execList (i :: rest) s = execList rest s1 := by
  simp [execList, h]

theorem execList_nil (s : State) : execList [] s = .ok s := rfl

/-- one step of a straight-line block -/
theorem exec_step {s s1 : State} {i : DInstr} {rest : List DInstr} {r : Except String State}
    (h : execD s i = .ok s1) (hr : execList rest s1 = r) : execList (i :: rest) s = r := by
  rw [execList_cons_of h]; exact hr

section
variable (g v k : List Nat) (fl : Flags) (mem : List Region) (syms frame : List (String × Nat))

/-- the mnemonics dispatched to `exVec3` without a mask -/
def isVec3 (mn : Mn) : Bool :=
  match mn with
  | .VPXORD | .VPANDD | .VPADDD | .VPSHUFB | .VPUNPCKLDQ | .VPUNPCKHDQ | .VPUNPCKLQDQ | .VPUNPCKHQDQ => true
  | _ => false

theorem execD_vec3 (mn : Mn) (vl a b d av bv r w : Nat) (hmn : isVec3 mn = true) (hvl : validVl vl = true)
    (ha : v[a]? = some av) (hb : v[b]? = some bv) (hd : d < v.length)
    (hr : vec3 mn vl av bv = some (r, w)) :
    execD ⟨g, v, k, fl, mem, syms, frame⟩ (ins mn [R a, R b, R d] vl)
      = .ok ⟨g, v.set d r, k, fl, mem, syms, frame⟩ := by
  cases mn <;> simp [isVec3] at hmn <;>
    simp [execD, ins, R, exVec3, hvl, getV, setV, ha, hb, hd, hr]

def isVecImm (mn : Mn) : Bool :=
  match mn with
  | .VPROLD | .VPSLLDQ | .VPSRLDQ | .VPSRLW | .VPSLLQ => true
  | _ => false

theorem execD_vecImm (mn : Mn) (vl : Nat) (imm : Int) (a d av r : Nat) (hmn : isVecImm mn = true) (hvl : validVl vl = true)
    (ha : v[a]? = some av) (hd : d < v.length)
    (hr : vecImm mn vl (imm64 imm % 256) av = some r) :
    execD ⟨g, v, k, fl, mem, syms, frame⟩ (ins mn [.imm imm, R a, R d] vl)
      = .ok ⟨g, v.set d r, k, fl, mem, syms, frame⟩ := by
  cases mn <;> simp [isVecImm] at hmn <;>
    simp [execD, ins, R, exVecImm, hvl, getV, setV, ha, hd, hr]

def isVecImm2 (mn : Mn) : Bool :=
  match mn with
  | .VGF2P8AFFINEQB | .VGF2P8AFFINEINVQB | .VPCLMULQDQ | .VALIGND => true
  | _ => false

theorem execD_vecImm2 (mn : Mn) (vl : Nat) (imm : Int) (a b d av bv r : Nat) (hmn : isVecImm2 mn = true) (hvl : validVl vl = true)
    (ha : v[a]? = some av) (hb : v[b]? = some bv) (hd : d < v.length)
    (hr : vecImm2 mn vl (imm64 imm % 256) av bv = some r) :
    execD ⟨g, v, k, fl, mem, syms, frame⟩ (ins mn [.imm imm, R a, R b, R d] vl)
      = .ok ⟨g, v.set d r, k, fl, mem, syms, frame⟩ := by
  cases mn <;> simp [isVecImm2] at hmn <;>
    simp [execD, ins, R, exVecImm2, hvl, getV, setV, ha, hb, hd, hr]

theorem execD_broadcastd (vl a d av : Nat) (hvl : validVl vl = true) (ha : v[a]? = some av) (hd : d < v.length) :
    execD ⟨g, v, k, fl, mem, syms, frame⟩ (ins .VPBROADCASTD [R a, R d] vl)
      = .ok ⟨g, v.set d (unlanes 32 (List.replicate (vl / 4) (av % 2 ^ 32))), k, fl, mem, syms, frame⟩ := by
  simp [execD, ins, R, exBroadcastD, hvl, getV, setV, ha, hd]

theorem execD_movl_load (b : Nat) (disp : Int) (d gb old : Nat) (bs : List Nat)
    (hb : g[b]? = some gb) (hold : v[d]? = some old) (hd : d < v.length)
    (hload : readMem mem ((gb + 0 + imm64 disp) % 2 ^ 64) 4 = .ok bs) :
    execD ⟨g, v, k, fl, mem, syms, frame⟩ (ins .MOVL [M b disp, R d] 16)
      = .ok ⟨g, v.set d (old - old % 2 ^ 128 + unlanes 8 bs), k, fl, mem, syms, frame⟩ := by
  have hold' : v[d] = old := by rw [List.getElem?_eq_getElem hd] at hold; exact Option.some.inj hold
  have hload' : readMem mem ((gb + imm64 disp) % 18446744073709551616) 4 = .ok bs := by simpa using hload
  simp [execD, ins, R, M, exMov, effAddr, getG, getV, setV, hb, hold', hd, loadLE, hload']

theorem execD_addq_imm (imm : Int) (d old : Nat) (hold : g[d]? = some old) (hd : d < g.length) :
    execD ⟨g, v, k, fl, mem, syms, frame⟩ (ins .ADDQ [.imm imm, G d] 0)
      = .ok ⟨g.set d (addF 8 old (imm64 imm)).1, v, k, (addF 8 old (imm64 imm)).2, mem, syms, frame⟩ := by
  have hold' : g[d] = old := by rw [List.getElem?_eq_getElem hd] at hold; exact Option.some.inj hold
  simp [execD, ins, G, exAlu, getG, setG, hold', hd, alu, withFlags]

theorem execD_leaq (name : String) (off d a : Nat) (hs : lookup syms name = some a) (hd : d < g.length) :
    execD ⟨g, v, k, fl, mem, syms, frame⟩ (ins .LEAQ [.sym name off, G d] 0)
      = .ok ⟨g.set d (a + off), v, k, fl, mem, syms, frame⟩ := by
  simp [execD, ins, G, exLeaq, hs, setG, hd]

theorem execD_movq_frame (name : String) (off d a : Nat) (hs : lookup frame name = some a) (hd : d < g.length) :
    execD ⟨g, v, k, fl, mem, syms, frame⟩ (ins .MOVQ [.frame name off, G d] 0)
      = .ok ⟨g.set d a, v, k, fl, mem, syms, frame⟩ := by
  simp [execD, ins, G, exMov, hs, setG, hd]

theorem execD_vmov_load (vl b : Nat) (disp : Int) (d gb : Nat) (bs : List Nat) (hvl : validVl vl = true)
    (hb : g[b]? = some gb) (hd : d < v.length)
    (hload : readMem mem ((gb + 0 + imm64 disp) % 2 ^ 64) vl = .ok bs) :
    execD ⟨g, v, k, fl, mem, syms, frame⟩ (ins .VMOVDQU32 [M b disp, R d] vl)
      = .ok ⟨g, v.set d (unlanes 8 bs), k, fl, mem, syms, frame⟩ := by
  have hload' : readMem mem ((gb + imm64 disp) % 18446744073709551616) vl = .ok bs := by simpa using hload
  simp [execD, ins, R, M, exVmovdqu32, hvl, effAddr, getG, setV, hb, hd, loadLE, hload']

theorem execD_vmov_store (vl a b : Nat) (disp : Int) (gb av : Nat) (mem' : List Region) (hvl : validVl vl = true)
    (hb : g[b]? = some gb) (ha : v[a]? = some av)
    (hstore : writeMem mem ((gb + 0 + imm64 disp) % 2 ^ 64) (lanes 8 vl av) = .ok mem') :
    execD ⟨g, v, k, fl, mem, syms, frame⟩ (ins .VMOVDQU32 [R a, M b disp] vl)
      = .ok ⟨g, v, k, fl, mem', syms, frame⟩ := by
  have hstore' : writeMem mem ((gb + imm64 disp) % 18446744073709551616) (lanes 8 vl av) = .ok mem' := by simpa using hstore
  simp [execD, ins, R, M, exVmovdqu32, hvl, effAddr, getG, getV, hb, ha, storeLE, hstore']

theorem execD_broadcast_x2 (vl b : Nat) (disp : Int) (d gb : Nat) (bs : List Nat) (hvl : validVl vl = true)
    (hb : g[b]? = some gb) (hd : d < v.length)
    (hload : readMem mem ((gb + 0 + imm64 disp) % 2 ^ 64) 8 = .ok bs) :
    execD ⟨g, v, k, fl, mem, syms, frame⟩ (ins .VBROADCASTI32X2 [M b disp, R d] vl)
      = .ok ⟨g, v.set d (unlanes 64 (List.replicate (vl / 8) (unlanes 8 bs))), k, fl, mem, syms, frame⟩ := by
  have hload' : readMem mem ((gb + imm64 disp) % 18446744073709551616) 8 = .ok bs := by simpa using hload
  simp [execD, ins, R, M, exBroadcastMem, hvl, effAddr, getG, setV, hb, hd, loadLE, hload']

end
def K (n : Nat) : Opd := .reg (.k n)

section
variable (g v k : List Nat) (fl : Flags) (mem : List Region) (syms frame : List (String × Nat))

theorem execD_movq_imm (imm : Int) (d : Nat) (hd : d < g.length) :
    execD ⟨g, v, k, fl, mem, syms, frame⟩ (ins .MOVQ [.imm imm, G d] 0)
      = .ok ⟨g.set d (imm64 imm), v, k, fl, mem, syms, frame⟩ := by
  simp [execD, ins, G, exMov, setG, hd]

theorem execD_kmovw (a d ga : Nat) (ha : g[a]? = some ga) (hd : d < k.length) :
    execD ⟨g, v, k, fl, mem, syms, frame⟩ (ins .KMOVW [G a, K d] 0)
      = .ok ⟨g, v, k.set d (ga % 2 ^ 16), fl, mem, syms, frame⟩ := by
  simp [execD, ins, G, K, exKmovw, getG, setK, ha, hd]

theorem execD_subq_imm (imm : Int) (d old : Nat) (hold : g[d]? = some old) (hd : d < g.length) :
    execD ⟨g, v, k, fl, mem, syms, frame⟩ (ins .SUBQ [.imm imm, G d] 0)
      = .ok ⟨g.set d (subF 8 old (imm64 imm)).1, v, k, (subF 8 old (imm64 imm)).2, mem, syms, frame⟩ := by
  have hold' : g[d] = old := by rw [List.getElem?_eq_getElem hd] at hold; exact Option.some.inj hold
  simp [execD, ins, G, exAlu, getG, setG, hold', hd, alu, withFlags]

/-- VMOVDQU32 X, K, m128 with the opmask 1: only dword 0 is stored -/
theorem execD_vmov_store_k1 (a kk b : Nat) (disp : Int) (gb av : Nat) (mem' : List Region)
    (hb : g[b]? = some gb) (ha : v[a]? = some av) (hk : k[kk]? = some 1)
    (hstore : writeMem mem ((gb + 0 + imm64 disp) % 2 ^ 64) (lanes 8 4 (lane 32 0 av)) = .ok mem') :
    execD ⟨g, v, k, fl, mem, syms, frame⟩ (ins .VMOVDQU32 [R a, K kk, M b disp] 16)
      = .ok ⟨g, v, k, fl, mem', syms, frame⟩ := by
  have hstore' : writeMem mem ((gb + imm64 disp) % 18446744073709551616) (lanes 8 4 (lane 32 0 av)) = .ok mem' := by
    simpa using hstore
  simp [execD, ins, R, K, M, exVmovdqu32, validVl, effAddr, getG, getV, getK, hb, ha, hk, storeMasked, storeLE,
    List.range, List.range.loop, List.foldlM, hstore']

end

/-- a listing that decodes (byte offsets aside) to the straight-line block `code` followed by RET runs as `code` -/
theorem run_of_decode (l : List Instr) (code : List DInstr)
    (hd : (Routine.ofListing l).toOption.map (fun r => r.map erasePc) = some (code ++ [ins .RET [] 0]))
    (hnc : code.all (fun i => !i.mn.isControl) = true) (fuel : Nat) (hf : code.length < fuel)
    (s s' : State) (h : execList code s = .ok s') : run l fuel s = .ok s' := by
  cases hr : Routine.ofListing l with
  | error e => rw [hr] at hd; simp [Except.toOption] at hd
  | ok r =>
    rw [hr] at hd
    simp only [Except.toOption, Option.map_some, Option.some.injEq] at hd
    obtain ⟨body, rest, rfl, hbody, hrest⟩ := List.map_eq_append_iff.mp hd
    obtain ⟨ret, rfl, hret⟩ : ∃ ret, rest = [ret] ∧ erasePc ret = ins .RET [] 0 := by
      cases rest with
      | nil => simp at hrest
      | cons a t =>
        cases t with
        | nil => exact ⟨a, rfl, by simpa using hrest⟩
        | cons b u => simp at hrest
    have hmn : ret.mn = .RET := by have := congrArg DInstr.mn hret; simpa [erasePc, ins] using this
    have hops : ret.ops = [] := by have := congrArg DInstr.ops hret; simpa [erasePc, ins] using this
    have hexec : execList body s = .ok s' := by rw [← execList_erase, hbody]; exact h
    have hlen : body.length = code.length := by rw [← hbody, List.length_map]
    have hc : ∀ i ∈ body, i.mn.isControl = false := by
      intro i hi
      rw [← hbody, List.all_eq_true] at hnc
      have := hnc (erasePc i) (List.mem_map_of_mem hi)
      simpa [erasePc] using this
    unfold run
    rw [hr]
    exact runFrom_straight _ body ret [] hc hmn hops fuel (by omega) s s' hexec

end SMGo.Proofs.ISAVal
