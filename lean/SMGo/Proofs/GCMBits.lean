/-
  Foundations for the GCM proofs (properties C06, C07): xor-sums, GF(2)-linear maps on the naturals,
  bit decomposition, bit reversal `revBits`, and Algorithm 1 of SP 800-38D (`Spec.GCM.mulGF`) as
  X • Y = ⊕_i X_i · M^i(Y), with M the one-step map "multiply by x" of the standard's bit order.
-/
import SMGo.Spec.GCM
import SMGo.Model.GCMAlgo
namespace SMGo.Proofs.GCM
open SMGo
open SMGo.Model.GCM (xsum)
open SMGo.Spec.GCM (mulGF R)

/-! ### xor-sums -/

@[simp] theorem xsum_zero (f : Nat → Nat) : xsum 0 f = 0 := rfl
theorem xsum_succ (n : Nat) (f : Nat → Nat) : xsum (n + 1) f = xsum n f ^^^ f n := rfl

theorem xsum_const_zero (n : Nat) : xsum n (fun _ => 0) = 0 := by
  induction n with
  | zero => rfl
  | succ n ih => simp [xsum_succ, ih]

theorem xsum_congr {n : Nat} {f g : Nat → Nat} (h : ∀ i, i < n → f i = g i) : xsum n f = xsum n g := by
  induction n with
  | zero => rfl
  | succ n ih =>
    rw [xsum_succ, xsum_succ, ih (fun i hi => h i (Nat.lt_succ_of_lt hi)), h n (Nat.lt_succ_self n)]

theorem xor_xor_xor_comm (a b c d : Nat) : (a ^^^ b) ^^^ (c ^^^ d) = (a ^^^ c) ^^^ (b ^^^ d) := by
  ac_rfl

theorem xsum_xor (n : Nat) (f g : Nat → Nat) :
    xsum n (fun i => f i ^^^ g i) = xsum n f ^^^ xsum n g := by
  induction n with
  | zero => simp
  | succ n ih => simp only [xsum_succ, ih]; ac_rfl

theorem xsum_lt_two_pow {n k : Nat} {f : Nat → Nat} (h : ∀ i, i < n → f i < 2 ^ k) : xsum n f < 2 ^ k := by
  induction n with
  | zero => exact Nat.two_pow_pos k
  | succ n ih =>
    rw [xsum_succ]
    exact Nat.xor_lt_two_pow (ih (fun i hi => h i (Nat.lt_succ_of_lt hi))) (h n (Nat.lt_succ_self n))

/-- the sum splits at any point -/
theorem xsum_add (n m : Nat) (f : Nat → Nat) :
    xsum (n + m) f = xsum n f ^^^ xsum m (fun i => f (n + i)) := by
  induction m with
  | zero => simp
  | succ m ih => rw [← Nat.add_assoc, xsum_succ, xsum_succ, ih]; ac_rfl

/-- exchange of two finite xor-sums -/
theorem xsum_comm (n m : Nat) (f : Nat → Nat → Nat) :
    xsum n (fun i => xsum m (fun j => f i j)) = xsum m (fun j => xsum n (fun i => f i j)) := by
  induction n with
  | zero => simp [xsum_const_zero]
  | succ n ih => simp only [xsum_succ, ih, xsum_xor]

/-! ### GF(2)-linear maps -/

/-- additive for xor -/
def IsLin (A : Nat → Nat) : Prop := ∀ a b, A (a ^^^ b) = A a ^^^ A b

theorem IsLin.zero {A : Nat → Nat} (h : IsLin A) : A 0 = 0 := by
  have := h 0 0
  simp only [Nat.xor_self] at this
  have h2 : A 0 ^^^ A 0 = 0 := Nat.xor_self _
  omega

theorem IsLin.map_xsum {A : Nat → Nat} (h : IsLin A) (n : Nat) (f : Nat → Nat) :
    A (xsum n f) = xsum n (fun i => A (f i)) := by
  induction n with
  | zero => exact h.zero
  | succ n ih => rw [xsum_succ, h, ih, xsum_succ]

theorem IsLin.ite {A : Nat → Nat} (h : IsLin A) (c : Bool) (v : Nat) :
    A (if c then v else 0) = if c then A v else 0 := by
  cases c <;> simp [h.zero]

theorem IsLin.comp {A B : Nat → Nat} (hA : IsLin A) (hB : IsLin B) : IsLin (fun v => A (B v)) := by
  intro a b; show A (B (a ^^^ b)) = A (B a) ^^^ A (B b); rw [hB, hA]

theorem IsLin.xor {A B : Nat → Nat} (hA : IsLin A) (hB : IsLin B) : IsLin (fun v => A v ^^^ B v) := by
  intro a b; simp only [hA a b, hB a b]; ac_rfl

theorem isLin_id : IsLin (fun v => v) := fun _ _ => rfl
theorem isLin_zero : IsLin (fun _ => 0) := fun _ _ => by simp

theorem isLin_shiftLeft (k : Nat) : IsLin (fun v => v <<< k) := fun _ _ => Nat.shiftLeft_xor_distrib
theorem isLin_shiftRight (k : Nat) : IsLin (fun v => v >>> k) := fun _ _ => Nat.shiftRight_xor_distrib
theorem isLin_mod_two_pow (k : Nat) : IsLin (fun v => v % 2 ^ k) := fun _ _ => Nat.xor_mod_two_pow
theorem isLin_div_two_pow (k : Nat) : IsLin (fun v => v / 2 ^ k) := fun a b => by
  simp only [← Nat.shiftRight_eq_div_pow]; exact Nat.shiftRight_xor_distrib
theorem isLin_mul_two_pow (k : Nat) : IsLin (fun v => v * 2 ^ k) := fun a b => by
  simp only [← Nat.shiftLeft_eq]; exact Nat.shiftLeft_xor_distrib

/-- selection by a bit of the argument is linear in the argument -/
theorem ite_testBit_xor (a b i v : Nat) :
    (if (a ^^^ b).testBit i then v else 0) = (if a.testBit i then v else 0) ^^^ (if b.testBit i then v else 0) := by
  rw [Nat.testBit_xor]
  cases a.testBit i <;> cases b.testBit i <;> simp

/-! ### bit decomposition -/

theorem xor_two_pow_of_lt {x n : Nat} (h : x < 2 ^ (n + 1)) :
    x % 2 ^ n ^^^ (if x.testBit n then 2 ^ n else 0) = x := by
  apply Nat.eq_of_testBit_eq
  intro k
  rw [Nat.testBit_xor, Nat.testBit_mod_two_pow]
  by_cases hk : k < n
  · have : (if x.testBit n then 2 ^ n else 0).testBit k = false := by
      split
      · rw [Nat.testBit_two_pow]; simp; omega
      · simp
    simp [hk, this]
  · by_cases hkn : k = n
    · subst hkn
      cases hx : x.testBit k <;> simp
    · have h1 : x.testBit k = false :=
        Nat.testBit_lt_two_pow (Nat.lt_of_lt_of_le h (Nat.pow_le_pow_right (by decide) (by omega)))
      have : (if x.testBit n then 2 ^ n else 0).testBit k = false := by
        split
        · rw [Nat.testBit_two_pow]; simp; omega
        · simp
      simp [hk, this, h1]

/-- every x < 2^n is the xor of its bits -/
theorem xsum_bits {n x : Nat} (h : x < 2 ^ n) : xsum n (fun i => if x.testBit i then 2 ^ i else 0) = x := by
  induction n generalizing x with
  | zero => simp at h; simp [h]
  | succ n ih =>
    rw [xsum_succ]
    have h1 : xsum n (fun i => if x.testBit i then 2 ^ i else 0)
        = xsum n (fun i => if (x % 2 ^ n).testBit i then 2 ^ i else 0) := by
      apply xsum_congr; intro i hi; rw [Nat.testBit_mod_two_pow]; simp [hi]
    rw [h1, ih (Nat.mod_lt _ (Nat.two_pow_pos n))]
    exact xor_two_pow_of_lt h

/-- a linear map applied to x is the xor of its values on the bits of x -/
theorem IsLin.apply_eq_xsum {A : Nat → Nat} (hA : IsLin A) {n x : Nat} (h : x < 2 ^ n) :
    A x = xsum n (fun i => if x.testBit i then A (2 ^ i) else 0) := by
  conv => lhs; rw [← xsum_bits h]
  rw [hA.map_xsum]
  apply xsum_congr; intro i _; exact hA.ite _ _

/-- two linear maps that agree on 2^0 .. 2^(n-1) agree below 2^n -/
theorem IsLin.ext_of_basis {A B : Nat → Nat} (hA : IsLin A) (hB : IsLin B) {n : Nat}
    (h : ∀ i, i < n → A (2 ^ i) = B (2 ^ i)) {x : Nat} (hx : x < 2 ^ n) : A x = B x := by
  rw [hA.apply_eq_xsum hx, hB.apply_eq_xsum hx]
  apply xsum_congr; intro i hi; rw [h i hi]

/-! ### bit reversal -/

/-- the low `n` bits of `x` in reverse order: bit i ↦ bit n-1-i -/
def revBits : Nat → Nat → Nat
  | 0, _ => 0
  | n + 1, x => 2 * revBits n x + (x.testBit n).toNat

theorem testBit_two_mul_add_bool (r : Nat) (b : Bool) (k : Nat) :
    (2 * r + b.toNat).testBit k = if k = 0 then b else r.testBit (k - 1) := by
  cases k with
  | zero => cases b <;> simp [Nat.testBit_zero] <;> omega
  | succ k =>
    rw [Nat.testBit_succ]
    have : (2 * r + b.toNat) / 2 = r := by cases b <;> simp <;> omega
    simp [this]

theorem testBit_revBits (n x k : Nat) :
    (revBits n x).testBit k = (decide (k < n) && x.testBit (n - 1 - k)) := by
  induction n generalizing k with
  | zero => simp [revBits]
  | succ n ih =>
    rw [revBits, testBit_two_mul_add_bool]
    cases k with
    | zero => simp
    | succ k =>
      simp only [Nat.add_one_ne_zero, if_false, Nat.add_sub_cancel, ih]
      congr 1
      · simp
      · congr 1; omega

theorem revBits_lt (n x : Nat) : revBits n x < 2 ^ n := by
  apply Nat.lt_pow_two_of_testBit
  intro i hi
  rw [testBit_revBits]
  simp; omega

theorem revBits_xor (n a b : Nat) : revBits n (a ^^^ b) = revBits n a ^^^ revBits n b := by
  apply Nat.eq_of_testBit_eq; intro k
  simp only [Nat.testBit_xor, testBit_revBits]
  cases decide (k < n) <;> simp

theorem isLin_revBits (n : Nat) : IsLin (revBits n) := revBits_xor n

theorem revBits_revBits {n x : Nat} (h : x < 2 ^ n) : revBits n (revBits n x) = x := by
  apply Nat.eq_of_testBit_eq; intro k
  simp only [testBit_revBits]
  by_cases hk : k < n
  · have h1 : n - 1 - k < n := by omega
    have h2 : n - 1 - (n - 1 - k) = k := by omega
    simp [hk, h1, h2]
  · have : x.testBit k = false :=
      Nat.testBit_lt_two_pow (Nat.lt_of_lt_of_le h (Nat.pow_le_pow_right (by decide) (by omega)))
    simp [hk, this]

theorem revBits_two_pow {n i : Nat} (h : i < n) : revBits n (2 ^ i) = 2 ^ (n - 1 - i) := by
  apply Nat.eq_of_testBit_eq; intro k
  simp only [testBit_revBits, Nat.testBit_two_pow]
  by_cases hk : k < n
  · simp [hk]; omega
  · simp [hk]; omega

theorem revBits_zero (n : Nat) : revBits n 0 = 0 := (isLin_revBits n).zero

/-- the 128-bit reversal that relates the standard's bit order to the code's -/
abbrev rev128 (x : Nat) : Nat := revBits 128 x

/-! ### Algorithm 1 as a polynomial in the one-step map -/

/-- the update of V in Algorithm 1: multiplication by x (right shift in the standard's bit order) -/
def M (v : Nat) : Nat := if v % 2 = 0 then v >>> 1 else (v >>> 1) ^^^ R

def Mpow : Nat → Nat → Nat
  | 0, y => y
  | i + 1, y => M (Mpow i y)

theorem isLin_M : IsLin M := by
  intro a b
  have hx : (a ^^^ b) % 2 = (a % 2 + b % 2) % 2 := by
    have := @Nat.xor_mod_two_pow a b 1
    simp only [Nat.pow_one] at this
    rw [this]
    have ha : a % 2 = 0 ∨ a % 2 = 1 := by omega
    have hb : b % 2 = 0 ∨ b % 2 = 1 := by omega
    rcases ha with ha | ha <;> rcases hb with hb | hb <;> simp [ha, hb]
  have hs : (a ^^^ b) >>> 1 = a >>> 1 ^^^ b >>> 1 := Nat.shiftRight_xor_distrib
  unfold M
  rw [hx, hs]
  have ha : a % 2 = 0 ∨ a % 2 = 1 := by omega
  have hb : b % 2 = 0 ∨ b % 2 = 1 := by omega
  rcases ha with ha | ha <;> rcases hb with hb | hb <;> simp [ha, hb]
  · ac_rfl
  · ac_rfl
  · calc a >>> 1 ^^^ b >>> 1 = (a >>> 1 ^^^ b >>> 1) ^^^ (R ^^^ R) := by simp
      _ = _ := by ac_rfl

theorem isLin_Mpow (i : Nat) : IsLin (Mpow i) := by
  induction i with
  | zero => exact isLin_id
  | succ i ih => exact isLin_M.comp ih

theorem Mpow_M (i y : Nat) : Mpow i (M y) = M (Mpow i y) := by
  induction i with
  | zero => rfl
  | succ i ih => simp only [Mpow, ih]

theorem Mpow_add (i j y : Nat) : Mpow (i + j) y = Mpow i (Mpow j y) := by
  induction i with
  | zero => simp [Mpow]
  | succ i ih => rw [Nat.add_right_comm, Mpow, ih, Mpow]

theorem R_lt : R < 2 ^ 128 := by decide

theorem M_lt {v : Nat} (h : v < 2 ^ 128) : M v < 2 ^ 128 := by
  have h1 : v >>> 1 < 2 ^ 128 := by rw [Nat.shiftRight_eq_div_pow]; omega
  unfold M
  split
  · exact h1
  · exact Nat.xor_lt_two_pow h1 R_lt

theorem Mpow_lt {v : Nat} (h : v < 2 ^ 128) (i : Nat) : Mpow i v < 2 ^ 128 := by
  induction i with
  | zero => exact h
  | succ i ih => exact M_lt ih

/-- the state of Algorithm 1 after `n` iterations -/
theorem mulGF_fold (x y n : Nat) :
    (List.range n).foldl (fun (s : Nat × Nat) i =>
      let (z, v) := s
      let z := if (x >>> (127 - i)) % 2 = 1 then z ^^^ v else z
      let v := if v % 2 = 0 then v >>> 1 else (v >>> 1) ^^^ R
      (z, v)) (0, y)
    = (xsum n (fun i => if x.testBit (127 - i) then Mpow i y else 0), Mpow n y) := by
  induction n with
  | zero => rfl
  | succ n ih =>
    rw [List.range_succ, List.foldl_append, ih]
    simp only [List.foldl_cons, List.foldl_nil, xsum_succ, Mpow, M]
    have : x.testBit (127 - n) = decide ((x >>> (127 - n)) % 2 = 1) := by
      rw [Nat.testBit_eq_decide_div_mod_eq, Nat.shiftRight_eq_div_pow]
    rw [this]
    by_cases hb : (x >>> (127 - n)) % 2 = 1 <;> simp [hb]

/-- X • Y = ⊕_{i<128} X_i · M^i(Y), X_i the i-th bit of X counted from the most significant -/
theorem mulGF_eq_xsum (x y : Nat) :
    mulGF x y = xsum 128 (fun i => if x.testBit (127 - i) then Mpow i y else 0) := by
  unfold mulGF
  rw [mulGF_fold]

end SMGo.Proofs.GCM
