import SMGo.Proofs.ISAValFusedJ0
set_option linter.unusedSimpArgs false
namespace SMGo.Proofs.ISAVal
open SMGo.Model.ISAVal SMGo.Model.GCM SMGo.Proofs.GCM SMGo.Proofs.ISATouch
open SMGo.Model.ISA (Reg Opd Instr)

/-- the fold of the four lanes of the accumulator into lane 0 (end of `gHashBlocksLoopBy4`) -/
def fold4Code (Acc : Nat) : List DInstr :=
  [ins .VPERMQ [.imm 78, R Acc, R 0] 64, ins .VPXORD [R Acc, R 0, R 0] 64, ins .VPERMQ [R 0, R 31, R 1] 64,
   ins .VPXORD [R 0, R 1, R Acc] 16]

set_option maxRecDepth 100000 in
theorem fold4_spec (Acc : Nat) (hA : Acc = 14 ∨ Acc = 21) (s : State) (hV : s.vec.length = 32) (h31 : vreg s 31 = IDXv) :
    ∃ s', execList (fold4Code Acc) s = .ok s' ∧ vreg s' Acc < 2 ^ 128 ∧
      vreg s' Acc = (lane 128 2 (vreg s Acc) ^^^ lane 128 3 (vreg s Acc)) ^^^ (lane 128 1 (vreg s Acc) ^^^ lane 128 0 (vreg s Acc)) := by
  obtain ⟨gpr, vec, k, fl, mem, syms, frame⟩ := s
  simp only at hV
  obtain ⟨b0, b1, b2, b3, b4, b5, b6, b7, b8, b9, b10, b11, b12, b13, b14, b15, b16, b17, b18, b19, b20, b21, b22, b23, b24, b25, b26, b27, b28, b29, b30, b31, rfl⟩ := list32 vec hV
  simp only [vreg, List.getD_cons_succ, List.getD_cons_zero] at h31
  subst h31
  have key : ∀ a : Nat,
      map2 32 (16 / 4) (fun x y => y ^^^ x)
        (map2 32 (64 / 4) (fun x y => y ^^^ x) a
          (map1 256 (64 / 32) (fun L => unlanes 64 ((List.range 4).map (fun i => lane 64 (((imm64 78 % 256) >>> (2 * i)) % 4) L))) a))
        (map1 64 (64 / 8) (fun i => lane 64 (i % (64 / 8))
          (map2 32 (64 / 4) (fun x y => y ^^^ x) a
            (map1 256 (64 / 32) (fun L => unlanes 64 ((List.range 4).map (fun i => lane 64 (((imm64 78 % 256) >>> (2 * i)) % 4) L))) a))) IDXv)
      = (lane 128 2 a ^^^ lane 128 3 a) ^^^ (lane 128 1 a ^^^ lane 128 0 a) := by
    intro a
    have hlt := vpxord_lt 16
      (map2 32 (64 / 4) (fun x y => y ^^^ x) a
        (map1 256 (64 / 32) (fun L => unlanes 64 ((List.range 4).map (fun i => lane 64 (((imm64 78 % 256) >>> (2 * i)) % 4) L))) a))
      (map1 64 (64 / 8) (fun i => lane 64 (i % (64 / 8))
        (map2 32 (64 / 4) (fun x y => y ^^^ x) a
          (map1 256 (64 / 32) (fun L => unlanes 64 ((List.range 4).map (fun i => lane 64 (((imm64 78 % 256) >>> (2 * i)) % 4) L))) a))) IDXv)
      (by decide)
    rw [← lane128_0_of_lt _ hlt, lane128_vpxord 16 0 _ _ (by decide) (by decide), lane128_vpermq_idx,
      lane128_vpxord 64 3 _ _ (by decide) (by decide), lane128_vpxord 64 0 _ _ (by decide) (by decide), imm_78,
      lane128_vpermq78 _ 3 (by decide), lane128_vpermq78 _ 0 (by decide)]
    rfl
  rcases hA with rfl | rfl
  all_goals
    apply Exists.intro
    apply And.intro
    · unfold fold4Code
      apply exec_step
      · exact execD_vpermq_imm (hvl := by rfl) (ha := by rfl) (hd := by simp) (hr := by rfl) ..
      apply exec_step
      · exact execD_vec3 (hmn := by rfl) (hvl := by rfl) (ha := by rfl) (hb := by rfl) (hd := by simp) (hr := by rfl) ..
      apply exec_step
      · exact execD_vpermq_reg (hvl := by rfl) (ha := by rfl) (hb := by rfl) (hd := by simp) (hr := by rfl) ..
      apply exec_step
      · exact execD_vec3 (hmn := by rfl) (hvl := by rfl) (ha := by rfl) (hb := by rfl) (hd := by simp) (hr := by rfl) ..
      exact execList_nil _
    · simp only [List.set_cons_succ, List.set_cons_zero, vreg, List.getD_cons_succ, List.getD_cons_zero]
      exact ⟨vpxord_lt 16 _ _ (by decide), key _⟩


theorem HCtx.of_keeps {h : Nat} {G V K : List Nat} {s s' : State} (c : HCtx h s) (k : Keeps G V K s s')
    (h19 : 19 ∈ V) (h25 : 25 ∈ V) (h26 : 26 ∈ V) (h29 : 29 ∈ V) (h30 : 30 ∈ V) (h31 : 31 ∈ V) : HCtx h s' :=
  ⟨c.hlt, (k.v 19 h19).trans c.v19, by rw [k.v 25 h25]; exact c.v25, (k.v 26 h26).trans c.v26,
    ⟨fun l hl => by rw [k.v 29 h29]; exact c.c4.v29 l hl, fun l hl => by rw [k.v 30 h30]; exact c.c4.v30 l hl,
      (k.v 31 h31).trans c.c4.v31⟩⟩

/-- data registers of the GHASH steps: VzDat and the four state registers; accumulators: VxJ0 and VxTag -/
def ghInst (D Acc : Nat) : Prop := D ∈ [20, 6, 7, 8, 9] ∧ (Acc = 14 ∨ Acc = 21)

def ghKeepV (D Acc : Nat) : List Nat := (List.range 32).filter (fun n => !([0, 1, 2, 3, 13, 27, 28, D, Acc].contains n))

theorem gh4_writes (D Acc : Nat) : writesNone (gh4Code D Acc) (List.range 16) (ghKeepV D Acc) (List.range 8) = true := by
  simp [writesNone, gh4Code, mulRedCode, mulCode, redCode, leaves, touchesOf, tVec3, tVecImm, tVecImm2, ins, R, ghKeepV]
theorem gh1_writes (D Acc : Nat) : writesNone (gh1Code D Acc) (List.range 16) (ghKeepV D Acc) (List.range 8) = true := by
  simp [writesNone, gh1Code, mulRedCode, mulCode, redCode, leaves, touchesOf, tVec3, tVecImm, tVecImm2, ins, R, ghKeepV]

theorem ghInst_mem {D Acc : Nat} (h : ghInst D Acc) :
    D < 32 ∧ Acc < 32 ∧ D ≠ Acc ∧ 19 ∈ ghKeepV D Acc ∧ 25 ∈ ghKeepV D Acc ∧ 26 ∈ ghKeepV D Acc ∧ 29 ∈ ghKeepV D Acc ∧
      30 ∈ ghKeepV D Acc ∧ 31 ∈ ghKeepV D Acc := by
  obtain ⟨hD, hA⟩ := h
  simp only [List.mem_cons, List.not_mem_nil, or_false] at hD
  rcases hD with rfl | rfl | rfl | rfl | rfl <;> rcases hA with rfl | rfl <;> decide

set_option maxHeartbeats 1000000 in
/-- **one aggregated GHASH step** on the four reflected blocks held in the lanes of `D`:
    Acc := (Acc ⊕ X₀)·H⁴ ⊕ X₁·H³ ⊕ X₂·H² ⊕ X₃·H -/
theorem gh4_spec (D Acc : Nat) (hinst : ghInst D Acc) (s : State) (hV : s.vec.length = 32) (h : Nat) (c : HCtx h s)
    (y : Nat) (hy : vreg s Acc = y) (hylt : y < 2 ^ 128) (x : Nat → Nat) (hx : ∀ l, l < 4 → lane 128 l (vreg s D) = x l) :
    ∃ s', execList (gh4Code D Acc) s = .ok s' ∧ vreg s' Acc < 2 ^ 128 ∧
      vreg s' Acc = gmulR (hpow h 0) (y ^^^ x 0) ^^^ gmulR (hpow h 1) (x 1) ^^^ gmulR (hpow h 2) (x 2) ^^^ gmulR (hpow h 3) (x 3) := by
  obtain ⟨lD, lA, hne, m19, m25, m26, m29, m30, m31⟩ := ghInst_mem hinst
  -- D := Acc ⊕ D
  let xv := map2 32 (64 / 4) (fun a b => b ^^^ a) (vreg s Acc) (vreg s D)
  let s1 := setVreg s D xv
  have hr1 : execList [ins .VPXORD [R Acc, R D, R D] 64] s = .ok s1 := by
    apply exec_step (s1 := s1)
    · exact a_vec3 s .VPXORD 64 Acc D D xv 32 rfl rfl (by omega) (by omega) (by omega) rfl
    rfl
  have hV1 : s1.vec.length = 32 := by simp [s1]; exact hV
  have h1D : ∀ l, l < 4 → lane 128 l (vreg s1 D) = if l = 0 then x 0 ^^^ y else x l := by
    intro l hl
    rw [vreg_setVreg_eq s D xv (by omega)]
    show lane 128 l (map2 32 (64 / 4) (fun a b => b ^^^ a) (vreg s Acc) (vreg s D)) = _
    rw [lane128_vpxord 64 l _ _ (by decide) (by omega), hx l hl, hy]
    by_cases h0 : l = 0
    · subst h0; rw [lane128_0_of_lt _ hylt]; simp
    · rw [lane128_hi_of_lt y l hylt (by omega), Nat.xor_zero, if_neg h0]
  have s1_29 : vreg s1 29 = vreg s 29 := vreg_setVreg_ne s D xv 29 (by
    rcases hinst.1 with h' ; simp only [List.mem_cons, List.not_mem_nil, or_false] at h'; omega)
  have s1_30 : vreg s1 30 = vreg s 30 := vreg_setVreg_ne s D xv 30 (by
    rcases hinst.1 with h' ; simp only [List.mem_cons, List.not_mem_nil, or_false] at h'; omega)
  have s1_26 : vreg s1 26 = vreg s 26 := vreg_setVreg_ne s D xv 26 (by
    rcases hinst.1 with h' ; simp only [List.mem_cons, List.not_mem_nil, or_false] at h'; omega)
  have s1_31 : vreg s1 31 = vreg s 31 := vreg_setVreg_ne s D xv 31 (by
    rcases hinst.1 with h' ; simp only [List.mem_cons, List.not_mem_nil, or_false] at h'; omega)
  -- multiply by the powers, reduce
  obtain ⟨s2, hr2, vo2, lt2, val2⟩ := mulRed_spec 64 29 30 D Acc rfl (Or.inr ⟨rfl, rfl⟩)
    (by have := hinst.1; simp only [List.mem_cons, List.not_mem_nil, or_false] at this ⊢; omega)
    (by rcases hinst.2 with rfl | rfl <;> simp) s1 hV1
    (by intro l hl; rw [s1_30, s1_29, c.c4.v29 l (by omega)]; exact c.c4.v30 l (by omega))
    (by intro l hl; rw [s1_26, c.v26]; exact poly64_lanes l (by omega))
  have hL : ∀ l, l < 4 → lane 128 l (vreg s2 Acc) = gmulR (hpow h l) (if l = 0 then x 0 ^^^ y else x l) := by
    intro l hl
    rw [val2 l (by omega), s1_29, c.c4.v29 l hl, h1D l hl]
  have s2_31 : vreg s2 31 = IDXv := by
    rw [vo2.keep 31 mem31 (by rcases hinst.2 with rfl | rfl <;> decide), s1_31]; exact c.c4.v31
  -- fold
  obtain ⟨s3, hr3, lt3, val3⟩ := fold4_spec Acc hinst.2 s2 vo2.lenV s2_31
  refine ⟨s3, ?_, lt3, ?_⟩
  · unfold gh4Code
    rw [List.append_assoc]
    exact execList_append_ok hr1 (execList_append_ok hr2 hr3)
  · rw [val3, hL 0 (by decide), hL 1 (by decide), hL 2 (by decide), hL 3 (by decide), if_pos rfl, if_neg (by decide),
      if_neg (by decide), if_neg (by decide), Nat.xor_comm (x 0) y]
    generalize gmulR (hpow h 0) (y ^^^ x 0) = A
    generalize gmulR (hpow h 1) (x 1) = B
    generalize gmulR (hpow h 2) (x 2) = C
    generalize gmulR (hpow h 3) (x 3) = E
    ac_rfl

/-- **one GHASH step** on the reflected block held in lane 0 of `D`: Acc := (Acc ⊕ X)·H -/
theorem gh1_spec (D Acc : Nat) (hinst : ghInst D Acc) (s : State) (hV : s.vec.length = 32) (h : Nat) (c : HCtx h s)
    (y : Nat) (hy : vreg s Acc = y) (hylt : y < 2 ^ 128) :
    ∃ s', execList (gh1Code D Acc) s = .ok s' ∧ vreg s' Acc < 2 ^ 128 ∧
      vreg s' Acc = gmulR h (y ^^^ lane 128 0 (vreg s D)) := by
  obtain ⟨lD, lA, hne, m19, m25, m26, m29, m30, m31⟩ := ghInst_mem hinst
  have hDn : D ≠ 19 ∧ D ≠ 25 ∧ D ≠ 26 := by
    have := hinst.1; simp only [List.mem_cons, List.not_mem_nil, or_false] at this; omega
  let xv := map2 32 (16 / 4) (fun a b => b ^^^ a) (vreg s Acc) (vreg s D)
  let s1 := setVreg s D xv
  have hr1 : execList [ins .VPXORD [R Acc, R D, R D] 16] s = .ok s1 := by
    apply exec_step (s1 := s1)
    · exact a_vec3 s .VPXORD 16 Acc D D xv 32 rfl rfl (by omega) (by omega) (by omega) rfl
    rfl
  have hV1 : s1.vec.length = 32 := by simp [s1]; exact hV
  have h1D : lane 128 0 (vreg s1 D) = lane 128 0 (vreg s D) ^^^ y := by
    rw [vreg_setVreg_eq s D xv (by omega)]
    show lane 128 0 (map2 32 (16 / 4) (fun a b => b ^^^ a) (vreg s Acc) (vreg s D)) = _
    rw [lane128_vpxord 16 0 _ _ (by decide) (by decide), hy, lane128_0_of_lt _ hylt]
  have s1_19 : vreg s1 19 = h := by rw [vreg_setVreg_ne s D xv 19 (Ne.symm hDn.1)]; exact c.v19
  have s1_25 : vreg s1 25 = vreg s 25 := vreg_setVreg_ne s D xv 25 (Ne.symm hDn.2.1)
  have s1_26 : vreg s1 26 = vreg s 26 := vreg_setVreg_ne s D xv 26 (Ne.symm hDn.2.2)
  obtain ⟨s2, hr2, vo2, lt2, val2⟩ := mulRed_spec 16 19 25 D Acc rfl (Or.inl ⟨rfl, rfl⟩)
    (by have := hinst.1; simp only [List.mem_cons, List.not_mem_nil, or_false] at this ⊢; omega)
    (by rcases hinst.2 with rfl | rfl <;> simp) s1 hV1
    (by intro l hl
        have : l = 0 := by omega
        subst this
        rw [s1_25, s1_19, lane128_0_of_lt _ c.hlt]; exact c.v25)
    (by intro l hl; rw [s1_26, c.v26]; exact poly64_lanes l (by omega))
  refine ⟨s2, ?_, lt2, ?_⟩
  · unfold gh1Code
    exact execList_append_ok hr1 hr2
  · rw [← lane128_0_of_lt _ lt2, val2 0 (by decide), s1_19, lane128_0_of_lt _ c.hlt, h1D, Nat.xor_comm]

end SMGo.Proofs.ISAVal
