/-
  The rounds of the arm64 listings `cryptoBlockAsmX2` and `cryptoBlockAsmX4` (sm4/asm_arm64.s): key load,
  `VDUP RK.S[0], RK.S2 / RK.S4`, `subRoundX4` — 32 SM4 rounds on every word element that carries the round key
  (elements 0,1 for X2; 0..3 for X4), and the fact that the 800 middle instructions of the two regenerated listings
  are exactly these rounds.  Arm64 value semantics: UNVALIDATED transcription of the Arm ARM.
  The prologue / epilogue of X2 and X4 and the complete theorems are in ISAValArm64X2.lean / ISAValArm64X4*.lean;
  `cryptoBlockAsmX8` (different round macro `subRoundX8`) in ISAValArm64X8*.lean.  `cryptoBlockAsmX16Internal`
  (`subRoundX16`: state stashed in the 256-byte `tmp` buffer and reloaded several times per round) in
  ISAValArm64X16*.lean.
-/
import SMGo.Proofs.ISAValArm64X1
namespace SMGo.Proofs.ISAValArm64
open SMGo.Model.ISAValArm64 SMGo.Model.ISA
open SMGo.Model.ISAVal (lane lanes unlanes Region readMem writeMem lookup)
open SMGo.Proofs.ISAVal (lane_lt roundF stepN iterN lane_bcast)

/-- `loadRoundKeyX2` (`a = S2`) / `loadRoundKeyX4` (`a = S4`) -/
def keyLoadDupCode (a : Arr) : List DInstr := keyLoadCode ++ [ins .VDUP [R 12, R 12] [.S 0, a]]

/-- number of word elements that receive the round key -/
def dupCount (a : Arr) : Nat := match a with | .S4 => 4 | .S2 => 2 | _ => 0

theorem lane_vdupS (cnt i j n : Nat) (hj : j < cnt) : lane 32 j (vdupS cnt i n) = lane 32 i n :=
  lane_bcast 32 cnt j _ hj (lane_lt _ _ _)

theorem keyLoadDup_spec (a : Arr) (ha : a = .S4 ∨ a = .S2) (s : State) (hG : s.gpr.length = 31)
    (hV : s.vec.length = 32) (bs : List Nat) (hload : readMem s.mem (greg s 10) 4 = .ok bs) :
    execList (keyLoadDupCode a) s
      = .ok { s with gpr := s.gpr.set 10 ((greg s 10 + 4) % 2 ^ 64),
                     vec := s.vec.set 12 (vdupS (dupCount a) 0 (setLaneS 0 (vreg s 12) (unlanes 8 bs))) } := by
  unfold keyLoadDupCode
  rw [execList_append, keyLoad_spec s hG hV bs hload]
  obtain ⟨gpr, vec, mem, syms, frame⟩ := s
  simp only at hG hV
  have hlen : 12 < (vec.set 12 (setLaneS 0 (vreg ⟨gpr, vec, mem, syms, frame⟩ 12) (unlanes 8 bs))).length := by
    rw [List.length_set, hV]; decide
  have hget : (vec.set 12 (setLaneS 0 (vreg ⟨gpr, vec, mem, syms, frame⟩ 12) (unlanes 8 bs)))[12]?
      = some (setLaneS 0 (vreg ⟨gpr, vec, mem, syms, frame⟩ 12) (unlanes 8 bs)) :=
    List.getElem?_set_self (by rw [hV]; decide)
  rcases ha with rfl | rfl
  · apply exec_step
    · exact execD_vdup4 (hi := by decide) (hn := hget) (hd0 := hget) ..
    simp only [List.set_set, dupCount]; rfl
  · apply exec_step
    · exact execD_vdup2 (hi := by decide) (hn := hget) (hd0 := hget) ..
    simp only [List.set_set, dupCount]; rfl

def roundCodeL (a : Arr) (A B C D : Nat) : List DInstr := keyLoadDupCode a ++ subRoundCode A B C D

def roundIL (a : Arr) (i : Nat) : List DInstr := roundCodeL a (sreg i 0) (sreg i 1) (sreg i 2) (sreg i 3)

/-- the state between two rounds of `cryptoBlockAsmX2` / `X4`: element `j` of the four state registers carries
    the window `X j` of block `j` -/
structure ReadyL (nl : Nat) (mem : List Region) (syms frame : List (String × Nat)) (rkBase dstp : Nat)
    (i : Nat) (X : Nat → Nat × Nat × Nat × Nat) (s : State) : Prop where
  lenG : s.gpr.length = 31
  lenV : s.vec.length = 32
  hmem : s.mem = mem
  hsyms : s.syms = syms
  hframe : s.frame = frame
  g10 : greg s 10 = rkBase + 4 * i
  g11 : greg s 11 = dstp
  tab : s.vec.drop 15 = tabs
  x0 : ∀ j, j < nl → lane 32 j (vreg s (sreg i 0)) = (X j).1
  x1 : ∀ j, j < nl → lane 32 j (vreg s (sreg i 1)) = (X j).2.1
  x2 : ∀ j, j < nl → lane 32 j (vreg s (sreg i 2)) = (X j).2.2.1
  x3 : ∀ j, j < nl → lane 32 j (vreg s (sreg i 3)) = (X j).2.2.2

theorem readyL_step (a : Arr) (ha : a = .S4 ∨ a = .S2) (mem : List Region) (syms frame : List (String × Nat))
    (rkBase dstp i : Nat) (X : Nat → Nat × Nat × Nat × Nat) (s : State) (bs : List Nat)
    (hb : rkBase + 4 * i + 4 < 2 ^ 64) (hrk : readMem mem (rkBase + 4 * i) 4 = .ok bs) (hbs : unlanes 8 bs < 2 ^ 32)
    (h : ReadyL (dupCount a) mem syms frame rkBase dstp i X s) :
    ∃ s', execList (roundIL a i) s = .ok s' ∧
      ReadyL (dupCount a) mem syms frame rkBase dstp (i + 1) (fun j => stepN (X j) (unlanes 8 bs)) s' := by
  have hk := keyLoadDup_spec a ha s h.lenG h.lenV bs (by rw [h.hmem, h.g10]; exact hrk)
  generalize hs1 : ({ s with gpr := s.gpr.set 10 ((greg s 10 + 4) % 2 ^ 64),
                             vec := s.vec.set 12 (vdupS (dupCount a) 0 (setLaneS 0 (vreg s 12) (unlanes 8 bs))) } : State)
    = s1 at hk
  have hv1 : s1.vec = s.vec.set 12 (vdupS (dupCount a) 0 (setLaneS 0 (vreg s 12) (unlanes 8 bs))) := by rw [← hs1]
  have hg1 : s1.gpr = s.gpr.set 10 ((greg s 10 + 4) % 2 ^ 64) := by rw [← hs1]
  have hm1 : s1.mem = s.mem := by rw [← hs1]
  have hsy1 : s1.syms = s.syms := by rw [← hs1]
  have hf1 : s1.frame = s.frame := by rw [← hs1]
  have hne : ∀ n, n ≠ 12 → vreg s1 n = vreg s n := fun n hn => by
    unfold vreg; rw [hv1]; exact getD_set_ne _ _ _ _ hn
  have h12 : ∀ j, j < dupCount a → lane 32 j (vreg s1 12) = unlanes 8 bs := by
    intro j hj
    unfold vreg; rw [hv1, getD_set_eq _ _ _ (by rw [h.lenV]; decide), lane_vdupS _ _ _ _ hj]
    exact lane0_setLaneS0 _ _ hbs
  have hcnt : dupCount a ≤ 4 := by rcases ha with rfl | rfl <;> decide
  have htab1 : s1.vec.drop 15 = tabs := by
    rw [hv1, List.drop_set_of_lt (by decide)]; exact h.tab
  obtain ⟨s', hrun, hp⟩ := subRound_spec (sreg i 0) (sreg i 1) (sreg i 2) (sreg i 3) (sreg_perm i) s1
    (by rw [hv1, List.length_set]; exact h.lenV) htab1
  have hlt := fun j => sreg_lt i j
  refine ⟨s', execList_append_ok hk hrun, ?_⟩
  constructor
  · rw [hp.gpr, hg1, List.length_set]; exact h.lenG
  · exact hp.lenV
  · rw [hp.mem, hm1, h.hmem]
  · rw [hp.syms, hsy1, h.hsyms]
  · rw [hp.frame, hf1, h.hframe]
  · unfold greg; rw [hp.gpr, hg1, getD_set_eq _ _ _ (by rw [h.lenG]; decide)]
    rw [h.g10, Nat.mod_eq_of_lt (by omega)]; omega
  · unfold greg; rw [hp.gpr, hg1, getD_set_ne _ _ _ _ (by decide)]; exact h.g11
  · rw [hp.tab]; exact htab1
  · intro j hj; rw [sreg_succ, hp.vB, hne _ (by have := hlt 1; omega)]; exact h.x1 j hj
  · intro j hj; rw [sreg_succ, hp.vC, hne _ (by have := hlt 2; omega)]; exact h.x2 j hj
  · intro j hj; rw [sreg_succ, hp.vD, hne _ (by have := hlt 3; omega)]; exact h.x3 j hj
  · intro j hj
    rw [sreg_succ3, hp.vA j (by omega), hne _ (by have := hlt 0; omega), hne _ (by have := hlt 1; omega),
      hne _ (by have := hlt 2; omega), hne _ (by have := hlt 3; omega), h12 j hj, h.x0 j hj, h.x1 j hj, h.x2 j hj,
      h.x3 j hj]
    rfl

/-- rounds 0 .. n-1 of `cryptoBlockAsmX2` (`a = S2`) / `cryptoBlockAsmX4` (`a = S4`) -/
def roundsCodeL (a : Arr) : Nat → List DInstr
  | 0 => []
  | n + 1 => roundsCodeL a n ++ roundIL a n

theorem readyL_rounds (a : Arr) (ha : a = .S4 ∨ a = .S2) (mem : List Region) (syms frame : List (String × Nat))
    (rkBase dstp : Nat) (kb : Nat → List Nat) (hbase : rkBase + 4 * 32 < 2 ^ 64)
    (hrk : ∀ i, i < 32 → readMem mem (rkBase + 4 * i) 4 = .ok (kb i))
    (hkb : ∀ i, i < 32 → unlanes 8 (kb i) < 2 ^ 32)
    (X : Nat → Nat × Nat × Nat × Nat) (s : State) (h : ReadyL (dupCount a) mem syms frame rkBase dstp 0 X s)
    (n : Nat) (hn : n ≤ 32) :
    ∃ s', execList (roundsCodeL a n) s = .ok s' ∧
      ReadyL (dupCount a) mem syms frame rkBase dstp n (fun j => iterN (fun i => unlanes 8 (kb i)) (X j) n) s' := by
  induction n with
  | zero => exact ⟨s, rfl, h⟩
  | succ n ih =>
    obtain ⟨s1, hrun1, hr1⟩ := ih (by omega)
    obtain ⟨s2, hrun2, hr2⟩ := readyL_step a ha mem syms frame rkBase dstp n _ s1 (kb n) (by omega) (hrk n (by omega))
      (hkb n (by omega)) hr1
    exact ⟨s2, execList_append_ok hrun1 hrun2, hr2⟩

/-- instructions `off .. off+len-1` of a listing, decoded, byte offsets erased -/
def decodedSlice (l : List Instr) (arrs : List (List String)) (off len : Nat) : Option (List DInstr) :=
  (zipDecode l arrs).toOption.map (fun r => ((r.drop off).take len).map erasePc)

/-- the 800 instructions between the prologue and the epilogue of the regenerated listings of
    `cryptoBlockAsmX2` and `cryptoBlockAsmX4` are exactly these rounds (checked by evaluation) -/
theorem wide_kernels_rounds :
    decodedSlice Gen.ListArm64Asm.cryptoBlockAsmX2 Gen.ListArm64AsmArr.cryptoBlockAsmX2_arr 21 800
        = some (roundsCodeL .S2 32)
    ∧ decodedSlice Gen.ListArm64Asm.cryptoBlockAsmX4 Gen.ListArm64AsmArr.cryptoBlockAsmX4_arr 14 800
        = some (roundsCodeL .S4 32) := by
  decide +kernel

/-- every routine's specifier list has one entry per instruction -/
theorem arr_lengths :
    Gen.ListArm64AsmArr.expandKeyAsm_arr.length = Gen.ListArm64Asm.expandKeyAsm.length
    ∧ Gen.ListArm64AsmArr.cryptoBlockAsm_arr.length = Gen.ListArm64Asm.cryptoBlockAsm.length
    ∧ Gen.ListArm64AsmArr.cryptoBlockAsmX2_arr.length = Gen.ListArm64Asm.cryptoBlockAsmX2.length
    ∧ Gen.ListArm64AsmArr.cryptoBlockAsmX4_arr.length = Gen.ListArm64Asm.cryptoBlockAsmX4.length
    ∧ Gen.ListArm64AsmArr.cryptoBlockAsmX8_arr.length = Gen.ListArm64Asm.cryptoBlockAsmX8.length
    ∧ Gen.ListArm64AsmArr.cryptoBlockAsmX16Internal_arr.length = Gen.ListArm64Asm.cryptoBlockAsmX16Internal.length := by
  decide +kernel

end SMGo.Proofs.ISAValArm64
