import SMGo.Proofs.ISAValSpec
import SMGo.Model.ISAValOverlap
namespace SMGo.Proofs.ISAVal
open SMGo.Model.ISAVal SMGo

section overlap
set_option maxRecDepth 10000
variable (g v k rk : List Nat)

theorem kso_syms (buf : List Nat) (doff soff : Nat) : (kernelStateOverlap g v k rk buf doff soff).syms = symTab := rfl
theorem kso_mem (buf : List Nat) (doff soff : Nat) :
    (kernelStateOverlap g v k rk buf doff soff).mem = (kernelStateInPlace g v k rk buf).mem := by
  unfold kernelStateOverlap kernelStateInPlace mkState
  exact rfl
theorem kso_frame_rk (buf : List Nat) (doff soff : Nat) :
    lookup (kernelStateOverlap g v k rk buf doff soff).frame "rk" = some 73014444032 := by
  simp [kernelStateOverlap, mkState, lookup]; rfl
theorem kso_frame_dst (buf : List Nat) (doff soff : Nat) :
    lookup (kernelStateOverlap g v k rk buf doff soff).frame "dst" = some (77309411328 + doff) := by
  simp [kernelStateOverlap, mkState, lookup]; rfl
theorem kso_frame_src (buf : List Nat) (doff soff : Nat) :
    lookup (kernelStateOverlap g v k rk buf doff soff).frame "src" = some (77309411328 + soff) := by
  simp [kernelStateOverlap, mkState, lookup]; rfl

theorem ksi_read_at (buf : List Nat) (off n : Nat) (h : off + n ≤ buf.length) (hl : buf.length ≤ 2 ^ 32) (hn : 0 < n) :
    readMem (kernelStateInPlace g v k rk buf).mem (77309411328 + off) n = .ok ((buf.drop off).take n) := by
  unfold readMem
  have h1 : (77309411328 + off) / 2 ^ 32 = 18 := by omega
  have h2 : (77309411328 + off) % 2 ^ 32 = off := by omega
  simp only [h1, h2, Nat.reduceSub, ksi_mem_dst]
  rw [if_neg (by decide), if_pos h]

theorem ksi_write_at (buf bs : List Nat) (off : Nat) (h : off + bs.length ≤ buf.length) (hl : buf.length ≤ 2 ^ 32) (hn : 0 < bs.length) :
    writeMem (kernelStateInPlace g v k rk buf).mem (77309411328 + off) bs
      = .ok ((kernelStateInPlace g v k rk buf).mem.set 17 ⟨"dst", buf.take off ++ bs ++ buf.drop (off + bs.length), true⟩) := by
  unfold writeMem
  have h1 : (77309411328 + off) / 2 ^ 32 = 18 := by omega
  have h2 : (77309411328 + off) % 2 ^ 32 = off := by omega
  simp only [h1, h2, Nat.reduceSub, ksi_mem_dst]
  simp [h]

theorem kso_env (buf : List Nat) (doff soff : Nat) (s0 s1 s2 s3 s4 s5 s6 s7 s8 s9 s10 s11 s12 s13 s14 s15 : Nat)
    (hsrc : (buf.drop soff).take 16 = [s0, s1, s2, s3, s4, s5, s6, s7, s8, s9, s10, s11, s12, s13, s14, s15])
    (hg : g.length = 16) (hv : v.length = 32) (hrk : rk.length = 32)
    (hd : doff + 16 ≤ buf.length) (hs : soff + 16 ≤ buf.length) (hl : buf.length ≤ 2 ^ 32) :
    X1Env (kernelStateOverlap g v k rk buf doff soff) rk
      [s0, s1, s2, s3, s4, s5, s6, s7, s8, s9, s10, s11, s12, s13, s14, s15] 73014444032 (77309411328 + doff) (77309411328 + soff) where
  hG := hg
  hV := hv
  shuf := by rw [kso_syms]; exact symTab_shuffle
  shufR := by rw [kso_mem]; exact ksi_read_shuffle g v k rk buf
  pre := by rw [kso_syms]; exact symTab_pre
  preR := by rw [kso_mem]; exact ksi_read_pre g v k rk buf
  post := by rw [kso_syms]; exact symTab_post
  postR := by rw [kso_mem]; exact ksi_read_post g v k rk buf
  fSrc := kso_frame_src ..
  srcLt := by omega
  srcR := by rw [kso_mem, ksi_read_at g v k rk buf soff 16 hs hl (by decide), hsrc]
  fRk := kso_frame_rk ..
  rkLt := by decide
  rkR := fun i hi => by rw [kso_mem]; exact ksi_read_rk g v k rk _ hrk i hi
  fDst := kso_frame_dst ..
  dstLt := by omega

end overlap

/-- **`cryptoBlockAsm` with `dst` and `src` inside one array, ANY overlap** (`dst = &buf[doff]`, `src = &buf[soff]`): the 16 bytes
    at `doff` end up holding the block function of the specification applied to the 16 bytes that were at `soff` at entry; every
    other byte of the array is unchanged.  (The listing loads the whole input block before its single 16-byte store.) -/
theorem kernelX1_overlap_eq_spec (g v k rk buf : List Nat) (doff soff : Nat)
    (hg : g.length = 16) (hv : v.length = 32) (hrk : rk.length = 32) (hrkb : ∀ x ∈ rk, x < 2 ^ 32)
    (hd : doff + 16 ≤ buf.length) (hs : soff + 16 ≤ buf.length) (hl : buf.length ≤ 2 ^ 32) (hsb : ∀ x ∈ buf, x < 256) :
    runDst Gen.ListAmd64Asm.cryptoBlockAsm 2000 (kernelStateOverlap g v k rk buf doff soff)
      = .ok (buf.take doff
          ++ (Spec.SM4.crypt (rk.map (BitVec.ofNat 32)) (((buf.drop soff).take 16).map UInt8.ofNat)).map (·.toNat)
          ++ buf.drop (doff + 16)) := by
  have hlen : ((buf.drop soff).take 16).length = 16 := by rw [List.length_take, List.length_drop]; omega
  obtain ⟨s0, s1, s2, s3, s4, s5, s6, s7, s8, s9, s10, s11, s12, s13, s14, s15, hsrc⟩ := list16 _ hlen
  have hsb' : ∀ x ∈ [s0, s1, s2, s3, s4, s5, s6, s7, s8, s9, s10, s11, s12, s13, s14, s15], x < 2 ^ 8 := by
    rw [← hsrc]; exact fun x hx => hsb x (List.mem_of_mem_drop (List.mem_of_mem_take hx))
  obtain ⟨s', hrun, hmem⟩ := x1_body_generic _ rk _ _ _ s0 s1 s2 s3 s4 s5 s6 s7 s8 s9 s10 s11 s12 s13 s14 s15
    (kso_env g v k rk buf doff soff s0 s1 s2 s3 s4 s5 s6 s7 s8 s9 s10 s11 s12 s13 s14 s15 hsrc hg hv hrk hd hs hl) hrk hrkb hsb'
    (fun bs => (kernelStateInPlace g v k rk buf).mem.set 17 ⟨"dst", buf.take doff ++ bs ++ buf.drop (doff + 16), true⟩)
    (fun bs hbs => by
      rw [kso_mem, ksi_write_at g v k rk buf bs doff (by rw [hbs]; exact hd) hl (by rw [hbs]; decide), hbs])
  unfold runDst
  rw [run_x1 _ s' hrun]
  obtain ⟨g3, v3, k3, fl3, m3, sy3, fr3⟩ := s'
  simp only at hmem
  subst hmem
  simp only [ok_bind, ksi_dst_after, hsrc]
  rfl

end SMGo.Proofs.ISAVal
#print axioms SMGo.Proofs.ISAVal.kernelX1_overlap_eq_spec
