/-
  C09: kernel-evaluated taint certificates (`certify`, see SMGo/Model/ISA.lean) for the arm64 routines below.
  Each `cert_*` is decided by `decide +kernel`: the kernel computes the invariant (`computeInv`) of the
  macro-expanded listing and checks it instruction by instruction (`checkInv`); nothing is trusted but the kernel.
-/
import SMGo.Proofs.ISASound
import SMGo.Gen.ListArm64Asm

namespace SMGo.Proofs.ISACheck
open SMGo.Model.ISA SMGo.Proofs.ISASound SMGo.Gen
set_option maxRecDepth 100000

theorem cert_expandKeyAsm_arm64 : certify ListArm64Asm.expandKeyAsm [] = true := by decide +kernel

theorem ct_expandKeyAsm_arm64 : checkInv ListArm64Asm.expandKeyAsm (invOf ListArm64Asm.expandKeyAsm) [] = true := (certify_spec cert_expandKeyAsm_arm64).1

theorem cert_cryptoBlockAsm_arm64 : certify ListArm64Asm.cryptoBlockAsm [] = true := by decide +kernel

theorem ct_cryptoBlockAsm_arm64 : checkInv ListArm64Asm.cryptoBlockAsm (invOf ListArm64Asm.cryptoBlockAsm) [] = true := (certify_spec cert_cryptoBlockAsm_arm64).1

theorem cert_cryptoBlockAsmX2_arm64 : certify ListArm64Asm.cryptoBlockAsmX2 [] = true := by decide +kernel

theorem ct_cryptoBlockAsmX2_arm64 : checkInv ListArm64Asm.cryptoBlockAsmX2 (invOf ListArm64Asm.cryptoBlockAsmX2) [] = true := (certify_spec cert_cryptoBlockAsmX2_arm64).1

theorem cert_cryptoBlockAsmX4_arm64 : certify ListArm64Asm.cryptoBlockAsmX4 [] = true := by decide +kernel

theorem ct_cryptoBlockAsmX4_arm64 : checkInv ListArm64Asm.cryptoBlockAsmX4 (invOf ListArm64Asm.cryptoBlockAsmX4) [] = true := (certify_spec cert_cryptoBlockAsmX4_arm64).1

end SMGo.Proofs.ISACheck
