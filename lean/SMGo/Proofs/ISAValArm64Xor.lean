/-
  The arm64 listings of `xor256 / xor128 / xor64 / xor32 / xor16` (sm4/gcm_arm64.s): dst[i] = src1[i] xor src2[i] for
  all i < N, with the three buffers disjoint, with dst = src1 (`xor16(&tag[0], &tag[0], &TMask[0])`) and with
  dst = src2 (`xorN(&out[0], &tmp[0], &in[0])` when Seal / Open work in place).  Symbolic execution under the arm64
  value interpreter SMGo/Model/ISAValArm64.lean (UNVALIDATED transcription of the Arm ARM): every load precedes every
  store, so the aliasing is harmless.
-/
import SMGo.Proofs.ISAValArm64Ctl
import SMGo.Proofs.ISAValArm64GhashVal
import SMGo.Proofs.ISAValArm64Spec
namespace SMGo.Proofs.ISAValArm64
open SMGo SMGo.Model.ISAValArm64 SMGo.Model.ISA
open SMGo.Model.ISAVal (lane lanes unlanes Region readMem writeMem lookup regionBase)
open SMGo.Proofs.ISAVal (list32 lane_unlanes lanes_length unlanes_lt getElem_lanes)

/-! ### more step lemmas: the multi-register LD1 / ST1 forms of the xor routines -/

section
variable (g v : List Nat) (mem : List Region) (syms frame : List (String × Nat))

/-- `VLD1 (Rb), [Va.B16, Va+1.B16]` -/
theorem execD_ld1_two (b n0 n1 gb : Nat) (bs : List Nat) (hc : n1 = (n0 + 1) % 32)
    (hb : g[b]? = some gb) (e0 : v[n0]? = some x0) (e1 : v[n1]? = some x1) (hload : readMem mem gb 32 = .ok bs) :
    execD ⟨g, v, mem, syms, frame⟩ (ins .VLD1 [M b 0, .regs [.vec n0, .vec n1]] [.none, .B16])
      = .ok ⟨g, (v.set n0 (unlanes 8 (bs.take 16))).set n1 (unlanes 8 ((bs.drop 16).take 16)), mem, syms, frame⟩ := by
  have h0 := lt_of_get e0
  have h1 := lt_of_get e1
  simp [execD, ins, M, exLd1, baseAddr, listRegs, hc.symm, getG, setV, loadBytes, writeBack, hb, h0, h1,
    hload, List.range, List.range.loop, List.foldlM]

/-- `VLD1 (Rb), [Va.B16, …, Va+3.B16]` -/
theorem execD_ld1_four (b n0 n1 n2 n3 gb : Nat) (bs : List Nat)
    (hc : n1 = (n0 + 1) % 32 ∧ n2 = (n0 + 2) % 32 ∧ n3 = (n0 + 3) % 32)
    (hb : g[b]? = some gb)
    (e0 : v[n0]? = some x0) (e1 : v[n1]? = some x1) (e2 : v[n2]? = some x2) (e3 : v[n3]? = some x3)
    (hload : readMem mem gb 64 = .ok bs) :
    execD ⟨g, v, mem, syms, frame⟩ (ins .VLD1 [M b 0, L4 n0 n1 n2 n3] [.none, .B16])
      = .ok ⟨g,
          (((v.set n0 (unlanes 8 (bs.take 16))).set n1 (unlanes 8 ((bs.drop 16).take 16))).set n2
            (unlanes 8 ((bs.drop 32).take 16))).set n3 (unlanes 8 ((bs.drop 48).take 16)),
          mem, syms, frame⟩ := by
  have h0 := lt_of_get e0
  have h1 := lt_of_get e1
  have h2 := lt_of_get e2
  have h3 := lt_of_get e3
  simp [execD, ins, M, L4, exLd1, baseAddr, listRegs, hc.1.symm, hc.2.1.symm, hc.2.2.symm, getG, setV,
    loadBytes, writeBack, hb, h0, h1, h2, h3, hload, List.range, List.range.loop, List.foldlM]

/-- `VST1 [Va.B16, Va+1.B16], (Rb)` -/
theorem execD_st1_two (b n0 n1 gb t0 t1 : Nat) (mem' : List Region) (hc : n1 = (n0 + 1) % 32)
    (hb : g[b]? = some gb) (h0 : v[n0]? = some t0) (h1 : v[n1]? = some t1)
    (hstore : writeMem mem gb (lanes 8 16 t0 ++ lanes 8 16 t1) = .ok mem') :
    execD ⟨g, v, mem, syms, frame⟩ (ins .VST1 [.regs [.vec n0, .vec n1], M b 0] [.B16, .none])
      = .ok ⟨g, v, mem', syms, frame⟩ := by
  simp [execD, ins, M, exSt1, baseAddr, listRegs, hc.symm, getG, getV, storeBytes, writeBack, hb, h0, h1, hstore]

/-- `VST1 [Va.B16 … Va+3.B16], (Rb)` (`post = false`) and `VST1.P [Va.B16 … Va+3.B16], 64(Rb)` (`post = true`) -/
theorem execD_st1_four (post : Bool) (b n0 n1 n2 n3 gb t0 t1 t2 t3 : Nat) (mem' : List Region)
    (hc : n1 = (n0 + 1) % 32 ∧ n2 = (n0 + 2) % 32 ∧ n3 = (n0 + 3) % 32)
    (hb : g[b]? = some gb)
    (h0 : v[n0]? = some t0) (h1 : v[n1]? = some t1) (h2 : v[n2]? = some t2) (h3 : v[n3]? = some t3)
    (hstore : writeMem mem gb (lanes 8 16 t0 ++ (lanes 8 16 t1 ++ (lanes 8 16 t2 ++ lanes 8 16 t3))) = .ok mem') :
    execD ⟨g, v, mem, syms, frame⟩
        (ins (if post then .VST1P else .VST1) [L4 n0 n1 n2 n3, M b (if post then 64 else 0)] [.B16, .none])
      = .ok ⟨if post then g.set b ((gb + 64) % 2 ^ 64) else g, v, mem', syms, frame⟩ := by
  have hbl := lt_of_get hb
  have hb' : g[b] = gb := by rw [List.getElem?_eq_getElem hbl] at hb; exact Option.some.inj hb
  cases post <;>
    simp [execD, ins, M, L4, exSt1, baseAddr, listRegs, hc.1.symm, hc.2.1.symm, hc.2.2.symm, getG, getV, setG,
      storeBytes, writeBack, hb', hbl, h0, h1, h2, h3, hstore]

end

/-! ### bytes -/

theorem lane8_xor_lanes (a b : List Nat) (ha : a.length = 16) (hb : b.length = 16) (hab : ∀ x ∈ a, x < 2 ^ 8)
    (hbb : ∀ x ∈ b, x < 2 ^ 8) :
    lanes 8 16 (veor (unlanes 8 a) (unlanes 8 b)) = List.zipWith (· ^^^ ·) a b := by
  have la : unlanes 8 a < 2 ^ 128 := by have := unlanes_lt 8 a hab; rwa [ha] at this
  have lb : unlanes 8 b < 2 ^ 128 := by have := unlanes_lt 8 b hbb; rwa [hb] at this
  rw [veor_of_lt la lb]
  apply List.ext_getElem
  · simp [lanes_length, ha, hb]
  · intro i h1 h2
    have hi : i < 16 := by simpa [lanes_length] using h1
    rw [getElem_lanes, lane_xor, lane_unlanes 8 a hab i (by omega), lane_unlanes 8 b hbb i (by omega), List.getElem_zipWith]

/-- a byte string is the concatenation of its chunks of `c` bytes -/
theorem chunks (c : Nat) (l : List Nat) : ∀ n, l.length = c * n →
    (List.range n).flatMap (fun k => (l.drop (c * k)).take c) = l := by
  intro n
  induction n generalizing l with
  | zero => intro h; simp at h; simp [h]
  | succ n ih =>
    intro h
    have := ih (l.drop c) (by rw [List.length_drop, h, Nat.mul_succ]; omega)
    rw [List.range_succ_eq_map, List.flatMap_cons, List.flatMap_map]
    have e : (fun a : Nat => (l.drop (c * a.succ)).take c) = (fun k => ((l.drop c).drop (c * k)).take c) := by
      funext k; rw [List.drop_drop, Nat.mul_succ, Nat.add_comm]
    rw [e, this, Nat.mul_zero, List.drop_zero, List.take_append_drop]

/-- the bytes `VST1 [4 registers]` stores after the VEORs of two 64-byte loads -/
def w64 (ba bb : List Nat) : List Nat :=
  lanes 8 16 (veor (unlanes 8 (ba.take 16)) (unlanes 8 (bb.take 16))) ++
  (lanes 8 16 (veor (unlanes 8 ((ba.drop 16).take 16)) (unlanes 8 ((bb.drop 16).take 16))) ++
  (lanes 8 16 (veor (unlanes 8 ((ba.drop 32).take 16)) (unlanes 8 ((bb.drop 32).take 16))) ++
   lanes 8 16 (veor (unlanes 8 ((ba.drop 48).take 16)) (unlanes 8 ((bb.drop 48).take 16)))))

def w32 (ba bb : List Nat) : List Nat :=
  lanes 8 16 (veor (unlanes 8 (ba.take 16)) (unlanes 8 (bb.take 16))) ++
  lanes 8 16 (veor (unlanes 8 ((ba.drop 16).take 16)) (unlanes 8 ((bb.drop 16).take 16)))

def w16 (ba bb : List Nat) : List Nat := lanes 8 16 (veor (unlanes 8 (ba.take 16)) (unlanes 8 (bb.take 16)))

theorem xor_at (ba bb : List Nat) (o : Nat) (ha : o + 16 ≤ ba.length) (hb : o + 16 ≤ bb.length)
    (hab : ∀ x ∈ ba, x < 2 ^ 8) (hbb : ∀ x ∈ bb, x < 2 ^ 8) :
    lanes 8 16 (veor (unlanes 8 ((ba.drop o).take 16)) (unlanes 8 ((bb.drop o).take 16)))
      = ((List.zipWith (· ^^^ ·) ba bb).drop o).take 16 := by
  rw [lane8_xor_lanes _ _ (by rw [List.length_take, List.length_drop]; omega)
      (by rw [List.length_take, List.length_drop]; omega)
      (fun x hx => hab x (List.mem_of_mem_drop (List.mem_of_mem_take hx)))
      (fun x hx => hbb x (List.mem_of_mem_drop (List.mem_of_mem_take hx))),
    List.drop_zipWith, List.take_zipWith]

theorem w64_eq (ba bb : List Nat) (ha : ba.length = 64) (hb : bb.length = 64)
    (hab : ∀ x ∈ ba, x < 2 ^ 8) (hbb : ∀ x ∈ bb, x < 2 ^ 8) : w64 ba bb = List.zipWith (· ^^^ ·) ba bb := by
  have h0 := xor_at ba bb 0 (by omega) (by omega) hab hbb
  have h1 := xor_at ba bb 16 (by omega) (by omega) hab hbb
  have h2 := xor_at ba bb 32 (by omega) (by omega) hab hbb
  have h3 := xor_at ba bb 48 (by omega) (by omega) hab hbb
  simp only [List.drop_zero] at h0
  unfold w64
  rw [h0, h1, h2, h3]
  have := chunks 16 (List.zipWith (· ^^^ ·) ba bb) 4 (by simp [ha, hb])
  simp only [List.range, List.range.loop, List.flatMap_cons, List.flatMap_nil, List.append_nil, Nat.reduceMul,
    List.drop_zero] at this
  exact this

theorem w32_eq (ba bb : List Nat) (ha : ba.length = 32) (hb : bb.length = 32)
    (hab : ∀ x ∈ ba, x < 2 ^ 8) (hbb : ∀ x ∈ bb, x < 2 ^ 8) : w32 ba bb = List.zipWith (· ^^^ ·) ba bb := by
  have h0 := xor_at ba bb 0 (by omega) (by omega) hab hbb
  have h1 := xor_at ba bb 16 (by omega) (by omega) hab hbb
  simp only [List.drop_zero] at h0
  unfold w32
  rw [h0, h1]
  have := chunks 16 (List.zipWith (· ^^^ ·) ba bb) 2 (by simp [ha, hb])
  simp only [List.range, List.range.loop, List.flatMap_cons, List.flatMap_nil, List.append_nil, Nat.reduceMul,
    List.drop_zero] at this
  exact this

theorem w16_eq (ba bb : List Nat) (ha : ba.length = 16) (hb : bb.length = 16)
    (hab : ∀ x ∈ ba, x < 2 ^ 8) (hbb : ∀ x ∈ bb, x < 2 ^ 8) : w16 ba bb = List.zipWith (· ^^^ ·) ba bb := by
  have h0 := xor_at ba bb 0 (by omega) (by omega) hab hbb
  simp only [List.drop_zero] at h0
  unfold w16
  rw [h0, List.take_of_length_le (by simp [ha, hb])]

/-- the xor of the chunks at offset `o` is the chunk of the xor -/
theorem zip_chunk (A B : List Nat) (o c : Nat) :
    List.zipWith (· ^^^ ·) ((A.drop o).take c) ((B.drop o).take c) = ((List.zipWith (· ^^^ ·) A B).drop o).take c := by
  rw [List.drop_zipWith, List.take_zipWith]

/-! ### sequential stores into one region -/

/-- the next store after the prefix `P` has been written -/
theorem write_next (mem : List Region) (r : Nat) (name : String) (d P w : List Nat)
    (hm : mem[r]? = some ⟨name, P ++ d.drop P.length, true⟩) (hlen : P.length + w.length ≤ d.length)
    (hlt : P.length < 2 ^ 32) :
    writeMem mem (regionBase r + P.length) w
      = .ok (mem.set r ⟨name, (P ++ w) ++ d.drop (P ++ w).length, true⟩) := by
  rw [write_region mem r name _ P.length w hm (by rw [List.length_append, List.length_drop]; omega) hlt]
  congr 3
  rw [List.take_left, List.length_append, List.append_assoc, List.append_assoc]
  congr 2
  have : P.length + w.length = P.length + w.length := rfl
  rw [show List.drop (P.length + w.length) (P ++ List.drop P.length d)
      = List.drop w.length (List.drop P.length (P ++ List.drop P.length d)) from by rw [List.drop_drop],
    List.drop_left, List.drop_drop, Nat.add_comm]


/-! ### the five routines (generated text: same proof scheme, different register lists) -/

attribute [local irreducible] execD

def xnn : List Arr := [.none, .none]
def xb : List Arr := [.none, .B16]
def xs : List Arr := [.B16, .none]

def xorHead : List DInstr :=
  [ins .MOVD [.frame "dst" 0, G 10] xnn, ins .MOVD [.frame "src1" 8, G 11] xnn, ins .MOVD [.frame "src2" 16, G 12] xnn]

/-- what the xor routines need from the entry state: the three pointers, the two sources readable -/
structure XorEnv (S : State) (N : Nat) (A B : List Nat) (aD a1 a2 : Nat) : Prop where
  hG : S.gpr.length = 31
  hV : S.vec.length = 32
  fD : lookup S.frame "dst" = some aD
  f1 : lookup S.frame "src1" = some a1
  f2 : lookup S.frame "src2" = some a2
  rd1 : ∀ off len, off + len ≤ N → readMem S.mem (a1 + off) len = .ok ((A.drop off).take len)
  rd2 : ∀ off len, off + len ≤ N → readMem S.mem (a2 + off) len = .ok ((B.drop off).take len)
  w1 : a1 + N < 2 ^ 64
  w2 : a2 + N < 2 ^ 64
  wD : aD + N < 2 ^ 64

macro "xstep" : tactic => `(tactic|
  (apply exec_step
   · first
     | exact execD_veor (hm := by rfl) (hn := by rfl) (hd0 := by rfl) ..
     | exact execD_movd_frame (hs := by assumption) (hd0 := by rfl) ..
   simp only [List.set_cons_succ, List.set_cons_zero]))

def xor16Code : List DInstr :=
  xorHead ++
  [ins .VLD1 [M 11 0, .regs [.vec 0]] xb,
   ins .VLD1 [M 12 0, .regs [.vec 1]] xb,
   ins .VEOR [R 0, R 1, R 0] P3,
   ins .VST1 [.regs [.vec 0], M 10 0] xs]

set_option maxRecDepth 10000 in
theorem xor16_body (S : State) (A B : List Nat) (aD a1 a2 : Nat) (env : XorEnv S 16 A B aD a1 a2) (m1 : List Region)
    (hw0 : writeMem S.mem aD (w16 ((A.drop 0).take 16) ((B.drop 0).take 16)) = .ok m1) :
    ∃ s', execList xor16Code S = .ok s' ∧ s'.mem = m1 := by
  obtain ⟨hG, hV, fD, f1, f2, rd1, rd2, n1, n2, nD⟩ := env
  obtain ⟨gpr, vec, mem, syms, frame⟩ := S
  simp only at hG hV fD f1 f2 rd1 rd2 hw0
  obtain ⟨a0, a1', a2', a3, a4, a5, a6, a7, a8, a9, a10, a11, a12, a13, a14, a15, a16, a17, a18, a19, a20, a21, a22, a23, a24, a25, a26, a27, a28, a29, a30, rfl⟩ := list31 gpr hG
  obtain ⟨b0, b1, b2, b3, b4, b5, b6, b7, b8, b9, b10, b11, b12, b13, b14, b15, b16, b17, b18, b19, b20, b21, b22, b23, b24, b25, b26, b27, b28, b29, b30, b31, rfl⟩ := list32 vec hV
  have ra0 := rd1 0 16 (by omega)
  have rb0 := rd2 0 16 (by omega)
  simp only [Nat.add_zero] at ra0 rb0
  apply Exists.intro
  apply And.intro
  · unfold xor16Code xorHead
    simp only [List.cons_append, List.nil_append]
    xstep; xstep; xstep
    apply exec_step
    · exact execD_ld1_oneB (bs := (A.drop 0).take 16) (hb := by rfl) (hd0 := by rfl) (hload := ra0) ..
    simp only [List.set_cons_succ, List.set_cons_zero]
    apply exec_step
    · exact execD_ld1_oneB (bs := (B.drop 0).take 16) (hb := by rfl) (hd0 := by rfl) (hload := rb0) ..
    simp only [List.set_cons_succ, List.set_cons_zero]
    xstep
    apply exec_step
    · exact execD_st1_one (hb := by rfl) (hn := by rfl) (hstore := hw0) ..
    exact execList_nil _
  · rfl

def xor32Code : List DInstr :=
  xorHead ++
  [ins .VLD1 [M 11 0, .regs [.vec 0, .vec 1]] xb,
   ins .VLD1 [M 12 0, .regs [.vec 2, .vec 3]] xb,
   ins .VEOR [R 0, R 2, R 0] P3,
   ins .VEOR [R 1, R 3, R 1] P3,
   ins .VST1 [.regs [.vec 0, .vec 1], M 10 0] xs]

set_option maxRecDepth 10000 in
theorem xor32_body (S : State) (A B : List Nat) (aD a1 a2 : Nat) (env : XorEnv S 32 A B aD a1 a2) (m1 : List Region)
    (hw0 : writeMem S.mem aD (w32 ((A.drop 0).take 32) ((B.drop 0).take 32)) = .ok m1) :
    ∃ s', execList xor32Code S = .ok s' ∧ s'.mem = m1 := by
  obtain ⟨hG, hV, fD, f1, f2, rd1, rd2, n1, n2, nD⟩ := env
  obtain ⟨gpr, vec, mem, syms, frame⟩ := S
  simp only at hG hV fD f1 f2 rd1 rd2 hw0
  obtain ⟨a0, a1', a2', a3, a4, a5, a6, a7, a8, a9, a10, a11, a12, a13, a14, a15, a16, a17, a18, a19, a20, a21, a22, a23, a24, a25, a26, a27, a28, a29, a30, rfl⟩ := list31 gpr hG
  obtain ⟨b0, b1, b2, b3, b4, b5, b6, b7, b8, b9, b10, b11, b12, b13, b14, b15, b16, b17, b18, b19, b20, b21, b22, b23, b24, b25, b26, b27, b28, b29, b30, b31, rfl⟩ := list32 vec hV
  have ra0 := rd1 0 32 (by omega)
  have rb0 := rd2 0 32 (by omega)
  simp only [Nat.add_zero] at ra0 rb0
  apply Exists.intro
  apply And.intro
  · unfold xor32Code xorHead
    simp only [List.cons_append, List.nil_append]
    xstep; xstep; xstep
    apply exec_step
    · exact execD_ld1_two (bs := (A.drop 0).take 32) (hc := by decide) (hb := by rfl)
        (e0 := by rfl) (e1 := by rfl) (hload := ra0) ..
    simp only [List.set_cons_succ, List.set_cons_zero]
    apply exec_step
    · exact execD_ld1_two (bs := (B.drop 0).take 32) (hc := by decide) (hb := by rfl)
        (e0 := by rfl) (e1 := by rfl) (hload := rb0) ..
    simp only [List.set_cons_succ, List.set_cons_zero]
    xstep; xstep
    apply exec_step
    · exact execD_st1_two (hc := by decide) (hb := by rfl) (h0 := by rfl) (h1 := by rfl) (hstore := hw0) ..
    exact execList_nil _
  · rfl

def xor64Code : List DInstr :=
  xorHead ++
  [ins .VLD1 [M 11 0, L4 0 1 2 3] xb,
   ins .VLD1 [M 12 0, L4 4 5 6 7] xb,
   ins .VEOR [R 0, R 4, R 0] P3,
   ins .VEOR [R 1, R 5, R 1] P3,
   ins .VEOR [R 2, R 6, R 2] P3,
   ins .VEOR [R 3, R 7, R 3] P3,
   ins .VST1 [L4 0 1 2 3, M 10 0] xs]

set_option maxRecDepth 10000 in
theorem xor64_body (S : State) (A B : List Nat) (aD a1 a2 : Nat) (env : XorEnv S 64 A B aD a1 a2) (m1 : List Region)
    (hw0 : writeMem S.mem aD (w64 ((A.drop 0).take 64) ((B.drop 0).take 64)) = .ok m1) :
    ∃ s', execList xor64Code S = .ok s' ∧ s'.mem = m1 := by
  obtain ⟨hG, hV, fD, f1, f2, rd1, rd2, n1, n2, nD⟩ := env
  obtain ⟨gpr, vec, mem, syms, frame⟩ := S
  simp only at hG hV fD f1 f2 rd1 rd2 hw0
  obtain ⟨a0, a1', a2', a3, a4, a5, a6, a7, a8, a9, a10, a11, a12, a13, a14, a15, a16, a17, a18, a19, a20, a21, a22, a23, a24, a25, a26, a27, a28, a29, a30, rfl⟩ := list31 gpr hG
  obtain ⟨b0, b1, b2, b3, b4, b5, b6, b7, b8, b9, b10, b11, b12, b13, b14, b15, b16, b17, b18, b19, b20, b21, b22, b23, b24, b25, b26, b27, b28, b29, b30, b31, rfl⟩ := list32 vec hV
  have ra0 := rd1 0 64 (by omega)
  have rb0 := rd2 0 64 (by omega)
  simp only [Nat.add_zero] at ra0 rb0
  apply Exists.intro
  apply And.intro
  · unfold xor64Code xorHead
    simp only [List.cons_append, List.nil_append]
    xstep; xstep; xstep
    apply exec_step
    · exact execD_ld1_four (bs := (A.drop 0).take 64) (hc := by decide) (hb := by rfl)
        (e0 := by rfl) (e1 := by rfl) (e2 := by rfl) (e3 := by rfl) (hload := ra0) ..
    simp only [List.set_cons_succ, List.set_cons_zero]
    apply exec_step
    · exact execD_ld1_four (bs := (B.drop 0).take 64) (hc := by decide) (hb := by rfl)
        (e0 := by rfl) (e1 := by rfl) (e2 := by rfl) (e3 := by rfl) (hload := rb0) ..
    simp only [List.set_cons_succ, List.set_cons_zero]
    xstep; xstep; xstep; xstep
    apply exec_step
    · exact execD_st1_four (post := false) (hc := by decide) (hb := by rfl) (h0 := by rfl) (h1 := by rfl)
        (h2 := by rfl) (h3 := by rfl) (hstore := hw0) ..
    simp only [List.set_cons_succ, List.set_cons_zero, if_true, Bool.false_eq_true, if_false]
    exact execList_nil _
  · rfl

def xor128Code : List DInstr :=
  xorHead ++
  [ins .VLD1P [M 11 64, L4 0 1 2 3] xb,
   ins .VLD1P [M 11 64, L4 8 9 10 11] xb,
   ins .VLD1P [M 12 64, L4 4 5 6 7] xb,
   ins .VLD1P [M 12 64, L4 12 13 14 15] xb,
   ins .VEOR [R 0, R 4, R 0] P3,
   ins .VEOR [R 1, R 5, R 1] P3,
   ins .VEOR [R 2, R 6, R 2] P3,
   ins .VEOR [R 3, R 7, R 3] P3,
   ins .VEOR [R 8, R 12, R 8] P3,
   ins .VEOR [R 9, R 13, R 9] P3,
   ins .VEOR [R 10, R 14, R 10] P3,
   ins .VEOR [R 11, R 15, R 11] P3,
   ins .VST1P [L4 0 1 2 3, M 10 64] xs,
   ins .VST1P [L4 8 9 10 11, M 10 64] xs]

set_option maxRecDepth 10000 in
theorem xor128_body (S : State) (A B : List Nat) (aD a1 a2 : Nat) (env : XorEnv S 128 A B aD a1 a2) (m1 m2 : List Region)
    (hw0 : writeMem S.mem aD (w64 ((A.drop 0).take 64) ((B.drop 0).take 64)) = .ok m1)
    (hw1 : writeMem m1 (aD + 64) (w64 ((A.drop 64).take 64) ((B.drop 64).take 64)) = .ok m2) :
    ∃ s', execList xor128Code S = .ok s' ∧ s'.mem = m2 := by
  obtain ⟨hG, hV, fD, f1, f2, rd1, rd2, n1, n2, nD⟩ := env
  obtain ⟨gpr, vec, mem, syms, frame⟩ := S
  simp only at hG hV fD f1 f2 rd1 rd2 hw0 hw1
  obtain ⟨a0, a1', a2', a3, a4, a5, a6, a7, a8, a9, a10, a11, a12, a13, a14, a15, a16, a17, a18, a19, a20, a21, a22, a23, a24, a25, a26, a27, a28, a29, a30, rfl⟩ := list31 gpr hG
  obtain ⟨b0, b1, b2, b3, b4, b5, b6, b7, b8, b9, b10, b11, b12, b13, b14, b15, b16, b17, b18, b19, b20, b21, b22, b23, b24, b25, b26, b27, b28, b29, b30, b31, rfl⟩ := list32 vec hV
  have ra0 := rd1 0 64 (by omega)
  have rb0 := rd2 0 64 (by omega)
  have ra1 := rd1 64 64 (by omega)
  have rb1 := rd2 64 64 (by omega)
  simp only [Nat.add_zero] at ra0 rb0 ra1 rb1
  have e1_0 : (a1 + 64) % 2 ^ 64 = a1 + 64 := Nat.mod_eq_of_lt (by omega)
  have e1_1 : (a1 + 64 + 64) % 2 ^ 64 = a1 + 128 := Nat.mod_eq_of_lt (by omega)
  have e2_0 : (a2 + 64) % 2 ^ 64 = a2 + 64 := Nat.mod_eq_of_lt (by omega)
  have e2_1 : (a2 + 64 + 64) % 2 ^ 64 = a2 + 128 := Nat.mod_eq_of_lt (by omega)
  have eD_0 : (aD + 64) % 2 ^ 64 = aD + 64 := Nat.mod_eq_of_lt (by omega)
  have eD_1 : (aD + 64 + 64) % 2 ^ 64 = aD + 128 := Nat.mod_eq_of_lt (by omega)
  apply Exists.intro
  apply And.intro
  · unfold xor128Code xorHead
    simp only [List.cons_append, List.nil_append]
    xstep; xstep; xstep
    apply exec_step
    · exact execD_ld1p_four (bs := (A.drop 0).take 64) (hc := by decide) (hb := by rfl)
        (e0 := by rfl) (e1 := by rfl) (e2 := by rfl) (e3 := by rfl) (hload := ra0) ..
    simp only [List.set_cons_succ, List.set_cons_zero, e1_0, e1_1, e2_0, e2_1, eD_0, eD_1]
    apply exec_step
    · exact execD_ld1p_four (bs := (A.drop 64).take 64) (hc := by decide) (hb := by rfl)
        (e0 := by rfl) (e1 := by rfl) (e2 := by rfl) (e3 := by rfl) (hload := ra1) ..
    simp only [List.set_cons_succ, List.set_cons_zero, e1_0, e1_1, e2_0, e2_1, eD_0, eD_1]
    apply exec_step
    · exact execD_ld1p_four (bs := (B.drop 0).take 64) (hc := by decide) (hb := by rfl)
        (e0 := by rfl) (e1 := by rfl) (e2 := by rfl) (e3 := by rfl) (hload := rb0) ..
    simp only [List.set_cons_succ, List.set_cons_zero, e1_0, e1_1, e2_0, e2_1, eD_0, eD_1]
    apply exec_step
    · exact execD_ld1p_four (bs := (B.drop 64).take 64) (hc := by decide) (hb := by rfl)
        (e0 := by rfl) (e1 := by rfl) (e2 := by rfl) (e3 := by rfl) (hload := rb1) ..
    simp only [List.set_cons_succ, List.set_cons_zero, e1_0, e1_1, e2_0, e2_1, eD_0, eD_1]
    xstep; xstep; xstep; xstep; xstep; xstep; xstep; xstep
    apply exec_step
    · exact execD_st1_four (post := true) (hc := by decide) (hb := by rfl) (h0 := by rfl) (h1 := by rfl)
        (h2 := by rfl) (h3 := by rfl) (hstore := hw0) ..
    simp only [List.set_cons_succ, List.set_cons_zero, if_true, Bool.false_eq_true, if_false, e1_0, e1_1, e2_0, e2_1, eD_0, eD_1]
    apply exec_step
    · exact execD_st1_four (post := true) (hc := by decide) (hb := by rfl) (h0 := by rfl) (h1 := by rfl)
        (h2 := by rfl) (h3 := by rfl) (hstore := hw1) ..
    simp only [List.set_cons_succ, List.set_cons_zero, if_true, Bool.false_eq_true, if_false, e1_0, e1_1, e2_0, e2_1, eD_0, eD_1]
    exact execList_nil _
  · rfl

def xor256Code : List DInstr :=
  xorHead ++
  [ins .VLD1P [M 11 64, L4 0 1 2 3] xb,
   ins .VLD1P [M 11 64, L4 8 9 10 11] xb,
   ins .VLD1P [M 11 64, L4 16 17 18 19] xb,
   ins .VLD1P [M 11 64, L4 24 25 26 27] xb,
   ins .VLD1P [M 12 64, L4 4 5 6 7] xb,
   ins .VLD1P [M 12 64, L4 12 13 14 15] xb,
   ins .VLD1P [M 12 64, L4 20 21 22 23] xb,
   ins .VLD1P [M 12 64, L4 28 29 30 31] xb,
   ins .VEOR [R 0, R 4, R 0] P3,
   ins .VEOR [R 1, R 5, R 1] P3,
   ins .VEOR [R 2, R 6, R 2] P3,
   ins .VEOR [R 3, R 7, R 3] P3,
   ins .VEOR [R 8, R 12, R 8] P3,
   ins .VEOR [R 9, R 13, R 9] P3,
   ins .VEOR [R 10, R 14, R 10] P3,
   ins .VEOR [R 11, R 15, R 11] P3,
   ins .VEOR [R 16, R 20, R 16] P3,
   ins .VEOR [R 17, R 21, R 17] P3,
   ins .VEOR [R 18, R 22, R 18] P3,
   ins .VEOR [R 19, R 23, R 19] P3,
   ins .VEOR [R 24, R 28, R 24] P3,
   ins .VEOR [R 25, R 29, R 25] P3,
   ins .VEOR [R 26, R 30, R 26] P3,
   ins .VEOR [R 27, R 31, R 27] P3,
   ins .VST1P [L4 0 1 2 3, M 10 64] xs,
   ins .VST1P [L4 8 9 10 11, M 10 64] xs,
   ins .VST1P [L4 16 17 18 19, M 10 64] xs,
   ins .VST1P [L4 24 25 26 27, M 10 64] xs]

set_option maxRecDepth 10000 in
theorem xor256_body (S : State) (A B : List Nat) (aD a1 a2 : Nat) (env : XorEnv S 256 A B aD a1 a2) (m1 m2 m3 m4 : List Region)
    (hw0 : writeMem S.mem aD (w64 ((A.drop 0).take 64) ((B.drop 0).take 64)) = .ok m1)
    (hw1 : writeMem m1 (aD + 64) (w64 ((A.drop 64).take 64) ((B.drop 64).take 64)) = .ok m2)
    (hw2 : writeMem m2 (aD + 128) (w64 ((A.drop 128).take 64) ((B.drop 128).take 64)) = .ok m3)
    (hw3 : writeMem m3 (aD + 192) (w64 ((A.drop 192).take 64) ((B.drop 192).take 64)) = .ok m4) :
    ∃ s', execList xor256Code S = .ok s' ∧ s'.mem = m4 := by
  obtain ⟨hG, hV, fD, f1, f2, rd1, rd2, n1, n2, nD⟩ := env
  obtain ⟨gpr, vec, mem, syms, frame⟩ := S
  simp only at hG hV fD f1 f2 rd1 rd2 hw0 hw1 hw2 hw3
  obtain ⟨a0, a1', a2', a3, a4, a5, a6, a7, a8, a9, a10, a11, a12, a13, a14, a15, a16, a17, a18, a19, a20, a21, a22, a23, a24, a25, a26, a27, a28, a29, a30, rfl⟩ := list31 gpr hG
  obtain ⟨b0, b1, b2, b3, b4, b5, b6, b7, b8, b9, b10, b11, b12, b13, b14, b15, b16, b17, b18, b19, b20, b21, b22, b23, b24, b25, b26, b27, b28, b29, b30, b31, rfl⟩ := list32 vec hV
  have ra0 := rd1 0 64 (by omega)
  have rb0 := rd2 0 64 (by omega)
  have ra1 := rd1 64 64 (by omega)
  have rb1 := rd2 64 64 (by omega)
  have ra2 := rd1 128 64 (by omega)
  have rb2 := rd2 128 64 (by omega)
  have ra3 := rd1 192 64 (by omega)
  have rb3 := rd2 192 64 (by omega)
  simp only [Nat.add_zero] at ra0 rb0 ra1 rb1 ra2 rb2 ra3 rb3
  have e1_0 : (a1 + 64) % 2 ^ 64 = a1 + 64 := Nat.mod_eq_of_lt (by omega)
  have e1_1 : (a1 + 64 + 64) % 2 ^ 64 = a1 + 128 := Nat.mod_eq_of_lt (by omega)
  have e1_2 : (a1 + 128 + 64) % 2 ^ 64 = a1 + 192 := Nat.mod_eq_of_lt (by omega)
  have e1_3 : (a1 + 192 + 64) % 2 ^ 64 = a1 + 256 := Nat.mod_eq_of_lt (by omega)
  have e2_0 : (a2 + 64) % 2 ^ 64 = a2 + 64 := Nat.mod_eq_of_lt (by omega)
  have e2_1 : (a2 + 64 + 64) % 2 ^ 64 = a2 + 128 := Nat.mod_eq_of_lt (by omega)
  have e2_2 : (a2 + 128 + 64) % 2 ^ 64 = a2 + 192 := Nat.mod_eq_of_lt (by omega)
  have e2_3 : (a2 + 192 + 64) % 2 ^ 64 = a2 + 256 := Nat.mod_eq_of_lt (by omega)
  have eD_0 : (aD + 64) % 2 ^ 64 = aD + 64 := Nat.mod_eq_of_lt (by omega)
  have eD_1 : (aD + 64 + 64) % 2 ^ 64 = aD + 128 := Nat.mod_eq_of_lt (by omega)
  have eD_2 : (aD + 128 + 64) % 2 ^ 64 = aD + 192 := Nat.mod_eq_of_lt (by omega)
  have eD_3 : (aD + 192 + 64) % 2 ^ 64 = aD + 256 := Nat.mod_eq_of_lt (by omega)
  apply Exists.intro
  apply And.intro
  · unfold xor256Code xorHead
    simp only [List.cons_append, List.nil_append]
    xstep; xstep; xstep
    apply exec_step
    · exact execD_ld1p_four (bs := (A.drop 0).take 64) (hc := by decide) (hb := by rfl)
        (e0 := by rfl) (e1 := by rfl) (e2 := by rfl) (e3 := by rfl) (hload := ra0) ..
    simp only [List.set_cons_succ, List.set_cons_zero, e1_0, e1_1, e1_2, e1_3, e2_0, e2_1, e2_2, e2_3, eD_0, eD_1, eD_2, eD_3]
    apply exec_step
    · exact execD_ld1p_four (bs := (A.drop 64).take 64) (hc := by decide) (hb := by rfl)
        (e0 := by rfl) (e1 := by rfl) (e2 := by rfl) (e3 := by rfl) (hload := ra1) ..
    simp only [List.set_cons_succ, List.set_cons_zero, e1_0, e1_1, e1_2, e1_3, e2_0, e2_1, e2_2, e2_3, eD_0, eD_1, eD_2, eD_3]
    apply exec_step
    · exact execD_ld1p_four (bs := (A.drop 128).take 64) (hc := by decide) (hb := by rfl)
        (e0 := by rfl) (e1 := by rfl) (e2 := by rfl) (e3 := by rfl) (hload := ra2) ..
    simp only [List.set_cons_succ, List.set_cons_zero, e1_0, e1_1, e1_2, e1_3, e2_0, e2_1, e2_2, e2_3, eD_0, eD_1, eD_2, eD_3]
    apply exec_step
    · exact execD_ld1p_four (bs := (A.drop 192).take 64) (hc := by decide) (hb := by rfl)
        (e0 := by rfl) (e1 := by rfl) (e2 := by rfl) (e3 := by rfl) (hload := ra3) ..
    simp only [List.set_cons_succ, List.set_cons_zero, e1_0, e1_1, e1_2, e1_3, e2_0, e2_1, e2_2, e2_3, eD_0, eD_1, eD_2, eD_3]
    apply exec_step
    · exact execD_ld1p_four (bs := (B.drop 0).take 64) (hc := by decide) (hb := by rfl)
        (e0 := by rfl) (e1 := by rfl) (e2 := by rfl) (e3 := by rfl) (hload := rb0) ..
    simp only [List.set_cons_succ, List.set_cons_zero, e1_0, e1_1, e1_2, e1_3, e2_0, e2_1, e2_2, e2_3, eD_0, eD_1, eD_2, eD_3]
    apply exec_step
    · exact execD_ld1p_four (bs := (B.drop 64).take 64) (hc := by decide) (hb := by rfl)
        (e0 := by rfl) (e1 := by rfl) (e2 := by rfl) (e3 := by rfl) (hload := rb1) ..
    simp only [List.set_cons_succ, List.set_cons_zero, e1_0, e1_1, e1_2, e1_3, e2_0, e2_1, e2_2, e2_3, eD_0, eD_1, eD_2, eD_3]
    apply exec_step
    · exact execD_ld1p_four (bs := (B.drop 128).take 64) (hc := by decide) (hb := by rfl)
        (e0 := by rfl) (e1 := by rfl) (e2 := by rfl) (e3 := by rfl) (hload := rb2) ..
    simp only [List.set_cons_succ, List.set_cons_zero, e1_0, e1_1, e1_2, e1_3, e2_0, e2_1, e2_2, e2_3, eD_0, eD_1, eD_2, eD_3]
    apply exec_step
    · exact execD_ld1p_four (bs := (B.drop 192).take 64) (hc := by decide) (hb := by rfl)
        (e0 := by rfl) (e1 := by rfl) (e2 := by rfl) (e3 := by rfl) (hload := rb3) ..
    simp only [List.set_cons_succ, List.set_cons_zero, e1_0, e1_1, e1_2, e1_3, e2_0, e2_1, e2_2, e2_3, eD_0, eD_1, eD_2, eD_3]
    xstep; xstep; xstep; xstep; xstep; xstep; xstep; xstep; xstep; xstep; xstep; xstep; xstep; xstep; xstep; xstep
    apply exec_step
    · exact execD_st1_four (post := true) (hc := by decide) (hb := by rfl) (h0 := by rfl) (h1 := by rfl)
        (h2 := by rfl) (h3 := by rfl) (hstore := hw0) ..
    simp only [List.set_cons_succ, List.set_cons_zero, if_true, Bool.false_eq_true, if_false, e1_0, e1_1, e1_2, e1_3, e2_0, e2_1, e2_2, e2_3, eD_0, eD_1, eD_2, eD_3]
    apply exec_step
    · exact execD_st1_four (post := true) (hc := by decide) (hb := by rfl) (h0 := by rfl) (h1 := by rfl)
        (h2 := by rfl) (h3 := by rfl) (hstore := hw1) ..
    simp only [List.set_cons_succ, List.set_cons_zero, if_true, Bool.false_eq_true, if_false, e1_0, e1_1, e1_2, e1_3, e2_0, e2_1, e2_2, e2_3, eD_0, eD_1, eD_2, eD_3]
    apply exec_step
    · exact execD_st1_four (post := true) (hc := by decide) (hb := by rfl) (h0 := by rfl) (h1 := by rfl)
        (h2 := by rfl) (h3 := by rfl) (hstore := hw2) ..
    simp only [List.set_cons_succ, List.set_cons_zero, if_true, Bool.false_eq_true, if_false, e1_0, e1_1, e1_2, e1_3, e2_0, e2_1, e2_2, e2_3, eD_0, eD_1, eD_2, eD_3]
    apply exec_step
    · exact execD_st1_four (post := true) (hc := by decide) (hb := by rfl) (h0 := by rfl) (h1 := by rfl)
        (h2 := by rfl) (h3 := by rfl) (hstore := hw3) ..
    simp only [List.set_cons_succ, List.set_cons_zero, if_true, Bool.false_eq_true, if_false, e1_0, e1_1, e1_2, e1_3, e2_0, e2_1, e2_2, e2_3, eD_0, eD_1, eD_2, eD_3]
    exact execList_nil _
  · rfl


/-! ### the stores of a routine, chained -/

theorem write_chain1 (mem : List Region) (r : Nat) (name : String) (d W : List Nat)
    (hm : mem[r]? = some ⟨name, d, true⟩) (hW : W.length = d.length) (hlt : d.length < 2 ^ 32) :
    writeMem mem (regionBase r) W = .ok (mem.set r ⟨name, W, true⟩) := by
  have := write_next mem r name d [] W (by simpa using hm) (by simp [hW]) (by simp)
  simp only [List.length_nil, Nat.add_zero, List.nil_append] at this
  rw [this, List.drop_of_length_le (by omega), List.append_nil]

theorem write_chain2 (mem : List Region) (r : Nat) (name : String) (d W0 W1 : List Nat) (c : Nat)
    (hm : mem[r]? = some ⟨name, d, true⟩) (h0 : W0.length = c) (h1 : W1.length = c) (hd : d.length = 2 * c)
    (hlt : d.length < 2 ^ 32) :
    ∃ m1, writeMem mem (regionBase r) W0 = .ok m1 ∧
      writeMem m1 (regionBase r + c) W1 = .ok (mem.set r ⟨name, W0 ++ W1, true⟩) := by
  have hr : r < mem.length := (List.getElem?_eq_some_iff.mp hm).1
  have e0 := write_next mem r name d [] W0 (by simpa using hm) (by simp; omega) (by simp)
  simp only [List.length_nil, Nat.add_zero, List.nil_append] at e0
  refine ⟨_, e0, ?_⟩
  have e1 := write_next (mem.set r ⟨name, W0 ++ d.drop W0.length, true⟩) r name d W0 W1 (List.getElem?_set_self hr)
    (by omega) (by omega)
  rw [show regionBase r + c = regionBase r + W0.length from by rw [h0], e1, List.set_set,
    List.drop_of_length_le (by simp; omega), List.append_nil]

theorem write_chain4 (mem : List Region) (r : Nat) (name : String) (d W0 W1 W2 W3 : List Nat) (c : Nat)
    (hm : mem[r]? = some ⟨name, d, true⟩) (h0 : W0.length = c) (h1 : W1.length = c) (h2 : W2.length = c)
    (h3 : W3.length = c) (hd : d.length = 4 * c) (hlt : d.length < 2 ^ 32) :
    ∃ m1 m2 m3, writeMem mem (regionBase r) W0 = .ok m1 ∧ writeMem m1 (regionBase r + c) W1 = .ok m2 ∧
      writeMem m2 (regionBase r + 2 * c) W2 = .ok m3 ∧
      writeMem m3 (regionBase r + 3 * c) W3 = .ok (mem.set r ⟨name, W0 ++ (W1 ++ (W2 ++ W3)), true⟩) := by
  have hr : r < mem.length := (List.getElem?_eq_some_iff.mp hm).1
  have hs : ∀ bs, (mem.set r ⟨name, bs, true⟩)[r]? = some ⟨name, bs, true⟩ := fun bs => List.getElem?_set_self hr
  have e0 := write_next mem r name d [] W0 (by simpa using hm) (by simp; omega) (by simp)
  simp only [List.length_nil, Nat.add_zero, List.nil_append] at e0
  have e1 := write_next _ r name d W0 W1 (hs _) (by omega) (by omega)
  have e2 := write_next _ r name d (W0 ++ W1) W2 (hs _) (by simp; omega) (by simp; omega)
  have e3 := write_next _ r name d (W0 ++ W1 ++ W2) W3 (hs _) (by simp; omega) (by simp; omega)
  rw [List.set_set] at e1 e2 e3
  have l2 : (W0 ++ W1).length = 2 * c := by simp; omega
  have l3 : (W0 ++ W1 ++ W2).length = 3 * c := by simp; omega
  refine ⟨mem.set r ⟨name, W0 ++ d.drop W0.length, true⟩,
    mem.set r ⟨name, W0 ++ W1 ++ d.drop (W0 ++ W1).length, true⟩,
    mem.set r ⟨name, W0 ++ W1 ++ W2 ++ d.drop (W0 ++ W1 ++ W2).length, true⟩, e0, ?_, ?_, ?_⟩
  · rw [show regionBase r + c = regionBase r + W0.length from by rw [h0]]; exact e1
  · rw [show regionBase r + 2 * c = regionBase r + (W0 ++ W1).length from by rw [l2]]; exact e2
  · rw [show regionBase r + 3 * c = regionBase r + (W0 ++ W1 ++ W2).length from by rw [l3], e3,
      List.drop_of_length_le (by simp; omega), List.append_nil]
    simp only [List.append_assoc]

/-! ### the listings -/

theorem xor16_decode :
    (zipDecode Gen.ListArm64Gcm.xor16 Gen.ListArm64GcmArr.xor16_arr).toOption.map (fun r => r.map erasePc)
      = some (xor16Code ++ [retI]) := by decide +kernel
theorem xor16_noRet : xor16Code.all (fun i => i.mn != .RET) = true := by decide +kernel

theorem xor32_decode :
    (zipDecode Gen.ListArm64Gcm.xor32 Gen.ListArm64GcmArr.xor32_arr).toOption.map (fun r => r.map erasePc)
      = some (xor32Code ++ [retI]) := by decide +kernel
theorem xor32_noRet : xor32Code.all (fun i => i.mn != .RET) = true := by decide +kernel

theorem xor64_decode :
    (zipDecode Gen.ListArm64Gcm.xor64 Gen.ListArm64GcmArr.xor64_arr).toOption.map (fun r => r.map erasePc)
      = some (xor64Code ++ [retI]) := by decide +kernel
theorem xor64_noRet : xor64Code.all (fun i => i.mn != .RET) = true := by decide +kernel

theorem xor128_decode :
    (zipDecode Gen.ListArm64Gcm.xor128 Gen.ListArm64GcmArr.xor128_arr).toOption.map (fun r => r.map erasePc)
      = some (xor128Code ++ [retI]) := by decide +kernel
theorem xor128_noRet : xor128Code.all (fun i => i.mn != .RET) = true := by decide +kernel

theorem xor256_decode :
    (zipDecode Gen.ListArm64Gcm.xor256 Gen.ListArm64GcmArr.xor256_arr).toOption.map (fun r => r.map erasePc)
      = some (xor256Code ++ [retI]) := by decide +kernel
theorem xor256_noRet : xor256Code.all (fun i => i.mn != .RET) = true := by decide +kernel

/-- the destination region and the result -/
structure XorDst (S : State) (N rD : Nat) (d0 : List Nat) : Prop where
  dM : S.mem[rD]? = some ⟨"dst", d0, true⟩
  dLen : d0.length = N

theorem zlen (A B : List Nat) (N : Nat) (hA : A.length = N) (hB : B.length = N) :
    (List.zipWith (· ^^^ ·) A B).length = N := by simp [hA, hB]

theorem chunk_len (A : List Nat) (N o c : Nat) (hA : A.length = N) (h : o + c ≤ N) : ((A.drop o).take c).length = c := by
  rw [List.length_take, List.length_drop, hA]; omega

theorem chunk_bytes (A : List Nat) (o c : Nat) (hb : ∀ x ∈ A, x < 2 ^ 8) : ∀ x ∈ (A.drop o).take c, x < 2 ^ 8 :=
  fun x hx => hb x (List.mem_of_mem_drop (List.mem_of_mem_take hx))

/-- `xor16` on any state that provides the pointers, the sources and the destination region -/
theorem xor16_generic (S : State) (A B d0 : List Nat) (a1 a2 rD : Nat) (env : XorEnv S 16 A B (regionBase rD) a1 a2)
    (dst : XorDst S 16 rD d0) (hA : A.length = 16) (hB : B.length = 16) (hab : ∀ x ∈ A, x < 2 ^ 8) (hbb : ∀ x ∈ B, x < 2 ^ 8) :
    ∃ s', run Gen.ListArm64Gcm.xor16 Gen.ListArm64GcmArr.xor16_arr S = .ok s' ∧
      s'.mem = S.mem.set rD ⟨"dst", List.zipWith (· ^^^ ·) A B, true⟩ := by
  have q0 : w16 ((A.drop 0).take 16) ((B.drop 0).take 16) = ((List.zipWith (· ^^^ ·) A B).drop 0).take 16 := by
    rw [w16_eq _ _ (chunk_len A 16 0 16 hA (by omega)) (chunk_len B 16 0 16 hB (by omega)) (chunk_bytes A _ _ hab)
      (chunk_bytes B _ _ hbb), zip_chunk]
  have hz := zlen A B 16 hA hB
  have hch := chunks 16 (List.zipWith (· ^^^ ·) A B) 1 (by rw [hz])
  simp only [List.range, List.range.loop, List.flatMap_cons, List.flatMap_nil, List.append_nil, Nat.reduceMul,
    List.drop_zero] at hch
  have hw := write_chain1 S.mem rD "dst" d0 (((List.zipWith (· ^^^ ·) A B).drop 0).take 16) dst.dM
    (by rw [chunk_len _ 16 0 16 hz (by omega), dst.dLen]) (by rw [dst.dLen]; decide)
  rw [← q0] at hw
  obtain ⟨s', hrun, hm⟩ := xor16_body S A B (regionBase rD) a1 a2 env _ hw
  refine ⟨s', run_of_decode _ _ _ xor16_decode xor16_noRet S s' hrun, ?_⟩
  rw [hm, q0, List.drop_zero, hch]

/-- `xor32` on any state that provides the pointers, the sources and the destination region -/
theorem xor32_generic (S : State) (A B d0 : List Nat) (a1 a2 rD : Nat) (env : XorEnv S 32 A B (regionBase rD) a1 a2)
    (dst : XorDst S 32 rD d0) (hA : A.length = 32) (hB : B.length = 32) (hab : ∀ x ∈ A, x < 2 ^ 8) (hbb : ∀ x ∈ B, x < 2 ^ 8) :
    ∃ s', run Gen.ListArm64Gcm.xor32 Gen.ListArm64GcmArr.xor32_arr S = .ok s' ∧
      s'.mem = S.mem.set rD ⟨"dst", List.zipWith (· ^^^ ·) A B, true⟩ := by
  have q0 : w32 ((A.drop 0).take 32) ((B.drop 0).take 32) = ((List.zipWith (· ^^^ ·) A B).drop 0).take 32 := by
    rw [w32_eq _ _ (chunk_len A 32 0 32 hA (by omega)) (chunk_len B 32 0 32 hB (by omega)) (chunk_bytes A _ _ hab)
      (chunk_bytes B _ _ hbb), zip_chunk]
  have hz := zlen A B 32 hA hB
  have hch := chunks 32 (List.zipWith (· ^^^ ·) A B) 1 (by rw [hz])
  simp only [List.range, List.range.loop, List.flatMap_cons, List.flatMap_nil, List.append_nil, Nat.reduceMul,
    List.drop_zero] at hch
  have hw := write_chain1 S.mem rD "dst" d0 (((List.zipWith (· ^^^ ·) A B).drop 0).take 32) dst.dM
    (by rw [chunk_len _ 32 0 32 hz (by omega), dst.dLen]) (by rw [dst.dLen]; decide)
  rw [← q0] at hw
  obtain ⟨s', hrun, hm⟩ := xor32_body S A B (regionBase rD) a1 a2 env _ hw
  refine ⟨s', run_of_decode _ _ _ xor32_decode xor32_noRet S s' hrun, ?_⟩
  rw [hm, q0, List.drop_zero, hch]

/-- `xor64` on any state that provides the pointers, the sources and the destination region -/
theorem xor64_generic (S : State) (A B d0 : List Nat) (a1 a2 rD : Nat) (env : XorEnv S 64 A B (regionBase rD) a1 a2)
    (dst : XorDst S 64 rD d0) (hA : A.length = 64) (hB : B.length = 64) (hab : ∀ x ∈ A, x < 2 ^ 8) (hbb : ∀ x ∈ B, x < 2 ^ 8) :
    ∃ s', run Gen.ListArm64Gcm.xor64 Gen.ListArm64GcmArr.xor64_arr S = .ok s' ∧
      s'.mem = S.mem.set rD ⟨"dst", List.zipWith (· ^^^ ·) A B, true⟩ := by
  have q0 : w64 ((A.drop 0).take 64) ((B.drop 0).take 64) = ((List.zipWith (· ^^^ ·) A B).drop 0).take 64 := by
    rw [w64_eq _ _ (chunk_len A 64 0 64 hA (by omega)) (chunk_len B 64 0 64 hB (by omega)) (chunk_bytes A _ _ hab)
      (chunk_bytes B _ _ hbb), zip_chunk]
  have hz := zlen A B 64 hA hB
  have hch := chunks 64 (List.zipWith (· ^^^ ·) A B) 1 (by rw [hz])
  simp only [List.range, List.range.loop, List.flatMap_cons, List.flatMap_nil, List.append_nil, Nat.reduceMul,
    List.drop_zero] at hch
  have hw := write_chain1 S.mem rD "dst" d0 (((List.zipWith (· ^^^ ·) A B).drop 0).take 64) dst.dM
    (by rw [chunk_len _ 64 0 64 hz (by omega), dst.dLen]) (by rw [dst.dLen]; decide)
  rw [← q0] at hw
  obtain ⟨s', hrun, hm⟩ := xor64_body S A B (regionBase rD) a1 a2 env _ hw
  refine ⟨s', run_of_decode _ _ _ xor64_decode xor64_noRet S s' hrun, ?_⟩
  rw [hm, q0, List.drop_zero, hch]

/-- `xor128` on any state that provides the pointers, the sources and the destination region -/
theorem xor128_generic (S : State) (A B d0 : List Nat) (a1 a2 rD : Nat) (env : XorEnv S 128 A B (regionBase rD) a1 a2)
    (dst : XorDst S 128 rD d0) (hA : A.length = 128) (hB : B.length = 128) (hab : ∀ x ∈ A, x < 2 ^ 8) (hbb : ∀ x ∈ B, x < 2 ^ 8) :
    ∃ s', run Gen.ListArm64Gcm.xor128 Gen.ListArm64GcmArr.xor128_arr S = .ok s' ∧
      s'.mem = S.mem.set rD ⟨"dst", List.zipWith (· ^^^ ·) A B, true⟩ := by
  have q0 : w64 ((A.drop 0).take 64) ((B.drop 0).take 64) = ((List.zipWith (· ^^^ ·) A B).drop 0).take 64 := by
    rw [w64_eq _ _ (chunk_len A 128 0 64 hA (by omega)) (chunk_len B 128 0 64 hB (by omega)) (chunk_bytes A _ _ hab)
      (chunk_bytes B _ _ hbb), zip_chunk]
  have q1 : w64 ((A.drop 64).take 64) ((B.drop 64).take 64) = ((List.zipWith (· ^^^ ·) A B).drop 64).take 64 := by
    rw [w64_eq _ _ (chunk_len A 128 64 64 hA (by omega)) (chunk_len B 128 64 64 hB (by omega)) (chunk_bytes A _ _ hab)
      (chunk_bytes B _ _ hbb), zip_chunk]
  have hz := zlen A B 128 hA hB
  have hch := chunks 64 (List.zipWith (· ^^^ ·) A B) 2 (by rw [hz])
  simp only [List.range, List.range.loop, List.flatMap_cons, List.flatMap_nil, List.append_nil, Nat.reduceMul,
    List.drop_zero] at hch
  obtain ⟨m1, hw0, hw1⟩ := write_chain2 S.mem rD "dst" d0 (((List.zipWith (· ^^^ ·) A B).drop 0).take 64)
    (((List.zipWith (· ^^^ ·) A B).drop 64).take 64) 64 dst.dM (chunk_len _ 128 0 64 hz (by omega))
    (chunk_len _ 128 64 64 hz (by omega)) (by rw [dst.dLen]) (by rw [dst.dLen]; decide)
  rw [← q0] at hw0
  rw [← q1] at hw1
  obtain ⟨s', hrun, hm⟩ := xor128_body S A B (regionBase rD) a1 a2 env _ _ hw0 hw1
  refine ⟨s', run_of_decode _ _ _ xor128_decode xor128_noRet S s' hrun, ?_⟩
  rw [hm, q1, List.drop_zero, hch]

/-- `xor256` on any state that provides the pointers, the sources and the destination region -/
theorem xor256_generic (S : State) (A B d0 : List Nat) (a1 a2 rD : Nat) (env : XorEnv S 256 A B (regionBase rD) a1 a2)
    (dst : XorDst S 256 rD d0) (hA : A.length = 256) (hB : B.length = 256) (hab : ∀ x ∈ A, x < 2 ^ 8) (hbb : ∀ x ∈ B, x < 2 ^ 8) :
    ∃ s', run Gen.ListArm64Gcm.xor256 Gen.ListArm64GcmArr.xor256_arr S = .ok s' ∧
      s'.mem = S.mem.set rD ⟨"dst", List.zipWith (· ^^^ ·) A B, true⟩ := by
  have q0 : w64 ((A.drop 0).take 64) ((B.drop 0).take 64) = ((List.zipWith (· ^^^ ·) A B).drop 0).take 64 := by
    rw [w64_eq _ _ (chunk_len A 256 0 64 hA (by omega)) (chunk_len B 256 0 64 hB (by omega)) (chunk_bytes A _ _ hab)
      (chunk_bytes B _ _ hbb), zip_chunk]
  have q1 : w64 ((A.drop 64).take 64) ((B.drop 64).take 64) = ((List.zipWith (· ^^^ ·) A B).drop 64).take 64 := by
    rw [w64_eq _ _ (chunk_len A 256 64 64 hA (by omega)) (chunk_len B 256 64 64 hB (by omega)) (chunk_bytes A _ _ hab)
      (chunk_bytes B _ _ hbb), zip_chunk]
  have q2 : w64 ((A.drop 128).take 64) ((B.drop 128).take 64) = ((List.zipWith (· ^^^ ·) A B).drop 128).take 64 := by
    rw [w64_eq _ _ (chunk_len A 256 128 64 hA (by omega)) (chunk_len B 256 128 64 hB (by omega)) (chunk_bytes A _ _ hab)
      (chunk_bytes B _ _ hbb), zip_chunk]
  have q3 : w64 ((A.drop 192).take 64) ((B.drop 192).take 64) = ((List.zipWith (· ^^^ ·) A B).drop 192).take 64 := by
    rw [w64_eq _ _ (chunk_len A 256 192 64 hA (by omega)) (chunk_len B 256 192 64 hB (by omega)) (chunk_bytes A _ _ hab)
      (chunk_bytes B _ _ hbb), zip_chunk]
  have hz := zlen A B 256 hA hB
  have hch := chunks 64 (List.zipWith (· ^^^ ·) A B) 4 (by rw [hz])
  simp only [List.range, List.range.loop, List.flatMap_cons, List.flatMap_nil, List.append_nil, Nat.reduceMul,
    List.drop_zero] at hch
  obtain ⟨m1, m2, m3, hw0, hw1, hw2, hw3⟩ := write_chain4 S.mem rD "dst" d0 (((List.zipWith (· ^^^ ·) A B).drop 0).take 64)
    (((List.zipWith (· ^^^ ·) A B).drop 64).take 64) (((List.zipWith (· ^^^ ·) A B).drop 128).take 64)
    (((List.zipWith (· ^^^ ·) A B).drop 192).take 64) 64 dst.dM (chunk_len _ 256 0 64 hz (by omega))
    (chunk_len _ 256 64 64 hz (by omega)) (chunk_len _ 256 128 64 hz (by omega)) (chunk_len _ 256 192 64 hz (by omega))
    (by rw [dst.dLen]) (by rw [dst.dLen]; decide)
  simp only [Nat.reduceMul] at hw2 hw3
  rw [← q0] at hw0
  rw [← q1] at hw1
  rw [← q2] at hw2
  rw [← q3] at hw3
  obtain ⟨s', hrun, hm⟩ := xor256_body S A B (regionBase rD) a1 a2 env _ _ _ _ hw0 hw1 hw2 hw3
  refine ⟨s', run_of_decode _ _ _ xor256_decode xor256_noRet S s' hrun, ?_⟩
  rw [hm, q3, List.drop_zero, hch]

end SMGo.Proofs.ISAValArm64
