import SMGo.Proofs.ISAValFusedRn
namespace SMGo.Proofs.ISAVal
open SMGo.Model.ISAVal SMGo.Proofs.ISATouch
open SMGo.Model.ISA (Reg Opd Instr)

/-- `n` times `roundNew` -/
def rnRep (vl rk r1 r2 r3 r4 A B C D : Nat) : Nat → List DInstr
  | 0 => []
  | n + 1 => rnRep vl rk r1 r2 r3 r4 A B C D n ++ rnCode vl rk r1 r2 r3 r4 A B C D

theorem rounds32_eq (vl rk r1 r2 r3 r4 A B C D : Nat) :
    rounds32Code vl rk r1 r2 r3 r4 A B C D = rnRep vl rk r1 r2 r3 r4 A B C D 8 ++ [ins .SUBQ [.imm 128, G rk] 0] := by
  simp only [rounds32Code, rnRep, List.nil_append, List.append_assoc]

theorem rnRep_step (vl rk r1 r2 r3 r4 A B C D : Nat) (hvl : validVl vl = true) (hinst : srInst A B C D)
    (hg : gprInst rk r1 r2 r3 r4) (s : State) (X : Nat → Nat × Nat × Nat × Nat) (r : ReadyF vl A B C D X s)
    (base : Nat) (hbase : greg s rk = base) (hb : base + 144 < 2 ^ 64) (kb : Nat → List Nat)
    (hread : ∀ i, i < 32 → readMem s.mem (base + 4 * i) 4 = .ok (kb i)) (n : Nat) (hn : n ≤ 8) :
    ∃ s', execList (rnRep vl rk r1 r2 r3 r4 A B C D n) s = .ok s' ∧
      ReadyF vl A B C D (fun j => iterN (fun i => unlanes 8 (kb i) % 2 ^ 32) (X j) (4 * n)) s' ∧
      greg s' rk = base + 16 * n ∧
      Keeps (rnKeepG rk r1 r2 r3 r4) (rnKeepV A B C D) (List.range 8) s s' := by
  induction n with
  | zero => exact ⟨s, rfl, r, hbase, Keeps.rfl' _ _ _ _⟩
  | succ n ih =>
    obtain ⟨s1, hr1, rd1, g1, kp1⟩ := ih (by omega)
    obtain ⟨s2, hr2, rd2, g2, kp2⟩ := rn_step vl rk r1 r2 r3 r4 A B C D hvl hinst hg s1 _ rd1 (base + 16 * n) g1 (by omega)
      (fun i => kb (4 * n + i)) (fun i hi => by
        rw [kp1.mem, show base + 16 * n + 4 * i = base + 4 * (4 * n + i) from by omega]
        exact hread _ (by omega))
    refine ⟨s2, execList_append_ok hr1 hr2, ?_, by rw [g2]; omega, kp1.trans kp2⟩
    have e : (fun j => iterN (fun i => unlanes 8 (kb i) % 2 ^ 32) (X j) (4 * (n + 1)))
        = (fun j => stepN (stepN (stepN (stepN (iterN (fun i => unlanes 8 (kb i) % 2 ^ 32) (X j) (4 * n))
            (unlanes 8 (kb (4 * n + 0)) % 2 ^ 32)) (unlanes 8 (kb (4 * n + 1)) % 2 ^ 32)) (unlanes 8 (kb (4 * n + 2)) % 2 ^ 32))
            (unlanes 8 (kb (4 * n + 3)) % 2 ^ 32)) := by
      funext j
      rw [show 4 * (n + 1) = 4 * n + 1 + 1 + 1 + 1 from by omega]
      simp only [iterN, Nat.add_zero]
    rw [e]; exact rd2

/-- **the 32 rounds of a fused kernel** on every dword lane; the round-key pointer is restored -/
theorem rounds32_step (vl rk r1 r2 r3 r4 A B C D : Nat) (hvl : validVl vl = true) (hinst : srInst A B C D)
    (hg : gprInst rk r1 r2 r3 r4) (s : State) (X : Nat → Nat × Nat × Nat × Nat) (r : ReadyF vl A B C D X s)
    (base : Nat) (hbase : greg s rk = base) (hb : base + 144 < 2 ^ 64) (kb : Nat → List Nat)
    (hread : ∀ i, i < 32 → readMem s.mem (base + 4 * i) 4 = .ok (kb i)) :
    ∃ s', execList (rounds32Code vl rk r1 r2 r3 r4 A B C D) s = .ok s' ∧
      ReadyF vl A B C D (fun j => iterN (fun i => unlanes 8 (kb i) % 2 ^ 32) (X j) 32) s' ∧
      greg s' rk = base ∧
      Keeps (rnKeepG rk r1 r2 r3 r4) (rnKeepV A B C D) (List.range 8) s s' := by
  obtain ⟨s1, hr1, rd1, g1, kp1⟩ := rnRep_step vl rk r1 r2 r3 r4 A B C D hvl hinst hg s X r base hbase hb kb hread 8 (Nat.le_refl _)
  have hrk : rk < 16 := by rcases hg with ⟨rfl, _⟩ | ⟨rfl, _⟩ <;> decide
  have x := a_subq_imm s1 128 rk (by rw [rd1.lenG]; exact hrk)
  rw [g1, subF_fst, show imm64 128 = 128 from by decide +kernel,
    show (base + 16 * 8 + 2 ^ 64 - 128) % 2 ^ 64 = base from by omega] at x
  have hrun : execList (rounds32Code vl rk r1 r2 r3 r4 A B C D) s
      = .ok (setFlags (setGreg s1 rk base) (subF 8 (base + 16 * 8) 128).2) := by
    rw [rounds32_eq]
    apply execList_append_ok hr1
    apply exec_step x
    exact execList_nil _
  have kpS : Keeps (rnKeepG rk r1 r2 r3 r4) (rnKeepV A B C D) (List.range 8) s1 (setFlags (setGreg s1 rk base) (subF 8 (base + 16 * 8) 128).2) := by
    refine ⟨by simp, rfl, rfl, ?_, fun _ _ => rfl, fun _ _ => rfl, rfl, rfl, rfl⟩
    intro n hn
    have : n ≠ rk := by
      intro e; subst e
      simp [rnKeepG] at hn
    exact greg_setGreg_ne s1 rk base n this
  refine ⟨_, hrun, ?_, greg_setGreg_eq s1 rk base (by rw [rd1.lenG]; exact hrk), kp1.trans kpS⟩
  exact ⟨by simp; exact rd1.lenG, rd1.lenV, rd1.v10, rd1.v11, rd1.xA, rd1.xB, rd1.xC, rd1.xD⟩

end SMGo.Proofs.ISAVal
