/-
  Property C09 — constant-time behaviour of the SM4 / GCM assembly (amd64 and arm64).

  "On CPUs where the accelerated path is selected, SM4 key expansion, block encryption and the whole of GCM
   sealing and opening execute an instruction sequence and touch memory addresses that depend only on the lengths
   of their inputs, never on key, plaintext, ciphertext or hash-key bytes; the single data-dependent decision is
   the final tag-match verdict of Open."

  Objects:
    * `SMGo.Gen.List{Amd64,Arm64}*`  – the macro-expanded listings (`go tool asm -S`), every instruction of every
      routine;
    * `SMGo.Model.ISA`               – role table (`roles`, `effOf`), abstract machine (`step`, `trace`; the data
      function of every instruction, the branch conditions, the access widths and the read-only data are a
      PARAMETER `sem : Sem`), taint checker (`checkInv`) and invariant computation (`computeInv`);
    * `SMGo.Proofs.ISASound`         – `taint_sound`;
    * `SMGo.Proofs.ISACheck*`        – per routine, `certify prog declass = true` decided by the kernel.

  Reading of the theorems: an observation (`Obs`) is the pc of the executed instruction, the effective address of
  its memory operand and the value of the opmask gating the access.  `ConstantTime prog` says: two executions that
  start at the entry of `prog` with the same ARGUMENT FRAME (pointers, lengths) make the same observations for
  every number of steps, for every data semantics — registers, flags and all of memory (keys, round keys,
  plaintext, ciphertext, additional data, nonce, hash key, scratch) may differ arbitrarily.
-/
import SMGo.Proofs.ISASound
import SMGo.Proofs.ISACheckAmd64Asm
import SMGo.Proofs.ISACheckAmd64Seal
import SMGo.Proofs.ISACheckAmd64Open
import SMGo.Proofs.ISACheckAmd64Misc
import SMGo.Proofs.ISACheckArm64Asm
import SMGo.Proofs.ISACheckArm64X8
import SMGo.Proofs.ISACheckArm64X16

namespace SMGo.Props.C09
open SMGo.Model.ISA SMGo.Proofs.ISASound SMGo.Proofs.ISACheck SMGo.Gen

/-! ## The general theorem -/

/-- **Soundness of the taint check** (restated): if `inv` passes the local check, two executions from states at
    the same pc that agree on the frame and on the registers/flags that `inv` calls untainted, and that take the
    same decision at the declassified branch pcs, make the same observations — for any data semantics. -/
theorem taint_sound {prog : List Instr} {inv : Nat → Nat} {declass : List Nat}
    (hchk : checkInv prog inv declass = true) (sem : Sem) (n : Nat) (s1 s2 : State)
    (hpc : s1.pc = s2.pc) (hag : Agree (inv s1.pc) s1 s2)
    (hsd : SameDecisions sem prog declass n s1 s2) :
    trace sem prog n s1 = trace sem prog n s2 :=
  SMGo.Proofs.ISASound.taint_sound hchk sem n s1 s2 hpc hag hsd

/-- Observations depend on the argument frame only. -/
def ConstantTime (prog : List Instr) : Prop :=
  ∀ (sem : Sem) (s1 s2 : State), s1.pc = entryPc prog → s2.pc = entryPc prog → s1.frame = s2.frame →
    ∀ n : Nat, trace sem prog n s1 = trace sem prog n s2

/-- Observations depend on the argument frame and on the decisions taken at the pcs in `declass` only. -/
def ConstantTimeExcept (prog : List Instr) (declass : List Nat) : Prop :=
  ∀ (sem : Sem) (s1 s2 : State), s1.pc = entryPc prog → s2.pc = entryPc prog → s1.frame = s2.frame →
    ∀ n : Nat, SameDecisions sem prog declass n s1 s2 → trace sem prog n s1 = trace sem prog n s2

/-- … and as long as the first execution has not arrived at a pc in `declass`, on the frame alone. -/
def ConstantTimeUntil (prog : List Instr) (declass : List Nat) : Prop :=
  ∀ (sem : Sem) (s1 s2 : State), s1.pc = entryPc prog → s2.pc = entryPc prog → s1.frame = s2.frame →
    ∀ n : Nat, (∀ o ∈ trace sem prog n s1, o.pc ∉ declass) → trace sem prog n s1 = trace sem prog n s2

theorem constantTime_of_cert {prog : List Instr} (h : certify prog [] = true) : ConstantTime prog :=
  fun sem s1 s2 h1 h2 hf n =>
    certified_constant_time h sem s1 s2 h1 h2 hf n (sameDecisions_nil sem prog n s1 s2)

theorem constantTimeExcept_of_cert {prog : List Instr} {declass : List Nat} (h : certify prog declass = true) :
    ConstantTimeExcept prog declass :=
  fun sem s1 s2 h1 h2 hf n hsd => certified_constant_time h sem s1 s2 h1 h2 hf n hsd

theorem constantTimeUntil_of_cert {prog : List Instr} {declass : List Nat} (h : certify prog declass = true) :
    ConstantTimeUntil prog declass :=
  fun sem s1 s2 h1 h2 hf n hno => certified_until h sem s1 s2 h1 h2 hf n hno

/-! ## amd64 (AVX-512 / GFNI / VPCLMULQDQ path) -/

theorem expandKeyAsm_amd64 : ConstantTime ListAmd64Asm.expandKeyAsm := constantTime_of_cert cert_expandKeyAsm_amd64
theorem cryptoBlockAsm_amd64 : ConstantTime ListAmd64Asm.cryptoBlockAsm := constantTime_of_cert cert_cryptoBlockAsm_amd64
theorem cryptoBlockAsmX2_amd64 : ConstantTime ListAmd64Asm.cryptoBlockAsmX2 := constantTime_of_cert cert_cryptoBlockAsmX2_amd64
theorem cryptoBlockAsmX4_amd64 : ConstantTime ListAmd64Asm.cryptoBlockAsmX4 := constantTime_of_cert cert_cryptoBlockAsmX4_amd64
theorem cryptoBlockAsmX8_amd64 : ConstantTime ListAmd64Asm.cryptoBlockAsmX8 := constantTime_of_cert cert_cryptoBlockAsmX8_amd64
theorem cryptoBlockAsmX16_amd64 : ConstantTime ListAmd64Asm.cryptoBlockAsmX16 := constantTime_of_cert cert_cryptoBlockAsmX16_amd64
theorem gHashBlocks_amd64 : ConstantTime ListAmd64Gcm.gHashBlocks := constantTime_of_cert cert_gHashBlocks_amd64
/-- GCM Seal: key schedule use, counter mode, GHASH, tag — everything. -/
theorem sealAsm_amd64 : ConstantTime ListAmd64Gcm.sealAsm := constantTime_of_cert cert_sealAsm_amd64
theorem needExpand_amd64 : ConstantTime ListAmd64Helper.needExpand := constantTime_of_cert cert_needExpand_amd64
theorem transpose4x4_amd64 : ConstantTime ListAmd64Helper.transpose4x4 := constantTime_of_cert cert_transpose4x4_amd64
theorem transpose2x4_amd64 : ConstantTime ListAmd64Helper.transpose2x4 := constantTime_of_cert cert_transpose2x4_amd64
theorem transpose1x4_amd64 : ConstantTime ListAmd64Helper.transpose1x4 := constantTime_of_cert cert_transpose1x4_amd64
theorem concatenateX_amd64 : ConstantTime ListAmd64Helper.concatenateX := constantTime_of_cert cert_concatenateX_amd64
theorem concatenateY_amd64 : ConstantTime ListAmd64Helper.concatenateY := constantTime_of_cert cert_concatenateY_amd64
theorem copyAsm_amd64 : ConstantTime ListAmd64Helper.copyAsm := constantTime_of_cert cert_copyAsm_amd64
theorem constantTimeCompareAsm_amd64 : ConstantTime ListAmd64Helper.constantTimeCompareAsm :=
  constantTime_of_cert cert_constantTimeCompareAsm_amd64

/-! ### GCM Open: the tag-match verdict is the one exception -/

/-- The declassified pcs of openAsm are exactly ONE branch: the `JNE` (to `tagUnMatch`) that follows
    `ORB _, r; CMPQ r, $0` — see `declassOf`. -/
theorem openAsm_amd64_declass_single : (declassOf ListAmd64Gcm.openAsm).length = 1 := declass_openAsm_amd64

/-- Open is constant-time except for the decision taken at that branch … -/
theorem openAsm_amd64 : ConstantTimeExcept ListAmd64Gcm.openAsm (declassOf ListAmd64Gcm.openAsm) :=
  constantTimeExcept_of_cert cert_openAsm_amd64

/-- … in particular everything before the verdict (GHASH of the ciphertext, computation and comparison of the
    tag) is unconditionally constant-time … -/
theorem openAsm_amd64_until_verdict : ConstantTimeUntil ListAmd64Gcm.openAsm (declassOf ListAmd64Gcm.openAsm) :=
  constantTimeUntil_of_cert cert_openAsm_amd64

/-- … and the exception is necessary: without it the checker rejects openAsm (the verdict IS data-dependent). -/
theorem openAsm_amd64_verdict_is_data_dependent : certify ListAmd64Gcm.openAsm [] = false :=
  openAsm_amd64_needs_declass

/-! ## arm64 (NEON path) -/

theorem expandKeyAsm_arm64 : ConstantTime ListArm64Asm.expandKeyAsm := constantTime_of_cert cert_expandKeyAsm_arm64
theorem cryptoBlockAsm_arm64 : ConstantTime ListArm64Asm.cryptoBlockAsm := constantTime_of_cert cert_cryptoBlockAsm_arm64
theorem cryptoBlockAsmX2_arm64 : ConstantTime ListArm64Asm.cryptoBlockAsmX2 := constantTime_of_cert cert_cryptoBlockAsmX2_arm64
theorem cryptoBlockAsmX4_arm64 : ConstantTime ListArm64Asm.cryptoBlockAsmX4 := constantTime_of_cert cert_cryptoBlockAsmX4_arm64
theorem cryptoBlockAsmX8_arm64 : ConstantTime ListArm64Asm.cryptoBlockAsmX8 := constantTime_of_cert cert_cryptoBlockAsmX8_arm64
theorem cryptoBlockAsmX16Internal_arm64 : ConstantTime ListArm64Asm.cryptoBlockAsmX16Internal :=
  constantTime_of_cert cert_cryptoBlockAsmX16Internal_arm64
theorem gHashBlocks_arm64 : ConstantTime ListArm64Gcm.gHashBlocks := constantTime_of_cert cert_gHashBlocks_arm64
theorem xor256_arm64 : ConstantTime ListArm64Gcm.xor256 := constantTime_of_cert cert_xor256_arm64
theorem xor128_arm64 : ConstantTime ListArm64Gcm.xor128 := constantTime_of_cert cert_xor128_arm64
theorem xor64_arm64 : ConstantTime ListArm64Gcm.xor64 := constantTime_of_cert cert_xor64_arm64
theorem xor32_arm64 : ConstantTime ListArm64Gcm.xor32 := constantTime_of_cert cert_xor32_arm64
theorem xor16_arm64 : ConstantTime ListArm64Gcm.xor16 := constantTime_of_cert cert_xor16_arm64

/-! ## Coverage: every routine of the five listings is certified above -/

/-- all routines of the five listings (name, instructions), in listing order -/
def allRoutines : List (String × List Instr) :=
  (ListAmd64Asm.routines ++ ListAmd64Gcm.routines ++ ListAmd64Helper.routines
    ++ ListArm64Asm.routines ++ ListArm64Gcm.routines).map fun p => (p.1, p.2.flatten)

/-- 17 amd64 + 12 arm64 routines; the theorems above are one per entry -/
theorem allRoutines_names : allRoutines.map (·.1) =
    ["expandKeyAsm", "cryptoBlockAsmX16", "cryptoBlockAsmX8", "cryptoBlockAsmX4", "cryptoBlockAsmX2", "cryptoBlockAsm",
     "gHashBlocks", "sealAsm", "openAsm",
     "needExpand", "transpose4x4", "transpose2x4", "transpose1x4", "concatenateX", "concatenateY", "copyAsm",
     "constantTimeCompareAsm",
     "expandKeyAsm", "cryptoBlockAsm", "cryptoBlockAsmX2", "cryptoBlockAsmX4", "cryptoBlockAsmX8",
     "cryptoBlockAsmX16Internal",
     "gHashBlocks", "xor256", "xor128", "xor64", "xor32", "xor16"] := by decide

/-- every routine is entered at pc 0 -/
theorem allRoutines_entry : allRoutines.all (fun p => Nat.beq (entryPc p.2) 0) = true := by decide +kernel

/-! ## The checker is not vacuous -/

/-- a branch on a byte loaded through a pointer -/
def secretBranch : List Instr :=
  [⟨0, "MOVQ", [.frame "p" 0, .reg (.gpr 0)], 1, 0⟩,              -- AX := p            (public)
   ⟨5, "MOVB", [.mem (.gpr 0) none 0 0, .reg (.gpr 1)], 2, 0⟩,    -- CL := *p           (secret)
   ⟨7, "CMPQ", [.reg (.gpr 1), .imm 0], 3, 0⟩,
   ⟨11, "JEQ", [.target 20], 4, 0⟩,                                -- branch on it
   ⟨13, "MOVQ", [.imm 1, .reg (.gpr 2)], 5, 0⟩,
   ⟨20, "RET", [], 6, 0⟩]

/-- a load whose address is a byte loaded through a pointer (table lookup) -/
def secretIndex : List Instr :=
  [⟨0, "MOVQ", [.frame "p" 0, .reg (.gpr 0)], 1, 0⟩,              -- AX := p            (public)
   ⟨5, "MOVQ", [.frame "tab" 8, .reg (.gpr 3)], 2, 0⟩,            -- BX := tab          (public)
   ⟨10, "MOVQ", [.imm 0, .reg (.gpr 1)], 3, 0⟩,
   ⟨17, "MOVB", [.mem (.gpr 0) none 0 0, .reg (.gpr 1)], 4, 0⟩,   -- CL := *p           (secret)
   ⟨19, "MOVL", [.mem (.gpr 3) (some (.gpr 1)) 4 0, .reg (.gpr 2)], 5, 0⟩,  -- DX := tab[CX]  (secret address)
   ⟨22, "RET", [], 6, 0⟩]

/-- the same two programs with the offending instruction removed pass -/
def publicBranch : List Instr :=
  [⟨0, "MOVQ", [.frame "n" 0, .reg (.gpr 1)], 1, 0⟩,              -- CX := n            (public)
   ⟨7, "CMPQ", [.reg (.gpr 1), .imm 0], 3, 0⟩,
   ⟨11, "JEQ", [.target 20], 4, 0⟩,
   ⟨13, "MOVQ", [.imm 1, .reg (.gpr 2)], 5, 0⟩,
   ⟨20, "RET", [], 6, 0⟩]

example : checkInv secretBranch (invOf secretBranch) [] = false := by decide +kernel
example : checkInv secretIndex (invOf secretIndex) [] = false := by decide +kernel
/-- … whatever the entry taint the invariant is computed from (nothing / everything tainted) … -/
example : ∀ entry ∈ [0, allTaint],
    checkInv secretBranch (invFrom (idxMap secretBranch) (computeInv secretBranch entry)) [] = false := by decide +kernel
example : ∀ entry ∈ [0, allTaint],
    checkInv secretIndex (invFrom (idxMap secretIndex) (computeInv secretIndex entry)) [] = false := by decide +kernel
/-- … and the rejection is exactly at the offending instruction (the `JEQ` at pc 11, the `MOVL` at pc 19). -/
example : (secretBranch.filter fun i =>
      !checkInstr (invOf secretBranch) [] (hasPcIn secretBranch) i (some 0)).map (·.pc) = [11] := by decide +kernel
example : (secretIndex.filter fun i =>
      !checkInstr (invOf secretIndex) [] (hasPcIn secretIndex) i (some 0)).map (·.pc) = [19] := by decide +kernel
example : certify publicBranch [] = true := by decide +kernel
/-- an unknown mnemonic is rejected, never defaulted -/
example : checkInv [⟨0, "DIVQ", [.reg (.gpr 1)], 1, 0⟩, ⟨3, "RET", [], 2, 0⟩]
    (fun _ => allTaint) [] = false := by decide +kernel

/-! ## Axioms -/

#print axioms taint_sound
#print axioms constantTime_of_cert
#print axioms constantTimeExcept_of_cert
#print axioms constantTimeUntil_of_cert
#print axioms expandKeyAsm_amd64
#print axioms cryptoBlockAsm_amd64
#print axioms cryptoBlockAsmX2_amd64
#print axioms cryptoBlockAsmX4_amd64
#print axioms cryptoBlockAsmX8_amd64
#print axioms cryptoBlockAsmX16_amd64
#print axioms gHashBlocks_amd64
#print axioms sealAsm_amd64
#print axioms openAsm_amd64
#print axioms openAsm_amd64_until_verdict
#print axioms openAsm_amd64_declass_single
#print axioms openAsm_amd64_verdict_is_data_dependent
#print axioms needExpand_amd64
#print axioms transpose4x4_amd64
#print axioms transpose2x4_amd64
#print axioms transpose1x4_amd64
#print axioms concatenateX_amd64
#print axioms concatenateY_amd64
#print axioms copyAsm_amd64
#print axioms constantTimeCompareAsm_amd64
#print axioms expandKeyAsm_arm64
#print axioms cryptoBlockAsm_arm64
#print axioms cryptoBlockAsmX2_arm64
#print axioms cryptoBlockAsmX4_arm64
#print axioms cryptoBlockAsmX8_arm64
#print axioms cryptoBlockAsmX16Internal_arm64
#print axioms gHashBlocks_arm64
#print axioms xor256_arm64
#print axioms xor128_arm64
#print axioms xor64_arm64
#print axioms xor32_arm64
#print axioms xor16_arm64
#print axioms allRoutines_names
#print axioms allRoutines_entry

end SMGo.Props.C09
