/-
  Property C16 (refinement of the generated IR, item "the Fiat primitives themselves"): for every primitive of
  /repo/sm2/internal/fiat/fiat_sm2_64.go and fiat_sm2_64_scalar.go that the library calls, the function of the
  generated CT-IR program (SMGo/Gen/CTIRProg.lean: `fn_10`, `fn_11`, `fn_14`, `fn_17`, `fn_19`, `fn_21`, `fn_23`, `fn_25`,
  `fn_30`, `fn_31`, `fn_35`, `fn_36` and the twelve scalar ones), run by the interpreter `exec` of SMGo/Model/CTIR.lean on the
  encoded arguments with any fuel ≥ `fuelFiat = 900` (7 for the conditional moves), returns the encoding of what the
  REGENERATED LET-CHAIN of SMGo/Gen/FiatP.lean / SMGo/Gen/FiatN.lean returns — `Computes prog G X f F args res`
  (CTIRRefineField: the body of function `f`, started on `args`, ends in `.ret res` for every fuel ≥ F) — and the
  result is again a vector of four 64-bit words (`Out4`; 32 bytes for ToBytes).  `G` (globals) and `X` (externals) are
  arbitrary: the primitives use neither.  Both artefacts are generated from the same Go file by two different
  translators (`fiat` and `ctir`); the theorems say that the two readings agree on ALL inputs of the Go types.
  No disagreement was found.

  These are the `Computes` hypotheses (`BytesPrims`, `SetBytesPrims`, `FiatPrims`, `hsq`, `hmul`) of Props/C16IR, C15IR:
  with them those statements close (Props/C15IR: `*_fiat`).

  Method (proofs in SMGo/Proofs/CTIRRefineSL.lean, CTIRRefineFiat.lean): a mirror evaluator on natural numbers walks the IR
  body and builds for every variable the term of the let-chain, with a static word size; a proved simulation theorem
  (`mS_sound`, `run_of_mRet`) relates it to `exec`; that the mirror's result on symbolic limbs IS the generated function
  is one kernel conversion per primitive (`m_sm2Mul …` by `kernel_rfl`: the tactic closes `a = b` with `Eq.refl a` and
  leaves the conversion check to the kernel, as `decide +kernel` does; it adds no axiom).
  Axioms: propext, Classical.choice, Quot.sound.
-/
import SMGo.Proofs.CTIRRefineFiat
namespace SMGo.Props.C16IRFiat
open SMGo SMGo.Model.CTIR SMGo.Gen.CTIRProg SMGo.Proofs.CTIRRefineUtils
open SMGo.Proofs.CTIRRefineField (limbsV Out4 Computes)
open SMGo.Proofs.CTIRRefineFiat (fuelFiat)
variable {G : Nat → Val} {X : Oracle}

/-! ## coordinate field (modulus p): SMGo/Gen/FiatP.lean -/

/-- fiat.sm2CmovznzU64: the IR function computes `Gen.FiatP.sm2CmovznzU64` -/
theorem ir_sm2CmovznzU64_eq_gen (o c x y : Nat) (ho : o < 18446744073709551616) (hc : c < 18446744073709551616)
    (hx : x < 18446744073709551616) (hy : y < 18446744073709551616) :
    Computes prog G X f_fiat_sm2CmovznzU64 7 [.int (o : Int), .int (c : Int), .int (x : Int), .int (y : Int)]
      [.int ((Gen.FiatP.sm2CmovznzU64 c x y : Nat) : Int)] ∧ Gen.FiatP.sm2CmovznzU64 c x y < 18446744073709551616 :=
  SMGo.Proofs.CTIRRefineFiat.ir_sm2CmovznzU64_eq_gen o c x y ho hc hx hy

/-- fiat.sm2Selectznz: the IR function computes `Gen.FiatP.sm2Selectznz` -/
theorem ir_sm2Selectznz_eq_gen (o a b : List Nat) (c : Nat) (ho : Out4 o) (hc : c < 18446744073709551616) (ha : Out4 a)
    (hb : Out4 b) :
    Computes prog G X f_fiat_sm2Selectznz fuelFiat [limbsV o, .int (c : Int), limbsV a, limbsV b] [limbsV (Gen.FiatP.sm2Selectznz c a b)] ∧
      Out4 (Gen.FiatP.sm2Selectznz c a b) :=
  SMGo.Proofs.CTIRRefineFiat.ir_sm2Selectznz_eq_gen o a b c ho hc ha hb

/-- fiat.sm2SetOne: the IR function computes `Gen.FiatP.sm2SetOne` -/
theorem ir_sm2SetOne_eq_gen (o : List Nat) (ho : Out4 o) :
    Computes prog G X f_fiat_sm2SetOne fuelFiat [limbsV o] [limbsV (Gen.FiatP.sm2SetOne)] ∧ Out4 (Gen.FiatP.sm2SetOne) :=
  SMGo.Proofs.CTIRRefineFiat.ir_sm2SetOne_eq_gen o ho

/-- fiat.sm2Add: the IR function computes `Gen.FiatP.sm2Add` -/
theorem ir_sm2Add_eq_gen (o a b : List Nat) (ho : Out4 o) (ha : Out4 a) (hb : Out4 b) :
    Computes prog G X f_fiat_sm2Add fuelFiat [limbsV o, limbsV a, limbsV b] [limbsV (Gen.FiatP.sm2Add a b)] ∧ Out4 (Gen.FiatP.sm2Add a b) :=
  SMGo.Proofs.CTIRRefineFiat.ir_sm2Add_eq_gen o a b ho ha hb

/-- fiat.sm2Sub: the IR function computes `Gen.FiatP.sm2Sub` -/
theorem ir_sm2Sub_eq_gen (o a b : List Nat) (ho : Out4 o) (ha : Out4 a) (hb : Out4 b) :
    Computes prog G X f_fiat_sm2Sub fuelFiat [limbsV o, limbsV a, limbsV b] [limbsV (Gen.FiatP.sm2Sub a b)] ∧ Out4 (Gen.FiatP.sm2Sub a b) :=
  SMGo.Proofs.CTIRRefineFiat.ir_sm2Sub_eq_gen o a b ho ha hb

/-- fiat.sm2Opp: the IR function computes `Gen.FiatP.sm2Opp` -/
theorem ir_sm2Opp_eq_gen (o a : List Nat) (ho : Out4 o) (ha : Out4 a) :
    Computes prog G X f_fiat_sm2Opp fuelFiat [limbsV o, limbsV a] [limbsV (Gen.FiatP.sm2Opp a)] ∧ Out4 (Gen.FiatP.sm2Opp a) :=
  SMGo.Proofs.CTIRRefineFiat.ir_sm2Opp_eq_gen o a ho ha

/-- fiat.sm2Mul: the IR function computes `Gen.FiatP.sm2Mul` -/
theorem ir_sm2Mul_eq_gen (o a b : List Nat) (ho : Out4 o) (ha : Out4 a) (hb : Out4 b) :
    Computes prog G X f_fiat_sm2Mul fuelFiat [limbsV o, limbsV a, limbsV b] [limbsV (Gen.FiatP.sm2Mul a b)] ∧ Out4 (Gen.FiatP.sm2Mul a b) :=
  SMGo.Proofs.CTIRRefineFiat.ir_sm2Mul_eq_gen o a b ho ha hb

/-- fiat.sm2Square: the IR function computes `Gen.FiatP.sm2Square` -/
theorem ir_sm2Square_eq_gen (o a : List Nat) (ho : Out4 o) (ha : Out4 a) :
    Computes prog G X f_fiat_sm2Square fuelFiat [limbsV o, limbsV a] [limbsV (Gen.FiatP.sm2Square a)] ∧ Out4 (Gen.FiatP.sm2Square a) :=
  SMGo.Proofs.CTIRRefineFiat.ir_sm2Square_eq_gen o a ho ha

/-- fiat.sm2FromMontgomery: the IR function computes `Gen.FiatP.sm2FromMontgomery` -/
theorem ir_sm2FromMontgomery_eq_gen (o a : List Nat) (ho : Out4 o) (ha : Out4 a) :
    Computes prog G X f_fiat_sm2FromMontgomery fuelFiat [limbsV o, limbsV a] [limbsV (Gen.FiatP.sm2FromMontgomery a)] ∧ Out4 (Gen.FiatP.sm2FromMontgomery a) :=
  SMGo.Proofs.CTIRRefineFiat.ir_sm2FromMontgomery_eq_gen o a ho ha

/-- fiat.sm2ToMontgomery: the IR function computes `Gen.FiatP.sm2ToMontgomery` -/
theorem ir_sm2ToMontgomery_eq_gen (o a : List Nat) (ho : Out4 o) (ha : Out4 a) :
    Computes prog G X f_fiat_sm2ToMontgomery fuelFiat [limbsV o, limbsV a] [limbsV (Gen.FiatP.sm2ToMontgomery a)] ∧ Out4 (Gen.FiatP.sm2ToMontgomery a) :=
  SMGo.Proofs.CTIRRefineFiat.ir_sm2ToMontgomery_eq_gen o a ho ha

/-- fiat.sm2ToBytes: the IR function computes `Gen.FiatP.sm2ToBytes` -/
theorem ir_sm2ToBytes_eq_gen (o : Bytes) (a : List Nat) (ho : o.length = 32) (ha : Out4 a) :
    Computes prog G X f_fiat_sm2ToBytes fuelFiat [bytesV o, limbsV a] [bytesV ((Gen.FiatP.sm2ToBytes a).map UInt8.ofNat)] ∧
      ((Gen.FiatP.sm2ToBytes a).map UInt8.ofNat).length = 32 :=
  SMGo.Proofs.CTIRRefineFiat.ir_sm2ToBytes_eq_gen o a ho ha

/-- fiat.sm2FromBytes: the IR function computes `Gen.FiatP.sm2FromBytes` -/
theorem ir_sm2FromBytes_eq_gen (o : List Nat) (a : Bytes) (ho : Out4 o) (ha : a.length = 32) :
    Computes prog G X f_fiat_sm2FromBytes fuelFiat [limbsV o, bytesV a] [limbsV (Gen.FiatP.sm2FromBytes (a.map UInt8.toNat))] ∧
      Out4 (Gen.FiatP.sm2FromBytes (a.map UInt8.toNat)) :=
  SMGo.Proofs.CTIRRefineFiat.ir_sm2FromBytes_eq_gen o a ho ha

/-! ## scalar field (modulus n): SMGo/Gen/FiatN.lean -/

/-- fiat.sm2ScalarCmovznzU64: the IR function computes `Gen.FiatN.sm2ScalarCmovznzU64` -/
theorem ir_sm2ScalarCmovznzU64_eq_gen (o c x y : Nat) (ho : o < 18446744073709551616) (hc : c < 18446744073709551616)
    (hx : x < 18446744073709551616) (hy : y < 18446744073709551616) :
    Computes prog G X f_fiat_sm2ScalarCmovznzU64 7 [.int (o : Int), .int (c : Int), .int (x : Int), .int (y : Int)]
      [.int ((Gen.FiatN.sm2ScalarCmovznzU64 c x y : Nat) : Int)] ∧
      Gen.FiatN.sm2ScalarCmovznzU64 c x y < 18446744073709551616 :=
  SMGo.Proofs.CTIRRefineFiat.ir_sm2ScalarCmovznzU64_eq_gen o c x y ho hc hx hy

/-- fiat.sm2ScalarSelectznz: the IR function computes `Gen.FiatN.sm2ScalarSelectznz` -/
theorem ir_sm2ScalarSelectznz_eq_gen (o a b : List Nat) (c : Nat) (ho : Out4 o) (hc : c < 18446744073709551616) (ha : Out4 a)
    (hb : Out4 b) :
    Computes prog G X f_fiat_sm2ScalarSelectznz fuelFiat [limbsV o, .int (c : Int), limbsV a, limbsV b] [limbsV (Gen.FiatN.sm2ScalarSelectznz c a b)] ∧
      Out4 (Gen.FiatN.sm2ScalarSelectznz c a b) :=
  SMGo.Proofs.CTIRRefineFiat.ir_sm2ScalarSelectznz_eq_gen o a b c ho hc ha hb

/-- fiat.sm2ScalarSetOne: the IR function computes `Gen.FiatN.sm2ScalarSetOne` -/
theorem ir_sm2ScalarSetOne_eq_gen (o : List Nat) (ho : Out4 o) :
    Computes prog G X f_fiat_sm2ScalarSetOne fuelFiat [limbsV o] [limbsV (Gen.FiatN.sm2ScalarSetOne)] ∧ Out4 (Gen.FiatN.sm2ScalarSetOne) :=
  SMGo.Proofs.CTIRRefineFiat.ir_sm2ScalarSetOne_eq_gen o ho

/-- fiat.sm2ScalarAdd: the IR function computes `Gen.FiatN.sm2ScalarAdd` -/
theorem ir_sm2ScalarAdd_eq_gen (o a b : List Nat) (ho : Out4 o) (ha : Out4 a) (hb : Out4 b) :
    Computes prog G X f_fiat_sm2ScalarAdd fuelFiat [limbsV o, limbsV a, limbsV b] [limbsV (Gen.FiatN.sm2ScalarAdd a b)] ∧ Out4 (Gen.FiatN.sm2ScalarAdd a b) :=
  SMGo.Proofs.CTIRRefineFiat.ir_sm2ScalarAdd_eq_gen o a b ho ha hb

/-- fiat.sm2ScalarSub: the IR function computes `Gen.FiatN.sm2ScalarSub` -/
theorem ir_sm2ScalarSub_eq_gen (o a b : List Nat) (ho : Out4 o) (ha : Out4 a) (hb : Out4 b) :
    Computes prog G X f_fiat_sm2ScalarSub fuelFiat [limbsV o, limbsV a, limbsV b] [limbsV (Gen.FiatN.sm2ScalarSub a b)] ∧ Out4 (Gen.FiatN.sm2ScalarSub a b) :=
  SMGo.Proofs.CTIRRefineFiat.ir_sm2ScalarSub_eq_gen o a b ho ha hb

/-- fiat.sm2ScalarOpp: the IR function computes `Gen.FiatN.sm2ScalarOpp` -/
theorem ir_sm2ScalarOpp_eq_gen (o a : List Nat) (ho : Out4 o) (ha : Out4 a) :
    Computes prog G X f_fiat_sm2ScalarOpp fuelFiat [limbsV o, limbsV a] [limbsV (Gen.FiatN.sm2ScalarOpp a)] ∧ Out4 (Gen.FiatN.sm2ScalarOpp a) :=
  SMGo.Proofs.CTIRRefineFiat.ir_sm2ScalarOpp_eq_gen o a ho ha

/-- fiat.sm2ScalarMul: the IR function computes `Gen.FiatN.sm2ScalarMul` -/
theorem ir_sm2ScalarMul_eq_gen (o a b : List Nat) (ho : Out4 o) (ha : Out4 a) (hb : Out4 b) :
    Computes prog G X f_fiat_sm2ScalarMul fuelFiat [limbsV o, limbsV a, limbsV b] [limbsV (Gen.FiatN.sm2ScalarMul a b)] ∧ Out4 (Gen.FiatN.sm2ScalarMul a b) :=
  SMGo.Proofs.CTIRRefineFiat.ir_sm2ScalarMul_eq_gen o a b ho ha hb

/-- fiat.sm2ScalarSquare: the IR function computes `Gen.FiatN.sm2ScalarSquare` -/
theorem ir_sm2ScalarSquare_eq_gen (o a : List Nat) (ho : Out4 o) (ha : Out4 a) :
    Computes prog G X f_fiat_sm2ScalarSquare fuelFiat [limbsV o, limbsV a] [limbsV (Gen.FiatN.sm2ScalarSquare a)] ∧ Out4 (Gen.FiatN.sm2ScalarSquare a) :=
  SMGo.Proofs.CTIRRefineFiat.ir_sm2ScalarSquare_eq_gen o a ho ha

/-- fiat.sm2ScalarFromMontgomery: the IR function computes `Gen.FiatN.sm2ScalarFromMontgomery` -/
theorem ir_sm2ScalarFromMontgomery_eq_gen (o a : List Nat) (ho : Out4 o) (ha : Out4 a) :
    Computes prog G X f_fiat_sm2ScalarFromMontgomery fuelFiat [limbsV o, limbsV a] [limbsV (Gen.FiatN.sm2ScalarFromMontgomery a)] ∧ Out4 (Gen.FiatN.sm2ScalarFromMontgomery a) :=
  SMGo.Proofs.CTIRRefineFiat.ir_sm2ScalarFromMontgomery_eq_gen o a ho ha

/-- fiat.sm2ScalarToMontgomery: the IR function computes `Gen.FiatN.sm2ScalarToMontgomery` -/
theorem ir_sm2ScalarToMontgomery_eq_gen (o a : List Nat) (ho : Out4 o) (ha : Out4 a) :
    Computes prog G X f_fiat_sm2ScalarToMontgomery fuelFiat [limbsV o, limbsV a] [limbsV (Gen.FiatN.sm2ScalarToMontgomery a)] ∧ Out4 (Gen.FiatN.sm2ScalarToMontgomery a) :=
  SMGo.Proofs.CTIRRefineFiat.ir_sm2ScalarToMontgomery_eq_gen o a ho ha

/-- fiat.sm2ScalarToBytes: the IR function computes `Gen.FiatN.sm2ScalarToBytes` -/
theorem ir_sm2ScalarToBytes_eq_gen (o : Bytes) (a : List Nat) (ho : o.length = 32) (ha : Out4 a) :
    Computes prog G X f_fiat_sm2ScalarToBytes fuelFiat [bytesV o, limbsV a] [bytesV ((Gen.FiatN.sm2ScalarToBytes a).map UInt8.ofNat)] ∧
      ((Gen.FiatN.sm2ScalarToBytes a).map UInt8.ofNat).length = 32 :=
  SMGo.Proofs.CTIRRefineFiat.ir_sm2ScalarToBytes_eq_gen o a ho ha

/-- fiat.sm2ScalarFromBytes: the IR function computes `Gen.FiatN.sm2ScalarFromBytes` -/
theorem ir_sm2ScalarFromBytes_eq_gen (o : List Nat) (a : Bytes) (ho : Out4 o) (ha : a.length = 32) :
    Computes prog G X f_fiat_sm2ScalarFromBytes fuelFiat [limbsV o, bytesV a] [limbsV (Gen.FiatN.sm2ScalarFromBytes (a.map UInt8.toNat))] ∧
      Out4 (Gen.FiatN.sm2ScalarFromBytes (a.map UInt8.toNat)) :=
  SMGo.Proofs.CTIRRefineFiat.ir_sm2ScalarFromBytes_eq_gen o a ho ha

/-- run form, e.g. for the Montgomery multiplication: the completed run of the IR with any fuel ≥ 900 -/
theorem ir_sm2Mul_run (o a b : List Nat) (ho : Out4 o) (ha : Out4 a) (hb : Out4 b) :
    ∀ f, fuelFiat ≤ f → runV prog G X f f_fiat_sm2Mul [limbsV o, limbsV a, limbsV b] = .ret [limbsV (Gen.FiatP.sm2Mul a b)] :=
  (SMGo.Proofs.CTIRRefineFiat.ir_sm2Mul_eq_gen o a b ho ha hb).1.runV

theorem ir_sm2ScalarMul_run (o a b : List Nat) (ho : Out4 o) (ha : Out4 a) (hb : Out4 b) :
    ∀ f, fuelFiat ≤ f → runV prog G X f f_fiat_sm2ScalarMul [limbsV o, limbsV a, limbsV b] = .ret [limbsV (Gen.FiatN.sm2ScalarMul a b)] :=
  (SMGo.Proofs.CTIRRefineFiat.ir_sm2ScalarMul_eq_gen o a b ho ha hb).1.runV

#print axioms ir_sm2CmovznzU64_eq_gen
#print axioms ir_sm2Selectznz_eq_gen
#print axioms ir_sm2SetOne_eq_gen
#print axioms ir_sm2Add_eq_gen
#print axioms ir_sm2Sub_eq_gen
#print axioms ir_sm2Opp_eq_gen
#print axioms ir_sm2Mul_eq_gen
#print axioms ir_sm2Square_eq_gen
#print axioms ir_sm2FromMontgomery_eq_gen
#print axioms ir_sm2ToMontgomery_eq_gen
#print axioms ir_sm2ToBytes_eq_gen
#print axioms ir_sm2FromBytes_eq_gen
#print axioms ir_sm2ScalarCmovznzU64_eq_gen
#print axioms ir_sm2ScalarSelectznz_eq_gen
#print axioms ir_sm2ScalarSetOne_eq_gen
#print axioms ir_sm2ScalarAdd_eq_gen
#print axioms ir_sm2ScalarSub_eq_gen
#print axioms ir_sm2ScalarOpp_eq_gen
#print axioms ir_sm2ScalarMul_eq_gen
#print axioms ir_sm2ScalarSquare_eq_gen
#print axioms ir_sm2ScalarFromMontgomery_eq_gen
#print axioms ir_sm2ScalarToMontgomery_eq_gen
#print axioms ir_sm2ScalarToBytes_eq_gen
#print axioms ir_sm2ScalarFromBytes_eq_gen
#print axioms ir_sm2Mul_run
#print axioms ir_sm2ScalarMul_run

end SMGo.Props.C16IRFiat
