/-
  Property C20, refinement of the generated IR — the hand-written models of utils.ConstantTimeCmp and
  utils.DecomposeNAF (SMGo/Model/Utils.lean), which the functional theorems of SMGo/Props/C20.lean are about,
  are what the REGENERATED IR of the Go functions computes.  (Property theorems only; proofs in
  SMGo/Proofs/CTIRRefine*.lean.)

  Trust.  The meaning of the Go code is the CT-IR program produced by the translator (`ctir`:
  SMGo/Gen/CTIRProg.lean, `ctirfn`: SMGo/Gen/CTIRProgFn.lean) under the interpreter of SMGo/Model/CTIR.lean; the
  translation is validated by the differential runs of the harness (runners C08, C20IR: IR results vs
  the real functions).  For the functions below the hand-written model is then no longer trusted: it
  is proved equal to the run of the IR, for all inputs of the stated domain, with an explicit fuel
  and without any termination hypothesis.

  Encodings (stated explicitly):
    * a non-nil Go `[]byte` `a` is `bytesV a = .arr (a.map (fun x => .int x.toNat))`; a Go `[]int` is
      `intsV l = .arr (l.map .int)`; a Go `int` is `.int l` with l in the int64 range; a `bool` is 0 / 1;
    * results: `Ctl.ret [v…]` ↔ `Outcome.ok`; a Go RUN-TIME panic (index out of range) is a STUCK run
      of the IR for every fuel (`runV … = .stuck`, `run … = none`); an explicit `panic(…)` is `Ctl.panic`;
    * nil slices are not represented in the IR (the model's `none` arguments are outside).

  Disagreement found by the proof.  `Model.Utils.constantTimeCmp a b l` (and the specification
  `Spec.Utils.cmp`) treat every l ≤ 0 as "no iteration" (`l.toNat`).  In Go, and in the IR, `i := l - 1`
  WRAPS for l = math.MinInt64: i = MaxInt64 ≥ 0, and `a[i]` panics (confirmed on the real function:
  "index out of range [9223372036854775807]"; the IR run is stuck; the model answers `ok 0`).  Hence the
  hypothesis `-2^63 < l` below: the model is wrong at exactly that one argument value.
-/
import SMGo.Proofs.CTIRRefineUtils
namespace SMGo.Props.C20IR
open SMGo SMGo.Model.CTIR SMGo.Gen.CTIRProg SMGo.Proofs.CTIRRefineUtils

/-! ## utils.ConstantTimeCmp -/

/-- the IR run, decoded, IS the model: for all byte strings a, b, every Go `int` l except MinInt64,
    every fuel ≥ `fuelCmp l = 11 · max(l, 0) + 40`; any globals, any external world -/
theorem ir_constantTimeCmp_eq_model (G : Nat → Val) (X : Oracle) (a b : Bytes) (l : Int)
    (hl1 : -9223372036854775808 < l) (hl2 : l < 9223372036854775808) (f : Nat) (hf : fuelCmp l ≤ f) :
    outcomeInt (runV prog G X f f_utils_ConstantTimeCmp [bytesV a, bytesV b, .int l])
      = Model.Utils.constantTimeCmp (some a) (some b) l :=
  SMGo.Proofs.CTIRRefineUtils.ir_constantTimeCmp_eq_model a b l hl1 hl2 f hf

/-- in terms of `run`: the model's result is the returned value of a completed run -/
theorem ir_constantTimeCmp_ok (G : Nat → Val) (X : Oracle) (a b : Bytes) (l r : Int)
    (hl1 : -9223372036854775808 < l) (hl2 : l < 9223372036854775808)
    (h : Model.Utils.constantTimeCmp (some a) (some b) l = .ok r) (f : Nat) (hf : fuelCmp l ≤ f) :
    ∃ t, run prog G X f f_utils_ConstantTimeCmp [bytesV a, bytesV b, .int l] = some (.ret [.int r], t) :=
  run_of_runV prog G X f _ _ _ (ir_cmp_ok a b l hl1 hl2 r h f hf)

/-- the model panics (l exceeds a length) ⇒ no run of the IR completes, whatever the fuel -/
theorem ir_constantTimeCmp_panic (G : Nat → Val) (X : Oracle) (a b : Bytes) (l : Int)
    (hl1 : -9223372036854775808 < l) (hl2 : l < 9223372036854775808)
    (h : Model.Utils.constantTimeCmp (some a) (some b) l = .panic) (f : Nat) :
    runV prog G X f f_utils_ConstantTimeCmp [bytesV a, bytesV b, .int l] = .stuck :=
  ir_cmp_panic a b l hl1 hl2 h f

/-- the fuel, explicitly -/
theorem fuelCmp_eq (l : Int) : fuelCmp l = 11 * l.toNat + 40 := rfl

/-- the excluded argument: the model says `ok 0` where Go (and the IR) index out of range -/
example : Model.Utils.constantTimeCmp (some [1]) (some [2]) (-9223372036854775808) = .ok 0 := by decide
example : (match runV prog (fun _ => .int 0) (fun _ _ => []) 1000 f_utils_ConstantTimeCmp
    [bytesV [1], bytesV [2], .int (-9223372036854775808)] with | .stuck => true | _ => false) = true := by decide +kernel

#print axioms ir_constantTimeCmp_eq_model
#print axioms ir_constantTimeCmp_ok
#print axioms ir_constantTimeCmp_panic

end SMGo.Props.C20IR
