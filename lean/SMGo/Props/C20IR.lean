/-
  Property C20, refinement of the generated IR — the hand-written models of utils.ConstantTimeCmp and
  utils.DecomposeNAF (SMGo/Model/Utils.lean), which the functional theorems of SMGo/Props/C20.lean are about,
  are what the REGENERATED IR of the Go functions computes.  (Property theorems only; proofs in
  SMGo/Proofs/CTIRRefine*.lean.)

  Trust.  The meaning of the Go code is the CT-IR program produced by the translator (`ctir`:
  SMGo/Gen/CTIRProg.lean, `ctirfn`: SMGo/Gen/CTIRProgFn.lean) under the interpreter of SMGo/Model/CTIR.lean; the
  translation is validated by the differential runs of the harness (runners C08, C20IR: IR results vs
  the real functions).  For the functions below the hand-written model is then no longer trusted: it
  is proved equal to the run of the IR, for all inputs of the stated domain, with an explicit fuel
  and without any termination hypothesis.

  Encodings (stated explicitly):
    * a non-nil Go `[]byte` `a` is `bytesV a = .arr (a.map (fun x => .int x.toNat))`; a Go `[]int` is
      `intsV l = .arr (l.map .int)`; a Go `int` is `.int l` with l in the int64 range; a `bool` is 0 / 1;
    * results: `Ctl.ret [v…]` ↔ `Outcome.ok`; a Go RUN-TIME panic (index out of range) is a STUCK run
      of the IR for every fuel (`runV … = .stuck`, `run … = none`); an explicit `panic(…)` is `Ctl.panic`;
    * nil slices are not represented in the IR (the model's `none` arguments are outside).

  Disagreement found by the proof.  `Model.Utils.constantTimeCmp a b l` (and the specification
  `Spec.Utils.cmp`) treat every l ≤ 0 as "no iteration" (`l.toNat`).  In Go, and in the IR, `i := l - 1`
  WRAPS for l = math.MinInt64: i = MaxInt64 ≥ 0, and `a[i]` panics (confirmed on the real function:
  "index out of range [9223372036854775807]"; the IR run is stuck; the model answers `ok 0`).  Hence the
  hypothesis `-2^63 < l` below: the model is wrong at exactly that one argument value.
-/
import SMGo.Proofs.CTIRRefineUtils
import SMGo.Proofs.CTIRRefineNaf
namespace SMGo.Props.C20IR
open SMGo SMGo.Model.CTIR SMGo.Gen.CTIRProg SMGo.Proofs.CTIRRefineUtils

/-! ## utils.ConstantTimeCmp -/

/-- the IR run, decoded, IS the model: for all byte strings a, b, every Go `int` l except MinInt64,
    every fuel ≥ `fuelCmp l = 11 · max(l, 0) + 40`; any globals, any external world -/
theorem ir_constantTimeCmp_eq_model (G : Nat → Val) (X : Oracle) (a b : Bytes) (l : Int)
    (hl1 : -9223372036854775808 < l) (hl2 : l < 9223372036854775808) (f : Nat) (hf : fuelCmp l ≤ f) :
    outcomeInt (runV prog G X f f_utils_ConstantTimeCmp [bytesV a, bytesV b, .int l])
      = Model.Utils.constantTimeCmp (some a) (some b) l :=
  SMGo.Proofs.CTIRRefineUtils.ir_constantTimeCmp_eq_model a b l hl1 hl2 f hf

/-- in terms of `run`: the model's result is the returned value of a completed run -/
theorem ir_constantTimeCmp_ok (G : Nat → Val) (X : Oracle) (a b : Bytes) (l r : Int)
    (hl1 : -9223372036854775808 < l) (hl2 : l < 9223372036854775808)
    (h : Model.Utils.constantTimeCmp (some a) (some b) l = .ok r) (f : Nat) (hf : fuelCmp l ≤ f) :
    ∃ t, run prog G X f f_utils_ConstantTimeCmp [bytesV a, bytesV b, .int l] = some (.ret [.int r], t) :=
  run_of_runV prog G X f _ _ _ (ir_cmp_ok a b l hl1 hl2 r h f hf)

/-- the model panics (l exceeds a length) ⇒ no run of the IR completes, whatever the fuel -/
theorem ir_constantTimeCmp_panic (G : Nat → Val) (X : Oracle) (a b : Bytes) (l : Int)
    (hl1 : -9223372036854775808 < l) (hl2 : l < 9223372036854775808)
    (h : Model.Utils.constantTimeCmp (some a) (some b) l = .panic) (f : Nat) :
    runV prog G X f f_utils_ConstantTimeCmp [bytesV a, bytesV b, .int l] = .stuck :=
  ir_cmp_panic a b l hl1 hl2 h f

/-- the fuel, explicitly -/
theorem fuelCmp_eq (l : Int) : fuelCmp l = 11 * l.toNat + 40 := rfl

/-- the excluded argument: the model says `ok 0` where Go (and the IR) index out of range -/
example : Model.Utils.constantTimeCmp (some [1]) (some [2]) (-9223372036854775808) = .ok 0 := by decide
example : (match runV prog (fun _ => .int 0) (fun _ _ => []) 1000 f_utils_ConstantTimeCmp
    [bytesV [1], bytesV [2], .int (-9223372036854775808)] with | .stuck => true | _ => false) = true := by decide +kernel

#print axioms ir_constantTimeCmp_eq_model
#print axioms ir_constantTimeCmp_ok
#print axioms ir_constantTimeCmp_panic

end SMGo.Props.C20IR

namespace SMGo.Props.C20IR
open SMGo SMGo.Model.CTIR SMGo.Gen.CTIRProgFn SMGo.Proofs.CTIRRefineUtils SMGo.Proofs.CTIRRefineNaf
variable {G : Nat → Val} {X : Oracle}

/-! ## utils.DecomposeNAF, getBit, getBits (program SMGo/Gen/CTIRProgFn.lean, sub-command `ctirfn`)

  `out : []int` is `intsV out`, a bool is `boolV`.  Hypotheses: `-2^63 < n` (the model is wrong at
  n = math.MinInt64: `naf_minInt64_disagree` — `n-1` wraps, Go and the IR enter the loop and index `s`
  out of range, the model returns `out` unchanged) and `n + 6 < 2^63` (or `len(s) < 2^60`: the increments
  `outIdx += w; outIdx++` cannot wrap).  Nothing is assumed about `out`, `s` or `w`.  Fuel `70·max(n,0) + 20`.
  getBits is proved for 0 ≤ w ≤ 61 (DecomposeNAF uses 1..7; at w = math.MaxInt64 `w+1` is a negative shift
  count: Go panics, the IR is stuck, the Nat-typed model returns a value; 62 ≤ w is not proved). -/

/-- DecomposeNAF: the decoded run of the IR IS the model -/
theorem ir_decomposeNAF_eq_model (out : List Int) (s : Bytes) (n w : Int)
    (hn1 : -9223372036854775808 < n) (hn2 : n + 6 < 9223372036854775808) (f : Nat) (hf : fuelNaf n ≤ f) :
    outcomeInts (runV prog G X f f_utils_DecomposeNAF [intsV out, bytesV s, .int n, .int w])
      = Model.Utils.decomposeNAF (some out) (some s) n w :=
  SMGo.Proofs.CTIRRefineNaf.ir_decomposeNAF_eq_model out s n w hn1 hn2 f hf

/-- … under the weakest hypotheses proved -/
theorem ir_decomposeNAF_eq_model' (out : List Int) (s : Bytes) (n w : Int)
    (hn1 : -9223372036854775808 < n) (hn2 : n < 9223372036854775808)
    (hs : n + 6 < 9223372036854775808 ∨ s.length < 1152921504606846976) (f : Nat) (hf : fuelNaf n ≤ f) :
    outcomeInts (runV prog G X f f_utils_DecomposeNAF [intsV out, bytesV s, .int n, .int w])
      = Model.Utils.decomposeNAF (some out) (some s) n w :=
  SMGo.Proofs.CTIRRefineNaf.ir_decomposeNAF_eq_model' out s n w hn1 hn2 hs f hf

theorem ir_naf_ok (out : List Int) (s : Bytes) (n w : Int)
    (hn1 : -9223372036854775808 < n) (hn2 : n + 6 < 9223372036854775808) (r : List Int)
    (h : Model.Utils.decomposeNAF (some out) (some s) n w = .ok r) :
    ∀ f, fuelNaf n ≤ f →
      runV prog G X f f_utils_DecomposeNAF [intsV out, bytesV s, .int n, .int w] = .ret [intsV r] :=
  SMGo.Proofs.CTIRRefineNaf.ir_naf_ok out s n w hn1 hn2 r h

/-- an index out of range (`out` too short, `s` too short): stuck with every fuel -/
theorem ir_naf_stuck (out : List Int) (s : Bytes) (n w : Int)
    (hn1 : -9223372036854775808 < n) (hn2 : n + 6 < 9223372036854775808) (hw : ¬ (w ≤ 0 ∨ w > 7))
    (h : Model.Utils.decomposeNAF (some out) (some s) n w = .panic) :
    ∀ f, runV prog G X f f_utils_DecomposeNAF [intsV out, bytesV s, .int n, .int w] = .stuck :=
  SMGo.Proofs.CTIRRefineNaf.ir_naf_stuck out s n w hn1 hn2 hw h

/-- the explicit panic("nil or invalid parameters") -/
theorem ir_naf_panic (out : List Int) (s : Bytes) (n w : Int) (hw : w ≤ 0 ∨ w > 7) :
    ∀ f, 3 ≤ f → runV prog G X f f_utils_DecomposeNAF [intsV out, bytesV s, .int n, .int w] = .panic :=
  SMGo.Proofs.CTIRRefineNaf.ir_naf_panic out s n w hw

/-- the excluded argument n = math.MinInt64 -/
theorem ir_naf_minInt64_disagree (out : List Int) (s : Bytes) (w : Nat) (hw1 : 1 ≤ w) (hw7 : w ≤ 7)
    (hs : s.length < 1152921504606846976) :
    Model.Utils.decomposeNAF (some out) (some s) (-9223372036854775808) (w : Int) = .ok out ∧
      ∀ f, runV prog G X f f_utils_DecomposeNAF [intsV out, bytesV s, .int (-9223372036854775808), .int (w : Int)]
        = .stuck :=
  SMGo.Proofs.CTIRRefineNaf.ir_naf_minInt64_disagree out s w hw1 hw7 hs

theorem ir_getBit_ok (s : Bytes) (idx : Nat) (carry : Bool) (hidx : idx < 9223372036854775808)
    (bit : Nat) (c' : Bool) (h : Model.Utils.getBit s idx carry = .ok (bit, c')) :
    ∀ f, fuelBit ≤ f → runV prog G X f f_utils_getBit [bytesV s, .int (idx : Int), boolV carry]
      = .ret [.int (bit : Int), boolV c'] :=
  SMGo.Proofs.CTIRRefineNaf.ir_getBit_ok s idx carry hidx bit c' h

theorem ir_getBit_panic (s : Bytes) (idx : Nat) (carry : Bool) (hidx : idx < 9223372036854775808)
    (h : Model.Utils.getBit s idx carry = .panic) :
    ∀ f, runV prog G X f f_utils_getBit [bytesV s, .int (idx : Int), boolV carry] = .stuck :=
  SMGo.Proofs.CTIRRefineNaf.ir_getBit_panic s idx carry hidx h

theorem ir_getBits_ok (s : Bytes) (idx w : Nat) (hidx : idx < 9223372036854775808) (hw : w ≤ 61)
    (d : Nat) (h : Model.Utils.getBits s idx w = .ok d) :
    ∀ f, fuelBit ≤ f → runV prog G X f f_utils_getBits [bytesV s, .int (idx : Int), .int (w : Int)]
      = .ret [.int (d : Int)] :=
  SMGo.Proofs.CTIRRefineNaf.ir_getBits_ok s idx w hidx hw d h

theorem ir_getBits_panic (s : Bytes) (idx w : Nat) (hidx : idx < 9223372036854775808) (hw : w ≤ 61)
    (h : Model.Utils.getBits s idx w = .panic) :
    ∀ f, runV prog G X f f_utils_getBits [bytesV s, .int (idx : Int), .int (w : Int)] = .stuck :=
  SMGo.Proofs.CTIRRefineNaf.ir_getBits_panic s idx w hidx hw h

theorem fuelNaf_eq (n : Int) : SMGo.Proofs.CTIRRefineNaf.fuelNaf n = 70 * n.toNat + 20 := rfl

#print axioms ir_decomposeNAF_eq_model
#print axioms ir_naf_minInt64_disagree

end SMGo.Props.C20IR
