/-
  Property C19 — a failing, ending or short-reading randomness source.
  (Property theorems only; lemmas live in SMGo/Proofs/SM2Reader.lean, SM2ReaderSign.lean, SM2Key.lean.)

  "If the randomness source returns an error or ends at any point while a key or a signature is being
   generated - before the first draw, in the middle of a 32-byte draw, or after any number of rejected
   candidates - the call returns a non-nil error and no public key or signature, and it never proceeds
   with a partially filled nonce or key.  Short reads without error are completed by further reads, and
   a nil source is reported as an error by key generation."

  Objects.  `Model.SM2.readFull` is the model of `io.ReadFull(rand, buf[0:32])` over a scripted reader:
  a script is a list of Read events (`.data b`: bytes available, a Read takes a prefix; `.zero`: a Read
  returning (0, nil); `.fail`: a Read returning an error; end of script: EOF).  `Model.SM2.generateKey`
  and `Model.SM2.signHashed` are the models of `GenerateKey` and `SignHashed` (executed against the Go
  code by the harness).  `Spec.SM2.candidates sc []` is the list of complete 32-byte strings the script
  delivers before its first failure or its end.  An `Outcome` is a value (`.ok`), a returned error
  (`.err`: a non-nil error is returned; the outcome carries no payload) or a panic.  In the Go code every
  error path returns nil for the PUBLIC results (x, y of GenerateKey; r, s of the signers), so "`= .err`"
  says "non-nil error and no public key / no signature".  It does NOT say that `priv` is nil: GenerateKey
  allocates `priv = make([]byte, 32)` before the loop and its bare `return` hands that work buffer back with
  the error (holding the last candidate read, possibly a rejected one or a partial read) — visible in the
  harness only, not in these statements.

  The key-generation statements need `X.n = Spec.SM2.n` (or `CurveFacts X` where the scalar
  multiplication is reached); the reader statements need nothing.
-/
import SMGo.Model.SM2Inst
import SMGo.Proofs.SM2Facts
import SMGo.Proofs.SM2Reader
import SMGo.Proofs.SM2ReaderSign
import SMGo.Proofs.SM2Key
namespace SMGo.Props.C19
open SMGo SMGo.Model SMGo.Model.SM2 SMGo.Proofs.SM2Facts
open SMGo.Spec.SM2 (candidates firstValid validKey)
open SMGo.Proofs.SM2Reader (dataBefore chunks tail32)
open SMGo.Proofs.SM2ReaderSign (signStep signOver)

variable {α β : Type}

/-! ### (i) one `io.ReadFull` of 32 bytes -/

/-- `readFull_spec`.  A successful draw returns the next complete candidate of the stream: 32 bytes
    (never a partially filled buffer), namely the first 32 bytes the script delivers, 32 bytes of the
    stream are consumed, and the remaining script delivers the remaining candidates.
    An unsuccessful draw happens exactly when fewer than 32 bytes come before the first failure or
    the end of the stream: there is no further candidate, and the bytes read so far are dropped. -/
theorem readFull_spec (sc : Script) :
    (∀ K sc', readFull sc 32 [] = (some K, sc') →
      candidates sc [] = K :: candidates sc' [] ∧ K.length = 32 ∧ avail sc - avail sc' = 32 ∧
      avail sc' ≤ avail sc ∧ K = (dataBefore sc).take 32) ∧
    (∀ sc', readFull sc 32 [] = (none, sc') → candidates sc [] = [] ∧ (dataBefore sc).length < 32) :=
  Proofs.SM2Reader.readFull_spec sc

/-- failure before the first byte, at the end of the stream, and in the middle of a draw -/
theorem readFull_fails (r : Script) (b : Bytes) (hb : b.length < 32) :
    (readFull (.fail :: r) 32 []).1 = none ∧ (readFull [] 32 []).1 = none ∧
    (readFull (.data b :: .fail :: r) 32 []).1 = none ∧ (readFull [.data b] 32 []).1 = none := by
  refine ⟨rfl, rfl, Proofs.SM2Reader.readFull_fail_middle b hb r, ?_⟩
  have : ¬ b.length ≥ 32 := by omega
  simp [readFull, this]

/-- a short read without error (and an empty read) is completed by further reads -/
theorem readFull_short_reads (b₁ b₂ : Bytes) (h : (b₁ ++ b₂).length = 32) (h1 : b₁.length < 32) (r : Script) :
    readFull (.data b₁ :: .zero :: .data b₂ :: r) 32 [] = (some (b₁ ++ b₂), r) :=
  Proofs.SM2Reader.readFull_short_reads b₁ b₂ h h1 r

/-! ### (ii) the candidates do not depend on how the stream is cut into Reads -/

/-- the candidates are the complete 32-byte pieces of the bytes delivered before the first failure -/
theorem candidates_eq_chunks (sc : Script) : candidates sc [] = chunks (dataBefore sc) :=
  Proofs.SM2Reader.candidates_nil_eq_chunks sc

/-- what `chunks` / `tail32` are: 32-byte pieces, in order, nothing lost: pieces ++ rest = input, rest < 32 bytes -/
theorem chunks_spec (x : Bytes) :
    (∀ c ∈ chunks x, c.length = 32) ∧ (chunks x).flatten ++ tail32 x = x ∧ (tail32 x).length < 32 ∧
    (chunks x).length = x.length / 32 :=
  ⟨Proofs.SM2Reader.chunks_length_eq x, Proofs.SM2Reader.chunks_flatten x,
   Proofs.SM2Reader.tail32_length_lt x, Proofs.SM2Reader.chunks_count x⟩

/-- two scripts that deliver the same bytes before failing — however split into Reads, with whatever
    empty Reads in between, and whatever they do after the first failure — give the same candidates -/
theorem candidates_congr (sc₁ sc₂ : Script) (h : dataBefore sc₁ = dataBefore sc₂) :
    candidates sc₁ [] = candidates sc₂ [] :=
  Proofs.SM2Reader.candidates_congr sc₁ sc₂ h

/-- … the same as a single Read delivering all of it -/
theorem candidates_concat (sc : Script) : candidates sc [] = candidates [.data (dataBefore sc)] [] :=
  Proofs.SM2Reader.candidates_concat sc

/-- splitting a Read in two with an empty Read in between changes nothing; neither does what follows a failure -/
theorem candidates_split (b₁ b₂ : Bytes) (r : Script) :
    candidates (.data (b₁ ++ b₂) :: r) [] = candidates (.data b₁ :: .zero :: .data b₂ :: r) [] :=
  candidates_congr _ _ (Proofs.SM2Reader.dataBefore_split b₁ b₂ r)

theorem candidates_after_failure (pre r₁ r₂ : Script) :
    candidates (pre ++ .fail :: r₁) [] = candidates (pre ++ .fail :: r₂) [] := by
  apply candidates_congr
  induction pre with
  | nil => rfl
  | cons it p ih => cases it <;> simp [dataBefore, ih]

/-- every candidate is a full 32-byte string -/
theorem candidates_all_32 (sc : Script) : ∀ K ∈ candidates sc [], K.length = 32 :=
  Proofs.SM2Reader.candidates_all_32 sc

/-! ### (iii) key generation -/

/-- a nil source is reported as an error -/
theorem genKey_nil_reader (X : Ctx α β) : generateKey X none = .err := rfl

/-- `genKey_error`: whenever the stream fails or ends before delivering a complete candidate that is
    a valid key — before the first draw, in the middle of a draw, or after any number of rejected
    candidates — `GenerateKey` returns an error (and therefore no key), whatever the script does
    afterwards.  (Only `X.n = n` is used: the scalar multiplication is not reached.) -/
theorem genKey_error (X : Ctx α β) (hn : X.n = Spec.SM2.n) (sc : Script)
    (h : ∀ K ∈ candidates sc [], validKey (Bytes.toNatBE K) = false) :
    generateKey X (some sc) = .err :=
  Proofs.SM2Key.generateKey_err_of_no_valid X hn sc h

/-- `genKey_error_iff`: the error cases of `GenerateKey` are exactly those of the specification
    (`Spec.SM2.genKey`: no valid candidate in `candidates sc []`, or a nil reader), and it never panics -/
theorem genKey_error_iff (X : Ctx α β) (F : CurveFacts X) (sc : Option Script) :
    (generateKey X sc = .err ↔ Spec.SM2.genKey sc = none) ∧ generateKey X sc ≠ .panic := by
  refine ⟨?_, Proofs.SM2Key.generateKey_ne_panic X F sc⟩
  rw [Proofs.SM2Key.generateKey_spec X F sc]
  cases Spec.SM2.genKey sc with
  | none => simp
  | some r => obtain ⟨d, x, y, c⟩ := r; simp

/-- when a key is returned, it is a complete candidate of the stream (32 bytes, at position j, all
    earlier candidates rejected as invalid), it is valid, and 32·(j+1) bytes were consumed:
    the call never proceeds with a partially filled key -/
theorem genKey_ok_complete (X : Ctx α β) (F : CurveFacts X) (sc : Script) (d x y : Bytes) (c : Nat)
    (h : generateKey X (some sc) = .ok ((d, x, y), c)) :
    ∃ j, (candidates sc [])[j]? = some d ∧ d.length = 32 ∧ validKey (Bytes.toNatBE d) = true ∧
      (∀ i, i < j → ∀ K, (candidates sc [])[i]? = some K → validKey (Bytes.toNatBE K) = false) ∧
      c = 32 * (j + 1) := by
  rw [Proofs.SM2Key.generateKey_spec X F (some sc)] at h
  simp only [Spec.SM2.genKey] at h
  cases h0 : firstValid (candidates sc []) 0 with
  | none => simp [h0] at h
  | some p =>
    obtain ⟨d', j⟩ := p
    obtain ⟨_, h2, h3, h4⟩ := Proofs.SM2Key.firstValid_some _ 0 d' j h0
    have hd : d'.length = 32 := candidates_all_32 sc d' (Proofs.SM2Key.firstValid_mem _ _ _ _ h0)
    rw [h0] at h
    cases hQ : Spec.SM2.smul (Bytes.toNatBE d') Spec.SM2.G with
    | none => simp [hQ] at h
    | some q =>
      obtain ⟨qx, qy⟩ := q
      simp only [hQ, Outcome.ok.injEq, Prod.mk.injEq] at h
      obtain ⟨⟨rfl, _, _⟩, rfl⟩ := h
      exact ⟨j, by simpa using h2, hd, h3, by simpa using h4, rfl⟩

/-! ### (iv) signing -/

/-- `SignHashed` sees the script only through its complete 32-byte candidates: it is the key test
    followed by the loop body `signStep` (one complete draw: `none` = draw again) applied to the
    candidates in order; when they are exhausted the result is an error; 32 bytes are consumed per
    candidate tried -/
theorem signHashed_candidates (X : Ctx α β) (sc : Script) (priv e : Bytes) :
    signHashed X sc priv e =
      (testPrivateKey X priv >>= fun test =>
        if test ≠ 0 then .err else
        signOver X priv e (candidates sc []) 0 >>= fun p => pure (p.1, 32 * (p.2 + 1))) :=
  Proofs.SM2ReaderSign.signHashed_eq_signOver X sc priv e

/-- the loop over the candidates (spelled out): the first candidate that is not rejected decides;
    no candidate left = error -/
theorem signOver_eq (X : Ctx α β) (priv e : Bytes) (j : Nat) :
    signOver X priv e [] j = .err ∧
    ∀ K ks, signOver X priv e (K :: ks) j =
      match signStep X priv e K with
      | none => signOver X priv e ks (j + 1)
      | some (.ok rs) => .ok (rs, j)
      | some .err => .err
      | some .panic => .panic :=
  ⟨rfl, fun _ _ => rfl⟩

/-- the stream fails or ends — before the first draw, inside a draw, or after any number of rejected
    nonces — before an accepted nonce: an error and no signature -/
theorem sign_error (X : Ctx α β) (hn : X.n = Spec.SM2.n) (sc : Script) (priv e : Bytes)
    (h : ∀ K ∈ candidates sc [], signStep X priv e K = none) : signHashed X sc priv e = .err :=
  Proofs.SM2ReaderSign.signHashed_err_of_exhausted X hn sc priv e h

/-- in particular when not even one complete draw is delivered -/
theorem sign_error_no_candidate (X : Ctx α β) (hn : X.n = Spec.SM2.n) (sc : Script) (priv e : Bytes)
    (h : (dataBefore sc).length < 32) : signHashed X sc priv e = .err := by
  apply sign_error X hn
  rw [candidates_eq_chunks, Proofs.SM2Reader.chunks_of_lt h]
  simp

/-- out-of-range draws (0, or ≥ n) are among the rejected ones, so a stream of such draws followed
    by a failure gives an error -/
theorem signStep_out_of_range (X : Ctx α β) (hn : X.n = Spec.SM2.n) (priv e K : Bytes) (hK : K.length = 32)
    (h : Bytes.toNatBE K = 0 ∨ Spec.SM2.n ≤ Bytes.toNatBE K) : signStep X priv e K = none :=
  Proofs.SM2ReaderSign.signStep_out_of_range X hn priv e K hK h

/-- short reads: scripts delivering the same bytes sign identically (same signature, same consumption) -/
theorem signHashed_congr (X : Ctx α β) (sc₁ sc₂ : Script) (priv e : Bytes)
    (h : dataBefore sc₁ = dataBefore sc₂) : signHashed X sc₁ priv e = signHashed X sc₂ priv e :=
  Proofs.SM2ReaderSign.signHashed_congr X sc₁ sc₂ priv e h

/-- the model's loop, for any iteration bound, returns an error when all candidates are rejected -/
theorem signLoop_error (X : Ctx α β) (priv e : Bytes) (f : Nat) (sc : Script)
    (h : ∀ K ∈ candidates sc [], signStep X priv e K = none) : signLoop X priv e f sc = .err :=
  Proofs.SM2ReaderSign.signLoop_err_of_exhausted X priv e f sc h

/-! ### non-vacuity: the regenerated instance and concrete scripts -/

/-- the hypothesis `X.n = n` holds for the instance built from the regenerated parameters -/
theorem ctx_n : Model.SM2.ctx.n = Spec.SM2.n := by decide

/-- 31 bytes, then a failure, then plenty of good bytes: error (by the theorem, not by evaluation) -/
example : generateKey ctx (some [.data (List.replicate 31 1), .fail, .data (List.replicate 64 1)]) = .err :=
  genKey_error ctx ctx_n _ (by decide)

/-- two rejected candidates (all-ones ≥ n-1, zero) inside one Read, then 5 bytes, then EOF: error -/
example : generateKey ctx (some [.data (List.replicate 32 255 ++ List.replicate 32 0 ++ [1, 2, 3, 4, 5])]) = .err :=
  genKey_error ctx ctx_n _ (by decide)

example : signHashed ctx [.data (List.replicate 20 9), .zero, .data (List.replicate 11 9), .fail, .data (List.replicate 32 9)]
    (List.replicate 32 1) (List.replicate 32 2) = .err :=
  sign_error_no_candidate ctx ctx_n _ _ _ (by decide)

/-- rejected nonces (≥ n, then 0) followed by the end of the stream -/
example : signHashed ctx [.data (List.replicate 32 255), .data (List.replicate 32 0), .data [7]]
    (List.replicate 32 1) (List.replicate 32 2) = .err := by
  apply sign_error ctx ctx_n
  intro K hK
  have hc : candidates [.data (List.replicate 32 255), .data (List.replicate 32 0), .data [7]] []
      = [List.replicate 32 255, List.replicate 32 0] := by decide
  rw [hc] at hK
  simp only [List.mem_cons, List.not_mem_nil, or_false] at hK
  rcases hK with rfl | rfl
  · exact signStep_out_of_range ctx ctx_n _ _ _ (by decide) (Or.inr (by decide))
  · exact signStep_out_of_range ctx ctx_n _ _ _ (by decide) (Or.inl (by decide))

/-- the hypotheses of `readFull_spec`'s two halves are both realised -/
example : readFull [.data (List.replicate 40 3)] 32 [] = (some (List.replicate 32 3), [.data (List.replicate 8 3)]) := by
  decide
example : readFull [.data (List.replicate 10 3), .zero, .fail, .data [1]] 32 [] = (none, [.data [1]]) := by decide

/-- candidates of a stream cut in odd places -/
example : candidates [.data (List.replicate 10 1), .zero, .data (List.replicate 60 1), .data (List.replicate 3 1), .fail,
    .data (List.replicate 100 1)] [] = [List.replicate 32 1, List.replicate 32 1] := by decide

end SMGo.Props.C19

#print axioms SMGo.Props.C19.readFull_spec
#print axioms SMGo.Props.C19.readFull_fails
#print axioms SMGo.Props.C19.readFull_short_reads
#print axioms SMGo.Props.C19.candidates_eq_chunks
#print axioms SMGo.Props.C19.chunks_spec
#print axioms SMGo.Props.C19.candidates_congr
#print axioms SMGo.Props.C19.candidates_concat
#print axioms SMGo.Props.C19.candidates_split
#print axioms SMGo.Props.C19.candidates_after_failure
#print axioms SMGo.Props.C19.candidates_all_32
#print axioms SMGo.Props.C19.genKey_nil_reader
#print axioms SMGo.Props.C19.genKey_error
#print axioms SMGo.Props.C19.genKey_error_iff
#print axioms SMGo.Props.C19.genKey_ok_complete
#print axioms SMGo.Props.C19.signHashed_candidates
#print axioms SMGo.Props.C19.signOver_eq
#print axioms SMGo.Props.C19.sign_error
#print axioms SMGo.Props.C19.sign_error_no_candidate
#print axioms SMGo.Props.C19.signStep_out_of_range
#print axioms SMGo.Props.C19.signHashed_congr
#print axioms SMGo.Props.C19.signLoop_error
#print axioms SMGo.Props.C19.ctx_n
