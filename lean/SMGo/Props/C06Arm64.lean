/-
  C06 / C07 support, arm64 part: the leaf routines of sm4/gcm_arm64.s that the Go glue sm4/sm4_gcm_arm64.go calls —
  `gHashBlocks` (GHASH with PMULL / PMULL2 Karatsuba products and two folding steps with 0x87; one block at a time
  below 8 blocks, otherwise H², H³, H⁴ and four blocks at a time, then 3 / 2 / 1 / 0 blocks) and
  `xor256 / xor128 / xor64 / xor32 / xor16` — tied to SP 800-38D and to the bytewise XOR BY THEOREM over the
  regenerated listings `SMGo.Gen.ListArm64Gcm.*` (with the operand specifiers of `SMGo.Gen.ListArm64GcmArr.*`).

  TRUSTED AND NOT VALIDATED: the listings are run by SMGo/Model/ISAValArm64.lean, a hand transcription of the Arm
  Architecture Reference Manual (here: PMULL, PMULL2, RBIT, EXT, EOR, DUP, LD1 / ST1 with 1–4 registers, CMP, B, B.LT,
  B.GT, B.EQ, SUB, MOVZ) and of the Go assembler's operand order.  The verification sandbox is an amd64 machine with
  no arm64 emulator: arm64 code CANNOT BE EXECUTED here; unlike the amd64 interpreter, nothing below has been compared
  with an arm64 CPU.  What guards against a transcription error that happens to make a proof pass is that the theorems
  relate the listings to the independent specification (`Spec.GCM.mulGF`: Algorithm 1 of SP 800-38D, bit-serial).
  The driver requests `asm64.ghash`, `asm64.xor` (Driver/AsmArm64.lean) run the same interpreter on arbitrary inputs.

  PROVED FOR ALL INPUTS (axioms propext, Classical.choice, Quot.sound):
    * `asm_arm64_gHashBlocks_eq_spec`: for EVERY count ≥ 1, every H, every running tag, 16·count bytes of data, any
      register contents: the run of the listing reaches RET within `ghFuel count = 30·count + 200` steps and the tag
      buffer holds the GHASH fold of the specification continued from the old tag; `asm_arm64_gHashBlocks_is_ghash`
      from a zero tag.  All paths: count < 8; count ≥ 8 with 0, 1, 2, 3 blocks after the by-4 loop.
    * `asm_arm64_pmull_reduce_is_gmul`: the data flow of `mul` + `reduce` (5 + 14 instructions) is the multiplication
      of SP 800-38D on bit-reflected operands; `asm_arm64_pmull_reduce_aggregated`: four products xored before one
      `reduce` are the xor of four such multiplications; `asm_arm64_loopBy1_step`: the 23 instructions of the loop
      body, as instructions, perform Y := (Y ⊕ X)•H in the reflected representation; `asm_arm64_gHashBlocks_scheme`:
      the listing consists of exactly these blocks.
    * `asm_arm64_xorN_eq`: for N ∈ {16, 32, 64, 128, 256}: dst[i] = src1[i] xor src2[i] for all i < N, with the three
      buffers disjoint, with dst = src1 (`xor16(&tag[0], &tag[0], &TMask[0])` in Seal / Open) and with dst = src2
      (`xorN(&out[0], &tmp[0], &in[0])` in `cryptoBlocks` when Seal / Open work in place).
  TESTED (kernel evaluation, one input each): `asm_arm64_test_gHashBlocks` (1, 2, 8, 9, 10, 11, 17 blocks against the
  bit-serial specification), `asm_arm64_test_xorN`.
  NOT COVERED: `gHashBlocks` with count = 0 performs one step (do-while loop) — count ≥ 1 is a genuine precondition,
  and the Go glue never passes 0; partially overlapping buffers for `xorN` (crypto/cipher forbids inexact overlap).
-/
import SMGo.Proofs.ISAValArm64GhashSpec
import SMGo.Proofs.ISAValArm64XorSpec
import SMGo.Proofs.ISAValArm64GcmTests
namespace SMGo.Props.C06Arm64
open SMGo
open SMGo.Model.ISAValArm64 SMGo.Model.GCM SMGo.Spec.GCM
open SMGo.Model.ISAVal (lanes unlanes readMem)
open SMGo.Proofs.ISAVal (toB)
open SMGo.Proofs.GCM (ghFold rev128)

/-- **The arm64 listing of `gHashBlocks` computes the GHASH update of SP 800-38D** (under the unvalidated arm64
    semantics): for every `count ≥ 1`, every hash key H (`h`, 16 bytes), every running value (`tag`, 16 bytes, updated in
    place) and `16·count` bytes of data, whatever R0..R30 (`g`) and V0..V31 (`v`) hold at entry, the run of the
    regenerated listing from its first instruction to RET succeeds within `ghFuel count` steps and leaves at `tag`
    `Y' = (…((Y ⊕ X₁)•H ⊕ X₂)•H … ⊕ X_count)•H` (`ghFold`; `Spec.GCM.ghash H x = ghFold H 0 x`).
    (`data.length < 2^32` is the size limit of a memory region of the interpreter.) -/
theorem asm_arm64_gHashBlocks_eq_spec (g v h tag data : List Nat) (count : Nat)
    (hG : g.length = 31) (hV : v.length = 32)
    (hh : h.length = 16) (ht : tag.length = 16) (hhb : ∀ x ∈ h, x < 2 ^ 8) (htb : ∀ x ∈ tag, x < 2 ^ 8)
    (hdb : ∀ x ∈ data, x < 2 ^ 8) (hc : 1 ≤ count) (hd : 16 * count ≤ data.length) (hdl : data.length < 2 ^ 32) :
    runGhash (ghFuel count) (ghashState g v h tag data count)
      = .ok ((natToBlock (ghFold (blockToNat (toB h)) (blockToNat (toB tag)) ((toB data).take (16 * count)))).map (·.toNat)) :=
  Proofs.ISAValArm64.gHashBlocks_eq_spec g v h tag data count hG hV hh ht hhb htb hdb hc hd hdl

/-- from a zero tag over exactly `count` blocks the routine computes GHASH_H(data) -/
theorem asm_arm64_gHashBlocks_is_ghash (g v h data : List Nat) (count : Nat)
    (hG : g.length = 31) (hV : v.length = 32) (hh : h.length = 16) (hhb : ∀ x ∈ h, x < 2 ^ 8)
    (hdb : ∀ x ∈ data, x < 2 ^ 8) (hc : 1 ≤ count) (hd : data.length = 16 * count) (hdl : data.length < 2 ^ 32) :
    runGhash (ghFuel count) (ghashState g v h (List.replicate 16 0) data count)
      = .ok ((natToBlock (ghash (blockToNat (toB h)) (toB data))).map (·.toNat)) := by
  rw [asm_arm64_gHashBlocks_eq_spec g v h (List.replicate 16 0) data count hG hV hh (by simp) hhb
    (by intro x hx; rw [List.eq_of_mem_replicate hx]; decide) hdb hc (by omega) hdl]
  have e1 : (toB data).take (16 * count) = toB data := by
    apply List.take_of_length_le; rw [Proofs.ISAVal.toB_length]; omega
  have e2 : blockToNat (toB (List.replicate 16 0)) = 0 := by decide
  rw [e1, e2]
  rfl

/-- the same run in the reflected representation of the code: the tag buffer receives the byte image of the model's
    one-block-at-a-time hash `ghBy1` (SMGo/Model/GCMAlgo.lean) -/
theorem asm_arm64_gHashBlocks_eq_model (g v h tag data : List Nat) (count : Nat)
    (hG : g.length = 31) (hV : v.length = 32)
    (hh : h.length = 16) (ht : tag.length = 16) (hhb : ∀ x ∈ h, x < 2 ^ 8) (htb : ∀ x ∈ tag, x < 2 ^ 8)
    (hdb : ∀ x ∈ data, x < 2 ^ 8) (hc : 1 ≤ count) (hd : 16 * count ≤ data.length) (hdl : data.length < 2 ^ 32) :
    runGhash (ghFuel count) (ghashState g v h tag data count)
      = .ok ((storeR (ghBy1 (loadR (toB h)) count (loadR (toB tag)) (toB data))).map (·.toNat)) :=
  Proofs.ISAValArm64.gHashBlocks_run g v h tag data count hG hV hh ht hhb htb hdb hc hd hdl

open Proofs.ISAValArm64 in
/-- **the Karatsuba + reduction block is the multiplication of SP 800-38D on bit-reflected operands**: the data flow
    of `mul(Factor, FactorS, Input, Lo, Mid, Hi)` and `reduce(Output, Lo, Mid, Hi)` — `redV`, `mulLo`, `mulMid`,
    `mulHi` are the 5 + 14 instructions written as functions on 128-bit numbers, with `z` = 0 the Zero register,
    `r` the Reduce register (0x87 in both doublewords), `hs` the FactorS register (low doubleword = Factor.lo ⊕
    Factor.hi) — is `rev128 (mulGF (rev128 x) (rev128 h))` -/
theorem asm_arm64_pmull_reduce_is_gmul (h hs r x : Nat) (hsum : IsSum h hs) (hr : IsPoly r)
    (hh : h < 2 ^ 128) (hx : x < 2 ^ 128) :
    redV 0 r (mulLo h x) (mulMid hs x) (mulHi h x) = gmulR h x
    ∧ gmulR h x = rev128 (mulGF (rev128 x) (rev128 h)) :=
  ⟨mulRed_eq h hs r x hsum hr, Proofs.GCM.gmulR_eq_mulGF hh hx⟩

open Proofs.ISAValArm64 in
/-- four products accumulated (`mul3rd`, `mul2nd`, `mul1st`) before ONE `reduce`: the xor of four multiplications -/
theorem asm_arm64_pmull_reduce_aggregated (r h1 s1 x1 h2 s2 x2 h3 s3 x3 h4 s4 x4 : Nat) (hs1 : IsSum h1 s1)
    (hs2 : IsSum h2 s2) (hs3 : IsSum h3 s3) (hs4 : IsSum h4 s4) (hr : IsPoly r) :
    redV 0 r (veor (mulLo h4 x4) (veor (mulLo h3 x3) (veor (mulLo h2 x2) (mulLo h1 x1))))
        (veor (mulMid s4 x4) (veor (mulMid s3 x3) (veor (mulMid s2 x2) (mulMid s1 x1))))
        (veor (mulHi h4 x4) (veor (mulHi h3 x3) (veor (mulHi h2 x2) (mulHi h1 x1))))
      = gmulR h1 x1 ^^^ gmulR h2 x2 ^^^ gmulR h3 x3 ^^^ gmulR h4 x4 :=
  mulRed4_eq r h1 s1 x1 h2 s2 x2 h3 s3 x3 h4 s4 x4 hs1 hs2 hs3 hs4 hr

open Proofs.ISAValArm64 in
/-- **one iteration of `loopBy1`, as instructions** (VLD1.P, VRBIT, VEOR, `mul`, `reduce`, SUB: 23 instructions): from a
    state whose constants are in place (`GCtx`: V5 = H.lo ⊕ H.hi of V4, V12 = 0, V13 = 0x87:0x87), the running value
    in V30 becomes `gmulR H (Y ⊕ X)` with X the loaded block bit-reflected; the data pointer advances by 16, the
    count decreases by 1, the constants V4..V13, R11 and memory are unchanged (`Keeps`) -/
theorem asm_arm64_loopBy1_step (s : State) (ctx : GCtx s) (bs : List Nat)
    (hload : readMem s.mem (greg s 12) 16 = .ok bs) :
    ∃ s', execList l1Code s = .ok s' ∧ Keeps s s' ∧
      greg s' 12 = (greg s 12 + 16) % 2 ^ 64 ∧ greg s' 13 = (greg s 13 + 2 ^ 64 - 1) % 2 ^ 64 ∧
      vreg s' 30 = gmulR (vreg s 4) (veor (vreg s 30) (vrbit (unlanes 8 (bs.take 16)))) :=
  l1_spec s ctx bs hload

open Proofs.ISAValArm64 in
/-- the regenerated listing of `gHashBlocks` (235 instructions) is: prologue, `CMP $8; BLT loopBy1`, the powers,
    the `loopBy4` body, `CMP $3; BGT loopBy4; BLT …`, the 3-block body, `B end`, `CMP $1; BEQ loopBy1; BLT end`, the
    2-block body, `B end`, the `loopBy1` body, `CMP $0; BGT loopBy1`, RBIT + store, RET — byte offsets aside
    (checked by evaluation); the bodies are built from `mulC`, `redC`, `accC` only -/
theorem asm_arm64_gHashBlocks_scheme :
    (segOf 0 13 = gpCode ∧ segOf 15 63 = qCode ∧ segOf 78 50 = l4Code ∧ segOf 131 40 = l3Code ∧
     segOf 175 31 = l2Code ∧ segOf 207 23 = l1Code ∧ segOf 232 2 = geCode ∧ ghR.length = 235)
    ∧ (ghR[13]? = some (cmpI 52 8) ∧ ghR[14]? = some (brI 56 .BLT 828) ∧
       ghR[128]? = some (cmpI 512 3) ∧ ghR[129]? = some (brI 516 .BGT 312) ∧ ghR[130]? = some (brI 520 .BLT 688) ∧
       ghR[171]? = some (brI 684 .JMP 928) ∧
       ghR[172]? = some (cmpI 688 1) ∧ ghR[173]? = some (brI 692 .BEQ 828) ∧ ghR[174]? = some (brI 696 .BLT 928) ∧
       ghR[206]? = some (brI 824 .JMP 928) ∧
       ghR[230]? = some (cmpI 920 0) ∧ ghR[231]? = some (brI 924 .BGT 828) ∧
       ghR[234]? = some ⟨936, .RET, [.mem (.gpr 30) none 0 0], [.none]⟩)
    ∧ (findPc ghR 828 = some (ghR.drop 207) ∧ findPc ghR 312 = some (ghR.drop 78) ∧
       findPc ghR 688 = some (ghR.drop 172) ∧ findPc ghR 928 = some (ghR.drop 232)) :=
  ⟨ghR_segments, ghR_ctl, ghR_targets⟩

/-- **`xorN`, N ∈ {16, 32, 64, 128, 256}**: the listing selected by `xorListing n` leaves the bytewise xor of the two
    sources in the destination — `List.zipWith (· ^^^ ·) a b`, i.e. dst[i] = a[i] xor b[i] for all i < n
    (`asm_arm64_xor_byte`) — when the three buffers are disjoint (`xorState`), when dst is src1 (`xorStateDst1`:
    `xorN(x, x, b)`) and when dst is src2 (`xorStateDst2`: `xorN(x, a, x)`); whatever the registers and the old
    destination hold -/
theorem asm_arm64_xorN_eq (n : Nat) (l : List Model.ISA.Instr) (arr : List (List String)) (hl : xorListing n = some (l, arr))
    (g v d0 a b : List Nat) (hg : g.length = 31) (hv : v.length = 32) (hd : d0.length = n)
    (ha : a.length = n) (hb : b.length = n) (hab : ∀ x ∈ a, x < 2 ^ 8) (hbb : ∀ x ∈ b, x < 2 ^ 8) :
    runDst l arr (xorState g v d0 a b) = .ok (List.zipWith (· ^^^ ·) a b)
    ∧ runDst l arr (xorStateDst1 g v a b) = .ok (List.zipWith (· ^^^ ·) a b)
    ∧ runDst l arr (xorStateDst2 g v a b) = .ok (List.zipWith (· ^^^ ·) a b) :=
  Proofs.ISAValArm64.xorN_eq n l arr hl g v d0 a b hg hv hd ha hb hab hbb

/-- byte `i` of that result -/
theorem asm_arm64_xor_byte (a b : List Nat) (i : Nat) (hi : i < a.length) (hb : a.length = b.length) :
    (List.zipWith (· ^^^ ·) a b).getD i 0 = a.getD i 0 ^^^ b.getD i 0 :=
  Proofs.ISAValArm64.zipWith_xor_getD a b i hi hb

/-- TEST (kernel evaluation): `gHashBlocks` on 1, 2, 8, 9, 10, 11, 17 blocks against the bit-serial specification -/
theorem asm_arm64_test_gHashBlocks :
    [1, 2, 8, 9, 10, 11, 17].all Proofs.ISAValArm64GcmTests.ghTest = true :=
  Proofs.ISAValArm64GcmTests.test_gHashBlocks

/-- TEST (kernel evaluation): `xorN`, N = 16, 32, 64, 128, 256, in the three calling shapes -/
theorem asm_arm64_test_xorN : [16, 32, 64, 128, 256].all Proofs.ISAValArm64GcmTests.xorTest = true :=
  Proofs.ISAValArm64GcmTests.test_xorN

/-! ### non-vacuity: the headline theorems instantiated on concrete entry states -/

section NonVacuity
set_option maxRecDepth 100000

example : runGhash (ghFuel 9) (ghashState junkG junkV Proofs.ISAValArm64GcmTests.hK Proofs.ISAValArm64GcmTests.tg (Proofs.ISAValArm64GcmTests.dat 9) 9)
    = .ok ((natToBlock (ghFold (blockToNat (toB Proofs.ISAValArm64GcmTests.hK)) (blockToNat (toB Proofs.ISAValArm64GcmTests.tg)) ((toB (Proofs.ISAValArm64GcmTests.dat 9)).take (16 * 9)))).map (·.toNat)) :=
  asm_arm64_gHashBlocks_eq_spec junkG junkV Proofs.ISAValArm64GcmTests.hK Proofs.ISAValArm64GcmTests.tg (Proofs.ISAValArm64GcmTests.dat 9) 9 (by decide) (by decide) (by decide) (by decide) (by decide)
    (by decide) (by decide) (by decide) (by decide) (by decide)

example : runDst Gen.ListArm64Gcm.xor16 Gen.ListArm64GcmArr.xor16_arr (xorState junkG junkV (List.replicate 16 0xEE) (Proofs.ISAValArm64GcmTests.bufA 16) (Proofs.ISAValArm64GcmTests.bufB 16))
      = .ok (List.zipWith (· ^^^ ·) (Proofs.ISAValArm64GcmTests.bufA 16) (Proofs.ISAValArm64GcmTests.bufB 16))
    ∧ runDst Gen.ListArm64Gcm.xor16 Gen.ListArm64GcmArr.xor16_arr (xorStateDst1 junkG junkV (Proofs.ISAValArm64GcmTests.bufA 16) (Proofs.ISAValArm64GcmTests.bufB 16))
      = .ok (List.zipWith (· ^^^ ·) (Proofs.ISAValArm64GcmTests.bufA 16) (Proofs.ISAValArm64GcmTests.bufB 16))
    ∧ runDst Gen.ListArm64Gcm.xor16 Gen.ListArm64GcmArr.xor16_arr (xorStateDst2 junkG junkV (Proofs.ISAValArm64GcmTests.bufA 16) (Proofs.ISAValArm64GcmTests.bufB 16))
      = .ok (List.zipWith (· ^^^ ·) (Proofs.ISAValArm64GcmTests.bufA 16) (Proofs.ISAValArm64GcmTests.bufB 16)) :=
  asm_arm64_xorN_eq 16 _ _ rfl junkG junkV (List.replicate 16 0xEE) (Proofs.ISAValArm64GcmTests.bufA 16) (Proofs.ISAValArm64GcmTests.bufB 16) (by decide) (by decide) (by decide)
    (by decide) (by decide) (by decide) (by decide)

example : runDst Gen.ListArm64Gcm.xor256 Gen.ListArm64GcmArr.xor256_arr
      (xorStateDst2 junkG junkV (Proofs.ISAValArm64GcmTests.bufA 256) (Proofs.ISAValArm64GcmTests.bufB 256)) = .ok (List.zipWith (· ^^^ ·) (Proofs.ISAValArm64GcmTests.bufA 256) (Proofs.ISAValArm64GcmTests.bufB 256)) :=
  (asm_arm64_xorN_eq 256 _ _ rfl junkG junkV (List.replicate 256 0) (Proofs.ISAValArm64GcmTests.bufA 256) (Proofs.ISAValArm64GcmTests.bufB 256) (by decide) (by decide)
    (by decide) (by decide) (by decide) (by decide) (by decide)).2.2

end NonVacuity

end SMGo.Props.C06Arm64

#print axioms SMGo.Props.C06Arm64.asm_arm64_gHashBlocks_eq_spec
#print axioms SMGo.Props.C06Arm64.asm_arm64_gHashBlocks_is_ghash
#print axioms SMGo.Props.C06Arm64.asm_arm64_gHashBlocks_eq_model
#print axioms SMGo.Props.C06Arm64.asm_arm64_pmull_reduce_is_gmul
#print axioms SMGo.Props.C06Arm64.asm_arm64_pmull_reduce_aggregated
#print axioms SMGo.Props.C06Arm64.asm_arm64_loopBy1_step
#print axioms SMGo.Props.C06Arm64.asm_arm64_gHashBlocks_scheme
#print axioms SMGo.Props.C06Arm64.asm_arm64_xorN_eq
#print axioms SMGo.Props.C06Arm64.asm_arm64_xor_byte
#print axioms SMGo.Props.C06Arm64.asm_arm64_test_gHashBlocks
#print axioms SMGo.Props.C06Arm64.asm_arm64_test_xorN
