/-
  Property C09, trusted base — the operand-role table (`SMGo.Model.ISA.roles`, `effOf`) against an independent,
  CPU-validated value semantics of the same instruction instances (`SMGo.Model.ISAVal.execD`, `stepD`; compared with
  the real CPU on every check run by the harness streams `sm4.kernel`, `asm.expandkey`, `asm.ghash`, `asm.seal`,
  `asm.open`).

  C09's taint soundness trusts, for each mnemonic, which operands are read and written, whether the flags are read
  or written, which operand is the memory operand, whether it is loaded or stored, and the kind of control transfer.
  This file proves, for EVERY instruction instance of the three amd64 listings (ListAmd64Asm, ListAmd64Gcm,
  ListAmd64Helper: 14717 instances), that the entry `effOf i` is a sound footprint of what `stepD` does on `i`
  (`RoleSound i`):

    (1)  frame condition: no register outside `writes` changes, the flags only if `wf`, memory only if `store` — and
         then only inside one range that starts at the effective address of the memory operand —, frame slots only if
         `frameStores ≠ []`, never the symbol table or the number of registers;
    (2)  dependency: two runs from states that agree on the registers in `reads`, on the flags if `rf`, for a load on
         base / index and on the bytes of memory from the effective address on (and on the public frame and symbol
         table) leave the same values in ALL registers in `writes`, the same flags if `wf`, and continue at the same
         place; the effective address depends on base and index only;
    (3)  control: `kind` and `target` are what `stepD` does (fall through / jump to `target` / jump or fall through,
         decided by the flags only / return).

  How it is obtained (two steps, both by theorem):
    (a)  `touchesOf : DInstr → Option Touch` (SMGo/Proofs/ISAValTouch.lean), a footprint function written parallel to
         `execD` (same case structure), is PROVED sound for every decoded instruction whatsoever, generically per
         mnemonic and operand shape, against the semantics: `touches_frame`, `touches_store`, `touches_dep`,
         `touches_addr`, `touches_control` below;
    (b)  `roleOk i` compares `touchesOf (decode i)` with `effOf i` — everything touched is listed, and conversely every
         register (the flags) LISTED as written is really overwritten or is also listed as read — and is evaluated in the
         kernel on all instances (`ok_ListAmd64Asm`, `ok_ListAmd64Gcm`, `ok_ListAmd64Helper`); `role_sound_of_ok` turns
         `roleOk i = true` into `RoleSound i`.

  Result: no instance where the role table under-approximates.  Remarks (no defect):
    * `MOVL r, slot+off(FP)` keeps the upper half of the 8-byte result slot (a partial write); the role table treats
      result slots as write-only, which `frameOk` justifies (they are never read back);
    * `SHLQ/SHRQ $0` would leave the flags alone: `touchesOf` gives no footprint for it, as `effOf` (`nzImm`); no such
      instance exists;
    * `MOVQ/MOVL mem, r` is implemented in `execD` with a read of the old destination, but the result does not
      depend on it (`mergeG_wide`), in agreement with the role `wl`.
  Not covered here: arm64 (the value semantics of arm64 is another file); the access WIDTH (`Sem.width` is a parameter
  of C09, `Touch.width` is not compared with anything); the construction of a `Sem` instance out of `execD`.
-/
import SMGo.Proofs.ISAValRolesAsm
import SMGo.Proofs.ISAValRolesGcm
import SMGo.Proofs.ISAValRolesHelper

namespace SMGo.Props.C09Roles
open SMGo.Model.ISAVal SMGo.Proofs.ISATouch SMGo.Gen
open SMGo.Model.ISA (Reg Opd Instr Eff effOf)

/-! ## (a) the footprint function is sound for every decoded instruction -/

/-- frame condition of `touchesOf` -/
theorem touches_frame {d : DInstr} {t : Touch} {s s' : State} (ht : touchesOf d = some t) (h : execD s d = .ok s') :
    Frame t s s' := SMGo.Proofs.ISATouch.touches_frame ht h

/-- a store writes only inside `[addr, addr + width)` of its memory operand -/
theorem touches_store {d : DInstr} {t : Touch} {s s' : State} (ht : touchesOf d = some t) (hst : t.store = true)
    (h : execD s d = .ok s') :
    ∃ b i sc dp addr, t.mem = some (b, i, sc, dp) ∧ effAddr s b i sc dp = .ok addr ∧ SameOutside s.mem s'.mem addr t.width :=
  SMGo.Proofs.ISATouch.touches_store ht hst h

/-- dependency: written registers / flags / frame slots are functions of what the footprint lists as read (for a load:
    of the `width` bytes at the effective address) -/
theorem touches_dep {d : DInstr} {t : Touch} {s1 s2 s1' s2' : State} (ht : touchesOf d = some t) (ag : Agree t s1 s2)
    (h1 : execD s1 d = .ok s1') (h2 : execD s2 d = .ok s2') : SameOut t s1' s2' :=
  SMGo.Proofs.ISATouch.touches_dep ht ag h1 h2

/-- the effective address depends on base and index only -/
theorem touches_addr {t : Touch} {s1 s2 : State} {b : Reg} {i : Option Reg} {sc : Nat} {dp : Int}
    (hm : t.mem = some (b, i, sc, dp)) (h : ∀ r, r ∈ addrRegs t → rv s1 r = rv s2 r) :
    effAddr s1 b i sc dp = effAddr s2 b i sc dp := SMGo.Proofs.ISATouch.touches_addr hm h

/-- a control transfer changes nothing; where it goes depends on the flags only, for JMP / RET on nothing -/
theorem touches_control {d : DInstr} {t : Touch} (ht : touchesOf d = some t) (hc : d.mn.isControl = true) :
    (∀ s s' nx, stepD s d = .ok (s', nx) → s' = s) ∧
    (∀ s1 s2 s1' s2' n1 n2, (t.rf = true → s1.flags = s2.flags) →
      stepD s1 d = .ok (s1', n1) → stepD s2 d = .ok (s2', n2) → n1 = n2) :=
  SMGo.Proofs.ISATouch.touches_control ht hc

/-! ## (b) the role table on every instance of the amd64 listings -/

/-- the comparison, evaluated by the kernel on all instances -/
theorem roleOk_all :
    allOk ListAmd64Asm.routines = true ∧ allOk ListAmd64Gcm.routines = true ∧ allOk ListAmd64Helper.routines = true :=
  ⟨ok_ListAmd64Asm, ok_ListAmd64Gcm, ok_ListAmd64Helper⟩

/-- `roleOk` implies the semantic statement -/
theorem roleOk_sound {i : Instr} (h : roleOk i = true) : RoleSound i := role_sound_of_ok h

/-- **for every instruction instance of every routine of the three amd64 listings, the role-table entry is a sound
    footprint of the value semantics** (frame condition, dependency, control; see `RoleSound`) -/
theorem roles_sound_amd64 :
    ∀ p, p ∈ ListAmd64Asm.routines ++ ListAmd64Gcm.routines ++ ListAmd64Helper.routines →
      ∀ chunk, chunk ∈ p.2 → ∀ i, i ∈ chunk → RoleSound i := by
  intro p hp
  simp only [List.mem_append] at hp
  rcases hp with (hp | hp) | hp
  · exact allOk_sound ok_ListAmd64Asm p hp
  · exact allOk_sound ok_ListAmd64Gcm p hp
  · exact allOk_sound ok_ListAmd64Helper p hp

/-- the number of instances covered -/
theorem instances_covered :
    ((ListAmd64Asm.routines ++ ListAmd64Gcm.routines ++ ListAmd64Helper.routines).flatMap (fun p => p.2.flatten)).length
      = 14717 := by decide +kernel

end SMGo.Props.C09Roles

#print axioms SMGo.Props.C09Roles.touches_frame
#print axioms SMGo.Props.C09Roles.touches_store
#print axioms SMGo.Props.C09Roles.touches_dep
#print axioms SMGo.Props.C09Roles.touches_addr
#print axioms SMGo.Props.C09Roles.touches_control
#print axioms SMGo.Props.C09Roles.roleOk_all
#print axioms SMGo.Props.C09Roles.roleOk_sound
#print axioms SMGo.Props.C09Roles.roles_sound_amd64
#print axioms SMGo.Props.C09Roles.instances_covered
