/-
  Property C15 — the point layer of sm2_point.go is correct on every input.
  (Property theorems only; lemmas live in SMGo/Proofs/Point*.lean.)

  "Addition, doubling and negation return the correct group element for every pair of inputs -
  equal points, inverse points, the point at infinity, any projective representative - also when the
  receiver aliases an operand, and every result satisfies the curve equation. Encoding then decoding
  a point is the identity, decoding rejects everything that is not the one-byte infinity encoding or
  a 65-byte uncompressed encoding of canonical on-curve coordinates, and the constant-time and fast
  conversions to affine form agree."

  Setting.  The model `Model.Point` is executed with the context `Model.SM2.pointCtx`: coordinates
  are reduced Montgomery residues (natural numbers < p standing for e·R⁻¹ mod p, R = 2^256), `Add`
  and `Double` are the straight-line programs *regenerated from sm2_point.go* (`Gen.PointSLP`),
  evaluated with the Montgomery operations `Model.SM2.Fp`.  The reference is `Spec.SM2`: affine points
  `Option (ℕ × ℕ)` with the textbook chord-and-tangent law `Spec.SM2.add`, `neg`, `smul`, which is
  Mathlib's group law of the curve (`Proofs.CurveGroup.toPoint_add`).

  `Rep P Q` (SMGo/Proofs/PointRep.lean): the coordinates of P are reduced and, with (X : Y : Z)
  their values in F_p, either Z = 0 ∧ X = 0 ∧ Y ≠ 0 ∧ Q = O, or Z ≠ 0 ∧ Q = (x, y) is a valid
  affine point (x, y < p, on the curve) ∧ X = x·Z ∧ Y = y·Z.  *Any* projective representative of
  Q is covered, and `Rep` contains the curve equation (`rep_curve`).

  Aliasing.  In the Go code every method reads its operands into temporaries and assigns the
  receiver in the last three statements (`q.x.Set(x3)` …); the model therefore is a pure function
  `Point.add C p1 p2` of the operand *values*, and `q.Add(q, p)`, `q.Add(p, q)`, `q.Add(q, q)` are
  `Point.add C q p`, `Point.add C p q`, `Point.add C q q`: the theorems below hold for all operand
  values, equal or not (`add_self_rep` is the fully aliased call).
-/
import SMGo.Proofs.PointRep
import SMGo.Proofs.PointEnc
import SMGo.Proofs.PointSem
import SMGo.Props.C14
namespace SMGo.Props.C15
open SMGo SMGo.Model SMGo.Spec.SM2
open SMGo.Proofs.CurveGroup (Valid toPoint E)
open SMGo.Proofs.PointField (val)
open SMGo.Proofs.PointAdd (bK)
open SMGo.Proofs.PointRep (Rep ofSpec)
open SMGo.Proofs.PointEnc (affX)
open SMGo.Proofs.PointSem (ok okXY sem checkXY xyPoint)
open SMGo.Proofs.CurveSem (Sem TableValid RemainderValid)
open SMGo.Model.Point (Pt)

/-! ## 1. The field instance -/

/-- the Montgomery operations are the operations of F_p on values, with reduced results -/
theorem field_ops (a b : Nat) :
    (val (SM2.Fp.mul a b) = val a * val b ∧ SM2.Fp.mul a b < p) ∧
    (val (SM2.Fp.square a) = val a * val a ∧ SM2.Fp.square a < p) ∧
    (val (SM2.Fp.add a b) = val a + val b ∧ SM2.Fp.add a b < p) ∧
    (val (SM2.Fp.sub a b) = val a - val b ∧ SM2.Fp.sub a b < p) ∧
    (val (SM2.Fp.opp a) = - val a ∧ SM2.Fp.opp a < p) ∧
    val SM2.Fp.setOne = 1 ∧ val SM2.Fp.zero = 0 ∧
    val (Field.invert SM2.Fp a) = (val a)⁻¹ :=
  ⟨⟨Proofs.PointField.val_mul a b, Proofs.PointField.mul_lt a b⟩,
   ⟨Proofs.PointField.val_square a, Proofs.PointField.square_lt a⟩,
   ⟨Proofs.PointField.val_add a b, Proofs.PointField.add_lt a b⟩,
   ⟨Proofs.PointField.val_sub a b, Proofs.PointField.sub_lt a b⟩,
   ⟨Proofs.PointField.val_opp a, Proofs.PointField.opp_lt a⟩,
   Proofs.PointField.val_setOne, Proofs.PointField.val_zero, Proofs.PointField.val_invert a⟩

/-- reduced residues are determined by their value -/
theorem val_injective {a b : Nat} (ha : a < p) (hb : b < p) (h : val a = val b) : a = b :=
  Proofs.PointField.val_inj ha hb h

/-! ## 2. Representation -/

/-- `Rep`, spelled out -/
theorem rep_iff (P : Pt Nat) (Q : Spec.SM2.Point) :
    Rep P Q ↔ (P.x < p ∧ P.y < p ∧ P.z < p) ∧
      ((val P.z = 0 ∧ val P.x = 0 ∧ val P.y ≠ 0 ∧ Q = none) ∨
       (val P.z ≠ 0 ∧ ∃ x y : Nat, Q = some (x, y) ∧ Valid (some (x, y)) ∧
          val P.x = (x : ZMod p) * val P.z ∧ val P.y = (y : ZMod p) * val P.z)) := Iff.rfl

/-- a model point represents at most one specification point, and that point is valid -/
theorem rep_unique {P : Pt Nat} {Q Q' : Spec.SM2.Point} (h : Rep P Q) (h' : Rep P Q') : Q = Q' :=
  h.unique h'

theorem rep_valid {P : Pt Nat} {Q : Spec.SM2.Point} (h : Rep P Q) : Valid Q := h.valid

/-- every represented point satisfies the (projective) curve equation Y²Z = X³ − 3XZ² + bZ³ -/
theorem rep_curve {P : Pt Nat} {Q : Spec.SM2.Point} (h : Rep P Q) :
    val P.y ^ 2 * val P.z = val P.x ^ 3 - 3 * val P.x * val P.z ^ 2 + bK * val P.z ^ 3 := h.curve

/-- `NewSM2Point()` is O; the generator of `initPoints` is G; every valid point has a representative -/
theorem infinity_rep : Rep (Point.infinity SM2.pointCtx) none := Proofs.PointRep.infinity_rep
theorem generator_rep : Rep SM2.generator Spec.SM2.G := Proofs.PointRep.generator_rep
theorem ofSpec_rep {Q : Spec.SM2.Point} (hQ : Valid Q) : Rep (ofSpec Q) Q := Proofs.PointRep.ofSpec_rep hQ

/-! ## 3. Add, Double, Negate — all inputs -/

/-- **Add** returns the group sum for every pair of represented inputs: generic, equal, inverse,
    either or both at infinity, any projective representatives; the result is reduced and on the curve -/
theorem add_rep {a c : Pt Nat} {P Q : Spec.SM2.Point} (ha : Rep a P) (hc : Rep c Q) :
    Rep (Point.add SM2.pointCtx a c) (Spec.SM2.add P Q) := Proofs.PointRep.add_rep ha hc

/-- the result of Add satisfies the curve equation -/
theorem add_on_curve {a c : Pt Nat} {P Q : Spec.SM2.Point} (ha : Rep a P) (hc : Rep c Q) :
    val (Point.add SM2.pointCtx a c).y ^ 2 * val (Point.add SM2.pointCtx a c).z =
      val (Point.add SM2.pointCtx a c).x ^ 3
        - 3 * val (Point.add SM2.pointCtx a c).x * val (Point.add SM2.pointCtx a c).z ^ 2
        + bK * val (Point.add SM2.pointCtx a c).z ^ 3 := (add_rep ha hc).curve

/-- equal points (two representatives of the same point): Add doubles -/
theorem add_equal_points {a c : Pt Nat} {P : Spec.SM2.Point} (ha : Rep a P) (hc : Rep c P) :
    Rep (Point.add SM2.pointCtx a c) (Spec.SM2.add P P) := add_rep ha hc

/-- fully aliased call `q.Add(q, q)` -/
theorem add_self_rep {a : Pt Nat} {P : Spec.SM2.Point} (ha : Rep a P) :
    Rep (Point.add SM2.pointCtx a a) (Spec.SM2.add P P) := add_rep ha ha

/-- inverse points: the result is the point at infinity (0 : Y ≠ 0 : 0) -/
theorem add_inverse_points {a c : Pt Nat} {P : Spec.SM2.Point} (ha : Rep a P) (hc : Rep c (Spec.SM2.neg P)) :
    Rep (Point.add SM2.pointCtx a c) none := by
  have h := add_rep ha hc
  rwa [Proofs.CurveGroup.add_neg_self ha.valid] at h

theorem add_negate_self {a : Pt Nat} {P : Spec.SM2.Point} (ha : Rep a P) :
    Rep (Point.add SM2.pointCtx a (Point.negate SM2.pointCtx a)) none :=
  add_inverse_points ha (Proofs.PointRep.negate_rep ha)

/-- the point at infinity as either operand -/
theorem add_infinity_left {a c : Pt Nat} {Q : Spec.SM2.Point} (ha : Rep a none) (hc : Rep c Q) :
    Rep (Point.add SM2.pointCtx a c) Q := by
  have h := add_rep ha hc
  rwa [Proofs.CurveGroup.add_none_left] at h

theorem add_infinity_right {a c : Pt Nat} {P : Spec.SM2.Point} (ha : Rep a P) (hc : Rep c none) :
    Rep (Point.add SM2.pointCtx a c) P := by
  have h := add_rep ha hc
  rwa [Proofs.CurveGroup.add_none_right] at h

/-- **Double** returns P + P for every represented input (finite or infinite) -/
theorem double_rep {a : Pt Nat} {P : Spec.SM2.Point} (ha : Rep a P) :
    Rep (Point.double SM2.pointCtx a) (Spec.SM2.add P P) := Proofs.PointRep.double_rep ha

/-- **Negate** -/
theorem negate_rep {a : Pt Nat} {P : Spec.SM2.Point} (ha : Rep a P) :
    Rep (Point.negate SM2.pointCtx a) (Spec.SM2.neg P) := Proofs.PointRep.negate_rep ha

/-- in Mathlib's group E(F_p): Add, Double, Negate are +, 2·, − -/
theorem add_group {a c : Pt Nat} {P Q : Spec.SM2.Point} (ha : Rep a P) (hc : Rep c Q) :
    ∃ S, Rep (Point.add SM2.pointCtx a c) S ∧ toPoint S = toPoint P + toPoint Q :=
  ⟨_, add_rep ha hc, Proofs.CurveGroup.toPoint_add ha.valid hc.valid⟩

theorem double_group {a : Pt Nat} {P : Spec.SM2.Point} (ha : Rep a P) :
    ∃ S, Rep (Point.double SM2.pointCtx a) S ∧ toPoint S = 2 • toPoint P :=
  ⟨_, double_rep ha, by rw [Proofs.CurveGroup.toPoint_add ha.valid ha.valid, two_nsmul]⟩

theorem negate_group {a : Pt Nat} {P : Spec.SM2.Point} (ha : Rep a P) :
    ∃ S, Rep (Point.negate SM2.pointCtx a) S ∧ toPoint S = - toPoint P :=
  ⟨_, negate_rep ha, Proofs.CurveGroup.toPoint_neg ha.valid⟩

/-! ## 4. Encodings and affine conversion -/

/-- **decoding** accepts exactly the one-byte infinity encoding and 65-byte `04 ‖ x ‖ y` with
    canonical on-curve coordinates (`Spec.SM2.parsePoint`), returning the canonical representative;
    everything else is rejected with an error (never a panic) -/
theorem setBytes_spec (b : Bytes) :
    match parsePoint b with
    | some Q => ∃ P, Point.setBytes SM2.pointCtx b = .ok P ∧ P = ofSpec Q ∧ Rep P Q
    | none => Point.setBytes SM2.pointCtx b = .err := Proofs.PointEnc.setBytes_spec b

theorem setBytes_rejects {b : Bytes} (h : parsePoint b = none) : Point.setBytes SM2.pointCtx b = .err :=
  Proofs.PointEnc.setBytes_rejects h

/-- **encoding**: `Bytes` (constant time) and `Bytes_Unsafe` both return the SEC1 encoding -/
theorem bytes_rep {P : Pt Nat} {Q : Spec.SM2.Point} (h : Rep P Q) :
    Point.bytes SM2.pointCtx P true = pointBytes Q ∧ Point.bytes SM2.pointCtx P false = pointBytes Q :=
  Proofs.PointEnc.bytes_rep h

/-- the constant-time (Fermat) and the fast (`ModInverse`) conversions agree -/
theorem bytes_safe_eq_unsafe {P : Pt Nat} {Q : Spec.SM2.Point} (h : Rep P Q) :
    Point.bytes SM2.pointCtx P true = Point.bytes SM2.pointCtx P false :=
  Proofs.PointEnc.bytes_safe_eq_unsafe h

theorem getAffineX_rep {P : Pt Nat} {Q : Spec.SM2.Point} (h : Rep P Q) :
    Point.getAffineX SM2.pointCtx P = affX Q ∧ Point.getAffineXUnsafe SM2.pointCtx P = affX Q :=
  Proofs.PointEnc.getAffineX_rep h

theorem getAffineX_safe_eq_unsafe {P : Pt Nat} {Q : Spec.SM2.Point} (h : Rep P Q) :
    Point.getAffineX SM2.pointCtx P = Point.getAffineXUnsafe SM2.pointCtx P := by
  rw [(getAffineX_rep h).1, (getAffineX_rep h).2]

/-- **encode, then decode**: the same point comes back (as its canonical representative) -/
theorem setBytes_bytes {P : Pt Nat} {Q : Spec.SM2.Point} (h : Rep P Q) (safe : Bool) :
    Point.setBytes SM2.pointCtx (Point.bytes SM2.pointCtx P safe) = .ok (ofSpec Q) ∧ Rep (ofSpec Q) Q :=
  Proofs.PointEnc.setBytes_bytes h safe

/-- **decode, then encode**: an accepted encoding is reproduced byte for byte -/
theorem bytes_setBytes {b : Bytes} {P : Pt Nat} (h : Point.setBytes SM2.pointCtx b = .ok P) (safe : Bool) :
    Point.bytes SM2.pointCtx P safe = b := Proofs.PointEnc.bytes_setBytes h safe

/-- on the specification side: encodings of valid points parse back, accepted strings are encodings -/
theorem parsePoint_pointBytes {Q : Spec.SM2.Point} (hQ : Valid Q) : parsePoint (pointBytes Q) = some Q :=
  Proofs.PointEnc.parsePoint_pointBytes hQ

theorem pointBytes_parsePoint {b : Bytes} {Q : Spec.SM2.Point} (h : parsePoint b = some Q) :
    pointBytes Q = b := Proofs.PointEnc.pointBytes_parsePoint h

/-! ## 5. Glue to C14: the scalar multiplications of the concrete context -/

/-- the concrete point operations satisfy the hypotheses of the C14 theorems in Mathlib's group E(F_p) -/
theorem pointSem : Sem (Curve.pointOps SM2.pointCtx) ok okXY sem := Proofs.PointSem.pointSem

/-- a raw table entry passing the executable check is well-formed and denotes `xyPoint x y` -/
theorem checkXY_sound {x y : List Nat} (h : checkXY x y = true) :
    okXY x y ∧ Valid (xyPoint x y) ∧ Rep (Point.fromXY SM2.pointCtx x y) (xyPoint x y) ∧
      sem (Point.fromXY SM2.pointCtx x y) = toPoint (xyPoint x y) :=
  ⟨(Proofs.PointSem.checkXY_sound h).1, (Proofs.PointSem.checkXY_sound h).2.1,
   (Proofs.PointSem.checkXY_sound h).2.2, Proofs.PointSem.sem_fromXY_of_check h⟩

/-- the same from validity of the plain coordinates (e.g. obtained from the group law), with the
    plain coordinates spelled out through the specification's `invMod` -/
theorem okXY_of_valid {x y : List Nat} (lx : Proofs.PointSem.limbsOk x) (ly : Proofs.PointSem.limbsOk y)
    (hx : Field.limbsToNat x < p) (hy : Field.limbsToNat y < p) (hv : Valid (xyPoint x y)) :
    okXY x y ∧ Rep (Point.fromXY SM2.pointCtx x y) (xyPoint x y) ∧
      sem (Point.fromXY SM2.pointCtx x y) = toPoint (xyPoint x y) :=
  Proofs.PointSem.okXY_of_valid lx ly hx hy hv

theorem xyPoint_eq (x y : List Nat) :
    xyPoint x y = some (Field.limbsToNat x * Spec.SM2.invMod (2 ^ 256) p % p,
      Field.limbsToNat y * Spec.SM2.invMod (2 ^ 256) p % p) := Proofs.PointSem.xyPoint_eq x y

/-- base-point multiplication with the 6-3-14-4 comb: `[k]G` for every 32-byte k, given valid tables -/
theorem baseMult_rep {first : List Curve.Table} {second : Curve.Table}
    (hT : TableValid (Curve.pointOps SM2.pointCtx) okXY sem (toPoint Spec.SM2.G) first 6 3 14 4)
    (hR : RemainderValid (Curve.pointOps SM2.pointCtx) okXY sem (toPoint Spec.SM2.G) second 4)
    (k : Bytes) (hk : k.length = 32) :
    ∃ P, Curve.scalarBaseMult (Curve.pointOps SM2.pointCtx) k first second 6 3 14 4 = .ok P ∧
      Rep P (Spec.SM2.smul (Bytes.toNatBE k) Spec.SM2.G) := by
  obtain ⟨q, e, hq, hs⟩ := C14.baseMult_6_3_14_4 pointSem hT hR k hk
  refine ⟨q, e, Proofs.PointSem.rep_of_sem hq
    (Proofs.CurveGroup.smul_valid _ Proofs.CurveGroup.G_valid) ?_⟩
  rw [hs, Proofs.CurveGroup.toPoint_smul _ Proofs.CurveGroup.G_valid]

/-- variable-point multiplication: `[scalar]Q` for every represented point and scalar of any length -/
theorem mult_rep {P : Pt Nat} {Q : Spec.SM2.Point} (hP : Rep P Q) (scalar : Bytes) :
    ∃ S, Curve.scalarMult (Curve.pointOps SM2.pointCtx) P scalar = .ok S ∧
      Rep S (Spec.SM2.smul (Bytes.toNatBE scalar) Q) := by
  obtain ⟨q, e, hq, hs⟩ := C14.mult_spec pointSem P ⟨Q, hP⟩ scalar
  refine ⟨q, e, Proofs.PointSem.rep_of_sem hq (Proofs.CurveGroup.smul_valid _ hP.valid) ?_⟩
  rw [hs, Proofs.PointSem.sem_of_rep hP, Proofs.CurveGroup.toPoint_smul _ hP.valid]

/-- double-scalar multiplication: `[g]G + [s]Q` for all 32-byte g, s and every represented point -/
theorem mixedMult_rep {first : List Curve.Table} {second : Curve.Table}
    (hT : TableValid (Curve.pointOps SM2.pointCtx) okXY sem (toPoint Spec.SM2.G) first 6 3 14 4)
    (hR : RemainderValid (Curve.pointOps SM2.pointCtx) okXY sem (toPoint Spec.SM2.G) second 4)
    (g s : Bytes) (hg : g.length = 32) (hs : s.length = 32) {P : Pt Nat} {Q : Spec.SM2.Point} (hP : Rep P Q) :
    ∃ S, Curve.scalarMixedMult (Curve.pointOps SM2.pointCtx) g P s first second = .ok S ∧
      Rep S (Spec.SM2.add (Spec.SM2.smul (Bytes.toNatBE g) Spec.SM2.G)
        (Spec.SM2.smul (Bytes.toNatBE s) Q)) := by
  obtain ⟨q, e, hq, hsem⟩ := C14.mixedMult_spec pointSem hT hR g hg P ⟨Q, hP⟩ s hs
  have v1 := Proofs.CurveGroup.smul_valid (Bytes.toNatBE g) Proofs.CurveGroup.G_valid
  have v2 := Proofs.CurveGroup.smul_valid (Bytes.toNatBE s) hP.valid
  refine ⟨q, e, Proofs.PointSem.rep_of_sem hq (Proofs.CurveGroup.add_valid v1 v2) ?_⟩
  rw [hsem, Proofs.PointSem.sem_of_rep hP, Proofs.CurveGroup.toPoint_add v1 v2,
    Proofs.CurveGroup.toPoint_smul _ Proofs.CurveGroup.G_valid, Proofs.CurveGroup.toPoint_smul _ hP.valid]

/-! ## Non-vacuity -/

/-- the hypotheses are satisfiable: G, 2G (both ways), G + (−G), G + O are covered -/
example : Rep (Point.add SM2.pointCtx SM2.generator SM2.generator) (Spec.SM2.add Spec.SM2.G Spec.SM2.G) :=
  add_self_rep generator_rep

example : Rep (Point.double SM2.pointCtx SM2.generator) (Spec.SM2.add Spec.SM2.G Spec.SM2.G) :=
  double_rep generator_rep

example : Rep (Point.add SM2.pointCtx SM2.generator (Point.negate SM2.pointCtx SM2.generator)) none :=
  add_negate_self generator_rep

example : Rep (Point.add SM2.pointCtx (Point.infinity SM2.pointCtx) SM2.generator) Spec.SM2.G :=
  add_infinity_left infinity_rep generator_rep

example : Rep (Point.add SM2.pointCtx (Point.infinity SM2.pointCtx) (Point.infinity SM2.pointCtx)) none :=
  add_infinity_left infinity_rep infinity_rep

/-- Add and Double of the same point agree after encoding, although the projective triples differ -/
example : Point.bytes SM2.pointCtx (Point.add SM2.pointCtx SM2.generator SM2.generator) true =
    Point.bytes SM2.pointCtx (Point.double SM2.pointCtx SM2.generator) false := by
  rw [(bytes_rep (add_self_rep generator_rep)).1, (bytes_rep (double_rep generator_rep)).2]

example : ∃ S, Curve.scalarMult (Curve.pointOps SM2.pointCtx) SM2.generator [0x01, 0x00] = .ok S ∧
    Rep S (Spec.SM2.smul 256 Spec.SM2.G) := mult_rep generator_rep [0x01, 0x00]

/-- the specification accepts the encoding of G and rejects a compressed-form prefix -/
example : parsePoint (pointBytes Spec.SM2.G) = some Spec.SM2.G :=
  parsePoint_pointBytes Proofs.CurveGroup.G_valid

example : Point.setBytes SM2.pointCtx (2 :: List.replicate 32 1) = .err :=
  setBytes_rejects (by decide)

/-- test (labelled as a test): the model evaluated in the kernel on the encoding of G -/
theorem test_bytes_generator :
    Point.bytes SM2.pointCtx SM2.generator false = pointBytes Spec.SM2.G := by decide +kernel

end SMGo.Props.C15

#print axioms SMGo.Props.C15.field_ops
#print axioms SMGo.Props.C15.val_injective
#print axioms SMGo.Props.C15.rep_iff
#print axioms SMGo.Props.C15.rep_unique
#print axioms SMGo.Props.C15.rep_valid
#print axioms SMGo.Props.C15.rep_curve
#print axioms SMGo.Props.C15.infinity_rep
#print axioms SMGo.Props.C15.generator_rep
#print axioms SMGo.Props.C15.ofSpec_rep
#print axioms SMGo.Props.C15.add_rep
#print axioms SMGo.Props.C15.add_on_curve
#print axioms SMGo.Props.C15.add_equal_points
#print axioms SMGo.Props.C15.add_self_rep
#print axioms SMGo.Props.C15.add_inverse_points
#print axioms SMGo.Props.C15.add_negate_self
#print axioms SMGo.Props.C15.add_infinity_left
#print axioms SMGo.Props.C15.add_infinity_right
#print axioms SMGo.Props.C15.double_rep
#print axioms SMGo.Props.C15.negate_rep
#print axioms SMGo.Props.C15.add_group
#print axioms SMGo.Props.C15.double_group
#print axioms SMGo.Props.C15.negate_group
#print axioms SMGo.Props.C15.setBytes_spec
#print axioms SMGo.Props.C15.setBytes_rejects
#print axioms SMGo.Props.C15.bytes_rep
#print axioms SMGo.Props.C15.bytes_safe_eq_unsafe
#print axioms SMGo.Props.C15.getAffineX_rep
#print axioms SMGo.Props.C15.getAffineX_safe_eq_unsafe
#print axioms SMGo.Props.C15.setBytes_bytes
#print axioms SMGo.Props.C15.bytes_setBytes
#print axioms SMGo.Props.C15.parsePoint_pointBytes
#print axioms SMGo.Props.C15.pointBytes_parsePoint
#print axioms SMGo.Props.C15.pointSem
#print axioms SMGo.Props.C15.checkXY_sound
#print axioms SMGo.Props.C15.okXY_of_valid
#print axioms SMGo.Props.C15.xyPoint_eq
#print axioms SMGo.Props.C15.baseMult_rep
#print axioms SMGo.Props.C15.mult_rep
#print axioms SMGo.Props.C15.mixedMult_rep
#print axioms SMGo.Props.C15.test_bytes_generator
