/-
  Property C09, the Go glue — "the whole of GCM sealing and opening … execute an instruction sequence
  and touch memory addresses that depend only on the lengths of their inputs, never on key, plaintext,
  ciphertext or hash-key bytes; the single data-dependent decision is the final tag-match verdict of Open."
  (Property theorems only.)

  The certificates of SMGo/Props/C09.lean are about the ASSEMBLY routines.  On arm64 the control of GCM is
  ordinary Go around the NEON leaf kernels (sm4_gcm_arm64.go: Seal, Open, calculateFirstCounter, gHashUpdate,
  gHashFinish, cryptoBlocks with its 256/128/64/32/16-byte ladder and the remainder loop, the counter
  helpers, ensureCapacity), on amd64 there are Go wrappers around sealAsm / openAsm (sm4_gcm_amd64.go), and
  on both the block-cipher wrappers and constructors (sm4_asm.go: newCipher, Encrypt, Decrypt; sm4_gcm.go:
  NewGCM).  This file covers that Go code with the technique of C08:

    * the functions are TRANSLATED (translator sub-command `ctirsm4`) to the CT-IR of SMGo/Model/CTIR.lean,
      one program per architecture (SMGo/Gen/CTIRProgSM4.lean: `Arm64.prog`, 18 functions; `Amd64.prog`,
      8 functions);
    * labels: key material (round keys, the cipher value), nonce, plaintext, ciphertext, additional
      data, tag, counter and hash-key BYTES are secret; lengths, capacities, the tag and nonce sizes
      and block counts are public;
    * `ct_*`: the label checker accepts every function (kernel evaluation);
    * `sites_*`: the ONLY declassification site of each program is the verdict of Open
      (arm64: `subtle.ConstantTimeCompare(expectedTag[:g.tagSize], tag) != 1`, sm4_gcm_arm64.go:69;
      amd64: `tagMatch != 0x1`, sm4_gcm_amd64.go:52);
    * `*_trace`: two completed runs with equal public inputs (sizes, lengths, capacity), secret
      inputs of the same lengths and the same verdict leak the same trace: branch decisions,
      loop-condition outcomes, indices, slice bounds, allocation sizes, callees, and the frame records
      of the assembly calls; `*_progress`: completion transfers (same fuel).

  Composition with the certificates of the routines (audit item C09-2).  An assembly routine is an
  external call of the program; its model is ANY function of the argument values that returns arrays
  of the lengths of its destination arguments (`asmOracle asmSpecs sem`, `asmOracle_rel`: the hypothesis of
  the soundness theorem holds for every `sem`).  What a routine executes given its frame is certified in
  Props/C09.lean under the premise that the frame (every argument that is not a pointer to data: counts,
  sizes, slice lengths) is public.  Here that premise is a CHECKED fact: `frames_*` — every call of a
  routine directly follows a leaking record `asm.frame` of the routine and all its non-pointer arguments
  (for a slice argument, its length), and the checker forces the arguments of a leaking call to be
  public.  Pointer arguments are `&a[i]` with a public i (slice events of the trace).  `needExpand`
  (amd64) reads nothing but its frame: it is a leaking call on (len, cap, asked) with a public result.

  Premises and idealisations, stated plainly.
    * "On CPUs where the accelerated path is selected": `candoAsm` is true, the branch of newCipher to the
      portable cipher is not followed.  The portable cipher (sm4.go: T-table look-ups indexed by state
      bytes) is outside C09 and is not claimed constant time.
    * The arm64 trampoline cryptoBlockAsmX16 (one line: cryptoBlockAsmX16Internal(rk, dst, src, dst)) takes
      raw pointers into arrays and is taken as the routine itself.
    * A slice that is a window of another variable's storage and is written through is a pair
      (base, public offset); `cap(dst)` is a public parameter `dst$cap`; `dst[:len+asked]` within the
      capacity extends dst by zero bytes (the model does not know the bytes of the backing array
      beyond len; they are overwritten before they are read).  Value semantics under the aliasing
      discipline of the translator; `p == nil` is false; an error value is the integer 1;
      `g.cipher.Encrypt` is the method of *sm4CipherAsm (the value NewGCM stores in the interface field);
      the receiver *sm4GcmAsm is replaced by its four fields.
    * Correspondence: the harness (runner C09G) compares the results of the IR interpreter — with the
      routines modelled by the specification (Spec.SM4, Spec.GCM) — with the real code: the arm64 glue
      run with portable stand-in kernels (go/arm64glue), the amd64 path natively; and compares the
      traces of pairs of runs with different keys and data of equal lengths.
-/
import SMGo.Model.CTIR
import SMGo.Gen.CTIRProgSM4
import SMGo.Proofs.CTIRSound
import SMGo.Proofs.CTIROracleAsm
import SMGo.Proofs.CTIRCheckSM4
namespace SMGo.Props.C09Glue
open SMGo.Model.CTIR

/-! ## The external world: any model of the assembly routines -/

theorem asmOracle_rel_arm64 (sem : Nat → List Val → Nat → List Int) :
    OracleRel SMGo.Gen.CTIRProgSM4.Arm64.sigs (asmOracle SMGo.Gen.CTIRProgSM4.Arm64.asmSpecs sem) (asmOracle SMGo.Gen.CTIRProgSM4.Arm64.asmSpecs sem) :=
  asmOracle_rel SMGo.Gen.CTIRProgSM4.Arm64.sigs SMGo.Gen.CTIRProgSM4.Arm64.asmSpecs SMGo.Proofs.CTIRCheckSM4.Arm64.specs_ok sem

theorem asmOracle_rel_amd64 (sem : Nat → List Val → Nat → List Int) :
    OracleRel SMGo.Gen.CTIRProgSM4.Amd64.sigs (asmOracle SMGo.Gen.CTIRProgSM4.Amd64.asmSpecs sem) (asmOracle SMGo.Gen.CTIRProgSM4.Amd64.asmSpecs sem) :=
  asmOracle_rel SMGo.Gen.CTIRProgSM4.Amd64.sigs SMGo.Gen.CTIRProgSM4.Amd64.asmSpecs SMGo.Proofs.CTIRCheckSM4.Amd64.specs_ok sem

/-! ## The frame discipline and the declassification sites -/

theorem frames_arm64 : framed SMGo.Gen.CTIRProgSM4.Arm64.prog SMGo.Gen.CTIRProgSM4.Arm64.asmSpecs SMGo.Gen.CTIRProgSM4.Arm64.frameExt = true := SMGo.Proofs.CTIRCheckSM4.Arm64.frames
theorem frames_amd64 : framed SMGo.Gen.CTIRProgSM4.Amd64.prog SMGo.Gen.CTIRProgSM4.Amd64.asmSpecs SMGo.Gen.CTIRProgSM4.Amd64.frameExt = true := SMGo.Proofs.CTIRCheckSM4.Amd64.frames

/-- every declassification in the arm64 glue: one use of site 0, the verdict of Open -/
theorem sites_arm64 : SMGo.Gen.CTIRProgSM4.Arm64.prog.flatMap (fun fn => sitesS fn.body) = [0] := SMGo.Proofs.CTIRCheckSM4.Arm64.sites_all
theorem sites_amd64 : SMGo.Gen.CTIRProgSM4.Amd64.prog.flatMap (fun fn => sitesS fn.body) = [0] := SMGo.Proofs.CTIRCheckSM4.Amd64.sites_all
theorem sites_Open_arm64 : sitesOf SMGo.Gen.CTIRProgSM4.Arm64.prog SMGo.Gen.CTIRProgSM4.Arm64.f_sm4_sm4GcmAsm_Open = [0] := SMGo.Proofs.CTIRCheckSM4.Arm64.sites_Open
theorem sites_Open_amd64 : sitesOf SMGo.Gen.CTIRProgSM4.Amd64.prog SMGo.Gen.CTIRProgSM4.Amd64.f_sm4_sm4GcmAsm_Open = [0] := SMGo.Proofs.CTIRCheckSM4.Amd64.sites_Open
theorem sites_Seal_arm64 : sitesOf SMGo.Gen.CTIRProgSM4.Arm64.prog SMGo.Gen.CTIRProgSM4.Arm64.f_sm4_sm4GcmAsm_Seal = [] := SMGo.Proofs.CTIRCheckSM4.Arm64.sites_Seal
theorem sites_Seal_amd64 : sitesOf SMGo.Gen.CTIRProgSM4.Amd64.prog SMGo.Gen.CTIRProgSM4.Amd64.f_sm4_sm4GcmAsm_Seal = [] := SMGo.Proofs.CTIRCheckSM4.Amd64.sites_Seal
theorem prog_length_arm64 : SMGo.Gen.CTIRProgSM4.Arm64.prog.length = 18 := SMGo.Proofs.CTIRCheckSM4.Arm64.prog_length
theorem prog_length_amd64 : SMGo.Gen.CTIRProgSM4.Amd64.prog.length = 8 := SMGo.Proofs.CTIRCheckSM4.Amd64.prog_length

/-! ## Per-function instances of the check -/

theorem ct_arm64_Seal : check (slice SMGo.Gen.CTIRProgSM4.Arm64.prog SMGo.Gen.CTIRProgSM4.Arm64.f_sm4_sm4GcmAsm_Seal) SMGo.Gen.CTIRProgSM4.Arm64.sigs SMGo.Gen.CTIRProgSM4.Arm64.f_sm4_sm4GcmAsm_Seal = true := SMGo.Proofs.CTIRCheckSM4.Arm64.ct_Seal
theorem ct_arm64_Encrypt : check (slice SMGo.Gen.CTIRProgSM4.Arm64.prog SMGo.Gen.CTIRProgSM4.Arm64.f_sm4_sm4CipherAsm_Encrypt) SMGo.Gen.CTIRProgSM4.Arm64.sigs SMGo.Gen.CTIRProgSM4.Arm64.f_sm4_sm4CipherAsm_Encrypt = true := SMGo.Proofs.CTIRCheckSM4.Arm64.ct_Encrypt
theorem ct_arm64_calculateFirstCounter : check (slice SMGo.Gen.CTIRProgSM4.Arm64.prog SMGo.Gen.CTIRProgSM4.Arm64.f_sm4_sm4GcmAsm_calculateFirstCounter) SMGo.Gen.CTIRProgSM4.Arm64.sigs SMGo.Gen.CTIRProgSM4.Arm64.f_sm4_sm4GcmAsm_calculateFirstCounter = true := SMGo.Proofs.CTIRCheckSM4.Arm64.ct_calculateFirstCounter
theorem ct_arm64_gHashUpdate : check (slice SMGo.Gen.CTIRProgSM4.Arm64.prog SMGo.Gen.CTIRProgSM4.Arm64.f_sm4_sm4GcmAsm_gHashUpdate) SMGo.Gen.CTIRProgSM4.Arm64.sigs SMGo.Gen.CTIRProgSM4.Arm64.f_sm4_sm4GcmAsm_gHashUpdate = true := SMGo.Proofs.CTIRCheckSM4.Arm64.ct_gHashUpdate
theorem ct_arm64_gHashFinish : check (slice SMGo.Gen.CTIRProgSM4.Arm64.prog SMGo.Gen.CTIRProgSM4.Arm64.f_sm4_sm4GcmAsm_gHashFinish) SMGo.Gen.CTIRProgSM4.Arm64.sigs SMGo.Gen.CTIRProgSM4.Arm64.f_sm4_sm4GcmAsm_gHashFinish = true := SMGo.Proofs.CTIRCheckSM4.Arm64.ct_gHashFinish
theorem ct_arm64_ensureCapacity : check (slice SMGo.Gen.CTIRProgSM4.Arm64.prog SMGo.Gen.CTIRProgSM4.Arm64.f_sm4_ensureCapacity) SMGo.Gen.CTIRProgSM4.Arm64.sigs SMGo.Gen.CTIRProgSM4.Arm64.f_sm4_ensureCapacity = true := SMGo.Proofs.CTIRCheckSM4.Arm64.ct_ensureCapacity
theorem ct_arm64_cryptoBlocks : check (slice SMGo.Gen.CTIRProgSM4.Arm64.prog SMGo.Gen.CTIRProgSM4.Arm64.f_sm4_sm4GcmAsm_cryptoBlocks) SMGo.Gen.CTIRProgSM4.Arm64.sigs SMGo.Gen.CTIRProgSM4.Arm64.f_sm4_sm4GcmAsm_cryptoBlocks = true := SMGo.Proofs.CTIRCheckSM4.Arm64.ct_cryptoBlocks
theorem ct_arm64_fillCounter256 : check (slice SMGo.Gen.CTIRProgSM4.Arm64.prog SMGo.Gen.CTIRProgSM4.Arm64.f_sm4_fillCounter256) SMGo.Gen.CTIRProgSM4.Arm64.sigs SMGo.Gen.CTIRProgSM4.Arm64.f_sm4_fillCounter256 = true := SMGo.Proofs.CTIRCheckSM4.Arm64.ct_fillCounter256
theorem ct_arm64_fillSingleBlock : check (slice SMGo.Gen.CTIRProgSM4.Arm64.prog SMGo.Gen.CTIRProgSM4.Arm64.f_sm4_fillSingleBlock) SMGo.Gen.CTIRProgSM4.Arm64.sigs SMGo.Gen.CTIRProgSM4.Arm64.f_sm4_fillSingleBlock = true := SMGo.Proofs.CTIRCheckSM4.Arm64.ct_fillSingleBlock
theorem ct_arm64_fillCounter128 : check (slice SMGo.Gen.CTIRProgSM4.Arm64.prog SMGo.Gen.CTIRProgSM4.Arm64.f_sm4_fillCounter128) SMGo.Gen.CTIRProgSM4.Arm64.sigs SMGo.Gen.CTIRProgSM4.Arm64.f_sm4_fillCounter128 = true := SMGo.Proofs.CTIRCheckSM4.Arm64.ct_fillCounter128
theorem ct_arm64_fillCounter64 : check (slice SMGo.Gen.CTIRProgSM4.Arm64.prog SMGo.Gen.CTIRProgSM4.Arm64.f_sm4_fillCounter64) SMGo.Gen.CTIRProgSM4.Arm64.sigs SMGo.Gen.CTIRProgSM4.Arm64.f_sm4_fillCounter64 = true := SMGo.Proofs.CTIRCheckSM4.Arm64.ct_fillCounter64
theorem ct_arm64_fillCounter32 : check (slice SMGo.Gen.CTIRProgSM4.Arm64.prog SMGo.Gen.CTIRProgSM4.Arm64.f_sm4_fillCounter32) SMGo.Gen.CTIRProgSM4.Arm64.sigs SMGo.Gen.CTIRProgSM4.Arm64.f_sm4_fillCounter32 = true := SMGo.Proofs.CTIRCheckSM4.Arm64.ct_fillCounter32
theorem ct_arm64_fillCounter16 : check (slice SMGo.Gen.CTIRProgSM4.Arm64.prog SMGo.Gen.CTIRProgSM4.Arm64.f_sm4_fillCounter16) SMGo.Gen.CTIRProgSM4.Arm64.sigs SMGo.Gen.CTIRProgSM4.Arm64.f_sm4_fillCounter16 = true := SMGo.Proofs.CTIRCheckSM4.Arm64.ct_fillCounter16
theorem ct_arm64_Open : check (slice SMGo.Gen.CTIRProgSM4.Arm64.prog SMGo.Gen.CTIRProgSM4.Arm64.f_sm4_sm4GcmAsm_Open) SMGo.Gen.CTIRProgSM4.Arm64.sigs SMGo.Gen.CTIRProgSM4.Arm64.f_sm4_sm4GcmAsm_Open = true := SMGo.Proofs.CTIRCheckSM4.Arm64.ct_Open
theorem ct_arm64_init_errOpen : check (slice SMGo.Gen.CTIRProgSM4.Arm64.prog SMGo.Gen.CTIRProgSM4.Arm64.f_init_sm4_errOpen) SMGo.Gen.CTIRProgSM4.Arm64.sigs SMGo.Gen.CTIRProgSM4.Arm64.f_init_sm4_errOpen = true := SMGo.Proofs.CTIRCheckSM4.Arm64.ct_init_errOpen
theorem ct_arm64_Decrypt : check (slice SMGo.Gen.CTIRProgSM4.Arm64.prog SMGo.Gen.CTIRProgSM4.Arm64.f_sm4_sm4CipherAsm_Decrypt) SMGo.Gen.CTIRProgSM4.Arm64.sigs SMGo.Gen.CTIRProgSM4.Arm64.f_sm4_sm4CipherAsm_Decrypt = true := SMGo.Proofs.CTIRCheckSM4.Arm64.ct_Decrypt
theorem ct_arm64_NewGCM : check (slice SMGo.Gen.CTIRProgSM4.Arm64.prog SMGo.Gen.CTIRProgSM4.Arm64.f_sm4_sm4CipherAsm_NewGCM) SMGo.Gen.CTIRProgSM4.Arm64.sigs SMGo.Gen.CTIRProgSM4.Arm64.f_sm4_sm4CipherAsm_NewGCM = true := SMGo.Proofs.CTIRCheckSM4.Arm64.ct_NewGCM
theorem ct_arm64_newCipher : check (slice SMGo.Gen.CTIRProgSM4.Arm64.prog SMGo.Gen.CTIRProgSM4.Arm64.f_sm4_newCipher) SMGo.Gen.CTIRProgSM4.Arm64.sigs SMGo.Gen.CTIRProgSM4.Arm64.f_sm4_newCipher = true := SMGo.Proofs.CTIRCheckSM4.Arm64.ct_newCipher

theorem ct_amd64_Seal : check (slice SMGo.Gen.CTIRProgSM4.Amd64.prog SMGo.Gen.CTIRProgSM4.Amd64.f_sm4_sm4GcmAsm_Seal) SMGo.Gen.CTIRProgSM4.Amd64.sigs SMGo.Gen.CTIRProgSM4.Amd64.f_sm4_sm4GcmAsm_Seal = true := SMGo.Proofs.CTIRCheckSM4.Amd64.ct_Seal
theorem ct_amd64_ensureCapacity : check (slice SMGo.Gen.CTIRProgSM4.Amd64.prog SMGo.Gen.CTIRProgSM4.Amd64.f_sm4_ensureCapacity) SMGo.Gen.CTIRProgSM4.Amd64.sigs SMGo.Gen.CTIRProgSM4.Amd64.f_sm4_ensureCapacity = true := SMGo.Proofs.CTIRCheckSM4.Amd64.ct_ensureCapacity
theorem ct_amd64_Open : check (slice SMGo.Gen.CTIRProgSM4.Amd64.prog SMGo.Gen.CTIRProgSM4.Amd64.f_sm4_sm4GcmAsm_Open) SMGo.Gen.CTIRProgSM4.Amd64.sigs SMGo.Gen.CTIRProgSM4.Amd64.f_sm4_sm4GcmAsm_Open = true := SMGo.Proofs.CTIRCheckSM4.Amd64.ct_Open
theorem ct_amd64_init_errOpen : check (slice SMGo.Gen.CTIRProgSM4.Amd64.prog SMGo.Gen.CTIRProgSM4.Amd64.f_init_sm4_errOpen) SMGo.Gen.CTIRProgSM4.Amd64.sigs SMGo.Gen.CTIRProgSM4.Amd64.f_init_sm4_errOpen = true := SMGo.Proofs.CTIRCheckSM4.Amd64.ct_init_errOpen
theorem ct_amd64_Encrypt : check (slice SMGo.Gen.CTIRProgSM4.Amd64.prog SMGo.Gen.CTIRProgSM4.Amd64.f_sm4_sm4CipherAsm_Encrypt) SMGo.Gen.CTIRProgSM4.Amd64.sigs SMGo.Gen.CTIRProgSM4.Amd64.f_sm4_sm4CipherAsm_Encrypt = true := SMGo.Proofs.CTIRCheckSM4.Amd64.ct_Encrypt
theorem ct_amd64_Decrypt : check (slice SMGo.Gen.CTIRProgSM4.Amd64.prog SMGo.Gen.CTIRProgSM4.Amd64.f_sm4_sm4CipherAsm_Decrypt) SMGo.Gen.CTIRProgSM4.Amd64.sigs SMGo.Gen.CTIRProgSM4.Amd64.f_sm4_sm4CipherAsm_Decrypt = true := SMGo.Proofs.CTIRCheckSM4.Amd64.ct_Decrypt
theorem ct_amd64_NewGCM : check (slice SMGo.Gen.CTIRProgSM4.Amd64.prog SMGo.Gen.CTIRProgSM4.Amd64.f_sm4_sm4CipherAsm_NewGCM) SMGo.Gen.CTIRProgSM4.Amd64.sigs SMGo.Gen.CTIRProgSM4.Amd64.f_sm4_sm4CipherAsm_NewGCM = true := SMGo.Proofs.CTIRCheckSM4.Amd64.ct_NewGCM
theorem ct_amd64_newCipher : check (slice SMGo.Gen.CTIRProgSM4.Amd64.prog SMGo.Gen.CTIRProgSM4.Amd64.f_sm4_newCipher) SMGo.Gen.CTIRProgSM4.Amd64.sigs SMGo.Gen.CTIRProgSM4.Amd64.f_sm4_newCipher = true := SMGo.Proofs.CTIRCheckSM4.Amd64.ct_newCipher

/-! ## Entry points

  Arguments of Seal / Open in the IR: the cipher value and the round keys (secret), nonceSize and tagSize
  (public), dst, nonce, plaintext / ciphertext‖tag, additional data (secret bytes, public lengths) and
  the capacity of dst (public). -/

/-- arm64 Seal: any two keys, nonces, plaintexts and additional data of the same lengths, any model of the NEON kernels: the same leakage trace (Seal has no declassification site: both verdict lists are empty) -/
theorem Seal_arm64_trace (sem : Nat → List Val → Nat → List Int)
    (cipher1 cipher2 rk1 rk2 nonceSize tagSize dst1 dst2 nonce1 nonce2 data1 data2 aad1 aad2 dstCap : Val)
    (hc : cipher1.erase = cipher2.erase) (hk : rk1.erase = rk2.erase) (hd : dst1.erase = dst2.erase)
    (hn : nonce1.erase = nonce2.erase) (hp : data1.erase = data2.erase) (ha : aad1.erase = aad2.erase)
    (f1 f2 : Nat) (c1 c2 : Ctl) (t1 t2 : Trace)
    (h1 : run (slice SMGo.Gen.CTIRProgSM4.Arm64.prog SMGo.Gen.CTIRProgSM4.Arm64.f_sm4_sm4GcmAsm_Seal) SMGo.Gen.CTIRProgSM4.Arm64.globals (asmOracle SMGo.Gen.CTIRProgSM4.Arm64.asmSpecs sem) f1 SMGo.Gen.CTIRProgSM4.Arm64.f_sm4_sm4GcmAsm_Seal
            [cipher1, rk1, nonceSize, tagSize, dst1, nonce1, data1, aad1, dstCap] = some (c1, t1))
    (h2 : run (slice SMGo.Gen.CTIRProgSM4.Arm64.prog SMGo.Gen.CTIRProgSM4.Arm64.f_sm4_sm4GcmAsm_Seal) SMGo.Gen.CTIRProgSM4.Arm64.globals (asmOracle SMGo.Gen.CTIRProgSM4.Arm64.asmSpecs sem) f2 SMGo.Gen.CTIRProgSM4.Arm64.f_sm4_sm4GcmAsm_Seal
            [cipher2, rk2, nonceSize, tagSize, dst2, nonce2, data2, aad2, dstCap] = some (c2, t2))
    (hv : declassOf t1 = declassOf t2) : t1 = t2 :=
  (check_sound_trace (slice SMGo.Gen.CTIRProgSM4.Arm64.prog SMGo.Gen.CTIRProgSM4.Arm64.f_sm4_sm4GcmAsm_Seal) SMGo.Gen.CTIRProgSM4.Arm64.sigs SMGo.Gen.CTIRProgSM4.Arm64.globals _ _ (asmOracle_rel_arm64 sem) SMGo.Gen.CTIRProgSM4.Arm64.f_sm4_sm4GcmAsm_Seal ct_arm64_Seal _ rfl
    [cipher1, rk1, nonceSize, tagSize, dst1, nonce1, data1, aad1, dstCap]
    [cipher2, rk2, nonceSize, tagSize, dst2, nonce2, data2, aad2, dstCap]
    ⟨hc, hk, rfl, rfl, hd, hn, hp, ha, rfl, trivial⟩ f1 f2 c1 c2 t1 t2 h1 h2 hv).1

/-- … and completion transfers: the second run, with the same fuel, completes with the same trace when
    the verdicts met on its trace so far are those of the first -/
theorem Seal_arm64_progress (sem : Nat → List Val → Nat → List Int)
    (cipher1 cipher2 rk1 rk2 nonceSize tagSize dst1 dst2 nonce1 nonce2 data1 data2 aad1 aad2 dstCap : Val)
    (hc : cipher1.erase = cipher2.erase) (hk : rk1.erase = rk2.erase) (hd : dst1.erase = dst2.erase)
    (hn : nonce1.erase = nonce2.erase) (hp : data1.erase = data2.erase) (ha : aad1.erase = aad2.erase)
    (f : Nat) (c1 : Ctl) (t1 : Trace)
    (h1 : run (slice SMGo.Gen.CTIRProgSM4.Arm64.prog SMGo.Gen.CTIRProgSM4.Arm64.f_sm4_sm4GcmAsm_Seal) SMGo.Gen.CTIRProgSM4.Arm64.globals (asmOracle SMGo.Gen.CTIRProgSM4.Arm64.asmSpecs sem) f SMGo.Gen.CTIRProgSM4.Arm64.f_sm4_sm4GcmAsm_Seal
            [cipher1, rk1, nonceSize, tagSize, dst1, nonce1, data1, aad1, dstCap] = some (c1, t1))
    (hv : declassOf t1 = declassOf (runT (slice SMGo.Gen.CTIRProgSM4.Arm64.prog SMGo.Gen.CTIRProgSM4.Arm64.f_sm4_sm4GcmAsm_Seal) SMGo.Gen.CTIRProgSM4.Arm64.globals (asmOracle SMGo.Gen.CTIRProgSM4.Arm64.asmSpecs sem) f SMGo.Gen.CTIRProgSM4.Arm64.f_sm4_sm4GcmAsm_Seal
            [cipher2, rk2, nonceSize, tagSize, dst2, nonce2, data2, aad2, dstCap]).2) :
    ∃ c2, run (slice SMGo.Gen.CTIRProgSM4.Arm64.prog SMGo.Gen.CTIRProgSM4.Arm64.f_sm4_sm4GcmAsm_Seal) SMGo.Gen.CTIRProgSM4.Arm64.globals (asmOracle SMGo.Gen.CTIRProgSM4.Arm64.asmSpecs sem) f SMGo.Gen.CTIRProgSM4.Arm64.f_sm4_sm4GcmAsm_Seal
            [cipher2, rk2, nonceSize, tagSize, dst2, nonce2, data2, aad2, dstCap] = some (c2, t1) :=
  let ⟨c2, h, _⟩ := check_progress_verdicts (slice SMGo.Gen.CTIRProgSM4.Arm64.prog SMGo.Gen.CTIRProgSM4.Arm64.f_sm4_sm4GcmAsm_Seal) SMGo.Gen.CTIRProgSM4.Arm64.sigs SMGo.Gen.CTIRProgSM4.Arm64.globals _ _ (asmOracle_rel_arm64 sem) SMGo.Gen.CTIRProgSM4.Arm64.f_sm4_sm4GcmAsm_Seal ct_arm64_Seal _ rfl
    [cipher1, rk1, nonceSize, tagSize, dst1, nonce1, data1, aad1, dstCap]
    [cipher2, rk2, nonceSize, tagSize, dst2, nonce2, data2, aad2, dstCap]
    ⟨hc, hk, rfl, rfl, hd, hn, hp, ha, rfl, trivial⟩ f c1 t1 h1 hv
  ⟨c2, h⟩

/-- arm64 Open: the same, given the same tag-match verdict -/
theorem Open_arm64_trace (sem : Nat → List Val → Nat → List Int)
    (cipher1 cipher2 rk1 rk2 nonceSize tagSize dst1 dst2 nonce1 nonce2 data1 data2 aad1 aad2 dstCap : Val)
    (hc : cipher1.erase = cipher2.erase) (hk : rk1.erase = rk2.erase) (hd : dst1.erase = dst2.erase)
    (hn : nonce1.erase = nonce2.erase) (hp : data1.erase = data2.erase) (ha : aad1.erase = aad2.erase)
    (f1 f2 : Nat) (c1 c2 : Ctl) (t1 t2 : Trace)
    (h1 : run (slice SMGo.Gen.CTIRProgSM4.Arm64.prog SMGo.Gen.CTIRProgSM4.Arm64.f_sm4_sm4GcmAsm_Open) SMGo.Gen.CTIRProgSM4.Arm64.globals (asmOracle SMGo.Gen.CTIRProgSM4.Arm64.asmSpecs sem) f1 SMGo.Gen.CTIRProgSM4.Arm64.f_sm4_sm4GcmAsm_Open
            [cipher1, rk1, nonceSize, tagSize, dst1, nonce1, data1, aad1, dstCap] = some (c1, t1))
    (h2 : run (slice SMGo.Gen.CTIRProgSM4.Arm64.prog SMGo.Gen.CTIRProgSM4.Arm64.f_sm4_sm4GcmAsm_Open) SMGo.Gen.CTIRProgSM4.Arm64.globals (asmOracle SMGo.Gen.CTIRProgSM4.Arm64.asmSpecs sem) f2 SMGo.Gen.CTIRProgSM4.Arm64.f_sm4_sm4GcmAsm_Open
            [cipher2, rk2, nonceSize, tagSize, dst2, nonce2, data2, aad2, dstCap] = some (c2, t2))
    (hv : declassOf t1 = declassOf t2) : t1 = t2 :=
  (check_sound_trace (slice SMGo.Gen.CTIRProgSM4.Arm64.prog SMGo.Gen.CTIRProgSM4.Arm64.f_sm4_sm4GcmAsm_Open) SMGo.Gen.CTIRProgSM4.Arm64.sigs SMGo.Gen.CTIRProgSM4.Arm64.globals _ _ (asmOracle_rel_arm64 sem) SMGo.Gen.CTIRProgSM4.Arm64.f_sm4_sm4GcmAsm_Open ct_arm64_Open _ rfl
    [cipher1, rk1, nonceSize, tagSize, dst1, nonce1, data1, aad1, dstCap]
    [cipher2, rk2, nonceSize, tagSize, dst2, nonce2, data2, aad2, dstCap]
    ⟨hc, hk, rfl, rfl, hd, hn, hp, ha, rfl, trivial⟩ f1 f2 c1 c2 t1 t2 h1 h2 hv).1

/-- … and completion transfers: the second run, with the same fuel, completes with the same trace when
    the verdicts met on its trace so far are those of the first -/
theorem Open_arm64_progress (sem : Nat → List Val → Nat → List Int)
    (cipher1 cipher2 rk1 rk2 nonceSize tagSize dst1 dst2 nonce1 nonce2 data1 data2 aad1 aad2 dstCap : Val)
    (hc : cipher1.erase = cipher2.erase) (hk : rk1.erase = rk2.erase) (hd : dst1.erase = dst2.erase)
    (hn : nonce1.erase = nonce2.erase) (hp : data1.erase = data2.erase) (ha : aad1.erase = aad2.erase)
    (f : Nat) (c1 : Ctl) (t1 : Trace)
    (h1 : run (slice SMGo.Gen.CTIRProgSM4.Arm64.prog SMGo.Gen.CTIRProgSM4.Arm64.f_sm4_sm4GcmAsm_Open) SMGo.Gen.CTIRProgSM4.Arm64.globals (asmOracle SMGo.Gen.CTIRProgSM4.Arm64.asmSpecs sem) f SMGo.Gen.CTIRProgSM4.Arm64.f_sm4_sm4GcmAsm_Open
            [cipher1, rk1, nonceSize, tagSize, dst1, nonce1, data1, aad1, dstCap] = some (c1, t1))
    (hv : declassOf t1 = declassOf (runT (slice SMGo.Gen.CTIRProgSM4.Arm64.prog SMGo.Gen.CTIRProgSM4.Arm64.f_sm4_sm4GcmAsm_Open) SMGo.Gen.CTIRProgSM4.Arm64.globals (asmOracle SMGo.Gen.CTIRProgSM4.Arm64.asmSpecs sem) f SMGo.Gen.CTIRProgSM4.Arm64.f_sm4_sm4GcmAsm_Open
            [cipher2, rk2, nonceSize, tagSize, dst2, nonce2, data2, aad2, dstCap]).2) :
    ∃ c2, run (slice SMGo.Gen.CTIRProgSM4.Arm64.prog SMGo.Gen.CTIRProgSM4.Arm64.f_sm4_sm4GcmAsm_Open) SMGo.Gen.CTIRProgSM4.Arm64.globals (asmOracle SMGo.Gen.CTIRProgSM4.Arm64.asmSpecs sem) f SMGo.Gen.CTIRProgSM4.Arm64.f_sm4_sm4GcmAsm_Open
            [cipher2, rk2, nonceSize, tagSize, dst2, nonce2, data2, aad2, dstCap] = some (c2, t1) :=
  let ⟨c2, h, _⟩ := check_progress_verdicts (slice SMGo.Gen.CTIRProgSM4.Arm64.prog SMGo.Gen.CTIRProgSM4.Arm64.f_sm4_sm4GcmAsm_Open) SMGo.Gen.CTIRProgSM4.Arm64.sigs SMGo.Gen.CTIRProgSM4.Arm64.globals _ _ (asmOracle_rel_arm64 sem) SMGo.Gen.CTIRProgSM4.Arm64.f_sm4_sm4GcmAsm_Open ct_arm64_Open _ rfl
    [cipher1, rk1, nonceSize, tagSize, dst1, nonce1, data1, aad1, dstCap]
    [cipher2, rk2, nonceSize, tagSize, dst2, nonce2, data2, aad2, dstCap]
    ⟨hc, hk, rfl, rfl, hd, hn, hp, ha, rfl, trivial⟩ f c1 t1 h1 hv
  ⟨c2, h⟩

/-- amd64 Seal (Go wrapper around sealAsm) -/
theorem Seal_amd64_trace (sem : Nat → List Val → Nat → List Int)
    (cipher1 cipher2 rk1 rk2 nonceSize tagSize dst1 dst2 nonce1 nonce2 data1 data2 aad1 aad2 dstCap : Val)
    (hc : cipher1.erase = cipher2.erase) (hk : rk1.erase = rk2.erase) (hd : dst1.erase = dst2.erase)
    (hn : nonce1.erase = nonce2.erase) (hp : data1.erase = data2.erase) (ha : aad1.erase = aad2.erase)
    (f1 f2 : Nat) (c1 c2 : Ctl) (t1 t2 : Trace)
    (h1 : run (slice SMGo.Gen.CTIRProgSM4.Amd64.prog SMGo.Gen.CTIRProgSM4.Amd64.f_sm4_sm4GcmAsm_Seal) SMGo.Gen.CTIRProgSM4.Amd64.globals (asmOracle SMGo.Gen.CTIRProgSM4.Amd64.asmSpecs sem) f1 SMGo.Gen.CTIRProgSM4.Amd64.f_sm4_sm4GcmAsm_Seal
            [cipher1, rk1, nonceSize, tagSize, dst1, nonce1, data1, aad1, dstCap] = some (c1, t1))
    (h2 : run (slice SMGo.Gen.CTIRProgSM4.Amd64.prog SMGo.Gen.CTIRProgSM4.Amd64.f_sm4_sm4GcmAsm_Seal) SMGo.Gen.CTIRProgSM4.Amd64.globals (asmOracle SMGo.Gen.CTIRProgSM4.Amd64.asmSpecs sem) f2 SMGo.Gen.CTIRProgSM4.Amd64.f_sm4_sm4GcmAsm_Seal
            [cipher2, rk2, nonceSize, tagSize, dst2, nonce2, data2, aad2, dstCap] = some (c2, t2))
    (hv : declassOf t1 = declassOf t2) : t1 = t2 :=
  (check_sound_trace (slice SMGo.Gen.CTIRProgSM4.Amd64.prog SMGo.Gen.CTIRProgSM4.Amd64.f_sm4_sm4GcmAsm_Seal) SMGo.Gen.CTIRProgSM4.Amd64.sigs SMGo.Gen.CTIRProgSM4.Amd64.globals _ _ (asmOracle_rel_amd64 sem) SMGo.Gen.CTIRProgSM4.Amd64.f_sm4_sm4GcmAsm_Seal ct_amd64_Seal _ rfl
    [cipher1, rk1, nonceSize, tagSize, dst1, nonce1, data1, aad1, dstCap]
    [cipher2, rk2, nonceSize, tagSize, dst2, nonce2, data2, aad2, dstCap]
    ⟨hc, hk, rfl, rfl, hd, hn, hp, ha, rfl, trivial⟩ f1 f2 c1 c2 t1 t2 h1 h2 hv).1

/-- … and completion transfers: the second run, with the same fuel, completes with the same trace when
    the verdicts met on its trace so far are those of the first -/
theorem Seal_amd64_progress (sem : Nat → List Val → Nat → List Int)
    (cipher1 cipher2 rk1 rk2 nonceSize tagSize dst1 dst2 nonce1 nonce2 data1 data2 aad1 aad2 dstCap : Val)
    (hc : cipher1.erase = cipher2.erase) (hk : rk1.erase = rk2.erase) (hd : dst1.erase = dst2.erase)
    (hn : nonce1.erase = nonce2.erase) (hp : data1.erase = data2.erase) (ha : aad1.erase = aad2.erase)
    (f : Nat) (c1 : Ctl) (t1 : Trace)
    (h1 : run (slice SMGo.Gen.CTIRProgSM4.Amd64.prog SMGo.Gen.CTIRProgSM4.Amd64.f_sm4_sm4GcmAsm_Seal) SMGo.Gen.CTIRProgSM4.Amd64.globals (asmOracle SMGo.Gen.CTIRProgSM4.Amd64.asmSpecs sem) f SMGo.Gen.CTIRProgSM4.Amd64.f_sm4_sm4GcmAsm_Seal
            [cipher1, rk1, nonceSize, tagSize, dst1, nonce1, data1, aad1, dstCap] = some (c1, t1))
    (hv : declassOf t1 = declassOf (runT (slice SMGo.Gen.CTIRProgSM4.Amd64.prog SMGo.Gen.CTIRProgSM4.Amd64.f_sm4_sm4GcmAsm_Seal) SMGo.Gen.CTIRProgSM4.Amd64.globals (asmOracle SMGo.Gen.CTIRProgSM4.Amd64.asmSpecs sem) f SMGo.Gen.CTIRProgSM4.Amd64.f_sm4_sm4GcmAsm_Seal
            [cipher2, rk2, nonceSize, tagSize, dst2, nonce2, data2, aad2, dstCap]).2) :
    ∃ c2, run (slice SMGo.Gen.CTIRProgSM4.Amd64.prog SMGo.Gen.CTIRProgSM4.Amd64.f_sm4_sm4GcmAsm_Seal) SMGo.Gen.CTIRProgSM4.Amd64.globals (asmOracle SMGo.Gen.CTIRProgSM4.Amd64.asmSpecs sem) f SMGo.Gen.CTIRProgSM4.Amd64.f_sm4_sm4GcmAsm_Seal
            [cipher2, rk2, nonceSize, tagSize, dst2, nonce2, data2, aad2, dstCap] = some (c2, t1) :=
  let ⟨c2, h, _⟩ := check_progress_verdicts (slice SMGo.Gen.CTIRProgSM4.Amd64.prog SMGo.Gen.CTIRProgSM4.Amd64.f_sm4_sm4GcmAsm_Seal) SMGo.Gen.CTIRProgSM4.Amd64.sigs SMGo.Gen.CTIRProgSM4.Amd64.globals _ _ (asmOracle_rel_amd64 sem) SMGo.Gen.CTIRProgSM4.Amd64.f_sm4_sm4GcmAsm_Seal ct_amd64_Seal _ rfl
    [cipher1, rk1, nonceSize, tagSize, dst1, nonce1, data1, aad1, dstCap]
    [cipher2, rk2, nonceSize, tagSize, dst2, nonce2, data2, aad2, dstCap]
    ⟨hc, hk, rfl, rfl, hd, hn, hp, ha, rfl, trivial⟩ f c1 t1 h1 hv
  ⟨c2, h⟩

/-- amd64 Open (Go wrapper around openAsm): the same, given the same tag-match verdict -/
theorem Open_amd64_trace (sem : Nat → List Val → Nat → List Int)
    (cipher1 cipher2 rk1 rk2 nonceSize tagSize dst1 dst2 nonce1 nonce2 data1 data2 aad1 aad2 dstCap : Val)
    (hc : cipher1.erase = cipher2.erase) (hk : rk1.erase = rk2.erase) (hd : dst1.erase = dst2.erase)
    (hn : nonce1.erase = nonce2.erase) (hp : data1.erase = data2.erase) (ha : aad1.erase = aad2.erase)
    (f1 f2 : Nat) (c1 c2 : Ctl) (t1 t2 : Trace)
    (h1 : run (slice SMGo.Gen.CTIRProgSM4.Amd64.prog SMGo.Gen.CTIRProgSM4.Amd64.f_sm4_sm4GcmAsm_Open) SMGo.Gen.CTIRProgSM4.Amd64.globals (asmOracle SMGo.Gen.CTIRProgSM4.Amd64.asmSpecs sem) f1 SMGo.Gen.CTIRProgSM4.Amd64.f_sm4_sm4GcmAsm_Open
            [cipher1, rk1, nonceSize, tagSize, dst1, nonce1, data1, aad1, dstCap] = some (c1, t1))
    (h2 : run (slice SMGo.Gen.CTIRProgSM4.Amd64.prog SMGo.Gen.CTIRProgSM4.Amd64.f_sm4_sm4GcmAsm_Open) SMGo.Gen.CTIRProgSM4.Amd64.globals (asmOracle SMGo.Gen.CTIRProgSM4.Amd64.asmSpecs sem) f2 SMGo.Gen.CTIRProgSM4.Amd64.f_sm4_sm4GcmAsm_Open
            [cipher2, rk2, nonceSize, tagSize, dst2, nonce2, data2, aad2, dstCap] = some (c2, t2))
    (hv : declassOf t1 = declassOf t2) : t1 = t2 :=
  (check_sound_trace (slice SMGo.Gen.CTIRProgSM4.Amd64.prog SMGo.Gen.CTIRProgSM4.Amd64.f_sm4_sm4GcmAsm_Open) SMGo.Gen.CTIRProgSM4.Amd64.sigs SMGo.Gen.CTIRProgSM4.Amd64.globals _ _ (asmOracle_rel_amd64 sem) SMGo.Gen.CTIRProgSM4.Amd64.f_sm4_sm4GcmAsm_Open ct_amd64_Open _ rfl
    [cipher1, rk1, nonceSize, tagSize, dst1, nonce1, data1, aad1, dstCap]
    [cipher2, rk2, nonceSize, tagSize, dst2, nonce2, data2, aad2, dstCap]
    ⟨hc, hk, rfl, rfl, hd, hn, hp, ha, rfl, trivial⟩ f1 f2 c1 c2 t1 t2 h1 h2 hv).1

/-- … and completion transfers: the second run, with the same fuel, completes with the same trace when
    the verdicts met on its trace so far are those of the first -/
theorem Open_amd64_progress (sem : Nat → List Val → Nat → List Int)
    (cipher1 cipher2 rk1 rk2 nonceSize tagSize dst1 dst2 nonce1 nonce2 data1 data2 aad1 aad2 dstCap : Val)
    (hc : cipher1.erase = cipher2.erase) (hk : rk1.erase = rk2.erase) (hd : dst1.erase = dst2.erase)
    (hn : nonce1.erase = nonce2.erase) (hp : data1.erase = data2.erase) (ha : aad1.erase = aad2.erase)
    (f : Nat) (c1 : Ctl) (t1 : Trace)
    (h1 : run (slice SMGo.Gen.CTIRProgSM4.Amd64.prog SMGo.Gen.CTIRProgSM4.Amd64.f_sm4_sm4GcmAsm_Open) SMGo.Gen.CTIRProgSM4.Amd64.globals (asmOracle SMGo.Gen.CTIRProgSM4.Amd64.asmSpecs sem) f SMGo.Gen.CTIRProgSM4.Amd64.f_sm4_sm4GcmAsm_Open
            [cipher1, rk1, nonceSize, tagSize, dst1, nonce1, data1, aad1, dstCap] = some (c1, t1))
    (hv : declassOf t1 = declassOf (runT (slice SMGo.Gen.CTIRProgSM4.Amd64.prog SMGo.Gen.CTIRProgSM4.Amd64.f_sm4_sm4GcmAsm_Open) SMGo.Gen.CTIRProgSM4.Amd64.globals (asmOracle SMGo.Gen.CTIRProgSM4.Amd64.asmSpecs sem) f SMGo.Gen.CTIRProgSM4.Amd64.f_sm4_sm4GcmAsm_Open
            [cipher2, rk2, nonceSize, tagSize, dst2, nonce2, data2, aad2, dstCap]).2) :
    ∃ c2, run (slice SMGo.Gen.CTIRProgSM4.Amd64.prog SMGo.Gen.CTIRProgSM4.Amd64.f_sm4_sm4GcmAsm_Open) SMGo.Gen.CTIRProgSM4.Amd64.globals (asmOracle SMGo.Gen.CTIRProgSM4.Amd64.asmSpecs sem) f SMGo.Gen.CTIRProgSM4.Amd64.f_sm4_sm4GcmAsm_Open
            [cipher2, rk2, nonceSize, tagSize, dst2, nonce2, data2, aad2, dstCap] = some (c2, t1) :=
  let ⟨c2, h, _⟩ := check_progress_verdicts (slice SMGo.Gen.CTIRProgSM4.Amd64.prog SMGo.Gen.CTIRProgSM4.Amd64.f_sm4_sm4GcmAsm_Open) SMGo.Gen.CTIRProgSM4.Amd64.sigs SMGo.Gen.CTIRProgSM4.Amd64.globals _ _ (asmOracle_rel_amd64 sem) SMGo.Gen.CTIRProgSM4.Amd64.f_sm4_sm4GcmAsm_Open ct_amd64_Open _ rfl
    [cipher1, rk1, nonceSize, tagSize, dst1, nonce1, data1, aad1, dstCap]
    [cipher2, rk2, nonceSize, tagSize, dst2, nonce2, data2, aad2, dstCap]
    ⟨hc, hk, rfl, rfl, hd, hn, hp, ha, rfl, trivial⟩ f c1 t1 h1 hv
  ⟨c2, h⟩

/-! ## Non-vacuity: the interpreter completes on a concrete Seal (kernel evaluation, routines = zeros) -/

def sem0 : Nat → List Val → Nat → List Int := fun _ _ _ => []
def zeros (n : Nat) : Val := .arr (List.replicate n (.int 0))
def cipher0 : Val := .arr [.arr [zeros 32, zeros 32]]

/-- 40 bytes of plaintext (two blocks and a remainder of 8), 5 bytes of additional data, 12-byte nonce,
    16-byte tag, no room in dst: the run completes and returns 56 bytes -/
theorem runs_Seal_arm64 :
    (run (slice SMGo.Gen.CTIRProgSM4.Arm64.prog SMGo.Gen.CTIRProgSM4.Arm64.f_sm4_sm4GcmAsm_Seal) SMGo.Gen.CTIRProgSM4.Arm64.globals (asmOracle SMGo.Gen.CTIRProgSM4.Arm64.asmSpecs sem0) 400 SMGo.Gen.CTIRProgSM4.Arm64.f_sm4_sm4GcmAsm_Seal
      [cipher0, zeros 32, .int 12, .int 16, zeros 0, zeros 12, zeros 40, zeros 5, .int 0]).map
      (fun r => match r.1 with | .ret vs => argLen vs 1 | _ => 999) = some 56 := by decide +kernel

/-- a forged tag: Open completes with the error result, the verdict is declassified once -/
theorem runs_Open_arm64_reject :
    (run (slice SMGo.Gen.CTIRProgSM4.Arm64.prog SMGo.Gen.CTIRProgSM4.Arm64.f_sm4_sm4GcmAsm_Open) SMGo.Gen.CTIRProgSM4.Arm64.globals (asmOracle SMGo.Gen.CTIRProgSM4.Arm64.asmSpecs sem0) 400 SMGo.Gen.CTIRProgSM4.Arm64.f_sm4_sm4GcmAsm_Open
      [cipher0, zeros 32, .int 12, .int 16, zeros 0, zeros 12, .arr (List.replicate 30 (.int 1)), zeros 5, .int 0]).map
      (fun r => (declassOf r.2, match r.1 with | .ret vs => argInt vs 2 | _ => 999)) = some ([(0, 1)], 1) := by decide +kernel


/-- arm64 Open ACCEPTS: with the all-zero model of the routines the expected tag is zero, and the
    16-byte zero tag matches: verdict 0 (no mismatch), 14 bytes of plaintext returned, nil error -/
theorem runs_Open_arm64_accept :
    (run (slice SMGo.Gen.CTIRProgSM4.Arm64.prog SMGo.Gen.CTIRProgSM4.Arm64.f_sm4_sm4GcmAsm_Open) SMGo.Gen.CTIRProgSM4.Arm64.globals (asmOracle SMGo.Gen.CTIRProgSM4.Arm64.asmSpecs sem0) 400 SMGo.Gen.CTIRProgSM4.Arm64.f_sm4_sm4GcmAsm_Open
      [cipher0, zeros 32, .int 12, .int 16, zeros 0, zeros 12, zeros 30, zeros 5, .int 0]).map
      (fun r => (declassOf r.2, match r.1 with | .ret vs => (argLen vs 1, argInt vs 2) | _ => (999, 999))) = some ([(0, 0)], (14, 0)) := by decide +kernel

/-- a model of the routines whose integer results are 1 (openAsm reports a matching tag) -/
def sem1 : Nat → List Val → Nat → List Int := fun _ _ _ => [1]

/-- amd64 Seal (wrapper around sealAsm): 40 bytes of plaintext, 16-byte tag, no room in dst: 56 bytes -/
theorem runs_Seal_amd64 :
    (run (slice SMGo.Gen.CTIRProgSM4.Amd64.prog SMGo.Gen.CTIRProgSM4.Amd64.f_sm4_sm4GcmAsm_Seal) SMGo.Gen.CTIRProgSM4.Amd64.globals (asmOracle SMGo.Gen.CTIRProgSM4.Amd64.asmSpecs sem1) 400 SMGo.Gen.CTIRProgSM4.Amd64.f_sm4_sm4GcmAsm_Seal
      [cipher0, zeros 32, .int 12, .int 16, zeros 0, zeros 12, zeros 40, zeros 5, .int 0]).map
      (fun r => match r.1 with | .ret vs => argLen vs 1 | _ => 999) = some 56 := by decide +kernel

/-- amd64 Open ACCEPTS when openAsm returns 1: verdict 0, 14 bytes of plaintext, nil error -/
theorem runs_Open_amd64_accept :
    (run (slice SMGo.Gen.CTIRProgSM4.Amd64.prog SMGo.Gen.CTIRProgSM4.Amd64.f_sm4_sm4GcmAsm_Open) SMGo.Gen.CTIRProgSM4.Amd64.globals (asmOracle SMGo.Gen.CTIRProgSM4.Amd64.asmSpecs sem1) 400 SMGo.Gen.CTIRProgSM4.Amd64.f_sm4_sm4GcmAsm_Open
      [cipher0, zeros 32, .int 12, .int 16, zeros 0, zeros 12, zeros 30, zeros 5, .int 0]).map
      (fun r => (declassOf r.2, match r.1 with | .ret vs => (argLen vs 1, argInt vs 2) | _ => (999, 999))) = some ([(0, 0)], (14, 0)) := by decide +kernel

/-- needExpand answers "allocate" (1), every other routine zeros: openAsm reports a mismatch -/
def semR : Nat → List Val → Nat → List Int :=
  fun name _ _ => if name = SMGo.Gen.CTIRProgSM4.Amd64.x_sm4_needExpand then [1] else []

/-- … and REJECTS when openAsm returns 0 -/
theorem runs_Open_amd64_reject :
    (run (slice SMGo.Gen.CTIRProgSM4.Amd64.prog SMGo.Gen.CTIRProgSM4.Amd64.f_sm4_sm4GcmAsm_Open) SMGo.Gen.CTIRProgSM4.Amd64.globals (asmOracle SMGo.Gen.CTIRProgSM4.Amd64.asmSpecs semR) 400 SMGo.Gen.CTIRProgSM4.Amd64.f_sm4_sm4GcmAsm_Open
      [cipher0, zeros 32, .int 12, .int 16, zeros 0, zeros 12, zeros 30, zeros 5, .int 0]).map
      (fun r => (declassOf r.2, match r.1 with | .ret vs => argInt vs 2 | _ => 999)) = some ([(0, 1)], 1) := by decide +kernel

#print axioms asmOracle_rel_arm64
#print axioms frames_arm64
#print axioms frames_amd64
#print axioms sites_arm64
#print axioms sites_amd64
#print axioms ct_arm64_Seal
#print axioms ct_arm64_Open
#print axioms ct_arm64_cryptoBlocks
#print axioms ct_amd64_Seal
#print axioms ct_amd64_Open
#print axioms Seal_arm64_trace
#print axioms Open_arm64_trace
#print axioms Seal_amd64_trace
#print axioms Open_amd64_trace
#print axioms Open_arm64_progress
#print axioms runs_Seal_arm64
#print axioms runs_Open_arm64_accept
#print axioms runs_Seal_amd64
#print axioms runs_Open_amd64_accept

end SMGo.Props.C09Glue
