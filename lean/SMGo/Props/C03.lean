/-
  Property C03 — VerifyHashed accepts exactly what the standard's verification procedure accepts.
  (Property theorems only; lemmas live in SMGo/Proofs/SM2Verify.lean, SM2Round.lean.)

  "For arbitrary byte strings as public key, digest, r and s, verification returns true if and only
   if the GM/T 0003.2 verification procedure accepts: all five values are 32 bytes, r and s lie in
   [1,n-1], (r+s) mod n is non-zero, the public key is a canonically encoded point on the curve,
   [s]G+[t]P is a finite point and (e+x1) mod n equals r. Every other input is rejected with false
   (and possibly an error) and no input makes it panic."

  Objects.  `Model.SM2.verifyHashed X px py e r s` is the statement-by-statement model of
  `VerifyHashed` in /repo/sm2/sm2.go; its result `.ok b` stands for both `(b, nil)` and
  `(false, err)`, `.panic` for a run-time panic.  `Spec.SM2.verify` is GM/T 0003.2 §7.1 on byte
  strings over the integer-level group law of the specification (the oracle the differential driver
  executes).  `F : CurveFacts X` collects the facts about the layers below sm2.go (point decoding,
  double-scalar multiplication, encodings; properties C14–C16, C18).
-/
import SMGo.Proofs.SM2Verify
import SMGo.Proofs.SM2Round
namespace SMGo.Props.C03
open SMGo SMGo.Model SMGo.Model.SM2 SMGo.Proofs.SM2Facts

variable {α β : Type} {X : Ctx α β}

/-- C03: on arbitrary byte strings `VerifyHashed` returns the standard's verdict (so it never
    panics, and returns true iff the standard accepts) -/
theorem verify_iff_standard (F : CurveFacts X) (px py e r s : Bytes) :
    verifyHashed X px py e r s = .ok (Spec.SM2.verify px py e r s) :=
  Proofs.SM2Verify.verifyHashed_eq F px py e r s

/-- the standard's acceptance condition, spelled out as in the property text -/
theorem standard_accepts_iff (px py e r s : Bytes) :
    Spec.SM2.verify px py e r s = true ↔
      (px.length = 32 ∧ py.length = 32 ∧ e.length = 32 ∧ r.length = 32 ∧ s.length = 32) ∧
      (1 ≤ Bytes.toNatBE r ∧ Bytes.toNatBE r < Spec.SM2.n) ∧
      (1 ≤ Bytes.toNatBE s ∧ Bytes.toNatBE s < Spec.SM2.n) ∧
      (Bytes.toNatBE r + Bytes.toNatBE s) % Spec.SM2.n ≠ 0 ∧
      (Bytes.toNatBE px < Spec.SM2.p ∧ Bytes.toNatBE py < Spec.SM2.p ∧
        Spec.SM2.onCurve (Bytes.toNatBE px) (Bytes.toNatBE py) = true) ∧
      ∃ x1 y1, Spec.SM2.add (Spec.SM2.smul (Bytes.toNatBE s) Spec.SM2.G)
          (Spec.SM2.smul ((Bytes.toNatBE r + Bytes.toNatBE s) % Spec.SM2.n)
            (some (Bytes.toNatBE px, Bytes.toNatBE py))) = some (x1, y1) ∧
        (Bytes.toNatBE e + x1) % Spec.SM2.n = Bytes.toNatBE r :=
  Proofs.SM2Verify.verify_true_iff px py e r s

/-- the code returns true exactly on the inputs described in the property -/
theorem verify_true_iff (F : CurveFacts X) (px py e r s : Bytes) :
    verifyHashed X px py e r s = .ok true ↔
      (px.length = 32 ∧ py.length = 32 ∧ e.length = 32 ∧ r.length = 32 ∧ s.length = 32) ∧
      (1 ≤ Bytes.toNatBE r ∧ Bytes.toNatBE r < Spec.SM2.n) ∧
      (1 ≤ Bytes.toNatBE s ∧ Bytes.toNatBE s < Spec.SM2.n) ∧
      (Bytes.toNatBE r + Bytes.toNatBE s) % Spec.SM2.n ≠ 0 ∧
      (Bytes.toNatBE px < Spec.SM2.p ∧ Bytes.toNatBE py < Spec.SM2.p ∧
        Spec.SM2.onCurve (Bytes.toNatBE px) (Bytes.toNatBE py) = true) ∧
      ∃ x1 y1, Spec.SM2.add (Spec.SM2.smul (Bytes.toNatBE s) Spec.SM2.G)
          (Spec.SM2.smul ((Bytes.toNatBE r + Bytes.toNatBE s) % Spec.SM2.n)
            (some (Bytes.toNatBE px, Bytes.toNatBE py))) = some (x1, y1) ∧
        (Bytes.toNatBE e + x1) % Spec.SM2.n = Bytes.toNatBE r := by
  rw [verify_iff_standard F, ← standard_accepts_iff]
  constructor
  · intro h; injection h
  · intro h; rw [h]

/-- every other input is rejected with false -/
theorem verify_false_of_not (F : CurveFacts X) (px py e r s : Bytes)
    (h : Spec.SM2.verify px py e r s = false) : verifyHashed X px py e r s = .ok false := by
  rw [verify_iff_standard F, h]

/-- no input makes `VerifyHashed` panic -/
theorem verify_no_panic (F : CurveFacts X) (px py e r s : Bytes) :
    verifyHashed X px py e r s ≠ .panic := by
  rw [verify_iff_standard F]; intro h; cases h

/-- the same at the za level and at the id/message level (hashing through the SM3 model, C04) -/
theorem verifyZa_iff_standard (F : CurveFacts X) (px py z msg r s : Bytes) :
    verifyZa X px py z msg r s = .ok (Spec.SM2.verify px py (Spec.SM2.digest z msg) r s) :=
  Proofs.SM2Round.verifyZa_eq F px py z msg r s

theorem verifyId_iff_standard (F : CurveFacts X) (id px py msg r s : Bytes) :
    verify X id px py msg r s = .ok (Spec.SM2.verifyId id px py msg r s) :=
  Proofs.SM2Round.verify_eq F id px py msg r s

/-! ### non-vacuity: the standard accepts a genuine signature and rejects a damaged one
    (evaluated in the kernel; key 22…22, digest 33…33, nonce 11…11) -/

example :
    Spec.SM2.verify
      (Bytes.ofNatBE 32 0x4467e6043f38645e740050f3d6c9d6a0bf6b13d3b57892842be9b75cca3ce884)
      (Bytes.ofNatBE 32 0xf0b5c27a16795142fa467fe6818cdb393c95f8e17d28f7e0a6557bbea8d65034)
      (List.replicate 32 0x33)
      (Bytes.ofNatBE 32 0xb859452a77e23789bd102f27f376aa64060611665deb242f35a9cf92debdbc76)
      (Bytes.ofNatBE 32 0x8a1563030e9ff27e3772547fa7c0382998384b35a42ed52049e98961907bd9cf) = true := by
  decide +kernel

/-- rejected: r + s = n; a public key with x ≥ p (non-canonical); a 31-byte r -/
example :
    Spec.SM2.verify
      (Bytes.ofNatBE 32 0x4467e6043f38645e740050f3d6c9d6a0bf6b13d3b57892842be9b75cca3ce884)
      (Bytes.ofNatBE 32 0xf0b5c27a16795142fa467fe6818cdb393c95f8e17d28f7e0a6557bbea8d65034)
      (List.replicate 32 0x33) (Bytes.ofNatBE 32 1) (Bytes.ofNatBE 32 (Spec.SM2.n - 1)) = false ∧
    Spec.SM2.verify (Bytes.ofNatBE 32 Spec.SM2.p)
      (Bytes.ofNatBE 32 0xf0b5c27a16795142fa467fe6818cdb393c95f8e17d28f7e0a6557bbea8d65034)
      (List.replicate 32 0x33) (Bytes.ofNatBE 32 1) (Bytes.ofNatBE 32 1) = false ∧
    Spec.SM2.verify
      (Bytes.ofNatBE 32 0x4467e6043f38645e740050f3d6c9d6a0bf6b13d3b57892842be9b75cca3ce884)
      (Bytes.ofNatBE 32 0xf0b5c27a16795142fa467fe6818cdb393c95f8e17d28f7e0a6557bbea8d65034)
      (List.replicate 32 0x33) (Bytes.ofNatBE 31 1) (Bytes.ofNatBE 32 1) = false := by
  decide +kernel

end SMGo.Props.C03

#print axioms SMGo.Props.C03.verify_iff_standard
#print axioms SMGo.Props.C03.standard_accepts_iff
#print axioms SMGo.Props.C03.verify_true_iff
#print axioms SMGo.Props.C03.verify_false_of_not
#print axioms SMGo.Props.C03.verify_no_panic
#print axioms SMGo.Props.C03.verifyZa_iff_standard
#print axioms SMGo.Props.C03.verifyId_iff_standard
