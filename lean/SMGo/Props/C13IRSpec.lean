/-
  Property C13, composed down to the SPECIFICATION: the run of the regenerated IR of the sm2.go entry points (generated
  program, generated globals, executable oracle) returns what `Spec.SM2` (SMGo/Spec/SM2Proto.lean: the GM/T 0003.2
  procedures on byte strings) says — no model in the statement.  Each theorem is the composition of a closed refinement
  theorem of Props/C13IR (`ir_*_ctxFiat_std` / `ir_*_ctxFiat_proto`: IR = hand-written model over the regenerated Fiat
  functions) with the corresponding theorem of Props/SM2Fiat (`fiat_*`: that model = the specification).
  This file imports Props/SM2Fiat (Mathlib-dependent proofs): it is NOT part of the driver.

  Reading of the statements: `.ret [...]` is a completed run with the listed results (an `error` is the integer 1 — any
  non-zero code — `nil` is 0; a Go bool is 1/0); fuels are explicit; the oracles are the executable ones
  (`stdOracle extKinds tape` with a scripted reader `readerOracle … s`; `protoOracle tape` for the extended program).
  Axioms: propext, Classical.choice, Quot.sound.
-/
import SMGo.Props.C13IR
import SMGo.Props.SM2Fiat
namespace SMGo.Props.C13IRSpec
open SMGo SMGo.Model.CTIR SMGo.Proofs SMGo.Proofs.CTIRRefineUtils
open SMGo.Model.SM2 (Script avail)

/-- **VerifyHashed**: the IR returns the verdict of the standard verification procedure -/
theorem ir_verifyHashed_eq_spec (tape : Nat → Nat → Nat) (pubx puby e r s : Bytes) :
    ∃ e' : Int, (e' = 0 ∨ e' = 1) ∧ (Spec.SM2.verify pubx puby e r s = true → e' = 0) ∧
      ∀ f, CTIRRefineEntryProto.fuelVerify4 ≤ f →
        runV Gen.CTIRProgProto.prog Gen.CTIRProgProto.globals (Model.CTIRProto.protoOracle tape) f
          Gen.CTIRProgProto.f_sm2_VerifyHashed [bytesV pubx, bytesV puby, bytesV e, bytesV r, bytesV s]
          = .ret [.int (if Spec.SM2.verify pubx puby e r s then 1 else 0), .int e'] := by
  have h := Props.C13IR.ir_verifyHashed_ctxFiat_proto tape pubx puby e r s
  rw [Props.SM2Fiat.fiat_verify_iff_standard] at h
  exact h

/-- **SignHashed**: when the standard signing procedure on the random stream `s` yields `(r, sg)` the IR returns them -/
theorem ir_signHashed_eq_spec (tape : Nat → Nat → Nat) (s : Script) (rd : Val) (priv e : Bytes)
    (hlen : priv.length < 2 ^ 63) :
    match Spec.SM2.signBytes priv e s with
    | some (r, sg, _) => ∀ f, CTIRRefineEntry.fuelSign4 (avail s) ≤ f →
        runV Gen.CTIRProg.prog Gen.CTIRProg.globals (CTIRRefineSign.readerOracle (stdOracle Gen.CTIRProg.extKinds tape) s) f
          Gen.CTIRProg.f_sm2_SignHashed [rd, bytesV priv, bytesV e] = .ret [bytesV r, bytesV sg, .int 0]
    | none => ∃ code : Int, code ≠ 0 ∧ ∀ f, CTIRRefineEntry.fuelSign4 (avail s) ≤ f →
        runV Gen.CTIRProg.prog Gen.CTIRProg.globals (CTIRRefineSign.readerOracle (stdOracle Gen.CTIRProg.extKinds tape) s) f
          Gen.CTIRProg.f_sm2_SignHashed [rd, bytesV priv, bytesV e] = .ret [bytesV [], bytesV [], .int code] := by
  have h := Props.C13IR.ir_signHashed_ctxFiat_std tape s rd (priv := priv) (e := e) hlen
  rw [Props.SM2Fiat.fiat_sign_is_standard] at h
  cases hs : Spec.SM2.signBytes priv e s with
  | none => rw [hs] at h; exact h
  | some t => obtain ⟨r, sg, c⟩ := t; rw [hs] at h; exact h

/-- **DerivePublic** -/
theorem ir_derivePublic_eq_spec (tape : Nat → Nat → Nat) (priv : Bytes) :
    match Spec.SM2.derive priv with
    | some (x, y) => ∀ f, 2528847 ≤ f →
        runV Gen.CTIRProg.prog Gen.CTIRProg.globals (stdOracle Gen.CTIRProg.extKinds tape) f Gen.CTIRProg.f_sm2_DerivePublic
          [bytesV priv] = .ret [bytesV x, bytesV y, .int 0]
    | none => ∀ f, 2528847 ≤ f →
        runV Gen.CTIRProg.prog Gen.CTIRProg.globals (stdOracle Gen.CTIRProg.extKinds tape) f Gen.CTIRProg.f_sm2_DerivePublic
          [bytesV priv] = .ret [.arr [], .arr [], .int 1] := by
  have h := Props.C13IR.ir_derivePublic_ctxFiat_std tape priv
  rw [Props.SM2Fiat.fiat_derivePublic_spec] at h
  cases hd : Spec.SM2.derive priv with
  | none => rw [hd] at h; exact h
  | some xy => obtain ⟨x, y⟩ := xy; rw [hd] at h; exact h

/-- **GenerateKey** with a scripted reader (handle `.int r`, `r ≠ 0`) -/
theorem ir_generateKey_eq_spec (tape : Nat → Nat → Nat) (s : Script) (r : Int) (hr : r ≠ 0) :
    match Spec.SM2.genKey (some s) with
    | some (d, x, y, _) => ∀ f, (avail s / 32 + 1) * 640 + 2528869 ≤ f →
        runV Gen.CTIRProg.prog Gen.CTIRProg.globals (CTIRRefineKeys.readerOracle (stdOracle Gen.CTIRProg.extKinds tape) s) f
          Gen.CTIRProg.f_sm2_GenerateKey [.int r] = .ret [bytesV d, bytesV x, bytesV y, .int 0]
    | none => ∃ v, ∀ f, (avail s / 32 + 1) * 640 + 2528869 ≤ f →
        runV Gen.CTIRProg.prog Gen.CTIRProg.globals (CTIRRefineKeys.readerOracle (stdOracle Gen.CTIRProg.extKinds tape) s) f
          Gen.CTIRProg.f_sm2_GenerateKey [.int r] = .ret [v, .arr [], .arr [], .int 1] := by
  have h := Props.C13IR.ir_generateKey_ctxFiat_std tape s r hr
  rw [Props.SM2Fiat.fiat_generateKey_spec] at h
  cases hd : Spec.SM2.genKey (some s) with
  | none => rw [hd] at h; exact h
  | some t => obtain ⟨d, x, y, c⟩ := t; rw [hd] at h; exact h

/-- **GenerateKey(nil)** -/
theorem ir_generateKey_nil_eq_spec {G : Nat → Val} {O : Oracle} :
    Spec.SM2.genKey none = none ∧
    ∀ f, 20 ≤ f → runV Gen.CTIRProg.prog G O f Gen.CTIRProg.f_sm2_GenerateKey [.int 0]
      = .ret [.arr [], .arr [], .arr [], .int 1] := by
  have h := Props.C13IR.ir_generateKey_nil_ctxFiat (G := G) (O := O)
  refine ⟨?_, h.2⟩
  have h1 := h.1
  rw [Props.SM2Fiat.fiat_generateKey_spec] at h1
  cases hd : Spec.SM2.genKey none with
  | none => rfl
  | some t => obtain ⟨d, x, y, c⟩ := t; rw [hd] at h1; cases h1

/-- **ZA** (the identifier must be shorter than 2^60 bytes: `len(id) << 3` on a Go `int`) -/
theorem ir_ZA_eq_spec (tape : Nat → Nat → Nat) (id pubx puby : Bytes) (hlen : id.length < 2 ^ 60) :
    match Spec.SM2.za id pubx puby with
    | some z => ∀ f, CTIRRefineZA.fuelZA ≤ f →
        runV Gen.CTIRProgProto.prog Gen.CTIRProgProto.globals (Model.CTIRProto.protoOracle tape) f Gen.CTIRProgProto.f_sm2_ZA
          [bytesV id, bytesV pubx, bytesV puby] = .ret [bytesV z, .int 0]
    | none => ∀ f, CTIRRefineZA.fuelZA ≤ f →
        runV Gen.CTIRProgProto.prog Gen.CTIRProgProto.globals (Model.CTIRProto.protoOracle tape) f Gen.CTIRProgProto.f_sm2_ZA
          [bytesV id, bytesV pubx, bytesV puby] = .ret [.arr [], .int 1] :=
  Props.C13IR.ir_ZA_closed tape id pubx puby hlen

/-! ## Sign, SignZa, Verify, VerifyZa, CheckOnCurve (functions 108–112 of the extended program) -/

/-- **Verify** (identifier, message): the verdict of the specification's `verifyId` -/
theorem ir_verify_eq_spec (tape : Nat → Nat → Nat) (idb pubx puby msg r s : Bytes) (hid : idb.length < 2 ^ 60) :
    ∃ e' : Int, (e' = 0 ∨ e' = 1) ∧ (Spec.SM2.verifyId idb pubx puby msg r s = true → e' = 0) ∧
      ∀ f, CTIRRefineEntryProto.fuelVerify4 + 100 ≤ f →
        runV Gen.CTIRProgProto.prog Gen.CTIRProgProto.globals (Model.CTIRProto.protoOracle tape) f Gen.CTIRProgProto.f_sm2_Verify
          [bytesV idb, bytesV pubx, bytesV puby, bytesV msg, bytesV r, bytesV s]
          = .ret [.int (if Spec.SM2.verifyId idb pubx puby msg r s then 1 else 0), .int e'] := by
  have h := Props.C13IR.ir_verify_ctxFiat_proto tape idb pubx puby msg r s hid
  rw [Props.SM2Fiat.fiat_verify_interop] at h
  exact h

/-- **VerifyZa**: the standard verification of the digest SM3(za ‖ msg) -/
theorem ir_verifyZa_eq_spec (tape : Nat → Nat → Nat) (pubx puby za msg r s : Bytes) :
    ∃ e' : Int, (e' = 0 ∨ e' = 1) ∧ (Spec.SM2.verify pubx puby (Spec.SM2.digest za msg) r s = true → e' = 0) ∧
      ∀ f, CTIRRefineEntryProto.fuelVerify4 + 30 ≤ f →
        runV Gen.CTIRProgProto.prog Gen.CTIRProgProto.globals (Model.CTIRProto.protoOracle tape) f Gen.CTIRProgProto.f_sm2_VerifyZa
          [bytesV pubx, bytesV puby, bytesV za, bytesV msg, bytesV r, bytesV s]
          = .ret [.int (if Spec.SM2.verify pubx puby (Spec.SM2.digest za msg) r s then 1 else 0), .int e'] := by
  have h := Props.C13IR.ir_verifyZa_ctxFiat_proto tape pubx puby za msg r s
  rw [Props.SM2Fiat.fiat_verifyZa_iff_standard] at h
  exact h

/-- **Sign** (identifier, message) with a scripted reader: the specification's `signIdBytes` -/
theorem ir_sign_eq_spec (tape : Nat → Nat → Nat) (s : Script) (rd : Val) (idb pubx puby priv msg : Bytes)
    (hid : idb.length < 2 ^ 60) (hlen : priv.length < 2 ^ 63) :
    match Spec.SM2.signIdBytes idb pubx puby priv msg s with
    | some (r, sg, _) => ∀ f, CTIRRefineEntry.fuelSign4 (avail s) + 110 ≤ f →
        runV Gen.CTIRProgProto.prog Gen.CTIRProgProto.globals (CTIRRefineSign.readerOracle (Model.CTIRProto.protoOracle tape) s) f
          Gen.CTIRProgProto.f_sm2_Sign [bytesV idb, bytesV pubx, bytesV puby, rd, bytesV priv, bytesV msg]
          = .ret [bytesV r, bytesV sg, .int 0]
    | none => ∃ code : Int, code ≠ 0 ∧ ∀ f, CTIRRefineEntry.fuelSign4 (avail s) + 110 ≤ f →
        runV Gen.CTIRProgProto.prog Gen.CTIRProgProto.globals (CTIRRefineSign.readerOracle (Model.CTIRProto.protoOracle tape) s) f
          Gen.CTIRProgProto.f_sm2_Sign [bytesV idb, bytesV pubx, bytesV puby, rd, bytesV priv, bytesV msg]
          = .ret [bytesV [], bytesV [], .int code] := by
  have h := Props.C13IR.ir_sign_ctxFiat_proto tape s rd idb pubx puby hid (priv := priv) hlen msg
  rw [Props.SM2Fiat.fiat_sign_interop] at h
  cases hs : Spec.SM2.signIdBytes idb pubx puby priv msg s with
  | none => rw [hs] at h; exact h
  | some t => obtain ⟨r, sg, c⟩ := t; rw [hs] at h; exact h

/-- **SignZa** with a scripted reader: the standard signing procedure on the digest SM3(za ‖ msg) -/
theorem ir_signZa_eq_spec (tape : Nat → Nat → Nat) (s : Script) (rd : Val) (priv za msg : Bytes)
    (hlen : priv.length < 2 ^ 63) :
    match Spec.SM2.signBytes priv (Spec.SM2.digest za msg) s with
    | some (r, sg, _) => ∀ f, CTIRRefineEntry.fuelSign4 (avail s) + 30 ≤ f →
        runV Gen.CTIRProgProto.prog Gen.CTIRProgProto.globals (CTIRRefineSign.readerOracle (Model.CTIRProto.protoOracle tape) s) f
          Gen.CTIRProgProto.f_sm2_SignZa [rd, bytesV priv, bytesV za, bytesV msg] = .ret [bytesV r, bytesV sg, .int 0]
    | none => ∃ code : Int, code ≠ 0 ∧ ∀ f, CTIRRefineEntry.fuelSign4 (avail s) + 30 ≤ f →
        runV Gen.CTIRProgProto.prog Gen.CTIRProgProto.globals (CTIRRefineSign.readerOracle (Model.CTIRProto.protoOracle tape) s) f
          Gen.CTIRProgProto.f_sm2_SignZa [rd, bytesV priv, bytesV za, bytesV msg] = .ret [bytesV [], bytesV [], .int code] := by
  have h := Props.C13IR.ir_signZa_ctxFiat_proto tape s rd (priv := priv) hlen za msg
  have e : Model.SM2.signZa Model.SM2.ctxFiat s priv za msg
      = Model.SM2.signHashed Model.SM2.ctxFiat s priv (Spec.SM2.digest za msg) := by
    rw [Model.SM2.signZa, Props.SM2Fiat.fiat_hashZaMsg_eq]
    exact congrArg _ (Props.C13.hashZaMsg_spec Model.SM2.ctx Proofs.SM2FactsInst.ctx_facts za msg)
  rw [e, Props.SM2Fiat.fiat_sign_is_standard] at h
  cases hs : Spec.SM2.signBytes priv (Spec.SM2.digest za msg) s with
  | none => rw [hs] at h; exact h
  | some t => obtain ⟨r, sg, c⟩ := t; rw [hs] at h; exact h

/-- **CheckOnCurve**: any oracle (the function calls no external) -/
theorem ir_checkOnCurve_eq_spec {O : Oracle} (x y : Bytes) :
    ∀ f, 15177 ≤ f →
      runV Gen.CTIRProgProto.prog Gen.CTIRProgProto.globals O f Gen.CTIRProgProto.f_sm2_CheckOnCurve [bytesV x, bytesV y]
        = .ret [.int (if Spec.SM2.onCurveBytes x y then 1 else 0)] := by
  have h := Props.C13IR.ir_checkOnCurve_ctxFiat_proto (O := O) x y
  rw [Props.SM2Fiat.fiat_checkOnCurve_spec, Props.C13IR.fuelCheck_eq] at h
  exact h

#print axioms ir_verify_eq_spec
#print axioms ir_verifyZa_eq_spec
#print axioms ir_sign_eq_spec
#print axioms ir_signZa_eq_spec
#print axioms ir_checkOnCurve_eq_spec

#print axioms ir_verifyHashed_eq_spec
#print axioms ir_signHashed_eq_spec
#print axioms ir_derivePublic_eq_spec
#print axioms ir_generateKey_eq_spec
#print axioms ir_generateKey_nil_eq_spec
#print axioms ir_ZA_eq_spec

end SMGo.Props.C13IRSpec
