/-
  Property C20 — comparison and signed-window recoding helpers are exact.
  (Property theorems only; lemmas live in SMGo/Proofs.)
-/
import SMGo.Spec.Utils
import SMGo.Model.Utils
namespace SMGo.Props.C20
open SMGo

/-- test (labelled as a test): one recoding of the all-ones 256-bit input -/
theorem naf_all_ones_w4 :
    Model.Utils.decomposeNAF (some (List.replicate 257 0)) (some (List.replicate 32 0xff)) 257 4
      = .ok (Spec.Utils.naf 4 257 (2 ^ 256 - 1)) := by
  decide +kernel

end SMGo.Props.C20
