/-
  Property C20 — comparison and signed-window recoding helpers are exact.
  (Property theorems only; lemmas live in SMGo/Proofs/Utils*.lean.)

  "The constant-time comparison returns -1, 0 or 1 exactly as the lexicographic (equivalently
  big-endian numeric) order of the first l bytes of its arguments dictates, for all contents.
  The signed-window recoding writes digits that are zero or odd with absolute value below 2^w,
  with at least w zeros after every non-zero digit, whose weighted sum equals the input integer,
  for every 256-bit input and every window width 1..7."
-/
import SMGo.Spec.Utils
import SMGo.Model.Utils
import SMGo.Proofs.UtilsCmp
import SMGo.Proofs.UtilsNafSpec
import SMGo.Proofs.UtilsNaf
namespace SMGo.Props.C20
open SMGo

/-! ## ConstantTimeCmp -/

/-- within bounds, the borrow chain computes the lexicographic comparison of the first l bytes -/
theorem cmp_spec (a b : Bytes) (l : Nat) (ha : l ≤ a.length) (hb : l ≤ b.length) :
    Model.Utils.constantTimeCmp (some a) (some b) l
      = .ok (Spec.Utils.lexCmp (a.take l) (b.take l)) :=
  Proofs.UtilsCmp.cmp_ok a b l ha hb

/-- for all arguments (nil slices, any `int` length, including the panics) model = specification -/
theorem cmp_eq_spec_total (a b : Option Bytes) (l : Int) :
    Model.Utils.constantTimeCmp a b l = Spec.Utils.cmp a b l :=
  Proofs.UtilsCmp.cmp_total a b l

/-- the result is one of -1, 0, 1 -/
theorem lexCmp_range (x y : Bytes) :
    Spec.Utils.lexCmp x y = -1 ∨ Spec.Utils.lexCmp x y = 0 ∨ Spec.Utils.lexCmp x y = 1 :=
  Proofs.UtilsCmp.lexCmp_range x y

/-- lexicographic order of equal-length strings is the order of their big-endian values -/
theorem lexCmp_lt_iff_toNat (x y : Bytes) (h : x.length = y.length) :
    Spec.Utils.lexCmp x y = -1 ↔ Bytes.toNatBE x < Bytes.toNatBE y :=
  Proofs.UtilsCmp.lexCmp_lt_iff_toNat x y h

theorem lexCmp_gt_iff_toNat (x y : Bytes) (h : x.length = y.length) :
    Spec.Utils.lexCmp x y = 1 ↔ Bytes.toNatBE y < Bytes.toNatBE x :=
  (Proofs.UtilsCmp.lexCmp_swap x y).trans (Proofs.UtilsCmp.lexCmp_lt_iff_toNat y x h.symm)

theorem lexCmp_eq_iff (x y : Bytes) : Spec.Utils.lexCmp x y = 0 ↔ x = y :=
  Proofs.UtilsCmp.lexCmp_eq_zero x y

example : Model.Utils.constantTimeCmp (some [1, 2, 3, 9]) (some [1, 2, 4]) (3 : Nat) = .ok (-1) := by
  rw [cmp_spec _ _ 3 (by decide) (by decide)]; decide

example : Model.Utils.constantTimeCmp (some [1, 2, 3]) (some [1, 2]) 3 = .panic := by
  rw [cmp_eq_spec_total]; decide

example : Spec.Utils.lexCmp [2, 0] [1, 255] = 1 ∧ Bytes.toNatBE [1, 255] < Bytes.toNatBE [2, 0] :=
  ⟨(lexCmp_gt_iff_toNat [2, 0] [1, 255] rfl).mpr (by decide), by decide⟩

/-! ## DecomposeNAF -/

/-- the textbook recoding has the three defining properties (for a value that fits) -/
theorem naf_textbook_ok (w m k : Nat) (hw : 1 ≤ w) (hk : k ≤ 2 ^ m) :
    (Spec.Utils.naf w (m + 1) k).length = m + 1 ∧
    Spec.Utils.digitsOk w (Spec.Utils.naf w (m + 1) k) = true ∧
    Spec.Utils.spaced w (Spec.Utils.naf w (m + 1) k) = true ∧
    Spec.Utils.nafValue (Spec.Utils.naf w (m + 1) k) = (k : Int) :=
  ⟨Proofs.UtilsNafSpec.naf_length w _ k, Proofs.UtilsNafSpec.naf_digitsOk w hw _ k,
   Proofs.UtilsNafSpec.naf_spaced w _ k, Proofs.UtilsNafSpec.naf_value w hw m k hk⟩

/-- on a 32-byte input and a zeroed 257-entry output the code writes exactly the textbook digits -/
theorem naf_eq_textbook (s : Bytes) (hs : s.length = 32) (w : Nat) (hw : 1 ≤ w ∧ w ≤ 7) :
    Model.Utils.decomposeNAF (some (List.replicate 257 0)) (some s) 257 w
      = .ok (Spec.Utils.naf w 257 (Bytes.toNatBE s)) :=
  Proofs.UtilsNaf.decomposeNAF_textbook s hs w hw.1 hw.2

/-- the property as stated: digits zero or odd and below 2^w, w zeros after a non-zero digit,
    weighted sum equal to the input -/
theorem naf_spec (s : Bytes) (hs : s.length = 32) (w : Nat) (hw : 1 ≤ w ∧ w ≤ 7) :
    ∃ ds, Model.Utils.decomposeNAF (some (List.replicate 257 0)) (some s) 257 w = .ok ds ∧
      ds.length = 257 ∧ Spec.Utils.digitsOk w ds = true ∧ Spec.Utils.spaced w ds = true ∧
      Spec.Utils.nafValue ds = (Bytes.toNatBE s : Int) := by
  have hk : Bytes.toNatBE s ≤ 2 ^ 256 := by
    have := Proofs.UtilsCmp.toNatBE_lt s
    rw [hs] at this
    exact Nat.le_of_lt this
  exact ⟨_, naf_eq_textbook s hs w hw, naf_textbook_ok w 256 _ hw.1 hk⟩

/-- what callers must avoid: a nil slice or a width outside 1..7 panics -/
theorem naf_invalid_params_panic (out : Option (List Int)) (s : Option Bytes) (n w : Int)
    (h : out = none ∨ s = none ∨ w ≤ 0 ∨ w > 7) :
    Model.Utils.decomposeNAF out s n w = .panic :=
  Proofs.UtilsNaf.decomposeNAF_invalid out s n w h

/-- with n = 257 an input shorter than 32 bytes panics (index out of range) -/
theorem naf_short_input_panics (out : List Int) (s : Bytes) (hs : s.length < 32) (w : Nat)
    (hw : 1 ≤ w ∧ w ≤ 7) :
    Model.Utils.decomposeNAF (some out) (some s) 257 w = .panic :=
  Proofs.UtilsNaf.decomposeNAF_short out s hs w hw.1 hw.2

example : ∃ ds, Model.Utils.decomposeNAF (some (List.replicate 257 0))
      (some (List.replicate 31 0xa5 ++ [0x37])) 257 (5 : Nat) = .ok ds ∧
      ds.length = 257 ∧ Spec.Utils.digitsOk 5 ds = true ∧ Spec.Utils.spaced 5 ds = true ∧
      Spec.Utils.nafValue ds = (Bytes.toNatBE (List.replicate 31 0xa5 ++ [0x37]) : Int) :=
  naf_spec _ (by decide) 5 (by decide)

example : Model.Utils.decomposeNAF (some (List.replicate 257 0))
      (some (List.replicate 32 0xff)) 257 (4 : Nat) = .ok (Spec.Utils.naf 4 257 (2 ^ 256 - 1)) := by
  rw [naf_eq_textbook _ (by decide) 4 (by decide)]
  decide +kernel

example : (1 : Nat) ≤ 7 ∧ (2 ^ 256 - 1 : Nat) ≤ 2 ^ 256 := by decide

/-- test (labelled as a test): one recoding of the all-ones 256-bit input, by evaluation -/
theorem naf_all_ones_w4 :
    Model.Utils.decomposeNAF (some (List.replicate 257 0)) (some (List.replicate 32 0xff)) 257 4
      = .ok (Spec.Utils.naf 4 257 (2 ^ 256 - 1)) := by
  decide +kernel

end SMGo.Props.C20

#print axioms SMGo.Props.C20.cmp_spec
#print axioms SMGo.Props.C20.cmp_eq_spec_total
#print axioms SMGo.Props.C20.lexCmp_range
#print axioms SMGo.Props.C20.lexCmp_lt_iff_toNat
#print axioms SMGo.Props.C20.lexCmp_gt_iff_toNat
#print axioms SMGo.Props.C20.lexCmp_eq_iff
#print axioms SMGo.Props.C20.naf_textbook_ok
#print axioms SMGo.Props.C20.naf_eq_textbook
#print axioms SMGo.Props.C20.naf_spec
#print axioms SMGo.Props.C20.naf_invalid_params_panic
#print axioms SMGo.Props.C20.naf_short_input_panics
#print axioms SMGo.Props.C20.naf_all_ones_w4
