/-
  Properties C06 / C07 / C10 for the ARM64 path's Go glue, /repo/sm4/sm4_gcm_arm64.go.
  (Property theorems only; lemmas live in SMGo/Proofs/GCMGlueArm64*.lean.)

  On amd64 `Seal`/`Open` are one fused assembly routine and the Go glue only manages the buffer
  (Props/C10.lean over Model/GCMGlue.lean, with the routine's effect as a parameter).  On arm64 the
  whole mode of operation is ordinary Go around small kernels, so the Go glue itself must be shown
  to compute SP 800-38D and to respect the AEAD buffer contract.  That is done here.

  What is proved, and about what:
  * The subject is `SMGo.Model.GCMGlueA64` (Model/GCMGlueArm64.lean): `Seal`, `Open`,
    `calculateFirstCounter`, `ensureCapacity` (arm64: head and tail), `gHashUpdate`, `gHashFinish`,
    `cryptoBlocks` (256/128/64/32/16-byte classes by the bits of the block count, 1..15-byte tail
    through the byte loop), `fillCounterN`, `fillSingleBlock`, `(*sm4CipherAsm).Encrypt`, statement
    by statement on the slice heap of `SMGo.Model.Slice`, every Go local array a fresh array of the
    heap, every reslice / index / `&s[0]` with Go's bounds check, every kernel load and store
    checked against its backing array.
  * The kernels are parameters (`Kernels`: `E` one block, `xor`, `gh` one GHASH step).  The theorems
    assume `KSpec k`: `E` returns 16 bytes, `xor` is the byte-wise XOR, `gh` is the specification's
    `(tag ⊕ block) • H`.  `kspec_sm4` discharges it for the instance the driver runs
    (`newGCM key …`: SM4 of the specification).  That the arm64 ASSEMBLY kernels compute these
    functions is proved over the regenerated arm64 listings in Props/C05Arm64.lean (all six SM4
    kernels, X16 in the tmp = dst calling shape) and Props/C06Arm64.lean (`gHashBlocks` for every
    count, the five `xorN` routines in the three calling shapes of this glue) — under arm64
    instruction semantics that cannot be validated against a CPU in this sandbox.  The two results
    are not composed into one Lean statement (different memory models: slice heap here, regions of
    the interpreter there); the composition is the `KSpec` interface.
  * FUNCTIONAL (C06/C07 for this path): `sealA64_appends`: the bytes appended are
    `Spec.GCM.sealGCM E t nonce pt aad` for EVERY length up to the bound the code enforces
    ((2^32−2)·16 bytes) — no case split by length class, the 32-bit counter wrap included;
    `openA64_appends` / `openA64_fails` / `openA64_decides`: the plaintext or `(nil, errOpen)`
    exactly as `Spec.GCM.openGCM` decides.  The in-place case (input starting exactly at dst's
    end, `dst = in[:0]` in particular) is covered: `Admissible` allows it, and the proof uses that
    the key stream goes through `tmp` and each piece of `in` is read before the same piece of
    `out` is stored.
  * CONTRACT (C10 for this path): the result shares dst's pointer iff there is room; every byte of
    the caller's heap outside the appended region is unchanged (`UnchangedOutside` over the arrays
    that existed before the call — the locals the call allocates are not the caller's); a failing
    Open changes nothing; nil dst, empty plaintext, `dst = in[:0]` never panic; repeating a call
    gives the same answer.
  * NEGATIVE: `ensureCapacityA64Old` (the routine before the repair of finding F2, `head = array`)
    run through the same `Seal`/`Open` returns dst without the tag / panics when dst has room.
  * Tie to the code: the differential harness (`bin/check C10`, runC10) compares, for the path
    "arm64-glue" (the arm64 Go file run with portable stand-ins for the kernels), the
    implementation's view three-way with `gcm.sealglue.a64` / `gcm.openglue.a64` (THIS model run by
    the driver, Driver/GCMGlueArm64.lean) and `gcm.sealglue.spec` / `gcm.openglue.spec`.
  * Aliasing outside `Admissible` (output partially overlapping an input) is outside the AEAD
    contract and outside these theorems.
-/
import SMGo.Spec.GCM
import SMGo.Spec.SM4Fast
import SMGo.Model.Slice
import SMGo.Model.GCMGlue
import SMGo.Model.GCMGlueArm64
import SMGo.Proofs.GCMGlueArm64Repeat
import SMGo.Props.C10
import SMGo.Props.C06
namespace SMGo.Props.C10Arm64
open SMGo SMGo.Model SMGo.Model.Mem SMGo.Model.GCMGlueA64
open SMGo.Proofs.GCMGlue (InRegion UnchangedOutside Nowhere Disjoint ExactOverlap Admissible fresh)
open SMGo.Proofs.GCMGlueA64 (KSpec takeS dropS)

/-! ### vocabulary (shared with C10; restated as checked facts) -/

/-- `KSpec k`: the kernels are the specification's -/
example (k : Kernels) :
    KSpec k ↔ ((∀ b, (k.E b).length = 16) ∧ k.xor = Spec.GCM.xorBytes ∧ k.gh = specGh) :=
  ⟨fun h => ⟨h.E_len, h.xor_eq, h.gh_eq⟩, fun h => ⟨h.1, h.2.1, h.2.2⟩⟩

/-- one GHASH step of the specification: `(tag ⊕ block) • H` on big-endian blocks -/
example (H tag blk : Bytes) :
    specGh H tag blk = Spec.GCM.natToBlock
      (Spec.GCM.mulGF (Spec.GCM.blockToNat tag ^^^ Spec.GCM.blockToNat blk) (Spec.GCM.blockToNat H)) := rfl

/-- `Admissible`: nonce and additional data outside dst's spare capacity; the text outside it or
    starting exactly at dst's end -/
example (dst nonce text aad : Slice) :
    Admissible dst nonce text aad ↔
      (Disjoint dst nonce ∧ Disjoint dst aad ∧
        (Disjoint dst text ∨ (text.arr = dst.arr ∧ text.off = dst.off + dst.len))) := Iff.rfl

/-- the kernels the driver runs (SM4 of the specification, XOR, the specification's GHASH step)
    satisfy `KSpec` -/
theorem kspec_sm4 (key : Bytes) (nonceSize tagSize : Nat) : KSpec (newGCM key nonceSize tagSize).k :=
  Proofs.GCMGlueA64.kspec_spec _

/-- with dst = nil every call is admissible -/
theorem admissible_nil (nonce text aad : Slice) : Admissible Slice.nil nonce text aad :=
  ⟨Or.inr (Or.inr (Nat.zero_le _)), Or.inr (Or.inr (Nat.zero_le _)),
   Or.inl (Or.inr (Or.inr (Nat.zero_le _)))⟩

/-! ### ensureCapacity (arm64) -/

/-- `ensureCapacity(array, asked)` of sm4_gcm_arm64.go (after the repair of F2): with room
    (`asked ≤ cap − len`) head is `array[:len+asked]`, tail the `asked` bytes behind `array`, the
    heap is untouched; without, head is a new array holding `array ‖ asked zero bytes` and tail its
    last `asked` bytes.  Never a panic (none for nil, for empty non-nil, for `asked = 0`). -/
theorem ensureCapacityA64_spec (h : Heap) (s : Slice) (asked : Nat) (hwf : WF h s) :
    ensureCapacityA64 h s asked =
      if asked ≤ s.cap - s.len then
        .ok (h, { s with len := s.len + asked },
             { arr := s.arr, off := s.off + s.len, len := asked, cap := s.cap - s.len })
      else
        .ok (h ++ [Mem.read h s ++ List.replicate asked 0], fresh h (s.len + asked),
             { arr := some h.length, off := s.len, len := asked, cap := asked }) := by
  rw [Proofs.GCMGlueA64.ensureCapacityA64_closed h s asked hwf]
  by_cases hroom : asked ≤ s.cap - s.len
  · rw [if_pos hroom, if_pos hroom]
    simp [takeS, dropS]
  · rw [if_neg hroom, if_neg hroom]
    simp [dropS, fresh]

/-- the same as a contract: head shows `array` followed by `asked` bytes, tail is `head[len(array):]`
    (exactly `asked` bytes), head shares `array`'s pointer iff there was room, no byte of the old
    heap changed -/
theorem ensureCapacityA64_contract (h : Heap) (s : Slice) (asked : Nat) (hwf : WF h s) :
    ∃ h' head tail, ensureCapacityA64 h s asked = .ok (h', head, tail) ∧
      WF h' head ∧ head.len = s.len + asked ∧
      tail = dropS head s.len ∧ tail.len = asked ∧
      (Mem.read h' head).take s.len = Mem.read h s ∧
      Mem.read h' tail = (Mem.read h' head).drop s.len ∧
      (Shares head s ↔ s.arr ≠ none ∧ asked ≤ s.cap - s.len) ∧
      UnchangedOutside h h' Nowhere := by
  obtain ⟨h', head, tail, e, eo⟩ := Proofs.GCMGlueA64.ensureCapacityA64_out h s asked hwf
  refine ⟨h', head, tail, e, eo.wf, eo.ret_len, eo.out_eq, ?_, ?_, ?_, eo.shares, eo.ext⟩
  · rw [eo.out_eq]; show head.len - s.len = asked; rw [eo.ret_len]; omega
  · rw [← Proofs.GCMGlueA64.read_takeS h' head s.len (by rw [eo.ret_len]; omega)]; exact eo.pre
  · rw [eo.out_eq, Proofs.GCMGlueA64.read_dropS]

/-! ### cryptoBlocks -/

/-- **The length-class schedule of the arm64 glue, on the heap.**  `cryptoBlocks(out, in, J0)` with
    `out` at least as long as `in`, a 16-byte `J0` in another array than `out`, and `in` either
    outside `out[0:len(in))` or starting at the same address (the in-place case): no panic — no
    slice bound is exceeded in any class, no kernel leaves its array —, only `out[0 : len(in))`
    changes, and it shows GCTR_K(inc32(J0), in) of SP 800-38D; equivalently what the value-level
    schedule `Model.GCM.cryptoBlocks` of C06 computes (`schedule_eq_gctr`).  Every length up to the
    bound Seal/Open enforce; the 32-bit counter wrap is inside `inc32`. -/
theorem cryptoBlocksA64_gctr (k : Kernels) (hk : KSpec k) (h : Heap) (out inp pre : Slice)
    (hwo : WF h out) (hwi : WF h inp) (hwp : WF h pre) (hpl : pre.len = 16)
    (hle : inp.len ≤ out.len)
    (hcompat : inp.arr ≠ out.arr ∨ inp.off = out.off ∨ inp.off + inp.len ≤ out.off ∨
      out.off + inp.len ≤ inp.off)
    (hpo : pre.arr ≠ out.arr) (hmax : inp.len ≤ maxPlain) :
    ∃ h', cryptoBlocks k h out inp pre = .ok h' ∧
      UnchangedOutside h h' (InRegion out 0 inp.len) ∧
      Mem.read h' { out with len := inp.len }
        = Spec.GCM.gctr k.E (Spec.GCM.inc32 (Spec.GCM.blockToNat (Mem.read h pre))) (Mem.read h inp) ∧
      (∀ (hp : Model.GCM.HPow) (y : Nat), Mem.read h' { out with len := inp.len }
        = (Model.GCM.cryptoBlocks k.E hp false (Spec.GCM.blockToNat (Mem.read h pre)) y (Mem.read h inp)).1) := by
  obtain ⟨h', e, hu, hr⟩ := Proofs.GCMGlueA64.cryptoBlocks_spec hk
    ⟨hwo, hwi, hwp, hpl, hle, hcompat, hpo⟩ hmax
  refine ⟨h', e, hu, hr, fun hp y => ?_⟩
  rw [C06.schedule_eq_gctr hk.E_len]
  exact hr

/-! ### Seal -/

/-- **Seal on the arm64 path computes SP 800-38D and appends it.**  For every heap, every
    well-formed dst (any `len ≤ cap`, nil included), every plaintext length up to (2^32−2)·16, every
    tag size up to 16, and inputs that do not meet dst's spare capacity or a plaintext that starts
    exactly where the output starts:
    no panic; the result shows `dst ‖ sealGCM E t nonce pt aad` (ciphertext ‖ tag of Algorithm 4);
    it has dst's pointer iff dst is not nil and `cap − len ≥ |pt| + tagSize`; every byte of the old
    heap outside the appended region is unchanged. -/
theorem sealA64_appends (g : GcmA64) (hk : KSpec g.k) (ht : g.tagSize ≤ 16)
    (h : Heap) (dst nonce pt aad : Slice)
    (hwf : WF h dst) (hwn : WF h nonce) (hwp : WF h pt) (hwa : WF h aad)
    (hn : nonce.len = g.nonceSize) (hp : pt.len ≤ maxPlain)
    (hadm : Admissible dst nonce pt aad) :
    ∃ h' ret, sealA64 g h dst nonce pt aad = .ok (h', ret) ∧
      Mem.read h' ret = Mem.read h dst ++
        Spec.GCM.sealGCM g.k.E g.tagSize (Mem.read h nonce) (Mem.read h pt) (Mem.read h aad) ∧
      (Shares ret dst ↔ dst.arr ≠ none ∧ pt.len + g.tagSize ≤ dst.cap - dst.len) ∧
      UnchangedOutside h h' (InRegion ret dst.len (pt.len + g.tagSize)) ∧
      WF h' ret ∧
      Mem.read h' nonce = Mem.read h nonce ∧
      Mem.read h' aad = Mem.read h aad ∧
      (Disjoint dst pt → Mem.read h' pt = Mem.read h pt) ∧
      (∀ s, WF h s → Disjoint dst s → Mem.read h' s = Mem.read h s) := by
  obtain ⟨h', ret, e, wr, hread, hshare, _, hun, hdis⟩ :=
    Proofs.GCMGlueA64.seal_core g hk ht h dst nonce pt aad hwf hwn hwp hwa hn hp hadm
  exact ⟨h', ret, e, hread, hshare, hun, wr, hdis nonce hwn hadm.1, hdis aad hwa hadm.2.1,
    fun hd => hdis pt hwp hd, hdis⟩

/-- the same with the value-level model of the arm64 order of operations (`Model.GCM.sealGlue`,
    property C06: encrypt everything, then GHASH): the heap-level glue appends exactly what that
    model returns (by `C06_seal_glue`) -/
theorem sealA64_is_sealGlue (g : GcmA64) (hk : KSpec g.k) (ht : g.tagSize ≤ 16)
    (h : Heap) (dst nonce pt aad : Slice)
    (hwf : WF h dst) (hwn : WF h nonce) (hwp : WF h pt) (hwa : WF h aad)
    (hn : nonce.len = g.nonceSize) (hp : pt.len ≤ maxPlain)
    (hadm : Admissible dst nonce pt aad) :
    ∃ h' ret, sealA64 g h dst nonce pt aad = .ok (h', ret) ∧
      Mem.read h' ret = Mem.read h dst ++
        Model.GCM.sealGlue g.k.E g.tagSize (Mem.read h nonce) (Mem.read h pt) (Mem.read h aad) := by
  obtain ⟨h', ret, e, hread, _⟩ := sealA64_appends g hk ht h dst nonce pt aad hwf hwn hwp hwa hn hp hadm
  exact ⟨h', ret, e, by rw [C06.C06_seal_glue hk.E_len]; exact hread⟩

/-- the in-place idiom `Seal(pt[:0], nonce, pt, aad)`: no panic, the result is the sealed message;
    it lies over the plaintext iff the plaintext's capacity has room for the tag -/
theorem sealA64_inplace (g : GcmA64) (hk : KSpec g.k) (ht : g.tagSize ≤ 16)
    (h : Heap) (nonce pt aad : Slice)
    (hwn : WF h nonce) (hwp : WF h pt) (hwa : WF h aad)
    (hn : nonce.len = g.nonceSize) (hp : pt.len ≤ maxPlain)
    (hdn : Disjoint { pt with len := 0 } nonce) (hda : Disjoint { pt with len := 0 } aad) :
    ∃ h' ret, sealA64 g h { pt with len := 0 } nonce pt aad = .ok (h', ret) ∧
      Mem.read h' ret =
        Spec.GCM.sealGCM g.k.E g.tagSize (Mem.read h nonce) (Mem.read h pt) (Mem.read h aad) ∧
      (Shares ret pt ↔ pt.arr ≠ none ∧ pt.len + g.tagSize ≤ pt.cap) ∧
      UnchangedOutside h h' (InRegion ret 0 (pt.len + g.tagSize)) := by
  have hwf : WF h { pt with len := 0 } := by
    obtain ⟨arr, o, len, cap⟩ := pt
    exact ⟨Nat.zero_le _, hwp.2⟩
  have hadm : Admissible { pt with len := 0 } nonce pt aad :=
    C10.inplace_admissible _ _ _ _ rfl hdn hda
  obtain ⟨h', ret, e, hread, hshare, hun, _⟩ :=
    sealA64_appends g hk ht h { pt with len := 0 } nonce pt aad hwf hwn hwp hwa hn hp hadm
  have hr0 : Mem.read h ({ pt with len := 0 } : Slice) = [] := by
    cases hpa : pt.arr <;> simp [Mem.read]
  refine ⟨h', ret, e, ?_, ?_, hun⟩
  · rw [hread, hr0]; rfl
  · simpa [Shares] using hshare

/-- `Seal` panics on a nonce of the wrong length and on a plaintext above 2^36 − 32 bytes -/
theorem sealA64_panics (g : GcmA64) (h : Heap) (dst nonce pt aad : Slice)
    (hbad : nonce.len ≠ g.nonceSize ∨ pt.len > maxPlain) :
    sealA64 g h dst nonce pt aad = .panic := by
  unfold sealA64 sealWith
  by_cases hn : nonce.len ≠ g.nonceSize
  · simp [hn]
  · rcases hbad with hb | hb
    · exact absurd hb hn
    · simp [hn, hb]

/-! ### Open -/

/-- **Open on the arm64 path, tags agree** (`openGCM = some p`): no panic, the result shows
    `dst ‖ p`, shares dst's pointer iff there is room for `|ct| − tagSize` bytes, every byte of the
    old heap outside the appended region is unchanged. -/
theorem openA64_appends (g : GcmA64) (hk : KSpec g.k) (ht12 : gcmMinimumTagSize ≤ g.tagSize)
    (ht : g.tagSize ≤ 16)
    (h : Heap) (dst nonce ct aad : Slice)
    (hwf : WF h dst) (hwn : WF h nonce) (hwc : WF h ct) (hwa : WF h aad)
    (hn : nonce.len = g.nonceSize) (h2 : ct.len ≤ maxPlain + g.tagSize)
    (hadm : Admissible dst nonce ct aad)
    (p : Bytes)
    (hv : Spec.GCM.openGCM g.k.E g.tagSize (Mem.read h nonce) (Mem.read h ct) (Mem.read h aad) = some p) :
    ∃ h' ret, openA64 g h dst nonce ct aad = .ok (h', some ret) ∧
      Mem.read h' ret = Mem.read h dst ++ p ∧
      (Shares ret dst ↔ dst.arr ≠ none ∧ ct.len - g.tagSize ≤ dst.cap - dst.len) ∧
      UnchangedOutside h h' (InRegion ret dst.len (ct.len - g.tagSize)) ∧
      WF h' ret ∧
      Mem.read h' nonce = Mem.read h nonce ∧
      Mem.read h' aad = Mem.read h aad ∧
      (Disjoint dst ct → Mem.read h' ct = Mem.read h ct) ∧
      (∀ s, WF h s → Disjoint dst s → Mem.read h' s = Mem.read h s) := by
  obtain ⟨h', ret, e, wr, hread, hshare, _, hun, hdis⟩ :=
    Proofs.GCMGlueA64.open_core_some g hk ht12 ht h dst nonce ct aad hwf hwn hwc hwa hn h2 hadm p hv
  exact ⟨h', ret, e, hread, hshare, hun, wr, hdis nonce hwn hadm.1, hdis aad hwa hadm.2.1,
    fun hd => hdis ct hwc hd, hdis⟩

/-- **Open fails cleanly.**  A ciphertext too long, or `openGCM = none` (shorter than the tag, or
    the tags differ): `(nil, errOpen)`, no panic, no byte of the old heap changed, every slice
    shows what it showed — whatever the aliasing (the comparison comes before `ensureCapacity`
    and before the first store to the caller's memory). -/
theorem openA64_fails (g : GcmA64) (hk : KSpec g.k) (ht12 : gcmMinimumTagSize ≤ g.tagSize)
    (ht : g.tagSize ≤ 16)
    (h : Heap) (dst nonce ct aad : Slice)
    (hwn : WF h nonce) (hwc : WF h ct) (hwa : WF h aad)
    (hn : nonce.len = g.nonceSize)
    (hv : ct.len > maxPlain + g.tagSize ∨
      Spec.GCM.openGCM g.k.E g.tagSize (Mem.read h nonce) (Mem.read h ct) (Mem.read h aad) = none) :
    ∃ h', openA64 g h dst nonce ct aad = .ok (h', none) ∧
      UnchangedOutside h h' Nowhere ∧
      (∀ s, WF h s → Mem.read h' s = Mem.read h s) := by
  obtain ⟨h', e, hu⟩ := Proofs.GCMGlueA64.open_core_none g hk ht12 ht h dst nonce ct aad hwn hwc hwa hn hv
  exact ⟨h', e, hu, fun s ws => (Proofs.GCMGlueA64.keep hu ws).2⟩

/-- **C07 for this path, in one statement**: Open returns the plaintext or `(nil, errOpen)` exactly
    as Algorithm 5 (`Spec.GCM.openGCM`) decides -/
theorem openA64_decides (g : GcmA64) (hk : KSpec g.k) (ht12 : gcmMinimumTagSize ≤ g.tagSize)
    (ht : g.tagSize ≤ 16)
    (h : Heap) (dst nonce ct aad : Slice)
    (hwf : WF h dst) (hwn : WF h nonce) (hwc : WF h ct) (hwa : WF h aad)
    (hn : nonce.len = g.nonceSize) (h2 : ct.len ≤ maxPlain + g.tagSize)
    (hadm : Admissible dst nonce ct aad) :
    match Spec.GCM.openGCM g.k.E g.tagSize (Mem.read h nonce) (Mem.read h ct) (Mem.read h aad) with
    | some p =>
      ∃ h' ret, openA64 g h dst nonce ct aad = .ok (h', some ret) ∧
        Mem.read h' ret = Mem.read h dst ++ p ∧
        (Shares ret dst ↔ dst.arr ≠ none ∧ ct.len - g.tagSize ≤ dst.cap - dst.len) ∧
        UnchangedOutside h h' (InRegion ret dst.len (ct.len - g.tagSize))
    | none =>
      ∃ h', openA64 g h dst nonce ct aad = .ok (h', none) ∧
        UnchangedOutside h h' Nowhere ∧ (∀ s, WF h s → Mem.read h' s = Mem.read h s) := by
  cases hv : Spec.GCM.openGCM g.k.E g.tagSize (Mem.read h nonce) (Mem.read h ct) (Mem.read h aad) with
  | some p =>
    obtain ⟨h', ret, e, hread, hshare, hun, _⟩ :=
      openA64_appends g hk ht12 ht h dst nonce ct aad hwf hwn hwc hwa hn h2 hadm p hv
    exact ⟨h', ret, e, hread, hshare, hun⟩
  | none =>
    exact openA64_fails g hk ht12 ht h dst nonce ct aad hwn hwc hwa hn (Or.inr hv)

/-- the empty plaintext (`len(ciphertext) = tagSize`, tags agree): for EVERY well-formed dst — nil,
    empty non-nil, non-empty, with or without spare capacity — Open returns dst itself (nil stays
    nil) with a nil error; no panic (`&out[0]` is never formed: `cryptoBlocks` has nothing to do);
    no byte of the old heap changed. -/
theorem openA64_empty (g : GcmA64) (hk : KSpec g.k) (ht12 : gcmMinimumTagSize ≤ g.tagSize)
    (ht : g.tagSize ≤ 16)
    (h : Heap) (dst nonce ct aad : Slice)
    (hwf : WF h dst) (hwn : WF h nonce) (hwc : WF h ct) (hwa : WF h aad)
    (hn : nonce.len = g.nonceSize) (hlen : ct.len = g.tagSize)
    (hadm : Admissible dst nonce ct aad)
    (p : Bytes)
    (hv : Spec.GCM.openGCM g.k.E g.tagSize (Mem.read h nonce) (Mem.read h ct) (Mem.read h aad) = some p) :
    ∃ h', openA64 g h dst nonce ct aad = .ok (h', some dst) ∧
      UnchangedOutside h h' Nowhere ∧ Mem.read h' dst = Mem.read h dst := by
  obtain ⟨h', ret, e, _, hread, _, hroom, hun, hdis⟩ :=
    Proofs.GCMGlueA64.open_core_some g hk ht12 ht h dst nonce ct aad hwf hwn hwc hwa hn (by omega) hadm p hv
  have hz : ct.len - g.tagSize = 0 := by omega
  have hret : ret = dst := by
    rw [hroom (by omega), hz]
    cases dst; rfl
  subst hret
  refine ⟨h', e, ?_, hdis ret hwf (Proofs.GCMGlue.disjoint_self ret)⟩
  rw [hz] at hun
  exact Proofs.GCMGlueA64.UO_mono hun (fun a i _ ⟨_, y, z⟩ => by omega)

/-- `Open` panics on a nonce of the wrong length and on a tag size below 12; a ciphertext shorter
    than the tag is `(nil, errOpen)` (no panic, heap untouched) -/
theorem openA64_panics (g : GcmA64) (h : Heap) (dst nonce ct aad : Slice)
    (hbad : nonce.len ≠ g.nonceSize ∨ g.tagSize < gcmMinimumTagSize) :
    openA64 g h dst nonce ct aad = .panic := by
  unfold openA64 openWith
  by_cases hn : nonce.len ≠ g.nonceSize
  · simp [hn]
  · rcases hbad with hb | hb
    · exact absurd hb hn
    · simp [hn, hb]

theorem openA64_short (g : GcmA64) (h : Heap) (dst nonce ct aad : Slice)
    (hn : nonce.len = g.nonceSize) (ht12 : gcmMinimumTagSize ≤ g.tagSize)
    (hs : ct.len < g.tagSize) :
    openA64 g h dst nonce ct aad = .ok (h, none) := by
  unfold openA64 openWith
  rw [if_neg (by simpa using hn), if_neg (by omega), if_pos hs]

/-! ### repeated calls -/

/-- **Seal twice.**  Inputs that do not meet dst's spare capacity: the second call on the same
    buffers (in the heap the first call left) returns the same bytes, shares dst's pointer exactly
    when the first did, and is the very same slice when there was room. -/
theorem sealA64_idempotent (g : GcmA64) (hk : KSpec g.k) (ht : g.tagSize ≤ 16)
    (h : Heap) (dst nonce pt aad : Slice)
    (hwf : WF h dst) (hwn : WF h nonce) (hwp : WF h pt) (hwa : WF h aad)
    (hn : nonce.len = g.nonceSize) (hp : pt.len ≤ maxPlain)
    (hdn : Disjoint dst nonce) (hdp : Disjoint dst pt) (hda : Disjoint dst aad)
    (h' : Heap) (ret : Slice) (h1 : sealA64 g h dst nonce pt aad = .ok (h', ret)) :
    ∃ h'' ret', sealA64 g h' dst nonce pt aad = .ok (h'', ret') ∧
      Mem.read h'' ret' = Mem.read h' ret ∧
      (Shares ret' dst ↔ Shares ret dst) ∧
      (pt.len + g.tagSize ≤ dst.cap - dst.len → ret' = ret) :=
  Proofs.GCMGlueA64.seal_repeat g hk ht h dst nonce pt aad hwf hwn hwp hwa hn hp hdn hdp hda h' ret h1

/-- **Open twice.**  Same answer: the same plaintext bytes behind dst, or `(nil, errOpen)` again
    (the comparison reads the caller's tag, it never writes to it) -/
theorem openA64_idempotent (g : GcmA64) (hk : KSpec g.k) (ht12 : gcmMinimumTagSize ≤ g.tagSize)
    (ht : g.tagSize ≤ 16)
    (h : Heap) (dst nonce ct aad : Slice)
    (hwf : WF h dst) (hwn : WF h nonce) (hwc : WF h ct) (hwa : WF h aad)
    (hn : nonce.len = g.nonceSize)
    (hdn : Disjoint dst nonce) (hdc : Disjoint dst ct) (hda : Disjoint dst aad)
    (h' : Heap) (r : Option Slice) (h1 : openA64 g h dst nonce ct aad = .ok (h', r)) :
    ∃ h'' r', openA64 g h' dst nonce ct aad = .ok (h'', r') ∧
      r'.map (Mem.read h'') = r.map (Mem.read h') :=
  Proofs.GCMGlueA64.open_repeat g hk ht12 ht h dst nonce ct aad hwf hwn hwc hwa hn hdn hdc hda h' r h1

/-! ### the library's instance, and the two paths side by side -/

/-- `sealA64_appends` for SM4-GCM as the driver runs it -/
theorem sealA64_appends_sm4 (key : Bytes) (nonceSize tagSize : Nat) (ht : tagSize ≤ 16)
    (h : Heap) (dst nonce pt aad : Slice)
    (hwf : WF h dst) (hwn : WF h nonce) (hwp : WF h pt) (hwa : WF h aad)
    (hn : nonce.len = nonceSize) (hp : pt.len ≤ maxPlain)
    (hadm : Admissible dst nonce pt aad) :
    ∃ h' ret, sealA64 (newGCM key nonceSize tagSize) h dst nonce pt aad = .ok (h', ret) ∧
      Mem.read h' ret = Mem.read h dst ++
        Spec.GCM.sealGCM (Spec.SM4.cryptFast (Spec.SM4.keySchedule key)) tagSize
          (Mem.read h nonce) (Mem.read h pt) (Mem.read h aad) ∧
      (Shares ret dst ↔ dst.arr ≠ none ∧ pt.len + tagSize ≤ dst.cap - dst.len) ∧
      UnchangedOutside h h' (InRegion ret dst.len (pt.len + tagSize)) := by
  obtain ⟨h', ret, e, hread, hshare, hun, _⟩ :=
    sealA64_appends (newGCM key nonceSize tagSize) (kspec_sm4 key nonceSize tagSize) ht
      h dst nonce pt aad hwf hwn hwp hwa hn hp hadm
  exact ⟨h', ret, e, hread, hshare, hun⟩

/-- `openA64_decides` for SM4-GCM as the driver runs it (tag sizes crypto/cipher lets through) -/
theorem openA64_decides_sm4 (key : Bytes) (nonceSize tagSize : Nat) (ht12 : 12 ≤ tagSize) (ht : tagSize ≤ 16)
    (h : Heap) (dst nonce ct aad : Slice)
    (hwf : WF h dst) (hwn : WF h nonce) (hwc : WF h ct) (hwa : WF h aad)
    (hn : nonce.len = nonceSize) (h2 : ct.len ≤ maxPlain + tagSize)
    (hadm : Admissible dst nonce ct aad) :
    match Spec.GCM.openGCM (Spec.SM4.cryptFast (Spec.SM4.keySchedule key)) tagSize
        (Mem.read h nonce) (Mem.read h ct) (Mem.read h aad) with
    | some p =>
      ∃ h' ret, openA64 (newGCM key nonceSize tagSize) h dst nonce ct aad = .ok (h', some ret) ∧
        Mem.read h' ret = Mem.read h dst ++ p ∧
        (Shares ret dst ↔ dst.arr ≠ none ∧ ct.len - tagSize ≤ dst.cap - dst.len) ∧
        UnchangedOutside h h' (InRegion ret dst.len (ct.len - tagSize))
    | none =>
      ∃ h', openA64 (newGCM key nonceSize tagSize) h dst nonce ct aad = .ok (h', none) ∧
        UnchangedOutside h h' Nowhere ∧ (∀ s, WF h s → Mem.read h' s = Mem.read h s) :=
  openA64_decides (newGCM key nonceSize tagSize) (kspec_sm4 key nonceSize tagSize) ht12 ht
    h dst nonce ct aad hwf hwn hwc hwa hn h2 hadm

/-- **Path independence at the level of the Go glue**: on the same admissible call the amd64 glue
    (fused routine = specification, `GCMGlue.newGCM`) and the arm64 glue return slices that show the
    same bytes and share dst's pointer in the same cases -/
theorem seal_paths_agree (key : Bytes) (nonceSize tagSize : Nat) (ht12 : 12 ≤ tagSize) (ht : tagSize ≤ 16)
    (h : Heap) (dst nonce pt aad : Slice)
    (hwf : WF h dst) (hwn : WF h nonce) (hwp : WF h pt) (hwa : WF h aad)
    (hn : nonce.len = nonceSize) (hp : pt.len ≤ maxPlain)
    (hadm : Admissible dst nonce pt aad) :
    ∃ h1 r1 h2 r2,
      GCMGlue.seal (GCMGlue.newGCM key nonceSize tagSize) h dst nonce pt aad = .ok (h1, r1) ∧
      sealA64 (newGCM key nonceSize tagSize) h dst nonce pt aad = .ok (h2, r2) ∧
      Mem.read h1 r1 = Mem.read h2 r2 ∧ (Shares r1 dst ↔ Shares r2 dst) := by
  obtain ⟨h1, r1, e1, rd1, sh1, _⟩ :=
    C10.seal_appends_sm4 key nonceSize tagSize ht12 ht h dst nonce pt aad hwf hwn hwp hwa hn hp hadm
  obtain ⟨h2, r2, e2, rd2, sh2, _⟩ :=
    sealA64_appends_sm4 key nonceSize tagSize ht h dst nonce pt aad hwf hwn hwp hwa hn hp hadm
  exact ⟨h1, r1, h2, r2, e1, e2, by rw [rd1, rd2], by rw [sh1, sh2]⟩

/-! ### the routine before the repair of finding F2, as a negative

  `ensureCapacityA64Old` returns `head = array` (not extended) when `array` has room; its tail
  `head[len(array):]` is then EMPTY.  Run through the same Seal/Open (`sealWith`/`openWith`):
  * Seal of an empty plaintext returns dst itself — the 12 tag bytes are not in the result
    (`copy(out[0:], tag[:12])` copies `min(0, 12) = 0` bytes);
  * Seal of a non-empty plaintext and Open of a non-empty ciphertext panic (`&out[0]` /
    `out[i]` on the empty tail: index out of range);
  while the repaired routine returns dst ‖ output on the same heaps. -/

section negative

/-- toy kernels (the negative does not depend on what the kernels compute) -/
def toyK : Kernels :=
  { E := fun b => ((b.map (· + 1)) ++ List.replicate 16 0).take 16
    xor := Spec.GCM.xorBytes
    gh := fun _ t b => Spec.GCM.xorBytes t ((b ++ List.replicate 16 0).take 16) }

def toyG : GcmA64 := { nonceSize := 2, tagSize := 12, k := toyK }

/-- heap: array 0 = nonce, 1 = aad, 2 = plaintext (3 bytes), 3 = dst's array (2 bytes used of 40),
    4 = an empty plaintext's array -/
def ngHeap : Heap := [[1, 2], [9], [10, 11, 12], [0xaa, 0xbb] ++ List.replicate 38 0, []]
def ngNonce : Slice := { arr := some 0, off := 0, len := 2, cap := 2 }
def ngAad : Slice := { arr := some 1, off := 0, len := 1, cap := 1 }
def ngPt : Slice := { arr := some 2, off := 0, len := 3, cap := 3 }
def ngEmpty : Slice := { arr := some 4, off := 0, len := 0, cap := 0 }
def ngDst : Slice := { arr := some 3, off := 0, len := 2, cap := 40 }

/-- pre-repair, room, empty plaintext: Seal returns dst itself, without the tag -/
example : (match sealWith ensureCapacityA64Old toyG ngHeap ngDst ngNonce ngEmpty ngAad with
    | .ok (h', ret) => (decide (ret = ngDst), Mem.read h' ret)
    | _ => (false, []))
    = (true, [0xaa, 0xbb]) := by decide

/-- repaired, same call: dst followed by the 12 tag bytes -/
example : (match sealA64 toyG ngHeap ngDst ngNonce ngEmpty ngAad with
    | .ok (h', ret) => (ret.len, (Mem.read h' ret).take 2, decide (Shares ret ngDst))
    | _ => (0, [], false))
    = (14, [0xaa, 0xbb], true) := by decide

/-- pre-repair, room, 3-byte plaintext: Seal panics (`out[0] = …` on the empty tail) -/
example : sealWith ensureCapacityA64Old toyG ngHeap ngDst ngNonce ngPt ngAad = .panic := by decide

/-- repaired, same call: dst ‖ 3 ciphertext bytes ‖ 12 tag bytes, in dst's array -/
example : (match sealA64 toyG ngHeap ngDst ngNonce ngPt ngAad with
    | .ok (_, ret) => (ret.len, decide (Shares ret ngDst))
    | _ => (0, false))
    = (17, true) := by decide

/-- the sealed 3-byte message of the repaired Seal, as its own array, for Open -/
def ngSealed : Bytes :=
  match sealA64 toyG ngHeap Slice.nil ngNonce ngPt ngAad with
  | .ok (h', ret) => Mem.read h' ret
  | _ => []

def ngHeapO : Heap := [[1, 2], [9], ngSealed, [0xaa, 0xbb] ++ List.replicate 38 0]
def ngCt : Slice := { arr := some 2, off := 0, len := 15, cap := 15 }

/-- pre-repair, room: Open of the (authentic) message panics -/
example : openWith ensureCapacityA64Old toyG ngHeapO ngDst ngNonce ngCt ngAad = .panic := by decide

/-- repaired, same call: dst ‖ plaintext -/
example : (match openA64 toyG ngHeapO ngDst ngNonce ngCt ngAad with
    | .ok (h', some ret) => (Mem.read h' ret, decide (Shares ret ngDst))
    | _ => ([], false))
    = ([0xaa, 0xbb, 10, 11, 12], true) := by decide

/-- the statement of the negative as a theorem: there are a heap and well-formed, admissible
    arguments with room in dst on which the pre-repair routine makes Seal lose its output and Open
    panic -/
theorem ensureCapacityA64_old :
    (∃ g h dst nonce pt aad h' ret, WF h dst ∧ Admissible dst nonce pt aad ∧
      pt.len + g.tagSize ≤ dst.cap - dst.len ∧
      sealWith ensureCapacityA64Old g h dst nonce pt aad = .ok (h', ret) ∧
      Mem.read h' ret = Mem.read h dst) ∧
    (∃ g h dst nonce ct aad, WF h dst ∧ Admissible dst nonce ct aad ∧
      ct.len - g.tagSize ≤ dst.cap - dst.len ∧ g.tagSize ≤ ct.len ∧
      openWith ensureCapacityA64Old g h dst nonce ct aad = .panic) := by
  refine ⟨⟨toyG, ngHeap, ngDst, ngNonce, ngEmpty, ngAad, ?_⟩, ⟨toyG, ngHeapO, ngDst, ngNonce, ngCt, ngAad, ?_⟩⟩
  · cases hs : sealWith ensureCapacityA64Old toyG ngHeap ngDst ngNonce ngEmpty ngAad with
    | ok r =>
      refine ⟨r.1, r.2, by decide, ⟨Or.inl (by decide), Or.inl (by decide), Or.inl (Or.inl (by decide))⟩,
        by decide, rfl, ?_⟩
      have : (match sealWith ensureCapacityA64Old toyG ngHeap ngDst ngNonce ngEmpty ngAad with
        | .ok (h', ret) => Mem.read h' ret
        | _ => []) = [0xaa, 0xbb] := by decide
      rw [hs] at this
      exact this
    | err => exact absurd hs (by decide)
    | panic => exact absurd hs (by decide)
  · exact ⟨by decide, ⟨Or.inl (by decide), Or.inl (by decide), Or.inl (Or.inl (by decide))⟩,
      by decide, by decide, by decide⟩

end negative

/-! ### non-vacuity: the hypotheses are satisfiable and the conclusions are not trivial -/

section examples

/-- heap: array 0 = nonce (12 bytes), 1 = aad, 2 = plaintext (3 bytes of 40), 3 = dst's array -/
def exHeap : Heap :=
  [List.replicate 12 7, [9], [10, 11, 12] ++ List.replicate 37 0, [0xaa, 0xbb] ++ List.replicate 38 0]
def exNonce : Slice := { arr := some 0, off := 0, len := 12, cap := 12 }
def exAad : Slice := { arr := some 1, off := 0, len := 1, cap := 1 }
def exPt : Slice := { arr := some 2, off := 0, len := 3, cap := 40 }
def exDstRoom : Slice := { arr := some 3, off := 0, len := 2, cap := 40 }
def exDstTight : Slice := { arr := some 3, off := 0, len := 2, cap := 16 }

example : WF exHeap exNonce ∧ WF exHeap exAad ∧ WF exHeap exPt ∧ WF exHeap exDstRoom ∧
    WF exHeap exDstTight ∧ WF exHeap Slice.nil := by decide
example : Admissible exDstRoom exNonce exPt exAad :=
  ⟨Or.inl (by decide), Or.inl (by decide), Or.inl (Or.inl (by decide))⟩

/-- a use of `sealA64_appends_sm4` (not an evaluation): room → the result is dst's array re-sliced
    and begins with dst's two bytes -/
example (key : Bytes) : ∃ h' ret, sealA64 (newGCM key 12 16) exHeap exDstRoom exNonce exPt exAad = .ok (h', ret) ∧
    (Mem.read h' ret).take 2 = [0xaa, 0xbb] ∧ Shares ret exDstRoom := by
  obtain ⟨h', ret, e, hread, hshare, _⟩ :=
    sealA64_appends_sm4 key 12 16 (by decide) exHeap exDstRoom exNonce exPt exAad
      (by decide) (by decide) (by decide) (by decide) rfl (by decide)
      ⟨Or.inl (by decide), Or.inl (by decide), Or.inl (Or.inl (by decide))⟩
  refine ⟨h', ret, e, ?_, hshare.mpr ⟨by decide, by decide⟩⟩
  rw [hread]
  rfl

/-- one byte short of room (cap − len = 14 < 3 + 12): a new array, not shared -/
example (key : Bytes) : ∃ h' ret, sealA64 (newGCM key 12 12) exHeap exDstTight exNonce exPt exAad = .ok (h', ret) ∧
    ¬ Shares ret exDstTight := by
  obtain ⟨h', ret, e, _, hshare, _⟩ :=
    sealA64_appends_sm4 key 12 12 (by decide) exHeap exDstTight exNonce exPt exAad
      (by decide) (by decide) (by decide) (by decide) rfl (by decide)
      ⟨Or.inl (by decide), Or.inl (by decide), Or.inl (Or.inl (by decide))⟩
  exact ⟨h', ret, e, fun hs => absurd (hshare.mp hs).2 (by decide)⟩

/-- in place with spare capacity (`dst = pt[:0]`, cap 40 ≥ 3 + 16): the result lies over the
    plaintext and IS the specification's output; Open of it (again in place) gives the plaintext
    back — by the theorems, for every key -/
example (key : Bytes) : ∃ h' ret, sealA64 (newGCM key 12 16) exHeap { exPt with len := 0 } exNonce exPt exAad
      = .ok (h', ret) ∧ Shares ret exPt ∧
    Mem.read h' ret = Spec.GCM.sealGCM (Spec.SM4.cryptFast (Spec.SM4.keySchedule key)) 16
      (List.replicate 12 7) [10, 11, 12] [9] := by
  obtain ⟨h', ret, e, hread, hshare, _⟩ :=
    sealA64_inplace (newGCM key 12 16) (kspec_sm4 key 12 16) (Nat.le_refl 16) exHeap exNonce exPt exAad
      (by decide) (by decide) (by decide) rfl (by decide) (Or.inl (by decide)) (Or.inl (by decide))
  exact ⟨h', ret, e, hshare.mpr ⟨by decide, show 3 + 16 ≤ 40 by decide⟩, hread⟩

/-- nil dst: admissible whatever the inputs; a new array with the 3 + 16 output bytes -/
example (key : Bytes) : ∃ h' ret, sealA64 (newGCM key 12 16) exHeap Slice.nil exNonce exPt exAad = .ok (h', ret) ∧
    (Mem.read h' ret).length = 19 ∧ ¬ Shares ret Slice.nil := by
  obtain ⟨h', ret, e, hread, hshare, _⟩ :=
    sealA64_appends_sm4 key 12 16 (by decide) exHeap Slice.nil exNonce exPt exAad
      (by decide) (by decide) (by decide) (by decide) rfl (by decide) (admissible_nil _ _ _)
  refine ⟨h', ret, e, ?_, fun hs => absurd (hshare.mp hs).1 (by decide)⟩
  rw [hread, List.length_append,
    Proofs.GCMGlue.length_sealGCM _ (Proofs.GCMGlue.length_cryptFast _) 16 (by decide)]
  rfl

/-- wrong nonce length: panic; ciphertext shorter than the tag: `(nil, errOpen)`; the model
    evaluated (toy kernels) -/
example : sealA64 toyG ngHeap ngDst ngAad ngPt ngAad = .panic := by decide
example : openA64 toyG ngHeap ngDst ngNonce ngPt ngAad = .ok (ngHeap, none) := by decide
/-- a tag size above 16 is the slice-bounds panic `tag[:g.tagSize]` (crypto/cipher never asks for it) -/
example : sealA64 { toyG with tagSize := 17 } ngHeap ngDst ngNonce ngPt ngAad = .panic := by decide
/-- a tampered tag: `(nil, errOpen)`, and the old arrays are what they were -/
example : (match openA64 toyG [[1, 2], [9], ngSealed.take 14 ++ [0]] Slice.nil ngNonce ngCt ngAad with
    | .ok (h', none) => h'.take 3
    | _ => [])
    = [[1, 2], [9], ngSealed.take 14 ++ [0]] := by decide

/-- the real thing, evaluated by the kernel: SM4-GCM through the arm64 glue (specification kernels),
    one byte, in place with spare capacity — the result lies over the plaintext, the capacity
    behind it is untouched, and the bytes are the specification's -/
example :
    (match sealA64 (newGCM (List.replicate 16 0) 12 12)
        [List.replicate 12 0, [], [0x41] ++ List.replicate 15 0]
        { arr := some 2, off := 0, len := 0, cap := 16 }
        { arr := some 0, off := 0, len := 12, cap := 12 }
        { arr := some 2, off := 0, len := 1, cap := 16 }
        { arr := some 1, off := 0, len := 0, cap := 0 } with
      | .ok (h', ret) => (decide (Shares ret { arr := some 2, off := 0, len := 0, cap := 16 }),
          ret.len, (arrayOf h' 2).drop 13,
          decide (Mem.read h' ret =
            Spec.GCM.sealGCM (Spec.SM4.cryptFast (Spec.SM4.keySchedule (List.replicate 16 0))) 12
              (List.replicate 12 0) [0x41] []))
      | _ => (false, 0, [], false))
    = (true, 13, [0, 0, 0], true) := by decide +kernel

end examples

#print axioms kspec_sm4
#print axioms admissible_nil
#print axioms ensureCapacityA64_spec
#print axioms ensureCapacityA64_contract
#print axioms cryptoBlocksA64_gctr
#print axioms sealA64_appends
#print axioms sealA64_is_sealGlue
#print axioms sealA64_inplace
#print axioms sealA64_panics
#print axioms openA64_appends
#print axioms openA64_fails
#print axioms openA64_decides
#print axioms openA64_empty
#print axioms openA64_panics
#print axioms openA64_short
#print axioms sealA64_idempotent
#print axioms openA64_idempotent
#print axioms sealA64_appends_sm4
#print axioms openA64_decides_sm4
#print axioms seal_paths_agree
#print axioms ensureCapacityA64_old

end SMGo.Props.C10Arm64
