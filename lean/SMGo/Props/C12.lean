/-
  Property C12 — key generation, private-key test, public-key derivation, on-curve test.
  (Property theorems only; lemmas live in SMGo/Proofs/SM2Key.lean, SM2KeyGroup.lean, SM2Reader.lean.)

  "Key generation returns, for every randomness stream, a private key d in [1,n-2] together with the
   affine coordinates of [d]G, rejecting and redrawing out-of-range candidates in 32-byte units.  The
   private-key test accepts a 32-byte string exactly when its value is in [1,n-2]; public-key
   derivation returns [d]G or an error; and the on-curve test accepts exactly the pairs of canonical
   32-byte coordinates that satisfy the curve equation."

  Objects.  `Model.SM2.generateKey / testPrivateKey / derivePublic / checkOnCurve` are the models of
  the Go functions of /repo/sm2/sm2.go (executed against the Go code by the harness) over a context
  `X`; `Spec.SM2.genKey / validKey / derive / onCurveBytes` are the functions the differential driver
  executes as oracle.  `F : CurveFacts X` collects what is proved about the layers below
  (scalar multiplication C14/C18, encodings C15, field decoding C16); it is discharged for the
  regenerated instance elsewhere.  An `Outcome` is a value, a returned error or a panic.
-/
import SMGo.Model.SM2Inst
import SMGo.Proofs.SM2Facts
import SMGo.Proofs.SM2Reader
import SMGo.Proofs.SM2Key
import SMGo.Proofs.SM2KeyGroup
namespace SMGo.Props.C12
open SMGo SMGo.Model SMGo.Model.SM2 SMGo.Proofs.SM2Facts
open SMGo.Spec.SM2 (candidates firstValid validKey)

variable {α β : Type}

/-! ### (i) `TestPrivateKey` -/

/-- `validKey d` is "d in [1, n-2]" -/
theorem validKey_iff (d : Nat) : validKey d = true ↔ 1 ≤ d ∧ d ≤ Spec.SM2.n - 2 := by
  rw [Proofs.SM2Key.validKey_iff]
  have : 2 ≤ Spec.SM2.n := by decide
  omega

/-- a 32-byte string is accepted (result 0) exactly when its value is in [1, n-2]; otherwise -1 -/
theorem testPrivateKey_32 (X : Ctx α β) (hn : X.n = Spec.SM2.n) (b : Bytes) (hb : b.length = 32) :
    testPrivateKey X b = .ok (if validKey (Bytes.toNatBE b) then 0 else -1) :=
  Proofs.SM2Key.testPrivateKey_32 X hn b hb

/-- more than 32 bytes: the (positive) length difference, whatever the contents -/
theorem testPrivateKey_long (X : Ctx α β) (b : Bytes) (hb : 32 < b.length) :
    testPrivateKey X b = .ok ((b.length : Int) - 32) :=
  Proofs.SM2Key.testPrivateKey_long X b hb

/-- fewer than 32 bytes: 0 exactly when the value is non-zero (it is then below 256^31 < n-1) -/
theorem testPrivateKey_short (X : Ctx α β) (b : Bytes) (hb : b.length < 32) :
    testPrivateKey X b = .ok (if Bytes.toNatBE b = 0 then -1 else 0) :=
  Proofs.SM2Key.testPrivateKey_short X b hb

/-- for every input: the test never panics, and it accepts exactly the strings of at most 32 bytes
    whose value is in [1, n-2] -/
theorem testPrivateKey_accepts_iff (X : Ctx α β) (hn : X.n = Spec.SM2.n) (b : Bytes) :
    (∃ r, testPrivateKey X b = .ok r) ∧
    (testPrivateKey X b = .ok 0 ↔ b.length ≤ 32 ∧ validKey (Bytes.toNatBE b) = true) :=
  ⟨⟨_, Proofs.SM2Key.testPrivateKey_total X hn b⟩, Proofs.SM2Key.testPrivateKey_accepts_iff X hn b⟩

/-! ### (ii) `GenerateKey` -/

/-- `generateKey_spec`: for every randomness stream (and the nil reader) the call returns exactly what
    the specification says — the first candidate in [1, n-2], the 32-byte coordinates of [d]G, and
    32·(j+1) bytes consumed — or an error; it never panics -/
theorem generateKey_spec (X : Ctx α β) (F : CurveFacts X) (sc : Option Script) :
    generateKey X sc =
      (match Spec.SM2.genKey sc with
       | some (d, x, y, c) => .ok ((d, x, y), c)
       | none => .err) :=
  Proofs.SM2Key.generateKey_spec X F sc

/-- the rejection loop alone (only `X.n = n` needed), for any iteration bound `f`: candidates are
    complete 32-byte draws, rejected ones are redrawn, the first valid one at index `j` is returned after
    consuming 32·(j+1) bytes -/
theorem genKeyLoop_spec (X : Ctx α β) (hn : X.n = Spec.SM2.n) (f : Nat) (sc : Script) :
    (∀ d j, firstValid (candidates sc []) 0 = some (d, j) → j < f →
        ∃ sc', genKeyLoop X f sc = .ok (d, sc') ∧ avail sc = avail sc' + 32 * (j + 1)) ∧
    (∀ d j, firstValid (candidates sc []) 0 = some (d, j) → f ≤ j → genKeyLoop X f sc = .err) ∧
    (firstValid (candidates sc []) 0 = none → genKeyLoop X f sc = .err) :=
  Proofs.SM2Key.genKeyLoop_spec X hn f sc

/-- what `firstValid` returns: the candidate at index `j`, valid, all earlier ones invalid -/
theorem firstValid_spec (l : List Bytes) (d : Bytes) (j : Nat) (h : firstValid l 0 = some (d, j)) :
    l[j]? = some d ∧ validKey (Bytes.toNatBE d) = true ∧
      ∀ i, i < j → ∀ K, l[i]? = some K → validKey (Bytes.toNatBE K) = false := by
  obtain ⟨_, h2, h3, h4⟩ := Proofs.SM2Key.firstValid_some l 0 d j h
  exact ⟨by simpa using h2, h3, by simpa using h4⟩

theorem firstValid_none_iff (l : List Bytes) :
    firstValid l 0 = none ↔ ∀ K ∈ l, validKey (Bytes.toNatBE K) = false :=
  Proofs.SM2Key.firstValid_eq_none_iff l 0

/-- a key is returned exactly when the stream delivers a complete candidate in [1, n-2] before
    failing or ending (for such d, [d]G is a finite point: G has order n) -/
theorem generateKey_ok_iff (X : Ctx α β) (F : CurveFacts X) (sc : Script) :
    (∃ r, generateKey X (some sc) = .ok r) ↔ ∃ K ∈ candidates sc [], validKey (Bytes.toNatBE K) = true := by
  rw [← Proofs.SM2KeyGroup.genKey_isSome_iff, generateKey_spec X F (some sc)]
  cases Spec.SM2.genKey (some sc) with
  | none => simp
  | some r => obtain ⟨d, x, y, c⟩ := r; simp

/-- the property as stated: whatever is returned is a private key d in [1, n-2] (a complete 32-byte
    candidate of the stream) together with the canonical 32-byte affine coordinates of [d]G, which
    pass the on-curve test; the consumption is a multiple of 32 -/
theorem generateKey_ok (X : Ctx α β) (F : CurveFacts X) (sc : Script) (d x y : Bytes) (c : Nat)
    (h : generateKey X (some sc) = .ok ((d, x, y), c)) :
    d.length = 32 ∧ 1 ≤ Bytes.toNatBE d ∧ Bytes.toNatBE d ≤ Spec.SM2.n - 2 ∧ d ∈ candidates sc [] ∧
    (∃ qx qy, Spec.SM2.smul (Bytes.toNatBE d) Spec.SM2.G = some (qx, qy) ∧
      x = Bytes.ofNatBE 32 qx ∧ y = Bytes.ofNatBE 32 qy) ∧
    checkOnCurve X x y = true ∧ 32 ∣ c := by
  rw [generateKey_spec X F (some sc)] at h
  cases hg : Spec.SM2.genKey (some sc) with
  | none => simp [hg] at h
  | some r =>
    obtain ⟨d', x', y', c'⟩ := r
    simp only [hg, Outcome.ok.injEq, Prod.mk.injEq] at h
    obtain ⟨⟨rfl, rfl, rfl⟩, rfl⟩ := h
    obtain ⟨hv, hmem, ⟨qx, qy, hq, hx, hy, _⟩, hon⟩ := Proofs.SM2KeyGroup.genKey_some sc _ _ _ _ hg
    have hv' := (validKey_iff _).mp hv
    refine ⟨Proofs.SM2Reader.candidates_all_32 sc _ hmem, hv'.1, hv'.2, hmem, ⟨qx, qy, hq, hx, hy⟩, ?_, ?_⟩
    · rw [Proofs.SM2Key.checkOnCurve_spec X F, hon]
    · simp only [Spec.SM2.genKey] at hg
      cases h0 : firstValid (candidates sc []) 0 with
      | none => simp [h0] at hg
      | some p =>
        obtain ⟨d0, j⟩ := p
        rw [h0] at hg
        simp only at hg
        split at hg
        · simp only [Option.some.injEq, Prod.mk.injEq] at hg
          exact ⟨j + 1, hg.2.2.2.symm⟩
        · simp at hg

/-! ### (iii) `DerivePublic` -/

/-- `derivePublic_spec`: [d]G (as two 32-byte coordinates) or an error — wrong length, or [d]G = O -/
theorem derivePublic_spec (X : Ctx α β) (F : CurveFacts X) (priv : Bytes) :
    derivePublic X priv =
      (match Spec.SM2.derive priv with
       | some (x, y) => .ok (x, y)
       | none => .err) :=
  Proofs.SM2Key.derivePublic_spec X F priv

/-- the error cases are exactly: not 32 bytes, or a multiple of n (in particular zero) -/
theorem derivePublic_err_iff (X : Ctx α β) (F : CurveFacts X) (priv : Bytes) :
    derivePublic X priv = .err ↔ ¬ (priv.length = 32 ∧ ¬ Spec.SM2.n ∣ Bytes.toNatBE priv) := by
  rw [← Proofs.SM2KeyGroup.derive_isSome_iff, derivePublic_spec X F]
  cases Spec.SM2.derive priv with
  | none => simp
  | some r => obtain ⟨x, y⟩ := r; simp

/-- on a key accepted by the private-key test with 32 bytes, derivation succeeds and agrees with key generation's public part -/
theorem derivePublic_of_valid (X : Ctx α β) (F : CurveFacts X) (priv : Bytes) (hl : priv.length = 32)
    (hv : validKey (Bytes.toNatBE priv) = true) :
    ∃ qx qy, Spec.SM2.smul (Bytes.toNatBE priv) Spec.SM2.G = some (qx, qy) ∧
      derivePublic X priv = .ok (Bytes.ofNatBE 32 qx, Bytes.ofNatBE 32 qy) ∧
      checkOnCurve X (Bytes.ofNatBE 32 qx) (Bytes.ofNatBE 32 qy) = true := by
  obtain ⟨qx, qy, hq, hx, hy, hon⟩ := Proofs.SM2KeyGroup.smul_G_of_validKey _ hv
  refine ⟨qx, qy, hq, ?_, ?_⟩
  · rw [derivePublic_spec X F]
    simp [Spec.SM2.derive, hl, hq]
  · rw [Proofs.SM2Key.checkOnCurve_spec X F, Proofs.SM2KeyGroup.onCurveBytes_ofNatBE qx qy hx hy hon]

/-! ### (iv) `CheckOnCurve` -/

/-- `checkOnCurve_spec` -/
theorem checkOnCurve_spec (X : Ctx α β) (F : CurveFacts X) (x y : Bytes) :
    checkOnCurve X x y = Spec.SM2.onCurveBytes x y :=
  Proofs.SM2Key.checkOnCurve_spec X F x y

/-- spelled out: accepted exactly the pairs of 32-byte strings with values below p that satisfy
    y² ≡ x³ + a·x + b (mod p) -/
theorem checkOnCurve_iff (X : Ctx α β) (F : CurveFacts X) (x y : Bytes) :
    checkOnCurve X x y = true ↔
      x.length = 32 ∧ y.length = 32 ∧ Bytes.toNatBE x < Spec.SM2.p ∧ Bytes.toNatBE y < Spec.SM2.p ∧
      (Bytes.toNatBE y * Bytes.toNatBE y) % Spec.SM2.p =
        (Bytes.toNatBE x * Bytes.toNatBE x % Spec.SM2.p * Bytes.toNatBE x + Spec.SM2.a * Bytes.toNatBE x + Spec.SM2.b) % Spec.SM2.p := by
  rw [checkOnCurve_spec X F]
  simp [Spec.SM2.onCurveBytes, Spec.SM2.onCurve]

/-! ### non-vacuity -/

theorem ctx_n : Model.SM2.ctx.n = Spec.SM2.n := by decide

/-- boundary values of the private-key test on the regenerated instance, through the theorem:
    0 and n-1 rejected, 1 and n-2 accepted -/
example : testPrivateKey ctx (Bytes.ofNatBE 32 0) = .ok (-1) ∧ testPrivateKey ctx (Bytes.ofNatBE 32 1) = .ok 0 ∧
    testPrivateKey ctx (Bytes.ofNatBE 32 (Spec.SM2.n - 2)) = .ok 0 ∧
    testPrivateKey ctx (Bytes.ofNatBE 32 (Spec.SM2.n - 1)) = .ok (-1) ∧
    testPrivateKey ctx (Bytes.ofNatBE 32 (2 ^ 256 - 1)) = .ok (-1) := by
  refine ⟨?_, ?_, ?_, ?_, ?_⟩ <;>
    (rw [testPrivateKey_32 ctx ctx_n _ (Proofs.SM2Key.ofNatBE_length _ _)]; decide +kernel)

example : testPrivateKey ctx (List.replicate 40 0) = .ok 8 := by
  rw [testPrivateKey_long ctx _ (by decide)]; decide

example : testPrivateKey ctx [0, 0, 5] = .ok 0 ∧ testPrivateKey ctx [0, 0] = .ok (-1) ∧ testPrivateKey ctx [] = .ok (-1) := by
  refine ⟨?_, ?_, ?_⟩ <;> (rw [testPrivateKey_short ctx _ (by decide)]; decide)

/-- the specification of key generation on a stream with a rejected first candidate, short reads and
    an empty read: a key is found at index 1, 64 bytes consumed -/
example : (Spec.SM2.genKey (some [.data (List.replicate 32 255), .zero, .data (List.replicate 20 0 ++ List.replicate 10 7),
    .data [1, 2, 3]])).map (fun r => (r.1, r.2.2.2)) = some (List.replicate 20 0 ++ List.replicate 10 7 ++ [1, 2], 64) := by
  decide +kernel

/-- the on-curve specification accepts G and rejects (Gx, Gy+1) and a non-canonical x = Gx + p ≥ p -/
example : Spec.SM2.onCurveBytes (Bytes.ofNatBE 32 Spec.SM2.Gx) (Bytes.ofNatBE 32 Spec.SM2.Gy) = true ∧
    Spec.SM2.onCurveBytes (Bytes.ofNatBE 32 Spec.SM2.Gx) (Bytes.ofNatBE 32 (Spec.SM2.Gy + 1)) = false ∧
    Spec.SM2.onCurveBytes (Bytes.ofNatBE 32 (2 ^ 256 - 1)) (Bytes.ofNatBE 32 Spec.SM2.Gy) = false ∧
    Spec.SM2.onCurveBytes (Bytes.ofNatBE 31 Spec.SM2.Gx) (Bytes.ofNatBE 32 Spec.SM2.Gy) = false := by
  decide +kernel

/-- derivation in the specification: d = 1 gives G; d = n (32 bytes) and d = 0 give an error -/
example : Spec.SM2.derive (Bytes.ofNatBE 32 1) = some (Bytes.ofNatBE 32 Spec.SM2.Gx, Bytes.ofNatBE 32 Spec.SM2.Gy) ∧
    Spec.SM2.derive (Bytes.ofNatBE 32 Spec.SM2.n) = none ∧ Spec.SM2.derive (Bytes.ofNatBE 32 0) = none ∧
    Spec.SM2.derive [1] = none := by
  decide +kernel

end SMGo.Props.C12

#print axioms SMGo.Props.C12.validKey_iff
#print axioms SMGo.Props.C12.testPrivateKey_32
#print axioms SMGo.Props.C12.testPrivateKey_long
#print axioms SMGo.Props.C12.testPrivateKey_short
#print axioms SMGo.Props.C12.testPrivateKey_accepts_iff
#print axioms SMGo.Props.C12.generateKey_spec
#print axioms SMGo.Props.C12.genKeyLoop_spec
#print axioms SMGo.Props.C12.firstValid_spec
#print axioms SMGo.Props.C12.firstValid_none_iff
#print axioms SMGo.Props.C12.generateKey_ok_iff
#print axioms SMGo.Props.C12.generateKey_ok
#print axioms SMGo.Props.C12.derivePublic_spec
#print axioms SMGo.Props.C12.derivePublic_err_iff
#print axioms SMGo.Props.C12.derivePublic_of_valid
#print axioms SMGo.Props.C12.checkOnCurve_spec
#print axioms SMGo.Props.C12.checkOnCurve_iff
#print axioms SMGo.Props.C12.ctx_n
