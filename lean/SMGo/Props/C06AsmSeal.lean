/-
  Property C06, assembly level, the FUSED routine — `sealAsm` of /repo/sm4/gcm_amd64.s tied to SP 800-38D BY THEOREM over the
  regenerated listing `SMGo.Gen.ListAmd64Gcm.sealAsm` (5361 instructions), run by the value semantics of SMGo/Model/ISAVal.lean
  (TRUSTED: the reading of the Intel SDM; compared with the real CPU on every check by the harness streams).  The lemmas live in
  SMGo/Proofs/ISAValFused*.lean (prefix: constants, H, GHASH context, J0, tag mask, GHASH of the additional data),
  ISAValLad*.lean (`cryptoBlocksAsm`: the length-class ladder 256/128/64/32/16/tail with the fused GHASH), ISAValSeal*.lean.

  What is proved here:
    * E1  `sealAsm_scheme`, `sealAsm_labels`: the decoded listing IS the named scheme (`sealCode`: prefix, arguments, ladder,
          `CalculateSPost`, RET) and every branch target is a label of the table (checked chunk-wise by evaluation);
    * E2/E3  `cryptoBlocksAsm_is_ladN` (`ladder_reach`): from its first instruction to its last label the ladder writes the
          counter-mode output of `ladN` and leaves the GHASH value of `ladN` in Z21 — for EVERY input length (induction over
          the `loopX16` iterations; `loopX8/X4/X2/X1` at most once; the 1..15-byte tail through the scratch block), with and
          without hashing, for ANY routine containing the ladder at any position (used for `sealAsm` and, later, `openAsm`);
          `ladN_is_cryptoBlocksAux`: `ladN` is `Model.GCM.cryptoBlocksAux`; `tag_is_finishTag`: `CalculateSPost` is `finishTag`;
    * E4  **`sealAsm_eq_spec`**: for all round keys, nonces of EVERY length (< 2^32; 12 bytes: the copy path, otherwise the GHASH
          path of `calculateJ0`, `j0_is_calculateJ0`), additional data, plaintexts, tag sizes ≤ 16, initial registers, old contents
          of the destination and of the scratch buffer: running the listing from its entry state returns (`.ok`) and the destination
          holds ciphertext ‖ tag of `Spec.GCM.sealGCM` over the SM4 block function under these round keys.
          (`sealAsm_eq_spec_nonce12` is the earlier special case, kept with its smaller fuel bound.)
    * IN PLACE  **`sealAsm_inplace_eq_spec`**: the same on the entry state `sealStateInPlace` (SMGo/Model/ISAValGcmInPlace.lean) of the
          call `Seal(buf[:0], nonce, buf, aad)`: the slots `dst` and `plaintext` hold the SAME address, the destination region holds
          plaintext ‖ spare capacity; afterwards it holds ciphertext ‖ tag.  (The ladder reads every chunk of the input before it
          writes the same chunk of the output, and never re-reads: `cryptoBlocksAsm_is_ladN` asks of the memory only that the input
          stays readable beyond what has been written.)
  `openAsm`: see Props/C07Asm.lean.
-/
import SMGo.Proofs.ISAValInPlaceSeal
namespace SMGo.Props.C06AsmSeal
open SMGo
open SMGo.Model.ISAVal SMGo.Model.GCM SMGo.Spec.GCM
open SMGo.Proofs.ISAVal
open SMGo.Model.ISA (Reg Opd Instr)

/-! ### E1: the listing as a scheme -/

/-- the listing decodes (every mnemonic and operand shape is one the value semantics knows) -/
theorem sealAsm_decodes : Routine.ofListing Gen.ListAmd64Gcm.sealAsm = .ok sealR := sealR_ok

/-- the decoded listing of `sealAsm`, byte offsets erased, is the scheme `sealCode` -/
theorem sealAsm_scheme : sealR.map erasePc = sealCode := seal_scheme

/-- every label of the table is the byte offset of the first instruction at its index, and every branch target of the
    listing is a label of the table -/
theorem sealAsm_labels : labelsOk sealR sealLabels = true := seal_labels

/-! ### E2/E3: components -/

/-- the one-block kernel inside the fused routines is the SM4 block function of the specification -/
theorem cryptoBlockAsmMacro_is_sm4 (In Out : Nat) (hinst : oneInst In Out) (s : State) (hG : s.gpr.length = 16) (hV : s.vec.length = 32)
    (h10 : vreg s 10 = PREvl 64) (h11 : vreg s 11 = POSTvl 64) (h12 : vreg s 12 = SHUFvl 64)
    (pb : List Nat) (hpb : pb.length = 16) (hpbb : ∀ x ∈ pb, x < 2 ^ 8) (hIn : vreg s In = unlanes 8 pb)
    (rk : List Nat) (hrk : rk.length = 32) (hrkb : ∀ x ∈ rk, x < 2 ^ 32)
    (base : Nat) (hbase : greg s 15 = base) (hb : base + 144 < 2 ^ 64)
    (hread : ∀ i, i < 32 → readMem s.mem (base + 4 * i) 4 = .ok (lanes 8 4 (rk.getD i 0))) :
    ∃ s', execList (sm4OneCode In Out) s = .ok s' ∧ vreg s' Out = unlanes 8 (encB rk pb) ∧ greg s' 15 = base ∧
      Keeps oneKeepG (oneKeepV In Out) (List.range 8) s s' :=
  sm4One_spec In Out hinst s hG hV h10 h11 h12 pb hpb hpbb hIn rk hrk hrkb base hbase hb hread

/-- the kernel of the wide length classes (16, 8, 4 blocks on Z, Y, X registers): lane `l` of register `6 + r` holding the
    words of a block goes to lane `l` of register `9 − r` holding its encryption -/
theorem wide_class_kernel (vl : Nat) (hvl : validVl vl = true) (s : State) (hG : s.gpr.length = 16) (hV : s.vec.length = 32)
    (h10 : vreg s 10 = PREvl 64) (h11 : vreg s 11 = POSTvl 64) (h12 : vreg s 12 = SHUFvl 64)
    (W : Nat → Nat → Nat × Nat × Nat × Nat) (hpre : ∀ r l, r < 4 → l < vl / 16 → quadAt (vreg s (6 + r)) l = W r l)
    (rk : List Nat) (hrk : rk.length = 32) (hrkb : ∀ x ∈ rk, x < 2 ^ 32)
    (base : Nat) (hbase : greg s 15 = base) (hb : base + 144 < 2 ^ 64)
    (hread : ∀ i, i < 32 → readMem s.mem (base + 4 * i) 4 = .ok (lanes 8 4 (rk.getD i 0))) :
    ∃ s', execList (kernCode vl) s = .ok s' ∧
      (∀ r, r < 4 → vreg s' (9 - r) < 2 ^ (8 * vl) ∧
        lanes 8 vl (vreg s' (9 - r)) = (List.range (vl / 16)).flatMap (fun l => encQ (rk.foldl stepN (W r l)))) ∧
      greg s' 15 = base ∧ Keeps kernKeepG kernKeepV (List.range 8) s s' :=
  kern_spec vl hvl s hG hV h10 h11 h12 W hpre rk hrk hrkb base hbase hb hread

/-- **`cryptoBlocksAsm`** (the length-class ladder with the fused GHASH), inside ANY routine `r` at ANY position `kL` / byte
    offset `b`: from its first instruction to its last label the destination receives the output bytes of `ladN`, Z21 its GHASH
    value; `hf` = the hashFlag register (0 = no hashing).  The input need only be readable from the current offset on and stay so
    beyond what has been written (`LadMem.adv`, `SrcFrom`): it may lie in the destination buffer itself (the in-place call) -/
theorem cryptoBlocksAsm_is_ladN (r : Routine) (kL b : Nat) (sl : LadSlices r kL b) (lb : LadLabels r kL b)
    (M2 : List Nat → List Nat → List Region) (dbase dlen tp sp : Nat) (rk jb src : List Nat) (lm : LadMem M2 dbase dlen tp rk src sp)
    (hrk : rk.length = 32) (hrkb : ∀ x ∈ rk, x < 2 ^ 32) (hjb : jb.length = 16) (hjbb : ∀ x ∈ jb, x < 2 ^ 8) (hsb : ∀ x ∈ src, x < 2 ^ 8)
    (hsp : sp + src.length < 2 ^ 63) (hdb : dbase + dlen < 2 ^ 63) (hsl : src.length ≤ dlen) (htp : tp + 32 < 2 ^ 63)
    (toff h hf : Nat) (hhf : hf < 2 ^ 63) (hto : toff = 0 ∨ toff = 16)
    (y : Nat) (dc tc : List Nat) (s : State) (pc : PCtx s) (gh : GhCtx h s) (rkp : greg s 15 = 73014444032)
    (g0 : greg s 0 = hf) (g9 : greg s 9 = src.length) (g10 : greg s 10 = sp) (g13 : greg s 13 = dbase) (g6 : greg s 6 = tp + toff)
    (v14 : vreg s 14 = unlanes 8 jb) (acc : vreg s 21 = y) (acclt : y < 2 ^ 128) (hm : s.mem = M2 dc tc) (hdc : dc.length = dlen)
    (htc : tc.length = 32) (hs0 : ∀ t, t.length = 32 → SrcFrom (M2 dc t) sp src 0) :
    ∃ s' N, N ≤ 700 * (src.length / 256) + 4200 ∧ Reach r kL s (kL + 3770) s' N ∧
      ∀ fuel, src.length / 256 + 5 ≤ fuel → LadEnd M2 dlen h (ladN rk jb h hf fuel 0 y src).2
        (spliceAt dc 0 (ladN rk jb h hf fuel 0 y src).1) s s' :=
  ladder_reach r kL b sl lb M2 dbase dlen tp sp rk jb src lm hrk hrkb hjb hjbb hsb hsp hdb hsl htp toff h hf hhf hto y dc tc s pc gh rkp
    g0 g9 g10 g13 g6 v14 acc acclt hm hdc htc hs0

/-- `ladN` (hashing on) is `cryptoBlocksAux` of the model — output bytes and GHASH value -/
theorem ladN_is_cryptoBlocksAux (rk jb : List Nat) (hjb : jb.length = 16) (hjbb : ∀ x ∈ jb, x < 2 ^ 8) (hB : Bytes)
    (fuel c y : Nat) (src : List Nat) (hsb : ∀ x ∈ src, x < 2 ^ 8) :
    toB (ladN rk jb (loadR hB) 1 fuel c y src).1
        = (cryptoBlocksAux (encE rk) (hPowers hB) true fuel (laneAdd (blockToNat (toB jb)) c) y (toB src)).1 ∧
      (ladN rk jb (loadR hB) 1 fuel c y src).2
        = (cryptoBlocksAux (encE rk) (hPowers hB) true fuel (laneAdd (blockToNat (toB jb)) c) y (toB src)).2 :=
  ladN_eq rk jb hjb hjbb hB fuel c y src hsb

/-- `CalculateSPost` is `finishTag` of the model -/
theorem tag_is_finishTag (rk jb : List Nat) (hB : Bytes) (y a c t : Nat) (hy : y < 2 ^ 128) (hh : loadR hB < 2 ^ 128) :
    toB ((lanes 8 16 (tagN (loadR hB) y (unlanes 8 (encB rk jb)) a c)).take t)
      = finishTag (hPowers hB) y (encE rk (toB jb)) a c t :=
  tagN_eq rk jb hB y a c t hy hh

/-! ### the prefix (instructions 0 … 1498), also the strongest statement so far for other entry conditions -/

/-- `sealAsm`, instructions 0 … 1498, 12-byte nonce, ANY additional data: constants, H powers, J0, tag mask E(J0), GHASH of the
    additional data (`AfterPre`) -/
theorem sealAsm_prefix_nonce12 (g v k rk : List Nat) (t : Nat) (dst nonce pt aad tmp : List Nat)
    (hG : g.length = 16) (hV : v.length = 32) (hK : k.length = 8) (hrk : rk.length = 32) (hrkb : ∀ x ∈ rk, x < 2 ^ 32)
    (hn : nonce.length = 12) (hnb : ∀ x ∈ nonce, x < 2 ^ 8) (hab : ∀ x ∈ aad, x < 2 ^ 8) (hall : aad.length < 2 ^ 32)
    (htmp : tmp.length = 32) :
    ∃ s5 N, N ≤ 34 * (aad.length / 16) + 1400 ∧ Reach sealR 0 (sealState g v k rk t dst nonce pt aad tmp) 1499 s5 N ∧
      AfterPre (fun b => fmem "plaintext" false rk dst nonce pt aad b) rk nonce aad (nonce ++ [0, 0, 0, 1])
        81604378624 94489280512 90194313216 s5 ∧ s5.frame = (sealState g v k rk t dst nonce pt aad tmp).frame :=
  seal_prefix12 g v k rk t dst nonce pt aad tmp hG hV hK hrk hrkb hn hnb hab hall htmp

/-! ### E4: the routine -/

/-- the SM4 block function under the round keys `rk` (given as numbers) -/
theorem encE_def (rk : List Nat) (b : Bytes) : encE rk b = Spec.SM4.crypt (rk.map (BitVec.ofNat 32)) b := rfl

/-- **`sealAsm` = Algorithm 4 of SP 800-38D (GCM-AE) over SM4, for 12-byte nonces.**  For all initial register contents `g v k`,
    round keys `rk`, tag size `t ≤ 16`, old destination contents `dst` (of length |pt| + t), 12-byte nonce, plaintext `pt`,
    additional data `aad`, old scratch contents `tmp`: the run of the regenerated listing from the entry state returns and
    leaves ciphertext ‖ tag in the destination. -/
theorem sealAsm_eq_spec_nonce12 (g v k rk : List Nat) (t : Nat) (dst nonce pt aad tmp : List Nat)
    (hG : g.length = 16) (hV : v.length = 32) (hK : k.length = 8) (hrk : rk.length = 32) (hrkb : ∀ x ∈ rk, x < 2 ^ 32)
    (hn : nonce.length = 12) (hnb : ∀ x ∈ nonce, x < 2 ^ 8) (hab : ∀ x ∈ aad, x < 2 ^ 8) (hall : aad.length < 2 ^ 32)
    (hpb : ∀ x ∈ pt, x < 2 ^ 8) (hpl : pt.length < 2 ^ 32) (ht : t ≤ 16) (hdl : dst.length = pt.length + t) (hdl32 : dst.length < 2 ^ 32)
    (htmp : tmp.length = 32) (fuel : Nat) (hfuel : 34 * (aad.length / 16) + 700 * (pt.length / 256) + 6000 < fuel) :
    runSeal fuel (sealState g v k rk t dst nonce pt aad tmp)
      = .ok ((sealGCM (encE rk) t (toB nonce) (toB pt) (toB aad)).map (·.toNat)) :=
  sealAsm_run12 g v k rk t dst nonce pt aad tmp hG hV hK hrk hrkb hn hnb hab hall hpb hpl ht hdl hdl32 htmp fuel hfuel

/-- the pre-counter block as the listing computes it (`j0N`: nonce ‖ 0,0,0,1 for 12 bytes, else the bytes of
    GHASH(nonce ‖ pad ‖ 0⁶⁴ ‖ [8·len]₆₄)) is `calculateJ0` of the model, for every nonce -/
theorem j0_is_calculateJ0 (rk nonce : List Nat) (hnb : ∀ x ∈ nonce, x < 2 ^ 8) :
    calculateJ0 (hPowers (encE rk (List.replicate 16 0))) (toB nonce) = blockToNat (toB (j0N rk nonce)) :=
  j0N_model rk nonce hnb

/-- `sealAsm`, instructions 0 … 1498, ANY nonce, ANY additional data (`AfterPre` with the pre-counter block `j0N`) -/
theorem sealAsm_prefix (g v k rk : List Nat) (t : Nat) (dst nonce pt aad tmp : List Nat)
    (hG : g.length = 16) (hV : v.length = 32) (hK : k.length = 8) (hrk : rk.length = 32) (hrkb : ∀ x ∈ rk, x < 2 ^ 32)
    (hnl : nonce.length < 2 ^ 32) (hnb : ∀ x ∈ nonce, x < 2 ^ 8) (hab : ∀ x ∈ aad, x < 2 ^ 8) (hall : aad.length < 2 ^ 32)
    (htmp : tmp.length = 32) :
    ∃ s5 N, N ≤ 34 * (nonce.length / 16) + 34 * (aad.length / 16) + 1700 ∧ Reach sealR 0 (sealState g v k rk t dst nonce pt aad tmp) 1499 s5 N ∧
      AfterPre (fun b => fmem "plaintext" false rk dst nonce pt aad b) rk nonce aad (j0N rk nonce)
        81604378624 94489280512 90194313216 s5 ∧ s5.frame = (sealState g v k rk t dst nonce pt aad tmp).frame :=
  seal_prefix_any g v k rk t dst nonce pt aad tmp hG hV hK hrk hrkb hnl hnb hab hall htmp

/-- **`sealAsm` = Algorithm 4 of SP 800-38D (GCM-AE) over SM4, for EVERY nonce length** (the only bound on the nonce is the
    region bound `< 2^32` of the entry state). -/
theorem sealAsm_eq_spec (g v k rk : List Nat) (t : Nat) (dst nonce pt aad tmp : List Nat)
    (hG : g.length = 16) (hV : v.length = 32) (hK : k.length = 8) (hrk : rk.length = 32) (hrkb : ∀ x ∈ rk, x < 2 ^ 32)
    (hnl : nonce.length < 2 ^ 32) (hnb : ∀ x ∈ nonce, x < 2 ^ 8) (hab : ∀ x ∈ aad, x < 2 ^ 8) (hall : aad.length < 2 ^ 32)
    (hpb : ∀ x ∈ pt, x < 2 ^ 8) (hpl : pt.length < 2 ^ 32) (ht : t ≤ 16) (hdl : dst.length = pt.length + t) (hdl32 : dst.length < 2 ^ 32)
    (htmp : tmp.length = 32) (fuel : Nat)
    (hfuel : 34 * (nonce.length / 16) + 34 * (aad.length / 16) + 700 * (pt.length / 256) + 6500 < fuel) :
    runSeal fuel (sealState g v k rk t dst nonce pt aad tmp)
      = .ok ((sealGCM (encE rk) t (toB nonce) (toB pt) (toB aad)).map (·.toNat)) :=
  sealAsm_run g v k rk t dst nonce pt aad tmp hG hV hK hrk hrkb hnl hnb hab hall hpb hpl ht hdl hdl32 htmp fuel hfuel

/-- **`sealAsm` called IN PLACE** (`dst` = the plaintext's own array, as `Seal(buf[:0], nonce, buf, aad)` passes it) **= Algorithm 4
    of SP 800-38D over SM4, for every nonce length**: `pt` = the plaintext, `tl` = the old contents of the `t` bytes of capacity
    behind it; the array holds ciphertext ‖ tag afterwards. -/
theorem sealAsm_inplace_eq_spec (g v k rk : List Nat) (t : Nat) (pt tl nonce ur aad tmp : List Nat)
    (hG : g.length = 16) (hV : v.length = 32) (hK : k.length = 8) (hrk : rk.length = 32) (hrkb : ∀ x ∈ rk, x < 2 ^ 32)
    (hnl : nonce.length < 2 ^ 32) (hnb : ∀ x ∈ nonce, x < 2 ^ 8) (hab : ∀ x ∈ aad, x < 2 ^ 8) (hall : aad.length < 2 ^ 32)
    (hpb : ∀ x ∈ pt, x < 2 ^ 8) (ht : t ≤ 16) (htl : tl.length = t) (hdl32 : pt.length + t < 2 ^ 32)
    (htmp : tmp.length = 32) (hur : ur.length < 2 ^ 32) (fuel : Nat)
    (hfuel : 34 * (nonce.length / 16) + 34 * (aad.length / 16) + 700 * (pt.length / 256) + 6500 < fuel) :
    runSeal fuel (sealStateInPlace g v k rk t pt tl nonce ur aad tmp)
      = .ok ((sealGCM (encE rk) t (toB nonce) (toB pt) (toB aad)).map (·.toNat)) :=
  sealAsm_inplace_run g v k rk t pt tl nonce ur aad tmp hG hV hK hrk hrkb hnl hnb hab hall hpb ht htl hdl32 htmp hur fuel hfuel

end SMGo.Props.C06AsmSeal

#print axioms SMGo.Props.C06AsmSeal.sealAsm_decodes
#print axioms SMGo.Props.C06AsmSeal.sealAsm_scheme
#print axioms SMGo.Props.C06AsmSeal.sealAsm_labels
#print axioms SMGo.Props.C06AsmSeal.cryptoBlockAsmMacro_is_sm4
#print axioms SMGo.Props.C06AsmSeal.wide_class_kernel
#print axioms SMGo.Props.C06AsmSeal.cryptoBlocksAsm_is_ladN
#print axioms SMGo.Props.C06AsmSeal.ladN_is_cryptoBlocksAux
#print axioms SMGo.Props.C06AsmSeal.tag_is_finishTag
#print axioms SMGo.Props.C06AsmSeal.sealAsm_prefix_nonce12
#print axioms SMGo.Props.C06AsmSeal.sealAsm_eq_spec_nonce12
#print axioms SMGo.Props.C06AsmSeal.j0_is_calculateJ0
#print axioms SMGo.Props.C06AsmSeal.sealAsm_prefix
#print axioms SMGo.Props.C06AsmSeal.sealAsm_eq_spec
#print axioms SMGo.Props.C06AsmSeal.sealAsm_inplace_eq_spec
