/-
  Property C01 — what the signer returns, the verifier accepts.
  (Property theorems only; lemmas live in SMGo/Proofs/SM2Round.lean, SM2Sign*.lean, SM2Verify.lean.)

  "For every valid private key, every user id and message (or pre-computed digest) and every stream
   of nonce bytes, the signature returned by any of the signing entry points is accepted by the
   matching verification entry point under the public key derived from that private key. Neither
   call panics."

  Objects.  `Model.SM2.{signHashed, signZa, sign, verifyHashed, verifyZa, verify, derivePublic}` are the
  statement-by-statement models of the entry points of /repo/sm2/sm2.go over a context `X`;
  `F : CurveFacts X` collects the facts about the layers below (C04, C14–C16, C18).  The public key
  derived from d is the pair of 32-byte encodings of the coordinates of [d]G (what `DerivePublic`
  returns, `derivePublic_is_point`); keys shorter than 32 bytes, which `SignHashed` accepts but
  `DerivePublic` refuses, are covered by stating the theorems for the coordinates of [d]G.

  Mathematical core (`Proofs.SM2Round.signWith_verifies`): with t = r + s,
  [s]G + [t]([d]G) = [s + t·d]G = [k]G because s·(1+d) = k − r·d (mod n), n is prime, [n]G = O, and
  t ≠ 0 because r + k ≠ n.
-/
import SMGo.Proofs.SM2Round
namespace SMGo.Props.C01
open SMGo SMGo.Model SMGo.Model.SM2 SMGo.Proofs.SM2Facts

variable {α β : Type} {X : Ctx α β}

/-! ### the standard itself -/

/-- GM/T 0003.2 on integers: (r, s) made by §6.1 with any accepted nonce k is accepted by §7.1 under
    P = [d]G, for every valid key and every e -/
theorem standard_sign_then_verify {d e k r s : Nat} (hv : Spec.SM2.validKey d = true)
    (h : Spec.SM2.signWith d e k = some (r, s)) :
    Spec.SM2.verifyNat (Spec.SM2.smul d Spec.SM2.G) e r s = true :=
  Proofs.SM2Round.signWith_verifies hv h

/-- a valid key has a public key: [d]G is a finite point -/
theorem public_key_exists {d : Nat} (hv : Spec.SM2.validKey d = true) :
    ∃ x y, Spec.SM2.smul d Spec.SM2.G = some (x, y) :=
  Proofs.SM2Round.public_point_exists hv

/-- `DerivePublic` returns the 32-byte encodings of the coordinates of [d]G (for 32-byte keys) -/
theorem derivePublic_is_point (F : CurveFacts X) (priv : Bytes) :
    derivePublic X priv = (match Spec.SM2.derive priv with
      | some (px, py) => .ok (px, py)
      | none => .err) :=
  Proofs.SM2Round.derivePublic_eq F priv

/-! ### digest level: SignHashed / VerifyHashed -/

/-- C01 for `SignHashed`/`VerifyHashed`: whatever `SignHashed` returns for a 32-byte digest — under
    any randomness script — `VerifyHashed` accepts under the public key (x, y) = [d]G.  (A returned
    signature implies that the key is valid; for a valid key [d]G is finite, `public_key_exists`.) -/
theorem sign_then_verify (F : CurveFacts X) (sc : Script) (priv e r s : Bytes) (c x y : Nat)
    (he : e.length = 32)
    (hP : Spec.SM2.smul (Bytes.toNatBE priv) Spec.SM2.G = some (x, y))
    (h : signHashed X sc priv e = .ok ((r, s), c)) :
    verifyHashed X (Bytes.ofNatBE 32 x) (Bytes.ofNatBE 32 y) e r s = .ok true := by
  rw [Proofs.SM2SignLoop.signHashed_eq F] at h
  rw [Proofs.SM2Verify.verifyHashed_eq F]
  cases hsb : Spec.SM2.signBytes priv e sc with
  | none => rw [hsb] at h; cases h
  | some t =>
    obtain ⟨r', s', c'⟩ := t
    rw [hsb] at h
    injection h with h
    injection h with h1 h2
    injection h1 with hr hs
    subst hr; subst hs
    rw [Proofs.SM2Round.signBytes_verifies he hP hsb]

/-- the same with the model's `DerivePublic` providing the public key -/
theorem sign_then_verify_derived (F : CurveFacts X) (sc : Script) (priv e r s px py : Bytes) (c : Nat)
    (he : e.length = 32)
    (hpub : derivePublic X priv = .ok (px, py))
    (h : signHashed X sc priv e = .ok ((r, s), c)) :
    verifyHashed X px py e r s = .ok true := by
  rw [derivePublic_is_point F] at hpub
  unfold Spec.SM2.derive at hpub
  by_cases hl : priv.length ≠ 32
  · rw [if_pos hl] at hpub; cases hpub
  · rw [if_neg hl] at hpub
    cases hP : Spec.SM2.smul (Bytes.toNatBE priv) Spec.SM2.G with
    | none => rw [hP] at hpub; cases hpub
    | some q =>
      obtain ⟨x, y⟩ := q
      rw [hP] at hpub
      injection hpub with hpub
      injection hpub with h1 h2
      subst h1; subst h2
      exact sign_then_verify F sc priv e r s c x y he hP h

/-! ### za level: SignZa / VerifyZa -/

theorem signZa_then_verifyZa (F : CurveFacts X) (sc : Script) (priv z msg r s : Bytes) (c x y : Nat)
    (hP : Spec.SM2.smul (Bytes.toNatBE priv) Spec.SM2.G = some (x, y))
    (h : signZa X sc priv z msg = .ok ((r, s), c)) :
    verifyZa X (Bytes.ofNatBE 32 x) (Bytes.ofNatBE 32 y) z msg r s = .ok true := by
  unfold signZa at h
  unfold verifyZa
  have he : (hashZaMsg X z msg).length = 32 := by
    rw [Proofs.SM2Round.hashZaMsg_eq F]; exact Proofs.SM2Round.digest_length z msg
  exact sign_then_verify F sc priv _ r s c x y he hP h

/-! ### id/message level: Sign / Verify -/

/-- C01 for `Sign`/`Verify`: the signer is given its own public key (px, py) = [d]G (it enters ZA),
    the verifier the same id, key and message -/
theorem signId_then_verifyId (F : CurveFacts X) (id : Bytes) (sc : Script) (priv msg r s : Bytes)
    (c x y : Nat)
    (hP : Spec.SM2.smul (Bytes.toNatBE priv) Spec.SM2.G = some (x, y))
    (h : sign X id (Bytes.ofNatBE 32 x) (Bytes.ofNatBE 32 y) sc priv msg = .ok ((r, s), c)) :
    verify X id (Bytes.ofNatBE 32 x) (Bytes.ofNatBE 32 y) msg r s = .ok true := by
  unfold sign at h
  unfold verify
  cases hz : za X id (Bytes.ofNatBE 32 x) (Bytes.ofNatBE 32 y) with
  | ok z =>
    rw [hz] at h
    simp only [Outcome.bind_ok] at h
    exact signZa_then_verifyZa F sc priv z msg r s c x y hP h
  | err => rw [hz] at h; cases h
  | panic => rw [hz] at h; cases h

/-! ### neither call panics (for all inputs, valid or not) -/

theorem signHashed_no_panic (F : CurveFacts X) (sc : Script) (priv e : Bytes) :
    signHashed X sc priv e ≠ .panic := by
  rw [Proofs.SM2SignLoop.signHashed_eq F]
  cases Spec.SM2.signBytes priv e sc with
  | none => intro h; cases h
  | some t => obtain ⟨r, s, c⟩ := t; intro h; cases h

theorem signZa_no_panic (F : CurveFacts X) (sc : Script) (priv z msg : Bytes) :
    signZa X sc priv z msg ≠ .panic :=
  signHashed_no_panic F sc priv _

theorem sign_no_panic (F : CurveFacts X) (id px py : Bytes) (sc : Script) (priv msg : Bytes) :
    sign X id px py sc priv msg ≠ .panic := by
  rw [Proofs.SM2Round.sign_eq F]
  cases Spec.SM2.signIdBytes id px py priv msg sc with
  | none => intro h; cases h
  | some t => obtain ⟨r, s, c⟩ := t; intro h; cases h

theorem verifyHashed_no_panic (F : CurveFacts X) (px py e r s : Bytes) :
    verifyHashed X px py e r s ≠ .panic := by
  rw [Proofs.SM2Verify.verifyHashed_eq F]; intro h; cases h

theorem verifyZa_no_panic (F : CurveFacts X) (px py z msg r s : Bytes) :
    verifyZa X px py z msg r s ≠ .panic :=
  verifyHashed_no_panic F px py _ r s

theorem verify_no_panic (F : CurveFacts X) (id px py msg r s : Bytes) :
    verify X id px py msg r s ≠ .panic := by
  rw [Proofs.SM2Round.verify_eq F]; intro h; cases h

/-- the signer does return a signature whenever the key is valid and the stream holds an acceptable
    candidate: the hypothesis `signHashed … = .ok …` of the theorems above is not vacuous -/
theorem sign_succeeds (F : CurveFacts X) (sc : Script) (priv e : Bytes) (j r s : Nat)
    (hl : priv.length ≤ 32) (hv : Spec.SM2.validKey (Bytes.toNatBE priv) = true)
    (hs : Spec.SM2.signStream (Bytes.toNatBE priv) (Bytes.toNatBE e)
      ((Spec.SM2.candidates sc []).map Bytes.toNatBE) 0 = some (j, r, s)) :
    signHashed X sc priv e = .ok ((Bytes.ofNatBE 32 r, Bytes.ofNatBE 32 s), 32 * (j + 1)) := by
  rw [Proofs.SM2SignLoop.signHashed_eq F]
  unfold Spec.SM2.signBytes
  simp only []
  rw [if_neg (by rw [hv]; simp; omega), hs]

/-! ### non-vacuity (kernel evaluation of the specification): key 22…22, digest 33…33, stream 11…11 -/

example :
    Spec.SM2.validKey (Bytes.toNatBE (List.replicate 32 0x22)) = true ∧
    Spec.SM2.smul (Bytes.toNatBE (List.replicate 32 0x22)) Spec.SM2.G =
      some (0x4467e6043f38645e740050f3d6c9d6a0bf6b13d3b57892842be9b75cca3ce884,
            0xf0b5c27a16795142fa467fe6818cdb393c95f8e17d28f7e0a6557bbea8d65034) ∧
    Spec.SM2.signStream (Bytes.toNatBE (List.replicate 32 0x22)) (Bytes.toNatBE (List.replicate 32 0x33))
      ((Spec.SM2.candidates [.data (List.replicate 32 0x11)] []).map Bytes.toNatBE) 0 =
      some (0, 0xb859452a77e23789bd102f27f376aa64060611665deb242f35a9cf92debdbc76,
               0x8a1563030e9ff27e3772547fa7c0382998384b35a42ed52049e98961907bd9cf) := by
  decide +kernel

end SMGo.Props.C01

#print axioms SMGo.Props.C01.standard_sign_then_verify
#print axioms SMGo.Props.C01.public_key_exists
#print axioms SMGo.Props.C01.derivePublic_is_point
#print axioms SMGo.Props.C01.sign_then_verify
#print axioms SMGo.Props.C01.sign_then_verify_derived
#print axioms SMGo.Props.C01.signZa_then_verifyZa
#print axioms SMGo.Props.C01.signId_then_verifyId
#print axioms SMGo.Props.C01.signHashed_no_panic
#print axioms SMGo.Props.C01.signZa_no_panic
#print axioms SMGo.Props.C01.sign_no_panic
#print axioms SMGo.Props.C01.verifyHashed_no_panic
#print axioms SMGo.Props.C01.verifyZa_no_panic
#print axioms SMGo.Props.C01.verify_no_panic
#print axioms SMGo.Props.C01.sign_succeeds
