/-
  Property C14 — the three scalar-multiplication schedules of sm2_curve.go are correct.
  (Property theorems only; lemmas live in SMGo/Proofs/Curve*.lean.)

  "Base-point multiplication returns [k]G for every 32-byte scalar k, variable-point multiplication
  returns [k]P for every curve point P and scalar of any length, and the double-scalar routine
  returns [g]G + [s]P for all 32-byte g and s. This holds for scalars 0, 1, n-1, n, above n and up
  to 2^256-1, and for points in special relation to G (P = G, -G, [2]G, small multiples)."

  Setting (SMGo/Proofs/CurveSem.lean): the schedules of `Model.Curve` run over an arbitrary record
  `G : GOps Γ` of point operations.  `sem : Γ → A` interprets points in an abstract commutative
  group `A`; `Sem G ok okXY sem` says that on the domain `ok` the operations are the group
  operations (`Add` is the *complete* group addition, including P + P, P + (-P) and P + O; the two
  constant-time selections return the selected entry, or O for index 0); `TableValid` /
  `RemainderValid` say that the precomputed tables hold the multiples of the generator `g`
  prescribed by the header of sm2_tables.go.  Under these hypotheses the theorems hold for *all*
  scalars (no range condition: 0, 1, n-1, n, values above n and 2^256-1 are instances) and for
  *all* points P of the domain (P = G, -G, [2]G, … are instances: nothing but `Sem.add` is used
  about additions, so special relations between the accumulator and the addend are exactly the
  completeness of `Add`, which is part of `Sem` and is discharged for the concrete formulas
  elsewhere).
-/
import SMGo.Proofs.CurveBits
import SMGo.Proofs.CurveSem
import SMGo.Proofs.CurveBase
import SMGo.Proofs.CurveMult
import SMGo.Proofs.CurveMixed
import SMGo.Proofs.CurveToy
namespace SMGo.Props.C14
open SMGo SMGo.Model.Curve SMGo.Proofs.CurveBits SMGo.Proofs.CurveSem

variable {Γ : Type} {A : Type} [AddCommGroup A]
variable {G : GOps Γ} {ok : Γ → Prop} {okXY : List Nat → List Nat → Prop} {sem : Γ → A}

/-! ## The bit-extraction helpers and the partition of the scalar -/

/-- `extractBit(k, idx)` is bit `idx` of the big-endian value, for a 32-byte k and idx < 256 -/
theorem extractBit_spec (k : Bytes) (hk : k.length = 32) (idx : Nat) (hidx : idx < 256) :
    extractBit k idx = .ok (Bytes.toNatBE k / 2 ^ idx % 2) :=
  Proofs.CurveBits.extractBit_eq k hk idx hidx

/-- `extractHigherBits(k, idx, window, step)` collects the bits `idx, idx+step, …` (all inside the scalar) -/
theorem extractHigherBits_spec (k : Bytes) (hk : k.length = 32) (idx window step : Nat) (hw : window ≤ 8)
    (hpos : ∀ t, t < window → t * step + idx < 256) :
    extractHigherBits k idx window step = .ok (combDigit (Bytes.toNatBE k) window step idx) :=
  Proofs.CurveBits.extractHigherBits_eq k hk idx window step hw hpos

/-- `extractLowerBits(k, count)` is the value modulo `2^count` -/
theorem extractLowerBits_spec (k : Bytes) (hk : k.length = 32) (count : Nat) (hc : count ≤ 8) :
    extractLowerBits k count = .ok (Bytes.toNatBE k % 2 ^ count) :=
  Proofs.CurveBits.extractLowerBits_eq k hk count hc

/-- the comb visits every bit of the scalar exactly once:
    `n = Σ_{i<it} 2^i · Σ_{j<s} multiplier_j(pattern(i, j)) + n mod 2^r` -/
theorem comb_partition (n w s it r : Nat) (h : n < 2 ^ (w * s * it + r)) :
    sumN it (fun i => 2 ^ i * sumN s (fun j =>
        combMultiplier w s it r j (combDigit n w (s * it) (i + j * it + r)))) + n % 2 ^ r = n :=
  Proofs.CurveBits.comb_partition n w s it r h

/-! ## Base-point multiplication -/

/-- `scalarBaseMult_SkipBitExtration` returns `[k]G` for every 32-byte k, for every scheme
    `w`-`s`-`it`-`r` with `w*s*it + r = 256`, `w ≤ 8`, `r ≤ 4` and valid tables
    (the remainder table is needed only when `r ≥ 1`) -/
theorem baseMult_spec (S : Sem G ok okXY sem) {g : A} {first : List Table} {second : Table}
    {w s it r : Nat} (hw : w ≤ 8) (hr : r ≤ 4) (hsum : w * s * it + r = 256)
    (T : TableValid G okXY sem g first w s it r)
    (R : 1 ≤ r → RemainderValid G okXY sem g second r)
    (k : Bytes) (hk : k.length = 32) :
    ∃ q, scalarBaseMult G k first second w s it r = .ok q ∧ ok q ∧ sem q = Bytes.toNatBE k • g :=
  Proofs.CurveBase.scalarBaseMult_spec S hw hr hsum T R k hk

/-- the scheme in use: 6-3-14-4 -/
theorem baseMult_6_3_14_4 (S : Sem G ok okXY sem) {g : A} {first : List Table} {second : Table}
    (T : TableValid G okXY sem g first 6 3 14 4) (R : RemainderValid G okXY sem g second 4)
    (k : Bytes) (hk : k.length = 32) :
    ∃ q, scalarBaseMult G k first second 6 3 14 4 = .ok q ∧ ok q ∧ sem q = Bytes.toNatBE k • g :=
  baseMult_spec S (by decide) (by decide) (by decide) T (fun _ => R) k hk

theorem baseMult_5_3_17_1 (S : Sem G ok okXY sem) {g : A} {first : List Table} {second : Table}
    (T : TableValid G okXY sem g first 5 3 17 1) (R : RemainderValid G okXY sem g second 1)
    (k : Bytes) (hk : k.length = 32) :
    ∃ q, scalarBaseMult G k first second 5 3 17 1 = .ok q ∧ ok q ∧ sem q = Bytes.toNatBE k • g :=
  baseMult_spec S (by decide) (by decide) (by decide) T (fun _ => R) k hk

theorem baseMult_7_3_12_4 (S : Sem G ok okXY sem) {g : A} {first : List Table} {second : Table}
    (T : TableValid G okXY sem g first 7 3 12 4) (R : RemainderValid G okXY sem g second 4)
    (k : Bytes) (hk : k.length = 32) :
    ∃ q, scalarBaseMult G k first second 7 3 12 4 = .ok q ∧ ok q ∧ sem q = Bytes.toNatBE k • g :=
  baseMult_spec S (by decide) (by decide) (by decide) T (fun _ => R) k hk

/-- 4-2-32-0 has no remainder table (the code passes nil; any value of `second` is ignored) -/
theorem baseMult_4_2_32_0 (S : Sem G ok okXY sem) {g : A} {first : List Table} (second : Table)
    (T : TableValid G okXY sem g first 4 2 32 0)
    (k : Bytes) (hk : k.length = 32) :
    ∃ q, scalarBaseMult G k first second 4 2 32 0 = .ok q ∧ ok q ∧ sem q = Bytes.toNatBE k • g :=
  baseMult_spec S (by decide) (by decide) (by decide) T (fun h => absurd h (by decide)) k hk

/-- a scalar of any other length is rejected with an error (scheme and first table well-formed) -/
theorem baseMult_len_err (G : GOps Γ) (first : List Table) (second : Table) (w s it r : Nat)
    (hw : w ≤ 8) (hr : r ≤ 4) (hsum : w * s * it + r = 256)
    (hlen : ((first.getD 0 []).getD 0 []).length = 2 ^ w - 1)
    (k : Bytes) (hk : k.length ≠ 32) :
    scalarBaseMult G k first second w s it r = .err :=
  Proofs.CurveBase.scalarBaseMult_len_err G first second w s it r hw hr hsum hlen k hk

/-! ## Variable-point multiplication -/

/-- `ScalarMult(P, scalar)` returns `[scalar]P` for every point of the domain and a scalar of any
    length (the empty scalar gives O) -/
theorem mult_spec (S : Sem G ok okXY sem) (P : Γ) (hP : ok P) (scalar : Bytes) :
    ∃ q, scalarMult G P scalar = .ok q ∧ ok q ∧ sem q = Bytes.toNatBE scalar • sem P :=
  Proofs.CurveMult.scalarMult_spec S P hP scalar

/-! ## Double-scalar multiplication -/

/-- `ScalarMixedMult_Unsafe(gScalar, P, scalar)` returns `[gScalar]G + [scalar]P` for all 32-byte
    scalars and every point of the domain -/
theorem mixedMult_spec (S : Sem G ok okXY sem) {g : A} {first : List Table} {second : Table}
    (T : TableValid G okXY sem g first 6 3 14 4) (R : RemainderValid G okXY sem g second 4)
    (gScalar : Bytes) (hg : gScalar.length = 32) (P : Γ) (hP : ok P) (scalar : Bytes) (hs : scalar.length = 32) :
    ∃ q, scalarMixedMult G gScalar P scalar first second = .ok q ∧ ok q ∧
      sem q = Bytes.toNatBE gScalar • g + Bytes.toNatBE scalar • sem P :=
  Proofs.CurveMixed.scalarMixedMult_spec S T R gScalar hg P hP scalar hs

/-- what a caller bug looks like: a second scalar shorter than 32 bytes panics (index out of range
    in the NAF recoding, C20 `naf_short_input_panics`), whatever the other arguments are -/
theorem mixedMult_short_scalar_panics (G : GOps Γ) (gScalar : Bytes) (P : Γ) (scalar : Bytes)
    (first : List Table) (second : Table) (hs : scalar.length < 32) :
    scalarMixedMult G gScalar P scalar first second = .panic :=
  Proofs.CurveMixed.scalarMixedMult_short G gScalar P scalar first second hs

/-! ### Points in special relation to G -/

/-- P = G: the result is `[g + s]G` -/
theorem mixedMult_P_eq_G (S : Sem G ok okXY sem) {g : A} {first : List Table} {second : Table}
    (T : TableValid G okXY sem g first 6 3 14 4) (R : RemainderValid G okXY sem g second 4)
    (gScalar : Bytes) (hg : gScalar.length = 32) (P : Γ) (hP : ok P) (hPG : sem P = g)
    (scalar : Bytes) (hs : scalar.length = 32) :
    ∃ q, scalarMixedMult G gScalar P scalar first second = .ok q ∧ ok q ∧
      sem q = (Bytes.toNatBE gScalar + Bytes.toNatBE scalar) • g := by
  obtain ⟨q, e, hq, h⟩ := mixedMult_spec S T R gScalar hg P hP scalar hs
  exact ⟨q, e, hq, by rw [h, hPG, add_nsmul]⟩

/-- P = -G: the result is `[g - s]G` (in particular O for equal scalars) -/
theorem mixedMult_P_eq_neg_G (S : Sem G ok okXY sem) {g : A} {first : List Table} {second : Table}
    (T : TableValid G okXY sem g first 6 3 14 4) (R : RemainderValid G okXY sem g second 4)
    (gScalar : Bytes) (hg : gScalar.length = 32) (P : Γ) (hP : ok P) (hPG : sem P = -g)
    (scalar : Bytes) (hs : scalar.length = 32) :
    ∃ q, scalarMixedMult G gScalar P scalar first second = .ok q ∧ ok q ∧
      sem q = ((Bytes.toNatBE gScalar : Int) - (Bytes.toNatBE scalar : Int)) • g := by
  obtain ⟨q, e, hq, h⟩ := mixedMult_spec S T R gScalar hg P hP scalar hs
  exact ⟨q, e, hq, by rw [h, hPG, sub_zsmul, natCast_zsmul, natCast_zsmul, neg_nsmul]⟩

/-- P = [m]G (m = 2 and the other small multiples): the result is `[g + s·m]G` -/
theorem mixedMult_P_eq_mul_G (S : Sem G ok okXY sem) {g : A} {first : List Table} {second : Table}
    (T : TableValid G okXY sem g first 6 3 14 4) (R : RemainderValid G okXY sem g second 4)
    (gScalar : Bytes) (hg : gScalar.length = 32) (P : Γ) (hP : ok P) (m : Nat) (hPG : sem P = m • g)
    (scalar : Bytes) (hs : scalar.length = 32) :
    ∃ q, scalarMixedMult G gScalar P scalar first second = .ok q ∧ ok q ∧
      sem q = (Bytes.toNatBE gScalar + Bytes.toNatBE scalar * m) • g := by
  obtain ⟨q, e, hq, h⟩ := mixedMult_spec S T R gScalar hg P hP scalar hs
  exact ⟨q, e, hq, by rw [h, hPG, add_nsmul, mul_nsmul']⟩

/-! ## The hypotheses are satisfiable

  A toy instance (points = integers, `sem = id`, generator 1, tables filled with the prescribed
  multipliers; SMGo/Proofs/CurveToy.lean) satisfies `Sem`, `TableValid` and `RemainderValid`, so
  none of the theorems above is vacuous. -/

open SMGo.Proofs.CurveToy in
example (k : Bytes) (hk : k.length = 32) :
    ∃ q, scalarBaseMult toyOps k (toyFirst 6 3 14 4) (toySecond 4) 6 3 14 4 = .ok q ∧ True ∧
      q = Bytes.toNatBE k • (1 : Int) :=
  baseMult_6_3_14_4 toySem (toyTableValid 6 3 14 4) (toyRemainderValid 4) k hk

open SMGo.Proofs.CurveToy in
example (k : Bytes) (hk : k.length = 32) :
    ∃ q, scalarBaseMult toyOps k (toyFirst 4 2 32 0) [] 4 2 32 0 = .ok q ∧ True ∧
      q = Bytes.toNatBE k • (1 : Int) :=
  baseMult_4_2_32_0 toySem [] (toyTableValid 4 2 32 0) k hk

open SMGo.Proofs.CurveToy in
example (P : Int) (scalar : Bytes) :
    ∃ q, scalarMult toyOps P scalar = .ok q ∧ True ∧ q = Bytes.toNatBE scalar • P :=
  mult_spec toySem P trivial scalar

open SMGo.Proofs.CurveToy in
example (gScalar scalar : Bytes) (hg : gScalar.length = 32) (hs : scalar.length = 32) (P : Int) :
    ∃ q, scalarMixedMult toyOps gScalar P scalar (toyFirst 6 3 14 4) (toySecond 4) = .ok q ∧ True ∧
      q = Bytes.toNatBE gScalar • (1 : Int) + Bytes.toNatBE scalar • P :=
  mixedMult_spec toySem (toyTableValid 6 3 14 4) (toyRemainderValid 4) gScalar hg P trivial scalar hs

/-- test (labelled as a test): the toy instance evaluated on k = 2^256 - 1 -/
example : scalarBaseMult Proofs.CurveToy.toyOps (List.replicate 32 0xff)
    (Proofs.CurveToy.toyFirst 6 3 14 4) (Proofs.CurveToy.toySecond 4) 6 3 14 4 = .ok (2 ^ 256 - 1) := by
  decide +kernel

example : scalarBaseMult Proofs.CurveToy.toyOps [1, 2, 3]
    (Proofs.CurveToy.toyFirst 6 3 14 4) (Proofs.CurveToy.toySecond 4) 6 3 14 4 = .err :=
  baseMult_len_err _ _ _ 6 3 14 4 (by decide) (by decide) (by decide)
    ((Proofs.CurveToy.toyTableValid 6 3 14 4).lenX 0 (by decide)) _ (by decide)

example (gScalar : Bytes) (P : Int) :
    scalarMixedMult Proofs.CurveToy.toyOps gScalar P (List.replicate 31 0xff)
      (Proofs.CurveToy.toyFirst 6 3 14 4) (Proofs.CurveToy.toySecond 4) = .panic :=
  mixedMult_short_scalar_panics _ _ _ _ _ _ (by decide)

end SMGo.Props.C14

#print axioms SMGo.Props.C14.extractBit_spec
#print axioms SMGo.Props.C14.extractHigherBits_spec
#print axioms SMGo.Props.C14.extractLowerBits_spec
#print axioms SMGo.Props.C14.comb_partition
#print axioms SMGo.Props.C14.baseMult_spec
#print axioms SMGo.Props.C14.baseMult_6_3_14_4
#print axioms SMGo.Props.C14.baseMult_5_3_17_1
#print axioms SMGo.Props.C14.baseMult_7_3_12_4
#print axioms SMGo.Props.C14.baseMult_4_2_32_0
#print axioms SMGo.Props.C14.baseMult_len_err
#print axioms SMGo.Props.C14.mult_spec
#print axioms SMGo.Props.C14.mixedMult_spec
#print axioms SMGo.Props.C14.mixedMult_short_scalar_panics
#print axioms SMGo.Props.C14.mixedMult_P_eq_G
#print axioms SMGo.Props.C14.mixedMult_P_eq_neg_G
#print axioms SMGo.Props.C14.mixedMult_P_eq_mul_G
