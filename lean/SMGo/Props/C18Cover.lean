/-
  C18, coverage of the assembly constants: the `asmdata` translator emits the NAME of every DATA symbol and numeric
  #define it finds in sm4/*.s (it refuses to run if sm4 contains an assembly source or data-carrying header it does
  not scan).  The theorem below pins that list to the symbols for which Props/C18.lean states a derivation:

    amd64_def_PreAffineConstant, amd64_def_PostAffineConstant, amd64_PreAffineMatrix, amd64_PostAffineMatrix
                                                     gfni_constants, gfni_sbox, gfni_sbox_table
    amd64_Shuffle                                    shuffle_rev32, shuffle_indices
    amd64_CK, amd64_FK, arm64_CK, arm64_FK           amd64_CK_eq, amd64_FK_eq, arm64_CK_eq, arm64_FK_eq
    arm64_SBox                                       arm64_SBox_eq
    amd64_AND_MASK, amd64_LOWER_MASK                 bit_reverse_masks
    amd64_GCM_POLY                                   gcm_poly           (arm64: the immediate, Props/C18Arm64.lean)
    amd64_Counter_Add1/2/3                           counter_add, counter_lane
    amd64_MERGE_H01, amd64_MERGE_H23                 merge_h, merge_h_powers
    amd64_SHUFFLE_X_LANES                            shuffle_x_lanes
    amd64_Shuffle1, amd64_Shuffle2                   shuffle1_shuffle2, shuffle_len_blocks

  A constant table ADDED to an assembly file (seeded change C18-c added a tail-mask table with one wrong row) makes
  this theorem fail: the property "every precomputed constant is the value its derivation prescribes" is then no
  longer shown for that table until a derivation is stated for it here.
-/
import SMGo.Gen.AsmData
namespace SMGo.Props.C18Cover
open SMGo.Gen.AsmData

/-- every constant of the assembly files is one of those Props/C18.lean derives -/
theorem asm_constants_covered :
    symbolNames =
      ["amd64_def_PreAffineConstant", "amd64_def_PostAffineConstant", "amd64_PostAffineMatrix",
       "amd64_PreAffineMatrix", "amd64_Shuffle", "amd64_CK", "amd64_FK", "amd64_AND_MASK",
       "amd64_Counter_Add1", "amd64_Counter_Add2", "amd64_Counter_Add3", "amd64_GCM_POLY", "amd64_LOWER_MASK",
       "amd64_MERGE_H01", "amd64_MERGE_H23", "amd64_SHUFFLE_X_LANES", "amd64_Shuffle1", "amd64_Shuffle2",
       "arm64_CK", "arm64_FK", "arm64_SBox"] := by decide

end SMGo.Props.C18Cover

#print axioms SMGo.Props.C18Cover.asm_constants_covered
