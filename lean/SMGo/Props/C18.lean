/-
  Property C18 — every precomputed constant equals the value its derivation gives.
  (Property theorems only; lemmas live in SMGo/Proofs/Tables*.lean, SM4Tables.lean, AsmData*.lean,
   and, for SM3, in SMGo/Props/C04.lean.)

  "All precomputed data in the library is what the published derivations produce: each entry of each
   SM2 base-point table is the stated multiple of G in the stated representation, the SM4 S-box is the
   standard's algebraic S-box and the four T-tables are its images under the linear transform, the
   key-schedule and SM3 round constants follow their formulas, and the constants embedded in the
   assembly files (affine matrices realising the S-box, S-box/FK/CK copies, GHASH reduction polynomial)
   agree with them."

  The space is finite and is enumerated completely, in the Lean kernel (`decide`, `decide +kernel`; no native
  evaluation), over GENERATED data: `SMGo/Gen/*.lean` are rewritten from /repo on every check run
  (`SM2Tables`, `SM2Params` from sm2/internal, `SM4Const` from sm4/sm4_const.go, `SM3Const` from
  sm3/sm3.go, `AsmData` from the DATA/GLOBL blocks and numeric #defines of sm4/*.s), so a changed
  constant in the library makes this file fail to compile.

  Parts:
    §1 SM2 base-point tables and curve parameters         (Proofs/Tables*.lean)
    §2 SM4 S-box, T-tables, CK, FK of sm4_const.go        (Proofs/SM4Tables.lean)
    §3 SM3 round constants and IV                         (Props/C04.lean)
    §4 assembly copies of CK, FK, S-box                   (Proofs/AsmDataFacts.lean)
    §5 GFNI affine matrices realise the S-box             (   "   )
    §6 shuffle / permutation / mask / counter / GHASH-polynomial constants of the amd64 GCM code

  TRUSTED for §4–§6: the instruction semantics transcribed in `SMGo/Proofs/AsmDataISA.lean` (read its
  header): GF2P8AFFINEQB computes, per byte x, result.bit[i] = parity(matrix.byte[7−i] AND x) XOR imm8.bit[i]
  with matrix.byte[k] the k-th least significant byte of the qword (§5 restates this for the two
  matrices, `gfni_semantics`); GF2P8AFFINEINVQB the same on the inverse of x modulo x^8+x^4+x^3+x+1
  (0 ↦ 0); VPSHUFB dst[j] = (idx[j] ≥ 0x80 ? 0 : tbl[idx[j] & 15]) within a 128-bit lane; VPERMQ
  dst.q[i] = tbl.q[idx.q[i] mod n]; merge-masking writes only the elements whose mask bit is set; Go's
  assembler lists operands in the reverse of Intel's order.  Also trusted: that the use sites are the
  ones described in the comments below (read off the macros of com_amd64.s / gcm_amd64.s / asm_*.s;
  the write-masks 0b00001100, 0b11110000, 0x00ff and the shift counts are immediates in those macros,
  not DATA items, and are transcribed here).
-/
import SMGo.Proofs.TablesAll
import SMGo.Proofs.SM4Tables
import SMGo.Props.C04
import SMGo.Proofs.AsmDataFacts
namespace SMGo.Props.C18
open SMGo
open SMGo.Gen.SM2Tables SMGo.Gen.AsmData
open SMGo.Proofs.Tables (EntryOK entryAffine rinv)
open SMGo.Proofs.CurveBits (combMultiplier)
open SMGo.Proofs.AsmData

/-! ## §1  SM2 base-point tables and parameters -/

/-- what is proved about one stored table entry `(x, y)` claimed to be `[m]G`: four 64-bit limbs each, canonical
    (`< p`) Montgomery residues, and the affine point `(x·R⁻¹ mod p, y·R⁻¹ mod p)`, R = 2^256, is on the curve
    and equals `[m]G` of the specification -/
theorem entryOK_iff (x y : List Nat) (m : Nat) :
    EntryOK x y m ↔
      (x.length = 4 ∧ y.length = 4 ∧ (∀ v ∈ x, v < 2 ^ 64) ∧ (∀ v ∈ y, v < 2 ^ 64)
        ∧ Model.Field.limbsToNat x < Spec.SM2.p ∧ Model.Field.limbsToNat y < Spec.SM2.p
        ∧ Spec.SM2.onCurve (Model.Field.limbsToNat x * rinv % Spec.SM2.p)
            (Model.Field.limbsToNat y * rinv % Spec.SM2.p) = true
        ∧ entryAffine x y = Spec.SM2.smul m Spec.SM2.G) :=
  ⟨fun h => ⟨h.lenX, h.lenY, h.limbsX, h.limbsY, h.canonX, h.canonY, h.onCurve, h.val⟩,
   fun ⟨a, b, c, d, e, f, g, h⟩ => ⟨a, b, c, d, e, f, g, h⟩⟩

/-- the representation: `entryAffine` takes the stored limbs out of Montgomery form; `rinv` is R⁻¹ mod p -/
theorem entryAffine_def (x y : List Nat) :
    entryAffine x y = some (Model.Field.limbsToNat x * rinv % Spec.SM2.p, Model.Field.limbsToNat y * rinv % Spec.SM2.p)
    ∧ rinv = Spec.SM2.invMod (2 ^ 256) Spec.SM2.p
    ∧ rinv * 2 ^ 256 % Spec.SM2.p = 1 :=
  ⟨rfl, Proofs.Tables.rinv_eq, by decide +kernel⟩

/-- the same, in the terms of the field model the point code runs on -/
theorem entryAffine_model (x y : List Nat) :
    entryAffine x y = some (Model.SM2.Fp.fromMontgomery (Model.SM2.Fp.ofRaw x),
      Model.SM2.Fp.fromMontgomery (Model.SM2.Fp.ofRaw y)) :=
  Proofs.Tables.entryAffine_eq_model x y

/-- the multiple stored at index `idx − 1` of sub-table `j` of a w-s-it-r comb:
    Σ_{t<w, bit t of idx set} 2^(r + j·it + t·s·it) -/
theorem combMultiplier_def (w s it r j idx : Nat) :
    combMultiplier w s it r j idx
      = Proofs.CurveBits.sumN w (fun t => idx / 2 ^ t % 2 * 2 ^ (r + j * it + t * s * it)) := rfl

/-- a first (comb) table is valid: `s` sub-tables, each an x list and a y list of `2^w − 1` entries, entry
    `idx − 1` of sub-table `j` being `[combMultiplier w s it r j idx]G` -/
abbrev CombTable (first : List (List (List (List Nat)))) (w s it r : Nat) : Prop :=
  first.length = s ∧
  ∀ j, j < s →
    (first.getD j []).length = 2 ∧
    ((first.getD j []).getD 0 []).length = 2 ^ w - 1 ∧
    ((first.getD j []).getD 1 []).length = 2 ^ w - 1 ∧
    ∀ idx, 1 ≤ idx → idx < 2 ^ w →
      EntryOK (((first.getD j []).getD 0 []).getD (idx - 1) [])
        (((first.getD j []).getD 1 []).getD (idx - 1) []) (combMultiplier w s it r j idx)

/-- a remainder table is valid: an x list and a y list of `2^r − 1` entries, entry `idx − 1` being `[idx]G` -/
abbrev RemTable (second : List (List (List Nat))) (r : Nat) : Prop :=
  second.length = 2 ∧
  (second.getD 0 []).length = 2 ^ r - 1 ∧
  (second.getD 1 []).length = 2 ^ r - 1 ∧
  ∀ idx, 1 ≤ idx → idx < 2 ^ r →
    EntryOK ((second.getD 0 []).getD (idx - 1) []) ((second.getD 1 []).getD (idx - 1) []) idx

/-- comb 4-2-32-0 (2 × 15 points; no remainder table) -/
theorem sm2_table_4_2_32 : CombTable sm2Precomputed_4_2_32 4 2 32 0 := Proofs.Tables.first_4_2_32

/-- comb 5-3-17-1 (3 × 31 points) -/
theorem sm2_table_5_3_17 : CombTable sm2Precomputed_5_3_17 5 3 17 1 := Proofs.Tables.first_5_3_17
theorem sm2_table_5_3_17_remainder : RemTable sm2Precomputed_5_3_17_Remainder 1 := Proofs.Tables.second_5_3_17

/-- comb 6-3-14-4 (3 × 63 points) — the one the library uses -/
theorem sm2_table_6_3_14 : CombTable sm2Precomputed_6_3_14 6 3 14 4 := Proofs.Tables.first_6_3_14
theorem sm2_table_6_3_14_remainder : RemTable sm2Precomputed_6_3_14_Remainder 4 := Proofs.Tables.second_6_3_14

/-- comb 7-3-12-4 (3 × 127 points) -/
theorem sm2_table_7_3_12 : CombTable sm2Precomputed_7_3_12 7 3 12 4 := Proofs.Tables.first_7_3_12
theorem sm2_table_7_3_12_remainder : RemTable sm2Precomputed_7_3_12_Remainder 4 := Proofs.Tables.second_7_3_12

/-- the value equation alone for the table in use, in the words of the property text -/
theorem sm2_table_6_3_14_value (j idx : Nat) (hj : j < 3) (h1 : 1 ≤ idx) (h2 : idx < 2 ^ 6) :
    entryAffine (((sm2Precomputed_6_3_14.getD j []).getD 0 []).getD (idx - 1) [])
        (((sm2Precomputed_6_3_14.getD j []).getD 1 []).getD (idx - 1) [])
      = Spec.SM2.smul (combMultiplier 6 3 14 4 j idx) Spec.SM2.G :=
  Proofs.Tables.first_6_3_14_val j idx hj h1 h2

theorem sm2_table_6_3_14_remainder_value (idx : Nat) (h1 : 1 ≤ idx) (h2 : idx < 2 ^ 4) :
    entryAffine ((sm2Precomputed_6_3_14_Remainder.getD 0 []).getD (idx - 1) [])
        ((sm2Precomputed_6_3_14_Remainder.getD 1 []).getD (idx - 1) [])
      = Spec.SM2.smul idx Spec.SM2.G :=
  Proofs.Tables.second_6_3_14_val idx h1 h2

/-- the curve parameters of sm2_curve.go are those of GB/T 32918.5 -/
theorem sm2_params :
    Gen.SM2Params.param_P = Spec.SM2.p ∧
    Gen.SM2Params.param_N = Spec.SM2.n ∧
    Gen.SM2Params.param_B = Spec.SM2.b ∧
    Gen.SM2Params.param_Gx = Spec.SM2.Gx ∧
    Gen.SM2Params.param_Gy = Spec.SM2.Gy :=
  Proofs.Tables.params_eq

/-- the precomputed `zBytes` (hashed into Z_A) is a ‖ b ‖ Gx ‖ Gy, 32 bytes big-endian each -/
theorem sm2_zbytes :
    Gen.SM2Params.zBytesLen = 128 ∧
    Bytes.ofNatBE Gen.SM2Params.zBytesLen Gen.SM2Params.zBytesVal =
      Bytes.ofNatBE 32 Spec.SM2.a ++ Bytes.ofNatBE 32 Spec.SM2.b ++
        Bytes.ofNatBE 32 Spec.SM2.Gx ++ Bytes.ofNatBE 32 Spec.SM2.Gy :=
  ⟨Proofs.Tables.zBytesLen_eq, Proofs.Tables.zBytes_eq⟩

/-! ## §2  SM4 tables of sm4_const.go -/

/-- the S-box table is the algebraic S-box (affine ∘ inversion in GF(2^8) ∘ affine) -/
theorem sm4_sbox : Gen.SM4Const.sbox = (List.range 256).map Spec.SM4.sboxAlg :=
  Proofs.SM4.sbox_alg

/-- the four T-tables are the images of the S-box under L, the S-box output placed in byte 0, 1, 2, 3 -/
theorem sm4_ttables :
    Gen.SM4Const.s0 = (List.range 256).map (fun x => (Spec.SM4.L (BitVec.ofNat 32 (Spec.SM4.sboxAlg x) <<< 24)).toNat)
    ∧ Gen.SM4Const.s1 = (List.range 256).map (fun x => (Spec.SM4.L (BitVec.ofNat 32 (Spec.SM4.sboxAlg x) <<< 16)).toNat)
    ∧ Gen.SM4Const.s2 = (List.range 256).map (fun x => (Spec.SM4.L (BitVec.ofNat 32 (Spec.SM4.sboxAlg x) <<< 8)).toNat)
    ∧ Gen.SM4Const.s3 = (List.range 256).map (fun x => (Spec.SM4.L (BitVec.ofNat 32 (Spec.SM4.sboxAlg x) <<< 0)).toNat) :=
  ⟨Proofs.SM4.ttable_0, Proofs.SM4.ttable_1, Proofs.SM4.ttable_2, Proofs.SM4.ttable_3⟩

/-- the key-schedule constants follow their formulas: ck_{i,j} = (4i+j)·7 mod 256, FK of the standard -/
theorem sm4_ck_fk :
    Gen.SM4Const.ck = (List.range 32).map (fun i => (Spec.SM4.CK i).toNat)
    ∧ [Gen.SM4Const.fk0, Gen.SM4Const.fk1, Gen.SM4Const.fk2, Gen.SM4Const.fk3] = Spec.SM4.FK.map BitVec.toNat :=
  ⟨Proofs.SM4.ck_formula, Proofs.SM4.fk_eq⟩

/-! ## §3  SM3 constants of sm3.go -/

/-- the precomputed table `tt` is `T_j <<< (j mod 32)` of GB/T 32905 5.3.3, all 64 entries -/
theorem sm3_tt :
    (List.map (BitVec.ofNat 32) Gen.SM3Const.tt).length = 64 ∧
      ∀ j, j < 64 →
        (List.map (BitVec.ofNat 32) Gen.SM3Const.tt).getD j 0 = (Spec.SM3.T j).rotateLeft (j % 32) :=
  Props.C04.tt_formula

/-- the constants `iv0 … iv7` are the IV of the standard -/
theorem sm3_iv :
    [Gen.SM3Const.iv0, Gen.SM3Const.iv1, Gen.SM3Const.iv2, Gen.SM3Const.iv3,
      Gen.SM3Const.iv4, Gen.SM3Const.iv5, Gen.SM3Const.iv6, Gen.SM3Const.iv7].map (BitVec.ofNat 32)
      = Spec.SM3.IV :=
  Props.C04.iv_eq.2.symm.trans Props.C04.iv_eq.1

/-! ## §4  assembly: shape of the data, copies of CK, FK and the S-box -/

/-- every DATA symbol has the size its GLOBL declares / its consumers load, and holds bytes -/
theorem asm_data_shape :
    (amd64_Shuffle.length = 16 ∧ amd64_PreAffineMatrix.length = 8 ∧ amd64_PostAffineMatrix.length = 8
      ∧ amd64_CK.length = 128 ∧ amd64_FK.length = 16 ∧ amd64_AND_MASK.length = 16
      ∧ amd64_LOWER_MASK.length = 16 ∧ amd64_GCM_POLY.length = 16
      ∧ amd64_Counter_Add1.length = 64 ∧ amd64_Counter_Add2.length = 64 ∧ amd64_Counter_Add3.length = 64
      ∧ amd64_MERGE_H01.length = 32 ∧ amd64_MERGE_H23.length = 64 ∧ amd64_SHUFFLE_X_LANES.length = 64
      ∧ amd64_Shuffle1.length = 16 ∧ amd64_Shuffle2.length = 16
      ∧ arm64_CK.length = 128 ∧ arm64_FK.length = 16 ∧ arm64_SBox.length = 256)
    ∧ (∀ l ∈ [amd64_Shuffle, amd64_PreAffineMatrix, amd64_PostAffineMatrix, amd64_CK, amd64_FK,
          amd64_AND_MASK, amd64_LOWER_MASK, amd64_GCM_POLY, amd64_Counter_Add1, amd64_Counter_Add2,
          amd64_Counter_Add3, amd64_MERGE_H01, amd64_MERGE_H23, amd64_SHUFFLE_X_LANES, amd64_Shuffle1,
          amd64_Shuffle2, arm64_CK, arm64_FK, arm64_SBox],
        ∀ b ∈ l, b < 256)
    ∧ amd64_def_PreAffineConstant < 256 ∧ amd64_def_PostAffineConstant < 256 :=
  ⟨lengths, bytes_lt, imm8_lt.1, imm8_lt.2⟩

/-- amd64 `CK<>` (loaded as 32-bit words by `MOVL (R), X1; VPBROADCASTD`): the 32 little-endian dwords are
    the Go table `ck`, hence CK_i of the standard -/
theorem amd64_CK_eq :
    wordsLE 4 amd64_CK = Gen.SM4Const.ck
    ∧ wordsLE 4 amd64_CK = (List.range 32).map (fun i => (Spec.SM4.CK i).toNat) :=
  ⟨amd64_CK_words, amd64_CK_words.trans Proofs.SM4.ck_formula⟩

/-- amd64 `FK<>` (XORed as four dwords into the byte-swapped key): the Go constants `fk0..fk3`, hence FK -/
theorem amd64_FK_eq :
    wordsLE 4 amd64_FK = [Gen.SM4Const.fk0, Gen.SM4Const.fk1, Gen.SM4Const.fk2, Gen.SM4Const.fk3]
    ∧ wordsLE 4 amd64_FK = Spec.SM4.FK.map BitVec.toNat :=
  ⟨amd64_FK_words, amd64_FK_words.trans Proofs.SM4.fk_eq⟩

/-- arm64 `CK<>` (loaded by `VLD1.P 4(R), RK.S[0]`) -/
theorem arm64_CK_eq :
    wordsLE 4 arm64_CK = Gen.SM4Const.ck
    ∧ wordsLE 4 arm64_CK = (List.range 32).map (fun i => (Spec.SM4.CK i).toNat) :=
  ⟨arm64_CK_words, arm64_CK_words.trans Proofs.SM4.ck_formula⟩

/-- arm64 `FK<>` -/
theorem arm64_FK_eq :
    wordsLE 4 arm64_FK = [Gen.SM4Const.fk0, Gen.SM4Const.fk1, Gen.SM4Const.fk2, Gen.SM4Const.fk3]
    ∧ wordsLE 4 arm64_FK = Spec.SM4.FK.map BitVec.toNat :=
  ⟨arm64_FK_words, arm64_FK_words.trans Proofs.SM4.fk_eq⟩

/-- arm64 `SBox<>` (loaded in memory order into V16..V31 for TBL/TBX): byte `x` is S(x) -/
theorem arm64_SBox_eq :
    arm64_SBox = Gen.SM4Const.sbox
    ∧ arm64_SBox = (List.range 256).map Spec.SM4.sboxAlg :=
  ⟨arm64_SBox_table, arm64_SBox_table.trans Proofs.SM4.sbox_alg⟩

/-! ## §5  the GFNI S-box

    `affine(Pre, Post, Src, Interim, Dst)` of com_amd64.s is
       VGF2P8AFFINEQB    $PreAffineConstant,  PreMatrix,  Src,     Interim
       VGF2P8AFFINEINVQB $PostAffineConstant, PostMatrix, Interim, Dst
    with both matrices broadcast to every qword (`loadMatrix`, VBROADCASTI32X2). -/

/-- the transcription of the SDM pseudo-code means what the header says, on the two matrices in use:
    result bit `i` is the parity of (byte `7 − i` of the matrix qword AND x), XOR bit `i` of imm8;
    GF2P8AFFINEINVQB is the same after inversion -/
theorem gfni_semantics :
    (∀ x, x < 256 → ∀ i, i < 8 →
      bit (gf2p8affineByte amd64_PreAffineMatrix amd64_def_PreAffineConstant x) i
        = parity8 (amd64_PreAffineMatrix.getD (7 - i) 0 &&& x) ^^^ bit amd64_def_PreAffineConstant i)
    ∧ (∀ x, x < 256 → ∀ i, i < 8 →
      bit (gf2p8affineInvByte amd64_PostAffineMatrix amd64_def_PostAffineConstant x) i
        = parity8 (amd64_PostAffineMatrix.getD (7 - i) 0 &&& aesInv x) ^^^ bit amd64_def_PostAffineConstant i)
    ∧ (∀ x, x < 256 → gf2p8affineByte amd64_PreAffineMatrix amd64_def_PreAffineConstant x < 256) := by
  decide +kernel

/-- the inversion of GF2P8AFFINEINVQB: `aesInv 0 = 0`, and for a non-zero byte `x`, `aesInv x` is a byte with
    `x · aesInv x = 1` in GF(2)[x]/(x^8+x^4+x^3+x+1) (`aesMul`, reduction by 0x11B) -/
theorem gfni_inverse :
    aesInv 0 = 0 ∧ ∀ x, x < 256 → aesInv x < 256 ∧ (x ≠ 0 → aesMul x (aesInv x) = 1 ∧ aesMul (aesInv x) x = 1) :=
  aesInv_spec

/-- the matrices are the qwords of the source, the constants its two `#define`s -/
theorem gfni_constants :
    le amd64_PreAffineMatrix = 0x4c287db91a22505d ∧ le amd64_PostAffineMatrix = 0xf3ab34a974a6b589
    ∧ amd64_def_PreAffineConstant = 0b00111110 ∧ amd64_def_PostAffineConstant = 0b11010011 :=
  affine_qwords

/-- **the two GFNI instructions compute the SM4 S-box on every byte**: although the hardware inverts in the
    AES field and SM4 is defined over x^8+x^7+x^6+x^5+x^4+x^2+1, the pre- and post-affine maps absorb the
    field isomorphism -/
theorem gfni_sbox :
    ∀ x, x < 256 →
      gf2p8affineInvByte amd64_PostAffineMatrix amd64_def_PostAffineConstant
        (gf2p8affineByte amd64_PreAffineMatrix amd64_def_PreAffineConstant x) = Spec.SM4.sboxAlg x :=
  gfni_sbox_byte

/-- … hence the Go table, entry by entry -/
theorem gfni_sbox_table :
    (List.range 256).map (fun x =>
      gf2p8affineInvByte amd64_PostAffineMatrix amd64_def_PostAffineConstant
        (gf2p8affineByte amd64_PreAffineMatrix amd64_def_PreAffineConstant x)) = Gen.SM4Const.sbox := by
  rw [Proofs.SM4.sbox_alg]
  exact Proofs.SM4.map_range_congr _ _ 256 gfni_sbox

/-! ## §6  amd64 shuffle, permutation, mask, counter and GHASH constants -/

/-- `Shuffle<>` (`rev32`, broadcast to every 128-bit lane): as a VPSHUFB index vector it reverses the bytes
    inside each 32-bit word — big-endian block words become native dwords and back -/
theorem shuffle_rev32 (b0 b1 b2 b3 b4 b5 b6 b7 b8 b9 b10 b11 b12 b13 b14 b15 : Nat) :
    pshufb amd64_Shuffle [b0, b1, b2, b3, b4, b5, b6, b7, b8, b9, b10, b11, b12, b13, b14, b15]
      = [b3, b2, b1, b0, b7, b6, b5, b4, b11, b10, b9, b8, b15, b14, b13, b12] :=
  Proofs.AsmData.shuffle_rev32 ..

/-- `Shuffle1<>`: byte reversal inside each 64-bit half; `Shuffle2<>`: reversal of all 16 bytes -/
theorem shuffle1_shuffle2 (b0 b1 b2 b3 b4 b5 b6 b7 b8 b9 b10 b11 b12 b13 b14 b15 : Nat) :
    pshufb amd64_Shuffle1 [b0, b1, b2, b3, b4, b5, b6, b7, b8, b9, b10, b11, b12, b13, b14, b15]
      = [b7, b6, b5, b4, b3, b2, b1, b0, b15, b14, b13, b12, b11, b10, b9, b8]
    ∧ pshufb amd64_Shuffle2 [b0, b1, b2, b3, b4, b5, b6, b7, b8, b9, b10, b11, b12, b13, b14, b15]
      = [b15, b14, b13, b12, b11, b10, b9, b8, b7, b6, b5, b4, b3, b2, b1, b0] :=
  ⟨shuffle1_rev64 .., shuffle2_rev128 ..⟩

/-- the index vectors themselves (all indices < 16, so no byte is zeroed) -/
theorem shuffle_indices :
    (∀ i, i < 16 → amd64_Shuffle.getD i 0 = 4 * (i / 4) + (3 - i % 4))
    ∧ (∀ i, i < 16 → amd64_Shuffle1.getD i 0 = 8 * (i / 8) + (7 - i % 8))
    ∧ (∀ i, i < 16 → amd64_Shuffle2.getD i 0 = 15 - i) :=
  shuffle_idx

/-- as used: `rev64` (a length in the low qword, `MOVQ` clears the high one) gives the block 0^64 ‖ [len]_64;
    `rev64X2` (Shuffle2 on src2, then Shuffle1 on src1 under write-mask 0x00ff) gives [len A]_64 ‖ [len C]_64 -/
theorem shuffle_len_blocks (a0 a1 a2 a3 a4 a5 a6 a7 c0 c1 c2 c3 c4 c5 c6 c7 : Nat) :
    pshufb amd64_Shuffle2 [c0, c1, c2, c3, c4, c5, c6, c7, 0, 0, 0, 0, 0, 0, 0, 0]
      = [0, 0, 0, 0, 0, 0, 0, 0, c7, c6, c5, c4, c3, c2, c1, c0]
    ∧ pshufbMask 0x00ff amd64_Shuffle1 [a0, a1, a2, a3, a4, a5, a6, a7, 0, 0, 0, 0, 0, 0, 0, 0]
        (pshufb amd64_Shuffle2 [c0, c1, c2, c3, c4, c5, c6, c7, 0, 0, 0, 0, 0, 0, 0, 0])
      = [a7, a6, a5, a4, a3, a2, a1, a0, c7, c6, c5, c4, c3, c2, c1, c0] :=
  ⟨rev64_macro .., rev64X2_macro ..⟩

/-- `SHUFFLE_X_LANES<>` (`VPERMQ T0z, VzIdx, T1z` in the GHASH by-4 loop), as 8 qword indices: the 128-bit
    lanes (a, b, c, d) become (d, a, c, d).  The use site reads only lane 0 of the result (`VPXORD T0x, T1x`):
    it needs "lane 0 ← lane 3", so that (0^1) in lane 0 of T0 meets (2^3); the other three lanes are unused. -/
theorem shuffle_x_lanes (a0 a1 b0 b1 c0 c1 d0 d1 : Nat) :
    wordsLE 8 amd64_SHUFFLE_X_LANES = [6, 7, 0, 1, 4, 5, 6, 7]
    ∧ vpermq (wordsLE 8 amd64_SHUFFLE_X_LANES) [a0, a1, b0, b1, c0, c1, d0, d1]
      = [d0, d1, a0, a1, c0, c1, d0, d1] :=
  ⟨lane_idx.1, Proofs.AsmData.shuffle_x_lanes ..⟩

/-- `MERGE_H01<>` under write-mask 0b00001100 (Y register, 4 qwords): lane 1 of the destination ← lane 0 of
    the source, lane 0 kept.  `MERGE_H23<>` under write-mask 0b11110000 (Z register, 8 qwords): lanes 2, 3 of
    the destination ← lanes 0, 1 of the source, lanes 0, 1 kept. -/
theorem merge_h (s0 s1 s2 s3 s4 s5 s6 s7 o0 o1 o2 o3 o4 o5 o6 o7 : Nat) :
    wordsLE 8 amd64_MERGE_H01 = [0, 0, 0, 1]
    ∧ wordsLE 8 amd64_MERGE_H23 = [0, 0, 0, 0, 0, 1, 2, 3]
    ∧ vpermqMask 0b00001100 (wordsLE 8 amd64_MERGE_H01) [s0, s1, s2, s3] [o0, o1, o2, o3] = [o0, o1, s0, s1]
    ∧ vpermqMask 0b11110000 (wordsLE 8 amd64_MERGE_H23) [s0, s1, s2, s3, s4, s5, s6, s7]
        [o0, o1, o2, o3, o4, o5, o6, o7] = [o0, o1, o2, o3, s0, s1, s2, s3] :=
  ⟨lane_idx.2.1, lane_idx.2.2, merge_h01 .., merge_h23 ..⟩

/-- the three masked VPERMQ of `gHashBlocksLoopBy4Pre` / `gHashBlocks`
      VPERMQ U2y, VyIdxH01, K1, VyH4     (VyH4 = H^4 : ·,  U2 = H^3)
      VPERMQ VyH, VyIdxH01, K1, U1y      (U1   = H^2 : ·,  VyH = H)
      VPERMQ U1z, VzIdxH23, K2, VzH4
    assemble H^4 : H^3 : H^2 : H in the four lanes of VzH4, whatever the other lanes held -/
theorem merge_h_powers (h4a h4b h3a h3b h2a h2b h1a h1b x0 x1 x2 x3 x4 x5 y0 y1 y2 y3 y4 y5 y6 y7 : Nat) :
    let vyH4 := vpermqMask 0b00001100 (wordsLE 8 amd64_MERGE_H01) [h3a, h3b, x0, x1] [h4a, h4b, x2, x3]
    let u1y := vpermqMask 0b00001100 (wordsLE 8 amd64_MERGE_H01) [h1a, h1b, x4, x5] [h2a, h2b, y0, y1]
    vpermqMask 0b11110000 (wordsLE 8 amd64_MERGE_H23) (u1y ++ [y2, y3, y4, y5]) (vyH4 ++ [y6, y7, y6, y7])
      = [h4a, h4b, h3a, h3b, h2a, h2b, h1a, h1b] :=
  Proofs.AsmData.merge_h_powers ..

/-- `AND_MASK<>` / `LOWER_MASK<>` and the `reverseBits` macro (GHASH works on bit-reflected bytes):
    * AND_MASK is 0x0f in every byte (only its first 8 bytes are loaded, VBROADCASTI32X2);
    * LOWER_MASK is the table of 4-bit reversals; `VPSLLQ $4` of it (the "higher mask") is the same table with
      every entry moved to the high nibble of its byte — the qword shift carries no bit across a byte;
    * the two VPSHUFB nibble look-ups give, for every byte b, Lower[b >> 4] ^ Higher[b & 0x0f] = the 8 bits of b
      reversed;
    * the whole macro (VPSRLW $4 on 16-bit words, two VPANDD, two VPSHUFB, VPXORD) reverses the bits of both
      bytes of every 16-bit word;
    * `reverse8` is bit reversal: bit i of the result is bit 7 − i of the argument. -/
theorem bit_reverse_masks :
    amd64_AND_MASK = List.replicate 16 0x0f
    ∧ amd64_LOWER_MASK = (List.range 16).map (reflect 4)
    ∧ psllq4 amd64_LOWER_MASK = amd64_LOWER_MASK.map (· * 16)
    ∧ (∀ b, b < 256 →
        pshufbByte amd64_LOWER_MASK (b >>> 4) ^^^ pshufbByte (psllq4 amd64_LOWER_MASK) (b &&& 0x0f) = reverse8 b)
    ∧ (∀ lo hi, lo < 256 → hi < 256 →
        reverseBitsWord 0x0f amd64_LOWER_MASK lo hi = (reverse8 lo, reverse8 hi))
    ∧ (∀ b, b < 256 → reverse8 b < 256 ∧ reverse8 (reverse8 b) = b ∧ ∀ i, i < 8 → bit (reverse8 b) i = bit b (7 - i)) :=
  ⟨and_mask, lower_mask, higher_mask, reverseBits_byte, reverseBits_word, reverse8_spec⟩

/-- `GCM_POLY<>`: the reduction loads its first qword into every qword of VzReduce (VBROADCASTI32X2) and
    multiplies by the LOW qword of each lane (VPCLMULQDQ $0x00 / $0x01): that qword is 0x87 = x^7+x^2+x+1, the
    low part of g(x) = x^128 + x^7 + x^2 + x + 1; the second qword (never loaded) is 0.  In the bit-reflected
    representation the assembly computes in, this is the constant R = 11100001 ‖ 0^120 of SP 800-38D:
    the 128-bit value of the symbol is the bit reflection of `Spec.GCM.R`, and 0x87 that of 0xE1. -/
theorem gcm_poly :
    wordsLE 8 amd64_GCM_POLY = [0x87, 0]
    ∧ (0x87 : Nat) = 2 ^ 7 + 2 ^ 2 + 2 ^ 1 + 2 ^ 0
    ∧ le amd64_GCM_POLY = reflect 128 Spec.GCM.R
    ∧ reflect 128 (le amd64_GCM_POLY) = Spec.GCM.R
    ∧ reflect 8 0xE1 = 0x87 :=
  ⟨gcm_poly_qwords, gcm_poly_reflect.2.2.2, gcm_poly_reflect.1, gcm_poly_reflect.2.1, gcm_poly_reflect.2.2.1⟩

/-- `Counter_Add1/2/3<>` as 16 little-endian dwords (VPADDD lanes): the increments sit in dword 3 of each
    128-bit lane and are (1,2,3,4), (4,4,4,4), (2,2,2,2); every other dword is 0 (the IV part is untouched).
    fillCounterX16 uses Add1 and Add2 in full; fillCounterX8 the low 256 bits of Add1 and Add3: (1,2), (2,2);
    fillCounterX4/X2/X1 the low 128 bits of Add1: (1). -/
theorem counter_add :
    wordsLE 4 amd64_Counter_Add1 = [0, 0, 0, 1, 0, 0, 0, 2, 0, 0, 0, 3, 0, 0, 0, 4]
    ∧ wordsLE 4 amd64_Counter_Add2 = [0, 0, 0, 4, 0, 0, 0, 4, 0, 0, 0, 4, 0, 0, 0, 4]
    ∧ wordsLE 4 amd64_Counter_Add3 = [0, 0, 0, 2, 0, 0, 0, 2, 0, 0, 0, 2, 0, 0, 0, 2]
    ∧ wordsLE 4 (amd64_Counter_Add1.take 16) = [0, 0, 0, 1]
    ∧ wordsLE 4 (amd64_Counter_Add1.take 32) = [0, 0, 0, 1, 0, 0, 0, 2]
    ∧ wordsLE 4 (amd64_Counter_Add3.take 32) = [0, 0, 0, 2, 0, 0, 0, 2] :=
  ⟨counter_add_dwords.1, counter_add_dwords.2.1, counter_add_dwords.2.2,
   counter_add_low.1, counter_add_low.2.1, counter_add_low.2.2⟩

/-- dword 3 is where the counter lives: after `rev32`, dword 3 of a lane is the big-endian 32-bit number formed
    by bytes 12..15 of the counter block.  And `makeCounterNew` (12-byte IV) builds the last byte of
    J0 = IV ‖ 0^31 ‖ 1 from the same constant: `PSLLDQ $3` of the low lane of Counter_Add1 is 0^120 ‖ 0x01. -/
theorem counter_lane (b0 b1 b2 b3 b4 b5 b6 b7 b8 b9 b10 b11 b12 b13 b14 b15 : Nat) :
    le ((pshufb amd64_Shuffle [b0, b1, b2, b3, b4, b5, b6, b7, b8, b9, b10, b11, b12, b13, b14, b15]).drop 12)
      = be [b12, b13, b14, b15]
    ∧ be [b12, b13, b14, b15] = ((b12 * 256 + b13) * 256 + b14) * 256 + b15
    ∧ pslldq 3 (amd64_Counter_Add1.take 16) = List.replicate 15 0 ++ [1] :=
  ⟨Proofs.AsmData.counter_lane .., by simp [be, le]; omega, counter_j0_suffix⟩

end SMGo.Props.C18

#print axioms SMGo.Props.C18.entryOK_iff
#print axioms SMGo.Props.C18.entryAffine_def
#print axioms SMGo.Props.C18.entryAffine_model
#print axioms SMGo.Props.C18.combMultiplier_def
#print axioms SMGo.Props.C18.sm2_table_4_2_32
#print axioms SMGo.Props.C18.sm2_table_5_3_17
#print axioms SMGo.Props.C18.sm2_table_5_3_17_remainder
#print axioms SMGo.Props.C18.sm2_table_6_3_14
#print axioms SMGo.Props.C18.sm2_table_6_3_14_remainder
#print axioms SMGo.Props.C18.sm2_table_7_3_12
#print axioms SMGo.Props.C18.sm2_table_7_3_12_remainder
#print axioms SMGo.Props.C18.sm2_table_6_3_14_value
#print axioms SMGo.Props.C18.sm2_table_6_3_14_remainder_value
#print axioms SMGo.Props.C18.sm2_params
#print axioms SMGo.Props.C18.sm2_zbytes
#print axioms SMGo.Props.C18.sm4_sbox
#print axioms SMGo.Props.C18.sm4_ttables
#print axioms SMGo.Props.C18.sm4_ck_fk
#print axioms SMGo.Props.C18.sm3_tt
#print axioms SMGo.Props.C18.sm3_iv
#print axioms SMGo.Props.C18.asm_data_shape
#print axioms SMGo.Props.C18.amd64_CK_eq
#print axioms SMGo.Props.C18.amd64_FK_eq
#print axioms SMGo.Props.C18.arm64_CK_eq
#print axioms SMGo.Props.C18.arm64_FK_eq
#print axioms SMGo.Props.C18.arm64_SBox_eq
#print axioms SMGo.Props.C18.gfni_semantics
#print axioms SMGo.Props.C18.gfni_inverse
#print axioms SMGo.Props.C18.gfni_constants
#print axioms SMGo.Props.C18.gfni_sbox
#print axioms SMGo.Props.C18.gfni_sbox_table
#print axioms SMGo.Props.C18.shuffle_rev32
#print axioms SMGo.Props.C18.shuffle1_shuffle2
#print axioms SMGo.Props.C18.shuffle_indices
#print axioms SMGo.Props.C18.shuffle_len_blocks
#print axioms SMGo.Props.C18.shuffle_x_lanes
#print axioms SMGo.Props.C18.merge_h
#print axioms SMGo.Props.C18.merge_h_powers
#print axioms SMGo.Props.C18.bit_reverse_masks
#print axioms SMGo.Props.C18.gcm_poly
#print axioms SMGo.Props.C18.counter_add
#print axioms SMGo.Props.C18.counter_lane
