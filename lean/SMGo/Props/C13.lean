/-
  Property C13 — the user hash ZA and the id-level and message-level entry points.
  (Property theorems only; lemmas live in SMGo/Proofs/SM2ZA.lean.)

  "The user hash equals SM3(ENTL || id || a || b || Gx || Gy || xA || yA) with ENTL the 16-bit bit
   length of the id, and an id too long for ENTL (8192 bytes or more) is refused.  The id- and
   message-level signing and verification entry points behave exactly like the digest-level ones
   applied to e = SM3(ZA || M), so signatures interoperate with other GM/T 0003 implementations."

  Objects.  `Model.SM2.za / hashZaMsg / sign / signZa / verify / verifyZa` are the models of `ZA`,
  of the Write-Write-Sum sequence of `SignZa`/`VerifyZa`, and of `Sign`, `SignZa`, `Verify`, `VerifyZa`
  of /repo/sm2/sm2.go over a context `X` (executed against the Go code by the harness);
  `Model.SM2.signHashed / verifyHashed` are the digest-level entry points (properties C01–C03).
  `Spec.SM2.za`, `Spec.SM2.digest`, `Spec.SM2.signIdBytes`, `Spec.SM2.verifyId` are the functions the
  differential driver executes as oracle; `Spec.SM3.hash` is the transcription of GB/T 32905.
  From `F : CurveFacts X` only two fields are used: `F.sm3` (C04: the SM3 value answers every
  Write/Sum history like the standard) and `F.zBytes_eq` (zBytes = a ‖ b ‖ Gx ‖ Gy); for the
  regenerated instance `Model.SM2.ctx` both are discharged here (section (iv)), so the statements of
  that section are unconditional.
-/
import SMGo.Model.SM2Inst
import SMGo.Proofs.SM2Facts
import SMGo.Proofs.SM2ZA
import SMGo.Props.C04
namespace SMGo.Props.C13
open SMGo SMGo.Model SMGo.Model.SM2 SMGo.Proofs.SM2Facts

variable {α β : Type}

/-! ### (i) ZA -/

/-- `za_spec`: ZA = SM3(ENTL ‖ id ‖ a ‖ b ‖ Gx ‖ Gy ‖ xA ‖ yA), or an error when ENTL overflows -/
theorem za_spec (X : Ctx α β) (F : CurveFacts X) (id px py : Bytes) :
    za X id px py =
      (match Spec.SM2.za id px py with
       | some z => .ok z
       | none => .err) :=
  Proofs.SM2ZA.za_spec X F.sm3 F.zBytes_eq id px py

/-- the specification, spelled out -/
theorem za_formula (id px py : Bytes) :
    Spec.SM2.za id px py =
      if 8192 ≤ id.length then none
      else some (Spec.SM3.hash (Bytes.ofNatBE 2 (id.length * 8) ++ id ++ Bytes.ofNatBE 32 Spec.SM2.a
        ++ Bytes.ofNatBE 32 Spec.SM2.b ++ Bytes.ofNatBE 32 Spec.SM2.Gx ++ Bytes.ofNatBE 32 Spec.SM2.Gy ++ px ++ py)) := by
  by_cases h : 8192 ≤ id.length
  · have : id.length * 8 ≥ 65536 := by omega
    simp [Spec.SM2.za, h, this]
  · have : ¬ id.length * 8 ≥ 65536 := by omega
    simp only [Spec.SM2.za, h, this, if_false]

/-- ENTL: for an accepted id the two bytes written hold the bit length of the id (no truncation) -/
theorem entl_value (id : Bytes) (h : id.length < 8192) :
    (Bytes.ofNatBE 2 (id.length * 8)).length = 2 ∧ Bytes.toNatBE (Bytes.ofNatBE 2 (id.length * 8)) = id.length * 8 :=
  ⟨by simp [Bytes.ofNatBE], Proofs.SM2ZA.entl_faithful _ (by omega)⟩

/-- refusal: an error exactly for ids of 8192 bytes or more (no hypothesis on the context) -/
theorem za_refuses_iff (X : Ctx α β) (id px py : Bytes) : za X id px py = .err ↔ 8192 ≤ id.length :=
  Proofs.SM2ZA.za_err_iff X id px py

/-! ### (ii) e = SM3(ZA ‖ M) -/

/-- `hashZaMsg_spec`: Write(za), Write(msg), Sum(nil) on a fresh hash is SM3(za ‖ msg) -/
theorem hashZaMsg_spec (X : Ctx α β) (F : CurveFacts X) (z msg : Bytes) :
    hashZaMsg X z msg = Spec.SM2.digest z msg :=
  Proofs.SM2ZA.hashZaMsg_spec X F.sm3 z msg

theorem digest_formula (z msg : Bytes) : Spec.SM2.digest z msg = Spec.SM3.hash (z ++ msg) := rfl

/-! ### (iii) the entry points -/

/-- `signZa_eq`: `SignZa(rand, priv, za, msg)` = `SignHashed(rand, priv, SM3(za ‖ msg))` -/
theorem signZa_eq (X : Ctx α β) (F : CurveFacts X) (sc : Script) (priv z msg : Bytes) :
    signZa X sc priv z msg = signHashed X sc priv (Spec.SM2.digest z msg) :=
  Proofs.SM2ZA.signZa_eq X F.sm3 sc priv z msg

/-- `sign_eq_signHashed`: `Sign(id, pubx, puby, rand, priv, msg)` = `SignHashed(rand, priv, SM3(ZA ‖ msg))`,
    an error (nothing read, nothing signed) when the id is refused -/
theorem sign_eq_signHashed (X : Ctx α β) (F : CurveFacts X) (id px py : Bytes) (sc : Script) (priv msg : Bytes) :
    sign X id px py sc priv msg =
      (match Spec.SM2.za id px py with
       | some z => signHashed X sc priv (Spec.SM2.digest z msg)
       | none => .err) :=
  Proofs.SM2ZA.sign_eq_signHashed X F.sm3 F.zBytes_eq id px py sc priv msg

/-- `verifyZa_eq`: `VerifyZa(pubx, puby, za, msg, r, s)` = `VerifyHashed(pubx, puby, SM3(za ‖ msg), r, s)` -/
theorem verifyZa_eq (X : Ctx α β) (F : CurveFacts X) (px py z msg r s : Bytes) :
    verifyZa X px py z msg r s = verifyHashed X px py (Spec.SM2.digest z msg) r s :=
  Proofs.SM2ZA.verifyZa_eq X F.sm3 px py z msg r s

/-- `verify_eq_verifyHashed`: `Verify(id, pubx, puby, msg, r, s)` = `VerifyHashed(pubx, puby, SM3(ZA ‖ msg), r, s)`,
    (false, error) when the id is refused -/
theorem verify_eq_verifyHashed (X : Ctx α β) (F : CurveFacts X) (id px py msg r s : Bytes) :
    verify X id px py msg r s =
      (match Spec.SM2.za id px py with
       | some z => verifyHashed X px py (Spec.SM2.digest z msg) r s
       | none => .ok false) :=
  Proofs.SM2ZA.verify_eq_verifyHashed X F.sm3 F.zBytes_eq id px py msg r s

/-- refusal of an id of 8192 bytes or more, by both entry points (no hypothesis on the context) -/
theorem long_id_refused (X : Ctx α β) (id px py : Bytes) (sc : Script) (priv msg r s : Bytes) (h : 8192 ≤ id.length) :
    sign X id px py sc priv msg = .err ∧ verify X id px py msg r s = .ok false :=
  ⟨Proofs.SM2ZA.sign_long_id X id px py sc priv msg h, Proofs.SM2ZA.verify_long_id X id px py msg r s h⟩

/-- how an `Option` of the specification reads as an `Outcome` of the model -/
def ofOption {γ : Type} : Option γ → Outcome γ
  | some v => .ok v
  | none => .err

/-- interoperability, signing: if the digest-level entry point is the specification's `signBytes`
    (properties C01/C02), then the id-level one is the specification's `signIdBytes` -/
theorem sign_interop (X : Ctx α β) (F : CurveFacts X)
    (hS : ∀ sc priv e, signHashed X sc priv e
      = ofOption ((Spec.SM2.signBytes priv e sc).map (fun t => ((t.1, t.2.1), t.2.2))))
    (id px py : Bytes) (sc : Script) (priv msg : Bytes) :
    sign X id px py sc priv msg
      = ofOption ((Spec.SM2.signIdBytes id px py priv msg sc).map (fun t => ((t.1, t.2.1), t.2.2))) := by
  rw [sign_eq_signHashed X F, Spec.SM2.signIdBytes]
  cases Spec.SM2.za id px py with
  | none => rfl
  | some z => exact hS sc priv _

/-- interoperability, verification: if the digest-level entry point is the specification's `verify`
    (property C03), then the id-level one is the specification's `verifyId` -/
theorem verify_interop (X : Ctx α β) (F : CurveFacts X)
    (hV : ∀ px py e r s, verifyHashed X px py e r s = .ok (Spec.SM2.verify px py e r s))
    (id px py msg r s : Bytes) :
    verify X id px py msg r s = .ok (Spec.SM2.verifyId id px py msg r s) := by
  rw [verify_eq_verifyHashed X F, Spec.SM2.verifyId]
  cases Spec.SM2.za id px py with
  | none => rfl
  | some z => exact hV px py _ r s

/-! ### (iv) the regenerated instance: unconditional statements -/

/-- C04 for the instance's SM3 constants -/
theorem ctx_sm3 : ∀ ops, Model.SM3.run Model.SM2.ctx.tt ops = Spec.SM3.runHistory ops :=
  Props.C04.C04_history

/-- the `zBytes` regenerated from the source are a ‖ b ‖ Gx ‖ Gy of the standard -/
theorem ctx_zBytes : Model.SM2.ctx.zBytes = Bytes.ofNatBE 32 Spec.SM2.a ++ Bytes.ofNatBE 32 Spec.SM2.b
    ++ Bytes.ofNatBE 32 Spec.SM2.Gx ++ Bytes.ofNatBE 32 Spec.SM2.Gy := by
  decide +kernel

theorem ctx_za (id px py : Bytes) :
    za ctx id px py = (match Spec.SM2.za id px py with | some z => .ok z | none => .err) :=
  Proofs.SM2ZA.za_spec ctx ctx_sm3 ctx_zBytes id px py

theorem ctx_hashZaMsg (z msg : Bytes) : hashZaMsg ctx z msg = Spec.SM2.digest z msg :=
  Proofs.SM2ZA.hashZaMsg_spec ctx ctx_sm3 z msg

theorem ctx_sign (id px py : Bytes) (sc : Script) (priv msg : Bytes) :
    sign ctx id px py sc priv msg =
      (match Spec.SM2.za id px py with
       | some z => signHashed ctx sc priv (Spec.SM2.digest z msg)
       | none => .err) :=
  Proofs.SM2ZA.sign_eq_signHashed ctx ctx_sm3 ctx_zBytes id px py sc priv msg

theorem ctx_verify (id px py msg r s : Bytes) :
    verify ctx id px py msg r s =
      (match Spec.SM2.za id px py with
       | some z => verifyHashed ctx px py (Spec.SM2.digest z msg) r s
       | none => .ok false) :=
  Proofs.SM2ZA.verify_eq_verifyHashed ctx ctx_sm3 ctx_zBytes id px py msg r s

/-! ### non-vacuity -/

/-- specification self-test (a test, labelled as such): ZA of GM/T 0003.5 / GB/T 32918.5 example —
    id "1234567812345678", the public key of the standard's worked example -/
theorem spec_vector_za :
    Spec.SM2.za [0x31,0x32,0x33,0x34,0x35,0x36,0x37,0x38,0x31,0x32,0x33,0x34,0x35,0x36,0x37,0x38]
      (Bytes.ofNatBE 32 0x09F9DF311E5421A150DD7D161E4BC5C672179FAD1833FC076BB08FF356F35020)
      (Bytes.ofNatBE 32 0xCCEA490CE26775A52DC6EA718CC1AA600AED05FBF35E084A6632F6072DA9AD13)
    = some (Bytes.ofNatBE 32 0xB2E14C5C79C6DF5B85F4FE7ED8DB7A262B9DA7E07CCB0EA9F4747B8CCDA8A4F3) := by
  decide +kernel

/-- the model of ZA on the same input, through the theorem (not by evaluation of the model) -/
example :
    za ctx [0x31,0x32,0x33,0x34,0x35,0x36,0x37,0x38,0x31,0x32,0x33,0x34,0x35,0x36,0x37,0x38]
      (Bytes.ofNatBE 32 0x09F9DF311E5421A150DD7D161E4BC5C672179FAD1833FC076BB08FF356F35020)
      (Bytes.ofNatBE 32 0xCCEA490CE26775A52DC6EA718CC1AA600AED05FBF35E084A6632F6072DA9AD13)
    = .ok (Bytes.ofNatBE 32 0xB2E14C5C79C6DF5B85F4FE7ED8DB7A262B9DA7E07CCB0EA9F4747B8CCDA8A4F3) := by
  rw [ctx_za, spec_vector_za]

/-- the empty id is accepted (ENTL = 0), 8191 bytes are accepted, 8192 refused -/
example : (Spec.SM2.za [] [] []).isSome = true := by
  rw [za_formula, if_neg (by simp)]; rfl
example : (Spec.SM2.za (List.replicate 8191 0) [] []).isSome = true := by
  rw [za_formula, if_neg (by rw [List.length_replicate]; omega)]; rfl
example : Spec.SM2.za (List.replicate 8192 0) [] [] = none := by
  rw [za_formula, if_pos (by rw [List.length_replicate]; omega)]
example : za ctx (List.replicate 8192 0) [1] [2] = .err := (za_refuses_iff ctx _ _ _).mpr (by rw [List.length_replicate]; omega)

/-- ENTL of a 16-byte id is 0x0080 -/
example : Bytes.ofNatBE 2 (16 * 8) = [0x00, 0x80] := by decide

end SMGo.Props.C13

#print axioms SMGo.Props.C13.za_spec
#print axioms SMGo.Props.C13.za_formula
#print axioms SMGo.Props.C13.entl_value
#print axioms SMGo.Props.C13.za_refuses_iff
#print axioms SMGo.Props.C13.hashZaMsg_spec
#print axioms SMGo.Props.C13.signZa_eq
#print axioms SMGo.Props.C13.sign_eq_signHashed
#print axioms SMGo.Props.C13.verifyZa_eq
#print axioms SMGo.Props.C13.verify_eq_verifyHashed
#print axioms SMGo.Props.C13.long_id_refused
#print axioms SMGo.Props.C13.sign_interop
#print axioms SMGo.Props.C13.verify_interop
#print axioms SMGo.Props.C13.ctx_sm3
#print axioms SMGo.Props.C13.ctx_zBytes
#print axioms SMGo.Props.C13.ctx_za
#print axioms SMGo.Props.C13.ctx_hashZaMsg
#print axioms SMGo.Props.C13.ctx_sign
#print axioms SMGo.Props.C13.ctx_verify
#print axioms SMGo.Props.C13.spec_vector_za
