/-
  Property C14 (refinement of the generated IR, second part): `internal.ScalarMixedMult_Unsafe` ([g]G + [k]P with width-5
  NAF windows on P and the 6-3-14 comb on G, /repo/sm2/internal/sm2_curve.go) IS `Model.Curve.scalarMixedMult`; the
  exported wrapper `internal.ScalarBaseMult` (→ `scalarBaseMult_SkipBitExtraction_6_3_14` → the comb schedule on the
  6-3-14 tables) IS `Model.SM2.scalarBaseMult` (`ScalarMult` itself is the schedule of Props/C14IR, closed in
  Props/C15IR).  (Property theorems only; proofs in SMGo/Proofs/CTIRRefineMixed.lean, CTIRRefineRename.lean,
  CTIRRefineRenameProto.lean, CTIRRefineWrap.lean.)

  Three generated programs contain the same Go functions under different numbers: SMGo/Gen/CTIRProg.lean (the
  constant-time scope, 100 functions), SMGo/Gen/CTIRProgFn.lean (DecomposeNAF, ScalarMixedMult_Unsafe and their callees)
  and SMGo/Gen/CTIRProgProto.lean (= CTIRProg ++ eight more functions: ScalarMixedMult_Unsafe as function 100, …,
  VerifyHashed).  Theorems are moved between them by a general RENAMING theorem for the interpreter
  (`execV_ren`: if every function of a call-closed set D of P occurs in P' renamed by σ (function numbers) and γ
  (global numbers), then the renamed statement runs in P' exactly as the statement runs in P with the globals read
  through γ; corollaries `Computes.ren`, `runV_ren`; `renames_append`: a program followed by more functions).  The
  side conditions are checked function by function by `rfl` on the generated texts: the point functions
  (CTIRProg → CTIRProgFn: `renames_pt`), the whole closure of ScalarMixedMult_Unsafe (CTIRProgFn → CTIRProgProto:
  `renames_fp`), the extension (CTIRProg → CTIRProgProto: `renames_proto`).  No function differs other than by renaming.

  HYPOTHESES and their status:
  * `ir_scalarMixedMult_eq_model`: callees (NewSM2Point, Double, Add, Set, Negate, NewFromXY of CTIRProgFn) as `Computes`
    hypotheses for an abstract group `Ops`; DISCHARGED in `ir_scalarMixedMult_eq_model_closed` from the point layer
    (Props/C15IR) through the renaming, and CLOSED without any hypothesis in `ir_scalarMixedMult_fiat_proto` /
    `ir_scalarMixedMult_pointCtxFiat_proto` (below); the intermediate `_closed` forms leave `FiatPrims` (a theorem: Props/C15IR `fiatPrims4`), the facts on the encoding
    (`EncOk`: `encOk4`) and on the globals (tables: `globals_first/second` by `rfl`; sm2B).
  * `hT` / `XYUsed … → Out4 x ∧ Out4 y`: the table entries are four 64-bit limbs (true of the generated tables).
  No model/IR disagreement: wherever the model uses a default, a bounds-checked index follows and panics exactly where the IR is
  stuck (short scalars, missing sub-table or row, NAF index outside the precomputed array).
  Axioms: propext, Classical.choice, Quot.sound.
-/
import SMGo.Proofs.CTIRRefineRenameProto
import SMGo.Proofs.CTIRRefineWrap
import SMGo.Proofs.CTIRRefineEntryProto2

namespace SMGo.Props.C14IRMixed
open SMGo SMGo.Proofs SMGo.Model.CTIR SMGo.Gen.CTIRProgFn SMGo.Proofs.CTIRRefineUtils SMGo.Proofs.CTIRRefineCurve
open SMGo.Proofs.CTIRRefineComb (Computes CalleeFails Fails encT limbsV nilPointV Table runV_of_Fails)
open SMGo.Proofs.CTIRRefineMixed
variable {Γ : Type} {G : Nat → Val} {X : Oracle} {Ops : Model.Curve.GOps Γ} {encP : Γ → Val} {Fnew Fdbl Fadd Fset Fneg Fxy : Nat}

/-! ## ScalarMixedMult_Unsafe in CTIRProgFn, modulo the point operations (SMGo/Proofs/CTIRRefineMixed.lean) -/

/-- the run of the IR = Model.Curve.scalarMixedMult, for an abstract group and its encoding -/
theorem ir_scalarMixedMult_eq_model (gScalar : Bytes) (Pt : Γ) (scalar : Bytes) (first : List Table) (second : Table)
    (hG2 : G 2 = .arr (first.map encT)) (hG3 : G 3 = encT second)
    (hnew : Computes prog G X 15 Fnew [] [encP Ops.infinity])
    (hdbl : ∀ q a, Computes prog G X 4 Fdbl [encP q, encP a] [encP (Ops.double a), encP (Ops.double a)])
    (hadd : ∀ q a b, Computes prog G X 18 Fadd [encP q, encP a, encP b] [encP (Ops.add a b), encP (Ops.add a b)])
    (hset : ∀ q a, Computes prog G X 23 Fset [encP q, encP a] [encP a, encP a])
    (hneg : ∀ q a, Computes prog G X 24 Fneg [encP q, encP a] [encP (Ops.negate a), encP (Ops.negate a)])
    (hxy : ∀ x y, XYUsed first second x y →
      Computes prog G X 21 Fxy [limbsV x, limbsV y] [encP (Ops.fromXY x y)]) :
    match Model.Curve.scalarMixedMult Ops gScalar Pt scalar first second with
    | .ok r => ∀ f, fuelMixed Fnew Fdbl Fadd Fset Fneg Fxy ≤ f →
        runV prog G X f f_internal_ScalarMixedMult_Unsafe [bytesV gScalar, encP Pt, bytesV scalar] = .ret [encP r, .int 0]
    | .panic =>
        (∃ F, ∀ f, F ≤ f →
          runV prog G X f f_internal_ScalarMixedMult_Unsafe [bytesV gScalar, encP Pt, bytesV scalar] = .panic) ∨
        (∀ f, runV prog G X f f_internal_ScalarMixedMult_Unsafe [bytesV gScalar, encP Pt, bytesV scalar] = .stuck)
    | .err => False :=
  SMGo.Proofs.CTIRRefineMixed.ir_scalarMixedMult_eq_model gScalar Pt scalar first second hG2 hG3 hnew hdbl hadd hset hneg hxy

/-- the same at the generated globals (the 6-3-14 tables) -/
theorem ir_scalarMixedMult_eq_model_globals (gScalar : Bytes) (Pt : Γ) (scalar : Bytes)
    (hnew : Computes prog globals X 15 Fnew [] [encP Ops.infinity])
    (hdbl : ∀ q a, Computes prog globals X 4 Fdbl [encP q, encP a] [encP (Ops.double a), encP (Ops.double a)])
    (hadd : ∀ q a b, Computes prog globals X 18 Fadd [encP q, encP a, encP b] [encP (Ops.add a b), encP (Ops.add a b)])
    (hset : ∀ q a, Computes prog globals X 23 Fset [encP q, encP a] [encP a, encP a])
    (hneg : ∀ q a, Computes prog globals X 24 Fneg [encP q, encP a] [encP (Ops.negate a), encP (Ops.negate a)])
    (hxy : ∀ x y, XYUsed SMGo.Gen.SM2Tables.sm2Precomputed_6_3_14 SMGo.Gen.SM2Tables.sm2Precomputed_6_3_14_Remainder x y →
      Computes prog globals X 21 Fxy [limbsV x, limbsV y] [encP (Ops.fromXY x y)]) :
    match Model.Curve.scalarMixedMult Ops gScalar Pt scalar SMGo.Gen.SM2Tables.sm2Precomputed_6_3_14
        SMGo.Gen.SM2Tables.sm2Precomputed_6_3_14_Remainder with
    | .ok r => ∀ f, fuelMixed Fnew Fdbl Fadd Fset Fneg Fxy ≤ f →
        runV prog globals X f f_internal_ScalarMixedMult_Unsafe [bytesV gScalar, encP Pt, bytesV scalar]
          = .ret [encP r, .int 0]
    | .panic =>
        (∃ F, ∀ f, F ≤ f →
          runV prog globals X f f_internal_ScalarMixedMult_Unsafe [bytesV gScalar, encP Pt, bytesV scalar] = .panic) ∨
        (∀ f, runV prog globals X f f_internal_ScalarMixedMult_Unsafe [bytesV gScalar, encP Pt, bytesV scalar] = .stuck)
    | .err => False :=
  SMGo.Proofs.CTIRRefineMixed.ir_scalarMixedMult_eq_model_globals gScalar Pt scalar hnew hdbl hadd hset hneg hxy

/-- the model never returns an error -/
theorem scalarMixedMult_ne_err (g : Bytes) (Pt : Γ) (scalar : Bytes) (first : List Table) (second : Table) :
    Model.Curve.scalarMixedMult Ops g Pt scalar first second ≠ .err :=
  SMGo.Proofs.CTIRRefineMixed.scalarMixedMult_ne_err Ops g Pt scalar first second

/-- every NAF digit lies in [-65536, 65536]: no wrap-around in `naf-1`, `-naf-1` -/
theorem decomposeNAF_small (out : List Int) (s : Bytes) (n w : Int) (r : List Int) (hs : Small out)
    (h : Model.Utils.decomposeNAF (some out) (some s) n w = .ok r) : Small r :=
  SMGo.Proofs.CTIRRefineMixed.decomposeNAF_small out s n w r hs h

end SMGo.Props.C14IRMixed

namespace SMGo.Props.C14IRMixed
open SMGo SMGo.Proofs SMGo.Model.CTIR SMGo.Proofs.CTIRRefineRename
open SMGo.Proofs.CTIRRefineField (Computes limbsV elemV Out4)
open SMGo.Proofs.CTIRRefineUtils (bytesV)
open SMGo.Proofs.CTIRRefinePointA (ptV ptRawV FiatPrims prog_hasPointFns fuelW fuelPtAdd fuelPtDouble)
open SMGo.Proofs.CTIRRefineMixed (XYUsed Callees fuelMixed)
open SMGo.Proofs.CTIRRefineComb (Table encT CalleeFails)
variable {P P' Q : Prog} {G G' : Nat → Val} {X : Oracle} {σ γ : Nat → Nat} {D : List Nat}

/-! ## The renaming theorem (SMGo/Proofs/CTIRRefineRename.lean, CTIRRefineRenameProto.lean) -/

/-- a renamed statement runs in the renamed program as the statement in the original (value level) -/
theorem execV_ren (H : Renames P P' σ γ D) :
    ∀ (f : Nat) (env : Env) (s : Stmt), closedS D s = true →
      execV P' G' X f env (renS σ γ s) = execV P (fun i => G' (γ i)) X f env s :=
  SMGo.Proofs.CTIRRefineRename.execV_ren H

theorem Computes.ren (H : Renames P P' σ γ D) {g F : Nat} {args res : List Val}
    (h : Computes P (fun i => G' (γ i)) X g F args res) (hg : g ∈ D) :
    Computes P' G' X (σ g) F args res :=
  SMGo.Proofs.CTIRRefineRename.Computes.ren H h hg

theorem runV_ren (H : Renames P P' σ γ D) {g : Nat} (hg : g ∈ D) (f : Nat) (args : List Val) :
    runV P' G' X f (σ g) args = runV P (fun i => G' (γ i)) X f g args :=
  SMGo.Proofs.CTIRRefineRename.runV_ren H hg f args

/-- the point functions of CTIRProg occur renamed in CTIRProgFn -/
theorem renames_pt : Renames Gen.CTIRProg.prog Gen.CTIRProgFn.prog σpt γpt Dpt :=
  SMGo.Proofs.CTIRRefineRename.renames_pt 

/-- a call-closed program followed by more functions -/
theorem renames_append (P Q : Prog) (h : closedP P = true) :
    Renames P (P ++ Q) id id (List.range P.length) :=
  SMGo.Proofs.CTIRRefineRename.renames_append P Q h

/-- CTIRProgProto extends CTIRProg -/
theorem renames_proto : Renames Gen.CTIRProg.prog Gen.CTIRProgProto.prog id id (List.range 100) :=
  SMGo.Proofs.CTIRRefineRename.renames_proto 

theorem computes_proto_of_prog {g F : Nat} {args res : List Val}
    (h : Computes Gen.CTIRProg.prog G X g F args res) (hg : g < 100) :
    Computes Gen.CTIRProgProto.prog G X g F args res :=
  SMGo.Proofs.CTIRRefineRename.computes_proto_of_prog h hg

theorem runV_proto_of_prog {g : Nat} (hg : g < 100) (f : Nat) (args : List Val) :
    runV Gen.CTIRProgProto.prog G X f g args = runV Gen.CTIRProg.prog G X f g args :=
  SMGo.Proofs.CTIRRefineRename.runV_proto_of_prog hg f args

/-- the closure of ScalarMixedMult_Unsafe of CTIRProgFn occurs renamed in CTIRProgProto -/
theorem renames_fp : Renames Gen.CTIRProgFn.prog Gen.CTIRProgProto.prog σfp γfp Dfp :=
  SMGo.Proofs.CTIRRefineRename.renames_fp 

/-! ## ScalarMixedMult_Unsafe with the point operations discharged -/

/-- in CTIRProgFn: only the Fiat primitives, the encoding and the globals as hypotheses -/
theorem ir_scalarMixedMult_eq_model_closed {α : Type} {C : Model.Point.Ctx α} {enc : α → List Nat}
    {Fmul Fsq Fadd Fsub Fopp Fone : Nat}
    (hp : FiatPrims Gen.CTIRProg.prog (fun i => G' (γpt i)) X C.F enc Fmul Fsq Fadd Fsub Fopp Fone)
    (hz : enc C.F.zero = [0, 0, 0, 0])
    (hB : G' 1 = elemV (enc C.b))
    (hap : C.addProg = Gen.PointSLP.add) (hao : C.addOut = Gen.PointSLP.add_out)
    (hdp : C.dblProg = Gen.PointSLP.double) (hdo : C.dblOut = Gen.PointSLP.double_out)
    (gScalar : Bytes) (Pt : Model.Point.Pt α) (scalar : Bytes) (first : List Table) (second : Table)
    (hG2 : G' 2 = .arr (first.map encT)) (hG3 : G' 3 = encT second)
    (hT : ∀ x y, XYUsed first second x y →
      x.length = 4 ∧ y.length = 4 ∧ enc (C.F.ofRaw x) = x ∧ enc (C.F.ofRaw y) = y) :
    match Model.Curve.scalarMixedMult (Model.Curve.pointOps C) gScalar Pt scalar first second with
    | .ok r => ∀ f, fuelMixed (fuelW Fone + 4) (fuelPtDouble Fmul Fadd Fsub Fsq) (fuelPtAdd Fmul Fadd Fsub Fsq) 26
          (fuelW Fopp + 22) (fuelW Fone + 20) ≤ f →
        runV Gen.CTIRProgFn.prog G' X f Gen.CTIRProgFn.f_internal_ScalarMixedMult_Unsafe
          [bytesV gScalar, ptV enc Pt, bytesV scalar] = .ret [ptV enc r, .int 0]
    | .panic =>
        (∃ F, ∀ f, F ≤ f →
          runV Gen.CTIRProgFn.prog G' X f Gen.CTIRProgFn.f_internal_ScalarMixedMult_Unsafe
            [bytesV gScalar, ptV enc Pt, bytesV scalar] = .panic) ∨
        (∀ f, runV Gen.CTIRProgFn.prog G' X f Gen.CTIRProgFn.f_internal_ScalarMixedMult_Unsafe
          [bytesV gScalar, ptV enc Pt, bytesV scalar] = .stuck)
    | .err => False :=
  SMGo.Proofs.CTIRRefineRename.ir_scalarMixedMult_eq_model_closed hp hz hB hap hao hdp hdo gScalar Pt scalar first second hG2 hG3 hT

theorem ir_scalarMixedMult_eq_model_closed_encOk {α : Type} {C : Model.Point.Ctx α} {enc : α → List Nat}
    {Fmul Fsq Fadd Fsub Fopp Fone : Nat}
    (hp : FiatPrims Gen.CTIRProg.prog (fun i => G' (γpt i)) X C.F enc Fmul Fsq Fadd Fsub Fopp Fone)
    (he : CTIRRefinePointB.EncOk C.F enc)
    (hz : enc C.F.zero = [0, 0, 0, 0])
    (hB : G' 1 = elemV (enc C.b))
    (hap : C.addProg = Gen.PointSLP.add) (hao : C.addOut = Gen.PointSLP.add_out)
    (hdp : C.dblProg = Gen.PointSLP.double) (hdo : C.dblOut = Gen.PointSLP.double_out)
    (gScalar : Bytes) (Pt : Model.Point.Pt α) (scalar : Bytes) (first : List Table) (second : Table)
    (hG2 : G' 2 = .arr (first.map encT)) (hG3 : G' 3 = encT second)
    (hT : ∀ x y, XYUsed first second x y → CTIRRefineField.Out4 x ∧ CTIRRefineField.Out4 y) :
    match Model.Curve.scalarMixedMult (Model.Curve.pointOps C) gScalar Pt scalar first second with
    | .ok r => ∀ f, fuelMixed (fuelW Fone + 4) (fuelPtDouble Fmul Fadd Fsub Fsq) (fuelPtAdd Fmul Fadd Fsub Fsq) 26
          (fuelW Fopp + 22) (fuelW Fone + 20) ≤ f →
        runV Gen.CTIRProgFn.prog G' X f Gen.CTIRProgFn.f_internal_ScalarMixedMult_Unsafe
          [bytesV gScalar, ptV enc Pt, bytesV scalar] = .ret [ptV enc r, .int 0]
    | .panic =>
        (∃ F, ∀ f, F ≤ f →
          runV Gen.CTIRProgFn.prog G' X f Gen.CTIRProgFn.f_internal_ScalarMixedMult_Unsafe
            [bytesV gScalar, ptV enc Pt, bytesV scalar] = .panic) ∨
        (∀ f, runV Gen.CTIRProgFn.prog G' X f Gen.CTIRProgFn.f_internal_ScalarMixedMult_Unsafe
          [bytesV gScalar, ptV enc Pt, bytesV scalar] = .stuck)
    | .err => False :=
  SMGo.Proofs.CTIRRefineRename.ir_scalarMixedMult_eq_model_closed_encOk hp he hz hB hap hao hdp hdo gScalar Pt scalar first second hG2 hG3 hT

theorem ir_scalarMixedMult_eq_model_closed_globals {α : Type} {C : Model.Point.Ctx α} {enc : α → List Nat}
    {Fmul Fsq Fadd Fsub Fopp Fone : Nat}
    (hp : FiatPrims Gen.CTIRProg.prog (fun i => Gen.CTIRProgFn.globals (γpt i)) X C.F enc Fmul Fsq Fadd Fsub Fopp Fone)
    (hz : enc C.F.zero = [0, 0, 0, 0])
    (hB : Gen.CTIRProgFn.globals 1 = elemV (enc C.b))
    (hap : C.addProg = Gen.PointSLP.add) (hao : C.addOut = Gen.PointSLP.add_out)
    (hdp : C.dblProg = Gen.PointSLP.double) (hdo : C.dblOut = Gen.PointSLP.double_out)
    (gScalar : Bytes) (Pt : Model.Point.Pt α) (scalar : Bytes)
    (hT : ∀ x y, XYUsed Gen.SM2Tables.sm2Precomputed_6_3_14 Gen.SM2Tables.sm2Precomputed_6_3_14_Remainder x y →
      x.length = 4 ∧ y.length = 4 ∧ enc (C.F.ofRaw x) = x ∧ enc (C.F.ofRaw y) = y) :
    match Model.Curve.scalarMixedMult (Model.Curve.pointOps C) gScalar Pt scalar
        Gen.SM2Tables.sm2Precomputed_6_3_14 Gen.SM2Tables.sm2Precomputed_6_3_14_Remainder with
    | .ok r => ∀ f, fuelMixed (fuelW Fone + 4) (fuelPtDouble Fmul Fadd Fsub Fsq) (fuelPtAdd Fmul Fadd Fsub Fsq) 26
          (fuelW Fopp + 22) (fuelW Fone + 20) ≤ f →
        runV Gen.CTIRProgFn.prog Gen.CTIRProgFn.globals X f Gen.CTIRProgFn.f_internal_ScalarMixedMult_Unsafe
          [bytesV gScalar, ptV enc Pt, bytesV scalar] = .ret [ptV enc r, .int 0]
    | .panic =>
        (∃ F, ∀ f, F ≤ f →
          runV Gen.CTIRProgFn.prog Gen.CTIRProgFn.globals X f Gen.CTIRProgFn.f_internal_ScalarMixedMult_Unsafe
            [bytesV gScalar, ptV enc Pt, bytesV scalar] = .panic) ∨
        (∀ f, runV Gen.CTIRProgFn.prog Gen.CTIRProgFn.globals X f Gen.CTIRProgFn.f_internal_ScalarMixedMult_Unsafe
          [bytesV gScalar, ptV enc Pt, bytesV scalar] = .stuck)
    | .err => False :=
  SMGo.Proofs.CTIRRefineRename.ir_scalarMixedMult_eq_model_closed_globals hp hz hB hap hao hdp hdo gScalar Pt scalar hT

/-- in CTIRProgProto (function 100), as VerifyHashed calls it -/
theorem ir_scalarMixedMult_eq_model_proto {α : Type} {C : Model.Point.Ctx α} {enc : α → List Nat}
    {Fmul Fsq Fadd Fsub Fopp Fone : Nat}
    (hp : FiatPrims Gen.CTIRProg.prog (fun i => G (γfp (γpt i))) X C.F enc Fmul Fsq Fadd Fsub Fopp Fone)
    (hz : enc C.F.zero = [0, 0, 0, 0])
    (hB : G 6 = elemV (enc C.b))
    (hap : C.addProg = Gen.PointSLP.add) (hao : C.addOut = Gen.PointSLP.add_out)
    (hdp : C.dblProg = Gen.PointSLP.double) (hdo : C.dblOut = Gen.PointSLP.double_out)
    (gScalar : Bytes) (Pt : Model.Point.Pt α) (scalar : Bytes) (first : List Table) (second : Table)
    (hG7 : G 7 = .arr (first.map encT)) (hG8 : G 8 = encT second)
    (hT : ∀ x y, XYUsed first second x y →
      x.length = 4 ∧ y.length = 4 ∧ enc (C.F.ofRaw x) = x ∧ enc (C.F.ofRaw y) = y) :
    match Model.Curve.scalarMixedMult (Model.Curve.pointOps C) gScalar Pt scalar first second with
    | .ok r => ∀ f, fuelMixedPt Fmul Fsq Fadd Fsub Fopp Fone ≤ f →
        runV Gen.CTIRProgProto.prog G X f 100 [bytesV gScalar, ptV enc Pt, bytesV scalar] = .ret [ptV enc r, .int 0]
    | .panic =>
        (∃ F, ∀ f, F ≤ f →
          runV Gen.CTIRProgProto.prog G X f 100 [bytesV gScalar, ptV enc Pt, bytesV scalar] = .panic) ∨
        (∀ f, runV Gen.CTIRProgProto.prog G X f 100 [bytesV gScalar, ptV enc Pt, bytesV scalar] = .stuck)
    | .err => False :=
  SMGo.Proofs.CTIRRefineRename.ir_scalarMixedMult_eq_model_proto hp hz hB hap hao hdp hdo gScalar Pt scalar first second hG7 hG8 hT

theorem ir_scalarMixedMult_eq_model_proto_encOk {α : Type} {C : Model.Point.Ctx α} {enc : α → List Nat}
    {Fmul Fsq Fadd Fsub Fopp Fone : Nat}
    (hp : FiatPrims Gen.CTIRProg.prog (fun i => G (γfp (γpt i))) X C.F enc Fmul Fsq Fadd Fsub Fopp Fone)
    (he : CTIRRefinePointB.EncOk C.F enc)
    (hz : enc C.F.zero = [0, 0, 0, 0])
    (hB : G 6 = elemV (enc C.b))
    (hap : C.addProg = Gen.PointSLP.add) (hao : C.addOut = Gen.PointSLP.add_out)
    (hdp : C.dblProg = Gen.PointSLP.double) (hdo : C.dblOut = Gen.PointSLP.double_out)
    (gScalar : Bytes) (Pt : Model.Point.Pt α) (scalar : Bytes) (first : List Table) (second : Table)
    (hG7 : G 7 = .arr (first.map encT)) (hG8 : G 8 = encT second)
    (hT : ∀ x y, XYUsed first second x y → Out4 x ∧ Out4 y) :
    match Model.Curve.scalarMixedMult (Model.Curve.pointOps C) gScalar Pt scalar first second with
    | .ok r => ∀ f, fuelMixedPt Fmul Fsq Fadd Fsub Fopp Fone ≤ f →
        runV Gen.CTIRProgProto.prog G X f 100 [bytesV gScalar, ptV enc Pt, bytesV scalar] = .ret [ptV enc r, .int 0]
    | .panic =>
        (∃ F, ∀ f, F ≤ f →
          runV Gen.CTIRProgProto.prog G X f 100 [bytesV gScalar, ptV enc Pt, bytesV scalar] = .panic) ∨
        (∀ f, runV Gen.CTIRProgProto.prog G X f 100 [bytesV gScalar, ptV enc Pt, bytesV scalar] = .stuck)
    | .err => False :=
  SMGo.Proofs.CTIRRefineRename.ir_scalarMixedMult_eq_model_proto_encOk hp he hz hB hap hao hdp hdo gScalar Pt scalar first second hG7 hG8 hT

theorem ir_scalarMixedMult_eq_model_proto_globals {X : Oracle} {α : Type} {C : Model.Point.Ctx α}
    {enc : α → List Nat} {Fmul Fsq Fadd Fsub Fopp Fone : Nat}
    (hp : FiatPrims Gen.CTIRProg.prog (fun i => Gen.CTIRProgProto.globals (γfp (γpt i))) X C.F enc
      Fmul Fsq Fadd Fsub Fopp Fone)
    (hz : enc C.F.zero = [0, 0, 0, 0])
    (hB : Gen.CTIRProgProto.globals 6 = elemV (enc C.b))
    (hap : C.addProg = Gen.PointSLP.add) (hao : C.addOut = Gen.PointSLP.add_out)
    (hdp : C.dblProg = Gen.PointSLP.double) (hdo : C.dblOut = Gen.PointSLP.double_out)
    (gScalar : Bytes) (Pt : Model.Point.Pt α) (scalar : Bytes)
    (hT : ∀ x y, XYUsed Gen.SM2Tables.sm2Precomputed_6_3_14 Gen.SM2Tables.sm2Precomputed_6_3_14_Remainder x y →
      x.length = 4 ∧ y.length = 4 ∧ enc (C.F.ofRaw x) = x ∧ enc (C.F.ofRaw y) = y) :
    match Model.Curve.scalarMixedMult (Model.Curve.pointOps C) gScalar Pt scalar
        Gen.SM2Tables.sm2Precomputed_6_3_14 Gen.SM2Tables.sm2Precomputed_6_3_14_Remainder with
    | .ok r => ∀ f, fuelMixedPt Fmul Fsq Fadd Fsub Fopp Fone ≤ f →
        runV Gen.CTIRProgProto.prog Gen.CTIRProgProto.globals X f 100 [bytesV gScalar, ptV enc Pt, bytesV scalar]
          = .ret [ptV enc r, .int 0]
    | .panic =>
        (∃ F, ∀ f, F ≤ f →
          runV Gen.CTIRProgProto.prog Gen.CTIRProgProto.globals X f 100 [bytesV gScalar, ptV enc Pt, bytesV scalar]
            = .panic) ∨
        (∀ f, runV Gen.CTIRProgProto.prog Gen.CTIRProgProto.globals X f 100
          [bytesV gScalar, ptV enc Pt, bytesV scalar] = .stuck)
    | .err => False :=
  SMGo.Proofs.CTIRRefineRename.ir_scalarMixedMult_eq_model_proto_globals hp hz hB hap hao hdp hdo gScalar Pt scalar hT

/-- `Computes` form, with the Fiat primitives for every G (as Props/C16IRFiat gives them) -/
theorem mixedMult_proto_computes_allG {α : Type} {C : Model.Point.Ctx α} {enc : α → List Nat}
    {Fmul Fsq Fadd Fsub Fopp Fone : Nat}
    (hp : ∀ G, FiatPrims Gen.CTIRProg.prog G X C.F enc Fmul Fsq Fadd Fsub Fopp Fone)
    (he : CTIRRefinePointB.EncOk C.F enc)
    (hz : enc C.F.zero = [0, 0, 0, 0])
    (hB : G 6 = elemV (enc C.b))
    (hap : C.addProg = Gen.PointSLP.add) (hao : C.addOut = Gen.PointSLP.add_out)
    (hdp : C.dblProg = Gen.PointSLP.double) (hdo : C.dblOut = Gen.PointSLP.double_out)
    (gScalar : Bytes) (Pt : Model.Point.Pt α) (scalar : Bytes) (first : List Table) (second : Table)
    (hG7 : G 7 = .arr (first.map encT)) (hG8 : G 8 = encT second)
    (hT : ∀ x y, XYUsed first second x y → Out4 x ∧ Out4 y) :
    match Model.Curve.scalarMixedMult (Model.Curve.pointOps C) gScalar Pt scalar first second with
    | .ok r => Computes Gen.CTIRProgProto.prog G X 100 (fuelMixedPt Fmul Fsq Fadd Fsub Fopp Fone)
        [bytesV gScalar, ptV enc Pt, bytesV scalar] [ptV enc r, .int 0]
    | .panic => CalleeFails Gen.CTIRProgProto.prog G X 100 [bytesV gScalar, ptV enc Pt, bytesV scalar]
    | .err => False :=
  SMGo.Proofs.CTIRRefineRename.mixedMult_proto_computes_allG hp he hz hB hap hao hdp hdo gScalar Pt scalar first second hG7 hG8 hT

end SMGo.Props.C14IRMixed

namespace SMGo.Props.C14IRMixed
open SMGo SMGo.Proofs SMGo.Model.CTIR SMGo.Gen.CTIRProg SMGo.Proofs.CTIRRefineUtils
open SMGo.Proofs.CTIRRefineComb (Computes CalleeFails Fails nilPointV encT)
open SMGo.Proofs.CTIRRefineWrap
variable {P : Prog} {G : Nat → Val} {X : Oracle}

/-! ## The exported wrapper ScalarBaseMult (SMGo/Proofs/CTIRRefineWrap.lean) -/

/-- run level ⇒ `Computes` -/
theorem computes_of_runV {g F : Nat} {args rs : List Val} {fn : Fn} (hg : P[g]? = some fn) (hs : fn.stub = false)
    (hn : args.length = fn.nparams) (h : ∀ f, F ≤ f → runV P G X f g args = .ret rs) :
    Computes P G X g F args rs :=
  SMGo.Proofs.CTIRRefineWrap.computes_of_runV hg hs hn h

theorem calleeFails_of_runV {g : Nat} {args : List Val} {fn : Fn} (hg : P[g]? = some fn) (hs : fn.stub = false)
    (hn : args.length = fn.nparams)
    (h : (∃ F, ∀ f, F ≤ f → runV P G X f g args = .panic) ∨ (∀ f, runV P G X f g args = .stuck)) :
    CalleeFails P G X g args :=
  SMGo.Proofs.CTIRRefineWrap.calleeFails_of_runV hg hs hn h

/-- ScalarBaseMult(k) returns what the comb schedule returns on the 6-3-14 tables with 6, 3, 14, 4 -/
theorem ScalarBaseMult_computes {F : Nat} (k a b : Val) (h : Computes prog G X 82 F (sbmArgs G k) [a, b]) :
    Computes prog G X f_internal_ScalarBaseMult (F + 10) [k] [a, b] :=
  SMGo.Proofs.CTIRRefineWrap.ScalarBaseMult_computes k a b h

theorem ScalarBaseMult_fails (k : Val) (h : CalleeFails prog G X 82 (sbmArgs G k)) :
    CalleeFails prog G X f_internal_ScalarBaseMult [k] :=
  SMGo.Proofs.CTIRRefineWrap.ScalarBaseMult_fails k h

/-- ScalarBaseMult against Model.SM2.scalarBaseMult (closed in Props/C13IR for the generated Fiat code) -/
theorem ir_ScalarBaseMult_eq_model {α β : Type} (M : Model.SM2.Ctx α β) (encP : Model.Point.Pt α → Val) {F : Nat} (k : Bytes)
    (hG7 : G 7 = .arr (M.first.map encT)) (hG8 : G 8 = encT M.second)
    (h : match Model.Curve.scalarBaseMult (Model.Curve.pointOps M.C) k M.first M.second 6 3 14 4 with
      | .ok r => ∀ f, F ≤ f → runV prog G X f f_internal_scalarBaseMult_SkipBitExtration
          [bytesV k, .arr (M.first.map encT), encT M.second, .int (6 : Nat), .int (3 : Nat), .int (14 : Nat), .int (4 : Nat)]
            = .ret [encP r, .int 0]
      | .err => ∀ f, 20 ≤ f → runV prog G X f f_internal_scalarBaseMult_SkipBitExtration
          [bytesV k, .arr (M.first.map encT), encT M.second, .int (6 : Nat), .int (3 : Nat), .int (14 : Nat), .int (4 : Nat)]
            = .ret [nilPointV, .int 1]
      | .panic =>
        (∃ F', ∀ f, F' ≤ f → runV prog G X f f_internal_scalarBaseMult_SkipBitExtration
          [bytesV k, .arr (M.first.map encT), encT M.second, .int (6 : Nat), .int (3 : Nat), .int (14 : Nat), .int (4 : Nat)] = .panic) ∨
        (∀ f, runV prog G X f f_internal_scalarBaseMult_SkipBitExtration
          [bytesV k, .arr (M.first.map encT), encT M.second, .int (6 : Nat), .int (3 : Nat), .int (14 : Nat), .int (4 : Nat)] = .stuck)) :
    match Model.SM2.scalarBaseMult M k with
    | .ok r => Computes prog G X f_internal_ScalarBaseMult (max F 20 + 10) [bytesV k] [encP r, .int 0]
    | .err => Computes prog G X f_internal_ScalarBaseMult (max F 20 + 10) [bytesV k] [nilPointV, .int 1]
    | .panic => CalleeFails prog G X f_internal_ScalarBaseMult [bytesV k] :=
  SMGo.Proofs.CTIRRefineWrap.ir_ScalarBaseMult_eq_model M encP k hG7 hG8 h

end SMGo.Props.C14IRMixed

namespace SMGo.Props.C14IRMixed
open SMGo SMGo.Proofs SMGo.Model.CTIR SMGo.Gen.CTIRProg SMGo.Proofs.CTIRRefineUtils SMGo.Proofs.CTIRRefineField
open SMGo.Proofs.CTIRRefineClosed SMGo.Proofs.CTIRRefineEntry SMGo.Proofs.CTIRRefineEntryProto SMGo.Proofs.CTIRRefineEntryProto2
open SMGo.Model.SM2 (pointCtxFiat ctxFiat)

/-! ## CLOSED: ScalarMixedMult_Unsafe of the extended program (function 100) on the generated globals, for the generated
   Fiat code: no hypothesis (SMGo/Proofs/CTIRRefineEntryProto2.lean).  This is the closed form of the theorems above -/

/-- against the model over well-formed limbs (`pointCtx4`), any oracle -/
theorem ir_scalarMixedMult_fiat_proto {O : Oracle} (g : Bytes) (Pt : Model.Point.Pt Limbs) (k : Bytes) :
    match Model.Curve.scalarMixedMult (Model.Curve.pointOps pointCtx4) g Pt k Gen.SM2Tables.sm2Precomputed_6_3_14
        Gen.SM2Tables.sm2Precomputed_6_3_14_Remainder with
    | .ok r => ∀ f, fuelMm ≤ f →
        runV PX GP O f 100 [bytesV g, CTIRRefinePointB.ptV encL Pt, bytesV k] = .ret [CTIRRefinePointB.ptV encL r, .int 0]
    | .panic => (∃ F, ∀ f, F ≤ f → runV PX GP O f 100 [bytesV g, CTIRRefinePointB.ptV encL Pt, bytesV k] = .panic) ∨
        (∀ f, runV PX GP O f 100 [bytesV g, CTIRRefinePointB.ptV encL Pt, bytesV k] = .stuck)
    | .err => False :=
  SMGo.Proofs.CTIRRefineEntryProto2.ir_scalarMixedMult_fiat_proto g Pt k

theorem fuelMm_eq : fuelMm = 49893848 :=
  SMGo.Proofs.CTIRRefineEntryProto2.fuelMm_eq 

/-- against the audited model instance `Model.SM2.pointCtxFiat` -/
theorem ir_scalarMixedMult_pointCtxFiat_proto {O : Oracle} (g : Bytes) (Pt : Model.Point.Pt (List Nat)) (hPt : Out4Pt Pt)
    (k : Bytes) :
    match Model.Curve.scalarMixedMult (Model.Curve.pointOps pointCtxFiat) g Pt k Gen.SM2Tables.sm2Precomputed_6_3_14
        Gen.SM2Tables.sm2Precomputed_6_3_14_Remainder with
    | .ok r => Out4Pt r ∧ ∀ f, fuelMm ≤ f →
        runV PX GP O f 100 [bytesV g, CTIRRefinePointB.ptV id Pt, bytesV k] = .ret [CTIRRefinePointB.ptV id r, .int 0]
    | .panic => (∃ F, ∀ f, F ≤ f → runV PX GP O f 100 [bytesV g, CTIRRefinePointB.ptV id Pt, bytesV k] = .panic) ∨
        (∀ f, runV PX GP O f 100 [bytesV g, CTIRRefinePointB.ptV id Pt, bytesV k] = .stuck)
    | .err => False :=
  SMGo.Proofs.CTIRRefineEntryProto2.ir_scalarMixedMult_pointCtxFiat_proto g Pt hPt k

#print axioms ir_scalarMixedMult_eq_model
#print axioms ir_scalarMixedMult_eq_model_globals
#print axioms scalarMixedMult_ne_err
#print axioms decomposeNAF_small
#print axioms execV_ren
#print axioms Computes.ren
#print axioms runV_ren
#print axioms renames_pt
#print axioms renames_append
#print axioms renames_proto
#print axioms computes_proto_of_prog
#print axioms runV_proto_of_prog
#print axioms renames_fp
#print axioms ir_scalarMixedMult_eq_model_closed
#print axioms ir_scalarMixedMult_eq_model_closed_encOk
#print axioms ir_scalarMixedMult_eq_model_closed_globals
#print axioms ir_scalarMixedMult_eq_model_proto
#print axioms ir_scalarMixedMult_eq_model_proto_encOk
#print axioms ir_scalarMixedMult_eq_model_proto_globals
#print axioms mixedMult_proto_computes_allG
#print axioms computes_of_runV
#print axioms calleeFails_of_runV
#print axioms ScalarBaseMult_computes
#print axioms ScalarBaseMult_fails
#print axioms ir_ScalarBaseMult_eq_model
#print axioms ir_scalarMixedMult_fiat_proto
#print axioms fuelMm_eq
#print axioms ir_scalarMixedMult_pointCtxFiat_proto

end SMGo.Props.C14IRMixed
