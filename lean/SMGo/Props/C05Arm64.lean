/-
  C05, arm64 part: "SM4: all block paths (portable, amd64 GFNI/AVX-512 assembly, arm64 NEON assembly) compute the
  GB/T 32907 permutation" — the arm64 NEON assembly sm4/asm_arm64.s (the default path on arm64 CPUs: NewCipher calls
  `expandKeyAsm`, Encrypt/Decrypt call `cryptoBlockAsm`, the GCM glue calls cryptoBlockAsm / X2 / X4 / X8 / X16).

  WHAT THE STATEMENTS ARE ABOUT.  The objects are the macro-expanded LISTINGS of the routines, regenerated on every
  check run by `go tool asm -S` (GOARCH=arm64) into SMGo/Gen/ListArm64Asm.lean, together with the NEON arrangement /
  element specifiers of every operand (SMGo/Gen/ListArm64AsmArr.lean, same translator run), and they are run by the
  value interpreter SMGo/Model/ISAValArm64.lean on the states of SMGo/Model/ISAValArm64Inst.lean.

  TRUSTED AND NOT VALIDATED: that interpreter is a hand transcription of the Arm Architecture Reference Manual
  (A64 Advanced SIMD: LD1/ST1, LD4/ST4, EOR, SUB, SHL, SRI, TBL, TBX (coded as WORD in the source), REV32, MOVI, DUP,
  INS, MOV; base ADD/SUB/address/frame loads) and of the Go assembler's operand order.  The verification sandbox is
  an amd64 machine with no arm64 emulator: arm64 code CANNOT BE EXECUTED here, so — unlike the amd64 interpreter,
  which the harness compares with the real CPU on every run — nothing in this file has been compared with an arm64
  CPU.  What guards against a transcription error that happens to make a proof pass is that every theorem relates
  the listing to the independent specification SMGo/Spec/SM4.lean (algebraic S-box, rotations on BitVec 32).
  The driver request `asm64.kernel` / `asm64.expandkey` (Driver/AsmArm64.lean) runs the same interpreter on
  arbitrary inputs (listing + transcription against the specification; still no CPU).

  PROVED FOR ALL INPUTS (symbolic execution of the regenerated listing; axioms propext, Classical.choice, Quot.sound):
    * `asm_arm64_cryptoBlockAsm_eq_spec`, `asm_arm64_cryptoBlockAsm_inplace_eq_spec`: the listing of
      `cryptoBlockAsm` returns and leaves `Spec.SM4.crypt rk src` in the destination, for all 32 round keys, every
      16-byte block, whatever the 31 general and 32 vector registers and the destination hold at entry; also with
      dst = src.
    * `asm_arm64_expandKeyAsm_eq_spec`: the listing of `expandKeyAsm` writes `Spec.SM4.keySchedule key` forwards into
      `enc` and backwards into `dec`, for every 16-byte key and any register / array contents; `C05_asm_arm64`: the
      two composed (NewCipher + Encrypt / Decrypt on arm64 use exactly these two routines).
    * `asm_arm64_lookup_is_sbox`: TBL + 3 × (SUB #0x40, TBX) over the 256-byte `SBox<>` in V16..V31 is the S-box of
      the specification on every byte of the register; `asm_arm64_shl_sri_is_rotl`: SHL #r + SRI #(32−r) is the
      rotation; `asm_arm64_subRound`: one `subRoundX4` block is the SM4 round on every word element.
    * `asm_arm64_cryptoBlockAsmX2_eq_spec`, `asm_arm64_cryptoBlockAsmX4_eq_spec`, `asm_arm64_cryptoBlockAsmX8_eq_spec`:
      the listings of the 2- / 4- / 8-block kernels leave `Spec.SM4.crypt rk` of every block in the destination, for
      all round keys, all blocks, any register / destination contents (dst and src disjoint, as the GCM glue calls
      them).
    * `asm_arm64_rounds_all_lanes` + `asm_arm64_wide_kernels_rounds`: the 800 middle instructions of the listings of
      `cryptoBlockAsmX2` / `cryptoBlockAsmX4` are 32 SM4 rounds on the word elements 0,1 / 0..3 (ingredients of the
      two theorems above, kept as statements of their own).
  TESTED ON ONE INPUT EACH (evaluation of the interpreter inside the kernel, `decide +kernel`):
    * `asm_arm64_test_X1_standard`, `asm_arm64_test_X1_inplace`: GB/T 32907 A.1 vector through `cryptoBlockAsm`;
    * `asm_arm64_test_X2_X4_X8_X16`: 2 / 4 / 8 / 16 pairwise different blocks through X2 / X4 / X8 / X16Internal
      (X16 with tmp = dst, as the Go wrapper calls it) against the specification;
    * `asm_arm64_test_expandKey`: the A.1 key through `expandKeyAsm` gives the standard's round keys, forwards in
      `enc`, backwards in `dec`.
  `asm_arm64_cryptoBlockAsmX16_eq_spec`: the listing of `cryptoBlockAsmX16Internal` in the calling shape of the Go
  wrapper `cryptoBlockAsmX16(rk, dst, src) = cryptoBlockAsmX16Internal(rk, dst, src, dst)` (sm4/sm4_asm_arm64.go: the
  256-byte scratch buffer `tmp` IS `dst`; `src` disjoint, as `cryptoBlocks` of sm4/sm4_gcm_arm64.go calls it) leaves
  `Spec.SM4.crypt rk` of each of the sixteen blocks in dst, for all round keys, all blocks, any register / destination
  contents.  Memory invariant between sub-rounds: the buffer holds the byte images of the sixteen state registers;
  the epilogue writes dst[0..127] (over the stash of the first half) BEFORE it reloads dst[128..255].
  NOT STATED: X2 / X4 / X8 / X16 called in place (dst = src): that shape does not occur — `cryptoBlocks` calls every
  wide kernel as `cryptoBlockAsmXn(&roundKeys[0], &tmp[0], &counter[0])` with two distinct local arrays, which is the
  disjoint shape proved here (only `cryptoBlockAsm` is reached with dst = src, through `Encrypt(b, b)`; proved).
  `cryptoBlockAsmX16Internal` with a `tmp` buffer distinct from `dst` (no caller does that): the kernel-evaluated
  test of an earlier revision only.
  NON-VACUITY: the `example`s at the end instantiate every headline theorem on a concrete entry state (the registers
  `junkG` / `junkV`, the GB/T 32907 A.1 key and round keys), discharging all premises by evaluation.
-/
import SMGo.Proofs.ISAValArm64Spec
import SMGo.Proofs.ISAValArm64Wide
import SMGo.Proofs.ISAValArm64Tests
import SMGo.Proofs.ISAValArm64ExpandSpec
import SMGo.Proofs.ISAValArm64X2
import SMGo.Proofs.ISAValArm64X8Spec
import SMGo.Proofs.ISAValArm64X16Final
namespace SMGo.Props.C05Arm64
open SMGo
open SMGo.Model.ISAValArm64
open SMGo.Model.ISAVal (lane lanes unlanes Region readMem rotl32)

/-- **The arm64 listing of `cryptoBlockAsm` computes the SM4 block function of the specification** (under the
    unvalidated arm64 semantics of SMGo/Model/ISAValArm64.lean): for every array of 32 round keys (< 2^32), every
    16-byte block, whatever the registers (`g`: R0..R30, `v`: V0..V31) and the destination buffer hold at entry, the
    run of the regenerated listing from its first instruction to RET succeeds and leaves `Spec.SM4.crypt rk src` in
    the destination buffer.  Proved by symbolic execution: the listing decodes to prologue ++ 32 × (key load ++
    `subRoundX4`) ++ epilogue (`x1_decode`, by evaluation). -/
theorem asm_arm64_cryptoBlockAsm_eq_spec (g v rk dst0 src : List Nat)
    (hg : g.length = 31) (hv : v.length = 32) (hrk : rk.length = 32) (hrkb : ∀ x ∈ rk, x < 2 ^ 32)
    (hsrc : src.length = 16) (hsb : ∀ x ∈ src, x < 256) (hdst : dst0.length = 16) :
    runDst Gen.ListArm64Asm.cryptoBlockAsm Gen.ListArm64AsmArr.cryptoBlockAsm_arr (kernelState g v rk dst0 src)
      = .ok ((Spec.SM4.crypt (rk.map (BitVec.ofNat 32)) (src.map UInt8.ofNat)).map (·.toNat)) :=
  Proofs.ISAValArm64.kernelX1_eq_spec g v rk dst0 src hg hv hrk hrkb hsrc hsb hdst

/-- the same called in place (`dst == src`, as `Encrypt(b, b)` does) -/
theorem asm_arm64_cryptoBlockAsm_inplace_eq_spec (g v rk buf : List Nat)
    (hg : g.length = 31) (hv : v.length = 32) (hrk : rk.length = 32) (hrkb : ∀ x ∈ rk, x < 2 ^ 32)
    (hbuf : buf.length = 16) (hsb : ∀ x ∈ buf, x < 256) :
    runDst Gen.ListArm64Asm.cryptoBlockAsm Gen.ListArm64AsmArr.cryptoBlockAsm_arr (kernelStateInPlace g v rk buf)
      = .ok ((Spec.SM4.crypt (rk.map (BitVec.ofNat 32)) (buf.map UInt8.ofNat)).map (·.toNat)) :=
  Proofs.ISAValArm64.kernelX1_inplace_eq_spec g v rk buf hg hv hrk hrkb hbuf hsb

/-- **The arm64 listing of `expandKeyAsm` computes the key schedule of the specification** (under the unvalidated
    arm64 semantics): for every 16-byte key, whatever the registers and the two 32-word destination arrays hold at
    entry, the run of the regenerated listing succeeds, `enc` receives rk_0 … rk_31 and `dec` receives them in
    reverse order.  Symbolic execution: the listing decodes to prologue ++ 32 × `expandSubRound` (`e_decode`). -/
theorem asm_arm64_expandKeyAsm_eq_spec (g v key enc0 dec0 : List Nat)
    (hg : g.length = 31) (hv : v.length = 32)
    (hkey : key.length = 16) (hkb : ∀ x ∈ key, x < 256) (henc : enc0.length = 128) (hdec : dec0.length = 128) :
    runExpandKey (expandKeyState g v key enc0 dec0)
      = .ok ((Spec.SM4.keySchedule (key.map UInt8.ofNat)).map (·.toNat),
             (Spec.SM4.keySchedule (key.map UInt8.ofNat)).reverse.map (·.toNat)) :=
  Proofs.ISAValArm64.expandKey_eq_spec g v key enc0 dec0 hg hv hkey hkb henc hdec

/-- **C05 for the arm64 path of the public API, at the level of the listings**: `NewCipher` runs `expandKeyAsm`,
    `Encrypt` / `Decrypt` run `cryptoBlockAsm` with the `enc` / `dec` array it produced (sm4/sm4_asm.go); the results
    are SM4 encryption and decryption of the specification.  NOT covered: the Go glue around the two routines
    (length checks, pointer passing) and the arm64 instruction semantics themselves, which are an unvalidated
    transcription of the Arm ARM (see the header). -/
theorem C05_asm_arm64 (g v g' v' key enc0 dec0 dst0 src : List Nat)
    (hg : g.length = 31) (hv : v.length = 32) (hg' : g'.length = 31) (hv' : v'.length = 32)
    (hkey : key.length = 16) (hkb : ∀ x ∈ key, x < 256) (henc : enc0.length = 128) (hdec : dec0.length = 128)
    (hsrc : src.length = 16) (hsb : ∀ x ∈ src, x < 256) (hdst : dst0.length = 16) :
    ∃ enc dec, runExpandKey (expandKeyState g v key enc0 dec0) = .ok (enc, dec)
      ∧ runDst Gen.ListArm64Asm.cryptoBlockAsm Gen.ListArm64AsmArr.cryptoBlockAsm_arr (kernelState g' v' enc dst0 src)
          = .ok ((Spec.SM4.encrypt (key.map UInt8.ofNat) (src.map UInt8.ofNat)).map (·.toNat))
      ∧ runDst Gen.ListArm64Asm.cryptoBlockAsm Gen.ListArm64AsmArr.cryptoBlockAsm_arr (kernelState g' v' dec dst0 src)
          = .ok ((Spec.SM4.decrypt (key.map UInt8.ofNat) (src.map UInt8.ofNat)).map (·.toNat)) := by
  refine ⟨_, _, asm_arm64_expandKeyAsm_eq_spec g v key enc0 dec0 hg hv hkey hkb henc hdec, ?_, ?_⟩
  · have hlen : (Spec.SM4.keySchedule (key.map UInt8.ofNat)).length = 32 := Proofs.SM4.keySchedule_length _
    rw [asm_arm64_cryptoBlockAsm_eq_spec g' v' _ dst0 src hg' hv' (by simp [hlen])
      (by intro x hx; simp only [List.mem_map] at hx; obtain ⟨w, _, rfl⟩ := hx; exact w.isLt) hsrc hsb hdst]
    simp [Spec.SM4.encrypt, List.map_map, Function.comp_def]
  · have hlen : (Spec.SM4.keySchedule (key.map UInt8.ofNat)).length = 32 := Proofs.SM4.keySchedule_length _
    rw [asm_arm64_cryptoBlockAsm_eq_spec g' v' _ dst0 src hg' hv' (by simp [hlen])
      (by intro x hx; simp only [List.mem_map] at hx; obtain ⟨w, _, rfl⟩ := hx; exact w.isLt) hsrc hsb hdst]
    simp [Spec.SM4.decrypt, List.map_map, Function.comp_def]

open Proofs.ISAValArm64 in
/-- **The arm64 listing of `cryptoBlockAsmX2` computes two SM4 block functions of the specification**:
    `specBlock rk src e` is `Spec.SM4.crypt rk` of the bytes 16e … 16e+15 of `src` -/
theorem asm_arm64_cryptoBlockAsmX2_eq_spec (g v rk dst0 src : List Nat)
    (hg : g.length = 31) (hv : v.length = 32) (hrk : rk.length = 32) (hrkb : ∀ x ∈ rk, x < 2 ^ 32)
    (hsrc : src.length = 32) (hsb : ∀ x ∈ src, x < 256) (hdst : dst0.length = 32) :
    runDst Gen.ListArm64Asm.cryptoBlockAsmX2 Gen.ListArm64AsmArr.cryptoBlockAsmX2_arr (kernelState g v rk dst0 src)
      = .ok (specBlock rk src 0 ++ specBlock rk src 1) :=
  kernelX2_eq_spec g v rk dst0 src hg hv hrk hrkb hsrc hsb hdst

open Proofs.ISAValArm64 in
/-- **The arm64 listing of `cryptoBlockAsmX4` (LD4 / ST4 transposition) computes four SM4 block functions of the
    specification** -/
theorem asm_arm64_cryptoBlockAsmX4_eq_spec (g v rk dst0 src : List Nat)
    (hg : g.length = 31) (hv : v.length = 32) (hrk : rk.length = 32) (hrkb : ∀ x ∈ rk, x < 2 ^ 32)
    (hsrc : src.length = 64) (hsb : ∀ x ∈ src, x < 256) (hdst : dst0.length = 64) :
    runDst Gen.ListArm64Asm.cryptoBlockAsmX4 Gen.ListArm64AsmArr.cryptoBlockAsmX4_arr (kernelState g v rk dst0 src)
      = .ok (specBlock rk src 0 ++ (specBlock rk src 1 ++ (specBlock rk src 2 ++ specBlock rk src 3))) :=
  kernelX4_eq_spec g v rk dst0 src hg hv hrk hrkb hsrc hsb hdst

open Proofs.ISAValArm64 in
/-- **The arm64 listing of `cryptoBlockAsmX8` (two register sets, interleaved table look-ups) computes eight SM4
    block functions of the specification** -/
theorem asm_arm64_cryptoBlockAsmX8_eq_spec (g v rk dst0 src : List Nat)
    (hg : g.length = 31) (hv : v.length = 32) (hrk : rk.length = 32) (hrkb : ∀ x ∈ rk, x < 2 ^ 32)
    (hsrc : src.length = 128) (hsb : ∀ x ∈ src, x < 256) (hdst : dst0.length = 128) :
    runDst Gen.ListArm64Asm.cryptoBlockAsmX8 Gen.ListArm64AsmArr.cryptoBlockAsmX8_arr (kernelState g v rk dst0 src)
      = .ok ((specBlock rk src 0 ++ (specBlock rk src 1 ++ (specBlock rk src 2 ++ specBlock rk src 3))) ++
             (specBlock rk src 4 ++ (specBlock rk src 5 ++ (specBlock rk src 6 ++ specBlock rk src 7)))) :=
  kernelX8_eq_spec g v rk dst0 src hg hv hrk hrkb hsrc hsb hdst

open Proofs.ISAValArm64 in
/-- **The arm64 listing of `cryptoBlockAsmX16Internal`, called as the Go wrapper `cryptoBlockAsmX16(rk, dst, src)`
    calls it — `tmp` = `dst` (`kernelStateX16Go`: the frame slot `tmp` holds the address of the 256-byte destination),
    `src` a different buffer — computes sixteen SM4 block functions of the specification**: `spec16 rk src` is the
    concatenation of `specBlock rk src e`, e = 0..15.  For all round keys, all 256 source bytes, whatever the
    registers and the destination hold at entry.  Round lemma `sub16_spec` (`subRoundX16`, 102 instructions with six
    reloads and four stashes of 64 bytes), memory invariant `Ready16` (the buffer = the byte images `img` of the
    sixteen state registers), `prologue16_spec`, `epilogue16_spec` (dst[0..127] is overwritten before dst[128..255]
    is reloaded). -/
theorem asm_arm64_cryptoBlockAsmX16_eq_spec (g v rk dst0 src : List Nat)
    (hg : g.length = 31) (hv : v.length = 32) (hrk : rk.length = 32) (hrkb : ∀ x ∈ rk, x < 2 ^ 32)
    (hsrc : src.length = 256) (hsb : ∀ x ∈ src, x < 256) (hdst : dst0.length = 256) :
    runDst Gen.ListArm64Asm.cryptoBlockAsmX16Internal Gen.ListArm64AsmArr.cryptoBlockAsmX16Internal_arr
        (kernelStateX16Go g v rk dst0 src)
      = .ok (spec16 rk src) :=
  kernelX16_eq_spec g v rk dst0 src hg hv hrk hrkb hsrc hsb hdst

open Proofs.ISAValArm64 in
/-- `spec16` unfolded: the sixteen `specBlock`s in order -/
theorem asm_arm64_spec16 (rk src : List Nat) :
    spec16 rk src
      = (specBlock rk src 0 ++ (specBlock rk src 1 ++ (specBlock rk src 2 ++ specBlock rk src 3))) ++
        ((specBlock rk src 4 ++ (specBlock rk src 5 ++ (specBlock rk src 6 ++ specBlock rk src 7))) ++
        ((specBlock rk src 8 ++ (specBlock rk src 9 ++ (specBlock rk src 10 ++ specBlock rk src 11))) ++
         (specBlock rk src 12 ++ (specBlock rk src 13 ++ (specBlock rk src 14 ++ specBlock rk src 15))))) := rfl

open Proofs.ISAValArm64 in
/-- `specBlock` unfolded -/
theorem asm_arm64_specBlock (rk src : List Nat) (e : Nat) :
    specBlock rk src e
      = (Spec.SM4.crypt (rk.map (BitVec.ofNat 32)) (((src.drop (16 * e)).take 16).map UInt8.ofNat)).map (·.toNat) := rfl

open Proofs.ISAValArm64 in
/-- `tableLookupX4` of asm_arm64.s (VSUB CONST; VTBL over V16..V19; VSUB; TBX over V20..V23; VSUB; TBX over V24..V27;
    TBX over V28..V31, with CONST = 0x40 in every byte and V16..V31 = `SBox<>` in memory order) replaces EVERY byte of
    the register by the S-box of the specification -/
theorem asm_arm64_lookup_is_sbox (x j : Nat) (hj : j < 16) :
    lane 8 j
      (vtbx (tableBytes [SBv 12, SBv 13, SBv 14, SBv 15]) (vsubB CONSTv (vsubB CONSTv (vsubB CONSTv x)))
        (vtbx (tableBytes [SBv 8, SBv 9, SBv 10, SBv 11]) (vsubB CONSTv (vsubB CONSTv x))
          (vtbx (tableBytes [SBv 4, SBv 5, SBv 6, SBv 7]) (vsubB CONSTv x)
            (vtbl (tableBytes [SBv 0, SBv 1, SBv 2, SBv 3]) x))))
      = Spec.SM4.sboxAlg (lane 8 j x) :=
  lane8_lookupReg_spec j x hj

open Proofs.ISAValArm64 in
/-- `VSHL $r, X.S4, T.S4; VSRI $(32−r), X.S4, T.S4` leaves every word element of `X` rotated left by `r` in `T` -/
theorem asm_arm64_shl_sri_is_rotl (r i x : Nat) (hi : i < 4) (hr : 0 < r) (hr' : r < 32) :
    lane 32 i (vsriS (32 - r) x (vshlS r x)) = rotl32 r (lane 32 i x) :=
  lane_rot r i x hi hr hr'

open Proofs.ISAValArm64 in
/-- one `subRoundX4(A, B, C, D)` block (23 instructions) is the SM4 round function on every word element `j` of the
    state registers, the round key being element `j` of V12 (`roundF` is `Spec.SM4.roundStep` on numbers:
    `Proofs.ISAVal.toW_stepN`) -/
theorem asm_arm64_subRound (A B C D : Nat)
    (hperm : (A = 0 ∧ B = 1 ∧ C = 2 ∧ D = 3) ∨ (A = 1 ∧ B = 2 ∧ C = 3 ∧ D = 0) ∨
             (A = 2 ∧ B = 3 ∧ C = 0 ∧ D = 1) ∨ (A = 3 ∧ B = 0 ∧ C = 1 ∧ D = 2))
    (s : State) (hV : s.vec.length = 32) (htab : s.vec.drop 15 = tabs) :
    ∃ s', execList (subRoundCode A B C D) s = .ok s' ∧ SubPost A B C D s s' :=
  subRound_spec A B C D hperm s hV htab

open Proofs.ISAValArm64 Proofs.ISAVal in
/-- **the 32 round blocks of `cryptoBlockAsmX2` (`a = S2`, word elements 0,1) and `cryptoBlockAsmX4` (`a = S4`, word
    elements 0..3) compute 32 SM4 rounds on every word element that carries a block**: from a state whose state
    registers V0..V3 carry, in element `j`, the window `X j`, running the 800 instructions `roundsCodeL a 32`
    leaves in element `j` the window after 32 rounds with the round keys read from memory … -/
theorem asm_arm64_rounds_all_lanes (a : Arr) (ha : a = .S4 ∨ a = .S2) (mem : List Region)
    (syms frame : List (String × Nat)) (rkBase dstp : Nat) (kb : Nat → List Nat) (hbase : rkBase + 4 * 32 < 2 ^ 64)
    (hrk : ∀ i, i < 32 → readMem mem (rkBase + 4 * i) 4 = .ok (kb i))
    (hkb : ∀ i, i < 32 → unlanes 8 (kb i) < 2 ^ 32)
    (X : Nat → Nat × Nat × Nat × Nat) (s : State) (h : ReadyL (dupCount a) mem syms frame rkBase dstp 0 X s) :
    ∃ s', execList (roundsCodeL a 32) s = .ok s' ∧
      ReadyL (dupCount a) mem syms frame rkBase dstp 32 (fun j => iterN (fun i => unlanes 8 (kb i)) (X j) 32) s' :=
  readyL_rounds a ha mem syms frame rkBase dstp kb hbase hrk hkb X s h 32 (Nat.le_refl _)

open Proofs.ISAValArm64 in
/-- … and these 800 instructions are, instruction for instruction, what the regenerated listings of
    `cryptoBlockAsmX2` and `cryptoBlockAsmX4` contain between their prologue and their epilogue (by evaluation) -/
theorem asm_arm64_wide_kernels_rounds :
    decodedSlice Gen.ListArm64Asm.cryptoBlockAsmX2 Gen.ListArm64AsmArr.cryptoBlockAsmX2_arr 21 800
        = some (roundsCodeL .S2 32)
    ∧ decodedSlice Gen.ListArm64Asm.cryptoBlockAsmX4 Gen.ListArm64AsmArr.cryptoBlockAsmX4_arr 14 800
        = some (roundsCodeL .S4 32) :=
  wide_kernels_rounds

/-- the translator's specifier lists have one entry per instruction of the corresponding listing -/
theorem asm_arm64_arr_lengths :
    Gen.ListArm64AsmArr.expandKeyAsm_arr.length = Gen.ListArm64Asm.expandKeyAsm.length
    ∧ Gen.ListArm64AsmArr.cryptoBlockAsm_arr.length = Gen.ListArm64Asm.cryptoBlockAsm.length
    ∧ Gen.ListArm64AsmArr.cryptoBlockAsmX2_arr.length = Gen.ListArm64Asm.cryptoBlockAsmX2.length
    ∧ Gen.ListArm64AsmArr.cryptoBlockAsmX4_arr.length = Gen.ListArm64Asm.cryptoBlockAsmX4.length
    ∧ Gen.ListArm64AsmArr.cryptoBlockAsmX8_arr.length = Gen.ListArm64Asm.cryptoBlockAsmX8.length
    ∧ Gen.ListArm64AsmArr.cryptoBlockAsmX16Internal_arr.length = Gen.ListArm64Asm.cryptoBlockAsmX16Internal.length :=
  Proofs.ISAValArm64.arr_lengths

/-- TEST (one input, by evaluation in the kernel): the arm64 listing of `cryptoBlockAsm` on the worked example of
    GB/T 32907 A.1 gives the standard's ciphertext -/
theorem asm_arm64_test_X1_standard :
    runDst Gen.ListArm64Asm.cryptoBlockAsm Gen.ListArm64AsmArr.cryptoBlockAsm_arr
        (kernelState junkG junkV Proofs.ISAValTests.rkStd (List.replicate 16 0) Proofs.ISAValTests.keyStd)
      = .ok [0x68,0x1e,0xdf,0x34,0xd2,0x06,0x96,0x5e,0x86,0xb3,0xe9,0x4f,0x53,0x6e,0x42,0x46] :=
  Proofs.ISAValArm64Tests.test_X1_standard

/-- TEST: the same called in place -/
theorem asm_arm64_test_X1_inplace :
    runDst Gen.ListArm64Asm.cryptoBlockAsm Gen.ListArm64AsmArr.cryptoBlockAsm_arr
        (kernelStateInPlace junkG junkV Proofs.ISAValTests.rkStd Proofs.ISAValTests.keyStd)
      = .ok [0x68,0x1e,0xdf,0x34,0xd2,0x06,0x96,0x5e,0x86,0xb3,0xe9,0x4f,0x53,0x6e,0x42,0x46] :=
  Proofs.ISAValArm64Tests.test_X1_inplace

/-- TESTS (one input each): the arm64 listings of cryptoBlockAsmX2 / X4 / X8 / X16Internal on 2 / 4 / 8 / 16
    pairwise different blocks give the encryptions of the specification (X16Internal with `tmp` = `dst`, as the Go
    wrapper `cryptoBlockAsmX16` calls it) -/
theorem asm_arm64_test_X2_X4_X8_X16 :
    runDst Gen.ListArm64Asm.cryptoBlockAsmX2 Gen.ListArm64AsmArr.cryptoBlockAsmX2_arr
        (kernelState junkG junkV Proofs.ISAValTests.rkStd (List.replicate 32 0) (Proofs.ISAValTests.blocks16.take 32))
      = .ok (Proofs.ISAValTests.specBlocks Proofs.ISAValTests.rkStd (Proofs.ISAValTests.blocks16.take 32))
    ∧ runDst Gen.ListArm64Asm.cryptoBlockAsmX4 Gen.ListArm64AsmArr.cryptoBlockAsmX4_arr
        (kernelState junkG junkV Proofs.ISAValTests.rkStd (List.replicate 64 0) (Proofs.ISAValTests.blocks16.take 64))
      = .ok (Proofs.ISAValTests.specBlocks Proofs.ISAValTests.rkStd (Proofs.ISAValTests.blocks16.take 64))
    ∧ runDst Gen.ListArm64Asm.cryptoBlockAsmX8 Gen.ListArm64AsmArr.cryptoBlockAsmX8_arr
        (kernelState junkG junkV Proofs.ISAValTests.rkStd (List.replicate 128 0) (Proofs.ISAValTests.blocks16.take 128))
      = .ok (Proofs.ISAValTests.specBlocks Proofs.ISAValTests.rkStd (Proofs.ISAValTests.blocks16.take 128))
    ∧ runDst Gen.ListArm64Asm.cryptoBlockAsmX16Internal Gen.ListArm64AsmArr.cryptoBlockAsmX16Internal_arr
        (kernelStateX16Go junkG junkV Proofs.ISAValTests.rkStd (List.replicate 256 0) Proofs.ISAValTests.blocks16)
      = .ok (Proofs.ISAValTests.specBlocks Proofs.ISAValTests.rkStd Proofs.ISAValTests.blocks16) :=
  ⟨Proofs.ISAValArm64Tests.test_X2, Proofs.ISAValArm64Tests.test_X4, Proofs.ISAValArm64Tests.test_X8, Proofs.ISAValArm64Tests.test_X16⟩

/-- TEST: the arm64 listing of `expandKeyAsm` on the example key of GB/T 32907 A.1 gives the round keys of the
    specification (= those printed in the standard), forwards in `enc` and backwards in `dec` -/
theorem asm_arm64_test_expandKey :
    runExpandKey (expandKeyState junkG junkV Proofs.ISAValTests.keyStd (List.replicate 128 0) (List.replicate 128 0))
      = .ok (((Spec.SM4.keySchedule (Proofs.ISAValTests.keyStd.map UInt8.ofNat)).map (·.toNat)),
             ((Spec.SM4.keySchedule (Proofs.ISAValTests.keyStd.map UInt8.ofNat)).reverse.map (·.toNat))) :=
  Proofs.ISAValArm64Tests.test_expandKey_spec

/-! ### non-vacuity: every headline theorem instantiated on a concrete entry state -/

section NonVacuity
set_option maxRecDepth 100000

example : runDst Gen.ListArm64Asm.cryptoBlockAsm Gen.ListArm64AsmArr.cryptoBlockAsm_arr
      (kernelState junkG junkV Proofs.ISAValTests.rkStd (List.replicate 16 0) Proofs.ISAValTests.keyStd)
    = .ok ((Spec.SM4.crypt (Proofs.ISAValTests.rkStd.map (BitVec.ofNat 32)) (Proofs.ISAValTests.keyStd.map UInt8.ofNat)).map (·.toNat)) :=
  asm_arm64_cryptoBlockAsm_eq_spec junkG junkV Proofs.ISAValTests.rkStd (List.replicate 16 0) Proofs.ISAValTests.keyStd (by decide) (by decide) (by decide)
    (by decide) (by decide) (by decide) (by decide)

example : runDst Gen.ListArm64Asm.cryptoBlockAsm Gen.ListArm64AsmArr.cryptoBlockAsm_arr
      (kernelStateInPlace junkG junkV Proofs.ISAValTests.rkStd Proofs.ISAValTests.keyStd)
    = .ok ((Spec.SM4.crypt (Proofs.ISAValTests.rkStd.map (BitVec.ofNat 32)) (Proofs.ISAValTests.keyStd.map UInt8.ofNat)).map (·.toNat)) :=
  asm_arm64_cryptoBlockAsm_inplace_eq_spec junkG junkV Proofs.ISAValTests.rkStd Proofs.ISAValTests.keyStd (by decide) (by decide) (by decide) (by decide)
    (by decide) (by decide)

example : runExpandKey (expandKeyState junkG junkV Proofs.ISAValTests.keyStd (List.replicate 128 0) (List.replicate 128 0))
    = .ok ((Spec.SM4.keySchedule (Proofs.ISAValTests.keyStd.map UInt8.ofNat)).map (·.toNat),
           (Spec.SM4.keySchedule (Proofs.ISAValTests.keyStd.map UInt8.ofNat)).reverse.map (·.toNat)) :=
  asm_arm64_expandKeyAsm_eq_spec junkG junkV Proofs.ISAValTests.keyStd _ _ (by decide) (by decide) (by decide) (by decide) (by decide)
    (by decide)

example : ∃ enc dec, runExpandKey (expandKeyState junkG junkV Proofs.ISAValTests.keyStd (List.replicate 128 0) (List.replicate 128 0))
      = .ok (enc, dec)
    ∧ runDst Gen.ListArm64Asm.cryptoBlockAsm Gen.ListArm64AsmArr.cryptoBlockAsm_arr
        (kernelState junkG junkV enc (List.replicate 16 0) Proofs.ISAValTests.keyStd)
      = .ok ((Spec.SM4.encrypt (Proofs.ISAValTests.keyStd.map UInt8.ofNat) (Proofs.ISAValTests.keyStd.map UInt8.ofNat)).map (·.toNat))
    ∧ runDst Gen.ListArm64Asm.cryptoBlockAsm Gen.ListArm64AsmArr.cryptoBlockAsm_arr
        (kernelState junkG junkV dec (List.replicate 16 0) Proofs.ISAValTests.keyStd)
      = .ok ((Spec.SM4.decrypt (Proofs.ISAValTests.keyStd.map UInt8.ofNat) (Proofs.ISAValTests.keyStd.map UInt8.ofNat)).map (·.toNat)) :=
  C05_asm_arm64 junkG junkV junkG junkV Proofs.ISAValTests.keyStd _ _ _ Proofs.ISAValTests.keyStd (by decide) (by decide) (by decide) (by decide) (by decide)
    (by decide) (by decide) (by decide) (by decide) (by decide) (by decide)

open Proofs.ISAValArm64 in
example : runDst Gen.ListArm64Asm.cryptoBlockAsmX2 Gen.ListArm64AsmArr.cryptoBlockAsmX2_arr
      (kernelState junkG junkV Proofs.ISAValTests.rkStd (List.replicate 32 0) (Proofs.ISAValTests.blocks16.take 32))
    = .ok (specBlock Proofs.ISAValTests.rkStd (Proofs.ISAValTests.blocks16.take 32) 0 ++ specBlock Proofs.ISAValTests.rkStd (Proofs.ISAValTests.blocks16.take 32) 1) :=
  asm_arm64_cryptoBlockAsmX2_eq_spec junkG junkV Proofs.ISAValTests.rkStd _ _ (by decide) (by decide) (by decide) (by decide) (by decide)
    (by decide) (by decide)

open Proofs.ISAValArm64 in
example : runDst Gen.ListArm64Asm.cryptoBlockAsmX4 Gen.ListArm64AsmArr.cryptoBlockAsmX4_arr
      (kernelState junkG junkV Proofs.ISAValTests.rkStd (List.replicate 64 0) (Proofs.ISAValTests.blocks16.take 64))
    = .ok (specBlock Proofs.ISAValTests.rkStd (Proofs.ISAValTests.blocks16.take 64) 0 ++ (specBlock Proofs.ISAValTests.rkStd (Proofs.ISAValTests.blocks16.take 64) 1
        ++ (specBlock Proofs.ISAValTests.rkStd (Proofs.ISAValTests.blocks16.take 64) 2 ++ specBlock Proofs.ISAValTests.rkStd (Proofs.ISAValTests.blocks16.take 64) 3))) :=
  asm_arm64_cryptoBlockAsmX4_eq_spec junkG junkV Proofs.ISAValTests.rkStd _ _ (by decide) (by decide) (by decide) (by decide) (by decide)
    (by decide) (by decide)

open Proofs.ISAValArm64 in
example : runDst Gen.ListArm64Asm.cryptoBlockAsmX8 Gen.ListArm64AsmArr.cryptoBlockAsmX8_arr
      (kernelState junkG junkV Proofs.ISAValTests.rkStd (List.replicate 128 0) (Proofs.ISAValTests.blocks16.take 128))
    = .ok ((specBlock Proofs.ISAValTests.rkStd (Proofs.ISAValTests.blocks16.take 128) 0 ++ (specBlock Proofs.ISAValTests.rkStd (Proofs.ISAValTests.blocks16.take 128) 1 ++ (specBlock Proofs.ISAValTests.rkStd (Proofs.ISAValTests.blocks16.take 128) 2 ++ specBlock Proofs.ISAValTests.rkStd (Proofs.ISAValTests.blocks16.take 128) 3))) ++
        (specBlock Proofs.ISAValTests.rkStd (Proofs.ISAValTests.blocks16.take 128) 4 ++ (specBlock Proofs.ISAValTests.rkStd (Proofs.ISAValTests.blocks16.take 128) 5 ++ (specBlock Proofs.ISAValTests.rkStd (Proofs.ISAValTests.blocks16.take 128) 6 ++ specBlock Proofs.ISAValTests.rkStd (Proofs.ISAValTests.blocks16.take 128) 7)))) :=
  asm_arm64_cryptoBlockAsmX8_eq_spec junkG junkV Proofs.ISAValTests.rkStd _ _ (by decide) (by decide) (by decide) (by decide) (by decide)
    (by decide) (by decide)

open Proofs.ISAValArm64 in
example : runDst Gen.ListArm64Asm.cryptoBlockAsmX16Internal Gen.ListArm64AsmArr.cryptoBlockAsmX16Internal_arr
      (kernelStateX16Go junkG junkV Proofs.ISAValTests.rkStd (List.replicate 256 0) Proofs.ISAValTests.blocks16)
    = .ok (spec16 Proofs.ISAValTests.rkStd Proofs.ISAValTests.blocks16) :=
  asm_arm64_cryptoBlockAsmX16_eq_spec junkG junkV Proofs.ISAValTests.rkStd _ _ (by decide) (by decide) (by decide) (by decide) (by decide)
    (by decide) (by decide)

end NonVacuity

end SMGo.Props.C05Arm64

#print axioms SMGo.Props.C05Arm64.asm_arm64_cryptoBlockAsm_eq_spec
#print axioms SMGo.Props.C05Arm64.asm_arm64_cryptoBlockAsm_inplace_eq_spec
#print axioms SMGo.Props.C05Arm64.asm_arm64_expandKeyAsm_eq_spec
#print axioms SMGo.Props.C05Arm64.C05_asm_arm64
#print axioms SMGo.Props.C05Arm64.asm_arm64_cryptoBlockAsmX2_eq_spec
#print axioms SMGo.Props.C05Arm64.asm_arm64_cryptoBlockAsmX4_eq_spec
#print axioms SMGo.Props.C05Arm64.asm_arm64_cryptoBlockAsmX8_eq_spec
#print axioms SMGo.Props.C05Arm64.asm_arm64_cryptoBlockAsmX16_eq_spec
#print axioms SMGo.Props.C05Arm64.asm_arm64_spec16
#print axioms SMGo.Props.C05Arm64.asm_arm64_specBlock
#print axioms SMGo.Props.C05Arm64.asm_arm64_lookup_is_sbox
#print axioms SMGo.Props.C05Arm64.asm_arm64_shl_sri_is_rotl
#print axioms SMGo.Props.C05Arm64.asm_arm64_subRound
#print axioms SMGo.Props.C05Arm64.asm_arm64_rounds_all_lanes
#print axioms SMGo.Props.C05Arm64.asm_arm64_wide_kernels_rounds
#print axioms SMGo.Props.C05Arm64.asm_arm64_arr_lengths
#print axioms SMGo.Props.C05Arm64.asm_arm64_test_X1_standard
#print axioms SMGo.Props.C05Arm64.asm_arm64_test_X1_inplace
#print axioms SMGo.Props.C05Arm64.asm_arm64_test_X2_X4_X8_X16
#print axioms SMGo.Props.C05Arm64.asm_arm64_test_expandKey
