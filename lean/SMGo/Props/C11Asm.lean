/-
  C11 (memory safety) and C10 (inputs unmodified) for the amd64 MACHINE CODE of the fused GCM routines, as
  corollaries of the functional theorems over the REGENERATED listings (Props/C06AsmSeal.lean, Props/C07Asm.lean).

  The value interpreter of Model/ISAVal.lean has no silent memory: the entry states `sealState` / `openState`
  (Model/ISAValGcm.lean) give every pointer argument a region of EXACTLY the size the Go caller owns —
  round keys 128 bytes, nonce |nonce|, text |text|, additional data |aad|, destination |pt|+t resp. |dst|, scratch 32 —
  and mark round keys, nonce, input text and additional data READ-ONLY.  `readMem` / `writeMem` answer an ERROR for

    * an access below the first region or outside every region (nil / wild pointer),
    * a read or write that crosses the end of its region (`read_past_region_errors`, `write_past_region_errors`),
    * any write to a read-only region (`write_readonly_errors`),

  and `run` propagates every error.  So "the run returns `.ok`" says: for these inputs EVERY access of EVERY executed
  instruction stayed inside the bytes the caller owns, and nothing was stored anywhere but in the destination and the
  scratch block.  The theorems below state exactly that, for ALL round keys, nonces of any length, texts and additional
  data (below 2^32 bytes each, the interpreter's region size), tag sizes up to 16, any initial register and buffer
  contents — and for Seal also in place (`sealAsm_inplace_memory_safe`; for Open in place see `C07Asm.openAsm_inplace_eq_spec`, whose `.ok` conclusion says the same).  This replaces, for `sealAsm` and `openAsm`, the bounded computational tie
  between the listing and the hand-written access model of Props/C11.lean by a statement for all lengths, and gives
  "Seal/Open do not modify nonce, input, additional data or key" for the machine code (the pre-repair `openAsm`, which
  XORed into the ciphertext — finding G — is an error under this semantics).

  Not covered here: alignment, paging, the stack, the Go runtime; the Go glue (C10, C09Glue); arm64.
-/
import SMGo.Props.C06AsmSeal
import SMGo.Props.C07Asm
namespace SMGo.Props.C11Asm
open SMGo
open SMGo.Model.ISAVal SMGo.Model.GCM SMGo.Spec.GCM
open SMGo.Proofs.ISAVal

/-! ### the interpreter's memory rules (by definition) -/

/-- a write to a read-only region is an error, whatever is written -/
theorem write_readonly_errors (mem : List Region) (r off : Nat) (reg : Region) (bs : List Nat)
    (hr : mem[r]? = some reg) (hro : reg.writable = false) (hoff : off < 2 ^ 32) :
    writeMem mem ((r + 1) * 2 ^ 32 + off) bs = .error ("write to read-only region " ++ reg.name) := by
  have h1 : ((r + 1) * 2 ^ 32 + off) / 2 ^ 32 = r + 1 := by
    rw [Nat.add_comm, Nat.add_mul_div_right _ _ (by decide : 0 < 2 ^ 32), Nat.div_eq_of_lt hoff]; omega
  simp [writeMem, h1, hr, hro]

/-- a write that crosses the end of its (writable) region is an error -/
theorem write_past_region_errors (mem : List Region) (r off : Nat) (reg : Region) (bs : List Nat)
    (hr : mem[r]? = some reg) (hw : reg.writable = true) (hoff : off < 2 ^ 32)
    (hpast : reg.bytes.length < off + bs.length) :
    writeMem mem ((r + 1) * 2 ^ 32 + off) bs = .error ("write past the end of region " ++ reg.name) := by
  have h1 : ((r + 1) * 2 ^ 32 + off) / 2 ^ 32 = r + 1 := by
    rw [Nat.add_comm, Nat.add_mul_div_right _ _ (by decide : 0 < 2 ^ 32), Nat.div_eq_of_lt hoff]; omega
  have h2 : ((r + 1) * 2 ^ 32 + off) % 2 ^ 32 = off := by
    rw [Nat.add_comm, Nat.add_mul_mod_self_right, Nat.mod_eq_of_lt hoff]
  have h3 : ¬ off + bs.length ≤ reg.bytes.length := by omega
  simp [writeMem, h1, h2, hr, hw, h3]

/-- a read that crosses the end of its region is an error -/
theorem read_past_region_errors (mem : List Region) (r off n : Nat) (reg : Region)
    (hr : mem[r]? = some reg) (hoff : off < 2 ^ 32) (hpast : reg.bytes.length < off + n) :
    readMem mem ((r + 1) * 2 ^ 32 + off) n = .error ("read past the end of region " ++ reg.name) := by
  have h1 : ((r + 1) * 2 ^ 32 + off) / 2 ^ 32 = r + 1 := by
    rw [Nat.add_comm, Nat.add_mul_div_right _ _ (by decide : 0 < 2 ^ 32), Nat.div_eq_of_lt hoff]; omega
  have h2 : ((r + 1) * 2 ^ 32 + off) % 2 ^ 32 = off := by
    rw [Nat.add_comm, Nat.add_mul_mod_self_right, Nat.mod_eq_of_lt hoff]
  have h3 : ¬ off + n ≤ reg.bytes.length := by omega
  simp [readMem, h1, h2, hr, h3]

/-- the regions of the entry states: exact sizes; key, nonce, input and additional data read-only -/
theorem entry_regions (rk dst nonce inp aad tmp : List Nat) (name : String) :
    (gcmRegions name false rk dst nonce inp aad tmp).map (fun r => (r.name, r.bytes.length, r.writable))
      = [("rk", (wordsMem rk).length, false), ("dst", dst.length, true), ("nonce", nonce.length, false),
         (name, inp.length, false), ("aData", aad.length, false), ("tmp", tmp.length, true)] := rfl

/-! ### the runs of the fused routines never leave the caller's bytes -/

/-- **sealAsm is memory safe and writes only dst and scratch, for all inputs** -/
theorem sealAsm_memory_safe (g v k rk : List Nat) (t : Nat) (dst nonce pt aad tmp : List Nat)
    (hG : g.length = 16) (hV : v.length = 32) (hK : k.length = 8) (hrk : rk.length = 32) (hrkb : ∀ x ∈ rk, x < 2 ^ 32)
    (hnl : nonce.length < 2 ^ 32) (hnb : ∀ x ∈ nonce, x < 2 ^ 8) (hab : ∀ x ∈ aad, x < 2 ^ 8) (hall : aad.length < 2 ^ 32)
    (hpb : ∀ x ∈ pt, x < 2 ^ 8) (hpl : pt.length < 2 ^ 32) (ht : t ≤ 16) (hdl : dst.length = pt.length + t) (hdl32 : dst.length < 2 ^ 32)
    (htmp : tmp.length = 32) (fuel : Nat)
    (hfuel : 34 * (nonce.length / 16) + 34 * (aad.length / 16) + 700 * (pt.length / 256) + 6500 < fuel) :
    ∃ out, runSeal fuel (sealState g v k rk t dst nonce pt aad tmp) = .ok out ∧ out.length = pt.length + t := by
  refine ⟨_, C06AsmSeal.sealAsm_eq_spec g v k rk t dst nonce pt aad tmp hG hV hK hrk hrkb hnl hnb hab hall hpb hpl ht hdl hdl32
    htmp fuel hfuel, ?_⟩
  rw [List.length_map, Proofs.GCM.sealGCM_length (encE_length rk) ht, toB_length]

/-- **openAsm is memory safe, writes only dst and scratch, and leaves dst untouched when it refuses** -/
theorem openAsm_memory_safe (g v k rk : List Nat) (t : Nat) (dst nonce ct aad tmp : List Nat) (r0 : Nat)
    (hG : g.length = 16) (hV : v.length = 32) (hK : k.length = 8) (hrk : rk.length = 32) (hrkb : ∀ x ∈ rk, x < 2 ^ 32)
    (hnl : nonce.length < 2 ^ 32) (hnb : ∀ x ∈ nonce, x < 2 ^ 8) (hab : ∀ x ∈ aad, x < 2 ^ 8) (hall : aad.length < 2 ^ 32)
    (hcb : ∀ x ∈ ct, x < 2 ^ 8) (hcl : ct.length < 2 ^ 32) (ht : t ≤ 16) (htc : t ≤ ct.length) (htmp : tmp.length = 32)
    (hdl : ct.length - t ≤ dst.length) (hdl32 : dst.length < 2 ^ 32) (fuel : Nat)
    (hfuel : 34 * (nonce.length / 16) + 34 * (aad.length / 16) + 34 * ((ct.length - t) / 16) + 700 * ((ct.length - t) / 256) + 7000 < fuel) :
    ∃ verdict out, runOpen fuel (openState g v k rk t dst nonce ct aad tmp r0) = .ok (verdict, out) ∧
      (verdict = 0 → out = dst) ∧ (verdict = 0 ∨ verdict = 1) := by
  have h := C07Asm.openAsm_eq_spec g v k rk t dst nonce ct aad tmp r0 hG hV hK hrk hrkb hnl hnb hab hall hcb hcl ht htc htmp
    hdl hdl32 fuel hfuel
  cases hO : openGCM (encE rk) t (toB nonce) (toB ct) (toB aad) with
  | none => rw [hO] at h; exact ⟨0, dst, h, fun _ => rfl, Or.inl rfl⟩
  | some p => rw [hO] at h; exact ⟨1, _, h, fun h0 => absurd h0 (by decide), Or.inr rfl⟩

/-- **sealAsm called in place** (dst = the plaintext's own array): memory safe, only that array and the scratch written -/
theorem sealAsm_inplace_memory_safe (g v k rk : List Nat) (t : Nat) (pt tl nonce ur aad tmp : List Nat)
    (hG : g.length = 16) (hV : v.length = 32) (hK : k.length = 8) (hrk : rk.length = 32) (hrkb : ∀ x ∈ rk, x < 2 ^ 32)
    (hnl : nonce.length < 2 ^ 32) (hnb : ∀ x ∈ nonce, x < 2 ^ 8) (hab : ∀ x ∈ aad, x < 2 ^ 8) (hall : aad.length < 2 ^ 32)
    (hpb : ∀ x ∈ pt, x < 2 ^ 8) (ht : t ≤ 16) (htl : tl.length = t) (hdl32 : pt.length + t < 2 ^ 32)
    (htmp : tmp.length = 32) (hur : ur.length < 2 ^ 32) (fuel : Nat)
    (hfuel : 34 * (nonce.length / 16) + 34 * (aad.length / 16) + 700 * (pt.length / 256) + 6500 < fuel) :
    ∃ out, runSeal fuel (sealStateInPlace g v k rk t pt tl nonce ur aad tmp) = .ok out ∧ out.length = pt.length + t := by
  refine ⟨_, C06AsmSeal.sealAsm_inplace_eq_spec g v k rk t pt tl nonce ur aad tmp hG hV hK hrk hrkb hnl hnb hab hall hpb ht htl
    hdl32 htmp hur fuel hfuel, ?_⟩
  rw [List.length_map, Proofs.GCM.sealGCM_length (encE_length rk) ht, toB_length]

end SMGo.Props.C11Asm

#print axioms SMGo.Props.C11Asm.write_readonly_errors
#print axioms SMGo.Props.C11Asm.write_past_region_errors
#print axioms SMGo.Props.C11Asm.read_past_region_errors
#print axioms SMGo.Props.C11Asm.entry_regions
#print axioms SMGo.Props.C11Asm.sealAsm_memory_safe
#print axioms SMGo.Props.C11Asm.openAsm_memory_safe
#print axioms SMGo.Props.C11Asm.sealAsm_inplace_memory_safe
