/-
  C11 — memory safety of the assembly routines and of the Block/AEAD entry points (amd64).  PARTIAL.

  "No operation reads or writes memory outside the byte ranges of its arguments and its own objects, for every
   input length and alignment, even when an argument ends exactly at the end of mapped memory.  Arguments too
   short for the operation cause a panic or an error, never a silent out-of-range read or write."

  What is proved here, and how the pieces fit:

  (1) UNBOUNDED, about the hand-written access models (`SMGo.Model.AsmAccessModel`): `inBounds_<routine>` —
      for ALL lengths (natural numbers) and 12 ≤ tagSize ≤ 16 every access `(region, offset, width, r|w)` of
      the model lies inside its region: argument `[0,len)`, round keys `[0,128)`, scratch `[0,32)`, dst
      `[0,len+tagSize)` (seal) / `[0,len−tagSize)` (open), read-only symbols inside their GLOBL sizes.
  (2) BOUNDED, computational (`decide +kernel`, no native code): `listing_matches_model_<routine>` — for every
      case of a finite list (ranges in `SMGo.Proofs.AsmAccessCases`: plaintext 0..303, aad 0..161, nonce 0..40
      and six longer ones, tags 12..16, some lengths up to 1100, both outcomes of the tag comparison) the address
      interpreter (`SMGo.Model.AsmAccess`) run on the GENERATED listing of the current /repo assembly produces
      EXACTLY the model's access list (same order, same multiplicities).  This is a check on finitely many
      inputs, not a proof for all lengths; the statement for all lengths is (1), about the model.
  (3) `listing_inBounds_*`: (1) and (2) combined — on the evaluated cases every access of the LISTING is in
      bounds.
  (4) Go level: `short_block_panics`, `block_accesses_16`, `open_short_ciphertext_errs` on a small model of the
      repaired methods.
  (5) a negative control: the interpreter flags the pre-repair pattern (16-byte load with 1..15 bytes left).

  NOT modelled: paging, alignment faults, the Go runtime and stack, vector register contents, arm64 (no arm64
  interpreter: missing).  The runtime half of the tie is the guard-page harness /verif/go/cmd/harness/c11.go.
  Observation recorded below: gHashBlocks (amd64; unused by the library on amd64) reads one block for count = 0.
-/
import SMGo.Proofs.AsmAccessBounds
import SMGo.Proofs.AsmAccessTieSeal1
import SMGo.Proofs.AsmAccessTieSeal2
import SMGo.Proofs.AsmAccessTieSeal3
import SMGo.Proofs.AsmAccessTieSeal4
import SMGo.Proofs.AsmAccessTieOpen1
import SMGo.Proofs.AsmAccessTieOpen2
import SMGo.Proofs.AsmAccessTieOpen3
import SMGo.Proofs.AsmAccessTieOpen4
import SMGo.Proofs.AsmAccessTieOpen5
import SMGo.Proofs.AsmAccessTieOpen6
import SMGo.Proofs.AsmAccessTieMisc

namespace SMGo.Props.C11
open SMGo.Model.ISA SMGo.Model.AsmAccess SMGo.Model.AsmAccessModel SMGo.Gen
open SMGo.Proofs.AsmAccessProgs SMGo.Proofs.AsmAccessCases SMGo.Proofs.AsmAccessBounds SMGo.Proofs.AsmAccessTie

/-! ## (1) Unbounded: the models stay inside the arguments -/

theorem inBounds_sealAsm (tagSize nl pl al : Nat) (h12 : 12 ≤ tagSize) (h16 : tagSize ≤ 16) :
    ∀ a ∈ sealModel tagSize nl pl al, a.inBounds (sealSize tagSize nl pl al) :=
  (sealModel_in tagSize nl pl al h12 h16).all

/-- `cl` = len(ciphertext) ≥ tagSize (checked by Open before the call); either outcome of the tag comparison -/
theorem inBounds_openAsm (tagSize nl cl al : Nat) (tagOk : Bool) (h12 : 12 ≤ tagSize) (h16 : tagSize ≤ 16)
    (hcl : tagSize ≤ cl) :
    ∀ a ∈ openModel tagSize nl cl al tagOk, a.inBounds (openSize tagSize nl cl al) :=
  (openModel_in tagSize nl cl al tagOk h12 h16 hcl).all

/-- data = 16·count bytes, count ≥ 1 -/
theorem inBounds_gHashBlocks (count : Nat) (h : 1 ≤ count) :
    ∀ a ∈ gHashModel count, a.inBounds (gHashSize count) := (gHashModel_in count h).all

theorem inBounds_copyAsm (len : Nat) : ∀ a ∈ copyModel len, a.inBounds (copySize len) := (copyModel_in len).all

theorem inBounds_needExpand (size : Region → Nat) : ∀ a ∈ needExpandModel, a.inBounds size :=
  (needExpandModel_in size).all

/-- key 16 bytes, enc and dec 128 bytes each -/
theorem inBounds_expandKeyAsm : ∀ a ∈ expandKeyModel, a.inBounds expandKeySize := expandKeyModel_in.all

/-- rk 128 bytes, dst and src 16 bytes -/
theorem inBounds_cryptoBlockAsm : ∀ a ∈ blockModel, a.inBounds (blockSize 1) := blockModel_in.all
theorem inBounds_cryptoBlockAsmX2 : ∀ a ∈ blockX2Model, a.inBounds (blockSize 2) := blockX2Model_in.all
theorem inBounds_cryptoBlockAsmX4 : ∀ a ∈ blockX4Model, a.inBounds (blockSize 4) := blockX4Model_in.all
theorem inBounds_cryptoBlockAsmX8 : ∀ a ∈ blockX8Model, a.inBounds (blockSize 8) := blockX8Model_in.all
theorem inBounds_cryptoBlockAsmX16 : ∀ a ∈ blockX16Model, a.inBounds (blockSize 16) := blockX16Model_in.all

/-- helpers of helper_amd64.s that the library does not call (contracts: 64-byte buffers; concatenateX writes
    64 bytes at x1; constantTimeCompareAsm x, y of l bytes) -/
theorem inBounds_transpose : ∀ a ∈ transposeModel, a.inBounds transposeSize := transposeModel_in.all
theorem inBounds_concatenateX : ∀ a ∈ concatXModel, a.inBounds concatXSize := concatXModel_in.all
theorem inBounds_concatenateY : ∀ a ∈ concatYModel, a.inBounds transposeSize := concatYModel_in.all
theorem inBounds_constantTimeCompareAsm (l : Nat) : ∀ a ∈ ctCompareModel l, a.inBounds (copySize l) :=
  (ctCompareModel_in l).all

/-! ## (2) Bounded: the generated listings make exactly the accesses of the models -/

theorem sealCases_ok : sealCases.all sealCheck = true := by
  unfold sealCases
  exact all_append_of (all_append_of (all_append_of (all_append_of (all_append_of (all_append_of (all_append_of
    (all_append_of seal_pl0 seal_pl1) seal_pl2) seal_pl3) seal_aad0) seal_aad1) seal_nonce) seal_tag) seal_big

theorem openCases_ok : openCases.all openCheck = true := by
  unfold openCases
  exact all_append_of (all_append_of (all_append_of (all_append_of (all_append_of (all_append_of (all_append_of
    (all_append_of (all_append_of (all_append_of (all_append_of (all_append_of (all_append_of (all_append_of
    open_pl0 open_pl1) open_pl2) open_pl3) open_plBad0) open_plBad1) open_plBad2) open_plBad3) open_aad0)
    open_aad1) open_nonce) open_tagT) open_tagF) open_bigT) open_bigF

/-- BOUNDED CHECK (598 cases, see `AsmAccessCases`): on the generated listing of sealAsm the interpreter's access
    list equals the model's. -/
theorem listing_matches_model_sealAsm : ∀ c ∈ sealCases,
    accesses (compile symNames ListAmd64Gcm.sealAsm) (sealFrame c.tag c.nl c.len c.al)
      ListAmd64Gcm.sealAsm_argBytes [] fuel = .ok (sealModel c.tag c.nl c.len c.al) := by
  intro c hc
  rw [← sealProg_eq]
  exact matchesModel_eq (of_all sealCases_ok c hc)

/-- BOUNDED CHECK (987 cases): openAsm with ciphertext length `len + tag`; the single data-dependent branch
    (`JNE tagUnMatch`) is decided by `c.ok`, both outcomes are in the list. -/
theorem listing_matches_model_openAsm : ∀ c ∈ openCases,
    accesses (compile symNames ListAmd64Gcm.openAsm) (openFrame c.tag c.nl (c.len + c.tag) c.al)
      ListAmd64Gcm.openAsm_argBytes [!c.ok] fuel = .ok (openModel c.tag c.nl (c.len + c.tag) c.al c.ok) := by
  intro c hc
  rw [← openProg_eq]
  exact matchesModel_eq (of_all openCases_ok c hc)

/-- BOUNDED CHECK: gHashBlocks, count 0..40 -/
theorem listing_matches_model_gHashBlocks : ∀ count, count < 41 →
    accesses (compile symNames ListAmd64Gcm.gHashBlocks) (gHashFrame count)
      ListAmd64Gcm.gHashBlocks_argBytes [] fuel = .ok (gHashModel count) := by
  intro n hn
  rw [← gHashProg_eq]
  exact matchesModel_eq (of_all gHash_all n (List.mem_range.mpr hn))

/-- BOUNDED CHECK: copyAsm, len 0..100 -/
theorem listing_matches_model_copyAsm : ∀ len, len < 101 →
    accesses (compile symNames ListAmd64Helper.copyAsm) (copyFrame len)
      ListAmd64Helper.copyAsm_argBytes [] fuel = .ok (copyModel len) := by
  intro n hn
  rw [← copyProg_eq]
  exact matchesModel_eq (of_all copy_all n (List.mem_range.mpr hn))

/-- BOUNDED CHECK: constantTimeCompareAsm, l 0..40 -/
theorem listing_matches_model_constantTimeCompareAsm : ∀ l, l < 41 →
    accesses (compile symNames ListAmd64Helper.constantTimeCompareAsm) (ctCompareFrame l)
      ListAmd64Helper.constantTimeCompareAsm_argBytes [] fuel = .ok (ctCompareModel l) := by
  intro n hn
  rw [← ctCompareProg_eq]
  exact matchesModel_eq (of_all ctCompare_all n (List.mem_range.mpr hn))

theorem fixed_ok (c : Prog × List (Nat × Val) × Nat × List Access) (hc : c ∈ fixedCases) :
    accesses c.1 c.2.1 c.2.2.1 [] fuel = .ok c.2.2.2 :=
  matchesModel_eq (of_all fixed_all c hc)

/-- the routines without integer arguments: one run each (straight-line code) -/
theorem listing_matches_model_expandKeyAsm :
    accesses (compile symNames ListAmd64Asm.expandKeyAsm) kernelFrame ListAmd64Asm.expandKeyAsm_argBytes [] fuel
      = .ok expandKeyModel := by
  rw [← expandKeyProg_eq]
  exact fixed_ok (expandKeyProg, kernelFrame, ListAmd64Asm.expandKeyAsm_argBytes, expandKeyModel) (by simp [fixedCases])

theorem listing_matches_model_cryptoBlockAsm :
    accesses (compile symNames ListAmd64Asm.cryptoBlockAsm) kernelFrame ListAmd64Asm.cryptoBlockAsm_argBytes []
      fuel = .ok blockModel := by
  rw [← blockProg_eq]
  exact fixed_ok (blockProg, kernelFrame, ListAmd64Asm.cryptoBlockAsm_argBytes, blockModel) (by simp [fixedCases])

theorem listing_matches_model_cryptoBlockAsmX2 :
    accesses (compile symNames ListAmd64Asm.cryptoBlockAsmX2) kernelFrame ListAmd64Asm.cryptoBlockAsmX2_argBytes []
      fuel = .ok blockX2Model := by
  rw [← blockX2Prog_eq]
  exact fixed_ok (blockX2Prog, kernelFrame, ListAmd64Asm.cryptoBlockAsmX2_argBytes, blockX2Model) (by simp [fixedCases])

theorem listing_matches_model_cryptoBlockAsmX4 :
    accesses (compile symNames ListAmd64Asm.cryptoBlockAsmX4) kernelFrame ListAmd64Asm.cryptoBlockAsmX4_argBytes []
      fuel = .ok blockX4Model := by
  rw [← blockX4Prog_eq]
  exact fixed_ok (blockX4Prog, kernelFrame, ListAmd64Asm.cryptoBlockAsmX4_argBytes, blockX4Model) (by simp [fixedCases])

theorem listing_matches_model_cryptoBlockAsmX8 :
    accesses (compile symNames ListAmd64Asm.cryptoBlockAsmX8) kernelFrame ListAmd64Asm.cryptoBlockAsmX8_argBytes []
      fuel = .ok blockX8Model := by
  rw [← blockX8Prog_eq]
  exact fixed_ok (blockX8Prog, kernelFrame, ListAmd64Asm.cryptoBlockAsmX8_argBytes, blockX8Model) (by simp [fixedCases])

theorem listing_matches_model_cryptoBlockAsmX16 :
    accesses (compile symNames ListAmd64Asm.cryptoBlockAsmX16) kernelFrame ListAmd64Asm.cryptoBlockAsmX16_argBytes
      [] fuel = .ok blockX16Model := by
  rw [← blockX16Prog_eq]
  exact fixed_ok (blockX16Prog, kernelFrame, ListAmd64Asm.cryptoBlockAsmX16_argBytes, blockX16Model) (by simp [fixedCases])

/-- needExpand touches no memory (both outcomes of its comparison) -/
theorem listing_matches_model_needExpand :
    accesses (compile symNames ListAmd64Helper.needExpand) (needExpandFrame 3 10 5)
      ListAmd64Helper.needExpand_argBytes [] fuel = .ok [] ∧
    accesses (compile symNames ListAmd64Helper.needExpand) (needExpandFrame 3 10 8)
      ListAmd64Helper.needExpand_argBytes [] fuel = .ok [] := by
  rw [← needExpandProg_eq]
  exact ⟨fixed_ok (needExpandProg, needExpandFrame 3 10 5, ListAmd64Helper.needExpand_argBytes, needExpandModel)
      (by simp [fixedCases]),
    fixed_ok (needExpandProg, needExpandFrame 3 10 8, ListAmd64Helper.needExpand_argBytes, needExpandModel)
      (by simp [fixedCases])⟩

theorem listing_matches_model_helpers :
    accesses (compile symNames ListAmd64Helper.transpose4x4) twoPtrFrame ListAmd64Helper.transpose4x4_argBytes []
      fuel = .ok transposeModel ∧
    accesses (compile symNames ListAmd64Helper.transpose2x4) twoPtrFrame ListAmd64Helper.transpose2x4_argBytes []
      fuel = .ok transposeModel ∧
    accesses (compile symNames ListAmd64Helper.transpose1x4) twoPtrFrame ListAmd64Helper.transpose1x4_argBytes []
      fuel = .ok transposeModel ∧
    accesses (compile symNames ListAmd64Helper.concatenateX) concatXFrame ListAmd64Helper.concatenateX_argBytes []
      fuel = .ok concatXModel ∧
    accesses (compile symNames ListAmd64Helper.concatenateY) twoPtrFrame ListAmd64Helper.concatenateY_argBytes []
      fuel = .ok concatYModel := by
  rw [← transpose4x4Prog_eq, ← transpose2x4Prog_eq, ← transpose1x4Prog_eq, ← concatXProg_eq, ← concatYProg_eq]
  exact ⟨fixed_ok (transpose4x4Prog, twoPtrFrame, ListAmd64Helper.transpose4x4_argBytes, transposeModel)
      (by simp [fixedCases]),
    fixed_ok (transpose2x4Prog, twoPtrFrame, ListAmd64Helper.transpose2x4_argBytes, transposeModel)
      (by simp [fixedCases]),
    fixed_ok (transpose1x4Prog, twoPtrFrame, ListAmd64Helper.transpose1x4_argBytes, transposeModel)
      (by simp [fixedCases]),
    fixed_ok (concatXProg, concatXFrame, ListAmd64Helper.concatenateX_argBytes, concatXModel)
      (by simp [fixedCases]),
    fixed_ok (concatYProg, twoPtrFrame, ListAmd64Helper.concatenateY_argBytes, concatYModel)
      (by simp [fixedCases])⟩

/-- every instruction of every routine is inside the interpreted fragment (nothing was skipped silently) -/
theorem listings_fully_interpreted :
    [compile symNames ListAmd64Asm.expandKeyAsm, compile symNames ListAmd64Asm.cryptoBlockAsm,
     compile symNames ListAmd64Asm.cryptoBlockAsmX2, compile symNames ListAmd64Asm.cryptoBlockAsmX4,
     compile symNames ListAmd64Asm.cryptoBlockAsmX8, compile symNames ListAmd64Asm.cryptoBlockAsmX16,
     compile symNames ListAmd64Gcm.gHashBlocks, compile symNames ListAmd64Gcm.sealAsm,
     compile symNames ListAmd64Gcm.openAsm, compile symNames ListAmd64Helper.needExpand,
     compile symNames ListAmd64Helper.copyAsm, compile symNames ListAmd64Helper.transpose4x4,
     compile symNames ListAmd64Helper.transpose2x4, compile symNames ListAmd64Helper.transpose1x4,
     compile symNames ListAmd64Helper.concatenateX, compile symNames ListAmd64Helper.concatenateY,
     compile symNames ListAmd64Helper.constantTimeCompareAsm].all noUnsupported = true := by
  rw [← expandKeyProg_eq, ← blockProg_eq, ← blockX2Prog_eq, ← blockX4Prog_eq, ← blockX8Prog_eq, ← blockX16Prog_eq,
    ← gHashProg_eq, ← sealProg_eq, ← openProg_eq, ← needExpandProg_eq, ← copyProg_eq, ← transpose4x4Prog_eq,
    ← transpose2x4Prog_eq, ← transpose1x4Prog_eq, ← concatXProg_eq, ← concatYProg_eq, ← ctCompareProg_eq]
  exact all_supported

/-! ## (3) On the evaluated cases the LISTING is in bounds -/

theorem sealCases_tags : ∀ c ∈ sealCases, 12 ≤ c.tag ∧ c.tag ≤ 16 := by decide +kernel
theorem openCases_tags : ∀ c ∈ openCases, 12 ≤ c.tag ∧ c.tag ≤ 16 := by decide +kernel

theorem listing_inBounds_sealAsm : ∀ c ∈ sealCases, ∃ l,
    accesses (compile symNames ListAmd64Gcm.sealAsm) (sealFrame c.tag c.nl c.len c.al)
      ListAmd64Gcm.sealAsm_argBytes [] fuel = .ok l ∧
    ∀ a ∈ l, a.inBounds (sealSize c.tag c.nl c.len c.al) := fun c hc =>
  ⟨_, listing_matches_model_sealAsm c hc,
    inBounds_sealAsm c.tag c.nl c.len c.al (sealCases_tags c hc).1 (sealCases_tags c hc).2⟩

theorem listing_inBounds_openAsm : ∀ c ∈ openCases, ∃ l,
    accesses (compile symNames ListAmd64Gcm.openAsm) (openFrame c.tag c.nl (c.len + c.tag) c.al)
      ListAmd64Gcm.openAsm_argBytes [!c.ok] fuel = .ok l ∧
    ∀ a ∈ l, a.inBounds (openSize c.tag c.nl (c.len + c.tag) c.al) := fun c hc =>
  ⟨_, listing_matches_model_openAsm c hc,
    inBounds_openAsm c.tag c.nl (c.len + c.tag) c.al c.ok (openCases_tags c hc).1 (openCases_tags c hc).2
      (Nat.le_add_left _ _)⟩

/-! ## (4) Go level: too-short arguments panic or return an error before any routine runs -/

/-- Encrypt / Decrypt: a source or destination shorter than one block panics (no assembly routine is called). -/
theorem short_block_panics (lenDst lenSrc : Nat) (h : lenSrc < 16 ∨ lenDst < 16) :
    blockMethod lenDst lenSrc = .panic := by
  unfold blockMethod
  rcases h with h | h
  · simp [h]
  · by_cases h' : lenSrc < 16 <;> simp [h, h']

/-- otherwise cryptoBlockAsm is called, and it accesses exactly [0,16) of dst and of src (and the round keys):
    nothing beyond the first block of either slice, whatever their lengths. -/
theorem block_accesses_16 (lenDst lenSrc : Nat) (hs : 16 ≤ lenSrc) (hd : 16 ≤ lenDst) :
    blockMethod lenDst lenSrc = .calls blockModel ∧
    (∀ a ∈ blockModel, a.inBounds (blockSize 1)) ∧
    (∀ a ∈ blockModel, a.inBounds (blockMethodSize lenDst lenSrc)) ∧
    wr (.arg 16) 0 16 ∈ blockModel ∧ rd (.arg 24) 0 16 ∈ blockModel := by
  refine ⟨?_, inBounds_cryptoBlockAsm, ?_, ?_, ?_⟩
  · unfold blockMethod
    simp [Nat.not_lt.mpr hs, Nat.not_lt.mpr hd]
  · intro a ha
    have h1 := inBounds_cryptoBlockAsm a ha
    unfold Access.inBounds at h1 ⊢
    have hle : blockSize 1 a.region ≤ blockMethodSize lenDst lenSrc a.region := by
      unfold blockSize blockMethodSize
      split <;> omega
    omega
  · simp [blockModel]
  · simp [blockModel]

/-- Open: a ciphertext shorter than the tag is an error, returned before ensureCapacity / openAsm are called. -/
theorem open_short_ciphertext_errs (nonceSize tagSize nl cl al : Nat) (tagOk : Bool)
    (hn : nl = nonceSize) (ht : 12 ≤ tagSize) (hc : cl < tagSize) :
    openMethod nonceSize tagSize nl cl al tagOk = .error := by
  unfold openMethod
  simp [hn, Nat.not_lt.mpr ht, hc]

/-- and when openAsm IS called (12 ≤ tagSize ≤ 16), its accesses are in bounds -/
theorem open_calls_inBounds (nonceSize tagSize nl cl al : Nat) (tagOk : Bool) (l : List Access)
    (h16 : tagSize ≤ 16) (h : openMethod nonceSize tagSize nl cl al tagOk = .calls l) :
    ∀ a ∈ l, a.inBounds (openSize tagSize nl cl al) := by
  unfold openMethod at h
  split at h; · cases h
  split at h; · cases h
  split at h; · cases h
  split at h; · cases h
  rename_i _ h12 hcl _
  cases h
  exact inBounds_openAsm tagSize nl cl al tagOk (Nat.not_lt.mp h12) h16 (Nat.not_lt.mp hcl)

/-! ## (5) Negative controls -/

/-- the pre-repair tail pattern (finding I): a 16-byte vector load at a source of which `r` bytes remain -/
def brokenTail : List Instr :=
  [⟨0, "MOVQ", [.frame "src" 8, .reg (.gpr 6)], 1, 0⟩,
   ⟨5, "MOVQ", [.frame "len" 16, .reg (.gpr 0)], 2, 0⟩,
   ⟨10, "CMPQ", [.reg (.gpr 0), .imm 0], 3, 0⟩,
   ⟨14, "JLE", [.target 26], 4, 0⟩,
   ⟨20, "VMOVDQU32", [.mem (.gpr 6) none 0 0, .reg (.vec 0)], 5, 16⟩,
   ⟨26, "RET", [], 6, 0⟩]

def brokenSize (r : Nat) : Region → Nat
  | .arg 8 => r
  | _ => 0

/-- for every 1 ≤ r ≤ 15 the interpreter reports the load at pc 20 (line 5) as out of bounds; r = 0 and r = 16 are clean -/
example : ∀ r, r < 17 →
    (match run (compile symNames brokenTail) [(8, .ptr (.arg 8) 0), (16, .int r)] 16 [] 100 with
     | .ok recs => (firstOOB (brokenSize r) recs).map (fun x => (x.pc, x.line, x.acc.width))
     | .error _ => some (0, 0, 0)) = (if r = 0 ∨ r = 16 then none else some (20, 5, 16)) := by
  decide +kernel

/-- a data-dependent branch without an oracle decision is an error, not a guess (openAsm with the empty oracle) -/
example : (accesses openProg (openFrame 16 12 16 0) ListAmd64Gcm.openAsm_argBytes [] fuel).toOption = none := by
  decide +kernel

/-- OBSERVATION (amd64 gHashBlocks, not called by the library on amd64): with count = 0 the by-1 loop is a
    do … while and reads one 16-byte block of `data`; the contract is count ≥ 1 (as in all callers). -/
theorem gHashBlocks_count0_reads :
    accesses (compile symNames ListAmd64Gcm.gHashBlocks) (gHashFrame 0) ListAmd64Gcm.gHashBlocks_argBytes [] fuel
      = .ok (gHashModel 0) ∧
    rd gData 0 16 ∈ gHashModel 0 ∧ ¬ (rd gData 0 16).inBounds (gHashSize 0) := by
  refine ⟨listing_matches_model_gHashBlocks 0 (by omega), by simp [gHashModel], ?_⟩
  show ¬ (0 + 16 ≤ 16 * 0)
  omega

end SMGo.Props.C11

#print axioms SMGo.Props.C11.inBounds_sealAsm
#print axioms SMGo.Props.C11.inBounds_openAsm
#print axioms SMGo.Props.C11.inBounds_gHashBlocks
#print axioms SMGo.Props.C11.inBounds_copyAsm
#print axioms SMGo.Props.C11.inBounds_needExpand
#print axioms SMGo.Props.C11.inBounds_expandKeyAsm
#print axioms SMGo.Props.C11.inBounds_cryptoBlockAsm
#print axioms SMGo.Props.C11.inBounds_cryptoBlockAsmX2
#print axioms SMGo.Props.C11.inBounds_cryptoBlockAsmX4
#print axioms SMGo.Props.C11.inBounds_cryptoBlockAsmX8
#print axioms SMGo.Props.C11.inBounds_cryptoBlockAsmX16
#print axioms SMGo.Props.C11.inBounds_transpose
#print axioms SMGo.Props.C11.inBounds_concatenateX
#print axioms SMGo.Props.C11.inBounds_concatenateY
#print axioms SMGo.Props.C11.inBounds_constantTimeCompareAsm
#print axioms SMGo.Props.C11.listing_matches_model_sealAsm
#print axioms SMGo.Props.C11.listing_matches_model_openAsm
#print axioms SMGo.Props.C11.listing_matches_model_gHashBlocks
#print axioms SMGo.Props.C11.listing_matches_model_copyAsm
#print axioms SMGo.Props.C11.listing_matches_model_constantTimeCompareAsm
#print axioms SMGo.Props.C11.listing_matches_model_expandKeyAsm
#print axioms SMGo.Props.C11.listing_matches_model_cryptoBlockAsm
#print axioms SMGo.Props.C11.listing_matches_model_cryptoBlockAsmX2
#print axioms SMGo.Props.C11.listing_matches_model_cryptoBlockAsmX4
#print axioms SMGo.Props.C11.listing_matches_model_cryptoBlockAsmX8
#print axioms SMGo.Props.C11.listing_matches_model_cryptoBlockAsmX16
#print axioms SMGo.Props.C11.listing_matches_model_needExpand
#print axioms SMGo.Props.C11.listing_matches_model_helpers
#print axioms SMGo.Props.C11.listings_fully_interpreted
#print axioms SMGo.Props.C11.listing_inBounds_sealAsm
#print axioms SMGo.Props.C11.listing_inBounds_openAsm
#print axioms SMGo.Props.C11.short_block_panics
#print axioms SMGo.Props.C11.block_accesses_16
#print axioms SMGo.Props.C11.open_short_ciphertext_errs
#print axioms SMGo.Props.C11.open_calls_inBounds
#print axioms SMGo.Props.C11.gHashBlocks_count0_reads
