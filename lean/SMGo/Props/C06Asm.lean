/-
  Property C06, assembly level — the GHASH arithmetic of /repo/sm4/gcm_amd64.s tied to SP 800-38D BY THEOREM over
  the regenerated listing `SMGo.Gen.ListAmd64Gcm.gHashBlocks` (173 instructions), run by the value semantics of
  SMGo/Model/ISAVal.lean (TRUSTED: the reading of the Intel SDM; compared with the real CPU on every check by the
  harness streams `asm.ghash`, `asm.seal`, `asm.open`).  Lemmas live in SMGo/Proofs/ISAValGhash*.lean.

  What is proved here, and about what:
    * A1  `mul`+`reduce` (VPCLMULQDQ Karatsuba, two-step 0x87 folding) on every 128-bit lane of an X or Z register is
          `Model.GCM.gmulR` — which Props/C06.lean (`clmul_reduce_eq_mulGF`) proves to be Algorithm 1 of SP 800-38D on
          bit-reflected operands; one iteration of `loopBy1` is the GHASH step Y := (Y ⊕ X)•H;
    * A2  one iteration of `loopBy4` (H⁴:H³:H²:H computed by `gHashBlocksLoopBy4Pre` and gathered by three
          merge-masked VPERMQ) is four sequential steps;
    * A3  for EVERY count ≥ 1 the run of the listing from its first instruction to RET leaves in the tag buffer the
          GHASH update of the specification over count blocks (loop induction over both loops, all branches);
    * A4  the `mul`+`reduce` and `reverseBits` blocks inside the listings of `sealAsm` and `openAsm` are the same
          instruction sequences up to the registers named, all covered by A1.
  NOT proved here: the fused routines `sealAsm`/`openAsm` as wholes (counter handling, SM4 rounds inside them, tag
  finish); they are compared three-way (CPU / interpreted listing / specification) by the harness.
  `gHashBlocks` with count = 0 performs one step (do-while loop): count ≥ 1 is a genuine precondition.
-/
import SMGo.Proofs.ISAValGhashSpec
import SMGo.Proofs.ISAValGhashFused
namespace SMGo.Props.C06Asm
open SMGo
open SMGo.Model.ISAVal SMGo.Model.ISA SMGo.Model.GCM SMGo.Spec.GCM
open SMGo.Proofs.ISAVal
open SMGo.Proofs.GCM (rev128 Rep ghFold)

/-! ### the listing as a scheme -/

/-- the regenerated listing of `gHashBlocks` is: prologue (`pCode`), `JLT loopBy1`, the powers (`qCode`), `loopBy4`
    body, `JGT loopBy4`, `CMPQ $0; JEQ blocksEnd`, `loopBy1` body, `JGT loopBy1`, `blocksEnd`, RET — byte offsets aside
    (checked by evaluation) -/
theorem gHashBlocks_scheme :
    ghR.map erasePc = pCode ++ [jcc .JLT 827] ++ qCode ++ b4Code ++ [jcc .JGT 607, ins .CMPQ [G 2, .imm 0] 0, jcc .JEQ 1008]
      ++ b1Code ++ [jcc .JGT 827] ++ eCode ++ [ins .RET [] 0, ins .NOP [] 0] :=
  ghR_scheme

/-! ### A1: the multiplier and the one-block step -/

/-- the interpreter's VPCLMULQDQ product is the carry-less product of the model -/
theorem vpclmulqdq_is_clmul (a b : Nat) : Model.ISAVal.clmul a b = clmul64 b a := clmul_eq a b

/-- **A1 (arithmetic)**: the 18 instructions of `mul` + `reduce` compute `gmulR` (= Algorithm 1 on reflected operands,
    Props/C06 `clmul_reduce_eq_mulGF`) on every 128-bit lane, for every register assignment occurring in
    `gHashBlocks`, `sealAsm`, `openAsm`; nothing but vector registers changes and the registers that live across
    the GHASH macros keep their values -/
theorem mul_reduce_is_gmulR (vl F FS In Out : Nat) (hvl : validVl vl = true)
    (hF : (F = 19 ∧ FS = 25) ∨ (F = 29 ∧ FS = 30)) (hIn : In ∈ [19, 4, 5, 20, 6, 7, 8, 9])
    (hout : Out = 4 ∨ Out = 5 ∨ Out = 29 ∨ Out = 14 ∨ Out = 21)
    (s : State) (hV : s.vec.length = 32)
    (hFS : ∀ l, l < vl / 16 → lo64 (lane 128 l (vreg s FS)) = lo64 (lane 128 l (vreg s F)) ^^^ hi64 (lane 128 l (vreg s F)))
    (hRed : ∀ l, l < vl / 16 → lo64 (lane 128 l (vreg s 26)) = poly) :
    ∃ s', execList (mulRedCode vl F FS In Out) s = .ok s' ∧ VecOnly Out s s' ∧ vreg s' Out < 2 ^ (8 * vl) ∧
      ∀ l, l < vl / 16 → lane 128 l (vreg s' Out) = gmulR (lane 128 l (vreg s F)) (lane 128 l (vreg s In)) :=
  mulRed_spec vl F FS In Out hvl hF hIn hout s hV hFS hRed

/-- `reverseBits` turns a loaded block into the model's `loadR` (bit k = coefficient of x^k) -/
theorem reverseBits_is_loadR (blk : List Nat) (hl : blk.length = 16) (hb : ∀ x ∈ blk, x < 2 ^ 8) :
    rb128 (unlanes 8 blk) = loadR (toB blk) := rb128_loadR blk hl hb

/-- **A1 (block lemma)**: one iteration of `loopBy1` (28 instructions and the `CMPQ` after them) from a state in the
    GHASH context `Ctx` (reflected H in V19, masks, GCM_POLY, H.lo ⊕ H.hi): the running value in V21 becomes the model's
    `ghStep1`, i.e. `Y' = (Y ⊕ X) • H` of SP 800-38D in the reflected representation; pointer and count advance -/
theorem loopBy1_step (mem : List Region) (tp h : Nat) (s : State) (ctx : Ctx mem tp h s) (dp n y : Nat) (blk : List Nat)
    (hg1 : greg s 1 = dp) (hg2 : greg s 2 = n) (hv21 : vreg s 21 = y) (hy : y < 2 ^ 128)
    (hdp : dp + 16 < 2 ^ 64) (hn : 1 ≤ n) (hn63 : n < 2 ^ 63)
    (hrd : readMem mem dp 16 = .ok blk) (hblk : blk.length = 16) (hbb : ∀ x ∈ blk, x < 2 ^ 8) :
    ∃ s', execList b1Code s = .ok s' ∧ Ctx mem tp h s' ∧ greg s' 1 = dp + 16 ∧ greg s' 2 = n - 1 ∧
      vreg s' 21 = ghStep1 h y (toB blk) ∧
      (∀ H Y, H < 2 ^ 128 → h = rev128 H → Rep y Y → Rep (vreg s' 21) (mulGF (Y ^^^ blockToNat (toB blk)) H)) := by
  obtain ⟨s', hrun, c, g1, g2, v, _⟩ := ghB1_spec mem tp h s ctx dp n y blk hg1 hg2 hv21 hy hdp hn hn63 hrd hblk hbb
  have hv : vreg s' 21 = ghStep1 h y (toB blk) := by rw [v, rb128_loadR blk hblk hbb]; rfl
  refine ⟨s', hrun, c, g1, g2, hv, ?_⟩
  intro H Y hH hh hrep
  rw [hv]
  exact Proofs.GCM.ghStep1_rep Proofs.GCM.gmulOK hH hh hrep (by rw [toB_length]; exact hblk)

/-! ### A2: the aggregated step -/

/-- `gHashBlocksLoopBy4Pre` (69 instructions) computes H², H³, H⁴ with the same multiplier and gathers
    H⁴ : H³ : H² : H into the four lanes of V29 (`Ctx4`, `hpow`) -/
theorem loopBy4_pre (mem : List Region) (tp h : Nat) (s : State) (ctx : Ctx mem tp h s)
    (hIdx : readMem mem 60129542144 64 = .ok Gen.AsmData.amd64_SHUFFLE_X_LANES)
    (hM01 : readMem mem 51539607552 32 = .ok Gen.AsmData.amd64_MERGE_H01)
    (hM23 : readMem mem 55834574848 64 = .ok Gen.AsmData.amd64_MERGE_H23) :
    ∃ s', execList qCode s = .ok s' ∧ Ctx mem tp h s' ∧ Ctx4 h s' ∧
      greg s' 1 = greg s 1 ∧ greg s' 2 = greg s 2 ∧ vreg s' 21 = vreg s 21 :=
  ghQ_spec mem tp h s ctx hIdx hM01 hM23

/-- **A2**: one iteration of `loopBy4` (32 instructions and the `CMPQ` after them), with H the reflection of a
    16-byte hash key: the running value becomes the result of FOUR sequential one-block steps over the 64 bytes -/
theorem loopBy4_step (mem : List Region) (tp : Nat) (hB : Bytes) (hhB : hB.length = 16) (s : State)
    (ctx : Ctx mem tp (loadR hB) s) (c4 : Ctx4 (loadR hB) s) (dp n y : Nat) (blk : List Nat)
    (hg1 : greg s 1 = dp) (hg2 : greg s 2 = n) (hv21 : vreg s 21 = y) (hy : y < 2 ^ 128)
    (hdp : dp + 64 < 2 ^ 64) (hn : 4 ≤ n) (hn63 : n < 2 ^ 63)
    (hrd : readMem mem dp 64 = .ok blk) (hblk : blk.length = 64) (hbb : ∀ x ∈ blk, x < 2 ^ 8) :
    ∃ s', execList b4Code s = .ok s' ∧ Ctx mem tp (loadR hB) s' ∧ Ctx4 (loadR hB) s' ∧ greg s' 1 = dp + 64 ∧
      greg s' 2 = n - 4 ∧ vreg s' 21 = ghBy1 (loadR hB) 4 y (toB blk) := by
  obtain ⟨s', hrun, c, c4', g1, g2, v, _, _⟩ := ghB4_spec mem tp (loadR hB) s ctx c4 dp n y blk hg1 hg2 hv21 hy hdp hn hn63 hrd hblk hbb
  refine ⟨s', hrun, c, c4', g1, g2, ?_⟩
  rw [v, ghStep4N_eq hB y blk hbb (by omega)]
  exact Proofs.GCM.ghStep4_eq_four_steps hhB hy (by rw [toB_length]; omega)

/-! ### A3: the whole routine, every count -/

/-- **A3**: for every `count ≥ 1`, every hash key H, every running value (the 16 bytes at `tag`) and `16·count` bytes
    of data, whatever the registers hold at entry: the listing of `gHashBlocks` runs to RET within `34·count + 200`
    steps and leaves at `tag` the GHASH of SP 800-38D Algorithm 2 continued from the old value:
    `Y := (Y ⊕ X_i) • H` for i = 1..count (`ghFold`; `Spec.GCM.ghash H x = ghFold H 0 x`).
    (`data.length < 2^32` is the size limit of a memory region of the interpreter.) -/
theorem gHashBlocks_eq_spec (g v k h tag data : List Nat) (count : Nat)
    (hG : g.length = 16) (hV : v.length = 32) (hK : k.length = 8)
    (hh : h.length = 16) (ht : tag.length = 16) (hhb : ∀ x ∈ h, x < 2 ^ 8) (htb : ∀ x ∈ tag, x < 2 ^ 8)
    (hdb : ∀ x ∈ data, x < 2 ^ 8) (hc : 1 ≤ count) (hd : 16 * count ≤ data.length) (hdl : data.length < 2 ^ 32) :
    runGhash (ghFuel count) (ghashState g v k h tag data count)
      = .ok ((natToBlock (ghFold (blockToNat (toB h)) (blockToNat (toB tag)) ((toB data).take (16 * count)))).map (·.toNat)) :=
  Proofs.ISAVal.gHashBlocks_eq_spec g v k h tag data count hG hV hK hh ht hhb htb hdb hc hd hdl

/-- A3 from a zero tag over exactly `count` blocks: the routine computes GHASH_H(data) -/
theorem gHashBlocks_is_ghash (g v k h data : List Nat) (count : Nat)
    (hG : g.length = 16) (hV : v.length = 32) (hK : k.length = 8)
    (hh : h.length = 16) (hhb : ∀ x ∈ h, x < 2 ^ 8)
    (hdb : ∀ x ∈ data, x < 2 ^ 8) (hc : 1 ≤ count) (hd : data.length = 16 * count) (hdl : data.length < 2 ^ 32) :
    runGhash (ghFuel count) (ghashState g v k h (List.replicate 16 0) data count)
      = .ok ((natToBlock (ghash (blockToNat (toB h)) (toB data))).map (·.toNat)) := by
  rw [gHashBlocks_eq_spec g v k h (List.replicate 16 0) data count hG hV hK hh (by simp) hhb
    (by intro x hx; rw [List.eq_of_mem_replicate hx]; decide) hdb hc (by omega) hdl]
  have e1 : (toB data).take (16 * count) = toB data := by
    apply List.take_of_length_le; rw [toB_length]; omega
  have e2 : blockToNat (toB (List.replicate 16 0)) = 0 := by decide
  rw [e1, e2]
  rfl

/-- the same run at the level of the model: the tag buffer holds `storeR` of `Model.GCM.ghBlocks` (thresholds and
    aggregation of the routine) on the reflected inputs -/
theorem gHashBlocks_eq_model (g v k h tag data : List Nat) (count : Nat)
    (hG : g.length = 16) (hV : v.length = 32) (hK : k.length = 8)
    (hh : h.length = 16) (ht : tag.length = 16) (hhb : ∀ x ∈ h, x < 2 ^ 8) (htb : ∀ x ∈ tag, x < 2 ^ 8)
    (hdb : ∀ x ∈ data, x < 2 ^ 8) (hc : 1 ≤ count) (hd : 16 * count ≤ data.length) (hdl : data.length < 2 ^ 32) :
    runGhash (ghFuel count) (ghashState g v k h tag data count)
      = .ok ((storeR (ghBlocks (hPowers (toB h)) (loadR (toB tag)) (toB data) count)).map (·.toNat)) := by
  rw [gHashBlocks_run g v k h tag data count hG hV hK hh ht hhb htb hdb hc hd hdl,
    rb128_loadR h hh hhb, rb128_loadR tag ht htb, ghAllN_eq (toB h) count _ data hdb hd]
  have hhB : (toB h).length = 16 := by rw [toB_length]; exact hh
  have htB : (toB tag).length = 16 := by rw [toB_length]; exact ht
  have hlt : ghBlocks (hPowers (toB h)) (loadR (toB tag)) (toB data) count < 2 ^ 128 := by
    rw [Proofs.GCM.ghBlocks_eq Proofs.GCM.gmulOK (Proofs.GCM.powOK_hPowers hhB) (Proofs.GCM.loadR_lt htB) (toB data) count
      (by rw [toB_length]; exact hd)]
    exact Proofs.GCM.ghBy1_lt Proofs.GCM.gmulOK (Proofs.GCM.powOK_hPowers hhB) count (toB data) (Proofs.GCM.loadR_lt htB)
      (by rw [toB_length]; exact hd)
  rw [store_eq _ hlt]

/-! ### A4: the same blocks inside the fused routines -/

/-- **A4** (checked by evaluation on the regenerated listings): `sealAsm` contains 22 and `openAsm` 25 `mul`+`reduce`
    blocks and as many `reverseBits` blocks; they are `mulRedCode` / `rbCode` instruction for instruction, with the
    same temporaries (V0–V3, V13, V27, V28), the same constant registers (V22–V24 masks, V26 GCM_POLY) and only
    (Factor, FactorS) ∈ {(V19,V25), (V29,V30)}, Input ∈ {V19,V4,V5,V20,V6,V7,V8,V9}, Output ∈ {V4,V5,V29,V14,V21}
    varying — all register assignments covered by `mul_reduce_is_gmulR` (`mulRedOK`) and `rb_spec` (`rbOK`); every
    VPCLMULQDQ (6 per block) and every VPSRLW (1 per block) of the two routines lies inside one of these blocks -/
theorem ghash_blocks_in_sealAsm_openAsm :
    (scanMulRed (erased Gen.ListAmd64Gcm.sealAsm) = sealMulRed
      ∧ countMn .VPCLMULQDQ (erased Gen.ListAmd64Gcm.sealAsm) = 6 * sealMulRed.length)
    ∧ (scanMulRed (erased Gen.ListAmd64Gcm.openAsm) = openMulRed
      ∧ countMn .VPCLMULQDQ (erased Gen.ListAmd64Gcm.openAsm) = 6 * openMulRed.length)
    ∧ (scanRb (erased Gen.ListAmd64Gcm.sealAsm) = sealRb ∧ countMn .VPSRLW (erased Gen.ListAmd64Gcm.sealAsm) = sealRb.length)
    ∧ (scanRb (erased Gen.ListAmd64Gcm.openAsm) = openRb ∧ countMn .VPSRLW (erased Gen.ListAmd64Gcm.openAsm) = openRb.length)
    ∧ ((sealMulRed ++ openMulRed).all mulRedOK = true ∧ (sealRb ++ openRb).all rbOK = true
      ∧ sealMulRed.length = 22 ∧ openMulRed.length = 25 ∧ sealRb.length = 22 ∧ openRb.length = 25) :=
  ghash_blocks_fused

/-- a hit of the scanner is an occurrence of the block, and a covered register assignment satisfies A1 -/
theorem scanned_block_is_gmulR (l : List DInstr) (vl F FS In Out : Nat) (hat : mulRedAt l = some (vl, F, FS, In, Out))
    (hok : mulRedOK (vl, F, FS, In, Out) = true) (s : State) (hV : s.vec.length = 32)
    (hFS : ∀ l, l < vl / 16 → lo64 (lane 128 l (vreg s FS)) = lo64 (lane 128 l (vreg s F)) ^^^ hi64 (lane 128 l (vreg s F)))
    (hRed : ∀ l, l < vl / 16 → lo64 (lane 128 l (vreg s 26)) = poly) :
    (∃ rest, l = mulRedCode vl F FS In Out ++ rest) ∧
    ∃ s', execList (mulRedCode vl F FS In Out) s = .ok s' ∧ VecOnly Out s s' ∧ vreg s' Out < 2 ^ (8 * vl) ∧
      ∀ l, l < vl / 16 → lane 128 l (vreg s' Out) = gmulR (lane 128 l (vreg s F)) (lane 128 l (vreg s In)) :=
  ⟨mulRedAt_sound l vl F FS In Out hat, mulRed_spec_of_ok vl F FS In Out hok s hV hFS hRed⟩

end SMGo.Props.C06Asm

#print axioms SMGo.Props.C06Asm.gHashBlocks_scheme
#print axioms SMGo.Props.C06Asm.vpclmulqdq_is_clmul
#print axioms SMGo.Props.C06Asm.mul_reduce_is_gmulR
#print axioms SMGo.Props.C06Asm.reverseBits_is_loadR
#print axioms SMGo.Props.C06Asm.loopBy1_step
#print axioms SMGo.Props.C06Asm.loopBy4_pre
#print axioms SMGo.Props.C06Asm.loopBy4_step
#print axioms SMGo.Props.C06Asm.gHashBlocks_eq_spec
#print axioms SMGo.Props.C06Asm.gHashBlocks_is_ghash
#print axioms SMGo.Props.C06Asm.gHashBlocks_eq_model
#print axioms SMGo.Props.C06Asm.ghash_blocks_in_sealAsm_openAsm
#print axioms SMGo.Props.C06Asm.scanned_block_is_gmulR
