/-
  Property C04, link "model ↔ Go source": the functions of /repo/sm3/sm3.go as REGENERATED from the source
  by the translator `translate gosm3` (`SMGo.Gen.SM3Code`: one Lean definition per Go function, one `do`
  statement group per Go statement, every index/slice/copy/encoding-binary access with Go's bounds check,
  result type `Go.Res` = value or panic) equal the hand-written model `Model.SM3.*` of Model/SM3State.lean,
  for all inputs, and never panic.  Composed with `Props.C04.C04_history` this gives: every history of
  Write/Sum/Reset calls run through the generated functions answers what GB/T 32905 prescribes.
  (Property theorems only; lemmas live in SMGo/Proofs/SM3Gen*.lean.)

  Encodings (explicit in every statement):
    * `[8]uint32`, `[68]uint32`, `[64]uint32`   `Array (BitVec 32)`  ↔  `List W32`   by `Array.toList` / `List.toArray`
                                                  (`W32` is `BitVec 32` by definition);
    * `[]byte`, `[64]byte`, `[32]byte`           `Array UInt8`        ↔  `Bytes`      by `Array.toList` / `List.toArray`;
    * the struct                                 `Gen.SM3Code.SM3`    ↦  `Model.SM3.St` by `dec`:
          h ↦ h.toList, x ↦ x.toList, nx : Int ↦ nx.toNat, len : BitVec 64 ↦ len.toNat;
      `dec` is injective on values with `0 ≤ nx` (`dec_injective`);
    * `WF s`: `s.h.size = 8`, `s.x.size = 64` (what the Go types `[8]uint32`, `[64]byte` say) and
      `0 ≤ s.nx ≤ 64` (maintained by every method, proved below);
    * Go `int` is `Int`, `uint32`/`uint64` are `BitVec 32`/`BitVec 64`, `byte` is `UInt8` (Model/GoPrelude.lean).

  What remains trusted on this link: the translator's reading of Go (go/parser + go/types) and its
  statement-by-statement output (reviewable: every generated statement quotes its source line), the prelude
  Model/GoPrelude.lean (meaning of indexing, slicing, copy, append, encoding/binary on non-overlapping
  operands; Go `int` as unbounded `Int`), and value semantics for slices (the translator refuses the
  aliasing patterns it cannot justify).  The hand-written model is no longer trusted on this link: a change
  of sm3.go changes `Gen.SM3Code`, and these theorems are re-checked against it.
-/
import SMGo.Props.C04
import SMGo.Gen.SM3Code
import SMGo.Model.SM3CodeRun
import SMGo.Proofs.SM3GenHistory
namespace SMGo.Props.C04Gen
open SMGo SMGo.Go

local notation "ttGen" => (List.map (BitVec.ofNat 32) Gen.SM3Const.tt : List W32)

/-- the decoding of the generated struct, spelled out -/
theorem dec_def (s : Gen.SM3Code.SM3) :
    Proofs.SM3Gen.dec s = { h := s.h.toList, x := s.x.toList, nx := s.nx.toNat, len := s.len.toNat } := rfl

/-- well-formedness, spelled out -/
theorem WF_iff (s : Gen.SM3Code.SM3) :
    Proofs.SM3Gen.WF s ↔ (s.h.size = 8 ∧ s.x.size = 64 ∧ 0 ≤ s.nx ∧ s.nx ≤ 64) :=
  ⟨fun h => ⟨h.h8, h.x64, h.nx0, h.nx64⟩, fun h => ⟨h.1, h.2.1, h.2.2.1, h.2.2.2⟩⟩

/-- the decoding loses nothing on values with a non-negative `nx` -/
theorem dec_injective {s t : Gen.SM3Code.SM3} (hs : 0 ≤ s.nx) (ht : 0 ≤ t.nx)
    (h : Proofs.SM3Gen.dec s = Proofs.SM3Gen.dec t) : s = t :=
  Proofs.SM3Gen.dec_injective hs ht h

/-! ### the translator, tested (tests, labelled as such): the generated code evaluated by the kernel -/

/-- GB/T 32905 example 1 ("abc") through the generated `SumSM3` -/
theorem gen_vector_abc :
    Gen.SM3Code.SumSM3 #[0x61, 0x62, 0x63] =
      .ok #[0x66,0xc7,0xf0,0xf4,0x62,0xee,0xed,0xd9,0xd1,0xf2,0xd4,0x6b,0xdc,0x10,0xe4,0xe2,
            0x41,0x67,0xc4,0x87,0x5c,0xf2,0xf7,0xa2,0x29,0x7d,0xa0,0x2b,0x8f,0x4b,0xa8,0xe0] := by
  decide +kernel

/-- GB/T 32905 example 2 ("abcd" × 16, 64 bytes, two blocks) through the generated `SumSM3` -/
theorem gen_vector_abcd16 :
    Gen.SM3Code.SumSM3 (Array.replicate 16 #[0x61, 0x62, 0x63, 0x64]).flatten =
      .ok #[0xde,0xbe,0x9f,0xf9,0x22,0x75,0xb8,0xa1,0x38,0x60,0x48,0x89,0xc1,0x8e,0x5a,0x4d,
            0x6f,0xdb,0x70,0xe5,0x38,0x7e,0x57,0x65,0x29,0x3d,0xcb,0xa3,0x9c,0x0c,0x57,0x32] := by
  decide +kernel

/-- a multi-Write history through the generated `New`/`Write`/`Sum`/`Reset`: 3 + 61 + 6 bytes (the second
    Write fills the buffer exactly, the third starts a new block), Sum twice, Reset, Write, Sum.  The
    expected digests are literals computed independently (`openssl dgst -sm3` on "abc" ‖ 0x00..0x3c and on
    that ‖ 01 02 03 04 05 06) -/
theorem gen_history_multiwrite :
    Model.SM3Code.run
      [.write [0x61, 0x62, 0x63], .write ((List.range 61).map UInt8.ofNat), .sum [],
       .write [1, 2, 3, 4, 5, 6], .sum [0xff], .sum [], .reset, .write [0x61, 0x62, 0x63], .sum []] =
    .ok [.wrote 3, .wrote 61,
         .digest [0x6b,0x00,0xd4,0xef,0x33,0x3f,0x2a,0xb4,0xc3,0xb8,0x4f,0xac,0x6b,0x08,0x6a,0x87,
                  0xaf,0x7e,0x99,0xed,0xb0,0x35,0xc9,0xb3,0x98,0x08,0x01,0x0b,0x06,0xee,0x42,0x81],
         .wrote 6,
         .digest [0xff,
                  0xc1,0x08,0xfe,0xf9,0x91,0xba,0x55,0x76,0x8a,0xee,0xc1,0x29,0xa3,0xe0,0xf1,0x84,
                  0xbb,0xaf,0x3f,0x8e,0xa8,0xa9,0x3c,0x01,0x6e,0xc7,0x0e,0x28,0x7d,0x11,0xe8,0x08],
         .digest [0xc1,0x08,0xfe,0xf9,0x91,0xba,0x55,0x76,0x8a,0xee,0xc1,0x29,0xa3,0xe0,0xf1,0x84,
                  0xbb,0xaf,0x3f,0x8e,0xa8,0xa9,0x3c,0x01,0x6e,0xc7,0x0e,0x28,0x7d,0x11,0xe8,0x08],
         .none, .wrote 3,
         .digest [0x66,0xc7,0xf0,0xf4,0x62,0xee,0xed,0xd9,0xd1,0xf2,0xd4,0x6b,0xdc,0x10,0xe4,0xe2,
                  0x41,0x67,0xc4,0x87,0x5c,0xf2,0xf7,0xa2,0x29,0x7d,0xa0,0x2b,0x8f,0x4b,0xa8,0xe0]] := by
  decide +kernel

/-! ### (i) constants and pure helpers -/

/-- the table `tt` of the generated code is the table of `Gen.SM3Const` (translator `consts`), which
    `Props.C04.tt_formula` ties to the standard -/
theorem gen_tt_eq : Gen.SM3Code.tt.toList = ttGen :=
  Proofs.SM3Gen.tt_toList

/-- `ff1`, `gg1`, `p0`, `p1` as generated are the model's -/
theorem gen_helpers_eq_model (x y z : BitVec 32) :
    Gen.SM3Code.ff1 x y z = Model.SM3.ff1 x y z ∧ Gen.SM3Code.gg1 x y z = Model.SM3.gg1 x y z
      ∧ Gen.SM3Code.p0 x = Model.SM3.p0 x ∧ Gen.SM3Code.p1 x = Model.SM3.p1 x :=
  ⟨rfl, rfl, rfl, rfl⟩

/-! ### (ii) the compression function -/

/-- `partiallyExpand(msg, &w)` as generated, on a 64-byte `msg` and a zero `w`: no panic, the model's ring -/
theorem gen_partiallyExpand_eq_model (m : Array UInt8) (hm : m.size = 64) :
    Gen.SM3Code.partiallyExpand m (Array.replicate 68 0#32) =
      .ok (Model.SM3.partiallyExpand m.toList).toArray :=
  Proofs.SM3Gen.partiallyExpand_eq m hm

/-- `(*SM3).cf(msg)` as generated: for every value with 8 chaining words and every `msg` of at least 64
    bytes — no panic (all 16+5+16+48 loop iterations' index expressions are in range), only `h` changes,
    and the new `h` is the model's `cf` (both loops, the on-the-fly expansion, the final xor) -/
theorem gen_cf_eq_model (s : Gen.SM3Code.SM3) (msg : Array UInt8) (hh : s.h.size = 8) (hm : 64 ≤ msg.size) :
    Gen.SM3Code.SM3.cf s msg =
      .ok { s with h := (Model.SM3.cf ttGen s.h.toList msg.toList).toArray } :=
  Proofs.SM3Gen.cf_eq s msg hh hm

/-- … hence, with `Props.C04.cf_eq_spec`, the generated `cf` computes `CF` of GB/T 32905 5.3.3 -/
theorem gen_cf_eq_spec (s : Gen.SM3Code.SM3) (blk : Array UInt8) (hh : s.h.size = 8) (hb : blk.size = 64) :
    Gen.SM3Code.SM3.cf s blk = .ok { s with h := (Spec.SM3.CF s.h.toList blk.toList).toArray } := by
  rw [gen_cf_eq_model s blk hh (by omega), Props.C04.cf_eq_spec _ _ (by simpa using hb)]

/-! ### (iii) `Write`, `checkSum`, `Sum`, `Reset`, `New`, `SumSM3` -/

/-- `Write(data)` as generated: for every well-formed value and every `data` (any length, any buffered
    amount): no panic — in particular the fuel of the block loop suffices —, `n = len(data)`, `err = nil`,
    the new value is well-formed and decodes to the model's `write` -/
theorem gen_write_eq_model (s : Gen.SM3Code.SM3) (data : Array UInt8) (hwf : Proofs.SM3Gen.WF s) :
    ∃ s', Gen.SM3Code.SM3.Write s data = .ok (s', (data.size : Int), none)
      ∧ Proofs.SM3Gen.dec s' = (Model.SM3.write ttGen (Proofs.SM3Gen.dec s) data.toList).1
      ∧ (data.size : Int).toNat = (Model.SM3.write ttGen (Proofs.SM3Gen.dec s) data.toList).2
      ∧ Proofs.SM3Gen.WF s' := by
  obtain ⟨s', e, d, w⟩ := Proofs.SM3Gen.write_eq_model s data hwf
  exact ⟨s', e, d, by simp [Model.SM3.write], w⟩

/-- `checkSum(out)` as generated: for every well-formed value with `nx < 64` (a buffer that is not full:
    what `Write` leaves) and a 32-byte `out`: no panic, `out` and the scratch value are the model's -/
theorem gen_checkSum_eq_model (s : Gen.SM3Code.SM3) (out : Array UInt8) (hwf : Proofs.SM3Gen.WF s)
    (hnx : s.nx < 64) (ho : out.size = 32) :
    ∃ s' out', Gen.SM3Code.SM3.checkSum s out = .ok (s', out')
      ∧ out'.toList = (Model.SM3.checkSum ttGen (Proofs.SM3Gen.dec s)).1
      ∧ Proofs.SM3Gen.dec s' = (Model.SM3.checkSum ttGen (Proofs.SM3Gen.dec s)).2 :=
  Proofs.SM3Gen.checkSum_eq_model s out hwf hnx ho

/-- `Sum(in)` as generated: no panic, the receiver is returned unchanged (Go works on a copy), the result
    is the model's `sum` -/
theorem gen_sum_eq_model (s : Gen.SM3Code.SM3) (inp : Array UInt8) (hwf : Proofs.SM3Gen.WF s) (hnx : s.nx < 64) :
    Gen.SM3Code.SM3.Sum s inp = .ok (s, (Model.SM3.sum ttGen (Proofs.SM3Gen.dec s) inp.toList).toArray) :=
  Proofs.SM3Gen.sum_eq_model s inp hwf hnx

/-- `Reset()` as generated: no panic; it decodes to the model's `reset` -/
theorem gen_reset_eq_model (s : Gen.SM3Code.SM3) (h8 : s.h.size = 8) :
    ∃ s', Gen.SM3Code.SM3.Reset s = .ok s'
      ∧ Proofs.SM3Gen.dec s' = Model.SM3.reset (Proofs.SM3Gen.dec s)
      ∧ s' = { s with h := Model.SM3.iv.toArray, nx := 0, len := 0 } :=
  ⟨_, Proofs.SM3Gen.reset_eq_model s h8, Proofs.SM3Gen.dec_reset s, rfl⟩

/-- `New()` as generated: the model's initial state, well-formed -/
theorem gen_new_eq_model :
    ∃ s0, Gen.SM3Code.New = .ok s0 ∧ Proofs.SM3Gen.dec s0 = Model.SM3.reset Model.SM3.zero
      ∧ Proofs.SM3Gen.WF s0 :=
  ⟨_, Proofs.SM3Gen.new_eq_model, Proofs.SM3Gen.dec_new,
    ⟨by simp [Model.SM3.iv], by simp, by simp, by simp⟩⟩

/-- `SumSM3(data)` as generated = the model's one-shot function -/
theorem gen_sumSM3_eq_model (data : Array UInt8) :
    Gen.SM3Code.SumSM3 data = .ok (Model.SM3.sumSM3 ttGen data.toList).toArray :=
  Proofs.SM3Gen.sumSM3_eq_model data

/-! ### (iv) histories -/

/-- every history of Write/Sum/Reset calls on `New()`, run through the generated functions
    (`Model.SM3Code.run`), never panics and answers, call by call, what the hand-written model answers -/
theorem gen_run_eq_model (ops : List Spec.SM3.Op) :
    Model.SM3Code.run ops = .ok (Model.SM3.run ttGen ops) :=
  Proofs.SM3Gen.run_eq_model ops

/-- C04 over the regenerated code: every history of Write/Sum/Reset calls on `New()`, run through the
    functions generated from sm3.go, answers what the specification `Spec.SM3.runHistory` says
    (`Write d` ↦ `len(d)`, `Sum in` ↦ `in ‖ SM3(bytes written since the last Reset)`), without panic -/
theorem C04_history_gen (ops : List Spec.SM3.Op) :
    Model.SM3Code.run ops = .ok (Spec.SM3.runHistory ops) := by
  rw [gen_run_eq_model, Props.C04.C04_history]

/-- the one-shot function over the regenerated code: `SumSM3(m)` is the standard digest of `m` -/
theorem C04_oneshot_gen (m : Array UInt8) :
    Gen.SM3Code.SumSM3 m = .ok (Spec.SM3.hash m.toList).toArray := by
  rw [gen_sumSM3_eq_model, Props.C04.C04_oneshot]

end SMGo.Props.C04Gen

#print axioms SMGo.Props.C04Gen.dec_def
#print axioms SMGo.Props.C04Gen.WF_iff
#print axioms SMGo.Props.C04Gen.dec_injective
#print axioms SMGo.Props.C04Gen.gen_vector_abc
#print axioms SMGo.Props.C04Gen.gen_vector_abcd16
#print axioms SMGo.Props.C04Gen.gen_history_multiwrite
#print axioms SMGo.Props.C04Gen.gen_tt_eq
#print axioms SMGo.Props.C04Gen.gen_helpers_eq_model
#print axioms SMGo.Props.C04Gen.gen_partiallyExpand_eq_model
#print axioms SMGo.Props.C04Gen.gen_cf_eq_model
#print axioms SMGo.Props.C04Gen.gen_cf_eq_spec
#print axioms SMGo.Props.C04Gen.gen_write_eq_model
#print axioms SMGo.Props.C04Gen.gen_checkSum_eq_model
#print axioms SMGo.Props.C04Gen.gen_sum_eq_model
#print axioms SMGo.Props.C04Gen.gen_reset_eq_model
#print axioms SMGo.Props.C04Gen.gen_new_eq_model
#print axioms SMGo.Props.C04Gen.gen_sumSM3_eq_model
#print axioms SMGo.Props.C04Gen.gen_run_eq_model
#print axioms SMGo.Props.C04Gen.C04_history_gen
#print axioms SMGo.Props.C04Gen.C04_oneshot_gen
