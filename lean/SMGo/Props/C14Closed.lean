/-
  Property C14, CLOSED — the scalar multiplications of sm2_curve.go return the right group element,
  for the concrete instance regenerated from the source, with NO table hypothesis left.
  (Property theorems only; the composition lemmas live in SMGo/Proofs/SM2SchemesInst.lean and
   SMGo/Proofs/SM2FactsInst.lean.)

  `Props/C14.lean` proves the three schedules for arbitrary point operations satisfying `Sem` and tables
  satisfying `TableValid` / `RemainderValid`; `Props/C15.lean` (§5) instantiates the point operations but
  keeps the tables as hypotheses; `Props/C18.lean` proves every entry of every generated table.  This
  file composes the three: every statement below is about

    * the point operations `Curve.pointOps Model.SM2.ctx.C` (`Add`/`Double` programs regenerated from
      sm2_point.go, evaluated with the Montgomery field `Model.SM2.Fp`), and
    * the tables of `SMGo/Gen/SM2Tables.lean`, rewritten from /repo/sm2/internal/sm2_tables.go on every
      check run,

  and has no hypothesis other than the length of the scalars (and `Rep P Q` for an input point).

  §1  Base-point multiplication, one theorem per `scalarBaseMult_SkipBitExtraction_<scheme>` of
      sm2_curve.go, with exactly the arguments the Go wrapper passes:
        6-3-14-4   (&sm2Precomputed_6_3_14, &sm2Precomputed_6_3_14_Remainder, 6, 3, 14, 4)  — `ScalarBaseMult`
        5-3-17-1   (&sm2Precomputed_5_3_17, &sm2Precomputed_5_3_17_Remainder, 5, 3, 17, 1)
        4-2-32-0   (&sm2Precomputed_4_2_32, nil, 4, 2, 32, 0)                               — nil is `[]`
        7-3-12-4   (&sm2Precomputed_7_3_12, &sm2Precomputed_7_3_12_Remainder, 7, 3, 12, 4)
      For ANY 32-byte k the call returns a projective representative (`Rep`, C15) of
      `Spec.SM2.smul (Bytes.toNatBE k) Spec.SM2.G` — no range condition on k: 0, n, values above n and
      2^256-1 are instances — and for any other length it returns an error.
  §2  Variable-point multiplication `[k]P` (scalar of any length) and double-scalar multiplication
      `[g]G + [s]P` (the 6-3-14-4 tables stored in `Model.SM2.ctx`) for the instance.
  §3  Non-vacuity: the theorems instantiated on concrete scalars.
-/
import SMGo.Proofs.SM2SchemesInst
namespace SMGo.Props.C14Closed
open SMGo SMGo.Model SMGo.Model.SM2
open SMGo.Gen.SM2Tables
open SMGo.Proofs.PointRep (Rep)
open SMGo.Proofs.SM2FactsInst (ctx_C ctx_first ctx_second)
open SMGo.Proofs.SM2SchemesInst
open SMGo.Model.Point (Pt)

/-! ## §1  Base-point multiplication, all four comb schemes -/

/-- 6-3-14-4 (`scalarBaseMult_SkipBitExtraction_6_3_14`, the body of `ScalarBaseMult`) -/
theorem baseMult_6_3_14 (k : Bytes) (hk : k.length = 32) :
    ∃ P, Curve.scalarBaseMult (Curve.pointOps ctx.C) k sm2Precomputed_6_3_14 sm2Precomputed_6_3_14_Remainder
        6 3 14 4 = .ok P ∧
      Rep P (Spec.SM2.smul (Bytes.toNatBE k) Spec.SM2.G) := by
  rw [ctx_C]
  exact baseMult_rep_scheme (by decide) (by decide) (by decide) first_6_3_14_valid
    (fun _ => second_6_3_14_valid) k hk

theorem baseMult_6_3_14_len (k : Bytes) (hk : k.length ≠ 32) :
    Curve.scalarBaseMult (Curve.pointOps ctx.C) k sm2Precomputed_6_3_14 sm2Precomputed_6_3_14_Remainder
      6 3 14 4 = .err := by
  rw [ctx_C]
  exact baseMult_len_err_scheme _ (by decide) (by decide) (by decide) (by decide) first_6_3_14_valid k hk

/-- 5-3-17-1 (`scalarBaseMult_SkipBitExtraction_5_3_17`) -/
theorem baseMult_5_3_17 (k : Bytes) (hk : k.length = 32) :
    ∃ P, Curve.scalarBaseMult (Curve.pointOps ctx.C) k sm2Precomputed_5_3_17 sm2Precomputed_5_3_17_Remainder
        5 3 17 1 = .ok P ∧
      Rep P (Spec.SM2.smul (Bytes.toNatBE k) Spec.SM2.G) := by
  rw [ctx_C]
  exact baseMult_rep_scheme (by decide) (by decide) (by decide) first_5_3_17_valid
    (fun _ => second_5_3_17_valid) k hk

theorem baseMult_5_3_17_len (k : Bytes) (hk : k.length ≠ 32) :
    Curve.scalarBaseMult (Curve.pointOps ctx.C) k sm2Precomputed_5_3_17 sm2Precomputed_5_3_17_Remainder
      5 3 17 1 = .err := by
  rw [ctx_C]
  exact baseMult_len_err_scheme _ (by decide) (by decide) (by decide) (by decide) first_5_3_17_valid k hk

/-- 4-2-32-0 (`scalarBaseMult_SkipBitExtraction_4_2_32`): no remainder table, the code passes nil -/
theorem baseMult_4_2_32 (k : Bytes) (hk : k.length = 32) :
    ∃ P, Curve.scalarBaseMult (Curve.pointOps ctx.C) k sm2Precomputed_4_2_32 [] 4 2 32 0 = .ok P ∧
      Rep P (Spec.SM2.smul (Bytes.toNatBE k) Spec.SM2.G) := by
  rw [ctx_C]
  exact baseMult_rep_scheme (by decide) (by decide) (by decide) first_4_2_32_valid
    (fun h => absurd h (by decide)) k hk

theorem baseMult_4_2_32_len (k : Bytes) (hk : k.length ≠ 32) :
    Curve.scalarBaseMult (Curve.pointOps ctx.C) k sm2Precomputed_4_2_32 [] 4 2 32 0 = .err := by
  rw [ctx_C]
  exact baseMult_len_err_scheme _ (by decide) (by decide) (by decide) (by decide) first_4_2_32_valid k hk

/-- … and whatever is passed in place of nil is ignored (remainder 0) -/
theorem baseMult_4_2_32_any_second (second : Curve.Table) (k : Bytes) (hk : k.length = 32) :
    ∃ P, Curve.scalarBaseMult (Curve.pointOps ctx.C) k sm2Precomputed_4_2_32 second 4 2 32 0 = .ok P ∧
      Rep P (Spec.SM2.smul (Bytes.toNatBE k) Spec.SM2.G) := by
  rw [ctx_C]
  exact baseMult_rep_scheme (by decide) (by decide) (by decide) first_4_2_32_valid
    (fun h => absurd h (by decide)) k hk

/-- 7-3-12-4 (`scalarBaseMult_SkipBitExtraction_7_3_12`) -/
theorem baseMult_7_3_12 (k : Bytes) (hk : k.length = 32) :
    ∃ P, Curve.scalarBaseMult (Curve.pointOps ctx.C) k sm2Precomputed_7_3_12 sm2Precomputed_7_3_12_Remainder
        7 3 12 4 = .ok P ∧
      Rep P (Spec.SM2.smul (Bytes.toNatBE k) Spec.SM2.G) := by
  rw [ctx_C]
  exact baseMult_rep_scheme (by decide) (by decide) (by decide) first_7_3_12_valid
    (fun _ => second_7_3_12_valid) k hk

theorem baseMult_7_3_12_len (k : Bytes) (hk : k.length ≠ 32) :
    Curve.scalarBaseMult (Curve.pointOps ctx.C) k sm2Precomputed_7_3_12 sm2Precomputed_7_3_12_Remainder
      7 3 12 4 = .err := by
  rw [ctx_C]
  exact baseMult_len_err_scheme _ (by decide) (by decide) (by decide) (by decide) first_7_3_12_valid k hk

/-- the entry point of the protocol layer, `Model.SM2.scalarBaseMult ctx` (= `ScalarBaseMult`), is the
    6-3-14-4 call on the tables stored in the context, which are the generated ones -/
theorem ctx_scalarBaseMult_eq (k : Bytes) :
    scalarBaseMult ctx k =
      Curve.scalarBaseMult (Curve.pointOps ctx.C) k sm2Precomputed_6_3_14 sm2Precomputed_6_3_14_Remainder
        6 3 14 4 := rfl

theorem ctx_baseMult (k : Bytes) (hk : k.length = 32) :
    ∃ P, scalarBaseMult ctx k = .ok P ∧ Rep P (Spec.SM2.smul (Bytes.toNatBE k) Spec.SM2.G) :=
  Proofs.SM2FactsInst.ctx_baseMult k hk

theorem ctx_baseMult_len (k : Bytes) (hk : k.length ≠ 32) : scalarBaseMult ctx k = .err :=
  Proofs.SM2FactsInst.ctx_baseMult_len k hk

/-- the four schemes agree: on every 32-byte scalar all four calls succeed and return representatives of
    one and the same affine point -/
theorem baseMult_schemes_agree (k : Bytes) (hk : k.length = 32) :
    ∃ (Q : Spec.SM2.Point) (P1 P2 P3 P4 : Pt Nat),
      Curve.scalarBaseMult (Curve.pointOps ctx.C) k sm2Precomputed_6_3_14 sm2Precomputed_6_3_14_Remainder
        6 3 14 4 = .ok P1 ∧
      Curve.scalarBaseMult (Curve.pointOps ctx.C) k sm2Precomputed_5_3_17 sm2Precomputed_5_3_17_Remainder
        5 3 17 1 = .ok P2 ∧
      Curve.scalarBaseMult (Curve.pointOps ctx.C) k sm2Precomputed_4_2_32 [] 4 2 32 0 = .ok P3 ∧
      Curve.scalarBaseMult (Curve.pointOps ctx.C) k sm2Precomputed_7_3_12 sm2Precomputed_7_3_12_Remainder
        7 3 12 4 = .ok P4 ∧
      Rep P1 Q ∧ Rep P2 Q ∧ Rep P3 Q ∧ Rep P4 Q ∧
      Point.bytes ctx.C P1 true = Spec.SM2.pointBytes Q ∧ Point.bytes ctx.C P2 true = Spec.SM2.pointBytes Q ∧
      Point.bytes ctx.C P3 true = Spec.SM2.pointBytes Q ∧ Point.bytes ctx.C P4 true = Spec.SM2.pointBytes Q := by
  obtain ⟨P1, e1, r1⟩ := baseMult_6_3_14 k hk
  obtain ⟨P2, e2, r2⟩ := baseMult_5_3_17 k hk
  obtain ⟨P3, e3, r3⟩ := baseMult_4_2_32 k hk
  obtain ⟨P4, e4, r4⟩ := baseMult_7_3_12 k hk
  refine ⟨_, P1, P2, P3, P4, e1, e2, e3, e4, r1, r2, r3, r4, ?_, ?_, ?_, ?_⟩ <;> rw [ctx_C]
  · exact (Props.C15.bytes_rep r1).1
  · exact (Props.C15.bytes_rep r2).1
  · exact (Props.C15.bytes_rep r3).1
  · exact (Props.C15.bytes_rep r4).1

/-! ## §2  Variable-point and double-scalar multiplication of the instance -/

/-- `ScalarMult(P, scalar)`: `[scalar]Q` for every represented point and a scalar of ANY length
    (the empty scalar gives O) -/
theorem ctx_mult {P : Pt Nat} {Q : Spec.SM2.Point} (hP : Rep P Q) (scalar : Bytes) :
    ∃ S, Curve.scalarMult (Curve.pointOps ctx.C) P scalar = .ok S ∧
      Rep S (Spec.SM2.smul (Bytes.toNatBE scalar) Q) := by
  rw [ctx_C]
  exact Props.C15.mult_rep hP scalar

/-- `ScalarMixedMult_Unsafe(g, P, s)` on the tables of the context: `[g]G + [s]Q` for all 32-byte g, s
    and every represented point -/
theorem ctx_mixedMult (g s : Bytes) (P : Pt Nat) (Q : Spec.SM2.Point) (hg : g.length = 32)
    (hs : s.length = 32) (hP : Rep P Q) :
    ∃ R, Curve.scalarMixedMult (Curve.pointOps ctx.C) g P s ctx.first ctx.second = .ok R ∧
      Rep R (Spec.SM2.add (Spec.SM2.smul (Bytes.toNatBE g) Spec.SM2.G)
        (Spec.SM2.smul (Bytes.toNatBE s) Q)) :=
  Proofs.SM2FactsInst.ctx_mixedMult g s P Q hg hs hP

/-- the same with the tables named: the generated 6-3-14 tables (sm2_curve.go indexes
    `sm2Precomputed_6_3_14` and `sm2Precomputed_6_3_14_Remainder` directly) -/
theorem mixedMult_6_3_14 (g s : Bytes) (P : Pt Nat) (Q : Spec.SM2.Point) (hg : g.length = 32)
    (hs : s.length = 32) (hP : Rep P Q) :
    ∃ R, Curve.scalarMixedMult (Curve.pointOps ctx.C) g P s sm2Precomputed_6_3_14
        sm2Precomputed_6_3_14_Remainder = .ok R ∧
      Rep R (Spec.SM2.add (Spec.SM2.smul (Bytes.toNatBE g) Spec.SM2.G)
        (Spec.SM2.smul (Bytes.toNatBE s) Q)) := by
  rw [← ctx_first, ← ctx_second]
  exact Proofs.SM2FactsInst.ctx_mixedMult g s P Q hg hs hP

/-- a second scalar shorter than 32 bytes is a caller bug: the call panics (index out of range in the NAF
    recoding), whatever the other arguments are -/
theorem ctx_mixedMult_short_scalar_panics (g s : Bytes) (P : Pt Nat) (hs : s.length < 32) :
    Curve.scalarMixedMult (Curve.pointOps ctx.C) g P s ctx.first ctx.second = .panic :=
  Props.C14.mixedMult_short_scalar_panics _ g P s _ _ hs

/-! ## §3  Non-vacuity -/

/-- the theorems apply to concrete scalars: k = 2^256 - 1 (above n) in every scheme -/
example : ∃ P, Curve.scalarBaseMult (Curve.pointOps ctx.C) (List.replicate 32 0xff) sm2Precomputed_6_3_14
      sm2Precomputed_6_3_14_Remainder 6 3 14 4 = .ok P ∧
    Rep P (Spec.SM2.smul (Bytes.toNatBE (List.replicate 32 0xff)) Spec.SM2.G) :=
  baseMult_6_3_14 _ (by decide)

example : ∃ P, Curve.scalarBaseMult (Curve.pointOps ctx.C) (List.replicate 32 0xff) sm2Precomputed_5_3_17
      sm2Precomputed_5_3_17_Remainder 5 3 17 1 = .ok P ∧
    Rep P (Spec.SM2.smul (Bytes.toNatBE (List.replicate 32 0xff)) Spec.SM2.G) :=
  baseMult_5_3_17 _ (by decide)

example : ∃ P, Curve.scalarBaseMult (Curve.pointOps ctx.C) (List.replicate 32 0xff) sm2Precomputed_4_2_32
      [] 4 2 32 0 = .ok P ∧
    Rep P (Spec.SM2.smul (Bytes.toNatBE (List.replicate 32 0xff)) Spec.SM2.G) :=
  baseMult_4_2_32 _ (by decide)

example : ∃ P, Curve.scalarBaseMult (Curve.pointOps ctx.C) (List.replicate 32 0xff) sm2Precomputed_7_3_12
      sm2Precomputed_7_3_12_Remainder 7 3 12 4 = .ok P ∧
    Rep P (Spec.SM2.smul (Bytes.toNatBE (List.replicate 32 0xff)) Spec.SM2.G) :=
  baseMult_7_3_12 _ (by decide)

/-- the right-hand side evaluated (specification only, in the kernel): k = 1 gives G, k = n gives O,
    k = n + 1 gives G again -/
theorem smul_examples :
    Spec.SM2.smul (Bytes.toNatBE (Bytes.ofNatBE 32 1)) Spec.SM2.G = Spec.SM2.G ∧
    Spec.SM2.smul (Bytes.toNatBE (Bytes.ofNatBE 32 Spec.SM2.n)) Spec.SM2.G = none ∧
    Spec.SM2.smul (Bytes.toNatBE (Bytes.ofNatBE 32 (Spec.SM2.n + 1))) Spec.SM2.G = Spec.SM2.G := by
  decide +kernel

/-- hence: in every scheme k = 1 returns a representative of G and k = n a representative of O -/
example :
    (∃ P, Curve.scalarBaseMult (Curve.pointOps ctx.C) (Bytes.ofNatBE 32 1) sm2Precomputed_6_3_14
      sm2Precomputed_6_3_14_Remainder 6 3 14 4 = .ok P ∧ Rep P Spec.SM2.G) ∧
    (∃ P, Curve.scalarBaseMult (Curve.pointOps ctx.C) (Bytes.ofNatBE 32 1) sm2Precomputed_5_3_17
      sm2Precomputed_5_3_17_Remainder 5 3 17 1 = .ok P ∧ Rep P Spec.SM2.G) ∧
    (∃ P, Curve.scalarBaseMult (Curve.pointOps ctx.C) (Bytes.ofNatBE 32 1) sm2Precomputed_4_2_32
      [] 4 2 32 0 = .ok P ∧ Rep P Spec.SM2.G) ∧
    (∃ P, Curve.scalarBaseMult (Curve.pointOps ctx.C) (Bytes.ofNatBE 32 1) sm2Precomputed_7_3_12
      sm2Precomputed_7_3_12_Remainder 7 3 12 4 = .ok P ∧ Rep P Spec.SM2.G) := by
  have hl : (Bytes.ofNatBE 32 1).length = 32 := by decide
  refine ⟨?_, ?_, ?_, ?_⟩
  · obtain ⟨P, e, r⟩ := baseMult_6_3_14 _ hl; exact ⟨P, e, smul_examples.1 ▸ r⟩
  · obtain ⟨P, e, r⟩ := baseMult_5_3_17 _ hl; exact ⟨P, e, smul_examples.1 ▸ r⟩
  · obtain ⟨P, e, r⟩ := baseMult_4_2_32 _ hl; exact ⟨P, e, smul_examples.1 ▸ r⟩
  · obtain ⟨P, e, r⟩ := baseMult_7_3_12 _ hl; exact ⟨P, e, smul_examples.1 ▸ r⟩

example :
    (∃ P, Curve.scalarBaseMult (Curve.pointOps ctx.C) (Bytes.ofNatBE 32 Spec.SM2.n) sm2Precomputed_5_3_17
      sm2Precomputed_5_3_17_Remainder 5 3 17 1 = .ok P ∧ Rep P none) ∧
    (∃ P, Curve.scalarBaseMult (Curve.pointOps ctx.C) (Bytes.ofNatBE 32 Spec.SM2.n) sm2Precomputed_4_2_32
      [] 4 2 32 0 = .ok P ∧ Rep P none) := by
  have hl : (Bytes.ofNatBE 32 Spec.SM2.n).length = 32 := by decide +kernel
  refine ⟨?_, ?_⟩
  · obtain ⟨P, e, r⟩ := baseMult_5_3_17 _ hl; exact ⟨P, e, smul_examples.2.1 ▸ r⟩
  · obtain ⟨P, e, r⟩ := baseMult_4_2_32 _ hl; exact ⟨P, e, smul_examples.2.1 ▸ r⟩

/-- wrong lengths are errors in every scheme (31 and 33 bytes, and the empty scalar) -/
example :
    Curve.scalarBaseMult (Curve.pointOps ctx.C) (List.replicate 31 1) sm2Precomputed_6_3_14
      sm2Precomputed_6_3_14_Remainder 6 3 14 4 = .err ∧
    Curve.scalarBaseMult (Curve.pointOps ctx.C) (List.replicate 33 1) sm2Precomputed_5_3_17
      sm2Precomputed_5_3_17_Remainder 5 3 17 1 = .err ∧
    Curve.scalarBaseMult (Curve.pointOps ctx.C) [] sm2Precomputed_4_2_32 [] 4 2 32 0 = .err ∧
    Curve.scalarBaseMult (Curve.pointOps ctx.C) (List.replicate 33 1) sm2Precomputed_7_3_12
      sm2Precomputed_7_3_12_Remainder 7 3 12 4 = .err :=
  ⟨baseMult_6_3_14_len _ (by decide), baseMult_5_3_17_len _ (by decide), baseMult_4_2_32_len _ (by decide),
   baseMult_7_3_12_len _ (by decide)⟩

/-- variable-point and double-scalar multiplication on the generator as built by the code -/
example : ∃ S, Curve.scalarMult (Curve.pointOps ctx.C) generator [0x01, 0x00, 0x00] = .ok S ∧
    Rep S (Spec.SM2.smul 65536 Spec.SM2.G) :=
  ctx_mult Props.C15.generator_rep [0x01, 0x00, 0x00]

example : ∃ R, Curve.scalarMixedMult (Curve.pointOps ctx.C) (List.replicate 32 0xff) generator
      (List.replicate 32 0x55) ctx.first ctx.second = .ok R ∧
    Rep R (Spec.SM2.add (Spec.SM2.smul (Bytes.toNatBE (List.replicate 32 0xff)) Spec.SM2.G)
      (Spec.SM2.smul (Bytes.toNatBE (List.replicate 32 0x55)) Spec.SM2.G)) :=
  ctx_mixedMult _ _ _ _ (by decide) (by decide) Props.C15.generator_rep

/-! ### tests (labelled as tests): the MODEL itself evaluated in the kernel, one scalar per scheme

    The scalar is the private key of the standard's example (GB/T 32918.2-2016 Annex A / GM/T 0003.5); the
    expected encoding is that of the standard's public key.  (The theorems above make these evaluations
    redundant; they are an independent run of the executable model on the non-default schemes.) -/

def exK : Bytes := Bytes.ofNatBE 32 0x3945208F7B2144B13F36E38AC6D39F95889393692860B51A42FB81EF4DF7C5B8
def exPub : Spec.SM2.Point :=
  some (0x09F9DF311E5421A150DD7D161E4BC5C672179FAD1833FC076BB08FF356F35020,
        0xCCEA490CE26775A52DC6EA718CC1AA600AED05FBF35E084A6632F6072DA9AD13)

set_option maxRecDepth 100000 in
theorem test_model_6_3_14 :
    (Curve.scalarBaseMult (Curve.pointOps ctx.C) exK sm2Precomputed_6_3_14 sm2Precomputed_6_3_14_Remainder
      6 3 14 4 >>= fun P => pure (Point.bytes ctx.C P false)) = .ok (Spec.SM2.pointBytes exPub) := by
  decide +kernel

set_option maxRecDepth 100000 in
theorem test_model_5_3_17 :
    (Curve.scalarBaseMult (Curve.pointOps ctx.C) exK sm2Precomputed_5_3_17 sm2Precomputed_5_3_17_Remainder
      5 3 17 1 >>= fun P => pure (Point.bytes ctx.C P false)) = .ok (Spec.SM2.pointBytes exPub) := by
  decide +kernel

set_option maxRecDepth 100000 in
theorem test_model_4_2_32 :
    (Curve.scalarBaseMult (Curve.pointOps ctx.C) exK sm2Precomputed_4_2_32 [] 4 2 32 0
      >>= fun P => pure (Point.bytes ctx.C P false)) = .ok (Spec.SM2.pointBytes exPub) := by
  decide +kernel

set_option maxRecDepth 100000 in
theorem test_model_7_3_12 :
    (Curve.scalarBaseMult (Curve.pointOps ctx.C) exK sm2Precomputed_7_3_12 sm2Precomputed_7_3_12_Remainder
      7 3 12 4 >>= fun P => pure (Point.bytes ctx.C P false)) = .ok (Spec.SM2.pointBytes exPub) := by
  decide +kernel

/-- … and the specification agrees that this is `[k]G` -/
theorem test_spec_exPub : Spec.SM2.smul (Bytes.toNatBE exK) Spec.SM2.G = exPub := by decide +kernel

end SMGo.Props.C14Closed

#print axioms SMGo.Props.C14Closed.baseMult_6_3_14
#print axioms SMGo.Props.C14Closed.baseMult_6_3_14_len
#print axioms SMGo.Props.C14Closed.baseMult_5_3_17
#print axioms SMGo.Props.C14Closed.baseMult_5_3_17_len
#print axioms SMGo.Props.C14Closed.baseMult_4_2_32
#print axioms SMGo.Props.C14Closed.baseMult_4_2_32_len
#print axioms SMGo.Props.C14Closed.baseMult_4_2_32_any_second
#print axioms SMGo.Props.C14Closed.baseMult_7_3_12
#print axioms SMGo.Props.C14Closed.baseMult_7_3_12_len
#print axioms SMGo.Props.C14Closed.ctx_scalarBaseMult_eq
#print axioms SMGo.Props.C14Closed.ctx_baseMult
#print axioms SMGo.Props.C14Closed.ctx_baseMult_len
#print axioms SMGo.Props.C14Closed.baseMult_schemes_agree
#print axioms SMGo.Props.C14Closed.ctx_mult
#print axioms SMGo.Props.C14Closed.ctx_mixedMult
#print axioms SMGo.Props.C14Closed.mixedMult_6_3_14
#print axioms SMGo.Props.C14Closed.ctx_mixedMult_short_scalar_panics
#print axioms SMGo.Props.C14Closed.smul_examples
#print axioms SMGo.Props.C14Closed.test_model_6_3_14
#print axioms SMGo.Props.C14Closed.test_model_5_3_17
#print axioms SMGo.Props.C14Closed.test_model_4_2_32
#print axioms SMGo.Props.C14Closed.test_model_7_3_12
#print axioms SMGo.Props.C14Closed.test_spec_exPub
