/-
  Properties C06 / C07 / C10 (refinement of the generated IR): the Go GLUE of the accelerated SM4-GCM paths
  (/repo/sm4/sm4_gcm_arm64.go — on arm64 this glue IS the mode of operation — and /repo/sm4/sm4_gcm_amd64.go), as
  regenerated in SMGo/Gen/CTIRProgSM4.lean (translator sub-command `ctirsm4`) and run by the interpreter of
  SMGo/Model/CTIR.lean, computes the SPECIFICATION `Spec.GCM.sealGCM` / `openGCM` (SP 800-38D Algorithms 4 / 5), for ALL
  lengths in the glue's domain, with explicit fuel.  (Property theorems only; proofs in SMGo/Proofs/CTIRRefineGCMLeaf.lean
  (interface), CTIRRefineGCMSmall.lean, CTIRRefineGCMCrypt.lean, CTIRRefineGCMSeal.lean, CTIRRefineGCMCompose.lean,
  CTIRRefineGCMAmd64.lean.)

  The assembly leaf routines are external calls of the IR, answered by `asmOracle asmSpecs sem` for an assembly semantics
  `sem`.  The INTERFACE is the structure `LeafOk O E rk` (`LeafSpec sem E rk` for `O = asmOracle specsA sem`):
  `cryptoBlockAsm/X2/X4/X8/X16` = n consecutive blocks through `E` (SM4 with the receiver's round keys), `xor16/…/256` = bytewise
  XOR of N bytes, `gHashBlocks(H, tag, data, count)` = `count` steps `(tag ⊕ block) • H` — what Props/C05Arm64 and Props/C06Arm64
  prove about the arm64 LISTINGS; on amd64 `LeafOkAmd64`: the fused routines `sealAsm` / `openAsm` = Algorithm 4 / 5 (Props/C06
  `sealAsm_eq_spec`, Props/C07 `openAsm_eq_spec`), `needExpand`, `copyAsm`.  Both interfaces are INHABITED by the semantics built
  from the specification functions, the one the driver and the harness (runner C09G) use: `specSem_leafSpec`, `leafSpecAmd64_sem`.
  Every callee of Seal / Open is proved (no `Computes` hypothesis is left): `glueCallees_PA`.

  Encodings and domain: byte strings are `bytesV`; the receiver is exploded (cipher, roundKeys, nonceSize, tagSize; `CipherOk c rk`:
  the cipher's encryption round keys are the value `rk`), the hidden last argument is `cap(dst)`; results: `dst` (a written
  parameter, unchanged in value) and the Go results.  Hypotheses are Go's own checks and types: `len(nonce) = nonceSize`,
  `len(plaintext) ≤ ((1<<32)-2)·16` (`maxPlain`), `tagSize ≤ 16` (12 ≤ tagSize for Open: NewGCM), `len(dst) ≤ cap < 2^62`,
  `len(aad) < 2^61`, `nonceSize < 2^61` (`len << 3` on uint64).  Outside: the explicit panics (`*_panics_*`) and the
  ciphertext-too-long refusal of Open (`open_computes_long`, `ir_Open_amd64_too_long`; `openGCM` has no length bound) are stated
  separately.  The IR works on VALUES: `ensureCapacity` extends dst by zero bytes where Go exposes the old bytes of the backing
  array (all overwritten before they are read), and in-place use (dst overlapping the input) is not expressible at this level — it is
  the subject of the heap-level model Props/C10Arm64 (`sealA64_appends`, `openA64_decides`) and of the `*_inplace_*` listing theorems.
  On amd64 the listing theorems carry region bounds < 2^32 while the glue's bound is `maxPlain` ≈ 2^36: instantiating `LeafOkAmd64`
  from the listings covers lengths below 2^32 (a domain gap between the two interfaces, not a disagreement).
  Bounds of `&a[i]`: every pointer argument of a routine is an index expression; the IR reads the element first (stuck when i ≥ len a,
  like Go's panic).  Hence `rk_ne` (the round-key slice is not empty) in both interfaces, `0 < len(pt) + tagSize` for the amd64 Seal
  (`ir_Seal_amd64_stuck_empty` is the panic case), and the mutant theorem `ir_Open_amd64_mutant_stuck`.  `LeafOk.gh` is stated for
  `count ≥ 1` only (the routine is a do-while; Props/C06Arm64 has the same premise): the listing theorems can discharge it.
  No IR/specification disagreement was found.  Axioms: propext, Classical.choice, Quot.sound.
-/
import SMGo.Proofs.CTIRRefineGCMCompose
import SMGo.Proofs.CTIRRefineGCMAmd64

namespace SMGo.Props.C06IR
open SMGo SMGo.Proofs SMGo.Model.CTIR SMGo.Proofs.CTIRRefineUtils
open SMGo.Proofs.CTIRRefineField (Computes Pre)
open SMGo.Spec.GCM
open SMGo.Model.GCMGlueA64 (blocksE ghBlocks specGh)
open SMGo.Proofs.GCMGlueA64 (ctrBlocks)
open SMGo.Proofs.GCM (ghFold)
open SMGo.Proofs.CTIRRefineGCM
open SMGo.Proofs.CTIRRefineGCM.Crypt (fuelCB)
open SMGo.Gen.CTIRProgSM4.Arm64 (fn_6)
variable {P : Prog} {G : Nat → Val} {O : Oracle} {E : Bytes → Bytes} {c rk : Val} {ns ts : Nat} {Ffill : Nat}

/-! ## (1) arm64: the small routines (SMGo/Proofs/CTIRRefineGCMSmall.lean) -/

/-- the leaf interface is inhabited: the semantics built from Spec.SM4 / Spec.GCM (the driver's) satisfies it -/
theorem specSem_leafSpec (rkw : List W32) (hrk : rkw ≠ []) :
    LeafSpec (specSem rkw) (Spec.SM4.cryptFast rkw) (wordsV rkw) :=
  SMGo.Proofs.CTIRRefineGCM.specSem_leafSpec rkw hrk

/-- fillCounter16/32/64/128/256: the n counter blocks J+count+1 … J+count+n (32-bit wrap) -/
theorem ir_fillCounterN_eq (hP : HasSmall P) : FillOk P G O fuelFill :=
  SMGo.Proofs.CTIRRefineGCM.fillOk hP

theorem ir_fillSingleBlock_eq (hP : HasSmall P) (dst J : Bytes) (v : Nat) (hd : 16 ≤ dst.length)
    (hd2 : dst.length < 2 ^ 63) (hJ : J.length = 16) :
    Computes P G O 8 fuelFsb [bytesV dst, bytesV J, .int (v : Int)] [bytesV (fsb J dst v)] :=
  SMGo.Proofs.CTIRRefineGCM.fillSingleBlock_computes hP dst J v hd hd2 hJ

/-- calculateFirstCounter, both nonce branches = the pre-counter block J0 of the specification -/
theorem ir_calculateFirstCounter_eq (hP : HasSmall P) (hO : LeafOk O E rk) (nonce H : Bytes) (hH : H.length = 16)
    (hn : nonce.length < 2 ^ 61) :
    Computes P G O 2 fuelCfc (recv c rk ns ts ++ [bytesV nonce, bytesV (List.replicate 16 0), bytesV H])
      [bytesV (natToBlock (j0 (blockToNat H) nonce))] :=
  SMGo.Proofs.CTIRRefineGCM.firstCounter_computes hP hO nonce H hH hn

/-- gHashUpdate = GHASH resumed from the tag over the zero-padded input -/
theorem ir_gHashUpdate_eq (hP : HasSmall P) (hO : LeafOk O E rk) (H tag inp : Bytes) (hH : H.length = 16)
    (ht : tag.length = 16) (hlen : inp.length < 2 ^ 63) :
    Computes P G O 3 fuelGhu (recv c rk ns ts ++ [bytesV H, bytesV tag, bytesV inp])
      [bytesV (natToBlock (ghFold (blockToNat H) (blockToNat tag) (pad16 inp)))] :=
  SMGo.Proofs.CTIRRefineGCM.ghUpdate_computes hP hO H tag inp hH ht hlen

/-- gHashFinish = the length block -/
theorem ir_gHashFinish_eq (hP : HasSmall P) (hO : LeafOk O E rk) (H tag : Bytes) (a p : Nat) (hH : H.length = 16)
    (ht : tag.length = 16) (ha : a < 2 ^ 61) (hp : p < 2 ^ 61) :
    Computes P G O 4 fuelGhf (recv c rk ns ts ++ [bytesV H, bytesV tag, .int (a : Int), .int (p : Int)])
      [bytesV (natToBlock (ghFold (blockToNat H) (blockToNat tag) (be64 (8 * a) ++ be64 (8 * p))))] :=
  SMGo.Proofs.CTIRRefineGCM.ghFinish_computes hP hO H tag a p hH ht ha hp

/-- (*sm4CipherAsm).Encrypt -/
theorem ir_Encrypt_eq (hP : HasSmall P) (hO : LeafOk O E rk) (hc : CipherOk c rk) (dst src : Bytes)
    (hd : 16 ≤ dst.length) (hs : 16 ≤ src.length) :
    Computes P G O 1 fuelEnc [c, bytesV dst, bytesV src] [bytesV (E (src.take 16) ++ dst.drop 16)] :=
  SMGo.Proofs.CTIRRefineGCM.encrypt_computes hP hO hc dst src hd hs

/-- ensureCapacity (arm64: head and tail offset) -/
theorem ir_ensureCapacity_arm64_eq (hP : HasSmall P) (arr : Bytes) (asked cap : Nat) (h1 : arr.length ≤ cap) (h2 : cap < 2 ^ 62)
    (h3 : asked < 2 ^ 62) :
    Computes P G O 5 fuelEns [bytesV arr, .int (asked : Int), .int (cap : Int)]
      [bytesV arr, bytesV (arr ++ List.replicate asked 0), .int (arr.length : Int)] :=
  SMGo.Proofs.CTIRRefineGCM.ensure_computes hP arr asked cap h1 h2 h3

/-! ## (2) arm64: cryptoBlocks = GCTR (SMGo/Proofs/CTIRRefineGCMCrypt.lean) -/

/-- the 256-byte loop, the 128/64/32/16-byte stages and the 1..15-byte tail = GCTR_K(inc32(J0), in), every length ≤ maxPlain -/
theorem ir_cryptoBlocks_eq_gctr (hO : LeafOk O E rk) (c : Val) (ns ts : Nat) (out inp J : Bytes) (hJ : J.length = 16)
    (hle : inp.length ≤ out.length) (hmax : inp.length ≤ maxPlain) :
    Computes PA G O 6 (fuelCrypt inp.length) (recv c rk ns ts ++ [rk, bytesV out, bytesV inp, bytesV J])
      [bytesV (gctr E (inc32 (blockToNat J)) inp ++ out.drop inp.length)] :=
  SMGo.Proofs.CTIRRefineGCM.cryptoBlocks_computes hO c ns ts out inp J hJ hle hmax

theorem fuelCrypt_eq (l : Nat) : fuelCrypt l = l / 16 / 16 * 504 + 2670 :=
  SMGo.Proofs.CTIRRefineGCM.fuelCrypt_eq l

/-- every callee of Seal / Open, as the bundle the modular theorems take -/
theorem glueCallees_PA (hO : LeafOk O E rk) (hc : CipherOk c rk) (ns ts : Nat) :
    GlueCallees PA G O E c rk ns ts fuelEnc fuelCfc fuelGhu fuelGhf fuelEns fuelCrypt :=
  SMGo.Proofs.CTIRRefineGCM.glueCallees_PA hO hc ns ts

/-- the same for any program containing fn_6, modulo fillCounterN -/
theorem ir_cryptoBlocks_eq_gctr_of_fill (h6 : P[6]? = some fn_6) (hO : LeafOk O E rk) (hF : FillOk P G O Ffill) (c : Val) (ns ts : Nat)
    (out inp J : Bytes) (hJ : J.length = 16) (hle : inp.length ≤ out.length) (hmax : inp.length ≤ maxPlain) :
    Computes P G O 6 (fuelCB Ffill inp.length) (recv c rk ns ts ++ [rk, bytesV out, bytesV inp, bytesV J])
      [bytesV (gctr E (inc32 (blockToNat J)) inp ++ out.drop inp.length)] :=
  SMGo.Proofs.CTIRRefineGCM.Crypt.crypto_computes h6 hO hF c ns ts out inp J hJ hle hmax

/-! ## (3) arm64: Seal and Open (SMGo/Proofs/CTIRRefineGCMSeal.lean, CTIRRefineGCMCompose.lean) -/

/-- Seal = Algorithm 4 for every oracle satisfying the leaf specifications -/
theorem ir_Seal_arm64_eq_spec (hO : LeafOk O E rk) (hc : CipherOk c rk) {ns ts : Nat} (dst nonce pt aad : Bytes) (cap : Nat)
    (hn : nonce.length = ns) (hns : ns < 2 ^ 61) (hpt : pt.length ≤ maxPlain) (hcap : dst.length ≤ cap) (hts : ts ≤ 16)
    (hcap62 : cap < 2 ^ 62) (haad : aad.length < 2 ^ 61) :
    ∀ f, fuelSealOpen pt.length ≤ f →
      runV PA G O f 0 (glueArgs c rk ns ts dst nonce pt aad cap)
        = .ret [bytesV dst, bytesV (dst ++ sealGCM E ts nonce pt aad)] :=
  SMGo.Proofs.CTIRRefineGCM.ir_Seal_arm64_eq_spec hO hc dst nonce pt aad cap hn hns hpt hcap hts hcap62 haad

/-- Open decides as Algorithm 5 -/
theorem ir_Open_arm64_eq_spec (hO : LeafOk O E rk) (hc : CipherOk c rk) {ns ts : Nat} (dst nonce ct aad : Bytes) (cap : Nat)
    (hn : nonce.length = ns) (hns : ns < 2 ^ 61) (h12 : 12 ≤ ts) (hts : ts ≤ 16) (hlen : ct.length ≤ maxPlain + ts)
    (hcap : dst.length ≤ cap) (hcap62 : cap < 2 ^ 62) (haad : aad.length < 2 ^ 61) :
    ∀ f, fuelSealOpen (ct.length - ts) ≤ f →
      runV PA G O f 13 (glueArgs c rk ns ts dst nonce ct aad cap) =
        match openGCM E ts nonce ct aad with
        | some pt => .ret [bytesV dst, bytesV (dst ++ pt), .int 0]
        | none => .ret [bytesV dst, .arr [], G 0] :=
  SMGo.Proofs.CTIRRefineGCM.ir_Open_arm64_eq_spec hO hc dst nonce ct aad cap hn hns h12 hts hlen hcap hcap62 haad

/-- for an assembly semantics `sem` with `LeafSpec sem E rk` -/
theorem ir_Seal_arm64_eq_spec_sem {G : Nat → Val} {sem : Nat → List Val → Nat → List Int} {E : Bytes → Bytes} {c rk : Val}
    (hS : LeafSpec sem E rk) (hc : CipherOk c rk) {ns ts : Nat} (dst nonce pt aad : Bytes) (cap : Nat)
    (hn : nonce.length = ns) (hns : ns < 2 ^ 61) (hpt : pt.length ≤ maxPlain) (hcap : dst.length ≤ cap) (hts : ts ≤ 16)
    (hcap62 : cap < 2 ^ 62) (haad : aad.length < 2 ^ 61) :
    ∀ f, fuelSealOpen pt.length ≤ f →
      runV PA G (asmOracle specsA sem) f 0 (glueArgs c rk ns ts dst nonce pt aad cap)
        = .ret [bytesV dst, bytesV (dst ++ sealGCM E ts nonce pt aad)] :=
  SMGo.Proofs.CTIRRefineGCM.ir_Seal_arm64_eq_spec_sem hS hc dst nonce pt aad cap hn hns hpt hcap hts hcap62 haad

theorem ir_Open_arm64_eq_spec_sem {G : Nat → Val} {sem : Nat → List Val → Nat → List Int} {E : Bytes → Bytes} {c rk : Val}
    (hS : LeafSpec sem E rk) (hc : CipherOk c rk) {ns ts : Nat} (dst nonce ct aad : Bytes) (cap : Nat)
    (hn : nonce.length = ns) (hns : ns < 2 ^ 61) (h12 : 12 ≤ ts) (hts : ts ≤ 16) (hlen : ct.length ≤ maxPlain + ts)
    (hcap : dst.length ≤ cap) (hcap62 : cap < 2 ^ 62) (haad : aad.length < 2 ^ 61) :
    ∀ f, fuelSealOpen (ct.length - ts) ≤ f →
      runV PA G (asmOracle specsA sem) f 13 (glueArgs c rk ns ts dst nonce ct aad cap) =
        match openGCM E ts nonce ct aad with
        | some pt => .ret [bytesV dst, bytesV (dst ++ pt), .int 0]
        | none => .ret [bytesV dst, .arr [], G 0] :=
  SMGo.Proofs.CTIRRefineGCM.ir_Open_arm64_eq_spec_sem hS hc dst nonce ct aad cap hn hns h12 hts hlen hcap hcap62 haad

/-- closed: generated program and globals, specification semantics of the leaves, SM4 with round keys rkw -/
theorem ir_Seal_arm64_closed (rkw : List W32) (hrk : rkw ≠ []) (rest : List Val) {ns ts : Nat} (dst nonce pt aad : Bytes) (cap : Nat)
    (hn : nonce.length = ns) (hns : ns < 2 ^ 61) (hpt : pt.length ≤ maxPlain) (hcap : dst.length ≤ cap) (hts : ts ≤ 16)
    (hcap62 : cap < 2 ^ 62) (haad : aad.length < 2 ^ 61) :
    ∀ f, fuelSealOpen pt.length ≤ f →
      runV PA GA (asmOracle specsA (specSem rkw)) f 0 (glueArgs (cipherV rkw rest) (wordsV rkw) ns ts dst nonce pt aad cap)
        = .ret [bytesV dst, bytesV (dst ++ sealGCM (Spec.SM4.cryptFast rkw) ts nonce pt aad)] :=
  SMGo.Proofs.CTIRRefineGCM.ir_Seal_arm64_closed rkw hrk rest dst nonce pt aad cap hn hns hpt hcap hts hcap62 haad

theorem ir_Open_arm64_closed (rkw : List W32) (hrk : rkw ≠ []) (rest : List Val) {ns ts : Nat} (dst nonce ct aad : Bytes) (cap : Nat)
    (hn : nonce.length = ns) (hns : ns < 2 ^ 61) (h12 : 12 ≤ ts) (hts : ts ≤ 16) (hlen : ct.length ≤ maxPlain + ts)
    (hcap : dst.length ≤ cap) (hcap62 : cap < 2 ^ 62) (haad : aad.length < 2 ^ 61) :
    ∀ f, fuelSealOpen (ct.length - ts) ≤ f →
      runV PA GA (asmOracle specsA (specSem rkw)) f 13 (glueArgs (cipherV rkw rest) (wordsV rkw) ns ts dst nonce ct aad cap) =
        match openGCM (Spec.SM4.cryptFast rkw) ts nonce ct aad with
        | some pt => .ret [bytesV dst, bytesV (dst ++ pt), .int 0]
        | none => .ret [bytesV dst, .arr [], .int 1] :=
  SMGo.Proofs.CTIRRefineGCM.ir_Open_arm64_closed rkw hrk rest dst nonce ct aad cap hn hns h12 hts hlen hcap hcap62 haad

theorem fuelSealOpen_eq (l : Nat) : fuelSealOpen l = l / 16 / 16 * 504 + 3106 :=
  SMGo.Proofs.CTIRRefineGCM.fuelSealOpen_eq l

/-- modular form (any program containing fn_0, callees as hypotheses) -/
theorem ir_Seal_arm64_eq_spec_of_callees (h0 : P[0]? = some SMGo.Gen.CTIRProgSM4.Arm64.fn_0) (hL : LeafOk O E rk)
    (hC : GlueCallees P G O E c rk ns ts Fenc Fcfc Fghu Fghf Fens Fcb)
    (dst nonce pt aad : Bytes) (cap : Nat)
    (hn : nonce.length = ns) (hns : ns < 2 ^ 61) (hpt : pt.length ≤ maxPlain) (hcap : dst.length ≤ cap) (hts : ts ≤ 16)
    (hcap62 : cap < 2 ^ 62) (haad : aad.length < 2 ^ 61) :
    ∀ f, fuelGlue Fenc Fcfc Fghu Fghf Fens Fcb pt.length ≤ f →
      runV P G O f 0 (glueArgs c rk ns ts dst nonce pt aad cap)
        = .ret [bytesV dst, bytesV (dst ++ sealGCM E ts nonce pt aad)] :=
  SMGo.Proofs.CTIRRefineGCM.ir_Seal_arm64_eq_spec_of_callees h0 hL hC dst nonce pt aad cap hn hns hpt hcap hts hcap62 haad

theorem ir_Open_arm64_eq_spec_of_callees (h13 : P[13]? = some SMGo.Gen.CTIRProgSM4.Arm64.fn_13) (hL : LeafOk O E rk)
    (hC : GlueCallees P G O E c rk ns ts Fenc Fcfc Fghu Fghf Fens Fcb)
    (dst nonce ct aad : Bytes) (cap : Nat)
    (hn : nonce.length = ns) (hns : ns < 2 ^ 61) (h12 : 12 ≤ ts) (hts : ts ≤ 16) (hlen : ct.length ≤ maxPlain + ts)
    (hcap : dst.length ≤ cap) (hcap62 : cap < 2 ^ 62) (haad : aad.length < 2 ^ 61) :
    ∀ f, fuelGlue Fenc Fcfc Fghu Fghf Fens Fcb (ct.length - ts) ≤ f →
      runV P G O f 13 (glueArgs c rk ns ts dst nonce ct aad cap) =
        match openGCM E ts nonce ct aad with
        | some pt => .ret [bytesV dst, bytesV (dst ++ pt), .int 0]
        | none => .ret [bytesV dst, .arr [], G 0] :=
  SMGo.Proofs.CTIRRefineGCM.ir_Open_arm64_eq_spec_of_callees h13 hL hC dst nonce ct aad cap hn hns h12 hts hlen hcap hcap62 haad

theorem seal_panics_nonce (h0 : P[0]? = some SMGo.Gen.CTIRProgSM4.Arm64.fn_0)
    (dst nonce pt aad : Bytes) (cap : Nat) (hn : nonce.length ≠ ns) :
    ∀ f, 4 ≤ f → runV P G O f 0 (glueArgs c rk ns ts dst nonce pt aad cap) = .panic :=
  SMGo.Proofs.CTIRRefineGCM.seal_panics_nonce h0 dst nonce pt aad cap hn

theorem seal_panics_long (h0 : P[0]? = some SMGo.Gen.CTIRProgSM4.Arm64.fn_0)
    (dst nonce pt aad : Bytes) (cap : Nat) (hn : nonce.length = ns) (hpt : maxPlain < pt.length)
    (hpt63 : pt.length < 2 ^ 63) :
    ∀ f, 8 ≤ f → runV P G O f 0 (glueArgs c rk ns ts dst nonce pt aad cap) = .panic :=
  SMGo.Proofs.CTIRRefineGCM.seal_panics_long h0 dst nonce pt aad cap hn hpt hpt63

/-- ciphertext longer than maxPlain + tagSize: refused without any computation (outside the AEAD contract) -/
theorem open_computes_long (h13 : P[13]? = some SMGo.Gen.CTIRProgSM4.Arm64.fn_13)
    (dst nonce ct aad : Bytes) (cap : Nat) (hn : nonce.length = ns) (h12 : 12 ≤ ts) (hts : ts ≤ 16)
    (hl : maxPlain + ts < ct.length) (hl63 : ct.length < 2 ^ 63) :
    Computes P G O 13 14 (glueArgs c rk ns ts dst nonce ct aad cap) [bytesV dst, .arr [], G 0] :=
  SMGo.Proofs.CTIRRefineGCM.open_computes_long h13 dst nonce ct aad cap hn h12 hts hl hl63

theorem open_panics_nonce (h13 : P[13]? = some SMGo.Gen.CTIRProgSM4.Arm64.fn_13)
    (dst nonce ct aad : Bytes) (cap : Nat) (hn : nonce.length ≠ ns) :
    ∀ f, 4 ≤ f → runV P G O f 13 (glueArgs c rk ns ts dst nonce ct aad cap) = .panic :=
  SMGo.Proofs.CTIRRefineGCM.open_panics_nonce h13 dst nonce ct aad cap hn

theorem open_panics_tagSize (h13 : P[13]? = some SMGo.Gen.CTIRProgSM4.Arm64.fn_13)
    (dst nonce ct aad : Bytes) (cap : Nat) (hn : nonce.length = ns) (h12 : ts < 12) :
    ∀ f, 8 ≤ f → runV P G O f 13 (glueArgs c rk ns ts dst nonce ct aad cap) = .panic :=
  SMGo.Proofs.CTIRRefineGCM.open_panics_tagSize h13 dst nonce ct aad cap hn h12

theorem errOpen_value : GA 0 = .int 1 :=
  SMGo.Proofs.CTIRRefineGCM.errOpen_value 

end SMGo.Props.C06IR

namespace SMGo.Props.C06IR
open SMGo SMGo.Proofs SMGo.Model.CTIR SMGo.Proofs.CTIRRefineUtils
open SMGo.Proofs.CTIRRefineField (Computes)
open SMGo.Spec.GCM
open SMGo.Gen.CTIRProgSM4.Amd64 (fn_0 fn_1 fn_2)
open SMGo.Proofs.CTIRRefineGCMAmd64
variable {P : Prog} {G : Nat → Val} {O : Oracle} {E : Bytes → Bytes} {rk : Val}

/-! ## (4) amd64: ensureCapacity, Seal, Open around the fused routines (SMGo/Proofs/CTIRRefineGCMAmd64.lean) -/

/-- the amd64 leaf interface is inhabited -/
theorem leafSpecAmd64_sem (rkw : List W32) (hrk : rkw ≠ []) :
    LeafSpecAmd64 semAmd64 (Spec.SM4.cryptFast rkw) (.arr (rkw.map w32V)) :=
  SMGo.Proofs.CTIRRefineGCMAmd64.leafSpecAmd64_sem rkw hrk

theorem ensureCapacity_amd64_computes (h1 : P[1]? = some fn_1) (hL : LeafOkAmd64 O E rk) (arr : Bytes) (asked cap : Nat)
    (hc : arr.length ≤ cap) (hcap : cap < 2 ^ 63) (hsum : arr.length + asked < 2 ^ 63) :
    Computes P G O 1 fuelEnsAmd64 [bytesV arr, .int (asked : Int), .int (cap : Int)]
      [bytesV arr, bytesV (arr ++ List.replicate asked 0)] :=
  SMGo.Proofs.CTIRRefineGCMAmd64.ensureCapacity_amd64_computes h1 hL arr asked cap hc hcap hsum

theorem ir_Seal_amd64_eq_spec (h0 : P[0]? = some fn_0) (h1 : P[1]? = some fn_1) (hL : LeafOkAmd64 O E rk) (c : Val)
    (ns ts cap : Nat) (dst nonce pt aad : Bytes)
    (hn : nonce.length = ns) (hp : pt.length ≤ maxPlain) (hts : ts ≤ 16) (hne : 0 < pt.length + ts)
    (hc : dst.length ≤ cap) (hcap : cap < 2 ^ 62) :
    Computes P G O 0 fuelSealAmd64 (glueArgs c rk ns ts dst nonce pt aad cap)
      [bytesV dst, bytesV (dst ++ sealGCM E ts nonce pt aad)] :=
  SMGo.Proofs.CTIRRefineGCMAmd64.ir_Seal_amd64_eq_spec h0 h1 hL c ns ts cap dst nonce pt aad hn hp hts hne hc hcap

theorem ir_Open_amd64_eq_spec (h1 : P[1]? = some fn_1) (h2 : P[2]? = some fn_2) (hL : LeafOkAmd64 O E rk) (c : Val)
    (ns ts cap : Nat) (dst nonce ct aad : Bytes)
    (hn : nonce.length = ns) (hts : 12 ≤ ts) (hts' : ts ≤ 16) (hcl : ct.length ≤ maxPlain + ts)
    (hc : dst.length ≤ cap) (hcap : cap < 2 ^ 62) :
    Computes P G O 2 fuelOpenAmd64 (glueArgs c rk ns ts dst nonce ct aad cap)
      (match openGCM E ts nonce ct aad with
        | some pt => [bytesV dst, bytesV (dst ++ pt), .int 0]
        | none => [bytesV dst, .arr [], G 0]) :=
  SMGo.Proofs.CTIRRefineGCMAmd64.ir_Open_amd64_eq_spec h1 h2 hL c ns ts cap dst nonce ct aad hn hts hts' hcl hc hcap

theorem ir_Open_amd64_too_long (h2 : P[2]? = some fn_2) (c : Val) (ns ts cap : Nat) (dst nonce ct aad : Bytes)
    (hn : nonce.length = ns) (hts : 12 ≤ ts) (hts' : ts ≤ 16) (hcl : maxPlain + ts < ct.length) (h63 : ct.length < 2 ^ 63) :
    Computes P G O 2 fuelOpenAmd64 (glueArgs c rk ns ts dst nonce ct aad cap) [bytesV dst, .arr [], G 0] :=
  SMGo.Proofs.CTIRRefineGCMAmd64.ir_Open_amd64_too_long h2 c ns ts cap dst nonce ct aad hn hts hts' hcl h63

theorem ir_Seal_amd64_panic_nonce (h0 : P[0]? = some fn_0) (c : Val) (ns ts cap : Nat) (dst nonce pt aad : Bytes)
    (hn : nonce.length ≠ ns) : ∀ f, 4 ≤ f → runV P G O f 0 (glueArgs c rk ns ts dst nonce pt aad cap) = .panic :=
  SMGo.Proofs.CTIRRefineGCMAmd64.ir_Seal_amd64_panic_nonce h0 c ns ts cap dst nonce pt aad hn

theorem ir_Seal_amd64_panic_long (h0 : P[0]? = some fn_0) (c : Val) (ns ts cap : Nat) (dst nonce pt aad : Bytes)
    (hn : nonce.length = ns) (hp : maxPlain < pt.length) (hp63 : pt.length < 2 ^ 63) :
    ∀ f, 7 ≤ f → runV P G O f 0 (glueArgs c rk ns ts dst nonce pt aad cap) = .panic :=
  SMGo.Proofs.CTIRRefineGCMAmd64.ir_Seal_amd64_panic_long h0 c ns ts cap dst nonce pt aad hn hp hp63

theorem ir_Open_amd64_panic_nonce (h2 : P[2]? = some fn_2) (c : Val) (ns ts cap : Nat) (dst nonce ct aad : Bytes)
    (hn : nonce.length ≠ ns) : ∀ f, 4 ≤ f → runV P G O f 2 (glueArgs c rk ns ts dst nonce ct aad cap) = .panic :=
  SMGo.Proofs.CTIRRefineGCMAmd64.ir_Open_amd64_panic_nonce h2 c ns ts cap dst nonce ct aad hn

theorem ir_Open_amd64_panic_tag (h2 : P[2]? = some fn_2) (c : Val) (ns ts cap : Nat) (dst nonce ct aad : Bytes)
    (hn : nonce.length = ns) (hts : ts < 12) :
    ∀ f, 7 ≤ f → runV P G O f 2 (glueArgs c rk ns ts dst nonce ct aad cap) = .panic :=
  SMGo.Proofs.CTIRRefineGCMAmd64.ir_Open_amd64_panic_tag h2 c ns ts cap dst nonce ct aad hn hts

/-- tagSize = 0 and an empty plaintext: Go panics at `&ret[len(dst)]`, the IR is stuck -/
theorem ir_Seal_amd64_stuck_empty (h0 : P[0]? = some fn_0) (h1 : P[1]? = some fn_1) (hL : LeafOkAmd64 O E rk) (c : Val)
    (ns cap : Nat) (dst nonce aad : Bytes) (hn : nonce.length = ns) (hc : dst.length ≤ cap) (hcap : cap < 2 ^ 62) :
    ∀ f, runV P G O f 0 (glueArgs c rk ns 0 dst nonce [] aad cap) = .stuck :=
  SMGo.Proofs.CTIRRefineGCMAmd64.ir_Seal_amd64_stuck_empty h0 h1 hL c ns cap dst nonce aad hn hc hcap

/-- Open of a tag-only input with a valid tag -/
theorem ir_Open_amd64_tag_only (h1 : P[1]? = some fn_1) (h2 : P[2]? = some fn_2) (hL : LeafOkAmd64 O E rk) (c : Val)
    (ns ts cap : Nat) (dst nonce ct aad pt : Bytes)
    (hn : nonce.length = ns) (hts : 12 ≤ ts) (hts' : ts ≤ 16) (hct : ct.length = ts)
    (hc : dst.length ≤ cap) (hcap : cap < 2 ^ 62) (ho : openGCM E ts nonce ct aad = some pt) :
    Computes P G O 2 fuelOpenAmd64 (glueArgs c rk ns ts dst nonce ct aad cap) [bytesV dst, bytesV dst, .int 0] :=
  SMGo.Proofs.CTIRRefineGCMAmd64.ir_Open_amd64_tag_only h1 h2 hL c ns ts cap dst nonce ct aad pt hn hts hts' hct hc hcap ho

/-- the MUTANT `fn_2_mut` (guard of sm4_gcm_amd64.go:46 changed from > to >=) is stuck on every tag-only input: the refinement theorem distinguishes it from the real function -/
theorem ir_Open_amd64_mutant_stuck (h1 : P[1]? = some fn_1) (h2 : P[2]? = some fn_2_mut) (hL : LeafOkAmd64 O E rk) (c : Val)
    (ns ts cap : Nat) (dst nonce ct aad : Bytes)
    (hn : nonce.length = ns) (hts : 12 ≤ ts) (hts' : ts ≤ 16) (hct : ct.length = ts)
    (hc : dst.length ≤ cap) (hcap : cap < 2 ^ 62) :
    ∀ f, runV P G O f 2 (glueArgs c rk ns ts dst nonce ct aad cap) = .stuck :=
  SMGo.Proofs.CTIRRefineGCMAmd64.ir_Open_amd64_mutant_stuck h1 h2 hL c ns ts cap dst nonce ct aad hn hts hts' hct hc hcap

/-- closed: generated amd64 program, reference semantics -/
theorem run_Seal_amd64_ref (rkw : List W32) (hrk : rkw ≠ []) (c : Val) (ns ts cap : Nat) (dst nonce pt aad : Bytes)
    (hn : nonce.length = ns) (hp : pt.length ≤ maxPlain) (hts : ts ≤ 16) (hne : 0 < pt.length + ts)
    (hc : dst.length ≤ cap) (hcap : cap < 2 ^ 62)
    (f : Nat) (hf : fuelSealAmd64 ≤ f) :
    ∃ t, run PX GX (asmOracle specsX semAmd64) f 0 (glueArgs c (.arr (rkw.map w32V)) ns ts dst nonce pt aad cap)
      = some (.ret [bytesV dst, bytesV (dst ++ sealGCM (Spec.SM4.cryptFast rkw) ts nonce pt aad)], t) :=
  SMGo.Proofs.CTIRRefineGCMAmd64.run_Seal_amd64_ref rkw hrk c ns ts cap dst nonce pt aad hn hp hts hne hc hcap f hf

theorem run_Open_amd64_ref (rkw : List W32) (hrk : rkw ≠ []) (c : Val) (ns ts cap : Nat) (dst nonce ct aad : Bytes)
    (hn : nonce.length = ns) (hts : 12 ≤ ts) (hts' : ts ≤ 16) (hcl : ct.length ≤ maxPlain + ts)
    (hc : dst.length ≤ cap) (hcap : cap < 2 ^ 62) (f : Nat) (hf : fuelOpenAmd64 ≤ f) :
    ∃ t, run PX GX (asmOracle specsX semAmd64) f 2 (glueArgs c (.arr (rkw.map w32V)) ns ts dst nonce ct aad cap)
      = some (.ret (match openGCM (Spec.SM4.cryptFast rkw) ts nonce ct aad with
          | some pt => [bytesV dst, bytesV (dst ++ pt), .int 0]
          | none => [bytesV dst, .arr [], .int 1]), t) :=
  SMGo.Proofs.CTIRRefineGCMAmd64.run_Open_amd64_ref rkw hrk c ns ts cap dst nonce ct aad hn hts hts' hcl hc hcap f hf

end SMGo.Props.C06IR

namespace SMGo.Props.C06IR
#print axioms specSem_leafSpec
#print axioms ir_fillCounterN_eq
#print axioms ir_fillSingleBlock_eq
#print axioms ir_calculateFirstCounter_eq
#print axioms ir_gHashUpdate_eq
#print axioms ir_gHashFinish_eq
#print axioms ir_Encrypt_eq
#print axioms ir_ensureCapacity_arm64_eq
#print axioms ir_cryptoBlocks_eq_gctr
#print axioms fuelCrypt_eq
#print axioms glueCallees_PA
#print axioms ir_cryptoBlocks_eq_gctr_of_fill
#print axioms ir_Seal_arm64_eq_spec
#print axioms ir_Open_arm64_eq_spec
#print axioms ir_Seal_arm64_eq_spec_sem
#print axioms ir_Open_arm64_eq_spec_sem
#print axioms ir_Seal_arm64_closed
#print axioms ir_Open_arm64_closed
#print axioms fuelSealOpen_eq
#print axioms ir_Seal_arm64_eq_spec_of_callees
#print axioms ir_Open_arm64_eq_spec_of_callees
#print axioms seal_panics_nonce
#print axioms seal_panics_long
#print axioms open_computes_long
#print axioms open_panics_nonce
#print axioms open_panics_tagSize
#print axioms errOpen_value
#print axioms leafSpecAmd64_sem
#print axioms ensureCapacity_amd64_computes
#print axioms ir_Seal_amd64_eq_spec
#print axioms ir_Open_amd64_eq_spec
#print axioms ir_Open_amd64_too_long
#print axioms ir_Seal_amd64_panic_nonce
#print axioms ir_Seal_amd64_panic_long
#print axioms ir_Open_amd64_panic_nonce
#print axioms ir_Open_amd64_panic_tag
#print axioms ir_Seal_amd64_stuck_empty
#print axioms ir_Open_amd64_tag_only
#print axioms ir_Open_amd64_mutant_stuck
#print axioms run_Seal_amd64_ref
#print axioms run_Open_amd64_ref
end SMGo.Props.C06IR
