/-
  C18 (assembly constants), arm64 part that is not a DATA symbol.

  On arm64 the GHASH reduction constant is not stored in a read-only data block: `gcm_arm64.s` builds it with
  `MOVD $0x87, R9 ; VDUP R9, Reduce.D2` (Reduce = V13), so the `asmdata` translator never sees it.  The
  `listing` translator does (the macro-expanded listing of `gHashBlocks` is regenerated from `go tool asm -S`
  on every run), and the statements below are about that regenerated listing:

   * exactly one instruction of `gHashBlocks` writes V13 (by the operand-role table of Model/ISA.lean, under which
     an instruction with no role entry counts as a writer of everything): `VDUP R9, V13`;
   * exactly one instruction writes R9: `MOVD $135, R9`, and it precedes the VDUP, which precedes every reader of
     V13; no branch goes back to or before the VDUP (so the register holds the constant at every use, on every path);
   * 135 = 0x87 = x^7 + x^2 + x + 1, the low part of g(x) = x^128 + x^7 + x^2 + x + 1, i.e. the bit reflection of
     the 0xE1 of SP 800-38D's R, the same value as the amd64 symbol `GCM_POLY` (C18.gcm_poly);
   * the only arm64 routines that multiply carry-less (VPMULL/VPMULL2) are in `gHashBlocks`.

  What the VDUP broadcast and VPMULL do with the value is the meaning of the instructions (trusted; arm64 cannot be
  executed on this machine), exactly as for the amd64 constant.
-/
import SMGo.Gen.ListArm64Gcm
import SMGo.Gen.ListArm64Asm
import SMGo.Model.ISA
import SMGo.Proofs.AsmDataISA

namespace SMGo.Props.C18Arm64
open SMGo.Model.ISA SMGo.Proofs.AsmData

/-- Instructions that may write `r`: by the role table, or any instruction the table does not know. -/
def writers (prog : List Instr) (r : Reg) : List Instr :=
  prog.filter fun i => match effOf i with
    | some e => e.writes.contains r
    | none => true

def readers (prog : List Instr) (r : Reg) : List Instr :=
  prog.filter fun i => match effOf i with
    | some e => e.reads.contains r
    | none => true

def shape (i : Instr) : String × List Opd := (i.mn, i.ops)

def branchTargets (prog : List Instr) : List Nat :=
  prog.filterMap fun i => match effOf i with
    | some e => e.target
    | none => some 0

def usesClmul (prog : List Instr) : Bool := prog.any fun i => i.mn == "VPMULL" || i.mn == "VPMULL2"

open SMGo.Gen.ListArm64Gcm in
/-- The arm64 GHASH reduction constant: V13 is written once, by `VDUP R9, V13`, R9 once, by `MOVD $0x87, R9`,
    in that order and before every use; no branch returns to that prefix. -/
theorem arm64_ghash_reduce :
    (writers gHashBlocks (.vec 13)).map shape = [("VDUP", [.reg (.gpr 9), .reg (.vec 13)])]
    ∧ (writers gHashBlocks (.gpr 9)).map shape = [("MOVD", [.imm 135, .reg (.gpr 9)])]
    ∧ (∀ w ∈ writers gHashBlocks (.gpr 9), ∀ d ∈ writers gHashBlocks (.vec 13), w.pc < d.pc)
    ∧ (∀ d ∈ writers gHashBlocks (.vec 13), ∀ u ∈ readers gHashBlocks (.vec 13), d.pc < u.pc)
    ∧ (∀ d ∈ writers gHashBlocks (.vec 13), ∀ t ∈ branchTargets gHashBlocks, d.pc < t)
    ∧ (readers gHashBlocks (.vec 13)).length ≠ 0
    ∧ (∀ u ∈ readers gHashBlocks (.vec 13), u.mn = "VPMULL" ∨ u.mn = "VPMULL2") := by
  decide +kernel

/-- 0x87 is the low part of the GCM polynomial and the reflection of SP 800-38D's 0xE1. -/
theorem arm64_ghash_reduce_value :
    (135 : Nat) = 2 ^ 7 + 2 ^ 2 + 2 ^ 1 + 2 ^ 0 ∧ reflect 8 0xE1 = 135 := by
  decide +kernel

/-- Carry-less multiplication occurs in `gHashBlocks` only (all other arm64 routines need no reduction constant). -/
theorem arm64_clmul_only_in_ghash :
    usesClmul SMGo.Gen.ListArm64Gcm.gHashBlocks = true
    ∧ (SMGo.Gen.ListArm64Gcm.routines.filter (fun r => r.1 != "gHashBlocks")).all
        (fun r => !usesClmul r.2.flatten) = true
    ∧ SMGo.Gen.ListArm64Asm.routines.all (fun r => !usesClmul r.2.flatten) = true := by
  decide +kernel

end SMGo.Props.C18Arm64

#print axioms SMGo.Props.C18Arm64.arm64_ghash_reduce
#print axioms SMGo.Props.C18Arm64.arm64_ghash_reduce_value
#print axioms SMGo.Props.C18Arm64.arm64_clmul_only_in_ghash
