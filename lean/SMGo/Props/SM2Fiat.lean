/-
  Gap X1 of the audit — the SM2 theorems as theorems about the REGENERATED FIAT-CRYPTO CODE.

  `Model.SM2.ctx` (the context of C01–C03, C12–C15, C19, `Props/SM2Unconditional.lean`) computes on
  Montgomery residues as natural numbers (`montOps`): the proved meaning of the Fiat code.  C16 proves,
  one operation at a time, that the functions regenerated from fiat_sm2_64{,_scalar}.go refine `montOps`
  on canonical inputs.  This file states the COMPOSITION: the polymorphic models of the point, curve and
  protocol layers instantiated with the generated limb-level functions,

      `Model.SM2.ctxFiat : Model.SM2.Ctx (List Nat) (List Nat)`   (`Model/SM2InstFiat.lean`)

  — every field element a list of four 64-bit limbs, every field operation the generated `sm2Mul`,
  `sm2Square`, `sm2Add`, … (`.square` instructions of the point formulas run the generated, hand-edited
  `sm2Square`, not `sm2Mul x x`), inversion the generated addition chain over them — return, at every
  entry point of sm2.go, exactly what `ctx` returns.  Canonicity, the side condition of every C16
  theorem, is an invariant of the simulation (`RelF m l v := Canon m l ∧ eval l = v`); it holds for the
  decoded inputs, the constants, the table entries (checked in the kernel) and is preserved by every
  operation.

  Layers (proofs in `Proofs/FiatCompose{Point,Curve,Proto,Inst}.lean`, all for abstract related contexts):
    §1  field wrappers and point layer      (`RelPt`: coordinates related)
    §2  multiplication schedules            (`ORel (RelPt p)`: same outcome kind, related points)
    §3  protocol                            (equality)
    §4  the standard-level statements for `ctxFiat` (through `Props/SM2Unconditional.lean`).
-/
import SMGo.Proofs.FiatComposeInst
import SMGo.Props.SM2Unconditional
namespace SMGo.Props.SM2Fiat
open SMGo SMGo.Model SMGo.Model.SM2
open SMGo.Proofs.Fiat (Canon eval)
open SMGo.Proofs.FiatCompose
open SMGo.Model.Point (Pt)

/-- the relation between a limb list and a residue modulo `m`: canonical, and of that value -/
theorem RelF_def (m : Nat) (l : List Nat) (v : Nat) : RelF m l v ↔ (Canon m l ∧ eval l = v) := Iff.rfl

/-- points: the three coordinates related -/
theorem RelPt_def (m : Nat) (P : Pt (List Nat)) (Q : Pt Nat) :
    RelPt m P Q ↔ (RelF m P.x Q.x ∧ RelF m P.y Q.y ∧ RelF m P.z Q.z) := Iff.rfl

/-- the two contexts are related (fields by C16, same programs/tables/constants, canonical tables) -/
theorem ctx_related : CtxRel Spec.SM2.p Spec.SM2.n ctxFiat ctx := ctxRel

/-! ## 1. Field wrappers and point layer -/

/-- straight-line programs: evaluation over the generated functions (with the generated `Square`)
    preserves the relation of the register files -/
theorem fiat_slp_eval (prog : List SLP.Instr) {e1 : SLP.Env (List Nat)} {e2 : SLP.Env Nat}
    (he : EnvRel Spec.SM2.p e1 e2) :
    EnvRel Spec.SM2.p (SLP.eval (Point.slpOps fiatP) prog e1) (SLP.eval (Point.slpOps Fp) prog e2) :=
  eval_rel frel_p prog he

theorem fiat_infinity : RelPt Spec.SM2.p (Point.infinity ctxFiat.C) (Point.infinity ctx.C) :=
  infinity_rel ctxRel.C

theorem fiat_fromXY {x y : List Nat} (hx : Canon Spec.SM2.p x) (hy : Canon Spec.SM2.p y) :
    RelPt Spec.SM2.p (Point.fromXY ctxFiat.C x y) (Point.fromXY ctx.C x y) :=
  fromXY_rel ctxRel.C hx hy

theorem fiat_add {P1 P2 : Pt (List Nat)} {Q1 Q2 : Pt Nat} (h1 : RelPt Spec.SM2.p P1 Q1)
    (h2 : RelPt Spec.SM2.p P2 Q2) :
    RelPt Spec.SM2.p (Point.add ctxFiat.C P1 P2) (Point.add ctx.C Q1 Q2) :=
  add_rel ctxRel.C h1 h2

theorem fiat_double {P : Pt (List Nat)} {Q : Pt Nat} (h1 : RelPt Spec.SM2.p P Q) :
    RelPt Spec.SM2.p (Point.double ctxFiat.C P) (Point.double ctx.C Q) :=
  double_rel ctxRel.C h1

theorem fiat_negate {P : Pt (List Nat)} {Q : Pt Nat} (h1 : RelPt Spec.SM2.p P Q) :
    RelPt Spec.SM2.p (Point.negate ctxFiat.C P) (Point.negate ctx.C Q) :=
  negate_rel ctxRel.C h1

theorem fiat_point_checkOnCurve {x y : List Nat} {u v : Nat} (hx : RelF Spec.SM2.p x u)
    (hy : RelF Spec.SM2.p y v) :
    Point.checkOnCurve ctxFiat.C x y = Point.checkOnCurve ctx.C u v :=
  checkOnCurve_rel ctxRel.C hx hy

/-- decoding: the same verdict, and related points when accepted -/
theorem fiat_point_setBytes (b : Bytes) :
    ORel (RelPt Spec.SM2.p) (Point.setBytes ctxFiat.C b) (Point.setBytes ctx.C b) :=
  setBytes_rel ctxRel.C b

/-- encoding (safe: Fermat inversion by the generated chain; unsafe: `ModInverse`): the same bytes -/
theorem fiat_point_bytes {P : Pt (List Nat)} {Q : Pt Nat} (h1 : RelPt Spec.SM2.p P Q) (safe : Bool) :
    Point.bytes ctxFiat.C P safe = Point.bytes ctx.C Q safe :=
  bytes_rel ctxRel.C h1 safe

theorem fiat_getAffineX {P : Pt (List Nat)} {Q : Pt Nat} (h1 : RelPt Spec.SM2.p P Q) :
    Point.getAffineX ctxFiat.C P = Point.getAffineX ctx.C Q :=
  getAffineX_rel ctxRel.C h1

theorem fiat_getAffineXUnsafe {P : Pt (List Nat)} {Q : Pt Nat} (h1 : RelPt Spec.SM2.p P Q) :
    Point.getAffineXUnsafe ctxFiat.C P = Point.getAffineXUnsafe ctx.C Q :=
  getAffineXUnsafe_rel ctxRel.C h1

/-- the masked table look-up on a table of canonical entries (at most 255 of them) -/
theorem fiat_multiSelect {P : Pt (List Nat)} {Q : Pt Nat} (h1 : RelPt Spec.SM2.p P Q)
    (pre : Point.Table) (hpre : TableOK Spec.SM2.p pre) (hasZ : Bool) (width bits : Nat)
    (hw : width ≤ 255) :
    ORel (RelPt Spec.SM2.p) (Point.multiSelect ctxFiat.C P pre hasZ width bits)
      (Point.multiSelect ctx.C Q pre hasZ width bits) :=
  multiSelect_rel ctxRel.C h1 pre hpre hasZ width bits hw

theorem fiat_transformPrecomputed {l1 : List (Pt (List Nat))} {l2 : List (Pt Nat)}
    (hl : All2 (RelPt Spec.SM2.p) l1 l2) :
    Point.transformPrecomputed ctxFiat.C l1 = Point.transformPrecomputed ctx.C l2 ∧
      TableOK Spec.SM2.p (Point.transformPrecomputed ctxFiat.C l1) :=
  transform_rel ctxRel.C hl

/-- every entry of the generated 6-3-14 comb tables and of the remainder table is canonical -/
theorem fiat_tables_canonical :
    (∀ t ∈ ctx.first, TableOK Spec.SM2.p t) ∧ TableOK Spec.SM2.p ctx.second :=
  ⟨ctxRel.firstOK, ctxRel.secondOK⟩

/-! ## 2. Multiplication schedules -/

/-- `ScalarBaseMult` (comb 6-3-14-4 over the generated tables) -/
theorem fiat_scalarBaseMult (k : Bytes) :
    ORel (RelPt Spec.SM2.p) (scalarBaseMult ctxFiat k) (scalarBaseMult ctx k) :=
  scalarBaseMult_ctx ctxRel k

/-- the comb, any scheme, any tables of canonical entries -/
theorem fiat_comb (k : Bytes) (first : List Curve.Table) (second : Curve.Table)
    (window sub it rem : Nat) (hf : ∀ t ∈ first, TableOK Spec.SM2.p t) (hs : TableOK Spec.SM2.p second)
    (hl : (second.getD 0 []).length ≤ 255) :
    ORel (RelPt Spec.SM2.p)
      (Curve.scalarBaseMult (Curve.pointOps ctxFiat.C) k first second window sub it rem)
      (Curve.scalarBaseMult (Curve.pointOps ctx.C) k first second window sub it rem) :=
  scalarBaseMult_rel (pointOps_rel ctxRel.C) k first second window sub it rem hf hs hl

/-- `ScalarMult` (fixed 4-bit windows) -/
theorem fiat_scalarMult {P : Pt (List Nat)} {Q : Pt Nat} (h1 : RelPt Spec.SM2.p P Q) (scalar : Bytes) :
    ORel (RelPt Spec.SM2.p) (Curve.scalarMult (Curve.pointOps ctxFiat.C) P scalar)
      (Curve.scalarMult (Curve.pointOps ctx.C) Q scalar) :=
  scalarMult_rel (pointOps_rel ctxRel.C) h1 scalar

/-- `ScalarMixedMult_Unsafe` (comb + signed 4-NAF) -/
theorem fiat_scalarMixedMult (g : Bytes) {P : Pt (List Nat)} {Q : Pt Nat} (h1 : RelPt Spec.SM2.p P Q)
    (scalar : Bytes) :
    ORel (RelPt Spec.SM2.p)
      (Curve.scalarMixedMult (Curve.pointOps ctxFiat.C) g P scalar ctx.first ctx.second)
      (Curve.scalarMixedMult (Curve.pointOps ctx.C) g Q scalar ctx.first ctx.second) :=
  scalarMixedMult_rel (pointOps_rel ctxRel.C) g h1 scalar _ _ ctxRel.firstOK ctxRel.secondOK

/-! ## 3. Protocol: the limb-level context returns what `ctx` returns -/

theorem fiat_testPrivateKey_eq (priv : Bytes) : testPrivateKey ctxFiat priv = testPrivateKey ctx priv :=
  congrFun (testPrivateKey_eq ctxRel) priv

theorem fiat_derivePublic_eq (priv : Bytes) : derivePublic ctxFiat priv = derivePublic ctx priv :=
  derivePublic_eq ctxRel priv

theorem fiat_generateKey_eq (rand : Option Script) : generateKey ctxFiat rand = generateKey ctx rand :=
  generateKey_eq ctxRel rand

theorem fiat_checkOnCurve_eq (x y : Bytes) : checkOnCurve ctxFiat x y = checkOnCurve ctx x y :=
  checkOnCurve_eq ctxRel x y

theorem fiat_za_eq (id pubx puby : Bytes) : za ctxFiat id pubx puby = za ctx id pubx puby := by
  rw [za_eq ctxRel]

theorem fiat_hashZaMsg_eq (z msg : Bytes) : hashZaMsg ctxFiat z msg = hashZaMsg ctx z msg := by
  rw [hashZaMsg_eq ctxRel]

theorem fiat_signLoop_eq (priv e : Bytes) (fuel : Nat) (sc : Script) :
    signLoop ctxFiat priv e fuel sc = signLoop ctx priv e fuel sc :=
  signLoop_eq ctxRel priv e fuel sc

/-- **SignHashed** -/
theorem fiat_signHashed_eq (sc : Script) (priv e : Bytes) :
    signHashed ctxFiat sc priv e = signHashed ctx sc priv e := by
  rw [signHashed_eq ctxRel]

theorem fiat_signZa_eq (sc : Script) (priv z msg : Bytes) :
    signZa ctxFiat sc priv z msg = signZa ctx sc priv z msg := by
  rw [signZa_eq ctxRel]

theorem fiat_sign_eq (id pubx puby : Bytes) (sc : Script) (priv msg : Bytes) :
    sign ctxFiat id pubx puby sc priv msg = sign ctx id pubx puby sc priv msg := by
  rw [sign_eq ctxRel]

/-- **VerifyHashed** -/
theorem fiat_verifyHashed_eq (pubx puby e r s : Bytes) :
    verifyHashed ctxFiat pubx puby e r s = verifyHashed ctx pubx puby e r s := by
  rw [verifyHashed_eq ctxRel]

theorem fiat_verifyZa_eq (pubx puby z msg r s : Bytes) :
    verifyZa ctxFiat pubx puby z msg r s = verifyZa ctx pubx puby z msg r s := by
  rw [verifyZa_eq ctxRel]

theorem fiat_verify_eq (id pubx puby msg r s : Bytes) :
    verify ctxFiat id pubx puby msg r s = verify ctx id pubx puby msg r s := by
  rw [verify_eq ctxRel]

/-! ## 4. The standard-level statements for the limb-level context

    (C01, C02, C03, C12, C13, C19 for `ctxFiat`; each is the theorem of `Props/SM2Unconditional.lean`
    transported along §3.) -/

/-- **C02 for the generated code**: `SignHashed` over the Fiat functions outputs exactly the standard's
    signature for the first acceptable nonce of the random stream -/
theorem fiat_sign_is_standard (sc : Script) (priv e : Bytes) :
    signHashed ctxFiat sc priv e =
      (match Spec.SM2.signBytes priv e sc with
       | some (r, s, c) => .ok ((r, s), c)
       | none => .err) := by
  rw [fiat_signHashed_eq]; exact SM2.ctx_sign_is_standard_any_digest_length sc priv e

/-- **C03 for the generated code**: `VerifyHashed` accepts exactly what the standard's verification
    procedure accepts -/
theorem fiat_verify_iff_standard (px py e r s : Bytes) :
    verifyHashed ctxFiat px py e r s = .ok (Spec.SM2.verify px py e r s) := by
  rw [fiat_verifyHashed_eq]; exact SM2.ctx_verify_iff_standard px py e r s

theorem fiat_verify_true_iff (px py e r s : Bytes) :
    verifyHashed ctxFiat px py e r s = .ok true ↔
      (px.length = 32 ∧ py.length = 32 ∧ e.length = 32 ∧ r.length = 32 ∧ s.length = 32) ∧
      (1 ≤ Bytes.toNatBE r ∧ Bytes.toNatBE r < Spec.SM2.n) ∧
      (1 ≤ Bytes.toNatBE s ∧ Bytes.toNatBE s < Spec.SM2.n) ∧
      (Bytes.toNatBE r + Bytes.toNatBE s) % Spec.SM2.n ≠ 0 ∧
      (Bytes.toNatBE px < Spec.SM2.p ∧ Bytes.toNatBE py < Spec.SM2.p ∧
        Spec.SM2.onCurve (Bytes.toNatBE px) (Bytes.toNatBE py) = true) ∧
      ∃ x1 y1, Spec.SM2.add (Spec.SM2.smul (Bytes.toNatBE s) Spec.SM2.G)
          (Spec.SM2.smul ((Bytes.toNatBE r + Bytes.toNatBE s) % Spec.SM2.n)
            (some (Bytes.toNatBE px, Bytes.toNatBE py))) = some (x1, y1) ∧
        (Bytes.toNatBE e + x1) % Spec.SM2.n = Bytes.toNatBE r := by
  rw [fiat_verifyHashed_eq]; exact SM2.ctx_verify_true_iff px py e r s

/-- **C01 for the generated code**: what the signer returns, the verifier accepts -/
theorem fiat_sign_then_verify (sc : Script) (priv e r s : Bytes) (c x y : Nat) (he : e.length = 32)
    (hP : Spec.SM2.smul (Bytes.toNatBE priv) Spec.SM2.G = some (x, y))
    (h : signHashed ctxFiat sc priv e = .ok ((r, s), c)) :
    verifyHashed ctxFiat (Bytes.ofNatBE 32 x) (Bytes.ofNatBE 32 y) e r s = .ok true := by
  rw [fiat_signHashed_eq] at h
  rw [fiat_verifyHashed_eq]; exact SM2.ctx_sign_then_verify sc priv e r s c x y he hP h

theorem fiat_sign_then_verify_derived (sc : Script) (priv e r s px py : Bytes) (c : Nat)
    (he : e.length = 32) (hpub : derivePublic ctxFiat priv = .ok (px, py))
    (h : signHashed ctxFiat sc priv e = .ok ((r, s), c)) :
    verifyHashed ctxFiat px py e r s = .ok true := by
  rw [fiat_signHashed_eq] at h
  rw [fiat_derivePublic_eq] at hpub
  rw [fiat_verifyHashed_eq]; exact SM2.ctx_sign_then_verify_derived sc priv e r s px py c he hpub h

theorem fiat_signZa_then_verifyZa (sc : Script) (priv z msg r s : Bytes) (c x y : Nat)
    (hP : Spec.SM2.smul (Bytes.toNatBE priv) Spec.SM2.G = some (x, y))
    (h : signZa ctxFiat sc priv z msg = .ok ((r, s), c)) :
    verifyZa ctxFiat (Bytes.ofNatBE 32 x) (Bytes.ofNatBE 32 y) z msg r s = .ok true := by
  rw [fiat_signZa_eq] at h
  rw [fiat_verifyZa_eq]; exact SM2.ctx_signZa_then_verifyZa sc priv z msg r s c x y hP h

theorem fiat_signId_then_verifyId (id : Bytes) (sc : Script) (priv msg r s : Bytes) (c x y : Nat)
    (hP : Spec.SM2.smul (Bytes.toNatBE priv) Spec.SM2.G = some (x, y))
    (h : sign ctxFiat id (Bytes.ofNatBE 32 x) (Bytes.ofNatBE 32 y) sc priv msg = .ok ((r, s), c)) :
    verify ctxFiat id (Bytes.ofNatBE 32 x) (Bytes.ofNatBE 32 y) msg r s = .ok true := by
  rw [fiat_sign_eq] at h
  rw [fiat_verify_eq]; exact SM2.ctx_signId_then_verifyId id sc priv msg r s c x y hP h

/-- neither call panics -/
theorem fiat_signHashed_no_panic (sc : Script) (priv e : Bytes) : signHashed ctxFiat sc priv e ≠ .panic := by
  rw [fiat_signHashed_eq]; exact SM2.ctx_signHashed_no_panic sc priv e

theorem fiat_sign_no_panic (id px py : Bytes) (sc : Script) (priv msg : Bytes) :
    sign ctxFiat id px py sc priv msg ≠ .panic := by
  rw [fiat_sign_eq]; exact SM2.ctx_sign_no_panic id px py sc priv msg

theorem fiat_verifyHashed_no_panic (px py e r s : Bytes) : verifyHashed ctxFiat px py e r s ≠ .panic := by
  rw [fiat_verifyHashed_eq]; exact SM2.ctx_verifyHashed_no_panic px py e r s

theorem fiat_verify_no_panic (id px py msg r s : Bytes) : verify ctxFiat id px py msg r s ≠ .panic := by
  rw [fiat_verify_eq]; exact SM2.ctx_verify_no_panic id px py msg r s

theorem fiat_sign_succeeds (sc : Script) (priv e : Bytes) (j r s : Nat) (hl : priv.length ≤ 32)
    (hv : Spec.SM2.validKey (Bytes.toNatBE priv) = true)
    (hs : Spec.SM2.signStream (Bytes.toNatBE priv) (Bytes.toNatBE e)
      ((Spec.SM2.candidates sc []).map Bytes.toNatBE) 0 = some (j, r, s)) :
    signHashed ctxFiat sc priv e = .ok ((Bytes.ofNatBE 32 r, Bytes.ofNatBE 32 s), 32 * (j + 1)) := by
  rw [fiat_signHashed_eq]; exact SM2.ctx_sign_succeeds sc priv e j r s hl hv hs

theorem fiat_invalid_key_refused (sc : Script) (priv e : Bytes)
    (h : ¬ (priv.length ≤ 32 ∧ Spec.SM2.validKey (Bytes.toNatBE priv) = true)) :
    signHashed ctxFiat sc priv e = .err := by
  rw [fiat_signHashed_eq]; exact SM2.ctx_invalid_key_refused sc priv e h

theorem fiat_testPrivateKey_exact (priv : Bytes) :
    testPrivateKey ctxFiat priv = .ok (if priv.length > 32 then (priv.length : Int) - 32
      else if Spec.SM2.validKey (Bytes.toNatBE priv) then 0 else -1) := by
  rw [fiat_testPrivateKey_eq]; exact SM2.ctx_testPrivateKey_exact priv

/-- **C12 for the generated code**: key generation, public-key derivation, on-curve test -/
theorem fiat_generateKey_spec (sc : Option Script) :
    generateKey ctxFiat sc =
      (match Spec.SM2.genKey sc with
       | some (d, x, y, c) => .ok ((d, x, y), c)
       | none => .err) := by
  rw [fiat_generateKey_eq]; exact SM2.ctx_generateKey_spec sc

theorem fiat_derivePublic_spec (priv : Bytes) :
    derivePublic ctxFiat priv =
      (match Spec.SM2.derive priv with
       | some (x, y) => .ok (x, y)
       | none => .err) := by
  rw [fiat_derivePublic_eq]; exact SM2.ctx_derivePublic_spec priv

theorem fiat_checkOnCurve_spec (x y : Bytes) : checkOnCurve ctxFiat x y = Spec.SM2.onCurveBytes x y := by
  rw [fiat_checkOnCurve_eq]; exact SM2.ctx_checkOnCurve_spec x y

/-- **C19 for the generated code** -/
theorem fiat_genKey_error_iff (sc : Option Script) :
    (generateKey ctxFiat sc = .err ↔ Spec.SM2.genKey sc = none) ∧ generateKey ctxFiat sc ≠ .panic := by
  rw [fiat_generateKey_eq]; exact SM2.ctx_genKey_error_iff sc

/-- **C13 for the generated code**: ZA and the id/message-level entry points -/
theorem fiat_za_spec (id px py : Bytes) :
    za ctxFiat id px py =
      (match Spec.SM2.za id px py with
       | some z => .ok z
       | none => .err) := by
  rw [fiat_za_eq]; exact SM2.ctx_za_spec id px py

theorem fiat_verifyZa_iff_standard (px py z msg r s : Bytes) :
    verifyZa ctxFiat px py z msg r s = .ok (Spec.SM2.verify px py (Spec.SM2.digest z msg) r s) := by
  rw [fiat_verifyZa_eq]; exact SM2.ctx_verifyZa_iff_standard px py z msg r s

theorem fiat_sign_interop (id px py : Bytes) (sc : Script) (priv msg : Bytes) :
    sign ctxFiat id px py sc priv msg
      = C13.ofOption ((Spec.SM2.signIdBytes id px py priv msg sc).map (fun t => ((t.1, t.2.1), t.2.2))) := by
  rw [fiat_sign_eq]; exact SM2.ctx_sign_interop id px py sc priv msg

theorem fiat_verify_interop (id px py msg r s : Bytes) :
    verify ctxFiat id px py msg r s = .ok (Spec.SM2.verifyId id px py msg r s) := by
  rw [fiat_verify_eq]; exact SM2.ctx_verify_interop id px py msg r s

/-! ## Non-vacuity: the example of the standard, for the limb-level context
    (the model is not evaluated: the statements follow from §3 and the kernel-evaluated specification) -/

theorem fiat_standard_example_signHashed :
    signHashed ctxFiat [.data SM2.exK] SM2.exD SM2.exE = .ok ((SM2.exR, SM2.exS), 32) := by
  rw [fiat_signHashed_eq]; exact SM2.ctx_standard_example_signHashed

theorem fiat_standard_example_derivePublic : derivePublic ctxFiat SM2.exD = .ok (SM2.exPx, SM2.exPy) := by
  rw [fiat_derivePublic_eq]; exact SM2.ctx_standard_example_derivePublic

theorem fiat_standard_example_verifyHashed :
    verifyHashed ctxFiat SM2.exPx SM2.exPy SM2.exE SM2.exR SM2.exS = .ok true := by
  rw [fiat_verifyHashed_eq]; exact SM2.ctx_standard_example_verifyHashed

theorem fiat_standard_example_sign :
    sign ctxFiat SM2.exId SM2.exPx SM2.exPy [.data SM2.exK] SM2.exD SM2.exMsg
      = .ok ((SM2.exR, SM2.exS), 32) := by
  rw [fiat_sign_eq]; exact SM2.ctx_standard_example_sign

theorem fiat_standard_example_verify :
    verify ctxFiat SM2.exId SM2.exPx SM2.exPy SM2.exMsg SM2.exR SM2.exS = .ok true := by
  rw [fiat_verify_eq]; exact SM2.ctx_standard_example_verify

end SMGo.Props.SM2Fiat

open SMGo.Props.SM2Fiat
#print axioms ctx_related
#print axioms fiat_slp_eval
#print axioms fiat_infinity
#print axioms fiat_fromXY
#print axioms fiat_add
#print axioms fiat_double
#print axioms fiat_negate
#print axioms fiat_point_checkOnCurve
#print axioms fiat_point_setBytes
#print axioms fiat_point_bytes
#print axioms fiat_getAffineX
#print axioms fiat_getAffineXUnsafe
#print axioms fiat_multiSelect
#print axioms fiat_transformPrecomputed
#print axioms fiat_tables_canonical
#print axioms fiat_scalarBaseMult
#print axioms fiat_comb
#print axioms fiat_scalarMult
#print axioms fiat_scalarMixedMult
#print axioms fiat_testPrivateKey_eq
#print axioms fiat_derivePublic_eq
#print axioms fiat_generateKey_eq
#print axioms fiat_checkOnCurve_eq
#print axioms fiat_za_eq
#print axioms fiat_hashZaMsg_eq
#print axioms fiat_signLoop_eq
#print axioms fiat_signHashed_eq
#print axioms fiat_signZa_eq
#print axioms fiat_sign_eq
#print axioms fiat_verifyHashed_eq
#print axioms fiat_verifyZa_eq
#print axioms fiat_verify_eq
#print axioms fiat_sign_is_standard
#print axioms fiat_verify_iff_standard
#print axioms fiat_verify_true_iff
#print axioms fiat_sign_then_verify
#print axioms fiat_sign_then_verify_derived
#print axioms fiat_signZa_then_verifyZa
#print axioms fiat_signId_then_verifyId
#print axioms fiat_signHashed_no_panic
#print axioms fiat_sign_no_panic
#print axioms fiat_verifyHashed_no_panic
#print axioms fiat_verify_no_panic
#print axioms fiat_sign_succeeds
#print axioms fiat_invalid_key_refused
#print axioms fiat_testPrivateKey_exact
#print axioms fiat_generateKey_spec
#print axioms fiat_derivePublic_spec
#print axioms fiat_checkOnCurve_spec
#print axioms fiat_genKey_error_iff
#print axioms fiat_za_spec
#print axioms fiat_verifyZa_iff_standard
#print axioms fiat_sign_interop
#print axioms fiat_verify_interop
#print axioms fiat_standard_example_signHashed
#print axioms fiat_standard_example_derivePublic
#print axioms fiat_standard_example_verifyHashed
#print axioms fiat_standard_example_sign
#print axioms fiat_standard_example_verify
