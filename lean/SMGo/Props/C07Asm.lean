/-
  Property C07, assembly level — `openAsm` of /repo/sm4/gcm_amd64.s tied to SP 800-38D (Algorithm 5, GCM-AD) BY THEOREM over the
  regenerated listing `SMGo.Gen.ListAmd64Gcm.openAsm` (5559 instructions), run by the value semantics of SMGo/Model/ISAVal.lean
  (TRUSTED: the reading of the Intel SDM; compared with the real CPU on every check by the harness streams).

  What is proved here:
    * E1  `openAsm_decodes`, `openAsm_scheme`, `openAsm_labels`: the decoded listing IS the named scheme (`openCode`: prefix,
          `CalculateSMid`, `CalculateSPost` into the scratch buffer, `constantTimeCompare`, verdict, ladder without hashing) and every
          branch target is a label of the table;
    * E2/E3  `constantTimeCompare_is_or_of_xors`: for every tag size ≤ 16 the two loops (by 8, by 1) and the final fold leave in
          `G2` the OR of the byte-wise XORs of expected and received tag (loop inductions; the expected tag is overwritten in place);
          `openAsm_until_verdict`: the state at the verdict; the ladder is `C06AsmSeal.cryptoBlocksAsm_is_ladN` with hashFlag 0;
    * E4  **`openAsm_eq_spec`**: for all round keys, nonces of EVERY length (< 2^32), additional data, inputs `ct` (ciphertext ‖ tag,
          at least `t` bytes), tag sizes `t ≤ 16`, initial registers, old contents of destination, scratch buffer and result slot:
          the run returns; if `Spec.GCM.openGCM` rejects, the result slot is 0 and the destination is UNTOUCHED (only the scratch
          buffer has changed); if it accepts with plaintext `p`, the result slot is 1 and the destination is `p` followed by its
          old contents beyond |p|.  In particular no plaintext byte is written before the tag has been verified.
    * IN PLACE  **`openAsm_inplace_eq_spec`**: the same on the entry state `openStateInPlace` (SMGo/Model/ISAValGcmInPlace.lean) of the
          call `Open(ct[:0], nonce, ct, aad)`: the slots `dst` and `cipher` hold the SAME address, the destination region is the
          input array; on a mismatch the array is untouched, otherwise its first |ct| − t bytes are the plaintext and the tag
          bytes behind them keep their values.
-/
import SMGo.Proofs.ISAValInPlaceOpen
namespace SMGo.Props.C07Asm
open SMGo
open SMGo.Model.ISAVal SMGo.Model.GCM SMGo.Spec.GCM
open SMGo.Proofs.ISAVal
open SMGo.Model.ISA (Reg Opd Instr)

/-! ### E1 -/

theorem openAsm_decodes : Routine.ofListing Gen.ListAmd64Gcm.openAsm = .ok openR := openR_ok

theorem openAsm_scheme : openR.map erasePc = openCode := open_scheme

theorem openAsm_labels : labelsOk openR openLabels = true := open_labels

/-! ### E2/E3 -/

/-- **`constantTimeCompare`** inside any routine `r` at position `k` (with its three labels): `ts ≤ 16` bytes of the received tag
    `x` (at `G10`) are xored into the expected tag (the buffer `e` at `G0`, overwritten), and `G2` ends as the OR of all the xors -/
theorem constantTimeCompare_is_or_of_xors (r : Routine) (k : Nat) (hs : Slice r k ctCmpCode) (lF : findPc r 10092 = some (r.drop (k + 2)))
    (lS : findPc r 10121 = some (r.drop (k + 11))) (lD : findPc r 10149 = some (r.drop (k + 20)))
    (Mf : List Nat → List Region) (ebase : Nat) (bf : Buf Mf ebase 16) (x : List Nat) (xp : Nat)
    (hx : ∀ e, e.length = 16 → DataAt (Mf e) xp x) (hxb : ∀ b ∈ x, b < 2 ^ 8) (hxp : xp + x.length < 2 ^ 63) (heb : ebase + 16 < 2 ^ 63)
    (s : State) (hG : s.gpr.length = 16) (e : List Nat) (he : e.length = 16) (hm : s.mem = Mf e) (ts : Nat) (h14 : greg s 14 = ts)
    (hts : ts ≤ 16) (hxl : x.length = ts) (h10 : greg s 10 = xp) (h0 : greg s 0 = ebase) (hEb : ∀ b ∈ e.take ts, b < 2 ^ 8) :
    ∃ s' N e', N ≤ 9 * ts + 40 ∧ Reach r k s (k + 35) s' N ∧ s'.mem = Mf e' ∧ e'.length = 16 ∧
      greg s' 2 = orBytes (xorN (e.take ts) x) ∧ RegsKeep cmpKeepG s s' :=
  ctCmp_reach r k hs lF lS lD Mf ebase bf x xp hx hxb hxp heb s hG e he hm ts h14 hts hxl h10 h0 hEb

/-- the OR of the xors is zero exactly when the two byte strings are equal -/
theorem or_of_xors_zero_iff (a b : List Nat) (h : a.length = b.length) : orBytes (xorN a b) = 0 ↔ a = b :=
  orBytes_xorN_eq_zero a b h

/-- `openAsm` from its entry to the verdict (instruction 1775), any nonce: `G2` holds the OR of the differences between the
    expected tag (GHASH over additional data and ciphertext, length block, mask E(J0)) and the received tag -/
theorem openAsm_until_verdict (g v k rk : List Nat) (t : Nat) (dst nonce ct aad tmp : List Nat) (r0 : Nat)
    (hG : g.length = 16) (hV : v.length = 32) (hK : k.length = 8) (hrk : rk.length = 32) (hrkb : ∀ x ∈ rk, x < 2 ^ 32)
    (hnl : nonce.length < 2 ^ 32) (hnb : ∀ x ∈ nonce, x < 2 ^ 8) (hab : ∀ x ∈ aad, x < 2 ^ 8) (hall : aad.length < 2 ^ 32)
    (hcb : ∀ x ∈ ct, x < 2 ^ 8) (hcl : ct.length < 2 ^ 32) (ht : t ≤ 16) (htc : t ≤ ct.length) (htmp : tmp.length = 32) :
    ∃ s N, N ≤ 34 * (nonce.length / 16) + 34 * (aad.length / 16) + 34 * ((ct.length - t) / 16) + 2400 ∧
      Reach openR 0 (openState g v k rk t dst nonce ct aad tmp r0) 1775 s N ∧
      AtVerdict g v k rk t dst nonce ct aad tmp r0 (j0N rk nonce) s := by
  obtain ⟨s5, N5, hN5, r5, ap, hf5⟩ := open_prefix_any g v k rk t dst nonce ct aad tmp r0 hG hV hK hrk hrkb hnl hnb hab hall htmp
  obtain ⟨s9, N9, hN9, r9, av⟩ := open_verdict_after g v k rk t dst nonce ct aad tmp r0 hrk hnl hall hcb hcl ht htc _ s5 ap hf5
  exact ⟨s9, N5 + N9, by omega, r5.trans r9, av⟩

/-- the decision and the plaintext of the listing (on numbers) are `Model.GCM.open`, for every nonce -/
theorem openAsm_model (rk nonce ct aad : List Nat) (t fuel : Nat) (hnb : ∀ x ∈ nonce, x < 2 ^ 8)
    (hcb : ∀ x ∈ ct, x < 2 ^ 8) (hab : ∀ x ∈ aad, x < 2 ^ 8) (ht : t ≤ 16) (htc : t ≤ ct.length) (hfuel : fuelNeed (ct.length - t) ≤ fuel) :
    Model.GCM.open (encE rk) t (toB nonce) (toB ct) (toB aad)
      = if orBytes (xorN ((openTagJ rk (j0N rk nonce) ct aad t).take t) (ct.drop (ct.length - t))) = 0
        then some (toB (openOutJ rk (j0N rk nonce) ct t fuel)) else none :=
  open_modelJ rk (j0N rk nonce) nonce ct aad t fuel (j0N_length rk nonce) (j0N_bytes rk nonce hnb) (j0N_model rk nonce hnb) hcb hab ht htc hfuel

/-! ### E4 -/

/-- **`openAsm` = Algorithm 5 of SP 800-38D (GCM-AD) over SM4, for EVERY nonce length.**  The pair returned by `runOpen` is (result
    slot `ret1`, destination buffer). -/
theorem openAsm_eq_spec (g v k rk : List Nat) (t : Nat) (dst nonce ct aad tmp : List Nat) (r0 : Nat)
    (hG : g.length = 16) (hV : v.length = 32) (hK : k.length = 8) (hrk : rk.length = 32) (hrkb : ∀ x ∈ rk, x < 2 ^ 32)
    (hnl : nonce.length < 2 ^ 32) (hnb : ∀ x ∈ nonce, x < 2 ^ 8) (hab : ∀ x ∈ aad, x < 2 ^ 8) (hall : aad.length < 2 ^ 32)
    (hcb : ∀ x ∈ ct, x < 2 ^ 8) (hcl : ct.length < 2 ^ 32) (ht : t ≤ 16) (htc : t ≤ ct.length) (htmp : tmp.length = 32)
    (hdl : ct.length - t ≤ dst.length) (hdl32 : dst.length < 2 ^ 32) (fuel : Nat)
    (hfuel : 34 * (nonce.length / 16) + 34 * (aad.length / 16) + 34 * ((ct.length - t) / 16) + 700 * ((ct.length - t) / 256) + 7000 < fuel) :
    runOpen fuel (openState g v k rk t dst nonce ct aad tmp r0)
      = .ok (match openGCM (encE rk) t (toB nonce) (toB ct) (toB aad) with
             | some p => (1, spliceAt dst 0 (p.map (·.toNat)))
             | none => (0, dst)) :=
  openAsm_run g v k rk t dst nonce ct aad tmp r0 hG hV hK hrk hrkb hnl hnb hab hall hcb hcl ht htc htmp hdl hdl32 fuel hfuel

/-- **`openAsm` called IN PLACE** (`dst` = the input's own array, as `Open(ct[:0], nonce, ct, aad)` passes it) **= Algorithm 5 of
    SP 800-38D over SM4, for every nonce length.** -/
theorem openAsm_inplace_eq_spec (g v k rk : List Nat) (t : Nat) (ct nonce ur aad tmp : List Nat) (r0 : Nat)
    (hG : g.length = 16) (hV : v.length = 32) (hK : k.length = 8) (hrk : rk.length = 32) (hrkb : ∀ x ∈ rk, x < 2 ^ 32)
    (hnl : nonce.length < 2 ^ 32) (hnb : ∀ x ∈ nonce, x < 2 ^ 8) (hab : ∀ x ∈ aad, x < 2 ^ 8) (hall : aad.length < 2 ^ 32)
    (hcb : ∀ x ∈ ct, x < 2 ^ 8) (hcl : ct.length < 2 ^ 32) (ht : t ≤ 16) (htc : t ≤ ct.length) (htmp : tmp.length = 32) (hur : ur.length < 2 ^ 32) (fuel : Nat)
    (hfuel : 34 * (nonce.length / 16) + 34 * (aad.length / 16) + 34 * ((ct.length - t) / 16) + 700 * ((ct.length - t) / 256) + 7000 < fuel) :
    runOpen fuel (openStateInPlace g v k rk t ct nonce ur aad tmp r0)
      = .ok (match openGCM (encE rk) t (toB nonce) (toB ct) (toB aad) with
             | some p => (1, spliceAt ct 0 (p.map (·.toNat)))
             | none => (0, ct)) :=
  openAsm_inplace_run g v k rk t ct nonce ur aad tmp r0 hG hV hK hrk hrkb hnl hnb hab hall hcb hcl ht htc htmp hur fuel hfuel

end SMGo.Props.C07Asm

#print axioms SMGo.Props.C07Asm.openAsm_decodes
#print axioms SMGo.Props.C07Asm.openAsm_scheme
#print axioms SMGo.Props.C07Asm.openAsm_labels
#print axioms SMGo.Props.C07Asm.constantTimeCompare_is_or_of_xors
#print axioms SMGo.Props.C07Asm.or_of_xors_zero_iff
#print axioms SMGo.Props.C07Asm.openAsm_until_verdict
#print axioms SMGo.Props.C07Asm.openAsm_model
#print axioms SMGo.Props.C07Asm.openAsm_eq_spec
#print axioms SMGo.Props.C07Asm.openAsm_inplace_eq_spec
