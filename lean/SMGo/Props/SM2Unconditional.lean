/-
  The SM2 protocol properties (C01, C02, C03, C12, C13, C19) WITHOUT hypotheses, for the instance
  regenerated from the source, `Model.SM2.ctx`.

  The property files state their theorems for any context `X` with `F : CurveFacts X` (the facts about
  the layers below sm2.go).  `Proofs.SM2FactsInst.ctx_facts : CurveFacts Model.SM2.ctx` discharges that
  bundle from C04 (SM3), C14 (multiplication schedules), C15 (point layer), C16 (field layer), C18
  (tables, parameters) and the primality of n; here each headline theorem is applied to it.  Names:
  `ctx_<name in the property file>`.  (`C02.sign_no_panic` and `C03.verify_no_panic` are the statements
  `ctx_signHashed_no_panic` and `ctx_verifyHashed_no_panic` of C01 and are not repeated.)

  `Model.SM2.ctx`: point layer over `Fp = montOps pParams` with the regenerated `Add`/`Double`
  programs, scalar field `Fn = montOps nParams` with the regenerated addition chains, the generated
  tables `sm2Precomputed_6_3_14(_Remainder)`, `n`, `zBytes` and the SM3 constants of the source.
-/
import SMGo.Proofs.SM2FactsInst
import SMGo.Props.C01
import SMGo.Props.C02
import SMGo.Props.C03
import SMGo.Props.C12
import SMGo.Props.C13
import SMGo.Props.C19
namespace SMGo.Props.SM2
open SMGo SMGo.Model SMGo.Model.SM2 SMGo.Proofs.SM2Facts
open SMGo.Proofs.SM2FactsInst (ctx_facts)
open SMGo.Spec.SM2 (candidates firstValid validKey)

/-! ## C01 — what the signer returns, the verifier accepts; neither call panics -/

theorem ctx_derivePublic_is_point (priv : Bytes) :
    derivePublic ctx priv = (match Spec.SM2.derive priv with
      | some (px, py) => .ok (px, py)
      | none => .err) :=
  C01.derivePublic_is_point ctx_facts priv

theorem ctx_sign_then_verify (sc : Script) (priv e r s : Bytes) (c x y : Nat) (he : e.length = 32)
    (hP : Spec.SM2.smul (Bytes.toNatBE priv) Spec.SM2.G = some (x, y))
    (h : signHashed ctx sc priv e = .ok ((r, s), c)) :
    verifyHashed ctx (Bytes.ofNatBE 32 x) (Bytes.ofNatBE 32 y) e r s = .ok true :=
  C01.sign_then_verify ctx_facts sc priv e r s c x y he hP h

theorem ctx_sign_then_verify_derived (sc : Script) (priv e r s px py : Bytes) (c : Nat)
    (he : e.length = 32) (hpub : derivePublic ctx priv = .ok (px, py))
    (h : signHashed ctx sc priv e = .ok ((r, s), c)) :
    verifyHashed ctx px py e r s = .ok true :=
  C01.sign_then_verify_derived ctx_facts sc priv e r s px py c he hpub h

theorem ctx_signZa_then_verifyZa (sc : Script) (priv z msg r s : Bytes) (c x y : Nat)
    (hP : Spec.SM2.smul (Bytes.toNatBE priv) Spec.SM2.G = some (x, y))
    (h : signZa ctx sc priv z msg = .ok ((r, s), c)) :
    verifyZa ctx (Bytes.ofNatBE 32 x) (Bytes.ofNatBE 32 y) z msg r s = .ok true :=
  C01.signZa_then_verifyZa ctx_facts sc priv z msg r s c x y hP h

theorem ctx_signId_then_verifyId (id : Bytes) (sc : Script) (priv msg r s : Bytes) (c x y : Nat)
    (hP : Spec.SM2.smul (Bytes.toNatBE priv) Spec.SM2.G = some (x, y))
    (h : sign ctx id (Bytes.ofNatBE 32 x) (Bytes.ofNatBE 32 y) sc priv msg = .ok ((r, s), c)) :
    verify ctx id (Bytes.ofNatBE 32 x) (Bytes.ofNatBE 32 y) msg r s = .ok true :=
  C01.signId_then_verifyId ctx_facts id sc priv msg r s c x y hP h

theorem ctx_signHashed_no_panic (sc : Script) (priv e : Bytes) : signHashed ctx sc priv e ≠ .panic :=
  C01.signHashed_no_panic ctx_facts sc priv e

theorem ctx_signZa_no_panic (sc : Script) (priv z msg : Bytes) : signZa ctx sc priv z msg ≠ .panic :=
  C01.signZa_no_panic ctx_facts sc priv z msg

theorem ctx_sign_no_panic (id px py : Bytes) (sc : Script) (priv msg : Bytes) :
    sign ctx id px py sc priv msg ≠ .panic :=
  C01.sign_no_panic ctx_facts id px py sc priv msg

theorem ctx_verifyHashed_no_panic (px py e r s : Bytes) : verifyHashed ctx px py e r s ≠ .panic :=
  C01.verifyHashed_no_panic ctx_facts px py e r s

theorem ctx_verifyZa_no_panic (px py z msg r s : Bytes) : verifyZa ctx px py z msg r s ≠ .panic :=
  C01.verifyZa_no_panic ctx_facts px py z msg r s

theorem ctx_verify_no_panic (id px py msg r s : Bytes) : verify ctx id px py msg r s ≠ .panic :=
  C01.verify_no_panic ctx_facts id px py msg r s

theorem ctx_sign_succeeds (sc : Script) (priv e : Bytes) (j r s : Nat) (hl : priv.length ≤ 32)
    (hv : Spec.SM2.validKey (Bytes.toNatBE priv) = true)
    (hs : Spec.SM2.signStream (Bytes.toNatBE priv) (Bytes.toNatBE e)
      ((Spec.SM2.candidates sc []).map Bytes.toNatBE) 0 = some (j, r, s)) :
    signHashed ctx sc priv e = .ok ((Bytes.ofNatBE 32 r, Bytes.ofNatBE 32 s), 32 * (j + 1)) :=
  C01.sign_succeeds ctx_facts sc priv e j r s hl hv hs

/-! ## C02 — SignHashed outputs exactly the standard's signature for the first acceptable nonce -/

theorem ctx_testPrivateKey_exact (priv : Bytes) :
    testPrivateKey ctx priv = .ok (if priv.length > 32 then (priv.length : Int) - 32
      else if Spec.SM2.validKey (Bytes.toNatBE priv) then 0 else -1) :=
  C02.testPrivateKey_exact ctx_facts priv

theorem ctx_testPrivateKey_zero_iff (priv : Bytes) :
    testPrivateKey ctx priv = .ok 0 ↔ priv.length ≤ 32 ∧ Spec.SM2.validKey (Bytes.toNatBE priv) = true :=
  C02.testPrivateKey_zero_iff ctx_facts priv

theorem ctx_one_candidate (priv e : Bytes) (hv : Spec.SM2.validKey (Bytes.toNatBE priv) = true)
    (fuel : Nat) (sc sc' : Script) (K : Bytes) (hread : readFull sc 32 [] = (some K, sc'))
    (hK : K.length = 32) :
    signLoop ctx priv e (fuel + 1) sc =
      match Spec.SM2.signWith (Bytes.toNatBE priv) (Bytes.toNatBE e) (Bytes.toNatBE K) with
      | some (r, s) => .ok ((Bytes.ofNatBE 32 r, Bytes.ofNatBE 32 s), sc')
      | none => signLoop ctx priv e fuel sc' :=
  C02.one_candidate ctx_facts priv e hv fuel sc sc' K hread hK

theorem ctx_sign_is_standard_any_digest_length (sc : Script) (priv e : Bytes) :
    signHashed ctx sc priv e =
      (match Spec.SM2.signBytes priv e sc with
       | some (r, s, c) => .ok ((r, s), c)
       | none => .err) :=
  C02.sign_is_standard_any_digest_length ctx_facts sc priv e

/-- **C02, unconditional** -/
theorem ctx_sign_is_standard (sc : Script) (priv e : Bytes) (he : e.length = 32) :
    signHashed ctx sc priv e =
      (match Spec.SM2.signBytes priv e sc with
       | some (r, s, c) => .ok ((r, s), c)
       | none => .err) :=
  C02.sign_is_standard ctx_facts sc priv e he

theorem ctx_invalid_key_refused (sc : Script) (priv e : Bytes)
    (h : ¬ (priv.length ≤ 32 ∧ Spec.SM2.validKey (Bytes.toNatBE priv) = true)) :
    signHashed ctx sc priv e = .err :=
  C02.invalid_key_refused ctx_facts sc priv e h

/-! ## C03 — VerifyHashed accepts exactly what the standard's verification procedure accepts -/

/-- **C03, unconditional** -/
theorem ctx_verify_iff_standard (px py e r s : Bytes) :
    verifyHashed ctx px py e r s = .ok (Spec.SM2.verify px py e r s) :=
  C03.verify_iff_standard ctx_facts px py e r s

theorem ctx_verify_true_iff (px py e r s : Bytes) :
    verifyHashed ctx px py e r s = .ok true ↔
      (px.length = 32 ∧ py.length = 32 ∧ e.length = 32 ∧ r.length = 32 ∧ s.length = 32) ∧
      (1 ≤ Bytes.toNatBE r ∧ Bytes.toNatBE r < Spec.SM2.n) ∧
      (1 ≤ Bytes.toNatBE s ∧ Bytes.toNatBE s < Spec.SM2.n) ∧
      (Bytes.toNatBE r + Bytes.toNatBE s) % Spec.SM2.n ≠ 0 ∧
      (Bytes.toNatBE px < Spec.SM2.p ∧ Bytes.toNatBE py < Spec.SM2.p ∧
        Spec.SM2.onCurve (Bytes.toNatBE px) (Bytes.toNatBE py) = true) ∧
      ∃ x1 y1, Spec.SM2.add (Spec.SM2.smul (Bytes.toNatBE s) Spec.SM2.G)
          (Spec.SM2.smul ((Bytes.toNatBE r + Bytes.toNatBE s) % Spec.SM2.n)
            (some (Bytes.toNatBE px, Bytes.toNatBE py))) = some (x1, y1) ∧
        (Bytes.toNatBE e + x1) % Spec.SM2.n = Bytes.toNatBE r :=
  C03.verify_true_iff ctx_facts px py e r s

theorem ctx_verify_false_of_not (px py e r s : Bytes) (h : Spec.SM2.verify px py e r s = false) :
    verifyHashed ctx px py e r s = .ok false :=
  C03.verify_false_of_not ctx_facts px py e r s h

theorem ctx_verifyZa_iff_standard (px py z msg r s : Bytes) :
    verifyZa ctx px py z msg r s = .ok (Spec.SM2.verify px py (Spec.SM2.digest z msg) r s) :=
  C03.verifyZa_iff_standard ctx_facts px py z msg r s

theorem ctx_verifyId_iff_standard (id px py msg r s : Bytes) :
    verify ctx id px py msg r s = .ok (Spec.SM2.verifyId id px py msg r s) :=
  C03.verifyId_iff_standard ctx_facts id px py msg r s

/-! ## C12 — key generation, private-key test, public-key derivation, on-curve test -/

theorem ctx_testPrivateKey_32 (b : Bytes) (hb : b.length = 32) :
    testPrivateKey ctx b = .ok (if validKey (Bytes.toNatBE b) then 0 else -1) :=
  C12.testPrivateKey_32 ctx ctx_facts.n_eq b hb

theorem ctx_testPrivateKey_accepts_iff (b : Bytes) :
    (∃ r, testPrivateKey ctx b = .ok r) ∧
    (testPrivateKey ctx b = .ok 0 ↔ b.length ≤ 32 ∧ validKey (Bytes.toNatBE b) = true) :=
  C12.testPrivateKey_accepts_iff ctx ctx_facts.n_eq b

/-- **C12 (key generation), unconditional** -/
theorem ctx_generateKey_spec (sc : Option Script) :
    generateKey ctx sc =
      (match Spec.SM2.genKey sc with
       | some (d, x, y, c) => .ok ((d, x, y), c)
       | none => .err) :=
  C12.generateKey_spec ctx ctx_facts sc

theorem ctx_genKeyLoop_spec (f : Nat) (sc : Script) :
    (∀ d j, firstValid (candidates sc []) 0 = some (d, j) → j < f →
        ∃ sc', genKeyLoop ctx f sc = .ok (d, sc') ∧ avail sc = avail sc' + 32 * (j + 1)) ∧
    (∀ d j, firstValid (candidates sc []) 0 = some (d, j) → f ≤ j → genKeyLoop ctx f sc = .err) ∧
    (firstValid (candidates sc []) 0 = none → genKeyLoop ctx f sc = .err) :=
  C12.genKeyLoop_spec ctx ctx_facts.n_eq f sc

theorem ctx_generateKey_ok_iff (sc : Script) :
    (∃ r, generateKey ctx (some sc) = .ok r) ↔ ∃ K ∈ candidates sc [], validKey (Bytes.toNatBE K) = true :=
  C12.generateKey_ok_iff ctx ctx_facts sc

theorem ctx_generateKey_ok (sc : Script) (d x y : Bytes) (c : Nat)
    (h : generateKey ctx (some sc) = .ok ((d, x, y), c)) :
    d.length = 32 ∧ 1 ≤ Bytes.toNatBE d ∧ Bytes.toNatBE d ≤ Spec.SM2.n - 2 ∧ d ∈ candidates sc [] ∧
    (∃ qx qy, Spec.SM2.smul (Bytes.toNatBE d) Spec.SM2.G = some (qx, qy) ∧
      x = Bytes.ofNatBE 32 qx ∧ y = Bytes.ofNatBE 32 qy) ∧
    checkOnCurve ctx x y = true ∧ 32 ∣ c :=
  C12.generateKey_ok ctx ctx_facts sc d x y c h

theorem ctx_derivePublic_spec (priv : Bytes) :
    derivePublic ctx priv =
      (match Spec.SM2.derive priv with
       | some (x, y) => .ok (x, y)
       | none => .err) :=
  C12.derivePublic_spec ctx ctx_facts priv

theorem ctx_derivePublic_err_iff (priv : Bytes) :
    derivePublic ctx priv = .err ↔ ¬ (priv.length = 32 ∧ ¬ Spec.SM2.n ∣ Bytes.toNatBE priv) :=
  C12.derivePublic_err_iff ctx ctx_facts priv

theorem ctx_derivePublic_of_valid (priv : Bytes) (hl : priv.length = 32)
    (hv : validKey (Bytes.toNatBE priv) = true) :
    ∃ qx qy, Spec.SM2.smul (Bytes.toNatBE priv) Spec.SM2.G = some (qx, qy) ∧
      derivePublic ctx priv = .ok (Bytes.ofNatBE 32 qx, Bytes.ofNatBE 32 qy) ∧
      checkOnCurve ctx (Bytes.ofNatBE 32 qx) (Bytes.ofNatBE 32 qy) = true :=
  C12.derivePublic_of_valid ctx ctx_facts priv hl hv

theorem ctx_checkOnCurve_spec (x y : Bytes) : checkOnCurve ctx x y = Spec.SM2.onCurveBytes x y :=
  C12.checkOnCurve_spec ctx ctx_facts x y

theorem ctx_checkOnCurve_iff (x y : Bytes) :
    checkOnCurve ctx x y = true ↔
      x.length = 32 ∧ y.length = 32 ∧ Bytes.toNatBE x < Spec.SM2.p ∧ Bytes.toNatBE y < Spec.SM2.p ∧
      (Bytes.toNatBE y * Bytes.toNatBE y) % Spec.SM2.p =
        (Bytes.toNatBE x * Bytes.toNatBE x % Spec.SM2.p * Bytes.toNatBE x + Spec.SM2.a * Bytes.toNatBE x
          + Spec.SM2.b) % Spec.SM2.p :=
  C12.checkOnCurve_iff ctx ctx_facts x y

/-! ## C13 — ZA, e = SM3(ZA ‖ M), and the entry points built on them -/

theorem ctx_za_spec (id px py : Bytes) :
    za ctx id px py =
      (match Spec.SM2.za id px py with
       | some z => .ok z
       | none => .err) :=
  C13.za_spec ctx ctx_facts id px py

theorem ctx_hashZaMsg_spec (z msg : Bytes) : hashZaMsg ctx z msg = Spec.SM2.digest z msg :=
  C13.hashZaMsg_spec ctx ctx_facts z msg

theorem ctx_signZa_eq (sc : Script) (priv z msg : Bytes) :
    signZa ctx sc priv z msg = signHashed ctx sc priv (Spec.SM2.digest z msg) :=
  C13.signZa_eq ctx ctx_facts sc priv z msg

theorem ctx_sign_eq_signHashed (id px py : Bytes) (sc : Script) (priv msg : Bytes) :
    sign ctx id px py sc priv msg =
      (match Spec.SM2.za id px py with
       | some z => signHashed ctx sc priv (Spec.SM2.digest z msg)
       | none => .err) :=
  C13.sign_eq_signHashed ctx ctx_facts id px py sc priv msg

theorem ctx_verifyZa_eq (px py z msg r s : Bytes) :
    verifyZa ctx px py z msg r s = verifyHashed ctx px py (Spec.SM2.digest z msg) r s :=
  C13.verifyZa_eq ctx ctx_facts px py z msg r s

theorem ctx_verify_eq_verifyHashed (id px py msg r s : Bytes) :
    verify ctx id px py msg r s =
      (match Spec.SM2.za id px py with
       | some z => verifyHashed ctx px py (Spec.SM2.digest z msg) r s
       | none => .ok false) :=
  C13.verify_eq_verifyHashed ctx ctx_facts id px py msg r s

/-- `Sign` returns what the standard defines at the id/message level (the hypothesis of
    `C13.sign_interop` is C02) -/
theorem ctx_sign_interop (id px py : Bytes) (sc : Script) (priv msg : Bytes) :
    sign ctx id px py sc priv msg
      = C13.ofOption ((Spec.SM2.signIdBytes id px py priv msg sc).map (fun t => ((t.1, t.2.1), t.2.2))) := by
  refine C13.sign_interop ctx ctx_facts (fun sc priv e => ?_) id px py sc priv msg
  rw [ctx_sign_is_standard_any_digest_length]
  cases Spec.SM2.signBytes priv e sc with
  | none => rfl
  | some t => rfl

/-- `Verify` returns the standard's verdict at the id/message level (the hypothesis of
    `C13.verify_interop` is C03) -/
theorem ctx_verify_interop (id px py msg r s : Bytes) :
    verify ctx id px py msg r s = .ok (Spec.SM2.verifyId id px py msg r s) :=
  C13.verify_interop ctx ctx_facts ctx_verify_iff_standard id px py msg r s

/-! ## C19 — randomness: errors of the source are reported, never a key or signature from a partial draw -/

theorem ctx_genKey_error (sc : Script)
    (h : ∀ K ∈ candidates sc [], validKey (Bytes.toNatBE K) = false) :
    generateKey ctx (some sc) = .err :=
  C19.genKey_error ctx ctx_facts.n_eq sc h

/-- **C19 (key generation), unconditional** -/
theorem ctx_genKey_error_iff (sc : Option Script) :
    (generateKey ctx sc = .err ↔ Spec.SM2.genKey sc = none) ∧ generateKey ctx sc ≠ .panic :=
  C19.genKey_error_iff ctx ctx_facts sc

theorem ctx_genKey_ok_complete (sc : Script) (d x y : Bytes) (c : Nat)
    (h : generateKey ctx (some sc) = .ok ((d, x, y), c)) :
    ∃ j, (candidates sc [])[j]? = some d ∧ d.length = 32 ∧ validKey (Bytes.toNatBE d) = true ∧
      (∀ i, i < j → ∀ K, (candidates sc [])[i]? = some K → validKey (Bytes.toNatBE K) = false) ∧
      c = 32 * (j + 1) :=
  C19.genKey_ok_complete ctx ctx_facts sc d x y c h

theorem ctx_sign_error_no_candidate (sc : Script) (priv e : Bytes)
    (h : (Proofs.SM2Reader.dataBefore sc).length < 32) : signHashed ctx sc priv e = .err :=
  C19.sign_error_no_candidate ctx ctx_facts.n_eq sc priv e h

/-! ## Non-vacuity: the example of the standard (the recommended-curve example of GB/T 32918.5-2017 / GM/T 0003.5-2012 Annex A)

    d = 3945208F…, public key (09F9DF31…, CCEA490C…), id "1234567812345678", M "message digest",
    e = F0B43E94…, k = 59276E27…, r = F5A03B06…, s = B1B6AA29…  The SPECIFICATION side is evaluated in
    the kernel; the statements about the MODEL follow through the theorems above (the model itself is
    not evaluated). -/

def exD : Bytes := Bytes.ofNatBE 32 0x3945208F7B2144B13F36E38AC6D39F95889393692860B51A42FB81EF4DF7C5B8
def exE : Bytes := Bytes.ofNatBE 32 0xF0B43E94BA45ACCAACE692ED534382EB17E6AB5A19CE7B31F4486FDFC0D28640
def exK : Bytes := Bytes.ofNatBE 32 0x59276E27D506861A16680F3AD9C02DCCEF3CC1FA3CDBE4CE6D54B80DEAC1BC21
def exR : Bytes := Bytes.ofNatBE 32 0xF5A03B0648D2C4630EEAC513E1BB81A15944DA3827D5B74143AC7EACEEE720B3
def exS : Bytes := Bytes.ofNatBE 32 0xB1B6AA29DF212FD8763182BC0D421CA1BB9038FD1F7F42D4840B69C485BBC1AA
def exPx : Bytes := Bytes.ofNatBE 32 0x09F9DF311E5421A150DD7D161E4BC5C672179FAD1833FC076BB08FF356F35020
def exPy : Bytes := Bytes.ofNatBE 32 0xCCEA490CE26775A52DC6EA718CC1AA600AED05FBF35E084A6632F6072DA9AD13
/-- "1234567812345678" -/
def exId : Bytes := [0x31,0x32,0x33,0x34,0x35,0x36,0x37,0x38,0x31,0x32,0x33,0x34,0x35,0x36,0x37,0x38]
/-- "message digest" -/
def exMsg : Bytes := [0x6d,0x65,0x73,0x73,0x61,0x67,0x65,0x20,0x64,0x69,0x67,0x65,0x73,0x74]

/-- the standard's signature for its example key, digest and nonce (kernel evaluation of the spec) -/
theorem standard_example_signBytes :
    Spec.SM2.signBytes exD exE [.data exK] = some (exR, exS, 32) := by decide +kernel

theorem standard_example_derive : Spec.SM2.derive exD = some (exPx, exPy) := by decide +kernel

theorem standard_example_digest :
    (Spec.SM2.za exId exPx exPy).map (fun z => Spec.SM2.digest z exMsg) = some exE := by decide +kernel

/-- the specification's verifier accepts the standard's example signature — evaluated directly in the kernel,
    independently of the theorem chain (a test of `Spec.SM2.verify`, labelled as such) -/
theorem standard_example_verify : Spec.SM2.verify exPx exPy exE exR exS = true := by decide +kernel

theorem exE_length : exE.length = 32 := Proofs.SM2SignBytes.ofNatBE_length 32 _

/-- the model of `SignHashed` on the standard's example returns the standard's (r, s), 32 bytes read -/
theorem ctx_standard_example_signHashed :
    signHashed ctx [.data exK] exD exE = .ok ((exR, exS), 32) := by
  rw [ctx_sign_is_standard _ _ _ exE_length, standard_example_signBytes]

/-- the model of `DerivePublic` returns the standard's public key -/
theorem ctx_standard_example_derivePublic : derivePublic ctx exD = .ok (exPx, exPy) := by
  rw [ctx_derivePublic_spec, standard_example_derive]

/-- and the model of `VerifyHashed` accepts that signature under that key (C01 through its hypotheses) -/
theorem ctx_standard_example_verifyHashed : verifyHashed ctx exPx exPy exE exR exS = .ok true :=
  ctx_sign_then_verify_derived [.data exK] exD exE exR exS exPx exPy 32 exE_length
    ctx_standard_example_derivePublic ctx_standard_example_signHashed

/-- the id/message-level entry point `Sign` on the standard's id and message: same signature -/
theorem ctx_standard_example_sign :
    sign ctx exId exPx exPy [.data exK] exD exMsg = .ok ((exR, exS), 32) := by
  obtain ⟨z, hz1, hz2⟩ := Option.map_eq_some_iff.mp standard_example_digest
  rw [ctx_sign_eq_signHashed, hz1]
  show signHashed ctx [.data exK] exD (Spec.SM2.digest z exMsg) = _
  rw [hz2]
  exact ctx_standard_example_signHashed

/-- … and `Verify` accepts it -/
theorem ctx_standard_example_verify : verify ctx exId exPx exPy exMsg exR exS = .ok true := by
  obtain ⟨z, hz1, hz2⟩ := Option.map_eq_some_iff.mp standard_example_digest
  rw [ctx_verify_eq_verifyHashed, hz1]
  show verifyHashed ctx exPx exPy (Spec.SM2.digest z exMsg) exR exS = _
  rw [hz2]
  exact ctx_standard_example_verifyHashed

end SMGo.Props.SM2

open SMGo.Props.SM2
#print axioms SMGo.Proofs.SM2FactsInst.ctx_facts
#print axioms ctx_derivePublic_is_point
#print axioms ctx_sign_then_verify
#print axioms ctx_sign_then_verify_derived
#print axioms ctx_signZa_then_verifyZa
#print axioms ctx_signId_then_verifyId
#print axioms ctx_signHashed_no_panic
#print axioms ctx_signZa_no_panic
#print axioms ctx_sign_no_panic
#print axioms ctx_verifyHashed_no_panic
#print axioms ctx_verifyZa_no_panic
#print axioms ctx_verify_no_panic
#print axioms ctx_sign_succeeds
#print axioms ctx_testPrivateKey_exact
#print axioms ctx_testPrivateKey_zero_iff
#print axioms ctx_one_candidate
#print axioms ctx_sign_is_standard_any_digest_length
#print axioms ctx_sign_is_standard
#print axioms ctx_invalid_key_refused
#print axioms ctx_verify_iff_standard
#print axioms ctx_verify_true_iff
#print axioms ctx_verify_false_of_not
#print axioms ctx_verifyZa_iff_standard
#print axioms ctx_verifyId_iff_standard
#print axioms ctx_testPrivateKey_32
#print axioms ctx_testPrivateKey_accepts_iff
#print axioms ctx_generateKey_spec
#print axioms ctx_genKeyLoop_spec
#print axioms ctx_generateKey_ok_iff
#print axioms ctx_generateKey_ok
#print axioms ctx_derivePublic_spec
#print axioms ctx_derivePublic_err_iff
#print axioms ctx_derivePublic_of_valid
#print axioms ctx_checkOnCurve_spec
#print axioms ctx_checkOnCurve_iff
#print axioms ctx_za_spec
#print axioms ctx_hashZaMsg_spec
#print axioms ctx_signZa_eq
#print axioms ctx_sign_eq_signHashed
#print axioms ctx_verifyZa_eq
#print axioms ctx_verify_eq_verifyHashed
#print axioms ctx_sign_interop
#print axioms ctx_verify_interop
#print axioms ctx_genKey_error
#print axioms ctx_genKey_error_iff
#print axioms ctx_genKey_ok_complete
#print axioms ctx_sign_error_no_candidate
#print axioms standard_example_signBytes
#print axioms standard_example_derive
#print axioms standard_example_digest
#print axioms ctx_standard_example_signHashed
#print axioms ctx_standard_example_derivePublic
#print axioms standard_example_verify
#print axioms ctx_standard_example_verifyHashed
#print axioms ctx_standard_example_sign
#print axioms ctx_standard_example_verify
